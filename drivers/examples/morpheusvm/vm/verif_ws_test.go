//go:build verif

// X07 driver (see /verif/spec/WsListeners.tla): real websocket API of a morpheusvm VM (vmtest network of one node, the
// default options include ws.With()) with real ws.WebSocketClient clients.  Clients register transactions (TxMode
// message = listen + submit) and block streaming; blocks are built, verified and accepted; what every client receives
// is logged.  Registrations have no acknowledgement, so every client step ends with a valid "marker" transaction on the
// same connection and the driver waits until the mempool holds it: the server handles a connection's messages in
// order, so everything the client sent before has been processed.  Uses the helpers of verif_submit_test.go.
package vm_test

import (
	"context"
	"encoding/json"
	"errors"
	"fmt"
	"math"
	"math/rand"
	"os"
	"path/filepath"
	"strings"
	"testing"
	"time"

	"github.com/ava-labs/avalanchego/ids"

	"github.com/ava-labs/hypersdk/api/ws"
	"github.com/ava-labs/hypersdk/auth"
	"github.com/ava-labs/hypersdk/chain"
	"github.com/ava-labs/hypersdk/chain/chaintest"
	"github.com/ava-labs/hypersdk/codec"
	"github.com/ava-labs/hypersdk/examples/morpheusvm/actions"
	"github.com/ava-labs/hypersdk/examples/morpheusvm/storage"
	"github.com/ava-labs/hypersdk/fees"
	"github.com/ava-labs/hypersdk/genesis"
	"github.com/ava-labs/hypersdk/pubsub"
	"github.com/ava-labs/hypersdk/state/metadata"
	"github.com/ava-labs/hypersdk/vm/defaultvm"
	"github.com/ava-labs/hypersdk/vm/vmtest"

	morpheusvm "github.com/ava-labs/hypersdk/examples/morpheusvm/vm"
	hvm "github.com/ava-labs/hypersdk/vm"
)

type x07Client struct {
	id     int
	cli    *ws.WebSocketClient
	open   bool
	blocks bool
	regs   map[int]bool // driver's belief about open registrations, used only to choose how long to wait
}

func x07Wait(cond func() bool) bool {
	deadline := time.Now().Add(30 * time.Second)
	for time.Now().Before(deadline) {
		if cond() {
			return true
		}
		time.Sleep(2 * time.Millisecond)
	}
	return cond()
}

func TestVerifWsListeners(t *testing.T) {
	outDir := os.Getenv("VERIF_OUT")
	if outDir == "" {
		t.Skip("VERIF_OUT not set")
	}
	seed := int64(x05EnvInt("VERIF_SEED", 1))
	groups := x05EnvInt("VERIF_SCENARIOS", 6)
	rounds := x05EnvInt("VERIF_ROUNDS", 10)
	only := x05EnvInt("VERIF_ONLY", -1)
	ctx := context.Background()
	stats := map[string]int{}
	for g := 0; g < groups; g++ {
		if only >= 0 && only != g {
			continue
		}
		r := rand.New(rand.NewSource(seed*9_000_011 + int64(g)))
		w := &x05World{t: t, addr: map[string]codec.Address{}, stats: stats}
		names := []string{"a", "b"}
		var allocs []*genesis.CustomAllocation
		for i, n := range names {
			var ad codec.Address
			ad[0], ad[1], ad[2], ad[3] = chaintest.TestAuthTypeID, byte(i+1), byte(r.Intn(256)), byte(g)
			w.addr[n] = ad
			allocs = append(allocs, &genesis.CustomAllocation{Address: ad, Balance: 1_000_000_000_000})
		}
		gen := genesis.NewDefaultGenesis(allocs)
		gen.Rules.WindowTargetUnits = fees.Dimensions{math.MaxUint64, math.MaxUint64, math.MaxUint64, math.MaxUint64, math.MaxUint64}
		gen.Rules.MaxBlockUnits = fees.Dimensions{1800000, math.MaxUint64, math.MaxUint64, math.MaxUint64, math.MaxUint64}
		gen.Rules.MinBlockGap = 0
		gen.Rules.MinEmptyBlockGap = 0
		gen.Rules.MinUnitPrice = fees.Dimensions{1, 1, 1, 1, 1}
		gen.Rules.NetworkID = 0
		gen.Rules.ChainID = ids.Empty
		genesisBytes, err := json.Marshal(gen)
		if err != nil {
			t.Fatal(err)
		}
		actionParser := codec.NewTypeParser[chain.Action]()
		authParser := codec.NewTypeParser[chain.Auth]()
		if err := errors.Join(
			actionParser.Register(&actions.Transfer{}, actions.UnmarshalTransfer),
			authParser.Register(&chaintest.TestAuth{}, chaintest.UnmarshalTestAuth),
		); err != nil {
			t.Fatal(err)
		}
		factory := hvm.NewFactory(genesis.DefaultGenesisFactory{}, &storage.BalanceHandler{}, metadata.NewDefaultManager(),
			actionParser, authParser, morpheusvm.OutputParser, auth.Engines{}, append(defaultvm.NewDefaultOptions(), morpheusvm.With())...)
		// the default websocket maxPendingMessages (10 000 000) makes every connection allocate a 240 MB channel before its
		// read pump starts (seconds under load, see notes/X07.md); the scenarios need a handful of pending messages
		configBytes := []byte(`{"chain":{"targetBuildDuration":20000000000},"websocket":{"enabled":true,"maxPendingMessages":4096}}`)
		w.net = vmtest.NewTestNetwork(ctx, t, factory, genesis.DefaultGenesisFactory{}, 1, nil, genesisBytes, nil, configBytes)
		h, okHas := w.net.VMs[0].VM.Mempool().(interface{ Has(context.Context, ids.ID) bool })
		if !okHas {
			t.Fatal("the mempool has no Has method")
		}
		w.has = h
		uri := w.net.URIs()[0]
		parser := w.net.VMs[0].VM.GetParser()
		var clients []*x07Client
		for i := 1; i <= 3; i++ {
			cli, err := ws.NewWebSocketClient(uri, ws.DefaultHandshakeTimeout, pubsub.MaxPendingMessages, pubsub.MaxReadMessageSize)
			if err != nil {
				t.Fatalf("ws dial %s: %v", uri, err)
			}
			clients = append(clients, &x07Client{id: i, cli: cli, open: true, regs: map[int]bool{}})
		}
		w.lines = append(w.lines, map[string]any{"ev": "reset", "clients": 3})
		n2tx := map[ids.ID]*x05Tx{}
		var pendingValid []*x05Tx
		height := 0
		for round := 0; round < rounds; round++ {
			// 1-3 client steps
			for k := 1 + r.Intn(3); k > 0; k-- {
				c := clients[r.Intn(len(clients))]
				if !c.open {
					continue
				}
				step := map[string]any{"ev": "register", "c": c.id, "blocks": false}
				if !c.blocks && r.Intn(3) == 0 {
					if err := c.cli.RegisterBlocks(); err != nil {
						t.Fatal(err)
					}
					c.blocks = true
					step["blocks"] = true
					stats["register_blocks"]++
				}
				regs := []map[string]any{}
				reg := func(x *x05Tx) {
					if err := c.cli.RegisterTx(x.tx); err != nil {
						t.Fatal(err)
					}
					n2tx[x.tx.GetID()] = x
					c.regs[x.n] = true
					regs = append(regs, map[string]any{"id": x.n, "defect": x.defect})
				}
				for j := r.Intn(3); j > 0; j-- {
					switch q := r.Intn(6); {
					case q < 2:
						x := w.mk(names[r.Intn(2)], "none", round)
						reg(x)
						pendingValid = append(pendingValid, x)
					case q == 2:
						reg(w.mk(names[r.Intn(2)], "expired", round)) // never included; its listener expires with the next block
						stats["register_expired"]++
					case q == 3:
						reg(w.mk(names[r.Intn(2)], "auth", round)) // never included, expires in 20+ s: no answer in this scenario
						stats["register_invalid"]++
					case q == 4 && len(pendingValid) > 0:
						reg(pendingValid[r.Intn(len(pendingValid))]) // somebody's pending transaction (maybe our own) again
						stats["register_shared"]++
					}
				}
				marker := w.mk(names[r.Intn(2)], "none", round)
				reg(marker)
				pendingValid = append(pendingValid, marker)
				step["txs"] = regs
				step["synced"] = x07Wait(func() bool { return w.has.Has(ctx, marker.tx.GetID()) })
				w.lines = append(w.lines, step)
				stats["register"]++
			}
			if r.Intn(8) == 0 {
				var openC []*x07Client
				for _, c := range clients {
					if c.open {
						openC = append(openC, c)
					}
				}
				if len(openC) > 1 {
					c := openC[r.Intn(len(openC))]
					_ = c.cli.Close()
					c.open = false
					w.lines = append(w.lines, map[string]any{"ev": "close", "c": c.id})
					stats["close"]++
				}
			}
			if len(w.pool(ctx)) == 0 {
				continue
			}
			// the next block
			x05WaitStreamIdle(w.net.VMs[0].VM.Mempool())
			blks := w.net.BuildBlockAndUpdateHead(ctx)
			if err := blks[0].SyncAccept(ctx); err != nil {
				t.Fatalf("accept: %v", err)
			}
			x05WaitStreamIdle(w.net.VMs[0].VM.Mempool())
			height++
			out := blks[0].Output
			in, okf := []int{}, []bool{}
			for i, tx := range out.StatelessBlock.Txs {
				if x, ok := n2tx[tx.GetID()]; ok {
					in = append(in, x.n)
				} else {
					in = append(in, 0)
				}
				okf = append(okf, out.ExecutionResults.Results[i].Success)
			}
			expiredNow := []int{}
			for _, x := range w.txs {
				if x.tx.Base.Timestamp < out.StatelessBlock.Tmstmp {
					expiredNow = append(expiredNow, x.n)
				}
			}
			pendingValid = pendingValid[:0]
			w.lines = append(w.lines, map[string]any{"ev": "accept", "h": int(out.StatelessBlock.Hght), "txs": in, "ok": okf, "expired": expiredNow})
			stats["blocks"]++
			// what the clients received: wait for the first message if the client listens to something of this block
			for _, c := range clients {
				if !c.open {
					continue
				}
				txmsgs := [][]any{}
				blkmsgs := []int{}
				first := false
				for _, n := range append(append([]int{}, in...), expiredNow...) {
					if c.regs[n] {
						first = true
						delete(c.regs, n)
					}
				}
				for {
					to := 150 * time.Millisecond
					if first {
						to = 30 * time.Second
					}
					first = false
					cctx, cancel := context.WithTimeout(ctx, to)
					id, res, err := c.cli.ListenTx(cctx)
					cancel()
					if err != nil {
						break
					}
					kind := "expired"
					if res != nil {
						kind = "result"
					}
					n := 0
					if x, ok := n2tx[id]; ok {
						n = x.n
					}
					txmsgs = append(txmsgs, []any{n, kind})
				}
				firstBlk := c.blocks
				for {
					to := 150 * time.Millisecond
					if firstBlk {
						to = 30 * time.Second
					}
					firstBlk = false
					cctx, cancel := context.WithTimeout(ctx, to)
					b, _, _, err := c.cli.ListenBlock(cctx, parser)
					cancel()
					if err != nil {
						break
					}
					blkmsgs = append(blkmsgs, int(b.Hght))
				}
				w.lines = append(w.lines, map[string]any{"ev": "received", "c": c.id, "tx": txmsgs, "blocks": blkmsgs})
			}
		}
		f, err := os.Create(filepath.Join(outDir, fmt.Sprintf("ws-%05d.ndjson", g)))
		if err != nil {
			t.Fatal(err)
		}
		enc := json.NewEncoder(f)
		for _, l := range w.lines {
			if err := enc.Encode(l); err != nil {
				t.Fatal(err)
			}
		}
		f.Close()
		for _, c := range clients {
			if c.open {
				_ = c.cli.Close()
			}
		}
		w.net.Shutdown(ctx)
		stats["scenarios"]++
	}
	_ = strings.TrimSpace
	b, _ := json.Marshal(stats)
	if err := os.WriteFile(filepath.Join(outDir, "ws_stats.json"), b, 0o644); err != nil {
		t.Fatal(err)
	}
}
