//go:build verif

// C30 driver: a real morpheusvm VM (vmtest network of one node) on which, round after round, the real
// JSONRPCServer.ExecuteActions and JSONRPCServer.SimulateActions are called for a list of real Transfer actions and
// then a real transaction with the same actions is submitted, built into a block, verified and accepted on the same
// accepted state.  Every other round the transaction does not use Transfer's own StateKeys but declares exactly the
// keys SimulateActions reported (ScopedTransfer), which binds "the simulated keys are sufficient" to real execution.
// The transaction is authorised by chaintest.TestAuth so that the sponsor (fee payer) can be an account the actions
// never touch.  One ndjson line per round for spec/ActionAPI_Trace.tla.  See /verif/notes/C30.md.
package vm_test

import (
	"context"
	"encoding/json"
	"errors"
	"fmt"
	"math"
	"math/rand"
	"net/http"
	"os"
	"path/filepath"
	"reflect"
	"runtime"
	"sort"
	"strconv"
	"sync"
	"testing"
	"time"
	"unsafe"

	"github.com/ava-labs/avalanchego/database"
	"github.com/ava-labs/avalanchego/ids"
	"github.com/ava-labs/avalanchego/utils/wrappers"

	"github.com/ava-labs/hypersdk/api/jsonrpc"
	"github.com/ava-labs/hypersdk/auth"
	"github.com/ava-labs/hypersdk/chain"
	"github.com/ava-labs/hypersdk/chain/chaintest"
	"github.com/ava-labs/hypersdk/codec"
	"github.com/ava-labs/hypersdk/examples/morpheusvm/actions"
	"github.com/ava-labs/hypersdk/examples/morpheusvm/storage"
	"github.com/ava-labs/hypersdk/fees"
	"github.com/ava-labs/hypersdk/genesis"
	"github.com/ava-labs/hypersdk/state"
	"github.com/ava-labs/hypersdk/state/metadata"
	"github.com/ava-labs/hypersdk/vm/defaultvm"
	"github.com/ava-labs/hypersdk/vm/vmtest"

	morpheusvm "github.com/ava-labs/hypersdk/examples/morpheusvm/vm"
	hvm "github.com/ava-labs/hypersdk/vm"
)

// ---------------------------------------------------------------- ScopedTransfer

const scopedTransferID = 0x70

// ScopedTransfer executes exactly like actions.Transfer but declares the state keys it is given.
type ScopedTransfer struct {
	To    codec.Address `serialize:"true" json:"to"`
	Value uint64        `serialize:"true" json:"value"`
	Memo  []byte        `serialize:"true" json:"memo"`
	Scope []byte        `serialize:"true" json:"scope"` // JSON: [[hex key, perm byte], ...]
}

type scopeEntry struct {
	K string `json:"k"`
	P uint8  `json:"p"`
}

func newScoped(t *actions.Transfer, keys state.Keys) *ScopedTransfer {
	var es []scopeEntry
	for k, p := range keys {
		es = append(es, scopeEntry{K: fmt.Sprintf("%x", k), P: uint8(p)})
	}
	sort.Slice(es, func(i, j int) bool { return es[i].K < es[j].K })
	b, _ := json.Marshal(es)
	return &ScopedTransfer{To: t.To, Value: t.Value, Memo: t.Memo, Scope: b}
}

func (*ScopedTransfer) GetTypeID() uint8                      { return scopedTransferID }
func (*ScopedTransfer) ComputeUnits(chain.Rules) uint64       { return actions.TransferComputeUnits }
func (*ScopedTransfer) ValidRange(chain.Rules) (int64, int64) { return -1, -1 }

func (s *ScopedTransfer) StateKeys(codec.Address, ids.ID) state.Keys {
	var es []scopeEntry
	_ = json.Unmarshal(s.Scope, &es)
	ks := state.Keys{}
	for _, e := range es {
		var raw []byte
		_, _ = fmt.Sscanf(e.K, "%x", &raw)
		ks[string(raw)] = state.Permissions(e.P)
	}
	return ks
}

func (s *ScopedTransfer) Bytes() []byte {
	p := &wrappers.Packer{Bytes: make([]byte, 0, 512), MaxSize: 8192}
	p.PackByte(scopedTransferID)
	if err := codec.LinearCodec.MarshalInto(s, p); err != nil {
		panic(err)
	}
	return p.Bytes
}

func unmarshalScoped(b []byte) (chain.Action, error) {
	s := &ScopedTransfer{}
	if len(b) == 0 || b[0] != scopedTransferID {
		return nil, errors.New("not a scoped transfer")
	}
	if err := codec.LinearCodec.UnmarshalFrom(&wrappers.Packer{Bytes: b[1:]}, s); err != nil {
		return nil, err
	}
	return s, nil
}

func (s *ScopedTransfer) Execute(ctx context.Context, r chain.Rules, mu state.Mutable, ts int64, actor codec.Address, id ids.ID) ([]byte, error) {
	return (&actions.Transfer{To: s.To, Value: s.Value, Memo: s.Memo}).Execute(ctx, r, mu, ts, actor, id)
}

// ---------------------------------------------------------------- records

type aRec struct {
	To    string `json:"to"`
	Value uint64 `json:"value"`
	Memo  int    `json:"memo"`
}

type oRec struct { // -1/-1: an output that is not a TransferResult (never equal to what the ledger expects)
	Sender   int64 `json:"sender"`
	Receiver int64 `json:"receiver"`
}

type keyRec struct {
	K string `json:"k"`
	P string `json:"p"`
}

type execRec struct {
	Outs   []oRec `json:"outs"`
	Failed bool   `json:"failed"`
	Err    string `json:"errtext"`
	RPCErr string `json:"rpcerr"`
}

type simRec struct {
	OK   bool       `json:"ok"`
	Outs []oRec     `json:"outs"`
	Keys [][]keyRec `json:"keys"`
	Err  string     `json:"errtext"`
}

type chainRec struct {
	OK   bool   `json:"ok"`
	Outs []oRec `json:"outs"`
	Fee  uint64 `json:"fee"`
	Err  string `json:"errtext"`
}

type roundLine struct {
	Ev      string            `json:"ev"`
	Round   int               `json:"round"`
	Kind    string            `json:"kind"` // plain: Transfer's own StateKeys; scoped: exactly the simulated keys
	Actor   string            `json:"actor"`
	Sponsor string            `json:"sponsor"`
	Actions []aRec            `json:"actions"`
	Pre     map[string]uint64 `json:"pre"`
	Exec    execRec           `json:"exec"`
	Sim     simRec            `json:"sim"`
	Chain   chainRec          `json:"chain"`
	Post    map[string]uint64 `json:"post"`
}

type apiReset struct {
	Ev       string            `json:"ev"`
	Accounts []string          `json:"accounts"`
	Bal      map[string]uint64 `json:"bal"`
	Note     string            `json:"note"`
}

// ---------------------------------------------------------------- world

type apiWorld struct {
	names []string
	addr  map[string]codec.Address
	net   *vmtest.TestNetwork
	srv   *jsonrpc.JSONRPCServer
}

func (w *apiWorld) nameOfKey(k string) string {
	for _, n := range w.names {
		if k == string(storage.BalanceKey(w.addr[n])) {
			return n
		}
	}
	return fmt.Sprintf("other:%x", k)
}

func (w *apiWorld) balances(ctx context.Context) (map[string]uint64, error) {
	im, err := w.net.VMs[0].VM.ImmutableState(ctx)
	if err != nil {
		return nil, err
	}
	out := map[string]uint64{}
	for _, n := range w.names {
		b, err := storage.GetBalance(ctx, im, w.addr[n])
		if err != nil && !errors.Is(err, database.ErrNotFound) {
			return nil, err
		}
		out[n] = b
	}
	return out, nil
}

// waitStreamIdle waits until the builder's asynchronous Mempool.FinishStreaming of the previous block has run.
// Without it the next BuildBlock can deadlock against it: StartStreaming takes the mempool mutex and then waits for
// the stream lock, FinishStreaming needs the mempool mutex to release the stream lock (a lock-order hazard of
// internal/mempool that no listed property owns, DESIGN.md section 5; observed here under machine load).  The probe
// only try-locks and releases the stream lock; if the field cannot be found it degrades to a short pause.
func waitStreamIdle(mp any) {
	v := reflect.ValueOf(mp)
	if v.Kind() == reflect.Ptr && v.Elem().Kind() == reflect.Struct {
		if f := v.Elem().FieldByName("streamLock"); f.IsValid() && f.CanAddr() && f.Type() == reflect.TypeOf(sync.Mutex{}) {
			mu := (*sync.Mutex)(unsafe.Pointer(f.UnsafeAddr()))
			for i := 0; i < 200_000; i++ {
				if mu.TryLock() {
					mu.Unlock()
					return
				}
				runtime.Gosched()
				time.Sleep(50 * time.Microsecond)
			}
			return
		}
	}
	time.Sleep(20 * time.Millisecond)
}

func decodeOuts(raw [][]byte) ([]oRec, error) {
	outs := []oRec{}
	for _, o := range raw {
		if len(o) == 0 {
			outs = append(outs, oRec{-1, -1})
			continue
		}
		typed, err := actions.UnmarshalTransferResult(o)
		if err != nil {
			outs = append(outs, oRec{-1, -1})
			continue
		}
		tr := typed.(*actions.TransferResult)
		if tr.SenderBalance >= 1<<31 || tr.ReceiverBalance >= 1<<31 {
			return nil, fmt.Errorf("driver: output %+v does not fit the small-value encoding", tr)
		}
		outs = append(outs, oRec{int64(tr.SenderBalance), int64(tr.ReceiverBalance)})
	}
	return outs, nil
}

func permLetters(p state.Permissions) string {
	s := ""
	if p&1 != 0 {
		s += "r"
	}
	if p&2 != 0 {
		s += "a"
	}
	if p&4 != 0 {
		s += "w"
	}
	return s
}

func TestVerifActionAPI(t *testing.T) {
	outDir := os.Getenv("VERIF_OUT")
	if outDir == "" {
		t.Skip("VERIF_OUT not set")
	}
	seed := int64(apiEnvInt("VERIF_SEED", 1))
	groups := apiEnvInt("VERIF_SCENARIOS", 4)
	rounds := apiEnvInt("VERIF_ROUNDS", 12)
	only := os.Getenv("VERIF_ONLY")
	ctx := context.Background()
	for g := 0; g < groups; g++ {
		if only != "" && only != strconv.Itoa(g) {
			continue
		}
		r := rand.New(rand.NewSource(seed*5_000_011 + int64(g)))
		w := &apiWorld{addr: map[string]codec.Address{}}
		// accounts: a dedicated rich sponsor, 3-4 accounts with small balances, one address that is not in genesis
		w.names = []string{"sp", "a0", "a1", "a2"}
		if r.Intn(2) == 0 {
			w.names = append(w.names, "a3")
		}
		fresh := w.names[1+r.Intn(len(w.names)-1)] // this one gets no genesis allocation (no record)
		var allocs []*genesis.CustomAllocation
		for i, n := range w.names {
			var ad codec.Address
			ad[0] = chaintest.TestAuthTypeID
			ad[1] = byte(i + 1)
			ad[2] = byte(r.Intn(256))
			ad[3] = byte(g)
			w.addr[n] = ad
			var bal uint64
			switch {
			case n == "sp":
				bal = 1_000_000_000
			case n == fresh:
				continue
			default:
				switch c := r.Intn(8); {
				case c == 0:
					bal = 0 // a record holding zero
				case c < 2:
					bal = uint64(1 + r.Intn(20))
				default:
					bal = uint64(100 + r.Intn(500_000))
				}
			}
			allocs = append(allocs, &genesis.CustomAllocation{Address: ad, Balance: bal})
		}
		gen := genesis.NewDefaultGenesis(allocs)
		gen.Rules.WindowTargetUnits = fees.Dimensions{math.MaxUint64, math.MaxUint64, math.MaxUint64, math.MaxUint64, math.MaxUint64}
		gen.Rules.MaxBlockUnits = fees.Dimensions{1800000, math.MaxUint64, math.MaxUint64, math.MaxUint64, math.MaxUint64}
		gen.Rules.MinBlockGap = 0
		gen.Rules.MinUnitPrice = fees.Dimensions{1, 1, 1, 1, 1}
		gen.Rules.NetworkID = 0
		gen.Rules.ChainID = ids.Empty
		genesisBytes, err := json.Marshal(gen)
		if err != nil {
			t.Fatal(err)
		}
		actionParser := codec.NewTypeParser[chain.Action]()
		authParser := codec.NewTypeParser[chain.Auth]()
		if err := errors.Join(
			actionParser.Register(&actions.Transfer{}, actions.UnmarshalTransfer),
			actionParser.Register(&ScopedTransfer{}, unmarshalScoped),
			authParser.Register(&chaintest.TestAuth{}, chaintest.UnmarshalTestAuth),
		); err != nil {
			t.Fatal(err)
		}
		factory := hvm.NewFactory(genesis.DefaultGenesisFactory{}, &storage.BalanceHandler{}, metadata.NewDefaultManager(),
			actionParser, authParser, morpheusvm.OutputParser, auth.Engines{}, append(defaultvm.NewDefaultOptions(), morpheusvm.With())...)
		// a generous build budget: under machine load the preamble of BuildBlock alone can exceed the default 100 ms, the
		// builder then returns an empty block and vmtest gives up ("no transactions")
		configBytes := []byte(`{"chain":{"targetBuildDuration":20000000000}}`)
		w.net = vmtest.NewTestNetwork(ctx, t, factory, genesis.DefaultGenesisFactory{}, 1, nil, genesisBytes, nil, configBytes)
		w.srv = jsonrpc.NewJSONRPCServer(w.net.VMs[0].VM)

		b0, err := w.balances(ctx)
		if err != nil {
			t.Fatal(err)
		}
		var lines []any
		lines = append(lines, apiReset{Ev: "reset", Accounts: w.names, Bal: b0, Note: fmt.Sprintf("seed=%d group=%d fresh=%s", seed, g, fresh)})
		dump := func() {
			f, err := os.Create(filepath.Join(outDir, fmt.Sprintf("api%05d.ndjson", g)))
			if err != nil {
				t.Fatal(err)
			}
			defer f.Close()
			enc := json.NewEncoder(f)
			for _, l := range lines {
				if err := enc.Encode(l); err != nil {
					t.Fatal(err)
				}
			}
		}
		users := w.names[1:]
		for round := 0; round < rounds; round++ {
			pre, err := w.balances(ctx)
			if err != nil {
				t.Fatal(err)
			}
			// actor: mostly somebody who owns something
			actor := users[r.Intn(len(users))]
			for k := 0; k < 4 && pre[actor] == 0; k++ {
				actor = users[r.Intn(len(users))]
			}
			sponsor := "sp"
			if r.Intn(5) == 0 && pre[actor] > 20_000 {
				sponsor = actor // fee-affected round (the actor can certainly pay): the ledger accounts for the fee
			}
			na := 1 + r.Intn(4)
			if r.Intn(6) == 0 {
				na = 5 + r.Intn(12)
			}
			failAt := -1
			if r.Intn(4) == 0 {
				failAt = r.Intn(na)
			}
			g2 := map[string]uint64{}
			for k, v := range pre {
				g2[k] = v
			}
			var acts []*actions.Transfer
			var arecs []aRec
			for j := 0; j < na; j++ {
				to := users[r.Intn(len(users))]
				if r.Intn(4) == 0 {
					to = actor
				}
				have := g2[actor]
				if have <= 1 && j > 0 && j != failAt && j < na-1 {
					break // the actor is (nearly) empty: anything more could only fail or shuffle the last token
				}
				var v uint64
				switch c := r.Intn(10); {
				case j == failAt && c < 5:
					v = have + 1 + uint64(r.Intn(50))
				case j == failAt:
					v = 0
				case c < 3 && have > 0 && (to == actor || j == na-1 || j+1 == failAt):
					v = have // whole balance: record deleted (and re-created when sent to oneself)
				case c < 5 && have > 1 && j >= na-2:
					v = have - 1
				case have > 1:
					v = 1 + uint64(r.Int63n(int64(have-1)))
				case have == 1 && !(to == actor || j == na-1 || j+1 == failAt):
					to, v = actor, 1 // keep the last token at home unless this is the tail
				default:
					v = 1
				}
				memo := 0
				if r.Intn(12) == 0 {
					memo = r.Intn(actions.MaxMemoSize + 1)
				}
				if have >= v && v > 0 {
					g2[actor] -= v
					g2[to] += v
				}
				acts = append(acts, &actions.Transfer{To: w.addr[to], Value: v, Memo: make([]byte, memo)})
				arecs = append(arecs, aRec{To: to, Value: v, Memo: memo})
			}
			line := roundLine{Ev: "round", Round: round, Kind: "plain", Actor: actor, Sponsor: sponsor, Actions: arecs, Pre: pre}

			// 1. JSONRPCServer.ExecuteActions
			req, _ := http.NewRequestWithContext(ctx, http.MethodPost, "/", nil)
			eargs := &jsonrpc.ExecuteActionArgs{Actor: w.addr[actor]}
			for _, a := range acts {
				eargs.Actions = append(eargs.Actions, a.Bytes())
			}
			ereply := &jsonrpc.ExecuteActionReply{}
			if err := w.srv.ExecuteActions(req, eargs, ereply); err != nil {
				line.Exec = execRec{Outs: []oRec{}, Failed: true, RPCErr: err.Error()}
			} else {
				outs, err := decodeOuts(ereply.Outputs)
				if err != nil {
					dump()
					t.Fatalf("undecodable ExecuteActions output: %v", err)
				}
				line.Exec = execRec{Outs: outs, Failed: ereply.Error != "", Err: ereply.Error}
			}

			// 2. JSONRPCServer.SimulateActions
			sargs := &jsonrpc.SimulatActionsArgs{Actor: w.addr[actor]}
			for _, a := range acts {
				sargs.Actions = append(sargs.Actions, a.Bytes())
			}
			sreply := &jsonrpc.SimulateActionsReply{}
			var simKeys []state.Keys
			if err := w.srv.SimulateActions(req, sargs, sreply); err != nil {
				line.Sim = simRec{OK: false, Outs: []oRec{}, Keys: [][]keyRec{}, Err: err.Error()}
			} else {
				raw := [][]byte{}
				keys := [][]keyRec{}
				for _, ar := range sreply.ActionResults {
					raw = append(raw, ar.Output)
					simKeys = append(simKeys, ar.StateKeys)
					ks := []keyRec{}
					for k, p := range ar.StateKeys {
						ks = append(ks, keyRec{K: w.nameOfKey(k), P: permLetters(p)})
					}
					sort.Slice(ks, func(i, j int) bool { return ks[i].K < ks[j].K })
					keys = append(keys, ks)
				}
				outs, err := decodeOuts(raw)
				if err != nil {
					dump()
					t.Fatalf("undecodable SimulateActions output: %v", err)
				}
				line.Sim = simRec{OK: true, Outs: outs, Keys: keys}
			}

			// 3. the same actions in a real transaction on the same accepted state
			var txActions []chain.Action
			if round%2 == 1 && line.Sim.OK && len(simKeys) == len(acts) {
				line.Kind = "scoped"
				for i, a := range acts {
					txActions = append(txActions, newScoped(a, simKeys[i]))
				}
			} else {
				for _, a := range acts {
					txActions = append(txActions, a)
				}
			}
			au := &chaintest.TestAuth{NumComputeUnits: uint64(1 + round/40), ActorAddress: w.addr[actor], SponsorAddress: w.addr[sponsor], Start: -1, End: -1}
			now := time.Now().UnixMilli()
			expiry := (now+999)/1000*1000 + 5000 + int64(round%40)*1000
			td := chain.NewTxData(chain.Base{Timestamp: expiry, ChainID: w.net.ChainID(), MaxFee: 100_000_000}, txActions)
			tx, err := td.Sign(&chaintest.TestAuthFactory{TestAuth: au})
			if err != nil {
				t.Fatal(err)
			}
			waitStreamIdle(w.net.VMs[0].VM.Mempool())
			if err := w.net.ConfirmTxs(ctx, []*chain.Transaction{tx}); err != nil {
				dump()
				t.Fatalf("group %d round %d: transaction not confirmed: %v", g, round, err)
			}
			blk, err := w.net.VMs[0].SnowVM.GetConsensusIndex().GetLastAccepted(ctx)
			if err != nil {
				t.Fatal(err)
			}
			found := false
			for i, btx := range blk.StatelessBlock.Txs {
				if btx.GetID() == tx.GetID() {
					res := blk.ExecutionResults.Results[i]
					outs, err := decodeOuts(res.Outputs)
					if err != nil {
						dump()
						t.Fatalf("undecodable on-chain output: %v", err)
					}
					line.Chain = chainRec{OK: res.Success, Outs: outs, Fee: res.Fee, Err: string(res.Error)}
					found = true
				}
			}
			if !found {
				dump()
				t.Fatalf("group %d round %d: accepted block does not contain the transaction", g, round)
			}
			if line.Post, err = w.balances(ctx); err != nil {
				t.Fatal(err)
			}
			lines = append(lines, line)
		}
		dump()
		w.net.Shutdown(ctx)
	}
}

func apiEnvInt(name string, def int) int {
	if v, err := strconv.Atoi(os.Getenv(name)); err == nil {
		return v
	}
	return def
}
