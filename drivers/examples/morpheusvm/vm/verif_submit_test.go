//go:build verif

// X05 driver: a real morpheusvm VM (vmtest network of one node) whose vm.VM.Submit is called with seeded batches of
// transactions of known classes (fine, already pending, already accepted, expired, too far in the future, misaligned
// timestamp, wrong chain id, failing auth, underfunded sponsor, the same transaction twice in a batch, more pending
// transactions than the per-sponsor mempool limit).  After every call the verdict classes and the mempool membership
// of every transaction created so far are logged; from time to time the next block is built, verified and accepted
// and its transactions / results / the membership afterwards are logged.  See /verif/spec/Admission.tla, notes/X05.md.
package vm_test

import (
	"context"
	"encoding/json"
	"errors"
	"fmt"
	"math"
	"math/rand"
	"os"
	"path/filepath"
	"reflect"
	"runtime"
	"strconv"
	"strings"
	"sync"
	"testing"
	"time"
	"unsafe"

	"github.com/ava-labs/avalanchego/ids"

	"github.com/ava-labs/hypersdk/auth"
	"github.com/ava-labs/hypersdk/chain"
	"github.com/ava-labs/hypersdk/chain/chaintest"
	"github.com/ava-labs/hypersdk/codec"
	"github.com/ava-labs/hypersdk/examples/morpheusvm/actions"
	"github.com/ava-labs/hypersdk/examples/morpheusvm/storage"
	"github.com/ava-labs/hypersdk/fees"
	"github.com/ava-labs/hypersdk/genesis"
	"github.com/ava-labs/hypersdk/internal/validitywindow"
	"github.com/ava-labs/hypersdk/state/metadata"
	"github.com/ava-labs/hypersdk/vm/defaultvm"
	"github.com/ava-labs/hypersdk/vm/vmtest"

	morpheusvm "github.com/ava-labs/hypersdk/examples/morpheusvm/vm"
	hvm "github.com/ava-labs/hypersdk/vm"
)

func x05EnvInt(name string, def int) int {
	if v, err := strconv.Atoi(os.Getenv(name)); err == nil {
		return v
	}
	return def
}

// see notes/C30.md: wait until the builder's asynchronous FinishStreaming of the previous block has run
func x05WaitStreamIdle(mp any) {
	v := reflect.ValueOf(mp)
	if v.Kind() == reflect.Ptr && v.Elem().Kind() == reflect.Struct {
		if f := v.Elem().FieldByName("streamLock"); f.IsValid() && f.CanAddr() && f.Type() == reflect.TypeOf(sync.Mutex{}) {
			mu := (*sync.Mutex)(unsafe.Pointer(f.UnsafeAddr()))
			for i := 0; i < 200_000; i++ {
				if mu.TryLock() {
					mu.Unlock()
					return
				}
				runtime.Gosched()
				time.Sleep(50 * time.Microsecond)
			}
			return
		}
	}
	time.Sleep(20 * time.Millisecond)
}

func x05Class(err error) string {
	switch {
	case err == nil:
		return "nil"
	case errors.Is(err, hvm.ErrNotAdded):
		return "not-added"
	case errors.Is(err, chain.ErrDuplicateTx):
		return "duplicate"
	case errors.Is(err, validitywindow.ErrTimestampExpired):
		return "expired"
	case errors.Is(err, validitywindow.ErrFutureTimestamp):
		return "future"
	case errors.Is(err, validitywindow.ErrMisalignedTime):
		return "misaligned"
	case errors.Is(err, chain.ErrInvalidChainID):
		return "chain-id"
	case errors.Is(err, chaintest.ErrTestAuthVerify):
		return "auth"
	case errors.Is(err, storage.ErrInvalidBalance):
		return "balance"
	}
	if strings.Contains(err.Error(), "limit reached") { // hvm.ErrMempoolLimit of fixes/X05-…; matched by text so that the
		return "mempool-limit" // driver also builds on a tree without the fix
	}
	return "other:" + err.Error()
}

type x05Tx struct {
	n      int
	tx     *chain.Transaction
	sp     string
	defect string
}

type x05World struct {
	t     *testing.T
	net   *vmtest.TestNetwork
	has   interface{ Has(context.Context, ids.ID) bool }
	addr  map[string]codec.Address
	txs   []*x05Tx
	lines []map[string]any
	stats map[string]int
}

func (w *x05World) pool(ctx context.Context) []int {
	out := []int{}
	for _, x := range w.txs {
		if w.has.Has(ctx, x.tx.GetID()) {
			out = append(out, x.n)
		}
	}
	return out
}

// mk creates a new transaction of the given class
func (w *x05World) mk(sp, defect string, salt int) *x05Tx {
	au := &chaintest.TestAuth{NumComputeUnits: 1, ActorAddress: w.addr[sp], SponsorAddress: w.addr[sp], Start: -1, End: -1}
	now := time.Now().UnixMilli()
	expiry := (now+999)/1000*1000 + 20_000 + int64(salt%20)*1000
	chainID := w.net.ChainID()
	switch defect {
	case "expired":
		expiry = now/1000*1000 - 5_000
	case "future":
		expiry = now/1000*1000 + 600_000
	case "misaligned":
		expiry += 7
	case "chain-id":
		chainID = ids.ID{9, 9, 9}
	case "auth":
		au.ShouldErr = true
	}
	var to codec.Address
	to[0], to[1], to[2] = chaintest.TestAuthTypeID, 0xee, byte(salt)
	td := chain.NewTxData(chain.Base{Timestamp: expiry, ChainID: chainID, MaxFee: 100_000_000},
		[]chain.Action{&actions.Transfer{To: to, Value: 1, Memo: []byte(strconv.Itoa(len(w.txs)))}})
	tx, err := td.Sign(&chaintest.TestAuthFactory{TestAuth: au})
	if err != nil {
		w.t.Fatal(err)
	}
	x := &x05Tx{n: len(w.txs) + 1, tx: tx, sp: sp, defect: defect}
	w.txs = append(w.txs, x)
	return x
}

func (w *x05World) submit(ctx context.Context, batch []*x05Tx) {
	txs := make([]*chain.Transaction, len(batch))
	desc := make([]map[string]any, len(batch))
	for i, x := range batch {
		txs[i] = x.tx
		desc[i] = map[string]any{"id": x.n, "sp": x.sp, "defect": x.defect}
	}
	errs := w.net.VMs[0].VM.Submit(ctx, txs)
	cls := make([]string, len(errs))
	for i, e := range errs {
		cls[i] = x05Class(e)
		w.stats["verdict_"+cls[i]]++
	}
	w.lines = append(w.lines, map[string]any{"ev": "submit", "batch": desc, "errs": cls, "pool": w.pool(ctx)})
}

func (w *x05World) build(ctx context.Context) {
	if len(w.pool(ctx)) == 0 {
		return
	}
	x05WaitStreamIdle(w.net.VMs[0].VM.Mempool())
	blks := w.net.BuildBlockAndUpdateHead(ctx)
	if err := blks[0].SyncAccept(ctx); err != nil {
		w.t.Fatalf("accept: %v", err)
	}
	x05WaitStreamIdle(w.net.VMs[0].VM.Mempool())
	out := blks[0].Output
	ids2n := map[ids.ID]int{}
	for _, x := range w.txs {
		ids2n[x.tx.GetID()] = x.n
	}
	in, ok, fee := []int{}, []bool{}, []bool{}
	for i, tx := range out.StatelessBlock.Txs {
		in = append(in, ids2n[tx.GetID()])
		ok = append(ok, out.ExecutionResults.Results[i].Success)
		fee = append(fee, out.ExecutionResults.Results[i].Fee > 0)
	}
	w.lines = append(w.lines, map[string]any{"ev": "build", "txs": in, "ok": ok, "fee": fee, "pool": w.pool(ctx)})
	w.stats["blocks"]++
}

func TestVerifSubmit(t *testing.T) {
	outDir := os.Getenv("VERIF_OUT")
	if outDir == "" {
		t.Skip("VERIF_OUT not set")
	}
	seed := int64(x05EnvInt("VERIF_SEED", 1))
	groups := x05EnvInt("VERIF_SCENARIOS", 8)
	rounds := x05EnvInt("VERIF_ROUNDS", 14)
	only := x05EnvInt("VERIF_ONLY", -1)
	ctx := context.Background()
	stats := map[string]int{}
	for g := 0; g < groups; g++ {
		if only >= 0 && only != g {
			continue
		}
		r := rand.New(rand.NewSource(seed*7_000_003 + int64(g)))
		w := &x05World{t: t, addr: map[string]codec.Address{}, stats: stats}
		names := []string{"a", "b", "poor"}
		var allocs []*genesis.CustomAllocation
		for i, n := range names {
			var ad codec.Address
			ad[0], ad[1], ad[2], ad[3] = chaintest.TestAuthTypeID, byte(i+1), byte(r.Intn(256)), byte(g)
			w.addr[n] = ad
			bal := uint64(1_000_000_000_000)
			if n == "poor" {
				bal = 3
			}
			allocs = append(allocs, &genesis.CustomAllocation{Address: ad, Balance: bal})
		}
		gen := genesis.NewDefaultGenesis(allocs)
		gen.Rules.WindowTargetUnits = fees.Dimensions{math.MaxUint64, math.MaxUint64, math.MaxUint64, math.MaxUint64, math.MaxUint64}
		gen.Rules.MaxBlockUnits = fees.Dimensions{1800000, math.MaxUint64, math.MaxUint64, math.MaxUint64, math.MaxUint64}
		gen.Rules.MinBlockGap = 0
		gen.Rules.MinEmptyBlockGap = 0
		gen.Rules.MinUnitPrice = fees.Dimensions{1, 1, 1, 1, 1}
		gen.Rules.NetworkID = 0
		gen.Rules.ChainID = ids.Empty
		genesisBytes, err := json.Marshal(gen)
		if err != nil {
			t.Fatal(err)
		}
		actionParser := codec.NewTypeParser[chain.Action]()
		authParser := codec.NewTypeParser[chain.Auth]()
		if err := errors.Join(
			actionParser.Register(&actions.Transfer{}, actions.UnmarshalTransfer),
			authParser.Register(&chaintest.TestAuth{}, chaintest.UnmarshalTestAuth),
		); err != nil {
			t.Fatal(err)
		}
		factory := hvm.NewFactory(genesis.DefaultGenesisFactory{}, &storage.BalanceHandler{}, metadata.NewDefaultManager(),
			actionParser, authParser, morpheusvm.OutputParser, auth.Engines{}, append(defaultvm.NewDefaultOptions(), morpheusvm.With())...)
		spmax, pmax := 32, 2048
		if g%2 == 1 {
			spmax, pmax = 2+r.Intn(2), 4+r.Intn(3) // small limits: the per-sponsor and the total limit are reached
		}
		configBytes := []byte(fmt.Sprintf(`{"chain":{"targetBuildDuration":20000000000},"vm":{"mempoolSize":%d,"mempoolSponsorSize":%d}}`, pmax, spmax))
		w.net = vmtest.NewTestNetwork(ctx, t, factory, genesis.DefaultGenesisFactory{}, 1, nil, genesisBytes, nil, configBytes)
		h, okHas := w.net.VMs[0].VM.Mempool().(interface{ Has(context.Context, ids.ID) bool })
		if !okHas {
			t.Fatal("the mempool has no Has method")
		}
		w.has = h
		w.lines = append(w.lines, map[string]any{"ev": "reset", "spmax": spmax, "poolmax": pmax})
		var accepted, pending []*x05Tx
		defects := []string{"expired", "future", "misaligned", "chain-id", "auth"}
		for round := 0; round < rounds; round++ {
			k := 1 + r.Intn(3)
			var batch []*x05Tx
			for len(batch) < k {
				switch c := r.Intn(12); {
				case c < 5:
					batch = append(batch, w.mk(names[r.Intn(2)], "none", round))
				case c == 5 && len(pending) > 0:
					batch = append(batch, pending[r.Intn(len(pending))]) // resubmission of something pending (if still pending)
				case c == 6 && len(accepted) > 0:
					batch = append(batch, accepted[r.Intn(len(accepted))])
				case c == 7:
					batch = append(batch, w.mk("poor", "balance", round))
				case c == 8 && len(batch) > 0:
					batch = append(batch, batch[r.Intn(len(batch))]) // the same transaction twice in one call
				case c >= 9:
					batch = append(batch, w.mk(names[r.Intn(2)], defects[r.Intn(len(defects))], round))
				}
			}
			w.submit(ctx, batch)
			inPool := map[int]bool{}
			for _, n := range w.pool(ctx) {
				inPool[n] = true
			}
			pending = pending[:0]
			for _, x := range w.txs {
				if inPool[x.n] {
					pending = append(pending, x)
				}
			}
			if r.Intn(3) == 0 && len(pending) > 0 {
				w.build(ctx)
				accepted = append(accepted, pending...)
				pending = pending[:0]
			}
		}
		w.build(ctx)
		f, err := os.Create(filepath.Join(outDir, fmt.Sprintf("sub-%05d.ndjson", g)))
		if err != nil {
			t.Fatal(err)
		}
		enc := json.NewEncoder(f)
		for _, l := range w.lines {
			if err := enc.Encode(l); err != nil {
				t.Fatal(err)
			}
		}
		f.Close()
		w.net.Shutdown(ctx)
		stats["scenarios"]++
	}
	b, _ := json.Marshal(stats)
	if err := os.WriteFile(filepath.Join(outDir, "submit_stats.json"), b, 0o644); err != nil {
		t.Fatal(err)
	}
}
