//go:build verif

// C30 driver, fault dimension: the real JSONRPCServer.ExecuteActions / SimulateActions over a driver-implemented
// api.VM whose state is a map of morpheusvm balance records and whose reads can fail ONCE, with a transient (not
// "not found") error, for a chosen key at a chosen read: the n-th ReadState call (ExecuteActions loads the keys of
// every action with one call) or the n-th GetValue of that key on the ImmutableState (SimulateActions).
// One "fault" line per case for spec/ActionAPI_Trace.tla: either the API reports an error, or it answers exactly the
// fold's outputs on the real state; a failed read is never treated as "no record".
// (shares the record types of verif_actionapi_test.go: both files are overlaid together)
package vm_test

import (
	"context"
	"encoding/binary"
	"encoding/json"
	"errors"
	"fmt"
	"math/rand"
	"net/http"
	"os"
	"path/filepath"
	"strconv"
	"strings"
	"testing"

	"github.com/ava-labs/avalanchego/database"
	"github.com/ava-labs/avalanchego/trace"

	"github.com/ava-labs/hypersdk/api"
	"github.com/ava-labs/hypersdk/api/jsonrpc"
	"github.com/ava-labs/hypersdk/chain"
	"github.com/ava-labs/hypersdk/chain/chaintest"
	"github.com/ava-labs/hypersdk/codec"
	"github.com/ava-labs/hypersdk/examples/morpheusvm/actions"
	"github.com/ava-labs/hypersdk/examples/morpheusvm/storage"
	"github.com/ava-labs/hypersdk/state"

	morpheusvm "github.com/ava-labs/hypersdk/examples/morpheusvm/vm"
)

const injectedReadMarker = "verif-injected-transient-read-failure"

var errInjectedRead = errors.New(injectedReadMarker)

// faultVM implements the part of api.VM the two action APIs use (any other method panics on the nil embedded VM).
type faultVM struct {
	api.VM
	st map[string][]byte

	failKey string // raw state key, "" = no fault
	// ExecuteActions path
	readStateCalls int
	failOnCall     int
	execTriggered  bool
	// SimulateActions path
	keyReads      int
	failOnKeyRead int
	simTriggered  bool
}

func (*faultVM) Tracer() trace.Tracer              { return trace.Noop }
func (*faultVM) GetParser() chain.Parser           { return morpheusvm.Parser }
func (*faultVM) GetRuleFactory() chain.RuleFactory { return chaintest.RuleFactory() }

func (v *faultVM) ReadState(_ context.Context, ks [][]byte) ([][]byte, []error) {
	v.readStateCalls++
	vals := make([][]byte, len(ks))
	errs := make([]error, len(ks))
	for i, k := range ks {
		if v.failKey != "" && v.readStateCalls == v.failOnCall && string(k) == v.failKey {
			errs[i] = errInjectedRead
			v.execTriggered = true
			continue
		}
		val, ok := v.st[string(k)]
		if !ok {
			errs[i] = database.ErrNotFound
			continue
		}
		vals[i] = val
	}
	return vals, errs
}

type faultImmutable struct{ v *faultVM }

func (f faultImmutable) GetValue(_ context.Context, k []byte) ([]byte, error) {
	v := f.v
	if v.failKey != "" && string(k) == v.failKey {
		v.keyReads++
		if v.keyReads == v.failOnKeyRead {
			v.simTriggered = true
			return nil, errInjectedRead
		}
	}
	val, ok := v.st[string(k)]
	if !ok {
		return nil, database.ErrNotFound
	}
	return val, nil
}

func (v *faultVM) ImmutableState(context.Context) (state.Immutable, error) { return faultImmutable{v}, nil }

type faultLine struct {
	Ev        string            `json:"ev"`
	Case      int               `json:"case"`
	Actor     string            `json:"actor"`
	Actions   []aRec            `json:"actions"`
	Pre       map[string]uint64 `json:"pre"`
	FailKey   string            `json:"failkey"` // account whose balance record cannot be read once, "none"
	FailCall  int               `json:"failcall"`
	ExecFault bool              `json:"execfault"` // the injected failure was actually hit while ExecuteActions ran
	SimFault  bool              `json:"simfault"`  // ... while SimulateActions ran
	Exec      execRec           `json:"exec"`
	ExecInj   bool              `json:"execinjected"` // the error ExecuteActions reported carries the injected failure
	Sim       simRec            `json:"sim"`
}

func TestVerifActionAPIFaults(t *testing.T) {
	outDir := os.Getenv("VERIF_OUT")
	if outDir == "" {
		t.Skip("VERIF_OUT not set")
	}
	seed := int64(apiEnvInt("VERIF_SEED", 1))
	files := apiEnvInt("VERIF_FAULT_FILES", 4)
	per := apiEnvInt("VERIF_FAULT_CASES", 60)
	if os.Getenv("VERIF_ONLY") != "" {
		return // replays of a VM scenario do not need the fault cases
	}
	ctx := context.Background()
	for f := 0; f < files; f++ {
		r := rand.New(rand.NewSource(seed*3_000_017 + int64(f)))
		names := []string{"a0", "a1", "a2", "a3"}
		addr := map[string]codec.Address{}
		for i, n := range names {
			var ad codec.Address
			ad[0], ad[1], ad[2] = chaintest.TestAuthTypeID, byte(i+1), byte(f)
			addr[n] = ad
		}
		lines := []any{apiReset{Ev: "reset", Accounts: names, Bal: map[string]uint64{"a0": 0, "a1": 0, "a2": 0, "a3": 0},
			Note: fmt.Sprintf("fault cases seed=%d file=%d", seed, f)}}
		for c := 0; c < per; c++ {
			// state: every account has a record except (sometimes) one
			pre := map[string]uint64{}
			st := map[string][]byte{}
			missing := ""
			if r.Intn(3) == 0 {
				missing = names[r.Intn(len(names))]
			}
			for _, n := range names {
				if n == missing {
					pre[n] = 0
					continue
				}
				pre[n] = uint64(1 + r.Intn(200_000))
				st[string(storage.BalanceKey(addr[n]))] = binary.BigEndian.AppendUint64(nil, pre[n])
			}
			actor := names[r.Intn(len(names))]
			for pre[actor] == 0 {
				actor = names[r.Intn(len(names))]
			}
			na := 1 + r.Intn(5)
			failAt := -1
			if r.Intn(5) == 0 {
				failAt = r.Intn(na)
			}
			have := pre[actor]
			var acts []*actions.Transfer
			var arecs []aRec
			for j := 0; j < na; j++ {
				to := names[r.Intn(len(names))]
				var v uint64
				switch {
				case j == failAt:
					v = have + 1 + uint64(r.Intn(10))
				case have > 2:
					v = 1 + uint64(r.Int63n(int64(have/2)))
				default:
					v = 1
				}
				if v <= have && to != actor {
					have -= v
				}
				acts = append(acts, &actions.Transfer{To: addr[to], Value: v, Memo: []byte{}})
				arecs = append(arecs, aRec{To: to, Value: v, Memo: 0})
			}
			line := faultLine{Ev: "fault", Case: c, Actor: actor, Actions: arecs, Pre: pre, FailKey: "none"}
			vm := &faultVM{st: st}
			if r.Intn(6) != 0 {
				// the record that cannot be read: mostly a recipient (a failed read taken for "no record" changes its output)
				who := arecs[r.Intn(len(arecs))].To
				if r.Intn(4) == 0 {
					who = actor
				}
				line.FailKey = who
				line.FailCall = 1 + r.Intn(na)
				if r.Intn(2) == 0 { // the first load of that record
					for j, a := range arecs {
						if a.To == who || who == actor {
							line.FailCall = j + 1
							break
						}
					}
				}
				vm.failKey = string(storage.BalanceKey(addr[who]))
				vm.failOnCall = line.FailCall
				vm.failOnKeyRead = 1 + r.Intn(2)
			}
			srv := jsonrpc.NewJSONRPCServer(vm)
			req, _ := http.NewRequestWithContext(ctx, http.MethodPost, "/", nil)

			eargs := &jsonrpc.ExecuteActionArgs{Actor: addr[actor]}
			for _, a := range acts {
				eargs.Actions = append(eargs.Actions, a.Bytes())
			}
			ereply := &jsonrpc.ExecuteActionReply{}
			if err := srv.ExecuteActions(req, eargs, ereply); err != nil {
				line.Exec = execRec{Outs: []oRec{}, Failed: true, RPCErr: err.Error()}
				line.ExecInj = errors.Is(err, errInjectedRead) || strings.Contains(err.Error(), injectedReadMarker)
			} else {
				outs, err := decodeOuts(ereply.Outputs)
				if err != nil {
					t.Fatal(err)
				}
				line.Exec = execRec{Outs: outs, Failed: ereply.Error != "", Err: ereply.Error}
				line.ExecInj = strings.Contains(ereply.Error, injectedReadMarker)
			}
			line.ExecFault = vm.execTriggered

			sargs := &jsonrpc.SimulatActionsArgs{Actor: addr[actor]}
			for _, a := range acts {
				sargs.Actions = append(sargs.Actions, a.Bytes())
			}
			sreply := &jsonrpc.SimulateActionsReply{}
			if err := srv.SimulateActions(req, sargs, sreply); err != nil {
				line.Sim = simRec{OK: false, Outs: []oRec{}, Keys: [][]keyRec{}, Err: err.Error()}
			} else {
				raw := [][]byte{}
				for _, ar := range sreply.ActionResults {
					raw = append(raw, ar.Output)
				}
				outs, err := decodeOuts(raw)
				if err != nil {
					t.Fatal(err)
				}
				line.Sim = simRec{OK: true, Outs: outs, Keys: [][]keyRec{}}
			}
			line.SimFault = vm.simTriggered
			lines = append(lines, line)
		}
		fh, err := os.Create(filepath.Join(outDir, "flt"+strconv.Itoa(100000+f)[1:]+".ndjson"))
		if err != nil {
			t.Fatal(err)
		}
		enc := json.NewEncoder(fh)
		for _, l := range lines {
			if err := enc.Encode(l); err != nil {
				t.Fatal(err)
			}
		}
		fh.Close()
	}
}
