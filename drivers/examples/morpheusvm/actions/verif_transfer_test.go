//go:build verif

// C06 driver: blocks of real actions.Transfer transactions executed by a real chain.Processor with the morpheusvm
// balance handler on a merkledb parent, recorded as ndjson for spec/Transfer_Trace.tla (small values, TLC) and for
// the Apalache evaluation of spec/Transfer.tla (values near 2^64).  See /verif/DESIGN.md C06 and /verif/notes/C06.md.
package actions_test

import (
	"context"
	stded25519 "crypto/ed25519"
	"encoding/binary"
	"encoding/json"
	"errors"
	"fmt"
	"math"
	"math/rand"
	"os"
	"path/filepath"
	"strconv"
	"strings"
	"testing"
	"time"

	avametrics "github.com/ava-labs/avalanchego/api/metrics"
	"github.com/ava-labs/avalanchego/database"
	"github.com/ava-labs/avalanchego/database/memdb"
	"github.com/ava-labs/avalanchego/ids"
	"github.com/ava-labs/avalanchego/snow/engine/snowman/block"
	"github.com/ava-labs/avalanchego/trace"
	"github.com/ava-labs/avalanchego/utils/logging"
	"github.com/ava-labs/avalanchego/x/merkledb"

	"github.com/ava-labs/hypersdk/auth"
	"github.com/ava-labs/hypersdk/chain"
	"github.com/ava-labs/hypersdk/chain/chaintest"
	"github.com/ava-labs/hypersdk/codec"
	"github.com/ava-labs/hypersdk/crypto/ed25519"
	"github.com/ava-labs/hypersdk/examples/morpheusvm/actions"
	"github.com/ava-labs/hypersdk/examples/morpheusvm/storage"
	"github.com/ava-labs/hypersdk/fees"
	"github.com/ava-labs/hypersdk/genesis"
	"github.com/ava-labs/hypersdk/internal/validitywindow/validitywindowtest"
	"github.com/ava-labs/hypersdk/internal/workers"
	"github.com/ava-labs/hypersdk/state/metadata"

	internalfees "github.com/ava-labs/hypersdk/internal/fees"
)

// ---------------------------------------------------------------- world

type tAccount struct {
	name string
	addr codec.Address
	fac  *auth.ED25519Factory // nil in the test-auth family
}

type tWorld struct {
	family  string // "ed25519": sponsor = actor, real signatures; "test": chaintest.TestAuth, sponsor may differ from actor
	accts   []*tAccount
	rules   *genesis.Rules
	mm      metadata.MetadataManager
	bh      *storage.BalanceHandler
	chainID ids.ID
	db      merkledb.MerkleDB
}

func newTWorld(r *rand.Rand, family string, n int) *tWorld {
	w := &tWorld{family: family, mm: metadata.NewDefaultManager(), bh: &storage.BalanceHandler{}, chainID: ids.ID{6, 6, 6}}
	for i := 0; i < n; i++ {
		a := &tAccount{name: fmt.Sprintf("a%d", i)}
		if family == "ed25519" {
			seed := make([]byte, stded25519.SeedSize)
			r.Read(seed)
			var pk ed25519.PrivateKey
			copy(pk[:], stded25519.NewKeyFromSeed(seed))
			a.fac = auth.NewED25519Factory(pk)
			a.addr = a.fac.Address()
		} else {
			a.addr[0] = chaintest.TestAuthTypeID
			a.addr[1] = byte(i + 1)
			a.addr[2] = byte(r.Intn(256))
		}
		w.accts = append(w.accts, a)
	}
	w.rules = genesis.NewDefaultRules()
	w.rules.ChainID = w.chainID
	w.rules.NetworkID = 1
	p := uint64(1 + r.Intn(3))
	w.rules.MinUnitPrice = fees.Dimensions{p, p, p, p, p}
	return w
}

func (w *tWorld) byName(n string) *tAccount {
	for _, a := range w.accts {
		if a.name == n {
			return a
		}
	}
	return nil
}

// initDB builds the parent state: chain metadata, fee manager at the minimum prices and the genesis allocation
// (have[i] = false: no record at all; a record holding 0 is a legal genesis allocation too).
func (w *tWorld) initDB(have []bool, bal []uint64) error {
	db, err := merkledb.New(context.Background(), memdb.New(), merkledb.Config{BranchFactor: merkledb.BranchFactor16, Tracer: trace.Noop})
	if err != nil {
		return err
	}
	fm := internalfees.NewManager(nil)
	for i := fees.Dimension(0); i < fees.FeeDimensions; i++ {
		fm.SetUnitPrice(i, w.rules.MinUnitPrice[i])
	}
	if err := errors.Join(
		db.Put(chain.HeightKey(w.mm.HeightPrefix()), binary.BigEndian.AppendUint64(nil, 0)),
		db.Put(chain.TimestampKey(w.mm.TimestampPrefix()), binary.BigEndian.AppendUint64(nil, 0)),
		db.Put(chain.FeeKey(w.mm.FeePrefix()), fm.Bytes()),
	); err != nil {
		return err
	}
	for i, a := range w.accts {
		if have[i] {
			if err := db.Put(storage.BalanceKey(a.addr), binary.BigEndian.AppendUint64(nil, bal[i])); err != nil {
				return err
			}
		}
	}
	w.db = db
	return nil
}

type getter interface {
	GetValue(ctx context.Context, key []byte) ([]byte, error)
}

// balances reads every account through the public read path; rec tells whether a record exists.
func (w *tWorld) balances(v getter) (map[string]uint64, map[string]bool, error) {
	bal, rec := map[string]uint64{}, map[string]bool{}
	for _, a := range w.accts {
		b, err := v.GetValue(context.Background(), storage.BalanceKey(a.addr))
		switch {
		case err == nil && len(b) == 8:
			bal[a.name], rec[a.name] = binary.BigEndian.Uint64(b), true
		case err == nil:
			return nil, nil, fmt.Errorf("malformed balance record of %s: %x", a.name, b)
		case errors.Is(err, database.ErrNotFound):
			bal[a.name], rec[a.name] = 0, false
		default:
			return nil, nil, err
		}
	}
	return bal, rec, nil
}

// scan walks every balance record of the committed state: number of records that belong to no known account.
func (w *tWorld) scan() (int, error) {
	known := map[string]bool{}
	for _, a := range w.accts {
		known[string(storage.BalanceKey(a.addr))] = true
	}
	prefix := storage.BalanceKey(codec.Address{})[:1]
	it := w.db.NewIteratorWithPrefix(prefix)
	defer it.Release()
	others := 0
	for it.Next() {
		if !known[string(it.Key())] {
			others++
		}
	}
	return others, it.Error()
}

// ---------------------------------------------------------------- transactions

type tAct struct {
	To    string `json:"to"`
	Value uint64 `json:"-"`
	Memo  int    `json:"memo"`
}

type tTx struct {
	Sponsor string `json:"sponsor"`
	Actor   string `json:"actor"`
	Acts    []tAct `json:"-"`
	Fee     uint64 `json:"-"`
}

func (w *tWorld) build(t tTx, expiry int64) (*chain.Transaction, error) {
	acts := make([]chain.Action, len(t.Acts))
	for i, a := range t.Acts {
		acts[i] = &actions.Transfer{To: w.byName(a.To).addr, Value: a.Value, Memo: make([]byte, a.Memo)}
	}
	base := chain.Base{Timestamp: expiry, ChainID: w.chainID, MaxFee: math.MaxUint64}
	if w.family == "ed25519" {
		td := chain.NewTxData(base, acts)
		return td.Sign(w.byName(t.Actor).fac)
	}
	au := &chaintest.TestAuth{NumComputeUnits: 1, ActorAddress: w.byName(t.Actor).addr, SponsorAddress: w.byName(t.Sponsor).addr, Start: -1, End: -1}
	return chain.NewTransaction(base, acts, au)
}

func (w *tWorld) processor(cores int) (*chain.Processor, workers.Workers, error) {
	// (prometheus is only an indirect requirement of this module: importing it here would make -mod=mod rewrite go.mod)
	reg, err := avametrics.MakeAndRegister(avametrics.NewPrefixGatherer(), "verif")
	if err != nil {
		return nil, nil, err
	}
	metrics, err := chain.NewMetrics(reg)
	if err != nil {
		return nil, nil, err
	}
	var wk workers.Workers = workers.NewSerial()
	if cores > 1 {
		wk = workers.NewParallel(2, 4)
	}
	c := chain.NewDefaultConfig()
	c.TransactionExecutionCores = cores
	c.StateFetchConcurrency = cores
	var engines chain.AuthEngines = auth.DefaultEngines()
	if w.family != "ed25519" {
		engines = chaintest.NewDummyTestAuthEngines()
	}
	p := chain.NewProcessor(trace.Noop, &logging.NoLog{}, &genesis.ImmutableRuleFactory{Rules: w.rules}, wk, engines, w.mm, w.bh,
		&validitywindowtest.MockTimeValidityWindow[*chain.Transaction]{}, metrics, c)
	return p, wk, nil
}

func tErrClass(err error) string {
	switch {
	case err == nil:
		return ""
	case errors.Is(err, storage.ErrInvalidBalance) && strings.Contains(err.Error(), "failed to deduct"):
		return "deduct-failed"
	case errors.Is(err, storage.ErrInvalidBalance):
		return "insufficient"
	case errors.Is(err, chain.ErrInvalidUnitsConsumed):
		return "units"
	default:
		return "other:" + err.Error()
	}
}

// ---------------------------------------------------------------- record types
// small mode logs numbers (all < 2^31, for TLC); big mode logs decimal strings (for Apalache).

type num struct {
	v   uint64
	big bool
}

func (n num) MarshalJSON() ([]byte, error) {
	if n.big {
		return []byte(`"` + strconv.FormatUint(n.v, 10) + `"`), nil
	}
	if n.v >= 1<<31 {
		return nil, fmt.Errorf("value %d does not fit the small-value encoding", n.v)
	}
	return []byte(strconv.FormatUint(n.v, 10)), nil
}

type actRec struct {
	To    string `json:"to"`
	Value num    `json:"value"`
	Memo  int    `json:"memo"`
}

type txRec struct {
	Sponsor string   `json:"sponsor"`
	Actor   string   `json:"actor"`
	Fee     num      `json:"fee"`
	Actions []actRec `json:"actions"`
}

type outRec struct {
	Sender   num `json:"sender"`
	Receiver num `json:"receiver"`
}

type resRec struct {
	OK   bool     `json:"ok"`
	Fee  num      `json:"fee"`
	Outs []outRec `json:"outs"`
	Err  string   `json:"errtext"`
}

type blockOut struct {
	Err     string          `json:"err"`
	Results []resRec        `json:"results"`
	Post    map[string]num  `json:"post"`
	Rec     map[string]bool `json:"rec"`
	Scanned bool            `json:"scanned"`
	Others  int             `json:"others"`
}

type blockLine struct {
	Ev      string         `json:"ev"`
	Bid     int            `json:"bid"`
	Rep     int            `json:"rep"`
	Cores   int            `json:"cores"`
	Advance bool           `json:"advance"`
	Pre     map[string]num `json:"pre"`
	Txs     []txRec        `json:"txs"`
	Out     blockOut       `json:"out"`
}

type resetLine struct {
	Ev       string          `json:"ev"`
	Family   string          `json:"family"`
	Accounts []string        `json:"accounts"`
	Bal      map[string]num  `json:"bal"`
	Rec      map[string]bool `json:"rec"`
	Note     string          `json:"note"`
}

func nums(m map[string]uint64, big bool) map[string]num {
	out := map[string]num{}
	for k, v := range m {
		out[k] = num{v, big}
	}
	return out
}

// ---------------------------------------------------------------- scenario generation

// shapeFee: the fee of a transaction depends on its shape (sponsor, actor, recipients, memo lengths), not on the
// values moved, so it can be known before the values are chosen.
func (w *tWorld) shapeFee(t tTx, feeRaw []byte, ts int64, expiry int64) (uint64, error) {
	probe := t
	probe.Acts = append([]tAct{}, t.Acts...)
	for i := range probe.Acts {
		probe.Acts[i].Value = 1
	}
	tx, err := w.build(probe, expiry)
	if err != nil {
		return 0, err
	}
	return w.txFee(tx, feeRaw, ts)
}

func (w *tWorld) txFee(tx *chain.Transaction, feeRaw []byte, ts int64) (uint64, error) {
	units, err := tx.Units(w.bh, w.rules)
	if err != nil {
		return 0, err
	}
	return internalfees.NewManager(feeRaw).ComputeNext(ts, w.rules).Fee(units)
}

// pickValue chooses the value of the next transfer around the (guessed) current balances so that the interesting
// outcomes are frequent: whole balance (record deleted), one more than the balance (fails, rolls the tx back),
// zero, small, and - in big mode - values that do / do not overflow the receiver.
func pickValue(r *rand.Rand, have uint64, recv uint64, big bool, mayFail bool, wholeOK bool) uint64 {
	if mayFail {
		switch c := r.Intn(8); {
		case c < 3:
			return have + 1 // one too many
		case c < 4:
			return 0
		case c < 5 && big:
			return math.MaxUint64 - recv + 1 // overflows the receiver by one (if affordable)
		case c < 6:
			return have + 1 + uint64(r.Intn(1000))
		}
	}
	switch c := r.Intn(20); {
	case c < 7 && wholeOK && have > 0:
		return have // whole balance: the record is deleted
	case c < 7 && have > 1:
		return 1 + uint64(r.Int63n(int64((have-1)%(1<<62))+1))%(have-1) // leaves something for the next action
	case c < 9:
		return 1
	case c < 12 && have > 1:
		return have - 1 // leaves exactly one token
	case c < 15 && big && math.MaxUint64-recv > 0:
		return math.MaxUint64 - recv // fills the receiver to the brim (if affordable)
	default:
		if have == 0 {
			return uint64(1 + r.Intn(3))
		}
		return 1 + uint64(r.Int63n(int64(have%(1<<62))+1))%have
	}
}

// forcedTx: one single-transfer transaction of a scripted block shape; value gets the actor's balance after the fee
type forcedTx struct {
	actor, sponsor, to string
	value              func(have uint64) uint64
}

// drainRefillScript builds "A drained to exactly zero by one transaction, credited by a later transaction of the same
// block" shapes.  A pays its own fee (its whole balance minus the fee leaves) or a separate sponsor pays (test auth).
func drainRefillScript(r *rand.Rand, names []string, pre map[string]uint64, family string, margin uint64) []forcedTx {
	if r.Intn(3) != 0 {
		return nil
	}
	var as, bs []string
	for _, n := range names {
		if pre[n] > margin && pre[n] < 1<<29 {
			as = append(as, n)
		}
		if pre[n] > 4*margin && pre[n] < 1<<62 {
			bs = append(bs, n)
		}
	}
	if len(as) == 0 || len(bs) == 0 {
		return nil
	}
	a := as[r.Intn(len(as))]
	b := bs[r.Intn(len(bs))]
	if a == b {
		if len(bs) < 2 {
			return nil
		}
		for b == a {
			b = bs[r.Intn(len(bs))]
		}
	}
	sponsorFor := func(x string) string {
		if family == "test" && r.Intn(2) == 0 {
			return b // a separate (rich) sponsor: the drained account pays no fee
		}
		return x
	}
	whole := func(have uint64) uint64 { return have }
	exact := pre[a]
	fixed := func(v uint64) func(uint64) uint64 { return func(uint64) uint64 { return v } }
	drain := forcedTx{actor: a, sponsor: sponsorFor(a), to: b, value: whole}
	switch r.Intn(3) {
	case 0: // drain, exact refill
		return []forcedTx{drain, {actor: b, sponsor: b, to: a, value: fixed(exact)}}
	case 1: // drain, refill with another amount, drain again, exact refill
		other := exact/2 + margin + uint64(r.Intn(100))
		return []forcedTx{drain, {actor: b, sponsor: b, to: a, value: fixed(other)},
			{actor: a, sponsor: sponsorFor(a), to: b, value: whole}, {actor: b, sponsor: b, to: a, value: fixed(exact)}}
	default: // drain, refill with another amount, drain again (stays empty)
		other := exact/2 + margin + uint64(r.Intn(100))
		return []forcedTx{drain, {actor: b, sponsor: b, to: a, value: fixed(other)}, {actor: a, sponsor: sponsorFor(a), to: b, value: whole}}
	}
}

func TestVerifTransferBlocks(t *testing.T) {
	outDir := os.Getenv("VERIF_OUT")
	if outDir == "" {
		t.Skip("VERIF_OUT not set")
	}
	seed := int64(envInt("VERIF_SEED", 1))
	n := envInt("VERIF_SCENARIOS", 20)
	nbig := envInt("VERIF_BIG", 0) // scenarios n..n+nbig-1 use balances near 2^64 (decimal strings, for Apalache)
	only := os.Getenv("VERIF_ONLY")
	ctx := context.Background()
	for s := 0; s < n+nbig; s++ {
		if only != "" && only != strconv.Itoa(s) {
			continue
		}
		big := s >= n
		prefix, salt := "sm", int64(0)
		if big {
			prefix, salt = "big", 1_000_003
		}
		r := rand.New(rand.NewSource(seed*9_000_011 + int64(s) + salt))
		family := []string{"ed25519", "test", "test"}[r.Intn(3)]
		w := newTWorld(r, family, 3+r.Intn(2))
		// a rough fee to size the genesis allocation around it
		have := make([]bool, len(w.accts))
		bal := make([]uint64, len(w.accts))
		for i := range w.accts {
			have[i] = true
		}
		if err := w.initDB(have, bal); err != nil {
			t.Fatal(err)
		}
		feeRaw, _ := w.db.GetValue(ctx, chain.FeeKey(w.mm.FeePrefix()))
		f0, err := w.shapeFee(tTx{Sponsor: "a0", Actor: "a0", Acts: []tAct{{To: "a1"}}}, feeRaw, 1000, 1000)
		if err != nil {
			t.Fatal(err)
		}
		for i := range w.accts {
			switch c := r.Intn(12); {
			case c == 0:
				have[i], bal[i] = false, 0
			case c == 1:
				have[i], bal[i] = true, 0 // a genesis allocation of zero tokens
			case c == 2:
				bal[i] = f0 // exactly one fee
			case c < 6:
				bal[i] = f0*uint64(1+r.Intn(3)) + uint64(r.Intn(6))
			case c < 9:
				bal[i] = f0*uint64(2+r.Intn(8)) + uint64(r.Intn(int(f0)))
			default:
				bal[i] = uint64(r.Intn(400_000))
			}
			if big && r.Intn(2) == 0 {
				bal[i] = math.MaxUint64 - uint64(r.Intn(3))*f0 - uint64(r.Intn(5))
			}
		}
		if err := w.initDB(have, bal); err != nil {
			t.Fatal(err)
		}
		names := make([]string, len(w.accts))
		for i, a := range w.accts {
			names[i] = a.name
		}
		b0, rec0, err := w.balances(w.db)
		if err != nil {
			t.Fatal(err)
		}
		var lines []any
		lines = append(lines, resetLine{Ev: "reset", Family: family, Accounts: names, Bal: nums(b0, big), Rec: rec0,
			Note: fmt.Sprintf("seed=%d scenario=%d big=%v minprice=%d", seed, s, big, w.rules.MinUnitPrice[0])})
		dump := func() {
			f, err := os.Create(filepath.Join(outDir, fmt.Sprintf("%s%05d.ndjson", prefix, s)))
			if err != nil {
				t.Fatal(err)
			}
			defer f.Close()
			enc := json.NewEncoder(f)
			for _, l := range lines {
				if err := enc.Encode(l); err != nil {
					t.Fatal(err)
				}
			}
		}
		parentID := ids.Empty
		height, lastTS := uint64(0), int64(0)
		nblocks := 1 + r.Intn(3)
		for b := 0; b < nblocks; b++ {
			ts := lastTS + w.rules.MinEmptyBlockGap + int64(r.Intn(3))*500
			expiry := (ts+999)/1000*1000 + 1000*int64(r.Intn(20))
			feeRaw, err := w.db.GetValue(ctx, chain.FeeKey(w.mm.FeePrefix()))
			if err != nil {
				t.Fatal(err)
			}
			pre, _, err := w.balances(w.db)
			if err != nil {
				t.Fatal(err)
			}
			guess := map[string]uint64{}
			for k, v := range pre {
				guess[k] = v
			}
			ntx := 1 + r.Intn(4)
			// about a third of the blocks start with a scripted cross-transaction shape: one transaction drains an account
			// to exactly zero (its record is deleted at block level), a later transaction of the same block pays it back
			// exactly its pre-block balance (or another amount, after which it is drained again and then refilled exactly)
			script := drainRefillScript(r, names, pre, family, 4*f0)
			if len(script) > 0 {
				ntx = len(script) + r.Intn(2)
			}
			var txs []*chain.Transaction
			var recs []txRec
			tries := 0
			for i := 0; i < ntx; i++ {
				var forced *forcedTx
				if i < len(script) {
					forced = &script[i]
				}
				tt := tTx{Actor: names[r.Intn(len(names))]}
				for k := 0; k < 3 && guess[tt.Actor] == 0; k++ { // mostly actors that own something
					tt.Actor = names[r.Intn(len(names))]
				}
				tt.Sponsor = tt.Actor
				if family == "test" && r.Intn(2) == 0 {
					tt.Sponsor = names[r.Intn(len(names))]
				}
				failAt := -1 // position of an action meant to fail (about a quarter of the transactions)
				na := 1 + r.Intn(4)
				if r.Intn(5) == 0 {
					na = 1 + r.Intn(16)
				}
				if r.Intn(4) == 0 {
					failAt = r.Intn(na)
				}
				if forced != nil {
					tt.Actor, tt.Sponsor, na, failAt = forced.actor, forced.sponsor, 1, -1
				}
				for j := 0; j < na; j++ {
					if forced != nil {
						tt.Acts = append(tt.Acts, tAct{To: forced.to})
						continue
					}
					a := tAct{To: names[r.Intn(len(names))]}
					if r.Intn(4) == 0 {
						a.To = tt.Actor // self-transfer
					}
					switch c := r.Intn(40); {
					case c == 0:
						a.Memo = actions.MaxMemoSize + 1 // rejected by Execute
					case c < 4:
						a.Memo = r.Intn(actions.MaxMemoSize + 1)
					}
					tt.Acts = append(tt.Acts, a)
				}
				fee, err := w.shapeFee(tt, feeRaw, ts, expiry)
				if err != nil {
					t.Fatal(err)
				}
				tt.Fee = fee
				// choose the values along a guess of the running balances (only to make edge cases frequent)
				g := map[string]uint64{}
				for k, v := range guess {
					g[k] = v
				}
				payable := g[tt.Sponsor] >= fee
				if payable {
					g[tt.Sponsor] -= fee
				}
				failed := false
				for j := range tt.Acts {
					a := &tt.Acts[j]
					wholeOK := a.To == tt.Actor || j == len(tt.Acts)-1 || j+1 == failAt
					a.Value = pickValue(r, g[tt.Actor], g[a.To], big, j == failAt, wholeOK)
					if forced != nil {
						a.Value = forced.value(g[tt.Actor])
					}
					if !big && a.Value >= 1<<30 {
						a.Value = 1 << 20
					}
					if failed || a.Value == 0 || a.Memo > actions.MaxMemoSize || g[tt.Actor] < a.Value {
						failed = true
						continue
					}
					g[tt.Actor] -= a.Value
					if g[a.To] > math.MaxUint64-a.Value {
						g[tt.Actor] += a.Value
						failed = true
						continue
					}
					g[a.To] += a.Value
				}
				if payable {
					if failed {
						guess[tt.Sponsor] -= fee
					} else {
						guess = g
					}
				} else if forced != nil {
					script = nil // the scripted sponsor cannot pay: give the shape up, continue with random transactions
					i--
					continue
				} else if tries++; tries < 40 && r.Intn(12) != 0 {
					i-- // mostly avoid blocks that are invalid because a sponsor cannot pay
					continue
				}
				tx, err := w.build(tt, expiry)
				if err != nil {
					t.Fatal(err)
				}
				if realFee, err := w.txFee(tx, feeRaw, ts); err != nil || realFee != fee {
					t.Fatalf("driver: fee of the shape (%d) differs from the fee of the transaction (%d, %v)", fee, realFee, err)
				}
				txs = append(txs, tx)
				tr := txRec{Sponsor: tt.Sponsor, Actor: tt.Actor, Fee: num{fee, big}}
				for _, a := range tt.Acts {
					tr.Actions = append(tr.Actions, actRec{To: a.To, Value: num{a.Value, big}, Memo: a.Memo})
				}
				recs = append(recs, tr)
			}
			root, err := w.db.GetMerkleRoot(ctx)
			if err != nil {
				t.Fatal(err)
			}
			sb, err := chain.NewStatelessBlock(parentID, ts, height+1, txs, root, &block.Context{})
			if err != nil {
				t.Fatal(err)
			}
			coresList := []int{1, 2 + r.Intn(3)}
			var lastOut *chain.OutputBlock
			lastErr := ""
			for rep, cores := range coresList {
				p, wk, err := w.processor(cores)
				if err != nil {
					t.Fatal(err)
				}
				type res struct {
					out *chain.OutputBlock
					err error
				}
				ch := make(chan res, 1)
				go func() {
					o, e := p.Execute(ctx, w.db, chain.NewExecutionBlock(sb), true)
					ch <- res{o, e}
				}()
				var rr res
				select {
				case rr = <-ch:
				case <-time.After(120 * time.Second):
					dump()
					t.Fatalf("HANG: Processor.Execute did not return within 120s (scenario %d block %d)", s, b)
				}
				wk.Stop()
				advance := rep == len(coresList)-1
				bo := blockOut{Err: tErrClass(rr.err), Results: []resRec{}, Post: nums(pre, big), Rec: map[string]bool{"_": false}}
				if rr.err == nil {
					for _, res := range rr.out.ExecutionResults.Results {
						rc := resRec{OK: res.Success, Fee: num{res.Fee, big}, Outs: []outRec{}, Err: string(res.Error)}
						for _, o := range res.Outputs {
							typed, err := actions.UnmarshalTransferResult(o)
							if err != nil {
								dump()
								t.Fatalf("undecodable transfer output %x: %v", o, err)
							}
							tr := typed.(*actions.TransferResult)
							rc.Outs = append(rc.Outs, outRec{num{tr.SenderBalance, big}, num{tr.ReceiverBalance, big}})
						}
						bo.Results = append(bo.Results, rc)
					}
					post, rec, err := w.balances(rr.out.View)
					if err != nil {
						dump()
						t.Fatalf("reading balances after block: %v", err)
					}
					bo.Post, bo.Rec = nums(post, big), rec
					if advance {
						if err := rr.out.View.CommitToDB(ctx); err != nil {
							t.Fatal(err)
						}
						if bo.Others, err = w.scan(); err != nil {
							t.Fatal(err)
						}
						bo.Scanned = true
					}
					lastOut = rr.out
				}
				lastErr = bo.Err
				lines = append(lines, blockLine{Ev: "block", Bid: b, Rep: rep, Cores: cores, Advance: advance, Pre: nums(pre, big), Txs: recs, Out: bo})
			}
			if lastErr != "" || lastOut == nil {
				break
			}
			parentID, height, lastTS = lastOut.GetID(), height+1, ts
		}
		dump()
	}
}

func envInt(name string, def int) int {
	if v, err := strconv.Atoi(os.Getenv(name)); err == nil {
		return v
	}
	return def
}
