//go:build verif

// Driver for X14 (see /verif/spec/TypeRegistry.tla): seeded and exhaustive short histories of Register / CheckType /
// GeneratePrivateKey / LoadPrivateKey on a real auth.AuthProvider with stub factories that record which one ran and
// what it was handed.
package auth_test

import (
	"bytes"
	"encoding/json"
	"errors"
	"fmt"
	"math/rand"
	"os"
	"path/filepath"
	"strconv"
	"testing"

	"github.com/ava-labs/hypersdk/auth"
)

func apEnvInt(name string, def int) int {
	if v, err := strconv.Atoi(os.Getenv(name)); err == nil {
		return v
	}
	return def
}

type apRec struct {
	p       *auth.AuthProvider
	lines   []map[string]any
	nextDec int
	invoked int
	intact  bool
	cur     []byte
	dir     string
}

type apFactory struct {
	r *apRec
	d int
}

func (f *apFactory) GeneratePrivateKey() (*auth.PrivateKey, error) {
	f.r.invoked = f.d
	return &auth.PrivateKey{Bytes: []byte{byte(f.d), byte(f.d >> 8)}}, nil
}

func (f *apFactory) LoadPrivateKey(p []byte) (*auth.PrivateKey, error) {
	f.r.invoked = f.d
	f.r.intact = bytes.Equal(p, f.r.cur)
	return &auth.PrivateKey{Bytes: []byte{byte(f.d), byte(f.d >> 8)}}, nil
}

func (r *apRec) add(line map[string]any) {
	line["ids"], line["decs"], line["listed"] = []int{}, []int{}, false
	r.lines = append(r.lines, line)
}

func (r *apRec) reset() {
	r.p = auth.NewAuthProvider()
	r.nextDec = 0
	r.add(map[string]any{"ev": "reset", "cap": 0})
}

func (r *apRec) register(id int) string {
	r.nextDec++
	err := r.p.Register(fmt.Sprintf("key-%d", id), &apFactory{r: r, d: r.nextDec})
	e := ""
	switch {
	case err == nil:
	case errors.Is(err, auth.ErrAlreadyRegisteredKeyType):
		e = "dup"
	default:
		e = "unknown"
	}
	r.add(map[string]any{"ev": "reg", "id": id, "dec": r.nextDec, "err": e})
	return e
}

func (r *apRec) use(id int, load bool) {
	r.invoked, r.intact = -1, true
	key := fmt.Sprintf("key-%d", id)
	var (
		pk  *auth.PrivateKey
		err error
	)
	if load {
		r.cur = []byte{byte(id), 7, byte(len(r.lines))}
		path := filepath.Join(r.dir, "k")
		if werr := os.WriteFile(path, r.cur, 0o600); werr != nil {
			panic(werr)
		}
		pk, err = r.p.LoadPrivateKey(key, path)
	} else {
		pk, err = r.p.GeneratePrivateKey(key)
	}
	e := ""
	switch {
	case err == nil:
	case errors.Is(err, auth.ErrInvalidKeyType):
		e = "unknown"
	default:
		e = "other"
	}
	outok := (err != nil && pk == nil) || (err == nil && pk != nil && bytes.Equal(pk.Bytes, []byte{byte(r.invoked), byte(r.invoked >> 8)}))
	// CheckType must agree with the lookup
	if (r.p.CheckType(key) == nil) != (err == nil) {
		outok = false
	}
	r.add(map[string]any{"ev": "use", "id": id, "err": e, "dec": r.invoked, "intact": r.intact, "outok": outok})
}

func (r *apRec) flush(t *testing.T, name string) {
	f, err := os.Create(filepath.Join(os.Getenv("VERIF_OUT"), name+".ndjson"))
	if err != nil {
		t.Fatal(err)
	}
	enc := json.NewEncoder(f)
	for _, l := range r.lines {
		if err := enc.Encode(l); err != nil {
			t.Fatal(err)
		}
	}
	f.Close()
	r.lines = nil
}

func TestVerifAuthProviderRecord(t *testing.T) {
	seed := int64(apEnvInt("VERIF_SEED", 1))
	only := apEnvInt("VERIF_ONLY", -1)
	depth := apEnvInt("VERIF_SYSDEPTH", 4)
	nrand := apEnvInt("VERIF_SCENARIOS", 40)
	r := &apRec{dir: t.TempDir()}
	n := 0
	emit := func(prefix string) {
		if only < 0 || only == n {
			r.flush(t, fmt.Sprintf("%s-%06d", prefix, n))
		} else {
			r.lines = nil
		}
		n++
	}
	const nops = 6 // register key 0..1, generate key 0..2, load key 0
	total := 1
	for i := 0; i < depth; i++ {
		total *= nops
	}
	for h := 0; h < total; h++ {
		r.reset()
		x := h
		for i := 0; i < depth; i++ {
			op := x % nops
			x /= nops
			switch {
			case op < 2:
				r.register(op)
			case op < 5:
				r.use(op-2, false)
			default:
				r.use(0, true)
			}
		}
		emit("apsys")
	}
	rng := rand.New(rand.NewSource(seed*2711 + 3))
	for s := 0; s < nrand; s++ {
		r.reset()
		u := 2 + rng.Intn(6)
		for i := 0; i < 30; i++ {
			id := rng.Intn(u)
			if rng.Intn(2) == 0 {
				r.register(id)
			} else {
				r.use(id, rng.Intn(3) == 0)
			}
		}
		emit("aprnd")
	}
}
