//go:build verif

// Driver for C27 at the VM boundary (see /verif/DESIGN.md 10.4, spec/GenesisVM_Trace.tla): seeded genesis files are
// initialised through the real snow.VM / vm.VM on an on-disk data directory, the VM is shut down, and initialised again
// on the same directory (one or two restarts) before any block beyond genesis was accepted.  After every Initialize one
// "vminit" line records what the VM presents: last accepted height and block id, the balance of every address, and
// whether the root of the state equals the genesis block's state root.
package vm_test

import (
	"context"
	"encoding/json"
	"errors"
	"fmt"
	"math/rand"
	"os"
	"path/filepath"
	"testing"

	"github.com/ava-labs/avalanchego/ids"
	"github.com/ava-labs/avalanchego/snow/engine/common"
	"github.com/ava-labs/avalanchego/snow/engine/enginetest"
	"github.com/ava-labs/avalanchego/snow/snowtest"
	"github.com/ava-labs/avalanchego/utils/hashing"
	"github.com/ava-labs/avalanchego/utils/logging"
	"github.com/ava-labs/avalanchego/x/merkledb"

	"github.com/ava-labs/hypersdk/auth"
	"github.com/ava-labs/hypersdk/chain"
	"github.com/ava-labs/hypersdk/chain/chaintest"
	"github.com/ava-labs/hypersdk/codec"
	"github.com/ava-labs/hypersdk/genesis"
	"github.com/ava-labs/hypersdk/snow"
	"github.com/ava-labs/hypersdk/state/balance"
	"github.com/ava-labs/hypersdk/state/metadata"
	"github.com/ava-labs/hypersdk/vm"
)

type gvAlloc struct {
	A string `json:"a"`
	B int64  `json:"b"`
}

type gvLine struct {
	Ev     string    `json:"ev"`
	Start  int       `json:"start"`
	Err    string    `json:"err"`
	Height int64     `json:"height"`
	BlkID  string    `json:"blkid"`
	RootEq bool      `json:"rooteq"`
	Allocs []gvAlloc `json:"allocs"`
	Addrs  []string  `json:"addrs"`
	Bal    []int64   `json:"bal"`
}

// one incarnation: Initialize on dataDir, observe, Shutdown
func gvStart(t *testing.T, dataDir string, genesisBytes []byte, names []string, addrs []codec.Address, prefix byte, line *gvLine) {
	ctx := context.Background()
	actionParser := codec.NewTypeParser[chain.Action]()
	authParser := codec.NewTypeParser[chain.Auth]()
	outputParser := codec.NewTypeParser[codec.Typed]()
	if err := errors.Join(
		actionParser.Register(&chaintest.TestAction{}, chaintest.UnmarshalTestAction),
		authParser.Register(&auth.ED25519{}, auth.UnmarshalED25519),
		outputParser.Register(&chaintest.TestOutput{}, chaintest.UnmarshalTestOutput),
	); err != nil {
		t.Fatal(err)
	}
	bh := balance.NewPrefixBalanceHandler([]byte{prefix})
	// no optional extensions: the indexer keeps its own database open past Shutdown, which prevents an in-process restart
	hvm, err := vm.NewFactory(genesis.DefaultGenesisFactory{}, bh, metadata.NewDefaultManager(), actionParser, authParser,
		outputParser, auth.DefaultEngines(), vm.WithManual()).New()
	if err != nil {
		t.Fatal(err)
	}
	snowVM := snow.NewVM("v0.0.1", hvm)
	snowCtx := snowtest.Context(t, hashing.ComputeHash256Array(genesisBytes))
	snowCtx.Log = logging.NoLog{}
	snowCtx.ChainDataDir = dataDir
	snowCtx.NodeID = ids.GenerateTestNodeID()
	toEngine := make(chan common.Message, 1)
	if err := snowVM.Initialize(ctx, snowCtx, nil, genesisBytes, nil, nil, toEngine, nil, &enginetest.Sender{T: t}); err != nil {
		line.Err = "initialize: " + err.Error()
		return
	}
	defer func() {
		if err := snowVM.Shutdown(ctx); err != nil && line.Err == "" {
			line.Err = "shutdown: " + err.Error()
		}
	}()
	blk, err := hvm.LastAcceptedBlock(ctx)
	if err != nil {
		line.Err = "last accepted: " + err.Error()
		return
	}
	im, err := hvm.ImmutableState(ctx)
	if err != nil {
		line.Err = "state: " + err.Error()
		return
	}
	line.Height = int64(blk.GetHeight())
	line.BlkID = blk.GetID().String()
	if view, ok := im.(merkledb.View); ok {
		root, rerr := view.GetMerkleRoot(ctx)
		line.RootEq = rerr == nil && root == blk.GetStateRoot()
	}
	for i, a := range addrs {
		bal, berr := bh.GetBalance(ctx, a, im)
		if berr != nil {
			line.Err = fmt.Sprintf("balance of %s: %v", names[i], berr)
			return
		}
		line.Bal = append(line.Bal, int64(bal))
	}
}

func TestVerifGenesisVM(t *testing.T) {
	outDir := os.Getenv("VERIF_OUT")
	if outDir == "" {
		t.Skip("VERIF_OUT not set")
	}
	seed := int64(envIntC("VERIF_SEED", 1))
	n := envIntC("VERIF_SCENARIOS", 8)
	only := envIntC("VERIF_ONLY", -1)
	for s := 0; s < n; s++ {
		if only >= 0 && s != only {
			continue
		}
		r := rand.New(rand.NewSource(seed*5_000_011 + int64(s)))
		names := []string{"g1", "g2", "g3", "g4"}[:2+r.Intn(3)]
		addrs := make([]codec.Address, len(names))
		for i := range addrs {
			addrs[i] = codec.Address{1, byte(i + 1), byte(r.Intn(256))}
		}
		var allocs []gvAlloc
		custom := []*genesis.CustomAllocation{}
		for i, k := 0, r.Intn(6); i < k; i++ {
			j := r.Intn(len(names))
			b := int64(r.Intn(5000))
			if r.Intn(4) == 0 {
				b = 0
			}
			allocs = append(allocs, gvAlloc{A: names[j], B: b})
			custom = append(custom, &genesis.CustomAllocation{Address: addrs[j], Balance: uint64(b)})
		}
		if allocs == nil {
			allocs = []gvAlloc{}
		}
		rules := genesis.NewDefaultRules()
		genesisBytes, err := json.Marshal(&genesis.DefaultGenesis{StateBranchFactor: merkledb.BranchFactor16, CustomAllocation: custom, Rules: rules})
		if err != nil {
			t.Fatal(err)
		}
		prefix := byte(0) // as vm_test.go: the default metadata prefixes leave 0 to the balance handler
		dataDir := t.TempDir()
		f, err := os.Create(filepath.Join(outDir, fmt.Sprintf("gv%05d.ndjson", s)))
		if err != nil {
			t.Fatal(err)
		}
		enc := json.NewEncoder(f)
		_ = enc.Encode(map[string]any{"ev": "reset", "note": fmt.Sprintf("genesis-vm seed=%d scenario=%d", seed, s)})
		for start, k := 0, 2+r.Intn(2); start < k; start++ {
			line := gvLine{Ev: "vminit", Start: start, Allocs: allocs, Addrs: names, Bal: []int64{}}
			gvStart(t, dataDir, genesisBytes, names, addrs, prefix, &line)
			if line.Err != "" {
				line.Bal = make([]int64, len(names))
			}
			_ = enc.Encode(line)
		}
		f.Close()
	}
}
