//go:build verif

// Driver for C18 (see /verif/DESIGN.md, /verif/notes/C18.md): crash injection on the real hypersdk VM without a
// source hook.  The parent test builds a chain of N blocks on a reference VM that never crashes, then runs the
// victim VM in child processes (this same test binary) on an on-disk data directory:
//
//	phase = initialise the VM on the directory (fresh or restart), parse/verify/Accept blocks la+1..m without
//	        waiting for the asynchronous accepter, with an accepted-block subscriber that parks the accepter
//	        inside the notification of block k (before or after the observer has seen k), then die with
//	        os.Exit(77) (no Shutdown, no database Close) - or finish cleanly.
//
// Everything the children observe (Initialize result, LastAccepted, ConsensusIndex.GetLastAccepted with state
// root and execution results, every accepted-block notification, every Accept that returned) is appended to an
// event file; the parent maps ids/roots/results to heights of the reference chain and writes one ndjson trace
// per scenario for spec/SnowVMRestart_Trace.tla.
package vm_test

import (
	"context"
	"crypto/sha256"
	"encoding/base64"
	"encoding/hex"
	"encoding/json"
	"errors"
	"fmt"
	"math/rand"
	"os"
	"os/exec"
	"path/filepath"
	"strconv"
	"strings"
	"sync"
	"testing"
	"time"

	"github.com/ava-labs/avalanchego/snow/engine/common"
	"github.com/ava-labs/avalanchego/snow/engine/enginetest"
	"github.com/ava-labs/avalanchego/snow/snowtest"
	"github.com/ava-labs/avalanchego/utils/hashing"
	"github.com/ava-labs/avalanchego/utils/logging"
	"github.com/stretchr/testify/require"

	"github.com/ava-labs/hypersdk/chain"
	"github.com/ava-labs/hypersdk/chain/chaintest"
	"github.com/ava-labs/hypersdk/event"
	"github.com/ava-labs/hypersdk/snow"

	avasnow "github.com/ava-labs/avalanchego/snow"
)

const crashExitCode = 77

type verifRef struct {
	ID      string `json:"id"`
	Root    string `json:"root"`
	Results string `json:"results"`
}

type verifChain struct {
	Genesis string     `json:"genesis"`
	Blocks  []string   `json:"blocks"` // Blocks[i] = bytes of the block at height i+1
	Ref     []verifRef `json:"ref"`    // Ref[h] = what a node that fully processed h blocks reports
}

func hashHex(b []byte) string {
	s := sha256.Sum256(b)
	return hex.EncodeToString(s[:8])
}

func observe(ctx context.Context, out *chain.OutputBlock) (verifRef, error) {
	root, err := out.View.GetMerkleRoot(ctx)
	if err != nil {
		return verifRef{}, err
	}
	res := []byte{}
	if out.ExecutionResults != nil {
		res = out.ExecutionResults.Marshal()
	}
	return verifRef{ID: out.GetID().String(), Root: root.String(), Results: hashHex(res)}, nil
}

// buildReference: N blocks with one fee-paying transaction each on a VM that never crashes.
func buildReference(ctx context.Context, t *testing.T, n int) *verifChain {
	r := require.New(t)
	network := NewVMTestNetwork(ctx, t, 1)
	network.SetState(ctx, avasnow.NormalOp)
	defer network.Shutdown(ctx)
	vc := &verifChain{Genesis: base64.StdEncoding.EncodeToString(network.VMs[0].VM.GenesisBytes)}
	gen, err := network.VMs[0].SnowVM.GetConsensusIndex().GetLastAccepted(ctx)
	r.NoError(err)
	ref, err := observe(ctx, gen)
	r.NoError(err)
	vc.Ref = append(vc.Ref, ref)
	actions := chaintest.NewDummyTestActions(n)
	for i := 0; i < n; i++ {
		tx, err := network.GenerateTx(ctx, []chain.Action{actions[i]}, network.AuthFactories()[0])
		r.NoError(err)
		network.SubmitTxs(ctx, []*chain.Transaction{tx})
		blks := network.BuildBlockAndUpdateHead(ctx)
		vc.Blocks = append(vc.Blocks, base64.StdEncoding.EncodeToString(blks[0].Bytes()))
		r.NoError(blks[0].SyncAccept(ctx))
		out, err := network.VMs[0].SnowVM.GetConsensusIndex().GetLastAccepted(ctx)
		r.NoError(err)
		r.Equal(uint64(i+1), out.GetHeight())
		ref, err := observe(ctx, out)
		r.NoError(err)
		vc.Ref = append(vc.Ref, ref)
	}
	return vc
}

// ---------------------------------------------------------------- child

type childLog struct {
	mu sync.Mutex
	f  *os.File
}

func (l *childLog) emit(m map[string]any) {
	l.mu.Lock()
	defer l.mu.Unlock()
	bs, _ := json.Marshal(m)
	if _, err := l.f.Write(append(bs, '\n')); err != nil {
		panic(err)
	}
}

// TestVerifCrashChild is one incarnation of the victim node.  Environment:
// VERIF_CHILD=run VERIF_DIR=<scenario dir> VERIF_CHAIN=<chain.json> VERIF_UPTO=<m> VERIF_HOLD=<k>:<pre|post>|none
// VERIF_END=crash|stop
func TestVerifCrashChild(t *testing.T) {
	if os.Getenv("VERIF_CHILD") != "run" {
		t.Skip("not a child")
	}
	ctx := context.Background()
	r := require.New(t)
	dir := os.Getenv("VERIF_DIR")
	var vc verifChain
	bs, err := os.ReadFile(os.Getenv("VERIF_CHAIN"))
	r.NoError(err)
	r.NoError(json.Unmarshal(bs, &vc))
	upto, _ := strconv.Atoi(os.Getenv("VERIF_UPTO"))
	holdK, holdPos := uint64(0), ""
	if hs := os.Getenv("VERIF_HOLD"); hs != "" && hs != "none" {
		parts := strings.Split(hs, ":")
		k, _ := strconv.Atoi(parts[0])
		holdK, holdPos = uint64(k), parts[1]
	}
	f, err := os.OpenFile(filepath.Join(dir, "events.ndjson"), os.O_APPEND|os.O_CREATE|os.O_WRONLY, 0o644)
	r.NoError(err)
	log := &childLog{f: f}
	log.emit(map[string]any{"ev": "boot"})

	genesisBytes, err := base64.StdEncoding.DecodeString(vc.Genesis)
	r.NoError(err)
	factory := NewTestVMFactory(r)
	inner, err := factory.New()
	r.NoError(err)
	snowVM := snow.NewVM("v0.0.1", inner)
	held := make(chan struct{})
	// registered before Initialize: first in the list of accepted subscribers
	snowVM.AddAcceptedSub(event.SubscriptionFunc[*chain.OutputBlock]{NotifyF: func(_ context.Context, b *chain.OutputBlock) error {
		h := b.GetHeight()
		if h == holdK && holdPos == "pre" {
			// the state of block h is committed; the observer below has not been told yet
			log.emit(map[string]any{"ev": "commit", "h": h})
			close(held)
			select {}
		}
		log.emit(map[string]any{"ev": "notify", "h": h, "id": b.GetID().String()})
		if h == holdK && holdPos == "post" {
			close(held)
			select {}
		}
		return nil
	}})
	snowCtx := snowtest.Context(t, hashing.ComputeHash256Array(genesisBytes))
	snowCtx.Log = logging.NoLog{}
	snowCtx.ChainDataDir = filepath.Join(dir, "data")
	r.NoError(os.MkdirAll(snowCtx.ChainDataDir, 0o755))
	toEngine := make(chan common.Message, 16)
	res, msg := "ok", ""
	func() {
		defer func() {
			if p := recover(); p != nil {
				res, msg = "panic", fmt.Sprint(p)
			}
		}()
		if err := snowVM.Initialize(ctx, snowCtx, nil, genesisBytes, nil, nil, toEngine, nil, &enginetest.Sender{T: t}); err != nil {
			res, msg = "err", err.Error()
		}
	}()
	if res != "ok" {
		if len(msg) > 200 {
			msg = msg[:200]
		}
		log.emit(map[string]any{"ev": "start", "res": res, "msg": msg})
		return
	}
	obs := func(ev string) uint64 {
		m := map[string]any{"ev": ev, "res": "ok", "msg": ""}
		la, err := snowVM.LastAccepted(ctx)
		r.NoError(err)
		m["la_id"] = la.String()
		out, err := snowVM.GetConsensusIndex().GetLastAccepted(ctx)
		r.NoError(err)
		o, err := observe(ctx, out)
		r.NoError(err)
		m["lp_id"], m["root"], m["results"] = o.ID, o.Root, o.Results
		log.emit(m)
		return snowVM.LastAcceptedBlock(ctx).Height()
	}
	la := obs("start")

	for h := la + 1; h <= uint64(upto); h++ {
		blkBytes, err := base64.StdEncoding.DecodeString(vc.Blocks[h-1])
		r.NoError(err)
		blk, err := snowVM.ParseBlock(ctx, blkBytes)
		r.NoError(err)
		r.NoError(blk.Verify(ctx))
		r.NoError(snowVM.SetPreference(ctx, blk.ID()))
		r.NoError(blk.Accept(ctx)) // index updated, block queued for the async accepter
		log.emit(map[string]any{"ev": "accept", "h": h})
	}
	deadline := time.After(90 * time.Second)
	if holdK != 0 && holdK <= uint64(upto) && holdK > la {
		select {
		case <-held:
		case <-deadline:
			t.Fatalf("driver: accepter never reached block %d", holdK)
		}
	} else {
		for {
			out, err := snowVM.GetConsensusIndex().GetLastAccepted(ctx)
			r.NoError(err)
			if out.GetHeight() == snowVM.LastAcceptedBlock(ctx).Height() {
				break
			}
			select {
			case <-deadline:
				t.Fatalf("driver: accepter did not drain")
			default:
				time.Sleep(time.Millisecond)
			}
		}
	}
	if os.Getenv("VERIF_END") == "crash" {
		log.emit(map[string]any{"ev": "crash"})
		os.Exit(crashExitCode) // no Shutdown, no Close: the process is gone
	}
	obs("final")
	r.NoError(snowVM.Shutdown(ctx))
	log.emit(map[string]any{"ev": "stop"})
}

// ---------------------------------------------------------------- parent

type phase struct {
	Upto int    `json:"upto"`
	Hold string `json:"hold"` // "k:pre" | "k:post" | "none"
	End  string `json:"end"`  // crash | stop
}

type scenario struct {
	No     int     `json:"no"`
	Phases []phase `json:"phases"`
}

func runChild(t *testing.T, dir, chainPath string, p phase) (int, string) {
	cmd := exec.Command(os.Args[0], "-test.run", "^TestVerifCrashChild$", "-test.count=1", "-test.timeout=180s")
	cmd.Env = append(os.Environ(), "VERIF_CHILD=run", "VERIF_DIR="+dir, "VERIF_CHAIN="+chainPath,
		"VERIF_UPTO="+strconv.Itoa(p.Upto), "VERIF_HOLD="+p.Hold, "VERIF_END="+p.End)
	out, err := cmd.CombinedOutput()
	code := 0
	var ee *exec.ExitError
	if errors.As(err, &ee) {
		code = ee.ExitCode()
	} else if err != nil {
		t.Fatalf("driver: cannot run child: %v", err)
	}
	s := string(out)
	if len(s) > 1500 {
		s = s[len(s)-1500:]
	}
	return code, s
}

func heightOf(vc *verifChain, field, val string) int {
	for h, r := range vc.Ref {
		v := r.ID
		switch field {
		case "root":
			v = r.Root
		case "results":
			v = r.Results
		}
		if v == val {
			return h
		}
	}
	return -1
}

// assemble turns the children's event file into the trace of one scenario.
func assemble(t *testing.T, vc *verifChain, sc scenario, dir string, n int) []map[string]any {
	bs, err := os.ReadFile(filepath.Join(dir, "events.ndjson"))
	if err != nil {
		t.Fatalf("driver: %v", err)
	}
	lines := []map[string]any{{"ev": "reset", "n": n, "no": sc.No, "phases": sc.Phases}}
	var nn []int
	booting := false
	// The engine goroutine logs "accept h" after Accept returned, the accepter goroutine may already have logged
	// its progress on h by then: a commit/notify of h is causally after the Accept of h, so it is held back until
	// the accept line has been seen.
	accepted := 0
	var early []map[string]any
	flush := func() {
		var rest []map[string]any
		for _, e := range early {
			if e["h"].(int) <= accepted {
				lines = append(lines, e)
			} else {
				rest = append(rest, e)
			}
		}
		early = rest
	}
	push := func(e map[string]any) {
		if h := e["h"].(int); h > accepted {
			early = append(early, e)
			return
		}
		lines = append(lines, e)
	}
	for _, l := range strings.Split(strings.TrimSpace(string(bs)), "\n") {
		var m map[string]any
		if err := json.Unmarshal([]byte(l), &m); err != nil {
			t.Fatalf("driver: bad event line %q", l)
		}
		switch m["ev"] {
		case "boot":
			booting = true
			nn = []int{}
		case "notify":
			h := int(m["h"].(float64))
			if heightOf(vc, "id", m["id"].(string)) != h {
				h = -1 // a block that is not the reference block of that height
			}
			if booting {
				nn = append(nn, h)
			} else {
				push(map[string]any{"ev": "notify", "h": h})
			}
		case "commit":
			push(map[string]any{"ev": "commit", "h": int(m["h"].(float64))})
		case "accept":
			accepted = int(m["h"].(float64))
			lines = append(lines, map[string]any{"ev": "accept", "h": accepted})
			flush()
		case "start", "final":
			booting = false
			lines = append(lines, early...)
			early = nil
			out := map[string]any{"ev": m["ev"], "fam": "vm", "res": m["res"], "msg": m["msg"], "la": -1, "lp": -1, "root": -1, "results": -1, "nn": nn}
			if m["res"] == "ok" {
				if m["ev"] == "start" {
					accepted = heightOf(vc, "id", m["la_id"].(string))
				}
				out["la"] = heightOf(vc, "id", m["la_id"].(string))
				out["lp"] = heightOf(vc, "id", m["lp_id"].(string))
				out["root"] = heightOf(vc, "root", m["root"].(string))
				// the genesis and empty results coincide: resolve ambiguity towards the reported block
				out["results"] = heightOf(vc, "results", m["results"].(string))
				if lp := out["lp"].(int); lp >= 0 && vc.Ref[lp].Results == m["results"].(string) {
					out["results"] = lp
				}
			}
			if m["ev"] == "final" {
				delete(out, "nn")
				out["nn"] = []int{}
			}
			lines = append(lines, out)
		case "crash", "stop":
			lines = append(lines, early...)
			early = nil
			// idx/state: durable image heights when the driver captured them (snow-level family), -1 here
			lines = append(lines, map[string]any{"ev": m["ev"], "idx": -1, "state": -1})
		}
	}
	return lines
}

func makeScenarios(rng *rand.Rand, n int, tier string, count int) []scenario {
	var out []scenario
	add := func(ps ...phase) { out = append(out, scenario{No: len(out), Phases: ps}) }
	last := phase{Upto: n, Hold: "none", End: "stop"}
	// systematic part: crash with the accepter idle, and parked at block k with 0..d further blocks accepted
	for m := 0; m <= 2; m++ {
		add(phase{Upto: m, Hold: "none", End: "crash"}, last)
	}
	maxDepth := 2
	if tier != "quick" {
		maxDepth = 4
	}
	for k := 1; k <= n-1; k++ {
		for d := 0; d <= maxDepth && k+d <= n; d++ {
			for _, pos := range []string{"pre", "post"} {
				if tier == "quick" && k > 2 && d > 1 {
					continue
				}
				add(phase{Upto: k + d, Hold: fmt.Sprintf("%d:%s", k, pos), End: "crash"}, last)
			}
		}
	}
	// seeded part: two crashes in a row
	for len(out) < count {
		k1 := 1 + rng.Intn(n-2)
		d1 := rng.Intn(2)
		pos := []string{"pre", "post"}[rng.Intn(2)]
		m1 := k1 + d1
		p1 := phase{Upto: m1, Hold: fmt.Sprintf("%d:%s", k1, pos), End: "crash"}
		if m1+1 > n-1 {
			add(p1, last)
			continue
		}
		k2 := m1 + 1 + rng.Intn(n-m1-1)
		d2 := rng.Intn(2)
		if k2+d2 > n {
			d2 = 0
		}
		p2 := phase{Upto: k2 + d2, Hold: fmt.Sprintf("%d:%s", k2, []string{"pre", "post"}[rng.Intn(2)]), End: "crash"}
		add(p1, p2, last)
	}
	if len(out) > count {
		out = out[:count]
	}
	return out
}

// TestVerifCrashRecord runs VERIF_SCENARIOS crash scenarios over a chain of VERIF_BLOCKS blocks.
func TestVerifCrashRecord(t *testing.T) {
	outDir := os.Getenv("VERIF_OUT")
	if outDir == "" {
		t.Skip("VERIF_OUT not set")
	}
	ctx := context.Background()
	seed := int64(envIntC("VERIF_SEED", 1))
	n := envIntC("VERIF_BLOCKS", 5)
	count := envIntC("VERIF_SCENARIOS", 24)
	only := envIntC("VERIF_ONLY", -1)
	par := envIntC("VERIF_PAR", 6)
	work := filepath.Join(outDir, "crashwork")
	if err := os.MkdirAll(work, 0o755); err != nil {
		t.Fatal(err)
	}
	vc := buildReference(ctx, t, n)
	chainPath := filepath.Join(work, "chain.json")
	bs, _ := json.Marshal(vc)
	if err := os.WriteFile(chainPath, bs, 0o644); err != nil {
		t.Fatal(err)
	}
	scs := makeScenarios(rand.New(rand.NewSource(seed)), n, os.Getenv("VERIF_TIER"), count)
	sem := make(chan struct{}, par)
	var wg sync.WaitGroup
	var mu sync.Mutex
	stats := map[string]int{}
	for _, sc := range scs {
		if only >= 0 && sc.No != only {
			continue
		}
		wg.Add(1)
		go func(sc scenario) {
			defer wg.Done()
			sem <- struct{}{}
			defer func() { <-sem }()
			dir := filepath.Join(work, fmt.Sprintf("sc%05d", sc.No))
			if err := os.MkdirAll(dir, 0o755); err != nil {
				t.Error(err)
				return
			}
			for i, p := range sc.Phases {
				code, out := runChild(t, dir, chainPath, p)
				want := 0
				if p.End == "crash" {
					want = crashExitCode
				}
				if code != want {
					// a child that could not start the VM reports it in the event file and exits 0
					if code == 0 {
						break
					}
					t.Errorf("driver: scenario %d phase %d: child exit code %d, want %d\n%s", sc.No, i, code, want, out)
					return
				}
			}
			lines := assemble(t, vc, sc, dir, n)
			f, err := os.Create(filepath.Join(outDir, fmt.Sprintf("sc%05d.ndjson", sc.No)))
			if err != nil {
				t.Error(err)
				return
			}
			enc := json.NewEncoder(f)
			for _, l := range lines {
				_ = enc.Encode(l)
			}
			f.Close()
			mu.Lock()
			for _, l := range lines {
				stats["ev_"+l["ev"].(string)]++
				if l["ev"] == "start" && l["res"] == "err" {
					stats["restart_refused"]++
				}
			}
			mu.Unlock()
			_ = os.RemoveAll(filepath.Join(dir, "data"))
		}(sc)
	}
	wg.Wait()
	sb, _ := json.Marshal(stats)
	if err := os.WriteFile(filepath.Join(outDir, "stats.json"), sb, 0o644); err != nil {
		t.Fatal(err)
	}
}

func envIntC(name string, def int) int {
	if v, err := strconv.Atoi(os.Getenv(name)); err == nil {
		return v
	}
	return def
}
