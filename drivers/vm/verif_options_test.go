//go:build verif

// Driver for X15 (see /verif/spec/VmOptions.tla): the option wiring of vm/option.go on the real code.  In-package
// because Option.optionFunc, Opt.apply and Options' fields are unexported.  A scenario builds ONE Option with
// NewOption (as a vm.Factory does) and runs its optionFunc for a sequence of VMs with different raw configs, logging
// what the option's function was handed; folds sequences of real Opts (WithBuilder, WithGossiper, WithManual,
// WithBlockSubscriptions, WithVMAPIs, nested with NewOpt) into an Options value; and calls vm.New with lists of
// namespaces.
package vm

import (
	"encoding/json"
	"fmt"
	"math/rand"
	"os"
	"path/filepath"
	"strconv"
	"testing"

	"github.com/ava-labs/hypersdk/api"
	"github.com/ava-labs/hypersdk/chain"
	"github.com/ava-labs/hypersdk/codec"
	"github.com/ava-labs/hypersdk/event"
)

func optEnvInt(name string, def int) int {
	if v, err := strconv.Atoi(os.Getenv(name)); err == nil {
		return v
	}
	return def
}

type optCfg struct {
	A int `json:"a"`
	B int `json:"b"`
}

type optSub struct{ id int }

func (*optSub) New() (event.Subscription[*chain.ExecutedBlock], error) { return nil, nil }

type optAPI struct{ id int }

func (*optAPI) New(api.VM) (api.Handler, error) { return api.Handler{}, nil }

type optRec struct {
	lines []map[string]any
}

type optRaw struct {
	kind   string
	ha, hb bool
	a, b   int
}

func (r optRaw) bytes() []byte {
	switch r.kind {
	case "none":
		return nil
	case "syntax":
		return []byte(`{"a": 1,`)
	case "type":
		if r.hb {
			return []byte(fmt.Sprintf(`{"a": "x", "b": %d}`, r.b))
		}
		return []byte(`{"a": "x"}`)
	}
	m := map[string]int{}
	if r.ha {
		m["a"] = r.a
	}
	if r.hb {
		m["b"] = r.b
	}
	b, _ := json.Marshal(m)
	return b
}

func genRaw(rng *rand.Rand) optRaw {
	switch rng.Intn(10) {
	case 0, 1:
		return optRaw{kind: "none"}
	case 2:
		return optRaw{kind: "syntax"}
	case 3:
		r := optRaw{kind: "type", hb: rng.Intn(2) == 0}
		if r.hb {
			r.b = 1 + rng.Intn(9)
		}
		return r
	}
	r := optRaw{kind: "obj", ha: rng.Intn(2) == 0, hb: rng.Intn(2) == 0}
	if r.ha {
		r.a = 1 + rng.Intn(9)
	}
	if r.hb {
		r.b = 1 + rng.Intn(9)
	}
	return r
}

func (r *optRec) invocations(defA, defB int, raws []optRaw) {
	called := 0
	var got optCfg
	o := NewOption[optCfg]("verif", optCfg{A: defA, B: defB}, func(_ api.VM, c optCfg) (Opt, error) {
		called++
		got = c
		return NewOpt(), nil
	})
	r.lines = append(r.lines, map[string]any{"ev": "reset", "kind": "inv", "da": defA, "db": defB})
	for _, raw := range raws {
		called, got = 0, optCfg{A: -1, B: -1}
		opt, err := o.optionFunc(nil, raw.bytes())
		r.lines = append(r.lines, map[string]any{"ev": "inv", "rk": raw.kind, "ha": raw.ha, "a": raw.a, "hb": raw.hb, "b": raw.b,
			"err": err != nil, "called": called, "ga": got.A, "gb": got.B, "opt": opt != nil})
	}
}

type optPrim struct {
	k   string
	ids []int
}

func (p optPrim) opt() Opt {
	switch p.k {
	case "builder":
		return WithBuilder()
	case "gossiper":
		return WithGossiper()
	case "manual":
		o, err := WithManual().optionFunc(nil, nil)
		if err != nil {
			panic(err)
		}
		return o
	case "subs":
		fs := []event.SubscriptionFactory[*chain.ExecutedBlock]{}
		for _, id := range p.ids {
			fs = append(fs, &optSub{id})
		}
		return WithBlockSubscriptions(fs...)
	default:
		fs := []api.HandlerFactory[api.VM]{}
		for _, id := range p.ids {
			fs = append(fs, &optAPI{id})
		}
		return WithVMAPIs(fs...)
	}
}

// nest groups the primitive opts randomly with NewOpt (order preserved)
func nest(rng *rand.Rand, opts []Opt, depth int) []Opt {
	if len(opts) < 2 || depth > 2 {
		return opts
	}
	i := rng.Intn(len(opts))
	j := i + 1 + rng.Intn(len(opts)-i)
	grouped := NewOpt(nest(rng, opts[i:j], depth+1)...)
	out := append([]Opt{}, opts[:i]...)
	out = append(out, grouped)
	return append(out, opts[j:]...)
}

func (r *optRec) fold(rng *rand.Rand, prims []optPrim) {
	r.lines = append(r.lines, map[string]any{"ev": "reset", "kind": "fold", "da": 0, "db": 0})
	opts := []Opt{}
	pl := []map[string]any{}
	for _, p := range prims {
		opts = append(opts, p.opt())
		pl = append(pl, map[string]any{"k": p.k, "ids": append([]int{}, p.ids...)})
	}
	o := &Options{}
	for _, op := range nest(rng, opts, 0) {
		op.apply(o)
	}
	subs, apis := []int{}, []int{}
	for _, f := range o.blockSubscriptionFactories {
		subs = append(subs, f.(*optSub).id)
	}
	for _, f := range o.vmAPIHandlerFactories {
		apis = append(apis, f.(*optAPI).id)
	}
	r.lines = append(r.lines, map[string]any{"ev": "fold", "prims": pl, "builder": o.builder, "gossiper": o.gossiper, "subs": subs, "apis": apis})
}

func (r *optRec) newVM(nss []int) {
	r.lines = append(r.lines, map[string]any{"ev": "reset", "kind": "new", "da": 0, "db": 0})
	opts := []Option{}
	for _, ns := range nss {
		opts = append(opts, NewOption[optCfg](fmt.Sprintf("ns-%d", ns), optCfg{}, func(api.VM, optCfg) (Opt, error) { return NewOpt(), nil }))
	}
	v, err := New(nil, nil, nil, codec.NewTypeParser[chain.Action](), codec.NewTypeParser[chain.Auth](), codec.NewTypeParser[codec.Typed](), nil, opts...)
	kept := -1
	if err == nil && v != nil {
		kept = len(v.options)
	}
	r.lines = append(r.lines, map[string]any{"ev": "new", "nss": append([]int{}, nss...), "ok": err == nil, "kept": kept})
}

func TestVerifOptionsRecord(t *testing.T) {
	seed := int64(optEnvInt("VERIF_SEED", 1))
	only := optEnvInt("VERIF_ONLY", -1)
	nscn := optEnvInt("VERIF_SCENARIOS", 300)
	rng := rand.New(rand.NewSource(seed*6007 + 11))
	kinds := []string{"builder", "gossiper", "manual", "subs", "apis"}
	for n := 0; n < nscn; n++ {
		r := &optRec{}
		switch n % 3 {
		case 0:
			raws := []optRaw{}
			for i := 1 + rng.Intn(6); i > 0; i-- {
				raws = append(raws, genRaw(rng))
			}
			r.invocations(rng.Intn(10), rng.Intn(10), raws)
		case 1:
			prims := []optPrim{}
			next := 1
			for i := rng.Intn(7); i > 0; i-- {
				p := optPrim{k: kinds[rng.Intn(len(kinds))]}
				if p.k == "subs" || p.k == "apis" {
					for j := rng.Intn(4); j > 0; j-- {
						p.ids = append(p.ids, next)
						next++
					}
				}
				prims = append(prims, p)
			}
			r.fold(rng, prims)
		default:
			nss := []int{}
			for i := rng.Intn(6); i > 0; i-- {
				nss = append(nss, rng.Intn(7))
			}
			r.newVM(nss)
		}
		if only >= 0 && only != n {
			continue
		}
		f, err := os.Create(filepath.Join(os.Getenv("VERIF_OUT"), fmt.Sprintf("opt-%06d.ndjson", n)))
		if err != nil {
			t.Fatal(err)
		}
		enc := json.NewEncoder(f)
		for _, l := range r.lines {
			if err := enc.Encode(l); err != nil {
				t.Fatal(err)
			}
		}
		f.Close()
	}
}
