//go:build verif

// Driver for C32 (see /verif/DESIGN.md): drives the real pubsub.MessageBuffer through its exported API
// (Send, Close, reads of Queue) on seeded scenarios and records one ndjson line per call. The lines are
// validated against spec/MsgBuffer_Trace.tla. Nothing is asserted here: the specification decides.
package pubsub_test

import (
	"encoding/json"
	"errors"
	"fmt"
	"hash/crc32"
	"math/rand"
	"os"
	"path/filepath"
	"strconv"
	"sync"
	"sync/atomic"
	"testing"
	"time"

	"github.com/ava-labs/avalanchego/utils/logging"
	"go.uber.org/zap"

	"github.com/ava-labs/hypersdk/pubsub"
)

func envInt(name string, def int) int {
	if v, err := strconv.Atoi(os.Getenv(name)); err == nil {
		return v
	}
	return def
}

func fp(b []byte) int { return int(crc32.ChecksumIEEE(b) & 0x3fffffff) }

type mbRecorder struct {
	lines []map[string]any
}

func (r *mbRecorder) log(m map[string]any) { r.lines = append(r.lines, m) }

// closeWatchdog: how long Close may take before the driver records it as hung (it normally takes microseconds)
const closeWatchdog = 30 * time.Second

// gateLog is the logger handed to the buffer in "gate" scenarios. MessageBuffer logs while holding its
// mutex; when armed, the first Debug call parks there until released, which lets the driver hold the
// buffer's critical section open while the flush timer fires (a forced schedule, no timing oracle).
type gateLog struct {
	logging.NoLog
	armed        atomic.Bool
	entered      chan struct{}
	release      chan struct{}
	timerOnClose atomic.Bool // the timer callback ran into the closed buffer
}

func (g *gateLog) Debug(msg string, _ ...zap.Field) {
	if msg == "unable to clear pending messages" {
		g.timerOnClose.Store(true)
	}
	if g.armed.CompareAndSwap(true, false) {
		close(g.entered)
		<-g.release
	}
}

// closeWithWatchdog calls Close on its own goroutine; "hung" after closeWatchdog.
func closeWithWatchdog(mb *pubsub.MessageBuffer) string {
	done := make(chan error, 1)
	go func() { done <- mb.Close() }()
	select {
	case err := <-done:
		switch {
		case err == nil:
			return "ok"
		case errors.Is(err, pubsub.ErrClosed):
			return "closed"
		default:
			return "error:" + err.Error()
		}
	case <-time.After(closeWatchdog):
		return "hung"
	}
}

func writeLines(dir string, idx int, lines []map[string]any) error {
	f, err := os.Create(filepath.Join(dir, fmt.Sprintf("sc%05d.ndjson", idx)))
	if err != nil {
		return err
	}
	defer f.Close()
	enc := json.NewEncoder(f)
	for _, l := range lines {
		if err := enc.Encode(l); err != nil {
			return err
		}
	}
	return nil
}

// gate scenario: fill the queue, leave one message pending with the timer armed, then Close. Close finds
// the queue full and logs under the mutex; the gate keeps it there until the timer has fired.
func runGateScenario(idx int, dir string) error {
	capQ := 1 + idx%2
	max := []int{64, 130, 300}[idx%3]
	timeout := 100 * time.Millisecond
	g := &gateLog{entered: make(chan struct{}), release: make(chan struct{})}
	mb := pubsub.NewMessageBuffer(g, capQ, max, timeout)
	rec := &mbRecorder{}
	rec.log(map[string]any{"ev": "reset", "max": max, "cap": capQ, "mode": "gate", "sc": idx})
	size := max/2 + 1
	for i := 0; i <= capQ; i++ {
		p := payload(idx*1000+i+1, size)
		err := mb.Send(p)
		res := "ok"
		if err != nil {
			res = "error:" + err.Error()
		}
		rec.log(map[string]any{"ev": "send", "len": size, "fp": fp(p), "res": res})
		rec.log(map[string]any{"ev": "obs", "qlen": len(mb.Queue)})
	}
	g.armed.Store(true)
	go func() {
		select {
		case <-g.entered:
			time.Sleep(4 * timeout) // the armed flush timer fires while Close is inside its critical section
		case <-time.After(closeWatchdog / 2):
		}
		close(g.release)
	}()
	res := closeWithWatchdog(mb)
	forced := res == "hung" || g.timerOnClose.Load()
	if !forced { // the callback may still be on its way
		time.Sleep(2 * timeout)
		forced = g.timerOnClose.Load()
	}
	rec.log(map[string]any{"ev": "close", "res": res, "forced": forced})
	if res != "hung" {
		for i := 0; i < capQ+2; i++ {
			select {
			case b, ok := <-mb.Queue:
				if !ok {
					rec.log(map[string]any{"ev": "drain", "got": -1})
					i = capQ + 2
					continue
				}
				msgs, _ := pubsub.ParseBatchMessage(b)
				ms := make([]map[string]int, 0, len(msgs))
				for _, m := range msgs {
					ms = append(ms, map[string]int{"len": len(m), "fp": fp(m)})
				}
				rec.log(map[string]any{"ev": "drain", "got": 1, "wire": len(b), "msgs": ms})
			default:
				rec.log(map[string]any{"ev": "drain", "got": 0})
			}
		}
	}
	return writeLines(dir, idx, rec.lines)
}

const gateScenarios = 3

// payload: unique id in the first bytes (as far as they fit), position dependent filler after it
func payload(id, n int) []byte {
	b := make([]byte, n)
	for i := range b {
		switch i {
		case 0:
			b[i] = byte(id)
		case 1:
			b[i] = byte(id >> 8)
		case 2:
			b[i] = byte(id >> 16)
		default:
			b[i] = byte(id*31 + i*7)
		}
	}
	return b
}

func pickSize(rng *rand.Rand, max int) int {
	cands := []int{0, 1, 2, max/2 - 3, max/2 - 2, max/2 - 1, max / 2, max/2 + 1, max - 4, max - 3, max - 2, max - 1, max, max + 1,
		max / 3, max/3 - 2, max / 4, 125, 126, 127, 128, 129, 130, 16380, 16381, 16382, 16383, 16384, 16385}
	for tries := 0; tries < 20; tries++ {
		var s int
		switch rng.Intn(10) {
		case 0, 1, 2:
			s = rng.Intn(max + 2)
		case 3, 4:
			s = rng.Intn(max/4 + 1)
		default:
			s = cands[rng.Intn(len(cands))]
		}
		if s >= 0 && s <= max+12 {
			return s
		}
	}
	return 1
}

func runMsgBufferScenario(seed int64, idx int, dir string) error {
	rng := rand.New(rand.NewSource(seed*1_000_003 + int64(idx)))
	maxes := []int{10, 64, 130, 131, 300, 16500}
	max := maxes[rng.Intn(len(maxes))]
	if rng.Intn(8) == 0 {
		max = 3 + rng.Intn(400)
	}
	capQ := 1 + rng.Intn(3)
	timerMode := rng.Intn(3) == 0
	timeout := time.Hour
	if timerMode {
		timeout = 2 * time.Millisecond
	}
	mb := pubsub.NewMessageBuffer(&logging.NoLog{}, capQ, max, timeout)
	rec := &mbRecorder{}
	mode := "det"
	if timerMode {
		mode = "timer"
	}
	rec.log(map[string]any{"ev": "reset", "max": max, "cap": capQ, "mode": mode, "sc": idx})
	obs := func() { rec.log(map[string]any{"ev": "obs", "qlen": len(mb.Queue)}) }
	drainOne := func() int {
		select {
		case b, ok := <-mb.Queue:
			if !ok {
				rec.log(map[string]any{"ev": "drain", "got": -1})
				return -1
			}
			msgs, err := pubsub.ParseBatchMessage(b)
			if err != nil {
				// undecodable batch: recorded as a batch with one impossible message, the spec cannot explain it
				rec.log(map[string]any{"ev": "drain", "got": 1, "wire": len(b), "msgs": []map[string]int{{"len": -1, "fp": -1}}, "err": err.Error()})
				return 1
			}
			ms := make([]map[string]int, 0, len(msgs))
			for _, m := range msgs {
				ms = append(ms, map[string]int{"len": len(m), "fp": fp(m)})
			}
			rec.log(map[string]any{"ev": "drain", "got": 1, "wire": len(b), "msgs": ms})
			return 1
		default:
			rec.log(map[string]any{"ev": "drain", "got": 0})
			return 0
		}
	}
	closed := false
	id := idx * 1000
	steps := 15 + rng.Intn(50)
	for s := 0; s < steps; s++ {
		r := rng.Intn(100)
		switch {
		case r < 62:
			id++
			n := pickSize(rng, max)
			p := payload(id, n)
			err := mb.Send(p)
			res := "ok"
			switch {
			case errors.Is(err, pubsub.ErrClosed):
				res = "closed"
			case errors.Is(err, pubsub.ErrMessageTooLarge):
				res = "toolarge"
			case err != nil:
				res = "error:" + err.Error()
			}
			rec.log(map[string]any{"ev": "send", "len": n, "fp": fp(p), "res": res})
			obs()
		case r < 85:
			k := 1 + rng.Intn(3)
			for i := 0; i < k; i++ {
				if drainOne() != 1 {
					break
				}
			}
		case r < 95:
			if timerMode {
				time.Sleep(time.Duration(1+rng.Intn(5)) * time.Millisecond)
			}
			rec.log(map[string]any{"ev": "tick"})
			obs()
		default:
			if closed || rng.Intn(8) == 0 { // close in the middle is rare; double close rarer
				res := closeWithWatchdog(mb)
				closed = true
				rec.log(map[string]any{"ev": "close", "res": res, "forced": false})
				if res == "hung" {
					return writeLines(dir, idx, rec.lines)
				}
			}
		}
	}
	if !closed || rng.Intn(4) == 0 {
		res := closeWithWatchdog(mb)
		rec.log(map[string]any{"ev": "close", "res": res, "forced": false})
		if res == "hung" {
			return writeLines(dir, idx, rec.lines)
		}
	}
	for i := 0; i < capQ+2; i++ {
		if drainOne() == -1 {
			break
		}
	}
	return writeLines(dir, idx, rec.lines)
}

func TestVerifMsgBufferRecord(t *testing.T) {
	dir := os.Getenv("VERIF_OUT")
	if dir == "" {
		t.Skip("VERIF_OUT not set")
	}
	seed := int64(envInt("VERIF_SEED", 1))
	n := envInt("VERIF_SCENARIOS", 100)
	only := envInt("VERIF_ONLY", -1)
	var wg sync.WaitGroup
	sem := make(chan struct{}, 16)
	errs := make(chan error, n)
	for i := 0; i < n; i++ {
		if only >= 0 && i != only {
			continue
		}
		wg.Add(1)
		sem <- struct{}{}
		go func(i int) {
			defer wg.Done()
			defer func() { <-sem }()
			var err error
			if i < gateScenarios {
				err = runGateScenario(i, dir)
			} else {
				err = runMsgBufferScenario(seed, i, dir)
			}
			if err != nil {
				errs <- err
			}
		}(i)
	}
	wg.Wait()
	close(errs)
	for err := range errs {
		t.Fatal(err)
	}
}
