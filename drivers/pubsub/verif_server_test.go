//go:build verif

// X06 driver (see /verif/spec/PubSubServer.tla): a real pubsub.Server behind httptest (free port) with real gorilla
// websocket clients.  One driver goroutine performs the scenario (connect, publish to a subset, client -> server
// batches, stall a client, close a client, flood) and every client has a reader goroutine recording what arrives.
// Each step waits (30 s watchdog) for the server-side effect it needs (connection registered / removed, callback
// count), so the recorded outcome is deterministic; at the end every client's received sequence is logged.
package pubsub_test

import (
	"encoding/binary"
	"encoding/json"
	"fmt"
	"math/rand"
	"net/http/httptest"
	"os"
	"path/filepath"
	"strconv"
	"strings"
	"sync"
	"testing"
	"time"

	"github.com/ava-labs/avalanchego/utils/logging"
	"github.com/gorilla/websocket"

	"github.com/ava-labs/hypersdk/pubsub"
)

func psEnvInt(name string, def int) int {
	if v, err := strconv.Atoi(os.Getenv(name)); err == nil {
		return v
	}
	return def
}

const psWatchdog = 30 * time.Second

type psClient struct {
	id      int
	ws      *websocket.Conn
	srv     *pubsub.Connection
	mu      sync.Mutex
	got     []int
	gate    chan struct{} // closed = reading; replaced by an open channel to stall
	state   string
	flooded bool
}

func (c *psClient) reader() {
	for {
		c.mu.Lock()
		g := c.gate
		c.mu.Unlock()
		<-g
		_, b, err := c.ws.ReadMessage()
		if err != nil {
			return
		}
		msgs, err := pubsub.ParseBatchMessage(b)
		if err != nil {
			c.mu.Lock()
			c.got = append(c.got, -1)
			c.mu.Unlock()
			continue
		}
		c.mu.Lock()
		for _, m := range msgs {
			if len(m) < 8 {
				c.got = append(c.got, -1)
			} else {
				c.got = append(c.got, int(binary.BigEndian.Uint64(m)))
			}
		}
		c.mu.Unlock()
	}
}

func (c *psClient) received() []int {
	c.mu.Lock()
	defer c.mu.Unlock()
	return append([]int{}, c.got...)
}

type psWorld struct {
	t       *testing.T
	srv     *pubsub.Server
	hs      *httptest.Server
	clients []*psClient
	cbMu    sync.Mutex
	cb      [][]int
	byConn  map[*pubsub.Connection]int
	lines   []map[string]any
	n       int
	want    map[int]int // messages addressed to a client while the driver believed it registered
	stats   map[string]int
}

func psWait(cond func() bool) bool {
	deadline := time.Now().Add(psWatchdog)
	for time.Now().Before(deadline) {
		if cond() {
			return true
		}
		time.Sleep(2 * time.Millisecond)
	}
	return cond()
}

func psMsg(id, size int) []byte {
	b := make([]byte, size)
	binary.BigEndian.PutUint64(b, uint64(id))
	return b
}

func (w *psWorld) connect() {
	before := map[*pubsub.Connection]bool{}
	for _, c := range w.srv.Connections().Conns() {
		before[c] = true
	}
	url := "ws" + strings.TrimPrefix(w.hs.URL, "http")
	ws, _, err := websocket.DefaultDialer.Dial(url, nil)
	if err != nil {
		w.t.Fatalf("dial: %v", err)
	}
	cl := &psClient{id: len(w.clients) + 1, ws: ws, gate: make(chan struct{}), state: "healthy"}
	close(cl.gate)
	ok := psWait(func() bool {
		for _, c := range w.srv.Connections().Conns() {
			if !before[c] {
				cl.srv = c
				return true
			}
		}
		return false
	})
	if ok {
		w.cbMu.Lock()
		w.byConn[cl.srv] = cl.id
		w.cbMu.Unlock()
	}
	w.clients = append(w.clients, cl)
	go cl.reader()
	w.lines = append(w.lines, map[string]any{"ev": "connect", "c": cl.id, "ok": ok})
}

func (w *psWorld) publish(to []*psClient, size int) {
	w.n++
	set := pubsub.NewConnections()
	ids := []int{}
	for _, c := range to {
		set.Add(c.srv)
		ids = append(ids, c.id)
	}
	done := make(chan []*pubsub.Connection, 1)
	go func() { done <- w.srv.Publish(psMsg(w.n, size), set) }()
	var inactive []*pubsub.Connection
	returned := true
	select {
	case inactive = <-done:
	case <-time.After(psWatchdog):
		returned = false
	}
	in := []int{}
	for _, c := range inactive {
		w.cbMu.Lock()
		in = append(in, w.byConn[c])
		w.cbMu.Unlock()
	}
	for _, c := range to {
		w.want[c.id]++
	}
	w.lines = append(w.lines, map[string]any{"ev": "publish", "m": w.n, "to": ids, "inactive": in, "returned": returned, "big": size > 1024})
	w.stats["publish"]++
	if len(in) > 0 {
		w.stats["publish_reported_inactive"]++
	}
}

func (w *psWorld) send(c *psClient, k int) {
	w.cbMu.Lock()
	start := len(w.cb)
	w.cbMu.Unlock()
	msgs := [][]byte{}
	ids := []int{}
	for i := 0; i < k; i++ {
		w.n++
		msgs = append(msgs, psMsg(w.n, 8))
		ids = append(ids, w.n)
	}
	if err := c.ws.WriteMessage(websocket.BinaryMessage, pubsub.CreateBatchMessage(msgs)); err != nil {
		w.t.Fatalf("client write: %v", err)
	}
	psWait(func() bool {
		w.cbMu.Lock()
		defer w.cbMu.Unlock()
		return len(w.cb) >= start+k
	})
	time.Sleep(20 * time.Millisecond) // a duplicate callback would show up here
	w.cbMu.Lock()
	cb := append([][]int{}, w.cb[start:]...)
	w.cbMu.Unlock()
	w.lines = append(w.lines, map[string]any{"ev": "send", "c": c.id, "msgs": ids, "cb": cb})
	w.stats["client_send"]++
}

func (w *psWorld) stall(c *psClient) {
	c.mu.Lock()
	c.gate = make(chan struct{})
	c.mu.Unlock()
	c.state = "stalled"
	w.lines = append(w.lines, map[string]any{"ev": "stall", "c": c.id})
	w.stats["stall"]++
}

func (w *psWorld) closeClient(c *psClient) {
	_ = c.ws.Close()
	removed := psWait(func() bool { return !w.srv.Connections().Has(c.srv) })
	sendOK := c.srv.Send(psMsg(0, 8))
	c.state = "closed"
	w.lines = append(w.lines, map[string]any{"ev": "close", "c": c.id, "removed": removed, "sendok": sendOK})
	w.stats["close"]++
}

func (w *psWorld) drain() {
	for _, c := range w.clients {
		if c.state == "healthy" {
			psWait(func() bool { return len(c.received()) >= w.want[c.id] })
		}
	}
	time.Sleep(60 * time.Millisecond) // anything delivered twice or to the wrong client would show up here
	for _, c := range w.clients {
		reg := w.srv.Connections().Has(c.srv)
		w.lines = append(w.lines, map[string]any{"ev": "drain", "c": c.id, "state": c.state, "got": c.received(), "registered": reg})
		if c.state == "stalled" && c.flooded && !reg {
			w.stats["stalled_connection_dropped_by_server"]++
		}
	}
}

func TestVerifPubSubServer(t *testing.T) {
	seed := int64(psEnvInt("VERIF_SEED", 1))
	only := psEnvInt("VERIF_ONLY", -1)
	n := psEnvInt("VERIF_SCENARIOS", 12)
	steps := psEnvInt("VERIF_DEPTH", 16)
	stats := map[string]int{}
	for i := 0; i < n; i++ {
		if only >= 0 && only != i {
			continue
		}
		rng := rand.New(rand.NewSource(seed*1_000_003 + int64(i)))
		w := &psWorld{t: t, byConn: map[*pubsub.Connection]int{}, want: map[int]int{}, stats: stats}
		cfg := pubsub.NewDefaultServerConfig()
		cfg.MaxMessageWait = 5 * time.Millisecond
		cfg.WriteWait = 10 * time.Second // the default; a healthy reader is never that slow, even on a loaded machine
		cfg.MaxWriteMessageSize = 1 << 20
		cfg.ReadBufferSize, cfg.WriteBufferSize = 4096, 4096
		w.srv = pubsub.New(logging.NoLog{}, cfg, func(msg []byte, c *pubsub.Connection) {
			w.cbMu.Lock()
			defer w.cbMu.Unlock()
			id := -1
			if len(msg) >= 8 {
				id = int(binary.BigEndian.Uint64(msg))
			}
			w.cb = append(w.cb, []int{w.byConn[c], id})
		})
		w.hs = httptest.NewServer(w.srv)
		w.lines = append(w.lines, map[string]any{"ev": "reset"})
		w.connect()
		w.connect()
		for s := 0; s < steps; s++ {
			var healthy, open []*psClient
			for _, c := range w.clients {
				if c.state == "healthy" {
					healthy = append(healthy, c)
				}
				if c.state != "closed" {
					open = append(open, c)
				}
			}
			switch r := rng.Intn(20); {
			case r < 3 && len(w.clients) < 5:
				w.connect()
			case r < 11:
				var to []*psClient
				for _, c := range w.clients {
					if rng.Intn(3) > 0 {
						to = append(to, c)
					}
				}
				w.publish(to, 16)
			case r < 14 && len(healthy) > 0:
				w.send(healthy[rng.Intn(len(healthy))], 1+rng.Intn(3))
			case r < 16 && len(healthy) > 1:
				w.closeClient(healthy[rng.Intn(len(healthy))])
			case r < 18 && len(healthy) > 1:
				w.stall(healthy[rng.Intn(len(healthy))])
			default:
				// flood: large messages to everybody, including stalled and closed connections
				flood := 120
				for _, c := range w.clients {
					if c.state == "stalled" {
						c.flooded = true
					}
				}
				for k := 0; k < flood; k++ {
					w.publish(w.clients, 64<<10)
				}
				w.stats["flood"]++
			}
		}
		w.drain()
		f, err := os.Create(filepath.Join(os.Getenv("VERIF_OUT"), fmt.Sprintf("ps-%05d.ndjson", i)))
		if err != nil {
			t.Fatal(err)
		}
		enc := json.NewEncoder(f)
		for _, l := range w.lines {
			if err := enc.Encode(l); err != nil {
				t.Fatal(err)
			}
		}
		f.Close()
		for _, c := range w.clients {
			_ = c.ws.Close()
			c.mu.Lock()
			select {
			case <-c.gate:
			default:
				close(c.gate)
			}
			c.mu.Unlock()
		}
		w.hs.Close()
		stats["scenarios"]++
	}
	b, _ := json.Marshal(stats)
	if err := os.WriteFile(filepath.Join(os.Getenv("VERIF_OUT"), "pubsub_stats.json"), b, 0o644); err != nil {
		t.Fatal(err)
	}
}
