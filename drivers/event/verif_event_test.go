//go:build verif

// Driver for X04 (see /verif/spec/EventTree.tla): builds seeded subscription trees out of event.SubscriptionFunc
// sinks, event.Aggregate and event.Map (x -> x + k), calls Notify (or NotifyAll on an aggregate root's children) and
// Close on the root and records what every sink saw, in order, and which sinks' sentinel errors the returned error
// contains.
package event_test

import (
	"context"
	"encoding/json"
	"errors"
	"fmt"
	"math/rand"
	"os"
	"path/filepath"
	"strconv"
	"testing"

	"github.com/ava-labs/hypersdk/event"
)

func evEnvInt(name string, def int) int {
	if v, err := strconv.Atoi(os.Getenv(name)); err == nil {
		return v
	}
	return def
}

type evRec struct {
	log   [][]int
	nerrs map[int]error
	cerrs map[int]error
	next  int
}

// build returns the subscription, its description and, for an aggregate, its children
func (r *evRec) build(rng *rand.Rand, depth int, top bool) (event.Subscription[int], map[string]any, []event.Subscription[int]) {
	k := rng.Intn(10)
	if depth == 0 || (k < 4 && !top) {
		r.next++
		id := r.next
		nfail, cfail, closer := rng.Intn(4) == 0, rng.Intn(4) == 0, rng.Intn(5) != 0
		if !closer {
			cfail = false
		}
		r.nerrs[id] = fmt.Errorf("notify failure of sink %d", id)
		r.cerrs[id] = fmt.Errorf("close failure of sink %d", id)
		s := event.SubscriptionFunc[int]{NotifyF: func(_ context.Context, x int) error {
			r.log = append(r.log, []int{id, x})
			if nfail {
				return r.nerrs[id]
			}
			return nil
		}}
		if closer {
			s.Closer = func() error {
				r.log = append(r.log, []int{id, 0})
				if cfail {
					return r.cerrs[id]
				}
				return nil
			}
		}
		return s, map[string]any{"kind": "leaf", "id": id, "nfail": nfail, "cfail": cfail, "closer": closer}, nil
	}
	if k < 8 {
		n := rng.Intn(4)
		kids := []event.Subscription[int]{}
		desc := []map[string]any{}
		for i := 0; i < n; i++ {
			s, d, _ := r.build(rng, depth-1, false)
			kids, desc = append(kids, s), append(desc, d)
		}
		return event.Aggregate(kids...), map[string]any{"kind": "agg", "kids": desc}, kids
	}
	add := 1 + rng.Intn(50)
	s, d, _ := r.build(rng, depth-1, false)
	return event.Map(func(x int) int { return x + add }, s), map[string]any{"kind": "map", "add": add, "kid": d}, nil
}

func (r *evRec) outcome(err error, errs map[int]error) map[string]any {
	ids := []int{}
	for id := 1; id <= r.next; id++ {
		if err != nil && errors.Is(err, errs[id]) {
			ids = append(ids, id)
		}
	}
	log := r.log
	if log == nil {
		log = [][]int{}
	}
	r.log = nil
	return map[string]any{"log": log, "errs": ids, "nilerr": err == nil}
}

func TestVerifEventRecord(t *testing.T) {
	seed := int64(evEnvInt("VERIF_SEED", 1))
	only := evEnvInt("VERIF_ONLY", -1)
	n := evEnvInt("VERIF_SCENARIOS", 400)
	stats := map[string]int{}
	for i := 0; i < n; i++ {
		if only >= 0 && only != i {
			continue
		}
		rng := rand.New(rand.NewSource(seed*1_000_003 + int64(i)))
		r := &evRec{nerrs: map[int]error{}, cerrs: map[int]error{}}
		root, desc, kids := r.build(rng, rng.Intn(4), true)
		lines := []map[string]any{{"ev": "reset", "tree": desc}}
		for j := 0; j < 2; j++ {
			x := rng.Intn(1000)
			var err error
			via := "notify"
			if desc["kind"] == "agg" && rng.Intn(2) == 0 {
				via = "notifyall"
				err = event.NotifyAll(context.Background(), x, kids...)
			} else {
				err = root.Notify(context.Background(), x)
			}
			o := r.outcome(err, r.nerrs)
			o["ev"], o["x"], o["via"] = "notify", x, via
			lines = append(lines, o)
			if err != nil {
				stats["notify_failed"]++
			}
			if len(o["errs"].([]int)) > 1 {
				stats["several_failures"]++
			}
		}
		err := root.Close()
		o := r.outcome(err, r.cerrs)
		o["ev"] = "close"
		lines = append(lines, o)
		if err != nil {
			stats["close_failed"]++
		}
		if r.next > 2 {
			stats["three_or_more_sinks"]++
		}
		f, ferr := os.Create(filepath.Join(os.Getenv("VERIF_OUT"), fmt.Sprintf("ev-%05d.ndjson", i)))
		if ferr != nil {
			t.Fatal(ferr)
		}
		enc := json.NewEncoder(f)
		for _, l := range lines {
			if err := enc.Encode(l); err != nil {
				t.Fatal(err)
			}
		}
		f.Close()
		stats["scenarios"]++
	}
	b, _ := json.Marshal(stats)
	if err := os.WriteFile(filepath.Join(os.Getenv("VERIF_OUT"), "event_stats.json"), b, 0o644); err != nil {
		t.Fatal(err)
	}
}
