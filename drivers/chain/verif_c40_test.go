//go:build verif

// Driver for C40 (see /verif/DESIGN.md): a transaction whose action (or whose sponsor's balance handler) declares a
// state key is asked for its StateKeys; rows of kind "statekeys" for spec/Keys_Trace.tla record whether that failed.
// Keys shorter than two bytes must be refused wherever they are declared, every longer key must be accepted.
package chain_test

import (
	"bufio"
	"context"
	"encoding/json"
	"math/rand"
	"os"
	"path/filepath"
	"strconv"
	"testing"

	"github.com/ava-labs/hypersdk/chain"
	"github.com/ava-labs/hypersdk/chain/chaintest"
	"github.com/ava-labs/hypersdk/codec"
	"github.com/ava-labs/hypersdk/state"
)

type c40BalanceHandler struct{ sponsorKeys state.Keys }

func (b c40BalanceHandler) SponsorStateKeys(codec.Address) state.Keys { return b.sponsorKeys }
func (c40BalanceHandler) CanDeduct(context.Context, codec.Address, state.Immutable, uint64) error {
	return nil
}
func (c40BalanceHandler) Deduct(context.Context, codec.Address, state.Mutable, uint64) error { return nil }
func (c40BalanceHandler) AddBalance(context.Context, codec.Address, state.Mutable, uint64) error {
	return nil
}
func (c40BalanceHandler) GetBalance(context.Context, codec.Address, state.Immutable) (uint64, error) {
	return 0, nil
}

func TestVerifC40StateKeysRecord(t *testing.T) {
	seed, _ := strconv.ParseInt(os.Getenv("VERIF_SEED"), 10, 64)
	nRandom, _ := strconv.Atoi(os.Getenv("VERIF_RANDOM"))
	only := -1
	if v, err := strconv.Atoi(os.Getenv("VERIF_ONLY")); err == nil {
		only = v
	}
	rng := rand.New(rand.NewSource(seed))
	f, err := os.Create(filepath.Join(os.Getenv("VERIF_OUT"), "rows_statekeys.ndjson"))
	if err != nil {
		t.Fatal(err)
	}
	defer f.Close()
	w := bufio.NewWriter(f)
	w.WriteString("{\"ev\":\"reset\"}\n")
	n := 0
	counts := map[string]int{}
	declare := func(k []byte, who string) {
		n++
		if only >= 0 && n != only {
			return
		}
		good := string([]byte{7, 7, 0, 1}) // a well-formed companion key
		action := chaintest.NewDummyTestAction()
		bh := c40BalanceHandler{sponsorKeys: state.Keys{good: state.All}}
		if who == "action" {
			action.SpecifiedStateKeys = []string{good, string(k)}
			action.SpecifiedStateKeyPermissions = []state.Permissions{state.Read, state.All}
		} else {
			bh.sponsorKeys = state.Keys{good: state.All, string(k): state.All}
		}
		tx, err := chain.NewTransaction(chain.Base{Timestamp: 1000, MaxFee: 1}, []chain.Action{action}, chaintest.NewDummyTestAuth())
		if err != nil {
			t.Fatal(err)
		}
		sk, err := tx.StateKeys(bh)
		e := 0
		if err != nil {
			e = 1
		} else if _, ok := sk[string(k)]; !ok {
			e = 2 // accepted but the key is missing from the declared set
		}
		hi, lo := -1, -1
		if len(k) >= 1 {
			lo = int(k[len(k)-1])
		}
		if len(k) >= 2 {
			hi = int(k[len(k)-2])
		}
		b, _ := json.Marshal(map[string]any{"ev": "row", "kind": "statekeys", "klen": len(k), "hi": hi, "lo": lo, "who": who, "err": e})
		w.Write(b)
		w.WriteByte('\n')
		counts[who+strconv.Itoa(e)]++
	}
	mk := func(kl int) []byte {
		k := make([]byte, kl)
		rng.Read(k)
		return k
	}
	for _, who := range []string{"action", "sponsor"} {
		for kl := 0; kl <= 6; kl++ {
			for i := 0; i < 4; i++ {
				declare(mk(kl), who)
			}
		}
	}
	for i := 0; i < nRandom; i++ {
		declare(mk(rng.Intn(40)), []string{"action", "sponsor"}[rng.Intn(2)])
	}
	w.Flush()
	b, _ := json.Marshal(map[string]any{"rows": n, "counts": counts})
	if err := os.WriteFile(filepath.Join(os.Getenv("VERIF_OUT"), "statekeys_summary.json"), b, 0o644); err != nil {
		t.Fatal(err)
	}
}
