//go:build verif

// Shared harness of the chain-level drivers (C01 C03 C05 C07 C10 C11 C12 C24 C02 ...): a scripted
// chain.Action, a small world (named keys, accounts), a real chain.Processor on a merkledb parent view and an
// ndjson recorder.  See /verif/DESIGN.md and spec/Block.tla.
package chain_test

import (
	"context"
	"encoding/binary"
	"encoding/hex"
	"encoding/json"
	"errors"
	"fmt"
	"math/rand"
	"os"
	"path/filepath"
	"sort"
	"strconv"
	"sync"
	"sync/atomic"
	"testing"
	"time"

	"github.com/ava-labs/avalanchego/database"
	"github.com/ava-labs/avalanchego/database/memdb"
	"github.com/ava-labs/avalanchego/ids"
	"github.com/ava-labs/avalanchego/snow/engine/snowman/block"
	"github.com/ava-labs/avalanchego/trace"
	"github.com/ava-labs/avalanchego/utils/logging"
	"github.com/ava-labs/avalanchego/x/merkledb"
	"github.com/prometheus/client_golang/prometheus"

	"github.com/ava-labs/hypersdk/chain"
	"github.com/ava-labs/hypersdk/chain/chaintest"
	"github.com/ava-labs/hypersdk/codec"
	"github.com/ava-labs/hypersdk/fees"
	"github.com/ava-labs/hypersdk/genesis"
	"github.com/ava-labs/hypersdk/internal/validitywindow"
	"github.com/ava-labs/hypersdk/internal/validitywindow/validitywindowtest"
	"github.com/ava-labs/hypersdk/internal/workers"
	"github.com/ava-labs/hypersdk/keys"
	"github.com/ava-labs/hypersdk/state"
	"github.com/ava-labs/hypersdk/state/balance"
	"github.com/ava-labs/hypersdk/state/metadata"

	internalfees "github.com/ava-labs/hypersdk/internal/fees"
)

// ---------------------------------------------------------------- scripted action

type vKey struct {
	Bal    string `json:"bal"`    // non-empty: this is the balance key of that account (Name/Chunks unused)
	Name   string `json:"name"`
	Perm   uint8  `json:"perm"`   // raw state.Permissions byte: r=1 a=2 w=4
	Chunks uint16 `json:"chunks"` // size suffix of the key
}

type vOp struct {
	Op string `json:"op"` // get | put | del | fail
	K  string `json:"k"`
	V  string `json:"v"`
}

// VerifAction is a chain.Action whose declared keys and behaviour are data.
// Its output is the JSON list of the values it read ("none" for an absent key).
type VerifAction struct {
	Keys    []vKey `json:"keys"`
	Ops     []vOp  `json:"ops"`
	Compute uint64 `json:"compute"`
	Start   int64  `json:"start"`
	End     int64  `json:"end"`
	Nonce   uint64 `json:"nonce"`

	sched *scheduler // not serialized
	label int
}

const verifActionID = 0x7f

var errScriptedFailure = errors.New("scripted action failure")

func keyBytes(name string, chunks uint16) []byte {
	return keys.EncodeChunks([]byte("vk/"+name), chunks)
}

func (a *VerifAction) ValidRange(chain.Rules) (int64, int64) { return a.Start, a.End }
func (a *VerifAction) ComputeUnits(chain.Rules) uint64       { return a.Compute }
func (a *VerifAction) Bytes() []byte {
	b, _ := json.Marshal(a)
	return append([]byte{verifActionID}, b...)
}

func (a *VerifAction) StateKeys(codec.Address, ids.ID) state.Keys {
	ks := state.Keys{}
	for _, k := range a.Keys {
		if k.Bal != "" {
			ks[string(verifBalKey(k.Bal))] |= state.Permissions(k.Perm)
			continue
		}
		ks[string(keyBytes(k.Name, k.Chunks))] |= state.Permissions(k.Perm)
	}
	return ks
}

func (a *VerifAction) chunksOf(name string, w *world) uint16 { return w.chunks[name] }

func (a *VerifAction) Execute(ctx context.Context, _ chain.Rules, mu state.Mutable, _ int64, _ codec.Address, _ ids.ID) ([]byte, error) {
	if s, label := a.sched, a.label; s != nil { // read once: a later run of the same block re-arms the action
		s.enter(label)
		defer s.leave(label)
	}
	reads := []string{}
	for _, op := range a.Ops {
		kb := keyBytes(op.K, verifChunks[op.K])
		switch op.Op {
		case "getbal":
			v, err := mu.GetValue(ctx, verifBalKey(op.K))
			switch {
			case err == nil && len(v) == 8:
				reads = append(reads, fmt.Sprintf("b:%d", binary.BigEndian.Uint64(v)))
			case err == nil:
				reads = append(reads, "b:malformed")
			case errors.Is(err, database.ErrNotFound):
				reads = append(reads, "b:-1")
			default:
				return nil, err
			}
		case "get":
			v, err := mu.GetValue(ctx, kb)
			switch {
			case err == nil:
				reads = append(reads, string(v))
			case errors.Is(err, database.ErrNotFound):
				reads = append(reads, "none")
			default:
				return nil, err
			}
		case "put":
			if err := mu.Insert(ctx, kb, []byte(op.V)); err != nil {
				return nil, err
			}
		case "del":
			if err := mu.Remove(ctx, kb); err != nil {
				return nil, err
			}
		case "fail":
			return nil, errScriptedFailure
		}
	}
	out, _ := json.Marshal(reads)
	return out, nil
}

// verifBalKey: real balance key of a named account (set by newWorld)
var verifBalKey = func(string) []byte { return nil }

// verifChunks: chunk suffix under which an op addresses a key name (the world's canonical suffix)
var verifChunks = map[string]uint16{}

// ---------------------------------------------------------------- schedule control

// scheduler serialises nothing: it only delays each action at its entry until the controller releases it,
// choosing among the actions currently waiting with the scenario's RNG, so that different completion orders
// of non-conflicting transactions are produced deliberately instead of hoped for.
type scheduler struct {
	mu      sync.Mutex
	r       *rand.Rand
	waiting map[int]chan struct{}
	running int32
	maxPar  int32
	order   []int
	stop    chan struct{}
	done    chan struct{}
}

func newScheduler(seed int64) *scheduler {
	s := &scheduler{r: rand.New(rand.NewSource(seed)), waiting: map[int]chan struct{}{}, stop: make(chan struct{}), done: make(chan struct{})}
	go s.loop()
	return s
}

func (s *scheduler) wait(slot int) {
	ch := make(chan struct{})
	s.mu.Lock()
	s.waiting[slot] = ch
	s.mu.Unlock()
	select {
	case <-ch:
	case <-s.stop:
	}
}

// enter delays the start of an action; leave delays its completion, so that several actions are genuinely
// in flight (between start and completion) at once and complete in an order chosen by the controller.
func (s *scheduler) enter(label int) {
	s.wait(2 * label)
	n := atomic.AddInt32(&s.running, 1)
	for {
		m := atomic.LoadInt32(&s.maxPar)
		if n <= m || atomic.CompareAndSwapInt32(&s.maxPar, m, n) {
			break
		}
	}
}

func (s *scheduler) leave(label int) {
	s.wait(2*label + 1)
	atomic.AddInt32(&s.running, -1)
}

func (s *scheduler) loop() {
	defer close(s.done)
	for {
		select {
		case <-s.stop:
			return
		case <-time.After(time.Duration(20+s.r.Intn(80)) * time.Microsecond):
		}
		s.mu.Lock()
		if len(s.waiting) > 0 && s.r.Intn(3) != 0 {
			labels := make([]int, 0, len(s.waiting))
			for l := range s.waiting {
				labels = append(labels, l)
			}
			sort.Ints(labels)
			l := labels[s.r.Intn(len(labels))]
			close(s.waiting[l])
			delete(s.waiting, l)
			s.order = append(s.order, l)
		}
		s.mu.Unlock()
	}
}

func (s *scheduler) close() {
	close(s.stop)
	<-s.done
}

// ---------------------------------------------------------------- world

type world struct {
	keyNames []string
	chunks   map[string]uint16
	accounts []string // account names s1..
	addr     map[string]codec.Address
	rules    *genesis.Rules
	mm       metadata.MetadataManager
	bh       *balance.PrefixBalanceHandler
	chainID  ids.ID
}

func newWorld(keyNames []string, chunks map[string]uint16, accounts []string) *world {
	w := &world{keyNames: keyNames, chunks: chunks, accounts: accounts, addr: map[string]codec.Address{}}
	for i, a := range accounts {
		var ad codec.Address
		ad[0] = chaintest.TestAuthTypeID
		ad[1] = byte(i + 1)
		ad[2] = 0xaa
		w.addr[a] = ad
	}
	for k, c := range chunks {
		verifChunks[k] = c
	}
	w.rules = genesis.NewDefaultRules()
	w.chainID = ids.ID{7, 7, 7}
	w.rules.ChainID = w.chainID
	w.rules.NetworkID = 1
	w.rules.MinUnitPrice = fees.Dimensions{1, 1, 1, 1, 1}
	w.mm = metadata.NewDefaultManager()
	w.bh = balance.NewPrefixBalanceHandler([]byte{0})
	verifBalKey = func(acct string) []byte { return w.bh.BalanceKey(w.addr[acct]) }
	return w
}

type absState struct {
	KV        map[string]string `json:"kv"`  // key name -> value or "none"
	Bal       map[string]int64  `json:"bal"` // account -> balance
	Height    int64             `json:"height"`
	Timestamp int64             `json:"timestamp"`
}

func feeBytes(prices fees.Dimensions) []byte {
	fm := internalfees.NewManager(nil)
	for i := fees.Dimension(0); i < fees.FeeDimensions; i++ {
		fm.SetUnitPrice(i, prices[i])
	}
	return fm.Bytes()
}

func (w *world) parentView(st absState, prices fees.Dimensions) (merkledb.View, error) {
	db, err := merkledb.New(context.Background(), memdb.New(), merkledb.Config{BranchFactor: merkledb.BranchFactor16, Tracer: trace.Noop})
	if err != nil {
		return nil, err
	}
	put := func(k, v []byte) {
		if err == nil {
			err = db.Put(k, v)
		}
	}
	put(chain.HeightKey(w.mm.HeightPrefix()), binary.BigEndian.AppendUint64(nil, uint64(st.Height)))
	put(chain.TimestampKey(w.mm.TimestampPrefix()), binary.BigEndian.AppendUint64(nil, uint64(st.Timestamp)))
	put(chain.FeeKey(w.mm.FeePrefix()), feeBytes(prices))
	for k, v := range st.KV {
		if v != "none" {
			put(keyBytes(k, w.chunks[k]), []byte(v))
		}
	}
	for a, b := range st.Bal {
		if b >= 0 {
			put(w.bh.BalanceKey(w.addr[a]), binary.BigEndian.AppendUint64(nil, uint64(b)))
		}
	}
	return db, err
}

// nameOf maps a real state key to its abstract name (metadata, balance, universe key, or other:<hex>).
func (w *world) nameOf(key string) string {
	switch key {
	case string(chain.HeightKey(w.mm.HeightPrefix())):
		return "meta:height"
	case string(chain.TimestampKey(w.mm.TimestampPrefix())):
		return "meta:timestamp"
	case string(chain.FeeKey(w.mm.FeePrefix())):
		return "meta:fee"
	}
	for _, a := range w.accounts {
		if key == string(w.bh.BalanceKey(w.addr[a])) {
			return "bal:" + a
		}
	}
	for _, k := range w.keyNames {
		for d := uint16(0); d < 3; d++ {
			if key == string(keyBytes(k, w.chunks[k]+d)) {
				if d == 0 {
					return k
				}
				return fmt.Sprintf("%s#%d", k, w.chunks[k]+d)
			}
		}
	}
	return "other:" + hex.EncodeToString([]byte(key))
}

// project reads the abstract state back from a view through its public GetValue.
func (w *world) project(v state.Immutable) (absState, error) {
	ctx := context.Background()
	out := absState{KV: map[string]string{}, Bal: map[string]int64{}}
	for _, k := range w.keyNames {
		b, err := v.GetValue(ctx, keyBytes(k, w.chunks[k]))
		switch {
		case err == nil:
			out.KV[k] = string(b)
		case errors.Is(err, database.ErrNotFound):
			out.KV[k] = "none"
		default:
			return out, err
		}
	}
	for _, a := range w.accounts {
		b, err := v.GetValue(ctx, w.bh.BalanceKey(w.addr[a]))
		switch {
		case err == nil:
			out.Bal[a] = int64(binary.BigEndian.Uint64(b))
		case errors.Is(err, database.ErrNotFound):
			out.Bal[a] = -1
		default:
			return out, err
		}
	}
	hb, err := v.GetValue(ctx, chain.HeightKey(w.mm.HeightPrefix()))
	if err != nil {
		return out, err
	}
	tb, err := v.GetValue(ctx, chain.TimestampKey(w.mm.TimestampPrefix()))
	if err != nil {
		return out, err
	}
	out.Height = int64(binary.BigEndian.Uint64(hb))
	out.Timestamp = int64(binary.BigEndian.Uint64(tb))
	return out, nil
}

// ---------------------------------------------------------------- transactions

type vTx struct {
	Sponsor  string         `json:"sponsor"`
	Actor    string         `json:"actor"`
	Actions  []*VerifAction `json:"actions"`
	MaxFee   uint64         `json:"maxfee"`
	Expiry   int64          `json:"expiry"`
	BadSig   bool           `json:"badsig"`
	WrongCID bool           `json:"wrongcid"`
	AuthUnit uint64         `json:"authunits"`
	AuthFrom int64          `json:"authfrom"`
	AuthTo   int64          `json:"authto"`
}

func (w *world) makeTx(v vTx) (*chain.Transaction, error) {
	actions := make([]chain.Action, len(v.Actions))
	for i, a := range v.Actions {
		actions[i] = a
	}
	cid := w.chainID
	if v.WrongCID {
		cid = ids.ID{9}
	}
	actor := v.Actor
	if actor == "" {
		actor = v.Sponsor
	}
	au := v.AuthUnit
	if au == 0 {
		au = 1
	}
	from, to := v.AuthFrom, v.AuthTo
	if from == 0 && to == 0 {
		from, to = -1, -1
	}
	auth := &chaintest.TestAuth{NumComputeUnits: au, ActorAddress: w.addr[actor], SponsorAddress: w.addr[v.Sponsor], ShouldErr: v.BadSig, Start: from, End: to}
	return chain.NewTransaction(chain.Base{Timestamp: v.Expiry, ChainID: cid, MaxFee: v.MaxFee}, actions, auth)
}

// declared returns the abstract declaration of a tx: key name -> permission letters, unioned over actions
// (the sponsor's balance key is implicit), plus the chunk suffix every key was declared with.
func declared(v vTx) (map[string][]string, map[string]int) {
	perm := map[string]uint8{}
	ch := map[string]int{}
	for _, a := range v.Actions {
		for _, k := range a.Keys {
			id := k.Name
			if k.Bal != "" {
				id = "bal:" + k.Bal
				perm[id] |= k.Perm
				ch[id] = 1
				continue
			}
			if k.Chunks != verifChunks[k.Name] {
				id = fmt.Sprintf("%s#%d", k.Name, k.Chunks) // same name, other size suffix: a different key
			}
			perm[id] |= k.Perm
			ch[id] = int(k.Chunks)
		}
	}
	out := map[string][]string{"_": {}}
	for id, p := range perm {
		bits := []string{}
		if p&1 != 0 {
			bits = append(bits, "r")
		}
		if p&2 != 0 {
			bits = append(bits, "a")
		}
		if p&4 != 0 {
			bits = append(bits, "w")
		}
		out[id] = bits
	}
	ch["_"] = 0
	return out, ch
}

// ---------------------------------------------------------------- processor

type execCfg struct {
	Cores    int  `json:"cores"`
	Fetch    int  `json:"fetch"`
	AuthW    int  `json:"authw"` // 0 = serial workers
	Gated    bool `json:"gated"`
	NormalOp bool `json:"-"`
}

type recView struct {
	merkledb.View
	mu      sync.Mutex
	reads   map[string]int
	failKey string
}

var errInjectedRead = errors.New("injected read failure")

func (r *recView) GetValue(ctx context.Context, key []byte) ([]byte, error) {
	r.mu.Lock()
	r.reads[string(key)]++
	fk := r.failKey
	r.mu.Unlock()
	if fk != "" && fk == string(key) {
		return nil, errInjectedRead
	}
	return r.View.GetValue(ctx, key)
}

func (w *world) processor(cfg execCfg, vw chain.ValidityWindow) (*chain.Processor, workers.Workers, error) {
	metrics, err := chain.NewMetrics(prometheus.NewRegistry())
	if err != nil {
		return nil, nil, err
	}
	var wk workers.Workers
	if cfg.AuthW <= 0 {
		wk = workers.NewSerial()
	} else {
		wk = workers.NewParallel(cfg.AuthW, 4)
	}
	c := chain.NewDefaultConfig()
	c.TransactionExecutionCores = cfg.Cores
	c.StateFetchConcurrency = cfg.Fetch
	if vw == nil {
		vw = &validitywindowtest.MockTimeValidityWindow[*chain.Transaction]{}
	}
	p := chain.NewProcessor(trace.Noop, &logging.NoLog{}, &genesis.ImmutableRuleFactory{Rules: w.rules}, wk,
		chaintest.NewDummyTestAuthEngines(), w.mm, w.bh, vw, metrics, c)
	return p, wk, nil
}

func errClass(err error) string {
	switch {
	case err == nil:
		return ""
	case errors.Is(err, chain.ErrInvalidUnitsConsumed):
		return "units"
	case errors.Is(err, balance.ErrInsufficientBalance):
		return "insufficient"
	case errors.Is(err, chain.ErrTimestampTooLate):
		return "block-too-late"
	case errors.Is(err, chain.ErrTimestampTooEarlyEmptyBlock):
		return "block-too-early-empty"
	case errors.Is(err, chain.ErrTimestampTooEarly):
		return "block-too-early"
	case errors.Is(err, chain.ErrInvalidBlockHeight):
		return "height"
	case errors.Is(err, chain.ErrStateRootMismatch):
		return "root"
	case errors.Is(err, chain.ErrDuplicateTx):
		return "duplicate"
	case errors.Is(err, chain.ErrInvalidChainID):
		return "chainid"
	case errors.Is(err, chain.ErrTooManyActions):
		return "too-many-actions"
	case errors.Is(err, chain.ErrActionNotActivated):
		return "action-not-activated"
	case errors.Is(err, chain.ErrAuthNotActivated):
		return "auth-not-activated"
	case errors.Is(err, chaintest.ErrTestAuthVerify):
		return "signature"
	case errors.Is(err, chain.ErrInvalidKeyValue):
		return "invalid-key"
	case errors.Is(err, errInjectedRead):
		return "read-error"
	case errors.Is(err, validitywindow.ErrMisalignedTime):
		return "expiry-misaligned"
	case errors.Is(err, validitywindow.ErrTimestampExpired):
		return "expired"
	case errors.Is(err, validitywindow.ErrFutureTimestamp):
		return "expiry-future"
	default:
		s := err.Error()
		for _, p := range []struct{ sub, cls string }{{"overflow", "overflow"}} {
			if containsFold(s, p.sub) {
				return p.cls
			}
		}
		return "other:" + s
	}
}

func containsFold(s, sub string) bool {
	return len(sub) > 0 && (stringIndexFold(s, sub) >= 0)
}

func stringIndexFold(s, sub string) int {
	ls, lsub := []byte(s), []byte(sub)
	for i := range ls {
		if ls[i] >= 'A' && ls[i] <= 'Z' {
			ls[i] += 32
		}
	}
	for i := 0; i+len(lsub) <= len(ls); i++ {
		if string(ls[i:i+len(lsub)]) == string(lsub) {
			return i
		}
	}
	return -1
}

type txResult struct {
	OK      bool       `json:"ok"`
	Outputs [][]string `json:"outputs"`
	Units   []int64    `json:"units"`
	Fee     int64      `json:"fee"`
}

type blockOutcome struct {
	Err      string     `json:"err"`
	Results  []txResult `json:"results"`
	Prices   []int64    `json:"prices"`
	Expected []int64    `json:"-"`
	Consumed []int64    `json:"consumed"`
	Post     absState   `json:"post"`
	Root     string     `json:"root"`
	MaxPar   int        `json:"maxpar"`
	Reads    []string   `json:"reads"`
	view     merkledb.View
	blk      *chain.ExecutionBlock
}

func dims(d fees.Dimensions) []int64 {
	out := make([]int64, len(d))
	for i, v := range d {
		if v > 1<<30 {
			out[i] = 1 << 30 // clamp for TLC's 32-bit integers (only used by overflow scenarios, which fail before)
		} else {
			out[i] = int64(v)
		}
	}
	return out
}

// runBlock executes one block on the real processor.
func (w *world) runBlock(parent merkledb.View, parentID ids.ID, height uint64, ts int64, txs []*chain.Transaction, cfg execCfg,
	vw chain.ValidityWindow, schedSeed int64, actions [][]*VerifAction, failKey string, stateRoot *ids.ID,
) (*blockOutcome, error) {
	ctx := context.Background()
	root, err := parent.GetMerkleRoot(ctx)
	if err != nil {
		return nil, err
	}
	if stateRoot != nil {
		root = *stateRoot
	}
	sb, err := chain.NewStatelessBlock(parentID, ts, height, txs, root, &block.Context{})
	if err != nil {
		return nil, err
	}
	eb := chain.NewExecutionBlock(sb)
	p, wk, err := w.processor(cfg, vw)
	if err != nil {
		return nil, err
	}
	defer wk.Stop()
	var sched *scheduler
	if cfg.Gated {
		sched = newScheduler(schedSeed)
	}
	label := 0
	for _, as := range actions {
		for _, a := range as {
			a.sched = sched
			a.label = label
			label++
		}
	}
	rv := &recView{View: parent, reads: map[string]int{}, failKey: failKey}
	type res struct {
		out *chain.OutputBlock
		err error
	}
	ch := make(chan res, 1)
	go func() {
		o, e := p.Execute(ctx, rv, eb, cfg.NormalOp)
		ch <- res{o, e}
	}()
	var r res
	select {
	case r = <-ch:
	case <-time.After(60 * time.Second):
		return nil, fmt.Errorf("HANG: Processor.Execute did not return within 60s")
	}
	oc := &blockOutcome{Err: errClass(r.err), blk: eb, Results: []txResult{}, Reads: []string{}}
	// unit prices this block must use: the fee-market rule applied to the parent's fee state (C13 checks the rule)
	if feeRaw, ferr := parent.GetValue(ctx, chain.FeeKey(w.mm.FeePrefix())); ferr == nil {
		oc.Expected = dims(internalfees.NewManager(feeRaw).ComputeNext(ts, w.rules).UnitPrices())
	} else {
		oc.Expected = []int64{0, 0, 0, 0, 0}
	}
	if sched != nil {
		sched.close()
		oc.MaxPar = int(atomic.LoadInt32(&sched.maxPar))
	}
	rv.mu.Lock()
	for k := range rv.reads {
		oc.Reads = append(oc.Reads, w.nameOf(k))
	}
	rv.mu.Unlock()
	sort.Strings(oc.Reads)
	if r.err != nil {
		return oc, nil
	}
	oc.view = r.out.View
	for _, res := range r.out.ExecutionResults.Results {
		tr := txResult{OK: res.Success, Units: dims(res.Units), Fee: int64(res.Fee), Outputs: [][]string{}}
		for _, o := range res.Outputs {
			var reads []string
			if err := json.Unmarshal(o, &reads); err != nil {
				return nil, fmt.Errorf("undecodable action output %q", o)
			}
			tr.Outputs = append(tr.Outputs, append([]string{"|"}, reads...)) // never an empty array of arrays ambiguity
		}
		oc.Results = append(oc.Results, tr)
	}
	oc.Prices = dims(r.out.ExecutionResults.UnitPrices)
	oc.Consumed = dims(r.out.ExecutionResults.UnitsConsumed)
	oc.Post, err = w.project(r.out.View)
	if err != nil {
		return nil, err
	}
	rt, err := r.out.View.GetMerkleRoot(ctx)
	if err != nil {
		return nil, err
	}
	oc.Root = hex.EncodeToString(rt[:8])
	return oc, nil
}

// ---------------------------------------------------------------- recorder

type recorder struct {
	lines []any
}

func (r *recorder) add(l any) { r.lines = append(r.lines, l) }

func (r *recorder) dump(t *testing.T, name string) {
	f, err := os.Create(filepath.Join(os.Getenv("VERIF_OUT"), name+".ndjson"))
	if err != nil {
		t.Fatal(err)
	}
	defer f.Close()
	enc := json.NewEncoder(f)
	for _, l := range r.lines {
		if err := enc.Encode(l); err != nil {
			t.Fatal(err)
		}
	}
}

func jsonUnmarshal(b []byte, v any) error { return json.Unmarshal(b, v) }
func errorsIs(err, target error) bool   { return errors.Is(err, target) }

func envInt(name string, def int) int {
	if v, err := strconv.Atoi(os.Getenv(name)); err == nil {
		return v
	}
	return def
}

func skipUnlessVerif(t *testing.T) {
	if os.Getenv("VERIF_OUT") == "" {
		t.Skip("VERIF_OUT not set")
	}
}

func onlyScenario(s int) bool {
	o := os.Getenv("VERIF_ONLY")
	return o == "" || o == strconv.Itoa(s)
}
