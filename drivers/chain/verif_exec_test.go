//go:build verif

package chain_test

import (
	"context"
	"fmt"
	"math/rand"
	"os"
	"testing"

	"github.com/ava-labs/avalanchego/ids"
	"github.com/ava-labs/avalanchego/x/merkledb"

	"github.com/ava-labs/hypersdk/chain"
	"github.com/ava-labs/hypersdk/fees"

	internalfees "github.com/ava-labs/hypersdk/internal/fees"
)

var (
	execKeyNames = []string{"a", "b", "c", "d"}
	execAccounts = []string{"s1", "s2", "s3", "s4", "s5", "s6"}
	execVals     = []string{"v1", "v2", "v3"}
	permChoices  = []uint8{1, 5, 7, 7, 5, 4, 3, 0, 6} // r, rw, all, ..., w-without-r, alloc+r, none, a+w without r
)

type ruleRec struct {
	BaseCompute int64   `json:"basecompute"`
	KeyRead     int64   `json:"keyread"`
	ValRead     int64   `json:"valread"`
	KeyAlloc    int64   `json:"keyalloc"`
	ValAlloc    int64   `json:"valalloc"`
	KeyWrite    int64   `json:"keywrite"`
	ValWrite    int64   `json:"valwrite"`
	MaxUnits    []int64 `json:"maxunits"`
	Window      int64   `json:"window"`
	MaxActions  int64   `json:"maxactions"`
	MinGap      int64   `json:"mingap"`
	MinEmptyGap int64   `json:"minemptygap"`
}

func (w *world) ruleRec() ruleRec {
	r := w.rules
	return ruleRec{int64(r.BaseComputeUnits), int64(r.StorageKeyReadUnits), int64(r.StorageValueReadUnits),
		int64(r.StorageKeyAllocateUnits), int64(r.StorageValueAllocateUnits), int64(r.StorageKeyWriteUnits),
		int64(r.StorageValueWriteUnits), dims(r.MaxBlockUnits), r.ValidityWindow, int64(r.MaxActionsPerTx), r.MinBlockGap, r.MinEmptyBlockGap}
}

type txRec struct {
	Sponsor   string              `json:"sponsor"`
	Decl      map[string][]string `json:"decl"`
	Chunks    map[string]int      `json:"chunks"`
	Actions   []actRec            `json:"actions"`
	Size      int                 `json:"size"`
	AuthUnits int64               `json:"authunits"`
	MaxFee    int64               `json:"maxfee"`
	Expiry    int64               `json:"expiry"`
	BadSig    bool                `json:"badsig"`
	WrongCID  bool                `json:"wrongcid"`
	AuthFrom  int64               `json:"authfrom"`
	AuthTo    int64               `json:"authto"`
}

type actRec struct {
	Ops     []vOp `json:"ops"`
	Compute int64 `json:"compute"`
	Start   int64 `json:"start"`
	End     int64 `json:"end"`
}

func recOf(v vTx, tx *chain.Transaction) txRec {
	decl, ch := declared(v)
	r := txRec{Sponsor: v.Sponsor, Decl: decl, Chunks: ch, Size: tx.Size(), AuthUnits: 1, MaxFee: int64(v.MaxFee), Expiry: v.Expiry,
		BadSig: v.BadSig, WrongCID: v.WrongCID, AuthFrom: -1, AuthTo: -1, Actions: []actRec{}}
	if v.AuthUnit != 0 {
		r.AuthUnits = int64(v.AuthUnit)
	}
	if v.AuthFrom != 0 || v.AuthTo != 0 {
		r.AuthFrom, r.AuthTo = v.AuthFrom, v.AuthTo
	}
	if v.MaxFee > 1<<30 {
		r.MaxFee = 1 << 30
	}
	for _, a := range v.Actions {
		ops := a.Ops
		if ops == nil {
			ops = []vOp{}
		}
		r.Actions = append(r.Actions, actRec{Ops: ops, Compute: int64(a.Compute), Start: a.Start, End: a.End})
	}
	return r
}

type hdrRec struct {
	Height   int64 `json:"height"`
	Ts       int64 `json:"ts"`
	TooLate  bool  `json:"toolate"`
	RootOK   bool  `json:"rootok"`
	PDelta   int64 `json:"pdelta"`   // block timestamp minus the PARENT BLOCK's header timestamp (clamped to +-2^30)
	PGenesis bool  `json:"pgenesis"` // the parent is the genesis block built by chain.NewGenesisCommit
}

type blockLine struct {
	Ev      string        `json:"ev"`
	Bid     int           `json:"bid"`
	Rep     int           `json:"rep"`
	Advance bool          `json:"advance"`
	Hdr     hdrRec        `json:"hdr"`
	Txs     []txRec       `json:"txs"`
	Prices  []int64       `json:"prices"`
	Cfg     execCfg       `json:"cfg"`
	Out     *blockOutcome `json:"out"`
	FailKey string        `json:"failkey"` // abstract name of the parent key whose read was made to fail ("" = none)
}

type resetLine struct {
	Ev    string   `json:"ev"`
	State absState `json:"state"`
	Rules ruleRec  `json:"rules"`
	Note  string   `json:"note"`
}

var nonceCounter uint64

func randAction(r *rand.Rand, w *world, failProb int, undeclProb int) *VerifAction {
	nonceCounter++
	a := &VerifAction{Compute: uint64(1 + r.Intn(3)), Start: -1, End: -1, Nonce: nonceCounter}
	nk := 1 + r.Intn(3)
	perm := r.Perm(len(w.keyNames))
	for i := 0; i < nk && i < len(perm); i++ {
		name := w.keyNames[perm[i]]
		ch := w.chunks[name]
		if r.Intn(12) == 0 {
			ch++ // same name, other size suffix: a different (undeclared for the ops) key
		}
		a.Keys = append(a.Keys, vKey{Name: name, Perm: permChoices[r.Intn(len(permChoices))], Chunks: ch})
	}
	nops := r.Intn(5)
	for i := 0; i < nops; i++ {
		var k string
		if r.Intn(100) < undeclProb || len(a.Keys) == 0 {
			k = w.keyNames[r.Intn(len(w.keyNames))]
		} else {
			k = a.Keys[r.Intn(len(a.Keys))].Name
		}
		switch x := r.Intn(10); {
		case x < 3:
			a.Ops = append(a.Ops, vOp{Op: "get", K: k})
		case x < 7:
			a.Ops = append(a.Ops, vOp{Op: "put", K: k, V: execVals[r.Intn(len(execVals))]})
		default:
			a.Ops = append(a.Ops, vOp{Op: "del", K: k})
		}
	}
	if r.Intn(100) < failProb {
		pos := r.Intn(len(a.Ops) + 1)
		a.Ops = append(a.Ops[:pos], append([]vOp{{Op: "fail"}}, a.Ops[pos:]...)...)
	}
	return a
}

func randState(r *rand.Rand, w *world) absState {
	st := absState{KV: map[string]string{}, Bal: map[string]int64{}}
	for _, k := range w.keyNames {
		if r.Intn(3) == 0 {
			st.KV[k] = "none"
		} else {
			st.KV[k] = execVals[r.Intn(len(execVals))]
		}
	}
	for _, a := range w.accounts {
		st.Bal[a] = int64(200_000 + r.Intn(800_000))
	}
	return st
}

func alignUp(ts int64) int64 { return (ts + 999) / 1000 * 1000 }

// TestVerifChainExec records executions of random blocks on the real Processor under several configurations.
// VERIF_MODE: c01 (multi-tx blocks, overlapping keys), c03 (single multi-action tx per block, many failures),
// c12 (tight per-block unit limits, chunk suffixes, rule costs).
func TestVerifChainExec(t *testing.T) {
	skipUnlessVerif(t)
	seed := int64(envInt("VERIF_SEED", 1))
	n := envInt("VERIF_SCENARIOS", 40)
	mode := os.Getenv("VERIF_MODE")
	if mode == "" {
		mode = "c01"
	}
	maxTxs := envInt("VERIF_MAXTXS", 6)
	for s := 0; s < n; s++ {
		if !onlyScenario(s) {
			continue
		}
		r := rand.New(rand.NewSource(seed*7_000_003 + int64(s)))
		chunks := map[string]uint16{}
		for _, k := range execKeyNames {
			chunks[k] = 1
			if mode == "c12" {
				chunks[k] = uint16(r.Intn(4))
				if chunks[k] == 0 {
					chunks[k] = 1
				}
			}
		}
		w := newWorld(execKeyNames, chunks, execAccounts)
		if mode == "c12" {
			w.rules.MaxBlockUnits = fees.Dimensions{uint64(600 + r.Intn(2500)), uint64(4 + r.Intn(20)), uint64(20 + r.Intn(80)), uint64(60 + r.Intn(200)), uint64(30 + r.Intn(120))}
			w.rules.BaseComputeUnits = uint64(r.Intn(3))
			w.rules.StorageKeyReadUnits = uint64(r.Intn(6))
			w.rules.StorageValueReadUnits = uint64(r.Intn(4))
			w.rules.StorageKeyAllocateUnits = uint64(r.Intn(25))
			w.rules.StorageValueAllocateUnits = uint64(r.Intn(6))
			w.rules.StorageKeyWriteUnits = uint64(r.Intn(12))
			w.rules.StorageValueWriteUnits = uint64(r.Intn(4))
		}
		st := randState(r, w)
		if r.Intn(4) == 0 {
			st.Bal[w.accounts[r.Intn(len(w.accounts))]] = int64(r.Intn(900)) // an underfunded sponsor
		}
		prices := fees.Dimensions{1, 1, 1, 1, 1}
		rec := &recorder{}
		rec.add(resetLine{Ev: "reset", State: st, Rules: w.ruleRec(), Note: fmt.Sprintf("mode=%s seed=%d scenario=%d", mode, seed, s)})
		parent, err := w.parentView(st, prices)
		if err != nil {
			t.Fatal(err)
		}
		var parentView merkledb.View = parent
		parentID := ids.Empty
		nblocks := 1 + r.Intn(3)
		for b := 0; b < nblocks; b++ {
			ts := st.Timestamp + w.rules.MinEmptyBlockGap + int64(r.Intn(3))*500
			ntx := r.Intn(maxTxs + 1)
			if mode == "c03" {
				ntx = 1
			}
			lowConflict := r.Intn(3) == 0
			hotKey := (mode == "c01" || mode == "c24") && r.Intn(5) < 2
			hp := r.Perm(len(w.keyNames))
			hots := []string{w.keyNames[hp[0]]}
			if r.Intn(2) == 0 {
				hots = append(hots, w.keyNames[hp[1]])
			}
			directed := r.Intn(2) == 0
			dirReaders := 1 + r.Intn(3)
			if hotKey {
				lowConflict = true
				if ntx < 3 {
					ntx = 4 + r.Intn(5)
				}
			}
			var vtxs []vTx
			var txs []*chain.Transaction
			var acts [][]*VerifAction
			var recs []txRec
			for i := 0; i < ntx; i++ {
				na := 1 + r.Intn(3)
				failProb, undecl := 12, 10
				if mode == "c03" {
					na = 1 + r.Intn(6)
					failProb, undecl = 25, 15
				}
				sp := w.accounts[r.Intn(len(w.accounts))]
				if lowConflict {
					sp = w.accounts[i%len(w.accounts)]
				}
				v := vTx{Sponsor: sp, MaxFee: 1 << 29,
					Expiry: alignUp(ts) + int64(r.Intn(int(w.rules.ValidityWindow/1000)))*1000}
				if alignUp(ts)+0 > ts+w.rules.ValidityWindow {
					v.Expiry = alignUp(ts)
				}
				if v.Expiry > ts+w.rules.ValidityWindow {
					v.Expiry -= 1000
				}
				if hotKey {
					// readers and writers of one or two hot keys, every tx with its own sponsor and its own values:
					// the order in which conflicting transactions ran is visible in what each one read.  With two hot
					// keys a transaction may read one and write the other (reader and writer relative to the same
					// earlier transaction), and the first transaction touches both.
					na = 0
					nonceCounter++
					a := &VerifAction{Compute: 1, Start: -1, End: -1, Nonce: nonceCounter}
					for hi, hk := range hots {
						mode3 := r.Intn(3) // 0 none, 1 read, 2 read-write
						if directed && len(hots) == 2 {
							// tx0 writes both; txs 1..k only read the second key; tx k+1 reads the first and writes the second
							switch {
							case i >= 1 && i <= dirReaders:
								mode3 = hi // first key: none, second key: read
							case i == dirReaders+1:
								mode3 = 1 + hi // first key: read, second key: read-write
							}
						}
						if i == 0 || (len(hots) == 1 && mode3 == 0) {
							mode3 = 2 - r.Intn(2)*(1-hi%2)*0
							if i == 0 {
								mode3 = 2
							}
						}
						if len(hots) == 1 && mode3 == 0 {
							mode3 = 1
						}
						switch mode3 {
						case 1:
							a.Keys = append(a.Keys, vKey{Name: hk, Perm: 1, Chunks: w.chunks[hk]})
							a.Ops = append(a.Ops, vOp{Op: "get", K: hk})
						case 2:
							a.Keys = append(a.Keys, vKey{Name: hk, Perm: 7, Chunks: w.chunks[hk]})
							a.Ops = append(a.Ops, vOp{Op: "get", K: hk})
							if r.Intn(4) == 0 {
								a.Ops = append(a.Ops, vOp{Op: "del", K: hk})
							} else {
								val := fmt.Sprintf("t%d%s", i, hk)
								if pv := st.KV[hk]; pv != "none" && r.Intn(3) == 0 {
									val = pv // write back exactly the parent's value (possibly after an earlier tx deleted the key)
								}
								a.Ops = append(a.Ops, vOp{Op: "put", K: hk, V: val})
							}
						}
					}
					if len(a.Keys) == 0 {
						a.Keys = append(a.Keys, vKey{Name: hots[0], Perm: 1, Chunks: w.chunks[hots[0]]})
						a.Ops = append(a.Ops, vOp{Op: "get", K: hots[0]})
					}
					v.Actions = append(v.Actions, a)
				}
				for j := 0; j < na; j++ {
					a := randAction(r, w, failProb, undecl)
					if mode == "c03" && r.Intn(3) == 0 {
						// observe the sponsor's (or another account's) balance from inside the action: the fee must
						// already have been debited when the first action runs
						acct := sp
						if r.Intn(4) == 0 {
							acct = w.accounts[r.Intn(len(w.accounts))]
						}
						a.Keys = append(a.Keys, vKey{Bal: acct, Perm: []uint8{1, 1, 1, 0}[r.Intn(4)]})
						pos := r.Intn(len(a.Ops) + 1)
						a.Ops = append(a.Ops[:pos], append([]vOp{{Op: "getbal", K: acct}}, a.Ops[pos:]...)...)
					}
					if lowConflict && r.Intn(4) != 0 {
						for k := range a.Keys { // mostly shared readers: these may run concurrently
							a.Keys[k].Perm = 1
						}
					}
					v.Actions = append(v.Actions, a)
				}
				tx, err := w.makeTx(v)
				if err != nil {
					t.Fatal(err)
				}
				vtxs = append(vtxs, v)
				txs = append(txs, tx)
				acts = append(acts, v.Actions)
				recs = append(recs, recOf(v, tx))
			}
			if recs == nil {
				recs = []txRec{}
			}
			if (s+b)%2 == 0 {
				// admission earlier in time: the node pre-executed the same transaction objects when they were submitted,
				// against the unit prices and the state of that moment (chain.PreExecutor does exactly this call).  What a
				// transaction is charged in the block must not depend on that history.
				admFM := internalfees.NewManager(feeBytes(fees.Dimensions{uint64(2 + (s+b)%5), 3, 2, 4, 1 + uint64(s%3)}))
				for _, tx := range txs {
					_ = tx.PreExecute(context.Background(), admFM, w.bh, w.rules, parentView, ts-int64((s%3)*1000))
				}
			}
			cfgs := []execCfg{{Cores: 1, Fetch: 1, AuthW: 0}, {Cores: 2 + r.Intn(3), Fetch: 1 + r.Intn(4), AuthW: 1 + r.Intn(3), Gated: true},
				{Cores: []int{8, 16}[r.Intn(2)], Fetch: []int{4, 16}[r.Intn(2)], AuthW: 4, Gated: true}, {Cores: 4, Fetch: 2, AuthW: 2}}
			if hotKey {
				cfgs = append([]execCfg{{Cores: 4, Fetch: 2, AuthW: 1, Gated: true}, {Cores: 3, Fetch: 4, AuthW: 2, Gated: true}}, cfgs...)
			}
			var last *blockOutcome
			for rep, cfg := range cfgs {
				failKey, failName := "", ""
				if mode == "c24" && rep == 1 && r.Intn(2) == 0 {
					cands := []string{string(chain.HeightKey(w.mm.HeightPrefix())), string(chain.FeeKey(w.mm.FeePrefix()))}
					for _, v := range vtxs {
						cands = append(cands, string(w.bh.BalanceKey(w.addr[v.Sponsor])))
						for _, a := range v.Actions {
							for _, k := range a.Keys {
								if k.Bal == "" {
									cands = append(cands, string(keyBytes(k.Name, k.Chunks)))
								}
							}
						}
					}
					cands = append(cands, string(keyBytes("zz", 1))) // a key nobody declares: must not matter
					failKey = cands[r.Intn(len(cands))]
					failName = w.nameOf(failKey)
					if len(failName) >= 5 && failName[:5] == "other" {
						failName = "undeclared"
					}
				}
				oc, err := w.runBlock(parentView, parentID, uint64(st.Height+1), ts, txs, cfg, nil, seed*31+int64(s*100+b*10+rep), acts, failKey, nil)
				if err != nil {
					rec.dump(t, fmt.Sprintf("sc%05d", s))
					t.Fatalf("scenario %d block %d rep %d: %v", s, b, rep, err)
				}
				if oc.Err != "" {
					oc.Results, oc.Prices, oc.Consumed, oc.Post = []txResult{}, oc.Expected, []int64{0, 0, 0, 0, 0}, st
				}
				rec.add(blockLine{Ev: "block", Bid: b, Rep: rep, Advance: rep == len(cfgs)-1, Hdr: hdrRec{st.Height + 1, ts, false, true, ts - st.Timestamp, false},
					Txs: recs, Prices: oc.Expected, Cfg: cfg, Out: oc, FailKey: failName})
				last = oc
			}
			if last.Err != "" {
				break
			}
			parentView, parentID, st = last.view, last.blk.GetID(), last.Post
		}
		rec.dump(t, fmt.Sprintf("sc%05d", s))
	}
}
