//go:build verif

package chain_test

import (
	"context"
	"fmt"
	"math/rand"
	"os"
	"testing"
	"time"

	"github.com/ava-labs/avalanchego/database/memdb"
	"github.com/ava-labs/avalanchego/ids"
	"github.com/ava-labs/avalanchego/trace"
	"github.com/ava-labs/avalanchego/utils/logging"
	"github.com/ava-labs/avalanchego/x/merkledb"

	"github.com/ava-labs/hypersdk/chain"
	"github.com/ava-labs/hypersdk/fees"
	"github.com/ava-labs/hypersdk/genesis"
)

func clamp30(v int64) int64 {
	if v > 1<<30 {
		return 1 << 30
	}
	if v < -(1 << 30) {
		return -(1 << 30)
	}
	return v
}

// simple action writing one key (always succeeds when declared rw+a)
func putAction(r *rand.Rand, w *world) *VerifAction {
	nonceCounter++
	k := w.keyNames[r.Intn(len(w.keyNames))]
	return &VerifAction{Compute: 1, Start: -1, End: -1, Nonce: nonceCounter,
		Keys: []vKey{{Name: k, Perm: 7, Chunks: w.chunks[k]}}, Ops: []vOp{{Op: "put", K: k, V: execVals[r.Intn(len(execVals))]}}}
}

// TestVerifChainRules records single-configuration executions of crafted blocks.
// VERIF_MODE: c10 (validity interval / chain id / action count / activation table), c11 (child headers against
// synthetic, real and genesis parents), c07 (maximum-fee variations).
func TestVerifChainRules(t *testing.T) {
	skipUnlessVerif(t)
	seed := int64(envInt("VERIF_SEED", 1))
	n := envInt("VERIF_SCENARIOS", 40)
	mode := os.Getenv("VERIF_MODE")
	ctx := context.Background()
	for s := 0; s < n; s++ {
		if !onlyScenario(s) {
			continue
		}
		r := rand.New(rand.NewSource(seed*9_000_011 + int64(s)))
		chunks := map[string]uint16{}
		for _, k := range execKeyNames {
			chunks[k] = 1
		}
		w := newWorld(execKeyNames, chunks, execAccounts)
		w.rules.ValidityWindow = []int64{0, 1000, 3000, 60000}[r.Intn(4)]
		w.rules.MaxActionsPerTx = uint8(1 + r.Intn(3))
		w.rules.MinBlockGap = []int64{0, 100, 250}[r.Intn(3)]
		w.rules.MinEmptyBlockGap = w.rules.MinBlockGap + []int64{0, 500, 750}[r.Intn(3)]
		st := randState(r, w)
		prices := fees.Dimensions{1, 1, 1, 1, 1}
		if mode == "c07" {
			prices = fees.Dimensions{uint64(r.Intn(3)), uint64(r.Intn(3)), uint64(r.Intn(3)), uint64(r.Intn(3)), uint64(r.Intn(3))}
			w.rules.MinUnitPrice = prices
		}
		rec := &recorder{}
		var parentView merkledb.View
		parentID := ids.Empty
		pGenesis := false
		var pBlockTs int64
		useGenesis := mode == "c11" && s%3 == 0
		if useGenesis {
			// the real genesis: header timestamp 2023-01-01, state timestamp 0
			db, err := merkledb.New(ctx, memdb.New(), merkledb.Config{BranchFactor: merkledb.BranchFactor16, Tracer: trace.Noop})
			if err != nil {
				t.Fatal(err)
			}
			allocs := []*genesis.CustomAllocation{}
			for _, a := range w.accounts {
				allocs = append(allocs, &genesis.CustomAllocation{Address: w.addr[a], Balance: uint64(st.Bal[a])})
			}
			g := genesis.NewDefaultGenesis(allocs)
			gb, gv, err := chain.NewGenesisCommit(ctx, db, g, w.mm, w.bh, &genesis.ImmutableRuleFactory{Rules: w.rules}, trace.Noop, &logging.NoLog{})
			if err != nil {
				t.Fatal(err)
			}
			parentView, parentID, pGenesis, pBlockTs = gv, gb.GetID(), true, gb.Tmstmp
			for k := range st.KV {
				st.KV[k] = "none"
			}
			st.Height, st.Timestamp = 0, 0
		} else {
			st.Height = int64(r.Intn(3))
			st.Timestamp = int64(r.Intn(4)) * 500
			pv, err := w.parentView(st, prices)
			if err != nil {
				t.Fatal(err)
			}
			parentView, pBlockTs = pv, st.Timestamp
		}
		rec.add(resetLine{Ev: "reset", State: st, Rules: w.ruleRec(), Note: fmt.Sprintf("mode=%s seed=%d scenario=%d genesis=%v", mode, seed, s, useGenesis)})
		nblocks := 6 + r.Intn(6)
		for b := 0; b < nblocks; b++ {
			height := st.Height + 1
			// header under test
			tsChoices := []int64{st.Timestamp - 1, st.Timestamp, st.Timestamp + w.rules.MinBlockGap - 1, st.Timestamp + w.rules.MinBlockGap,
				st.Timestamp + w.rules.MinEmptyBlockGap - 1, st.Timestamp + w.rules.MinEmptyBlockGap, st.Timestamp + w.rules.MinEmptyBlockGap + 1000}
			ts := tsChoices[len(tsChoices)-1-r.Intn(2)]
			tooLate, rootOK := false, true
			nearLate, nearOK := int64(0), false
			var badRoot *ids.ID
			ntx := r.Intn(2)
			if mode == "c11" {
				ts = tsChoices[r.Intn(len(tsChoices))]
				switch r.Intn(8) {
				case 0:
					height = st.Height
				case 1:
					height = st.Height + 2
				}
				switch r.Intn(10) {
				case 0:
					tooLate = true
				case 1: // just beyond the future bound (sub-second): must still be rejected
					tooLate, nearLate = true, int64(300+r.Intn(600))
				case 2: // just inside the future bound: must not be rejected for being late
					nearOK = true
				}
				if r.Intn(8) == 0 {
					rootOK = false
					badRoot = &ids.ID{0xde, 0xad, byte(b)}
				}
				if pGenesis && r.Intn(2) == 0 {
					// relative to the genesis HEADER timestamp
					ts = pBlockTs + []int64{-1000, 0, w.rules.MinBlockGap, w.rules.MinEmptyBlockGap, 5000}[r.Intn(5)]
				}
			} else {
				ntx = 1
			}
			if ts < 0 {
				ts = 0
			}
			realTs := ts
			if nearLate > 0 && nearLate%2 == 0 {
				// half of the "just beyond the bound" blocks are placed inside the same wall-clock second as the bound
				// itself (start early in a second, offset 300..600 ms), so that a comparison at a coarser granularity
				// than milliseconds shows whatever the phase of the clock is
				for time.Now().UnixMilli()%1000 > 300 {
					time.Sleep(5 * time.Millisecond)
				}
				nearLate = 300 + (nearLate-300)/2
			}
			t0 := time.Now()
			switch {
			case nearLate > 0:
				realTs = t0.Add(chain.FutureBound).UnixMilli() + nearLate
			case tooLate:
				realTs = t0.Add(3 * chain.FutureBound).UnixMilli()
			case nearOK:
				realTs = t0.Add(chain.FutureBound).UnixMilli() - 300
			}
			var txs []*chain.Transaction
			recs := []txRec{}
			var acts [][]*VerifAction
			for i := 0; i < ntx; i++ {
				v := vTx{Sponsor: w.accounts[r.Intn(len(w.accounts))], MaxFee: 1 << 29}
				v.Actions = []*VerifAction{putAction(r, w)}
				base := (realTs + 999) / 1000 * 1000
				v.Expiry = base
				if base > realTs+w.rules.ValidityWindow {
					v.Expiry = base // cannot be made valid with this window unless ts is aligned; leave: spec decides
				}
				switch mode {
				case "c10":
					switch r.Intn(9) {
					case 0:
						v.Expiry = base - 1000
					case 1:
						v.Expiry = realTs + w.rules.ValidityWindow + 1000 - (realTs+w.rules.ValidityWindow)%1000
					case 2:
						v.Expiry = (realTs + w.rules.ValidityWindow) / 1000 * 1000
					case 3:
						v.Expiry = base + 500
					case 4:
						v.Expiry = -1000 * int64(r.Intn(3))
					case 5:
						v.WrongCID = true
					}
					na := int(w.rules.MaxActionsPerTx) - 1 + r.Intn(3)
					if na < 1 {
						na = 1
					}
					bigCount := r.Intn(12) == 0
					if bigCount {
						// counts that only differ from an admissible count by a multiple of 256; in two of three such
						// transactions the count is the only possible objection (with hundreds of actions a random
						// activation range would almost surely deactivate one of them and mask the count)
						na = []int{255, 256, 256 + int(w.rules.MaxActionsPerTx), 257 + int(w.rules.MaxActionsPerTx), 512, 512 + int(w.rules.MaxActionsPerTx)}[r.Intn(6)]
						if r.Intn(3) != 0 {
							v.Expiry, v.WrongCID = base, false
						}
					}
					v.Actions = nil
					for j := 0; j < na; j++ {
						a := putAction(r, w)
						if !bigCount && r.Intn(5) == 0 {
							a.Start = []int64{-1, realTs - 1, realTs, realTs + 1}[r.Intn(4)]
							a.End = []int64{-1, realTs - 1, realTs, realTs + 1}[r.Intn(4)]
						}
						v.Actions = append(v.Actions, a)
					}
					if !bigCount && r.Intn(6) == 0 {
						v.AuthFrom = []int64{-1, realTs - 1, realTs, realTs + 1}[r.Intn(4)]
						v.AuthTo = []int64{-1, realTs - 1, realTs, realTs + 1}[r.Intn(4)]
						if v.AuthFrom == 0 && v.AuthTo == 0 {
							v.AuthFrom = -1
						}
					}
				case "c07":
					v.Actions = []*VerifAction{randAction(r, w, 10, 5)}
				}
				tx, err := w.makeTx(v)
				if err != nil {
					t.Fatal(err)
				}
				if mode == "c07" {
					// choose the maximum fee around the fee this block will charge
					units, err := tx.Units(w.bh, w.rules)
					if err != nil {
						t.Fatal(err)
					}
					var fee uint64
					for d := range units {
						fee += units[d] * prices[d]
					}
					cands := []uint64{0, 1, fee, fee + 1, 1 << 29}
					if fee > 0 {
						cands = append(cands, fee-1, fee/2)
					}
					v.MaxFee = cands[r.Intn(len(cands))]
					// MaxFee is part of the signed body: same size (fixed 8 bytes), so units are unchanged
					tx, err = w.makeTx(v)
					if err != nil {
						t.Fatal(err)
					}
				}
				txs = append(txs, tx)
				recs = append(recs, recOf(v, tx))
				acts = append(acts, v.Actions)
			}
			cfg := execCfg{Cores: 1 + r.Intn(4), Fetch: 1 + r.Intn(4), AuthW: r.Intn(3)}
			oc, err := w.runBlock(parentView, parentID, uint64(height), realTs, txs, cfg, nil, 0, acts, "", badRoot)
			if err != nil {
				rec.dump(t, fmt.Sprintf("sc%05d", s))
				t.Fatalf("scenario %d block %d: %v", s, b, err)
			}
			if nearLate > 0 && time.Since(t0).Milliseconds() > nearLate-150 {
				continue // the call took so long that the block may legitimately have come inside the bound: not judged
			}
			if oc.Err != "" {
				oc.Results, oc.Prices, oc.Consumed, oc.Post = []txResult{}, oc.Expected, []int64{0, 0, 0, 0, 0}, st
			}
			logTs := ts
			if tooLate {
				logTs = st.Timestamp + w.rules.MinEmptyBlockGap
				oc.Post.Timestamp = logTs
			}
			pd := clamp30(realTs - pBlockTs)
			if realTs > 1<<40 && !tooLate {
				// absolute timestamps next to the real genesis header (2023) do not fit TLC's integers: log them shifted
				// by a whole number of seconds, which preserves every comparison and the alignment test
				shift := realTs/1000*1000 - 2_000_000
				logTs = realTs - shift
				if oc.Err == "" {
					oc.Post.Timestamp = logTs
				}
				for i := range recs {
					recs[i].Expiry -= shift
					for j := range recs[i].Actions {
						if recs[i].Actions[j].Start >= 0 {
							recs[i].Actions[j].Start -= shift
						}
						if recs[i].Actions[j].End >= 0 {
							recs[i].Actions[j].End -= shift
						}
					}
				}
			}
			advance := oc.Err == "" && r.Intn(2) == 0 && realTs < 1<<40
			rec.add(blockLine{Ev: "block", Bid: b, Rep: 0, Advance: advance, Hdr: hdrRec{height, logTs, tooLate, rootOK, pd, pGenesis},
				Txs: recs, Prices: oc.Expected, Cfg: cfg, Out: oc})
			if advance {
				parentView, parentID, st, pGenesis, pBlockTs = oc.view, oc.blk.GetID(), oc.Post, false, realTs
			}
		}
		rec.dump(t, fmt.Sprintf("sc%05d", s))
	}
}

// TestVerifUnitsOverflow (C12, "arithmetic overflow rejected", per-key and per-chunk costs incl. chunk suffix 0): rule
// costs are multiples of 2^60, so the three storage dimensions are exact multiples of 2^60 and overflow uint64 exactly when the sum
// reaches 16 such units.  One "unitsrow" line per real Transaction.Units call, logged in units of 2^60.
func TestVerifUnitsOverflow(t *testing.T) {
	skipUnlessVerif(t)
	seed := int64(envInt("VERIF_SEED", 1))
	n := envInt("VERIF_ROWS", 300)
	r := rand.New(rand.NewSource(seed*77_003 + 5))
	rec := &recorder{}
	chunks := map[string]uint16{}
	for _, k := range execKeyNames {
		chunks[k] = 1
	}
	w := newWorld(execKeyNames, chunks, execAccounts)
	rec.add(resetLine{Ev: "reset", State: randState(r, w), Rules: w.ruleRec(), Note: "units overflow rows"})
	const unit = uint64(1) << 60
	for i := 0; i < n; i++ {
		scaled := []int64{int64(r.Intn(4)), int64(r.Intn(4)), int64(r.Intn(3))} // value read / allocate / write cost per chunk
		// per-key costs (also multiples of 2^60): every declared key pays them whatever its chunk suffix is, 0 included
		keycost := []int64{int64(r.Intn(2)), int64(r.Intn(2)), int64(r.Intn(2))}
		w.rules.StorageKeyReadUnits = uint64(keycost[0]) * unit
		w.rules.StorageKeyAllocateUnits = uint64(keycost[1]) * unit
		w.rules.StorageKeyWriteUnits = uint64(keycost[2]) * unit
		w.rules.StorageValueReadUnits = uint64(scaled[0]) * unit
		w.rules.StorageValueAllocateUnits = uint64(scaled[1]) * unit
		w.rules.StorageValueWriteUnits = uint64(scaled[2]) * unit
		nonceCounter++
		a := &VerifAction{Compute: 1, Start: -1, End: -1, Nonce: nonceCounter}
		total := int64(1) // the sponsor's balance key has one chunk
		chs := []int64{}
		for _, k := range w.keyNames {
			if r.Intn(3) == 0 {
				continue
			}
			c := uint16(r.Intn(4))
			a.Keys = append(a.Keys, vKey{Name: k, Perm: 7, Chunks: c})
			total += int64(c)
			chs = append(chs, int64(c))
		}
		tx, err := w.makeTx(vTx{Sponsor: "s1", MaxFee: 1, Expiry: 1000, Actions: []*VerifAction{a}})
		if err != nil {
			t.Fatal(err)
		}
		units, uerr := tx.Units(w.bh, w.rules)
		got := []int64{-1, -1, -1}
		if uerr == nil {
			for d := 0; d < 3; d++ {
				if units[2+d]%unit != 0 {
					t.Fatalf("harness: storage units not a multiple of 2^60: %d", units[2+d])
				}
				got[d] = int64(units[2+d] / unit)
			}
		}
		rec.add(map[string]any{"ev": "unitsrow", "chunks": append([]int64{1}, chs...), "cost": scaled, "keycost": keycost, "err": uerr != nil, "units": got})
	}
	rec.dump(t, "ov00000")
}
