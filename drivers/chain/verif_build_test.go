//go:build verif

package chain_test

import (
	"context"
	"fmt"
	"math/rand"
	"sync"
	"testing"
	"time"

	"github.com/ava-labs/avalanchego/database"
	"github.com/ava-labs/avalanchego/ids"
	"github.com/ava-labs/avalanchego/snow/engine/snowman/block"
	"github.com/ava-labs/avalanchego/trace"
	"github.com/ava-labs/avalanchego/utils/logging"
	"github.com/ava-labs/avalanchego/x/merkledb"
	"github.com/prometheus/client_golang/prometheus"

	"github.com/ava-labs/hypersdk/chain"
	"github.com/ava-labs/hypersdk/fees"
	"github.com/ava-labs/hypersdk/genesis"
	"github.com/ava-labs/hypersdk/internal/mempool"
	"github.com/ava-labs/hypersdk/internal/validitywindow"

	internalfees "github.com/ava-labs/hypersdk/internal/fees"
)

// reAddMempool re-delivers the transactions a build has just streamed out (as gossip may) before the builder asks for
// the next batch: the mempool must refuse them while the stream is open, otherwise the builder includes them twice.
type reAddMempool struct {
	*mempool.Mempool[*chain.Transaction]
	on  bool
	all []*chain.Transaction
}

// PrepareStream prefetches the next batch; gossip may re-deliver those very transactions before they are handed out
func (m *reAddMempool) PrepareStream(ctx context.Context, count int) {
	m.Mempool.PrepareStream(ctx, count)
	if m.on {
		m.Mempool.Add(ctx, m.all)
	}
}

func (m *reAddMempool) Stream(ctx context.Context, count int) []*chain.Transaction {
	out := m.Mempool.Stream(ctx, count)
	if m.on && len(out) > 0 {
		m.Mempool.Add(ctx, out)
	}
	return out
}

// flakyView fails ONE read of a chosen key with a transient (non-not-found) error: the builder must not treat it as
// "key absent" (its built block must still verify identically, or the build must fail)
type flakyView struct {
	merkledb.View
	mu   sync.Mutex
	key  string
	used bool
}

func (f *flakyView) GetValue(ctx context.Context, key []byte) ([]byte, error) {
	f.mu.Lock()
	hit := !f.used && f.key != "" && string(key) == f.key
	if hit {
		f.used = true
	}
	f.mu.Unlock()
	if hit {
		return nil, errInjectedRead
	}
	return f.View.GetValue(ctx, key)
}

// chain index over the blocks of one scenario, for the real TimeValidityWindow
type buildIndex struct {
	m map[ids.ID]*chain.ExecutionBlock
}

func (i *buildIndex) GetExecutionBlock(_ context.Context, id ids.ID) (validitywindow.ExecutionBlock[*chain.Transaction], error) {
	if b, ok := i.m[id]; ok {
		return b, nil
	}
	return nil, database.ErrNotFound
}

type admitRec struct {
	Ev  string `json:"ev"`
	Tx  txRec  `json:"tx"`
	Now int64  `json:"now"` // shifted wall clock (ms) just before the call; the call happened within the same second
	Res string `json:"res"`
	// the fee this transaction would be charged at the unit prices of the next block (computed by the driver from
	// the real Units and ComputeNext) and whether an ancestor within the window already contains it
	Fee    int64 `json:"fee"`
	Repeat bool  `json:"repeat"`
	Funds  int64 `json:"funds"`
}

type buildLine struct {
	Ev        string        `json:"ev"`
	Hdr       hdrRec        `json:"hdr"`
	Pool      []txRec       `json:"pool"`     // mempool content, in insertion order
	PoolNames []string      `json:"poolids"`  // stable ids of the pool entries (p0, p1, ...)
	Built     []string      `json:"built"`    // ids of the transactions in the built block, in block order
	Ancestors []string      `json:"ancestors"` // ids of transactions contained in ancestors within the validity window
	Prices    []int64       `json:"prices"`
	Cfg       execCfg       `json:"cfg"`
	BuildErr  string        `json:"builderr"`
	Bout      *blockOutcome `json:"bout"` // what BuildBlock returned
	Vout      *blockOutcome `json:"vout"` // what Processor.Execute (normal operation) returned for the built block
	SameRoot  bool          `json:"sameroot"`
	Txs       []txRec       `json:"txs"` // the built transactions (records), in block order
	Fault     bool          `json:"fault"` // one parent read failed transiently during this build
}

func outcomeOf(w *world, out *chain.OutputBlock) (*blockOutcome, error) {
	oc := &blockOutcome{Results: []txResult{}, Reads: []string{}}
	for _, res := range out.ExecutionResults.Results {
		tr := txResult{OK: res.Success, Units: dims(res.Units), Fee: int64(res.Fee), Outputs: [][]string{}}
		for _, o := range res.Outputs {
			var reads []string
			if err := jsonUnmarshal(o, &reads); err != nil {
				return nil, err
			}
			tr.Outputs = append(tr.Outputs, append([]string{"|"}, reads...))
		}
		oc.Results = append(oc.Results, tr)
	}
	oc.Prices = dims(out.ExecutionResults.UnitPrices)
	oc.Consumed = dims(out.ExecutionResults.UnitsConsumed)
	var err error
	oc.Post, err = w.project(out.View)
	return oc, err
}

// TestVerifChainBuild: real mempool + real Builder + real TimeValidityWindow; every built block is re-verified by a
// fresh Processor in normal operation on the same parent.  One "admit" line per PreExecutor.PreExecute call, one
// "build" line per BuildBlock call.
func TestVerifChainBuild(t *testing.T) {
	skipUnlessVerif(t)
	seed := int64(envInt("VERIF_SEED", 1))
	n := envInt("VERIF_SCENARIOS", 20)
	ctx := context.Background()
	for s := 0; s < n; s++ {
		if !onlyScenario(s) {
			continue
		}
		r := rand.New(rand.NewSource(seed*3_000_017 + int64(s)))
		chunks := map[string]uint16{}
		for _, k := range execKeyNames {
			chunks[k] = 1
		}
		w := newWorld(execKeyNames, chunks, execAccounts)
		w.rules.ValidityWindow = []int64{3000, 10000, 60000}[r.Intn(3)]
		w.rules.MinBlockGap = 0
		w.rules.MinEmptyBlockGap = 0
		if r.Intn(2) == 0 {
			// tight block: some transactions will not fit
			w.rules.MaxBlockUnits = fees.Dimensions{uint64(900 + r.Intn(1500)), uint64(10 + r.Intn(20)), uint64(40 + r.Intn(60)), uint64(150 + r.Intn(200)), uint64(80 + r.Intn(100))}
			w.rules.WindowTargetUnits = fees.Dimensions{1 << 40, 1 << 40, 1 << 40, 1 << 40, 1 << 40} // keep packing (no early stop)
			if r.Intn(2) == 0 {
				w.rules.WindowTargetUnits = fees.Dimensions{500, 5, 20, 60, 40} // stop at the first transaction that does not fit
			}
		}
		if s%8 == 3 {
			// big-pool scenario: everything must fit so that the builder really streams a second (prefetched) batch
			w.rules.MaxBlockUnits = fees.Dimensions{1 << 29, 1 << 29, 1 << 29, 1 << 29, 1 << 29}
			w.rules.WindowTargetUnits = fees.Dimensions{1 << 40, 1 << 40, 1 << 40, 1 << 40, 1 << 40}
		}
		gapSc := s%8 == 5
		if gapSc {
			// gap scenario: the parent is 1-3 s old, so a block with transactions may be built (100 ms gap) but an empty
			// one may not (60 s gap) - also when the mempool offered transactions and every one of them was dropped
			w.rules.MinBlockGap = 100
			w.rules.MinEmptyBlockGap = 60_000
		}
		prices := fees.Dimensions{1, 1, 1, 1, 1}
		if r.Intn(3) == 0 {
			prices = fees.Dimensions{uint64(r.Intn(3)), 1, uint64(r.Intn(3)), 1, uint64(r.Intn(2))}
			w.rules.MinUnitPrice = prices
		}
		now := time.Now().UnixMilli()
		shift := now/1000*1000 - 1_000_000 // logged time = real time - shift (a whole number of seconds)
		st := randState(r, w)
		st.Height = int64(r.Intn(3))
		st.Timestamp = now - int64(1000+r.Intn(2000))
		if r.Intn(4) == 0 {
			st.Bal[w.accounts[r.Intn(len(w.accounts))]] = int64(r.Intn(700))
		}
		logged := func(a absState) absState { a.Timestamp -= shift; return a }
		rec := &recorder{}
		rec.add(resetLine{Ev: "reset", State: logged(st), Rules: w.ruleRec(), Note: fmt.Sprintf("mode=build seed=%d scenario=%d", seed, s)})
		pv, err := w.parentView(st, prices)
		if err != nil {
			t.Fatal(err)
		}
		var parentView merkledb.View = pv
		root, _ := parentView.GetMerkleRoot(ctx)
		psb, err := chain.NewStatelessBlock(ids.GenerateTestID(), st.Timestamp, uint64(st.Height), nil, root, &block.Context{})
		if err != nil {
			t.Fatal(err)
		}
		parentBlk := chain.NewExecutionBlock(psb)
		idx := &buildIndex{m: map[ids.ID]*chain.ExecutionBlock{parentBlk.GetID(): parentBlk}}
		winF := func(int64) int64 { return w.rules.ValidityWindow }
		bwin, err := validitywindow.NewTimeValidityWindow[*chain.Transaction](ctx, &logging.NoLog{}, trace.Noop, idx, parentBlk, winF)
		if err != nil {
			t.Fatal(err)
		}
		vwin, err := validitywindow.NewTimeValidityWindow[*chain.Transaction](ctx, &logging.NoLog{}, trace.Noop, idx, parentBlk, winF)
		if err != nil {
			t.Fatal(err)
		}
		rf := &genesis.ImmutableRuleFactory{Rules: w.rules}
		pre := chain.NewPreExecutor(rf, bwin, w.mm, w.bh)
		included := map[ids.ID]int64{} // tx id -> timestamp of the block that included it
		nblocks := 2 + r.Intn(3)
		for b := 0; b < nblocks; b++ {
			mp := mempool.New[*chain.Transaction](trace.Noop, 1000, 1000)
			metrics, err := chain.NewMetrics(prometheus.NewRegistry())
			if err != nil {
				t.Fatal(err)
			}
			cfg := chain.NewDefaultConfig()
			cfg.TransactionExecutionCores = []int{1, 2, 4, 16}[r.Intn(4)]
			cfg.StateFetchConcurrency = 1 + r.Intn(4)
			cfg.TargetBuildDuration = time.Duration(20+r.Intn(80)) * time.Millisecond
			wrapped := &reAddMempool{Mempool: mp, on: r.Intn(3) == 0 || s%8 == 3}
			if s%8 == 3 {
				cfg.TargetBuildDuration = 2 * time.Second
			}
			builder := chain.NewBuilder(trace.Noop, rf, &logging.NoLog{}, w.mm, w.bh, wrapped, bwin, metrics, cfg)
			// mempool content
			var pool []vTx
			var poolTxs []*chain.Transaction
			ntx := r.Intn(9)
			bigPool := s%8 == 3 && b == 0
			if bigPool {
				ntx = 420 // more than one stream batch (256): the builder prefetches a second batch while executing the first
			}
			allDropped := gapSc && b%2 == 0
			if allDropped {
				ntx = 1 + r.Intn(4) // a non-empty mempool whose every transaction the builder has to drop
			}
			for i := 0; i < ntx; i++ {
				now = time.Now().UnixMilli()
				v := vTx{Sponsor: w.accounts[r.Intn(len(w.accounts))], MaxFee: 1 << 29,
					Expiry: (now/1000 + 2 + int64(r.Intn(int(w.rules.ValidityWindow/1000)-1))) * 1000}
				na := 1 + r.Intn(2)
				if bigPool {
					na = 1
				}
				for j := 0; j < na; j++ {
					v.Actions = append(v.Actions, randAction(r, w, 15, 10))
				}
				if bigPool {
					v.Actions[0].Keys, v.Actions[0].Ops = nil, nil // tiny transactions: all of them fit into one block
				}
				switch r.Intn(12) {
				case 0:
					v.Expiry = (now/1000 - 2) * 1000 // already expired
				case 1:
					v.Expiry = (now/1000 + w.rules.ValidityWindow/1000 + 3) * 1000 // too far in the future
				case 2:
					v.WrongCID = true
				case 3:
					v.MaxFee = uint64(r.Intn(600)) // possibly below the fee
				}
				if allDropped {
					v.WrongCID = true
				}
				if len(poolTxs) > 0 && r.Intn(6) == 0 {
					// the very same transaction again (mempool de-duplicates by id)
					j := r.Intn(len(poolTxs))
					pool, poolTxs = append(pool, pool[j]), append(poolTxs, poolTxs[j])
					continue
				}
				tx, err := w.makeTx(v)
				if err != nil {
					t.Fatal(err)
				}
				pool, poolTxs = append(pool, v), append(poolTxs, tx)
			}
			// sometimes offer transactions that an ancestor already included
			for id := range included {
				if r.Intn(3) == 0 {
					for k, ptx := range allTxs {
						if ptx.GetID() == id {
							pool, poolTxs = append(pool, allV[k]), append(poolTxs, ptx)
						}
					}
				}
			}
			poolRecs, poolNames := []txRec{}, []string{}
			nameOf := map[ids.ID]string{}
			for i, tx := range poolTxs {
				if _, ok := nameOf[tx.GetID()]; !ok {
					nameOf[tx.GetID()] = fmt.Sprintf("b%dp%d", b, i)
					if old, ok := txNames[tx.GetID()]; ok {
						nameOf[tx.GetID()] = old
					}
					txNames[tx.GetID()] = nameOf[tx.GetID()]
					allTxs, allV = append(allTxs, tx), append(allV, pool[i])
				}
				rr := recOf(pool[i], tx)
				rr.Expiry -= shift
				poolRecs = append(poolRecs, rr)
				poolNames = append(poolNames, nameOf[tx.GetID()])
			}
			// admission gate on every pool entry (the result does not decide whether it enters the pool: the builder
			// must cope with anything)
			nextPrices := prices
			if feeRaw, ferr := parentView.GetValue(ctx, chain.FeeKey(w.mm.FeePrefix())); ferr == nil {
				nextPrices = internalfees.NewManager(feeRaw).ComputeNext(time.Now().UnixMilli(), w.rules).UnitPrices()
			}
			for i, tx := range poolTxs {
				t0 := time.Now().UnixMilli()
				aerr := pre.PreExecute(ctx, parentBlk, parentView, tx)
				units, uerr := tx.Units(w.bh, w.rules)
				fee := int64(-1)
				if uerr == nil {
					fee = 0
					for d := range units {
						fee += int64(units[d] * nextPrices[d])
					}
				}
				ts0, rep := included[tx.GetID()]
				_ = ts0
				rec.add(admitRec{Ev: "admit", Tx: poolRecs[i], Now: t0 - shift, Res: errClass(aerr), Fee: fee, Repeat: rep, Funds: st.Bal[pool[i].Sponsor]})
			}
			mp.Add(ctx, poolTxs)
			wrapped.all = poolTxs
			// ancestors within the window of "now"
			anc := []string{}
			for id, its := range included {
				if its >= time.Now().UnixMilli()-w.rules.ValidityWindow-2000 {
					anc = append(anc, txNames[id])
				}
			}
			buildView := parentView
			faultKey := ""
			if r.Intn(5) == 0 && !bigPool && len(pool) > 0 {
				// a transient read failure on a key some pooled transaction declares (not a balance key)
				var cands []string
				for _, v := range pool {
					for _, a := range v.Actions {
						for _, k := range a.Keys {
							if k.Bal == "" {
								cands = append(cands, string(keyBytes(k.Name, k.Chunks)))
							}
						}
					}
				}
				if len(cands) > 0 {
					faultKey = cands[r.Intn(len(cands))]
					buildView = &flakyView{View: parentView, key: faultKey}
				}
			}
			parentOut := &chain.OutputBlock{ExecutionBlock: parentBlk, View: buildView}
			eb, out, berr := builder.BuildBlock(ctx, &block.Context{}, parentOut)
			line := buildLine{Ev: "build", Pool: poolRecs, PoolNames: poolNames, Built: []string{}, Ancestors: anc, Prices: dims(prices),
				Cfg: execCfg{Cores: cfg.TransactionExecutionCores, Fetch: cfg.StateFetchConcurrency}, BuildErr: errClassBuild(berr), Txs: []txRec{}, Fault: faultKey != "",
				Hdr: hdrRec{Height: st.Height + 1, Ts: st.Timestamp - shift, RootOK: true}}
			empty := &blockOutcome{Results: []txResult{}, Reads: []string{}, Prices: dims(prices), Consumed: []int64{0, 0, 0, 0, 0}, Post: logged(st)}
			line.Bout, line.Vout = empty, empty
			if berr != nil {
				rec.add(line)
				continue
			}
			line.Hdr = hdrRec{Height: int64(eb.Hght), Ts: eb.Tmstmp - shift, RootOK: true, PDelta: eb.Tmstmp - st.Timestamp}
			for _, tx := range eb.StatelessBlock.Txs {
				line.Built = append(line.Built, txNames[tx.GetID()])
				for k, ptx := range allTxs {
					if ptx.GetID() == tx.GetID() {
						rr := recOf(allV[k], ptx)
						rr.Expiry -= shift
						line.Txs = append(line.Txs, rr)
						break
					}
				}
			}
			bo, err := outcomeOf(w, out)
			if err != nil {
				t.Fatal(err)
			}
			bo.Post = logged(bo.Post)
			line.Bout = bo
			line.Prices = bo.Prices
			// re-verify on the same parent with a fresh processor in normal operation
			idx.m[eb.GetID()] = eb
			p, wk, err := w.processor(execCfg{Cores: []int{1, 3, 8}[r.Intn(3)], Fetch: 2, AuthW: r.Intn(3)}, vwin)
			if err != nil {
				t.Fatal(err)
			}
			vout, verr := p.Execute(ctx, parentView, eb, true)
			wk.Stop()
			vo := &blockOutcome{Err: errClass(verr), Results: []txResult{}, Reads: []string{}, Prices: dims(prices), Consumed: []int64{0, 0, 0, 0, 0}, Post: logged(st)}
			if verr == nil {
				vo, err = outcomeOf(w, vout)
				if err != nil {
					t.Fatal(err)
				}
				vo.Post = logged(vo.Post)
				r1, _ := out.View.GetMerkleRoot(ctx)
				r2, _ := vout.View.GetMerkleRoot(ctx)
				line.SameRoot = r1 == r2
			}
			line.Vout = vo
			rec.add(line)
			if verr != nil {
				break
			}
			// the chain advances: both windows accept the block
			bwin.Accept(eb)
			vwin.Accept(eb)
			for _, tx := range eb.StatelessBlock.Txs {
				included[tx.GetID()] = eb.Tmstmp
			}
			parentBlk, parentView = eb, out.View
			st, err = w.project(out.View)
			if err != nil {
				t.Fatal(err)
			}
			// C09 at the verification gate: a child that repeats a transaction of the block just accepted (still inside
			// the validity window) must be rejected in normal operation
			if len(eb.StatelessBlock.Txs) > 0 && r.Intn(2) == 0 {
				old := eb.StatelessBlock.Txs[r.Intn(len(eb.StatelessBlock.Txs))]
				fresh, ferr := w.makeTx(vTx{Sponsor: w.accounts[r.Intn(len(w.accounts))], MaxFee: 1 << 29,
					Expiry: (time.Now().UnixMilli()/1000 + 2) * 1000, Actions: []*VerifAction{putAction(r, w)}})
				if ferr != nil {
					t.Fatal(ferr)
				}
				txs := []*chain.Transaction{fresh, old}
				if r.Intn(2) == 0 {
					txs = []*chain.Transaction{old}
				}
				proot, _ := parentView.GetMerkleRoot(ctx)
				rsb, rerr := chain.NewStatelessBlock(eb.GetID(), eb.Tmstmp+w.rules.MinBlockGap+int64(1+r.Intn(20)), eb.Hght+1, txs, proot, &block.Context{})
				if rerr != nil {
					t.Fatal(rerr)
				}
				p2, wk2, perr := w.processor(execCfg{Cores: 2, Fetch: 2}, vwin)
				if perr != nil {
					t.Fatal(perr)
				}
				_, xerr := p2.Execute(ctx, parentView, chain.NewExecutionBlock(rsb), true)
				wk2.Stop()
				rec.add(map[string]any{"ev": "replay", "err": errClass(xerr), "repeated": txNames[old.GetID()], "expired": old.GetExpiry() < rsb.Tmstmp})
			}
			prices = out.ExecutionResults.UnitPrices
			time.Sleep(time.Duration(r.Intn(30)) * time.Millisecond)
		}
		rec.dump(t, fmt.Sprintf("bd%05d", s))
		allTxs, allV, txNames = nil, nil, map[ids.ID]string{}
	}
}

var (
	allTxs  []*chain.Transaction
	allV    []vTx
	txNames = map[ids.ID]string{}
)

func errClassBuild(err error) string {
	if err == nil {
		return ""
	}
	switch {
	case errorsIs(err, chain.ErrNoTxs):
		return "no-txs"
	case errorsIs(err, chain.ErrTimestampTooEarly):
		return "too-early"
	case errorsIs(err, errInjectedRead):
		return "read-error"
	}
	return "other:" + err.Error()
}
