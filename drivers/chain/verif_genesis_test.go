//go:build verif

// C27 recorder: calls the real chain.NewGenesisCommit with genesis.DefaultGenesis (directly and through
// DefaultGenesisFactory.Load of its JSON form) and state/balance's PrefixBalanceHandler on merkledb/memdb for
// seeded allocation lists and logs the allocation list, the error flag, EVERY key/value of the committed state,
// the decoded unit prices and root(state) vs the genesis block's StateRoot.  See spec/Genesis_Trace.tla
// (small and 2^61-scaled scenarios, validated by TLC) and spec/GenesisNum.tla (exact 64-bit rows, Apalache).
package chain_test

import (
	"context"
	"encoding/binary"
	"encoding/hex"
	"encoding/json"
	"fmt"
	"math"
	"math/rand"
	"strconv"
	"testing"

	"github.com/ava-labs/avalanchego/database/memdb"
	"github.com/ava-labs/avalanchego/ids"
	"github.com/ava-labs/avalanchego/trace"
	"github.com/ava-labs/avalanchego/utils/logging"
	"github.com/ava-labs/avalanchego/x/merkledb"

	"github.com/ava-labs/hypersdk/chain"
	"github.com/ava-labs/hypersdk/codec"
	"github.com/ava-labs/hypersdk/fees"
	"github.com/ava-labs/hypersdk/genesis"
	"github.com/ava-labs/hypersdk/state/balance"
	"github.com/ava-labs/hypersdk/state/metadata"

	internalfees "github.com/ava-labs/hypersdk/internal/fees"
)

type genAlloc struct {
	A string `json:"a"`
	B int64  `json:"b"`
}

type genKey struct {
	K string `json:"k"`
	V int64  `json:"v"`
}

type genOut struct {
	Err      bool     `json:"err"`
	ErrText  string   `json:"errtext"`
	Keys     []genKey `json:"keys"`
	Prices   []string `json:"prices"`
	RootEq   bool     `json:"rooteq"`
	DBRootEq bool     `json:"dbrooteq"`
}

type genLine struct {
	Ev      string     `json:"ev"`
	Sc      int        `json:"sc"`
	Scale   string     `json:"scale"`
	ViaJSON bool       `json:"viajson"`
	Allocs  []genAlloc `json:"allocs"`
	MinP    []string   `json:"minp"`
	Out     genOut     `json:"out"`
}

// one exact 64-bit row for Apalache (all numbers as decimal strings)
type genRow struct {
	Sc      int      `json:"sc"`
	ViaJSON bool     `json:"viajson"`
	N       int      `json:"n"`
	A       []int    `json:"a"` // address index 1..3 per slot, 0 = unused
	B       []string `json:"b"`
	Err     int      `json:"err"`
	S       []string `json:"s"` // stored balance of address 1..3, "-1" = no key
	NOther  int      `json:"nother"`
	NMeta   int      `json:"nmeta"`
	H       string   `json:"h"`
	TS      string   `json:"ts"`
	P       []string `json:"p"`
	M       []string `json:"m"`
	RootEq  int      `json:"rooteq"`
	ErrText string   `json:"errtext"`
}

type genRun struct {
	err      error
	kv       map[string][]byte // every key of the committed database
	rootEq   bool
	dbRootEq bool
}

var feeStateLen = len(internalfees.NewManager(nil).Bytes())

func runGenesis(allocs []*genesis.CustomAllocation, minp fees.Dimensions, viaJSON bool, prefix byte) (*genRun, *balance.PrefixBalanceHandler, error) {
	ctx := context.Background()
	g := genesis.NewDefaultGenesis(allocs)
	g.Rules.MinUnitPrice = minp
	g.Rules.NetworkID = 1
	g.Rules.ChainID = ids.ID{7, 7}
	var (
		gen chain.Genesis        = g
		rf  chain.RuleFactory    = &genesis.ImmutableRuleFactory{Rules: g.Rules}
		bf  merkledb.BranchFactor = g.GetStateBranchFactor()
	)
	if viaJSON {
		raw, err := json.Marshal(g)
		if err != nil {
			return nil, nil, err
		}
		lg, lrf, err := genesis.DefaultGenesisFactory{}.Load(raw, nil, 1, ids.ID{7, 7})
		if err != nil {
			return nil, nil, fmt.Errorf("load of marshalled genesis: %w", err)
		}
		gen, rf, bf = lg, lrf, lg.GetStateBranchFactor()
	}
	db, err := merkledb.New(ctx, memdb.New(), merkledb.Config{BranchFactor: bf, Tracer: trace.Noop})
	if err != nil {
		return nil, nil, err
	}
	bh := balance.NewPrefixBalanceHandler([]byte{prefix})
	blk, view, gerr := chain.NewGenesisCommit(ctx, db, gen, metadata.NewDefaultManager(), bh, rf, trace.Noop, &logging.NoLog{})
	out := &genRun{err: gerr, kv: map[string][]byte{}}
	if gerr != nil {
		return out, bh, nil
	}
	root, err := view.GetMerkleRoot(ctx)
	if err != nil {
		return nil, nil, err
	}
	out.rootEq = root == blk.GetStateRoot()
	if err := view.CommitToDB(ctx); err != nil {
		return nil, nil, err
	}
	dbRoot, err := db.GetMerkleRoot(ctx)
	if err != nil {
		return nil, nil, err
	}
	out.dbRootEq = dbRoot == blk.GetStateRoot()
	it := db.NewIterator()
	defer it.Release()
	for it.Next() {
		out.kv[string(it.Key())] = append([]byte{}, it.Value()...)
	}
	if err := it.Error(); err != nil {
		return nil, nil, err
	}
	return out, bh, nil
}

func u64s(v uint64) string { return strconv.FormatUint(v, 10) }

func decodePrices(raw []byte) []string {
	out := make([]string, fees.FeeDimensions)
	if len(raw) != feeStateLen {
		for i := range out {
			out[i] = "malformed"
		}
		return out
	}
	fm := internalfees.NewManager(raw)
	for i := fees.Dimension(0); i < fees.FeeDimensions; i++ {
		out[i] = u64s(fm.UnitPrice(i))
	}
	return out
}

func pickPrice(r *rand.Rand) uint64 {
	switch r.Intn(6) {
	case 0:
		return 0
	case 1:
		return 1
	case 2:
		return 100
	case 3:
		return math.MaxUint64
	case 4:
		return r.Uint64()
	default:
		return uint64(r.Intn(1000))
	}
}

func TestVerifGenesis(t *testing.T) {
	skipUnlessVerif(t)
	n := envInt("VERIF_SCENARIOS", 120)
	seed := int64(envInt("VERIF_SEED", 1))
	mm := metadata.NewDefaultManager()
	metaNames := map[string]string{
		string(chain.HeightKey(mm.HeightPrefix())):       "meta:height",
		string(chain.TimestampKey(mm.TimestampPrefix())): "meta:timestamp",
		string(chain.FeeKey(mm.FeePrefix())):             "meta:fee",
	}
	rows := &recorder{}
	for s := 0; s < n; s++ {
		if !onlyScenario(s) {
			continue
		}
		r := rand.New(rand.NewSource(seed*1_000_003 + int64(s)))
		// address pool of the scenario
		names := []string{"a1", "a2", "a3", "a4"}
		addrs := make([]codec.Address, len(names))
		for i := range addrs {
			r.Read(addrs[i][:])
			addrs[i][0] = byte(r.Intn(4))
		}
		var minp fees.Dimensions
		for i := range minp {
			minp[i] = pickPrice(r)
		}
		minps := make([]string, len(minp))
		for i, p := range minp {
			minps[i] = u64s(p)
		}
		viaJSON := r.Intn(2) == 0
		prefix := []byte{0, metadata.DefaultMinimumPrefix, 9}[r.Intn(3)]
		kind := s % 4 // 0,1: small, 2: multiples of 2^61, 3: exact 64-bit row
		switch kind {
		case 0, 1, 2:
			scale, maxu, unit := "1", int64(math.MaxInt32), uint64(1)
			if kind == 2 {
				scale, maxu, unit = "2^61", 7, uint64(1)<<61
			}
			cnt := r.Intn(7)
			if s%8 == 0 {
				cnt = 0
			}
			npool := 1 + r.Intn(4)
			allocs := []*genesis.CustomAllocation{}
			recs := []genAlloc{}
			for i := 0; i < cnt; i++ {
				ai := r.Intn(npool)
				var b int64
				if kind == 2 {
					b = []int64{0, 1, 1, 2, 2, 3, 4, 5, 7}[r.Intn(9)]
				} else {
					b = []int64{0, 0, 1, 2, 3, 5, 7, 100, 1_000_000}[r.Intn(9)]
				}
				allocs = append(allocs, &genesis.CustomAllocation{Address: addrs[ai], Balance: uint64(b) * unit})
				recs = append(recs, genAlloc{names[ai], b})
			}
			run, bh, err := runGenesis(allocs, minp, viaJSON, prefix)
			if err != nil {
				t.Fatalf("scenario %d: %v", s, err)
			}
			out := genOut{Err: run.err != nil, Keys: []genKey{}, Prices: []string{"none"}}
			if run.err != nil {
				out.ErrText = run.err.Error()
			}
			out.RootEq, out.DBRootEq = run.rootEq, run.dbRootEq
			balNames := map[string]string{}
			for i, a := range addrs {
				balNames[string(bh.BalanceKey(a))] = "bal:" + names[i]
			}
			for k, v := range run.kv {
				if nm, ok := metaNames[k]; ok {
					switch {
					case nm == "meta:fee":
						out.Prices = decodePrices(v)
						out.Keys = append(out.Keys, genKey{nm, -1})
					case len(v) != 8:
						out.Keys = append(out.Keys, genKey{nm, -2})
					default:
						x := binary.BigEndian.Uint64(v)
						if x > 1<<30 {
							x = 1 << 30
						}
						out.Keys = append(out.Keys, genKey{nm, int64(x)})
					}
					continue
				}
				if nm, ok := balNames[k]; ok {
					switch {
					case len(v) != 8:
						out.Keys = append(out.Keys, genKey{nm, -2})
					case binary.BigEndian.Uint64(v)%unit != 0:
						out.Keys = append(out.Keys, genKey{nm, -3})
					case binary.BigEndian.Uint64(v)/unit > math.MaxInt32:
						out.Keys = append(out.Keys, genKey{nm, -4})
					default:
						out.Keys = append(out.Keys, genKey{nm, int64(binary.BigEndian.Uint64(v) / unit)})
					}
					continue
				}
				out.Keys = append(out.Keys, genKey{"other:" + hex.EncodeToString([]byte(k)), -1})
			}
			rec := &recorder{}
			rec.add(map[string]any{"ev": "reset", "maxu": maxu, "scale": scale, "sc": s})
			rec.add(genLine{Ev: "genesis", Sc: s, Scale: scale, ViaJSON: viaJSON, Allocs: recs, MinP: minps, Out: out})
			rec.dump(t, fmt.Sprintf("sc%05d", s))
		case 3:
			cnt := 1 + r.Intn(4)
			a := make([]int, 4)
			b := make([]uint64, 4)
			for i := 0; i < cnt; i++ {
				a[i] = 1 + r.Intn(3)
				switch r.Intn(7) {
				case 0:
					b[i] = 0
				case 1:
					b[i] = 1
				case 2:
					b[i] = math.MaxUint64
				case 3:
					b[i] = 1 << 63
				case 4:
					b[i] = math.MaxUint64 - uint64(r.Intn(3))
				default:
					b[i] = r.Uint64()
				}
			}
			// steer the last allocation so that the total lands on / next to the word boundary
			if cnt >= 2 && r.Intn(3) != 0 {
				var pre uint64
				fits := true
				for i := 0; i < cnt-1; i++ {
					if pre+b[i] < pre {
						fits = false
					}
					pre += b[i]
				}
				if fits {
					rest := math.MaxUint64 - pre // total == MaxUint64 with exactly rest
					switch d := r.Intn(3); {
					case d == 0:
						b[cnt-1] = rest
					case d == 1 && rest < math.MaxUint64:
						b[cnt-1] = rest + 1
					case rest > 0:
						b[cnt-1] = rest - 1
					}
				}
			}
			allocs := []*genesis.CustomAllocation{}
			for i := 0; i < cnt; i++ {
				allocs = append(allocs, &genesis.CustomAllocation{Address: addrs[a[i]-1], Balance: b[i]})
			}
			run, bh, err := runGenesis(allocs, minp, viaJSON, prefix)
			if err != nil {
				t.Fatalf("scenario %d: %v", s, err)
			}
			row := genRow{Sc: s, ViaJSON: viaJSON, N: cnt, A: a, B: make([]string, 4), S: []string{"-1", "-1", "-1"},
				H: "-1", TS: "-1", P: []string{"-1", "-1", "-1", "-1", "-1"}, M: minps}
			for i := range b {
				row.B[i] = u64s(b[i])
			}
			if run.err != nil {
				row.Err, row.ErrText = 1, run.err.Error()
			}
			if run.rootEq && run.dbRootEq {
				row.RootEq = 1
			}
			for k, v := range run.kv {
				if nm, ok := metaNames[k]; ok {
					row.NMeta++
					switch {
					case nm == "meta:fee":
						row.P = decodePrices(v)
						for i, p := range row.P {
							if p == "malformed" {
								row.P[i] = "-2"
							}
						}
					case len(v) != 8:
					case nm == "meta:height":
						row.H = u64s(binary.BigEndian.Uint64(v))
					default:
						row.TS = u64s(binary.BigEndian.Uint64(v))
					}
					continue
				}
				found := false
				for i := 0; i < 3; i++ {
					if k == string(bh.BalanceKey(addrs[i])) {
						found = true
						if len(v) == 8 {
							row.S[i] = u64s(binary.BigEndian.Uint64(v))
						} else {
							row.S[i] = "-2"
						}
					}
				}
				if !found {
					row.NOther++
				}
			}
			rows.add(row)
		}
	}
	rows.dump(t, "rows")
}
