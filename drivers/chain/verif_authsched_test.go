//go:build verif

// C16 recorder, schedule-dependent families (same trace format as verif_authbatch_test.go):
//
//	TestVerifAuthBatchLarge      blocks with more ed25519 signatures than the batch worker's item backlog (16384); a gating
//	                             chain.AuthEngines decorator parks the batch worker on its first item so that the producer
//	                             (Processor.verifySignatures' Add loop) runs into the full backlog; counts are chosen so that
//	                             1 + 16384 delivered items end exactly on a batch boundary (16385 = 5 x 3277, 5 workers).
//	TestVerifAuthBatchConcurrent two blocks (one with an invalid first signature, one valid) executed concurrently by ONE
//	                             Processor sharing one parallel workers pool; the second block's job is created while the first
//	                             block's job has already recorded its failure and is still in flight.
//
// Delays are used only to steer the schedule; the oracle is the verdict of every block.
package chain_test

import (
	"context"
	"fmt"
	"math/rand"
	"sync"
	"sync/atomic"
	"testing"
	"time"

	"github.com/ava-labs/avalanchego/ids"
	"github.com/ava-labs/avalanchego/snow/engine/snowman/block"
	"github.com/ava-labs/avalanchego/trace"
	"github.com/ava-labs/avalanchego/utils/logging"
	"github.com/ava-labs/avalanchego/x/merkledb"
	"github.com/prometheus/client_golang/prometheus"

	"github.com/ava-labs/hypersdk/auth"
	"github.com/ava-labs/hypersdk/chain"
	"github.com/ava-labs/hypersdk/fees"
	"github.com/ava-labs/hypersdk/genesis"
	"github.com/ava-labs/hypersdk/internal/validitywindow/validitywindowtest"
	"github.com/ava-labs/hypersdk/internal/workers"
)

// gateEngines parks the first Add of every batch verifier it hands out until the gate is opened.
type gateEngines struct {
	inner  chain.AuthEngines
	parked chan struct{}
	gate   chan struct{}
	once   sync.Once
	adds   int64
	made   chan struct{} // closed when an ed25519 batch verifier was requested (i.e. the job of that block exists)
	mOnce  sync.Once
}

func newGateEngines(inner chain.AuthEngines) *gateEngines {
	return &gateEngines{inner: inner, parked: make(chan struct{}), gate: make(chan struct{}), made: make(chan struct{})}
}

func (e *gateEngines) GetAuthBatchVerifier(id uint8, cores int, count int) (chain.AuthBatchVerifier, bool) {
	if id == auth.ED25519ID {
		e.mOnce.Do(func() { close(e.made) })
	}
	bv, ok := e.inner.GetAuthBatchVerifier(id, cores, count)
	if !ok {
		return nil, false
	}
	return &gateBatch{inner: bv, e: e}, true
}

type gateBatch struct {
	inner chain.AuthBatchVerifier
	e     *gateEngines
}

func (b *gateBatch) Add(digest []byte, a chain.Auth) func() error {
	if atomic.AddInt64(&b.e.adds, 1) == 1 {
		b.e.once.Do(func() { close(b.e.parked) })
		<-b.e.gate
	}
	return b.inner.Add(digest, a)
}

func (b *gateBatch) Done() []func() error { return b.inner.Done() }

func (w *world) sigProcessor(wk workers.Workers, engines chain.AuthEngines) (*chain.Processor, error) {
	metrics, err := chain.NewMetrics(prometheus.NewRegistry())
	if err != nil {
		return nil, err
	}
	c := chain.NewDefaultConfig()
	c.TransactionExecutionCores = 4
	c.StateFetchConcurrency = 4
	return chain.NewProcessor(trace.Noop, &logging.NoLog{}, &genesis.ImmutableRuleFactory{Rules: w.rules}, wk, engines, w.mm, w.bh,
		&validitywindowtest.MockTimeValidityWindow[*chain.Transaction]{}, metrics, c), nil
}

func sigBlock(parent merkledb.View, ts int64, txs []*chain.Transaction) (*chain.ExecutionBlock, error) {
	root, err := parent.GetMerkleRoot(context.Background())
	if err != nil {
		return nil, err
	}
	sb, err := chain.NewStatelessBlock(ids.Empty, ts, 1, txs, root, &block.Context{})
	if err != nil {
		return nil, err
	}
	return chain.NewExecutionBlock(sb), nil
}

type sigSigned struct {
	tx     *chain.Transaction
	kind   string
	signer string
	how    string
	valid  bool
}

// signOne builds one transaction signed by k (how = valid | wrongmsg) and its one-by-one reference verdict.
func signOne(t *testing.T, w *world, k sigKey, exp int64, nonce uint64, how string) sigSigned {
	acts := []chain.Action{&VerifAction{Compute: 1, Start: -1, End: -1, Nonce: nonce}}
	base := chain.Base{Timestamp: exp, ChainID: w.chainID, MaxFee: 1 << 29}
	td := chain.NewTxData(base, acts)
	msg := td.UnsignedBytes()
	if how == "wrongmsg" {
		msg = append(append([]byte{}, msg...), 1)
	}
	a, err := k.factory.Sign(msg)
	if err != nil {
		t.Fatal(err)
	}
	tx, err := chain.NewTransaction(base, acts, a)
	if err != nil {
		t.Fatal(err)
	}
	return sigSigned{tx: tx, kind: k.kind, signer: k.name, how: how,
		valid: tx.Auth.Verify(context.Background(), tx.UnsignedBytes()) == nil}
}

func sigLineOf(sc, rep int, txs []sigSigned, cfg sigCfg, out sigOut) sigLine {
	l := sigLine{Ev: "block", Sc: sc, Rep: rep, Cfg: cfg, Out: out, Created: [][]int{}, Ran: [][]int{},
		Kinds: make([]string, len(txs)), Signers: make([]string, len(txs)), How: make([]string, len(txs)),
		Intended: make([]bool, len(txs)), Valid: make([]bool, len(txs))}
	for i, s := range txs {
		l.Kinds[i], l.Signers[i], l.How[i], l.Intended[i], l.Valid[i] = s.kind, s.signer, s.how, s.how == "valid", s.valid
	}
	return l
}

func execWithWatchdog(p *chain.Processor, parent merkledb.View, eb *chain.ExecutionBlock, d time.Duration) (sigOut, error) {
	ch := make(chan error, 1)
	go func() {
		_, e := p.Execute(context.Background(), parent, eb, false)
		ch <- e
	}()
	select {
	case e := <-ch:
		if e != nil {
			return sigOut{Err: sigErrClass(e), ErrText: e.Error()}, nil
		}
		return sigOut{}, nil
	case <-time.After(d):
		return sigOut{}, fmt.Errorf("HANG: Processor.Execute did not return within %s (%d txs)", d, len(eb.StatelessBlock.Txs))
	}
}

func txsOf(s []sigSigned) []*chain.Transaction {
	out := make([]*chain.Transaction, len(s))
	for i := range s {
		out[i] = s[i].tx
	}
	return out
}

func sigWorld(t *testing.T, keys []sigKey) (*world, absState) {
	names := make([]string, len(keys))
	for i, k := range keys {
		names[i] = k.name
	}
	w := newWorld([]string{"a"}, map[string]uint16{"a": 1}, names)
	for _, k := range keys {
		w.addr[k.name] = k.factory.Address()
	}
	w.rules.MaxBlockUnits = fees.Dimensions{1 << 40, 1 << 40, 1 << 40, 1 << 40, 1 << 40}
	st := absState{KV: map[string]string{"a": "none"}, Bal: map[string]int64{}}
	for _, k := range keys {
		st.Bal[k.name] = 1 << 40
	}
	return w, st
}

// ---------------------------------------------------------------- (a) blocks larger than the batch worker's backlog

const sigBacklog = 16_384 // chain.authWorkerBacklog

func TestVerifAuthBatchLarge(t *testing.T) {
	skipUnlessVerif(t)
	n := envInt("VERIF_LARGE", 1)
	if n <= 0 {
		return
	}
	seed := int64(envInt("VERIF_SEED", 1))
	r := rand.New(rand.NewSource(seed*77_003 + 5))
	keys := makeSigKeys(t, 8, 0, 0)
	w, st := sigWorld(t, keys)
	ts := w.rules.MinEmptyBlockGap
	exp := alignUp(ts) + 1000
	pool := sigBacklog + 3
	if n > 1 {
		pool = sigBacklog + 40
	}
	signed := make([]sigSigned, pool)
	var wg sync.WaitGroup
	for g := 0; g < 8; g++ { // signatures are generated once (in parallel) and reused by every shape
		wg.Add(1)
		go func(g int) {
			defer wg.Done()
			for i := g; i < pool; i += 8 {
				signed[i] = signOne(t, w, keys[i%len(keys)], exp, uint64(1_000_000+i), "valid")
			}
		}(g)
	}
	wg.Wait()
	// 1 (held by the parked batch worker) + 16384 (full backlog) = 16385 = 5 x 3277: with 5 workers and 16386..16389
	// signatures the batch size is 3277 and the delivered prefix ends exactly on a batch boundary while being < count
	type shape struct {
		count, workers, bad int // bad: position of an invalid signature (-1 none)
	}
	shapes := []shape{{sigBacklog + 3, 5, -1}}
	more := []shape{{sigBacklog + 2, 5, -1}, {sigBacklog + 5, 5, sigBacklog + 4}, {sigBacklog + 3, 5, 0}, {sigBacklog + 4, 5, -1},
		{sigBacklog + 16, 4, -1}, {sigBacklog + 1, 16, -1}, {sigBacklog + 30, 1, sigBacklog + 2}, {sigBacklog, 5, -1}, {sigBacklog + 3, 5, 3277}}
	for len(shapes) < n && len(more) > 0 {
		shapes = append(shapes, more[0])
		more = more[1:]
	}
	for s, sh := range shapes {
		if !onlyScenario(s) {
			continue
		}
		txs := append([]sigSigned{}, signed[:sh.count]...)
		if sh.bad >= 0 {
			txs[sh.bad] = signOne(t, w, keys[r.Intn(len(keys))], exp, uint64(2_000_000+s), "wrongmsg")
		}
		rec := &recorder{}
		rec.add(map[string]any{"ev": "reset", "sc": s, "family": "large"})
		cfgs := []sigCfg{{Workers: 0, Batch: false}, {Workers: sh.workers, Batch: true, Gated: true}}
		for rep, cfg := range cfgs {
			if rep == 0 && envInt("VERIF_LARGE_REF", 1) == 0 {
				continue // quick tier: the serial one-by-one execution of the 16k block is skipped (valid[] is still the oracle)
			}
			parent, err := w.parentView(st, fees.Dimensions{1, 1, 1, 1, 1})
			if err != nil {
				t.Fatal(err)
			}
			eb, err := sigBlock(parent, ts, txsOf(txs))
			if err != nil {
				t.Fatal(err)
			}
			var wk workers.Workers = workers.NewSerial()
			var engines chain.AuthEngines = auth.Engines{}
			var ge *gateEngines
			if cfg.Workers > 0 {
				wk = workers.NewParallel(cfg.Workers, 4)
				ge = newGateEngines(auth.DefaultEngines())
				engines = ge
			}
			p, err := w.sigProcessor(wk, engines)
			if err != nil {
				t.Fatal(err)
			}
			if ge != nil {
				go func() {
					select {
					case <-ge.parked: // the batch worker holds item 1: give the producer time to fill the backlog behind it
						time.Sleep(time.Duration(envInt("VERIF_PARK_MS", 600)) * time.Millisecond)
					case <-time.After(20 * time.Second):
					}
					close(ge.gate)
				}()
			}
			out, err := execWithWatchdog(p, parent, eb, 180*time.Second)
			wk.Stop()
			if err != nil {
				rec.dump(t, fmt.Sprintf("lg%05d", s))
				t.Fatalf("large scenario %d rep %d: %v", s, rep, err)
			}
			l := sigLineOf(s, rep, txs, cfg, out)
			if ge != nil {
				l.Delivered = int(atomic.LoadInt64(&ge.adds))
			}
			rec.add(l)
		}
		rec.dump(t, fmt.Sprintf("lg%05d", s))
	}
}

// ---------------------------------------------------------------- (b) two blocks at once on one shared pool

// orderAuth steers when a one-by-one Verify returns: it announces that it was entered, optionally waits for a
// channel before returning the real result, and announces that it returned.
type orderAuth struct {
	chain.Auth
	entered  chan struct{}
	waitFor  chan struct{}
	returned chan struct{}
}

func (a *orderAuth) Verify(ctx context.Context, msg []byte) error {
	if a.entered != nil {
		close(a.entered)
	}
	if a.waitFor != nil {
		select {
		case <-a.waitFor:
		case <-time.After(20 * time.Second):
		}
	}
	err := a.Auth.Verify(ctx, msg)
	if a.returned != nil {
		close(a.returned)
	}
	return err
}

func rewrap(t *testing.T, s sigSigned, a chain.Auth) *chain.Transaction {
	tx, err := chain.NewTransaction(s.tx.Base, s.tx.Actions, a)
	if err != nil {
		t.Fatal(err)
	}
	if tx.GetID() != s.tx.GetID() {
		t.Fatal("rewrapped transaction differs")
	}
	return tx
}

func TestVerifAuthBatchConcurrent(t *testing.T) {
	skipUnlessVerif(t)
	n := envInt("VERIF_CONCURRENT", 6)
	seed := int64(envInt("VERIF_SEED", 1))
	keys := makeSigKeys(t, 4, 3, 2)
	var secp, ed, unbatched []sigKey
	for _, k := range keys {
		switch k.kind {
		case "secp256r1":
			secp = append(secp, k)
			unbatched = append(unbatched, k)
		case "ed25519":
			ed = append(ed, k)
		default:
			unbatched = append(unbatched, k)
		}
	}
	w, st := sigWorld(t, keys)
	ts := w.rules.MinEmptyBlockGap
	exp := alignUp(ts) + 1000
	nonce := uint64(5_000_000)
	for s := 0; s < n; s++ {
		if !onlyScenario(s) {
			continue
		}
		r := rand.New(rand.NewSource(seed*31_000_003 + int64(s)))
		next := func(k sigKey, how string) sigSigned { nonce++; return signOne(t, w, k, exp, nonce, how) }
		// block A: [0] one-by-one kind, INVALID; [1] one-by-one kind, valid, held open; then more one-by-one kinds (no
		// ed25519, so that the first request for an ed25519 batch verifier is block B's)
		a := []sigSigned{next(secp[r.Intn(len(secp))], "wrongmsg"), next(secp[r.Intn(len(secp))], "valid")}
		for i, m := 0, r.Intn(12); i < m; i++ {
			a = append(a, next(unbatched[r.Intn(len(unbatched))], "valid"))
		}
		// block B: all valid, contains ed25519 (so that its job creation is observable through GetAuthBatchVerifier)
		b := []sigSigned{next(ed[r.Intn(len(ed))], "valid")}
		for i, m := 0, 1+r.Intn(12); i < m; i++ {
			b = append(b, next(keys[r.Intn(len(keys))], "valid"))
		}
		nworkers := []int{2, 2, 3, 4, 8, 16}[r.Intn(6)]
		rec := &recorder{}
		parentOf := func() merkledb.View {
			p, err := w.parentView(st, fees.Dimensions{1, 1, 1, 1, 1})
			if err != nil {
				t.Fatal(err)
			}
			return p
		}
		// ---- reference: each block alone, serial, one by one
		ref := map[string]sigOut{}
		for name, blk := range map[string][]sigSigned{"A": a, "B": b} {
			parent := parentOf()
			eb, err := sigBlock(parent, ts, txsOf(blk))
			if err != nil {
				t.Fatal(err)
			}
			p, err := w.sigProcessor(workers.NewSerial(), auth.Engines{})
			if err != nil {
				t.Fatal(err)
			}
			out, err := execWithWatchdog(p, parent, eb, 60*time.Second)
			if err != nil {
				t.Fatalf("concurrent scenario %d reference %s: %v", s, name, err)
			}
			ref[name] = out
		}
		// ---- both blocks at once: one Processor, one pool
		t1entered, t0returned, release := make(chan struct{}), make(chan struct{}), make(chan struct{})
		atx := txsOf(a)
		atx[0] = rewrap(t, a[0], &orderAuth{Auth: a[0].tx.Auth, waitFor: t1entered, returned: t0returned})
		atx[1] = rewrap(t, a[1], &orderAuth{Auth: a[1].tx.Auth, entered: t1entered, waitFor: release})
		wk := workers.NewParallel(nworkers, 4)
		ge := newGateEngines(auth.DefaultEngines())
		close(ge.gate) // only the "made" signal is used here
		p, err := w.sigProcessor(wk, ge)
		if err != nil {
			t.Fatal(err)
		}
		parent := parentOf()
		ebA, err := sigBlock(parent, ts, atx)
		if err != nil {
			t.Fatal(err)
		}
		ebB, err := sigBlock(parent, ts, txsOf(b))
		if err != nil {
			t.Fatal(err)
		}
		type res struct {
			out sigOut
			err error
		}
		chA, chB := make(chan res, 1), make(chan res, 1)
		go func() { o, e := execWithWatchdog(p, parent, ebA, 90*time.Second); chA <- res{o, e} }()
		// A's first signature has failed (and the pool has recorded it a moment later) while A's second one is still running
		select {
		case <-t0returned:
			time.Sleep(20 * time.Millisecond)
		case <-time.After(20 * time.Second):
		}
		go func() { o, e := execWithWatchdog(p, parent, ebB, 90*time.Second); chB <- res{o, e} }()
		// B's job exists once B's verifySignatures asks for its ed25519 batch verifier (right after NewJob)
		select {
		case <-ge.made:
			time.Sleep(5 * time.Millisecond)
		case <-time.After(20 * time.Second):
		}
		close(release)
		ra, rb := <-chA, <-chB
		wk.Stop()
		if ra.err != nil || rb.err != nil {
			t.Fatalf("concurrent scenario %d: %v %v", s, ra.err, rb.err)
		}
		cfg := sigCfg{Workers: nworkers, Batch: true, Concurrent: true}
		rec.add(map[string]any{"ev": "reset", "sc": s, "family": "concurrent", "block": "A"})
		rec.add(sigLineOf(s, 0, a, sigCfg{}, ref["A"]))
		rec.add(sigLineOf(s, 1, a, cfg, ra.out))
		rec.add(map[string]any{"ev": "reset", "sc": s, "family": "concurrent", "block": "B"})
		rec.add(sigLineOf(s, 0, b, sigCfg{}, ref["B"]))
		rec.add(sigLineOf(s, 1, b, cfg, rb.out))
		rec.dump(t, fmt.Sprintf("cc%05d", s))
	}
}
