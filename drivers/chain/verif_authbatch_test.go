//go:build verif

// C16 recorder: blocks of really signed transactions (ed25519 / secp256r1 / BLS factories of the auth package)
// with invalid signatures at seeded positions are executed by the real chain.Processor under 1..16 auth
// verification workers, with and without the ed25519 batch engine; one trace line per Execute call.
// See spec/AuthBatch.tla (design) and spec/AuthBatch_Trace.tla (binding).
package chain_test

import (
	"context"
	"errors"
	"fmt"
	"math/rand"
	"sort"
	"sync"
	"testing"
	"time"

	"github.com/ava-labs/avalanchego/ids"
	"github.com/ava-labs/avalanchego/snow/engine/snowman/block"
	"github.com/ava-labs/avalanchego/trace"
	"github.com/ava-labs/avalanchego/utils/logging"
	"github.com/ava-labs/avalanchego/x/merkledb"
	"github.com/prometheus/client_golang/prometheus"

	"github.com/ava-labs/hypersdk/auth"
	"github.com/ava-labs/hypersdk/chain"
	"github.com/ava-labs/hypersdk/crypto"
	"github.com/ava-labs/hypersdk/crypto/bls"
	"github.com/ava-labs/hypersdk/crypto/ed25519"
	"github.com/ava-labs/hypersdk/crypto/secp256r1"
	"github.com/ava-labs/hypersdk/fees"
	"github.com/ava-labs/hypersdk/genesis"
	"github.com/ava-labs/hypersdk/internal/validitywindow/validitywindowtest"
	"github.com/ava-labs/hypersdk/internal/workers"
)

type sigKey struct {
	kind    string
	name    string
	factory chain.AuthFactory
}

func makeSigKeys(t *testing.T, ned, nsecp, nbls int) []sigKey {
	var out []sigKey
	for i := 0; i < ned; i++ {
		p, err := ed25519.GeneratePrivateKey()
		if err != nil {
			t.Fatal(err)
		}
		out = append(out, sigKey{"ed25519", fmt.Sprintf("e%d", i), auth.NewED25519Factory(p)})
	}
	for i := 0; i < nsecp; i++ {
		p, err := secp256r1.GeneratePrivateKey()
		if err != nil {
			t.Fatal(err)
		}
		out = append(out, sigKey{"secp256r1", fmt.Sprintf("p%d", i), auth.NewSECP256R1Factory(p)})
	}
	for i := 0; i < nbls; i++ {
		p, err := bls.GeneratePrivateKey()
		if err != nil {
			t.Fatal(err)
		}
		out = append(out, sigKey{"bls", fmt.Sprintf("b%d", i), auth.NewBLSFactory(p)})
	}
	return out
}

// ---- optional evidence: which signatures were verified by tasks that actually ran

type sigRecorder struct {
	mu      sync.Mutex
	posOf   map[chain.Auth]int
	created [][]int
	ran     [][]int
}

func (s *sigRecorder) note(list *[][]int, members []int) {
	s.mu.Lock()
	*list = append(*list, append([]int{}, members...))
	s.mu.Unlock()
}

type recEngines struct {
	inner chain.AuthEngines
	rec   *sigRecorder
}

func (e *recEngines) GetAuthBatchVerifier(id uint8, cores int, count int) (chain.AuthBatchVerifier, bool) {
	bv, ok := e.inner.GetAuthBatchVerifier(id, cores, count)
	if !ok {
		return nil, false
	}
	return &recBatch{inner: bv, rec: e.rec}, true
}

type recBatch struct {
	inner chain.AuthBatchVerifier
	rec   *sigRecorder
	cur   []int
}

func (b *recBatch) wrap(j func() error, members []int) func() error {
	b.rec.note(&b.rec.created, members)
	return func() error {
		err := j()
		b.rec.note(&b.rec.ran, members)
		return err
	}
}

func (b *recBatch) Add(digest []byte, a chain.Auth) func() error {
	b.rec.mu.Lock()
	pos := b.rec.posOf[a]
	b.rec.mu.Unlock()
	b.cur = append(b.cur, pos)
	j := b.inner.Add(digest, a)
	if j == nil {
		return nil
	}
	members := b.cur
	b.cur = nil
	return b.wrap(j, members)
}

func (b *recBatch) Done() []func() error {
	js := b.inner.Done()
	out := make([]func() error, len(js))
	for i, j := range js {
		members := []int{}
		if i == 0 {
			members = b.cur
		}
		out[i] = b.wrap(j, members)
	}
	b.cur = nil
	return out
}

// recAuth records one-by-one verification of an auth whose type has no batch engine.
type recAuth struct {
	chain.Auth
	pos int
	rec *sigRecorder
}

func (a *recAuth) Verify(ctx context.Context, msg []byte) error {
	a.rec.note(&a.rec.created, []int{a.pos})
	err := a.Auth.Verify(ctx, msg)
	a.rec.note(&a.rec.ran, []int{a.pos})
	return err
}

// ---- one Execute call

type sigCfg struct {
	Workers    int  `json:"workers"` // 0 = workers.NewSerial()
	Batch      bool `json:"batch"`   // auth.DefaultEngines() (ed25519 batch verifier) vs no engines: one-by-one
	Decorated  bool `json:"decorated"`
	Gated      bool `json:"gated"`      // the batch worker is parked on its first item until the producer met the full backlog
	Concurrent bool `json:"concurrent"` // executed while another block is verified on the same workers pool
}

type sigOut struct {
	Err     string `json:"err"`
	ErrText string `json:"errtext"`
}

type sigLine struct {
	Ev        string   `json:"ev"`
	Sc        int      `json:"sc"`
	Rep       int      `json:"rep"`
	Kinds     []string `json:"kinds"`
	Signers   []string `json:"signers"`
	How       []string `json:"how"`      // per position: valid | wrongmsg | flip | wrongsigner
	Intended  []bool   `json:"intended"` // the driver meant the signature to be valid
	Valid     []bool   `json:"valid"`    // one-by-one reference: tx.Auth.Verify(tx.UnsignedBytes()) == nil
	Cfg       sigCfg   `json:"cfg"`
	Out       sigOut   `json:"out"`
	Created   [][]int  `json:"created"`
	Ran       [][]int  `json:"ran"`
	Delivered int      `json:"delivered"` // gated runs: items that reached the batch verifier
}

func sigErrClass(err error) string {
	if err == nil {
		return ""
	}
	if errors.Is(err, crypto.ErrInvalidSignature) {
		return "signature"
	}
	return errClass(err)
}

func (w *world) runSigBlock(parent merkledb.View, ts int64, txs []*chain.Transaction, cfg sigCfg, rec *sigRecorder) (sigOut, error) {
	ctx := context.Background()
	root, err := parent.GetMerkleRoot(ctx)
	if err != nil {
		return sigOut{}, err
	}
	sb, err := chain.NewStatelessBlock(ids.Empty, ts, 1, txs, root, &block.Context{})
	if err != nil {
		return sigOut{}, err
	}
	eb := chain.NewExecutionBlock(sb)
	metrics, err := chain.NewMetrics(prometheus.NewRegistry())
	if err != nil {
		return sigOut{}, err
	}
	var wk workers.Workers
	if cfg.Workers <= 0 {
		wk = workers.NewSerial()
	} else {
		wk = workers.NewParallel(cfg.Workers, 4)
	}
	defer wk.Stop()
	var engines chain.AuthEngines = auth.Engines{}
	if cfg.Batch {
		engines = auth.DefaultEngines()
	}
	if cfg.Decorated {
		engines = &recEngines{inner: engines, rec: rec}
	}
	c := chain.NewDefaultConfig()
	c.TransactionExecutionCores = 2
	c.StateFetchConcurrency = 2
	p := chain.NewProcessor(trace.Noop, &logging.NoLog{}, &genesis.ImmutableRuleFactory{Rules: w.rules}, wk, engines, w.mm, w.bh,
		&validitywindowtest.MockTimeValidityWindow[*chain.Transaction]{}, metrics, c)
	type res struct {
		out *chain.OutputBlock
		err error
	}
	ch := make(chan res, 1)
	go func() {
		o, e := p.Execute(ctx, parent, eb, false)
		ch <- res{o, e}
	}()
	select {
	case r := <-ch:
		if r.err != nil {
			return sigOut{Err: sigErrClass(r.err), ErrText: r.err.Error()}, nil
		}
		return sigOut{}, nil
	case <-time.After(60 * time.Second):
		return sigOut{}, fmt.Errorf("HANG: Processor.Execute did not return within 60s (workers=%d batch=%v txs=%d)", cfg.Workers, cfg.Batch, len(txs))
	}
}

var sigEdCounts = []int{0, 1, 3, 4, 5, 7, 8, 9, 16, 17}

func TestVerifAuthBatch(t *testing.T) {
	skipUnlessVerif(t)
	seed := int64(envInt("VERIF_SEED", 1))
	n := envInt("VERIF_SCENARIOS", 30)
	thorough := envInt("VERIF_BIG", 0) == 1
	keys := makeSigKeys(t, 6, 3, 3)
	names := make([]string, len(keys))
	for i, k := range keys {
		names[i] = k.name
	}
	byKind := map[string][]int{}
	for i, k := range keys {
		byKind[k.kind] = append(byKind[k.kind], i)
	}
	w := newWorld([]string{"a"}, map[string]uint16{"a": 1}, names)
	for _, k := range keys {
		w.addr[k.name] = k.factory.Address()
	}
	st := absState{KV: map[string]string{"a": "none"}, Bal: map[string]int64{}}
	for _, k := range keys {
		st.Bal[k.name] = 50_000_000
	}
	ts := w.rules.MinEmptyBlockGap
	exp := alignUp(ts) + 1000
	nonce := uint64(0)
	for s := 0; s < n; s++ {
		if !onlyScenario(s) {
			continue
		}
		r := rand.New(rand.NewSource(seed*9_000_011 + int64(s)))
		parent, err := w.parentView(st, fees.Dimensions{1, 1, 1, 1, 1})
		if err != nil {
			t.Fatal(err)
		}
		// ---- block shape
		counts := sigEdCounts
		if thorough && r.Intn(4) == 0 {
			counts = []int{31, 32, 33, 48, 64, 65}
		}
		ned := counts[(s+r.Intn(2)*3)%len(counts)]
		nsecp, nbls := r.Intn(4), r.Intn(3)
		if s%5 == 0 {
			nsecp, nbls = 0, 0 // uniform ed25519 block: the count is exactly the batching boundary under test
		}
		var kinds []string
		for i := 0; i < ned; i++ {
			kinds = append(kinds, "ed25519")
		}
		for i := 0; i < nsecp; i++ {
			kinds = append(kinds, "secp256r1")
		}
		for i := 0; i < nbls; i++ {
			kinds = append(kinds, "bls")
		}
		r.Shuffle(len(kinds), func(i, j int) { kinds[i], kinds[j] = kinds[j], kinds[i] })
		ntx := len(kinds)
		// ---- invalid positions: none / one / a few, aimed at first, last, batch boundaries and the last batch
		intended := make([]bool, ntx)
		for i := range intended {
			intended[i] = true
		}
		if ntx > 0 {
			var edPos []int
			for i, k := range kinds {
				if k == "ed25519" {
					edPos = append(edPos, i)
				}
			}
			cands := []int{0, ntx - 1, r.Intn(ntx), r.Intn(ntx)}
			for _, q := range []int{0, 3, 4, 7, 8, len(edPos) - 1, len(edPos) - 2} {
				if q >= 0 && q < len(edPos) {
					cands = append(cands, edPos[q])
				}
			}
			for i, k := range kinds {
				if k != "ed25519" {
					cands = append(cands, i)
					break
				}
			}
			nbad := 0
			switch x := r.Intn(10); {
			case x < 3:
				nbad = 0
			case x < 7:
				nbad = 1
			default:
				nbad = 2 + r.Intn(2)
			}
			for i := 0; i < nbad; i++ {
				intended[cands[r.Intn(len(cands))]] = false
			}
		}
		// ---- sign
		txs := make([]*chain.Transaction, ntx)
		how := make([]string, ntx)
		signers := make([]string, ntx)
		valid := make([]bool, ntx)
		for i, kind := range kinds {
			pool := byKind[kind]
			k := keys[pool[r.Intn(len(pool))]]
			other := keys[pool[(r.Intn(len(pool)-1)+1+indexOf(pool, k.name, keys))%len(pool)]]
			signers[i] = k.name
			nonce++
			acts := []chain.Action{&VerifAction{Compute: 1, Start: -1, End: -1, Nonce: nonce}}
			base := chain.Base{Timestamp: exp, ChainID: w.chainID, MaxFee: 1 << 29}
			td := chain.NewTxData(base, acts)
			msg := td.UnsignedBytes()
			good, err := k.factory.Sign(msg)
			if err != nil {
				t.Fatal(err)
			}
			var a chain.Auth = good
			how[i] = "valid"
			if !intended[i] {
				modes := []string{"wrongmsg", "wrongsigner", "flip"}
				if kind == "bls" {
					modes = modes[:2]
				}
				how[i] = modes[r.Intn(len(modes))]
				switch how[i] {
				case "wrongmsg":
					a, err = k.factory.Sign(append(append([]byte{}, msg...), 1))
					if err != nil {
						t.Fatal(err)
					}
				case "wrongsigner": // a genuine signature of the message by another key, presented under this signer
					o, err := other.factory.Sign(msg)
					if err != nil {
						t.Fatal(err)
					}
					switch g := good.(type) {
					case *auth.ED25519:
						a = &auth.ED25519{Signer: g.Signer, Signature: o.(*auth.ED25519).Signature}
					case *auth.SECP256R1:
						a = &auth.SECP256R1{Signer: g.Signer, Signature: o.(*auth.SECP256R1).Signature}
					case *auth.BLS:
						a = &auth.BLS{Signer: g.Signer, Signature: o.(*auth.BLS).Signature}
					}
				case "flip":
					switch g := good.(type) {
					case *auth.ED25519:
						sig := g.Signature
						sig[r.Intn(len(sig))] ^= 1 << uint(r.Intn(8))
						a = &auth.ED25519{Signer: g.Signer, Signature: sig}
					case *auth.SECP256R1:
						sig := g.Signature
						sig[r.Intn(len(sig))] ^= 1 << uint(r.Intn(8))
						a = &auth.SECP256R1{Signer: g.Signer, Signature: sig}
					}
				}
			}
			tx, err := chain.NewTransaction(base, acts, a)
			if err != nil {
				t.Fatal(err)
			}
			txs[i] = tx
			// one-by-one reference verdict of this signature
			valid[i] = tx.Auth.Verify(context.Background(), tx.UnsignedBytes()) == nil
		}
		// ---- configurations
		cfgs := []sigCfg{{Workers: 0, Batch: false}, // one by one, serial: the reference execution
			{Workers: 1 + (s*3)%16, Batch: true},
			{Workers: 1 + (s*3+r.Intn(16))%16, Batch: true, Decorated: true},
			{Workers: 1 + r.Intn(16), Batch: false, Decorated: r.Intn(2) == 0},
			{Workers: []int{1, 2, 3, 4, 16}[r.Intn(5)], Batch: true}}
		if kindsNil := kinds == nil; kindsNil {
			kinds, how, signers = []string{}, []string{}, []string{}
		}
		rec := &recorder{}
		rec.add(map[string]any{"ev": "reset", "sc": s})
		for rep, cfg := range cfgs {
			sr := &sigRecorder{posOf: map[chain.Auth]int{}}
			run := txs
			if cfg.Decorated {
				// wrap the auths of types without a batch engine so that their one-by-one Verify is observed
				run = make([]*chain.Transaction, ntx)
				for i, tx := range txs {
					a := tx.Auth
					if !(cfg.Batch && kinds[i] == "ed25519") {
						a = &recAuth{Auth: tx.Auth, pos: i + 1, rec: sr}
					}
					ntxw, err := chain.NewTransaction(tx.Base, tx.Actions, a)
					if err != nil {
						t.Fatal(err)
					}
					if ntxw.GetID() != tx.GetID() {
						t.Fatalf("decorated transaction differs")
					}
					run[i] = ntxw
					sr.posOf[a] = i + 1
				}
			}
			out, err := w.runSigBlock(parent, ts, run, cfg, sr)
			if err != nil {
				rec.dump(t, fmt.Sprintf("sc%05d", s))
				t.Fatalf("scenario %d rep %d: %v", s, rep, err)
			}
			sr.mu.Lock()
			created, ran := sr.created, sr.ran
			sr.mu.Unlock()
			norm := func(l [][]int) [][]int {
				out := [][]int{}
				for _, m := range l {
					mm := append([]int{0}, m...) // leading 0: never an empty inner array
					sort.Ints(mm)
					out = append(out, mm)
				}
				sort.Slice(out, func(i, j int) bool { return fmt.Sprint(out[i]) < fmt.Sprint(out[j]) })
				return out
			}
			rec.add(sigLine{Ev: "block", Sc: s, Rep: rep, Kinds: kinds, Signers: signers, How: how, Intended: intended, Valid: valid,
				Cfg: cfg, Out: out, Created: norm(created), Ran: norm(ran)})
		}
		rec.dump(t, fmt.Sprintf("sc%05d", s))
	}
}

func indexOf(pool []int, name string, keys []sigKey) int {
	for i, p := range pool {
		if keys[p].name == name {
			return i
		}
	}
	return 0
}
