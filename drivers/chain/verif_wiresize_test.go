//go:build verif

// C14 recorder: for seeded and boundary transaction shapes (action count 0..MaxActionsPerTx, action byte sizes
// around the varint boundaries, declared key sets with duplicates, ed25519 / secp256r1 / BLS factories, unit
// prices) calls the real chain.EstimateUnits, chain.GenerateTransaction and Transaction.Units and logs the shape,
// the estimate, the units of the signed transaction, MaxFee and the fee at the same prices.
// See spec/WireSize.tla / spec/WireSize_Trace.tla.
package chain_test

import (
	"context"
	"fmt"
	"math/rand"
	"testing"

	"github.com/ava-labs/avalanchego/ids"

	"github.com/ava-labs/hypersdk/auth"
	"github.com/ava-labs/hypersdk/chain"
	"github.com/ava-labs/hypersdk/codec"
	"github.com/ava-labs/hypersdk/crypto/bls"
	"github.com/ava-labs/hypersdk/crypto/ed25519"
	"github.com/ava-labs/hypersdk/crypto/secp256r1"
	"github.com/ava-labs/hypersdk/fees"
	"github.com/ava-labs/hypersdk/genesis"
	"github.com/ava-labs/hypersdk/keys"
	"github.com/ava-labs/hypersdk/state"
	"github.com/ava-labs/hypersdk/state/balance"
)

// sizedAction serialises to exactly Size bytes and declares the given keys.
type sizedAction struct {
	Size       int
	Keys       []wsKey
	Compute    uint64
	SponsorRaw []byte // the balance handler's key of the sponsor (for keys named wsSponsorKey)
}

// wsKey is one declared state key: a named key with a chunk suffix, or (Name == wsSponsorKey) the sponsor's own balance
// key, declared with the raw state.Permissions byte Perm (read 1, allocate 2, write 4).
type wsKey struct {
	Name   string `json:"name"`
	Chunks int    `json:"chunks"`
	Perm   int    `json:"perm"`
}

const wsSponsorKey = "$sponsor-balance"

func (a *sizedAction) ValidRange(chain.Rules) (int64, int64) { return -1, -1 }
func (a *sizedAction) ComputeUnits(chain.Rules) uint64       { return a.Compute }
func (a *sizedAction) Bytes() []byte {
	b := make([]byte, a.Size)
	for i := range b {
		b[i] = byte(0x40 + i%7)
	}
	return b
}

func (a *sizedAction) StateKeys(codec.Address, ids.ID) state.Keys {
	ks := state.Keys{}
	for _, k := range a.Keys {
		if k.Name == wsSponsorKey {
			ks[string(a.SponsorRaw)] |= state.Permissions(k.Perm)
			continue
		}
		ks[string(keys.EncodeChunks([]byte("ws/"+k.Name), uint16(k.Chunks)))] |= state.Permissions(k.Perm)
	}
	return ks
}

func (a *sizedAction) Execute(context.Context, chain.Rules, state.Mutable, int64, codec.Address, ids.ID) ([]byte, error) {
	return nil, nil
}

type wsAct struct {
	Size    int     `json:"size"`
	Keys    []wsKey `json:"keys"`
	Compute int64   `json:"compute"`
}

type wsLine struct {
	Ev         string  `json:"ev"`
	Sc         int     `json:"sc"`
	Auth       string  `json:"auth"`
	AuthLen    int     `json:"authlen"`    // len(tx.Auth.Bytes())
	AuthMax    int64   `json:"authmax"`    // factory.MaxUnits() bandwidth
	AuthMaxC   int64   `json:"authmaxc"`   // factory.MaxUnits() compute
	AuthC      int64   `json:"authc"`      // tx.Auth.ComputeUnits(rules)
	Actions    []wsAct `json:"actions"`
	MaxActions int     `json:"maxactions"` // rules.MaxActionsPerTx
	TsHi       int64   `json:"tshi"`       // tx.Base.Timestamp >> 28 (-1 when the timestamp is negative)
	TsLo       int64   `json:"tslo"`       // tx.Base.Timestamp & (2^28-1)
	ChainNZ    bool    `json:"chainnz"`    // chain id is not all zero
	FeeNZ      bool    `json:"feenz"`      // tx.Base.MaxFee != 0
	Rules      []int64 `json:"rules"`      // base compute, key read, value read, key alloc, value alloc, key write, value write
	SponsorCh  []int64 `json:"sponsorch"`  // rules.SponsorStateKeysMaxChunks
	BalChunks  int64   `json:"balchunks"`  // chunk suffix of the balance handler's sponsor key
	Est        []int64 `json:"est"`
	Act        []int64 `json:"act"`
	Size       int     `json:"size"` // tx.Size()
	Prices     []int64 `json:"prices"`
	MaxFee     int64   `json:"maxfee"` // -1: does not fit TLC's integers (prices are chosen so that it does)
	Fee        int64   `json:"fee"`
	GenErr     string  `json:"generr"`
}

func i64s(d fees.Dimensions) []int64 {
	out := make([]int64, len(d))
	for i, v := range d {
		if v > 1<<30 {
			out[i] = -1
		} else {
			out[i] = int64(v)
		}
	}
	return out
}

var wsSizes = []int{1, 2, 54, 127, 128, 129, 300, 16383, 16384}

func TestVerifWireSize(t *testing.T) {
	skipUnlessVerif(t)
	seed := int64(envInt("VERIF_SEED", 1))
	n := envInt("VERIF_SCENARIOS", 300)
	ep, err := ed25519.GeneratePrivateKey()
	if err != nil {
		t.Fatal(err)
	}
	sp, err := secp256r1.GeneratePrivateKey()
	if err != nil {
		t.Fatal(err)
	}
	bp, err := bls.GeneratePrivateKey()
	if err != nil {
		t.Fatal(err)
	}
	factories := []struct {
		name string
		f    chain.AuthFactory
	}{{"ed25519", auth.NewED25519Factory(ep)}, {"secp256r1", auth.NewSECP256R1Factory(sp)}, {"bls", auth.NewBLSFactory(bp)}}
	bh := balance.NewPrefixBalanceHandler([]byte{0})
	for s := 0; s < n; s++ {
		if !onlyScenario(s) {
			continue
		}
		r := rand.New(rand.NewSource(seed*5_000_011 + int64(s)))
		rules := genesis.NewDefaultRules()
		// a non-zero chain id (canoto omits an all-zero one, which would hide 34 bytes of the base) and, below, a
		// realistic millisecond timestamp
		rules.ChainID = ids.ID{7, 7, 7}
		rules.NetworkID = 1
		// the rule's action limit: the default 16, or whatever else the uint8 rule admits
		rules.MaxActionsPerTx = []uint8{16, 16, 1, 8, 32, 64, 128, 255}[r.Intn(8)]
		if r.Intn(3) == 0 {
			rules.BaseComputeUnits = uint64(r.Intn(5))
			rules.StorageKeyReadUnits = uint64(r.Intn(8))
			rules.StorageValueReadUnits = uint64(r.Intn(4))
			rules.StorageKeyAllocateUnits = uint64(r.Intn(30))
			rules.StorageValueAllocateUnits = uint64(r.Intn(6))
			rules.StorageKeyWriteUnits = uint64(r.Intn(12))
			rules.StorageValueWriteUnits = uint64(r.Intn(4))
		}
		maxA := int(rules.MaxActionsPerTx)
		fa := factories[s%3]
		// ---- shape: boundary grid first (count at / near the limit with one size class), then random mixes
		var na int
		var sizeOf func(i int) int
		switch s % 4 {
		case 0: // as many actions as the rules admit, one size class
			na = maxA
			sz := wsSizes[(s/4)%len(wsSizes)]
			sizeOf = func(int) int { return sz }
		case 1: // count swept, sizes from the classes just above a varint boundary
			na = (s / 4) % (maxA + 1)
			sz := []int{128, 1, 16384, 127}[(s/4)%4]
			sizeOf = func(int) int { return sz }
		default:
			na = r.Intn(maxA + 1)
			sizeOf = func(int) int { return wsSizes[r.Intn(len(wsSizes))] }
			// a few actions, every one with a multi-byte length prefix: 3..16 actions of >= 128 bytes, some of >= 16384
			if s%8 == 2 && maxA >= 3 {
				hi := maxA
				if hi > 16 {
					hi = 16
				}
				na = 3 + r.Intn(hi-2)
				big := []int{128, 129, 300, 16383}
				if s%16 == 10 {
					big = []int{16384, 16385, 20000}
					if na > 8 {
						na = 3 + r.Intn(6)
					}
				}
				sizeOf = func(int) int { return big[r.Intn(len(big))] }
			}
		}
		if na > 40 { // keep transactions small when sizes are large
			old := sizeOf
			sizeOf = func(i int) int {
				if v := old(i); v <= 300 {
					return v
				}
				return 128
			}
		}
		var sponsorRaw []byte
		balChunks := 1
		for k := range bh.SponsorStateKeys(fa.f.Address()) {
			sponsorRaw = []byte(k)
			c, _ := keys.DecodeChunks([]byte(k))
			balChunks = int(c)
		}
		nLarge := 0
		actions := make([]chain.Action, na)
		recs := make([]wsAct, na)
		for i := 0; i < na; i++ {
			a := &sizedAction{Size: sizeOf(i), Compute: uint64(r.Intn(4))}
			nk := r.Intn(2)
			if na <= 40 {
				nk = r.Intn(4)
			}
			// every permission mix (read, read|write, read|allocate, all, write only, allocate|write), several chunk
			// suffixes, duplicates across actions, and now and then the sponsor's own balance key
			perms := []int{1, 5, 3, 7, 7, 1, 4, 6}
			for k := 0; k < nk; k++ {
				if r.Intn(8) == 0 {
					a.Keys = append(a.Keys, wsKey{Name: wsSponsorKey, Chunks: balChunks, Perm: perms[r.Intn(len(perms))]})
					continue
				}
				// chunk suffix: 0 (a key whose value may only be empty: still charged the per-key units), 1..3, and now
				// and then 255 / 65535 (at most three large ones per transaction, prices are then kept <= 2)
				ch := r.Intn(4)
				switch x := r.Intn(25); {
				case x < 2 && nLarge < 3:
					ch = 255
					nLarge++
				case x == 2 && nLarge < 3:
					ch = 65535
					nLarge++
				}
				a.Keys = append(a.Keys, wsKey{Name: fmt.Sprintf("k%d", r.Intn(5)), Chunks: ch, Perm: perms[r.Intn(len(perms))]})
			}
			a.SponsorRaw = sponsorRaw
			// state.Keys is a map: the same (name, chunks) inside one action collapses, permissions are OR-ed
			idx := map[[2]string]int{}
			ks := []wsKey{}
			for _, k := range a.Keys {
				id := [2]string{k.Name, fmt.Sprint(k.Chunks)}
				if j, ok := idx[id]; ok {
					ks[j].Perm |= k.Perm
					continue
				}
				idx[id] = len(ks)
				ks = append(ks, k)
			}
			a.Keys = ks
			actions[i] = a
			recs[i] = wsAct{Size: a.Size, Keys: ks, Compute: int64(a.Compute)}
		}
		var prices fees.Dimensions
		nonZero := r.Intn(2) == 0 // half of the shapes: a non-zero price in all five dimensions
		for i := range prices {
			prices[i] = uint64([]int{0, 1, 1, 2, 7, 100}[r.Intn(6)])
			if nonZero && prices[i] == 0 {
				prices[i] = uint64(1 + r.Intn(9))
			}
			if nLarge > 0 && prices[i] > 2 {
				prices[i] = 1 + prices[i]%2
			}
		}
		now := int64(1_724_315_246_000 + r.Intn(1_000_000_000))
		line := wsLine{Ev: "tx", Sc: s, Auth: fa.name, Actions: recs, MaxActions: maxA, Prices: i64s(prices),
			Rules: []int64{int64(rules.BaseComputeUnits), int64(rules.StorageKeyReadUnits), int64(rules.StorageValueReadUnits),
				int64(rules.StorageKeyAllocateUnits), int64(rules.StorageValueAllocateUnits), int64(rules.StorageKeyWriteUnits),
				int64(rules.StorageValueWriteUnits)},
			SponsorCh: []int64{}, Est: []int64{}, Act: []int64{}}
		for _, c := range rules.SponsorStateKeysMaxChunks {
			line.SponsorCh = append(line.SponsorCh, int64(c))
		}
		for k := range bh.SponsorStateKeys(fa.f.Address()) {
			c, _ := keys.DecodeChunks([]byte(k))
			line.BalChunks = int64(c)
		}
		mb, mc := fa.f.MaxUnits()
		line.AuthMax, line.AuthMaxC = int64(mb), int64(mc)
		est, err := chain.EstimateUnits(rules, actions, fa.f)
		if err != nil {
			t.Fatalf("scenario %d: EstimateUnits: %v", s, err)
		}
		tx, err := chain.GenerateTransaction(&genesis.ImmutableRuleFactory{Rules: rules}, prices, now, actions, fa.f)
		if err != nil {
			t.Fatalf("scenario %d: GenerateTransaction: %v", s, err)
		}
		act, err := tx.Units(bh, rules)
		if err != nil {
			t.Fatalf("scenario %d: Units: %v", s, err)
		}
		fee, err := fees.MulSum(prices, act)
		if err != nil {
			t.Fatalf("scenario %d: fee: %v", s, err)
		}
		line.Est, line.Act, line.Size = i64s(est), i64s(act), tx.Size()
		line.AuthLen = len(tx.Auth.Bytes())
		line.AuthC = int64(tx.Auth.ComputeUnits(rules))
		ts := tx.Base.Timestamp
		if ts < 0 {
			line.TsHi, line.TsLo = -1, 0
		} else {
			line.TsHi, line.TsLo = ts>>28, ts&(1<<28-1)
		}
		line.ChainNZ = tx.Base.ChainID != ids.Empty
		line.FeeNZ = tx.Base.MaxFee != 0
		line.MaxFee, line.Fee = -1, -1
		if tx.Base.MaxFee < 1<<30 {
			line.MaxFee = int64(tx.Base.MaxFee)
		}
		if fee < 1<<30 {
			line.Fee = int64(fee)
		}
		rec := &recorder{}
		rec.add(map[string]any{"ev": "reset", "seed": seed, "sc": s})
		rec.add(line)
		rec.dump(t, fmt.Sprintf("sc%05d", s))
	}
}
