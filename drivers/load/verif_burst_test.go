//go:build verif

// Driver for X13 (see /verif/spec/LoadBurst.tla): the real load.BurstOrchestrator against stub issuers (the j-th call
// fails / cancels the parent context) and stub listeners (return nil or an error once IssuingDone was called, or only
// when their context is cancelled).  One "burst" line per scenario with what every agent saw.
package load_test

import (
	"context"
	"encoding/json"
	"errors"
	"fmt"
	"math/rand"
	"os"
	"path/filepath"
	"sync"
	"testing"
	"time"

	"github.com/ava-labs/avalanchego/utils/logging"

	"github.com/ava-labs/hypersdk/load"
)

type burstAgent struct {
	idx      int
	failAt   int
	cancelAt int
	lkind    string
	cancel   context.CancelFunc

	mu      sync.Mutex
	calls   int
	issued  []int
	regs    []int
	done    int
	late    bool // a call to the issuer or a registration after IssuingDone
	listens int
	lret    string
	doneCh  chan struct{}
}

func (a *burstAgent) GenerateAndIssueTx(context.Context) (int, error) {
	a.mu.Lock()
	defer a.mu.Unlock()
	a.calls++
	if a.done > 0 {
		a.late = true
	}
	if a.calls == a.cancelAt {
		a.cancel()
	}
	if a.calls == a.failAt {
		return 0, errRampIssuer
	}
	tx := (a.idx+1)*1_000_000 + a.calls
	a.issued = append(a.issued, tx)
	return tx, nil
}

func (a *burstAgent) RegisterIssued(tx int) {
	a.mu.Lock()
	defer a.mu.Unlock()
	if a.done > 0 {
		a.late = true
	}
	a.regs = append(a.regs, tx)
}

func (a *burstAgent) IssuingDone() {
	a.mu.Lock()
	defer a.mu.Unlock()
	a.done++
	if a.done == 1 {
		close(a.doneCh)
	}
}

func (a *burstAgent) Listen(ctx context.Context) error {
	a.mu.Lock()
	a.listens++
	a.mu.Unlock()
	ret := "nil"
	if a.lkind == "stuck" {
		<-ctx.Done()
	} else {
		select {
		case <-a.doneCh:
			if a.lkind == "err" {
				ret = "err"
			}
		case <-ctx.Done():
		}
	}
	a.mu.Lock()
	a.lret = ret
	a.mu.Unlock()
	if ret == "err" {
		return errRampListener
	}
	return nil
}

func TestVerifBurstRecord(t *testing.T) {
	seed := int64(rampEnvInt("VERIF_SEED", 1))
	only := rampEnvInt("VERIF_ONLY", -1)
	nscn := rampEnvInt("VERIF_BURST_SCENARIOS", 150)
	rng := rand.New(rand.NewSource(seed*4447 + 29))
	kinds := []string{"normal", "normal", "err", "stuck"}
	for n := 0; n < nscn; n++ {
		na, k := 1+rng.Intn(3), rng.Intn(6)
		ctx, cancel := context.WithCancel(context.Background())
		var stubs []*burstAgent
		agents := make([]load.Agent[int], na)
		for i := 0; i < na; i++ {
			a := &burstAgent{idx: i, lkind: kinds[rng.Intn(len(kinds))], cancel: cancel, lret: "run", doneCh: make(chan struct{})}
			if k > 0 && rng.Intn(4) == 0 {
				a.failAt = 1 + rng.Intn(k)
			}
			if k > 0 && rng.Intn(8) == 0 {
				a.cancelAt = 1 + rng.Intn(k)
			}
			stubs = append(stubs, a)
			agents[i] = load.NewAgent[int](a, a)
		}
		o, err := load.NewBurstOrchestrator[int](agents, logging.NoLog{}, load.BurstOrchestratorConfig{TxsPerIssuer: uint64(k), Timeout: 30 * time.Millisecond})
		if err != nil {
			t.Fatal(err)
		}
		res := make(chan error, 1)
		go func() { res <- o.Execute(ctx) }()
		var out error
		hang := false
		select {
		case out = <-res:
		case <-time.After(40 * time.Second):
			hang = true
		}
		ags := []map[string]any{}
		for _, a := range stubs {
			a.mu.Lock()
			inorder := len(a.regs) == len(a.issued)
			for i := 0; inorder && i < len(a.regs); i++ {
				inorder = a.regs[i] == a.issued[i]
			}
			ags = append(ags, map[string]any{"fail": a.failAt, "lkind": a.lkind, "calls": a.calls, "regs": len(a.regs), "inorder": inorder,
				"done": a.done, "late": a.late, "listens": a.listens, "lret": a.lret})
			a.mu.Unlock()
		}
		cancel()
		result := "other"
		switch {
		case out == nil:
			result = "nil"
		case errors.Is(out, errRampIssuer):
			result = "ierr"
		case errors.Is(out, errRampListener):
			result = "lerr"
		}
		if only >= 0 && only != n {
			continue
		}
		f, err := os.Create(filepath.Join(os.Getenv("VERIF_OUT"), fmt.Sprintf("burst-%06d.ndjson", n)))
		if err != nil {
			t.Fatal(err)
		}
		enc := json.NewEncoder(f)
		for _, l := range []map[string]any{{"ev": "reset", "n": na, "k": k}, {"ev": "burst", "hang": hang, "result": result, "agents": ags}} {
			if err := enc.Encode(l); err != nil {
				t.Fatal(err)
			}
		}
		f.Close()
	}
}
