//go:build verif

// Driver for X13 (see /verif/spec/LoadTracker.tla): seeded histories of Issue / ObserveConfirmed / ObserveFailed on a
// real load.PrometheusTracker[int] (repeated, unknown and never-issued transactions included, plus one concurrent
// burst per scenario); after every call the three getters and the gathered prometheus metrics are logged.
package load_test

import (
	"encoding/json"
	"fmt"
	"math/rand"
	"os"
	"path/filepath"
	"sync"
	"testing"

	"github.com/prometheus/client_golang/prometheus"

	"github.com/ava-labs/hypersdk/load"
)

type trkRec struct {
	t     *load.PrometheusTracker[int]
	reg   *prometheus.Registry
	lines []map[string]any
}

func (r *trkRec) observe(line map[string]any) {
	line["gi"], line["gc"], line["gf"] = int(r.t.GetObservedIssued()), int(r.t.GetObservedConfirmed()), int(r.t.GetObservedFailed())
	line["mi"], line["mc"], line["mf"], line["lat"] = -1, -1, -1, -1
	mfs, err := r.reg.Gather()
	if err == nil {
		for _, mf := range mfs {
			if len(mf.GetMetric()) != 1 {
				continue
			}
			m := mf.GetMetric()[0]
			switch mf.GetName() {
			case "load_txs_issued":
				line["mi"] = int(m.GetCounter().GetValue())
			case "load_txs_confirmed":
				line["mc"] = int(m.GetCounter().GetValue())
			case "load_txs_failed":
				line["mf"] = int(m.GetCounter().GetValue())
			case "load_tx_latency":
				line["lat"] = int(m.GetHistogram().GetSampleCount())
			}
		}
	}
	r.lines = append(r.lines, line)
}

func TestVerifTrackerRecord(t *testing.T) {
	seed := int64(rampEnvInt("VERIF_SEED", 1))
	only := rampEnvInt("VERIF_ONLY", -1)
	nscn := rampEnvInt("VERIF_TRK_SCENARIOS", 60)
	depth := rampEnvInt("VERIF_TRK_DEPTH", 40)
	rng := rand.New(rand.NewSource(seed*104729 + 7))
	for n := 0; n < nscn; n++ {
		r := &trkRec{reg: prometheus.NewRegistry()}
		tr, err := load.NewPrometheusTracker[int](r.reg)
		r.t = tr
		if err != nil {
			r.lines = append(r.lines, map[string]any{"ev": "reset", "ok": false, "gi": 0, "gc": 0, "gf": 0, "mi": 0, "mc": 0, "mf": 0, "lat": 0})
		} else {
			r.observe(map[string]any{"ev": "reset", "ok": true})
			ntx := 1 + rng.Intn(6)
			bulkAt := rng.Intn(depth)
			for i := 0; i < depth; i++ {
				tx := rng.Intn(ntx)
				if i == bulkAt {
					ni, nc, nf := rng.Intn(40), rng.Intn(40), rng.Intn(40)
					var wg sync.WaitGroup
					for g, cnt := range []int{ni, nc, nf} {
						for j := 0; j < cnt; j++ {
							wg.Add(1)
							go func(g, j int) {
								defer wg.Done()
								switch g {
								case 0:
									r.t.Issue(10 + j%7)
								case 1:
									r.t.ObserveConfirmed(10 + j%7)
								default:
									r.t.ObserveFailed(10 + j%7)
								}
							}(g, j)
						}
					}
					wg.Wait()
					r.observe(map[string]any{"ev": "bulk", "ni": ni, "nc": nc, "nf": nf})
					continue
				}
				switch rng.Intn(3) {
				case 0:
					r.t.Issue(tx)
					r.observe(map[string]any{"ev": "issue", "tx": tx})
				case 1:
					r.t.ObserveConfirmed(tx)
					r.observe(map[string]any{"ev": "confirm", "tx": tx})
				default:
					r.t.ObserveFailed(tx)
					r.observe(map[string]any{"ev": "fail", "tx": tx})
				}
			}
		}
		if only >= 0 && only != n {
			continue
		}
		f, err := os.Create(filepath.Join(os.Getenv("VERIF_OUT"), fmt.Sprintf("trk-%06d.ndjson", n)))
		if err != nil {
			t.Fatal(err)
		}
		enc := json.NewEncoder(f)
		for _, l := range r.lines {
			if err := enc.Encode(l); err != nil {
				t.Fatal(err)
			}
		}
		f.Close()
	}
}
