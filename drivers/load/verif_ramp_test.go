//go:build verif

// Driver for X13 (see /verif/spec/LoadRamp.tla, LoadRamp_Trace.tla): runs the real load.GradualOrchestrator against
// scripted stubs.  The stub tracker answers every GetObservedConfirmed call (one per evaluated window) with a scripted
// cumulative counter and logs the call with monotonic entry / return instants (100 us ticks since the scenario's
// start); faults (parent cancellation, an issuer error, a listener error) are injected *inside* tracker / issuer calls
// so that their order relative to the windows is fixed by construction and not by timing.  "freeze" scenarios hold the
// orchestrator inside a tracker call (target fixed) while the issuers run whole batches, so that the number of issued
// transactions identifies the batch size at that target.
package load_test

import (
	"context"
	"encoding/json"
	"errors"
	"fmt"
	"math/rand"
	"os"
	"path/filepath"
	"strconv"
	"sync"
	"sync/atomic"
	"testing"
	"time"

	"github.com/ava-labs/avalanchego/utils/logging"

	"github.com/ava-labs/hypersdk/load"
)

func rampEnvInt(name string, def int) int {
	if v, err := strconv.Atoi(os.Getenv(name)); err == nil {
		return v
	}
	return def
}

const (
	rampSustain = 20 * time.Millisecond
	rampTick    = 100 * time.Microsecond
)

var (
	errRampIssuer   = errors.New("verif issuer error")
	errRampListener = errors.New("verif listener error")
)

type rampScn struct {
	id        int
	min, max  int
	step, att int
	term      bool
	n         int
	mp, mq    int
	deltas    []int // confirmed transactions reported for windows 1..len(deltas); 0 afterwards
	cancelAt  int   // tracker call during which the parent context is cancelled (0 = the initial call); always set
	ierrAgent int   // agent whose issuer fails (-1 none)
	ierrCall  int   // 1-based call that fails
	ierrSync  int   // tracker call the failure is synchronised with (-1: free running)
	lerrAgent int   // agent whose Listen returns an error at once (-1 none)
	freezeAt  int   // tracker call that is held until the issuers ran whole batches (-1 none)
}

type rampRun struct {
	s      *rampScn
	start  time.Time
	cancel context.CancelFunc

	mu     sync.Mutex
	lines  []map[string]any
	calls  int
	cum    int
	frozen chan struct{}
	gateA  chan struct{} // first issuer calls wait for it in freeze scenarios
	gateB  chan struct{} // the frozen tracker call waits for it
	syncCh chan struct{} // closed when the tracker entered call ierrSync
	ictxCh chan context.Context
	injI   atomic.Bool
	injL   atomic.Bool
	live   atomic.Int64
	agents []*rampAgent
}

func (r *rampRun) tick() int { return int(time.Since(r.start) / rampTick) }

// ---- tracker stub
type rampTracker struct{ r *rampRun }

func (rampTracker) Issue(int)                 {}
func (rampTracker) ObserveConfirmed(int)      {}
func (rampTracker) ObserveFailed(int)         {}
func (rampTracker) GetObservedIssued() uint64 { return 0 }
func (rampTracker) GetObservedFailed() uint64 { return 0 }

func (t rampTracker) GetObservedConfirmed() uint64 {
	r, s := t.r, t.r.s
	ent := r.tick()
	r.mu.Lock()
	k := r.calls
	r.calls++
	if k >= 1 && k <= len(s.deltas) {
		r.cum += s.deltas[k-1]
	}
	c := r.cum
	r.mu.Unlock()
	cancelled, ierr := false, false
	if k == 1 && s.freezeAt >= 0 {
		// the issuers' goroutines may be scheduled late: make sure every one of them has sized its first batch (at
		// MinTPS) before the first window can raise the target
		deadline := time.Now().Add(5 * time.Second)
		for time.Now().Before(deadline) {
			ok := true
			for _, a := range r.agents {
				ok = ok && a.count() >= 1
			}
			if ok {
				break
			}
			time.Sleep(time.Millisecond)
		}
	}
	if k == s.freezeAt {
		close(r.frozen)
		<-r.gateB // the driver cancels the parent context before releasing
		cancelled = true
	} else if k == s.cancelAt {
		r.cancel()
		cancelled = true
	}
	if k == s.ierrSync && s.ierrAgent >= 0 {
		close(r.syncCh)
		ictx := <-r.ictxCh
		<-ictx.Done() // the errgroup cancelled the issuers' context: the orchestrator will see it at the loop top
		ierr = true
	}
	line := map[string]any{"ev": "round", "r": k, "c": c, "ent": ent, "ret": r.tick(), "nxt": 0, "cancel": cancelled, "ierr": ierr}
	r.mu.Lock()
	r.lines = append(r.lines, line)
	r.mu.Unlock()
	return uint64(c)
}

// ---- issuer / listener stubs
type rampAgent struct {
	r       *rampRun
	idx     int
	mu      sync.Mutex
	calls   int
	after   int
	errored bool
	issued  []int
	regs    []int
	listens int
	done    int
}

func (a *rampAgent) GenerateAndIssueTx(ctx context.Context) (int, error) {
	a.r.live.Add(1)
	defer a.r.live.Add(-1)
	s := a.r.s
	a.mu.Lock()
	a.calls++
	k := a.calls
	if a.errored {
		a.after++
	}
	a.mu.Unlock()
	if s.freezeAt >= 0 && k == 1 {
		select {
		case <-a.r.gateA:
		case <-ctx.Done():
		}
	}
	if s.ierrAgent == a.idx && k == s.ierrCall {
		select {
		case a.r.ictxCh <- ctx:
		default:
		}
		if s.ierrSync >= 0 {
			select {
			case <-a.r.syncCh:
			case <-ctx.Done():
			}
		}
		a.mu.Lock()
		a.errored = true
		a.mu.Unlock()
		a.r.injI.Store(true)
		return 0, errRampIssuer
	}
	tx := (a.idx+1)*1_000_000 + k
	a.mu.Lock()
	a.issued = append(a.issued, tx)
	a.mu.Unlock()
	return tx, nil
}

func (a *rampAgent) Listen(ctx context.Context) error {
	a.r.live.Add(1)
	defer a.r.live.Add(-1)
	a.mu.Lock()
	a.listens++
	a.mu.Unlock()
	if a.r.s.lerrAgent == a.idx {
		a.r.injL.Store(true)
		return errRampListener
	}
	<-ctx.Done()
	return nil
}

func (a *rampAgent) RegisterIssued(tx int) {
	a.mu.Lock()
	a.regs = append(a.regs, tx)
	a.mu.Unlock()
}

func (a *rampAgent) IssuingDone() {
	a.mu.Lock()
	a.done++
	a.mu.Unlock()
}

func (a *rampAgent) count() int {
	a.mu.Lock()
	defer a.mu.Unlock()
	return a.calls
}

func rampBatch(target, n, p, q int) int { return ((target + n - 1) / n) * p / q }

func runRamp(s *rampScn) []map[string]any {
	ctx, cancel := context.WithCancel(context.Background())
	defer cancel()
	r := &rampRun{
		s: s, start: time.Now(), cancel: cancel,
		frozen: make(chan struct{}), gateA: make(chan struct{}), gateB: make(chan struct{}),
		syncCh: make(chan struct{}), ictxCh: make(chan context.Context, 1),
	}
	agents := make([]load.Agent[int], s.n)
	for i := range agents {
		a := &rampAgent{r: r, idx: i}
		r.agents = append(r.agents, a)
		agents[i] = load.NewAgent[int](a, a)
	}
	cfg := load.GradualOrchestratorConfig{
		MaxTPS: uint64(s.max), MinTPS: uint64(s.min), Step: uint64(s.step),
		TxRateMultiplier: float64(s.mp) / float64(s.mq),
		SustainedTime:    rampSustain, MaxAttempts: uint64(s.att), Terminate: s.term,
	}
	reset := map[string]any{
		"ev": "reset", "kind": "ramp", "id": s.id, "min": s.min, "max": s.max, "step": s.step, "att": s.att, "term": s.term,
		"n": s.n, "mp": s.mp, "mq": s.mq, "sticks": int(rampSustain / rampTick), "freeze": s.freezeAt,
	}
	o, err := load.NewGradualOrchestrator[int, int](agents, rampTracker{r}, logging.NoLog{}, cfg)
	if err != nil {
		reset["ok"] = false
		return []map[string]any{reset}
	}
	reset["ok"] = true
	res := make(chan error, 1)
	go func() { res <- o.Execute(ctx) }()
	if s.freezeAt >= 0 {
		select {
		case <-r.frozen:
			close(r.gateA)
			// let every issuer finish its first batch and start another one at the frozen target (the expectation
			// below only paces the scenario; the verdict is the trace spec's)
			want := rampBatch(s.min, s.n, s.mp, s.mq) + 1
			deadline := time.Now().Add(4 * time.Second)
			for time.Now().Before(deadline) {
				ok := true
				for _, a := range r.agents {
					ok = ok && a.count() >= want
				}
				if ok {
					break
				}
				time.Sleep(10 * time.Millisecond)
			}
			cancel()
			close(r.gateB)
		case err := <-res:
			res <- err
		}
	}
	var out error
	hang := false
	select {
	case out = <-res:
	case <-time.After(40 * time.Second):
		hang = true
	}
	endTick := r.tick()
	live := int(r.live.Load())
	r.mu.Lock()
	lines := r.lines
	r.mu.Unlock()
	for i := range lines {
		if i+1 < len(lines) {
			lines[i]["nxt"] = lines[i+1]["ent"]
		} else {
			lines[i]["nxt"] = endTick
		}
	}
	mo := o.GetMaxObservedTPS()
	if mo > 1<<30 {
		mo = 1 << 30
	}
	ags := []map[string]any{}
	for _, a := range r.agents {
		a.mu.Lock()
		inorder := len(a.regs) == len(a.issued)
		for i := 0; inorder && i < len(a.regs); i++ {
			inorder = a.regs[i] == a.issued[i]
		}
		ags = append(ags, map[string]any{"calls": a.calls, "regs": len(a.regs), "inorder": inorder, "after": a.after,
			"errored": a.errored, "listens": a.listens, "done": a.done})
		a.mu.Unlock()
	}
	end := map[string]any{
		"ev": "end", "hang": hang, "rounds": len(lines) - 1, "isnil": out == nil,
		"failed": errors.Is(out, load.ErrFailedToReachTargetTPS), "ierr": errors.Is(out, errRampIssuer),
		"lerr": errors.Is(out, errRampListener), "injI": r.injI.Load(), "injL": r.injL.Load(),
		"maxobs": int(mo), "live": live, "agents": ags,
	}
	return append(append([]map[string]any{reset}, lines...), end)
}

func genRamp(rng *rand.Rand, id int, freeze bool) *rampScn {
	muls := [][2]int{{1, 1}, {3, 2}, {5, 4}, {2, 1}, {1, 2}, {3, 4}}
	m := muls[rng.Intn(len(muls))]
	s := &rampScn{id: id, n: 1 + rng.Intn(3), mp: m[0], mq: m[1], ierrAgent: -1, ierrSync: -1, lerrAgent: -1, freezeAt: -1}
	s.min = 1 + rng.Intn(300)
	s.step = 1 + rng.Intn(150)
	s.max = s.min + s.step*rng.Intn(4) + rng.Intn(s.step)
	if rng.Intn(10) == 0 {
		s.max = s.min - rng.Intn(s.min) // MaxTPS below MinTPS: the first sustained window achieves it
	}
	s.att = rng.Intn(4)
	s.term = rng.Intn(10) < 6
	if freeze {
		for m[0] < m[1] { // a multiplier >= 1 keeps the first batch non-empty
			m = muls[rng.Intn(len(muls))]
		}
		s.mp, s.mq = m[0], m[1]
		s.min = 1 + rng.Intn(40)
		s.step = 1 + rng.Intn(40)
		s.max = s.min + s.step*(1+rng.Intn(3))
		s.att = 2 + rng.Intn(2)
		s.term = true
		hits := rng.Intn((s.max-s.min+s.step-1)/s.step + 1) // never enough to finish
		for i := 0; i < hits; i++ {
			if rng.Intn(3) == 0 {
				s.deltas = append(s.deltas, 0) // one forgiven miss
			}
			s.deltas = append(s.deltas, 1500)
		}
		s.freezeAt = len(s.deltas) + 1
		s.cancelAt = s.freezeAt
		return s
	}
	nrounds := 2 + rng.Intn(13)
	phit := []float64{0.9, 0.7, 0.5, 0.3}[rng.Intn(4)]
	for i := 0; i < nrounds; i++ {
		switch {
		case rng.Float64() < phit:
			if rng.Intn(5) == 0 {
				s.deltas = append(s.deltas, 12000)
			} else {
				s.deltas = append(s.deltas, 1500)
			}
		case rng.Intn(3) == 0:
			s.deltas = append(s.deltas, 1) // a non-empty window far below any target >= 100
		default:
			s.deltas = append(s.deltas, 0)
		}
	}
	s.cancelAt = nrounds
	switch rng.Intn(12) {
	case 0:
		s.cancelAt = 0
	case 1, 2:
		s.cancelAt = 1 + rng.Intn(nrounds)
	case 3, 4:
		s.ierrAgent = rng.Intn(s.n)
		s.ierrCall = 1 + rng.Intn(rampBatch(s.min, s.n, s.mp, s.mq)+1)
		if s.ierrCall <= rampBatch(s.min, s.n, s.mp, s.mq) {
			s.ierrSync = 1 + rng.Intn(nrounds)
		}
	case 5:
		s.ierrAgent = rng.Intn(s.n)
		s.ierrCall = 1 + rng.Intn(rampBatch(s.min, s.n, s.mp, s.mq)+1)
	case 6:
		s.lerrAgent = rng.Intn(s.n)
	}
	return s
}

func TestVerifRampRecord(t *testing.T) {
	seed := int64(rampEnvInt("VERIF_SEED", 1))
	only := rampEnvInt("VERIF_ONLY", -1)
	nscript := rampEnvInt("VERIF_SCENARIOS", 160)
	nfreeze := rampEnvInt("VERIF_FREEZE", 24)
	par := rampEnvInt("VERIF_PAR", 24)
	rng := rand.New(rand.NewSource(seed*7919 + 13))
	var scns []*rampScn
	for i := 0; i < nscript+nfreeze; i++ {
		scns = append(scns, genRamp(rng, i, i >= nscript))
	}
	sem := make(chan struct{}, par)
	var wg sync.WaitGroup
	var failed atomic.Int64
	for _, s := range scns {
		if only >= 0 && s.id != only {
			continue
		}
		wg.Add(1)
		sem <- struct{}{}
		go func(s *rampScn) {
			defer wg.Done()
			defer func() { <-sem }()
			lines := runRamp(s)
			f, err := os.Create(filepath.Join(os.Getenv("VERIF_OUT"), fmt.Sprintf("ramp-%06d.ndjson", s.id)))
			if err != nil {
				failed.Add(1)
				return
			}
			enc := json.NewEncoder(f)
			for _, l := range lines {
				if enc.Encode(l) != nil {
					failed.Add(1)
				}
			}
			f.Close()
		}(s)
	}
	wg.Wait()
	if failed.Load() != 0 {
		t.Fatalf("%d scenario files could not be written", failed.Load())
	}
}
