//go:build verif

// Driver for X14 (see /verif/spec/TypeRegistry.tla): every short history and seeded long histories (including filling
// all 256 ids) of Register / Unmarshal / GetRegisteredTypes on a real codec.TypeParser[string].  Every Register call
// brings a fresh decoder that returns its own number and whether it was handed the caller's slice unchanged; after
// every call the registered types (id, registration number) are logged.
package codec_test

import (
	"bytes"
	"encoding/json"
	"errors"
	"fmt"
	"math/rand"
	"os"
	"path/filepath"
	"strconv"
	"testing"

	"github.com/ava-labs/hypersdk/codec"
)

func tpEnvInt(name string, def int) int {
	if v, err := strconv.Atoi(os.Getenv(name)); err == nil {
		return v
	}
	return def
}

type tpInst struct {
	id  uint8
	dec int
}

func (i *tpInst) GetTypeID() uint8 { return i.id }

type tpRec struct {
	p       *codec.TypeParser[string]
	lines   []map[string]any
	nextDec int
	invoked int
	intact  bool
	cur     []byte
}

func (r *tpRec) observe(line map[string]any) {
	ids, decs := []int{}, []int{}
	for _, t := range r.p.GetRegisteredTypes() {
		ids = append(ids, int(t.GetTypeID()))
		if i, ok := t.(*tpInst); ok {
			decs = append(decs, i.dec)
		} else {
			decs = append(decs, -2)
		}
	}
	line["ids"], line["decs"], line["listed"] = ids, decs, true
	r.lines = append(r.lines, line)
}

func (r *tpRec) reset() {
	r.p = codec.NewTypeParser[string]()
	r.nextDec = 0
	r.observe(map[string]any{"ev": "reset", "cap": 256})
}

func tpErr(err error) string {
	switch {
	case err == nil:
		return ""
	case errors.Is(err, codec.ErrDuplicateItem):
		return "dup"
	case errors.Is(err, codec.ErrTooManyItems):
		return "full"
	default:
		return "unknown"
	}
}

func (r *tpRec) register(id int) string {
	r.nextDec++
	d := r.nextDec
	err := r.p.Register(&tpInst{id: uint8(id), dec: d}, func(b []byte) (string, error) {
		r.invoked = d
		r.intact = bytes.Equal(b, r.cur)
		return fmt.Sprintf("out-%d", d), nil
	})
	e := tpErr(err)
	r.observe(map[string]any{"ev": "reg", "id": id, "dec": d, "err": e})
	return e
}

// use: Unmarshal of a slice starting with byte id (id < 0: the empty slice)
func (r *tpRec) use(id int, extra int) {
	r.invoked, r.intact = -1, true
	r.cur = []byte{}
	if id >= 0 {
		r.cur = append([]byte{byte(id)}, make([]byte, extra)...)
	}
	out, err := r.p.Unmarshal(r.cur)
	e := ""
	if err != nil {
		e = "unknown"
	}
	outok := (err != nil && out == "") || (err == nil && out == fmt.Sprintf("out-%d", r.invoked))
	r.observe(map[string]any{"ev": "use", "id": id, "err": e, "dec": r.invoked, "intact": r.intact, "outok": outok})
}

func (r *tpRec) flush(t *testing.T, name string) {
	f, err := os.Create(filepath.Join(os.Getenv("VERIF_OUT"), name+".ndjson"))
	if err != nil {
		t.Fatal(err)
	}
	enc := json.NewEncoder(f)
	for _, l := range r.lines {
		if err := enc.Encode(l); err != nil {
			t.Fatal(err)
		}
	}
	f.Close()
	r.lines = nil
}

func TestVerifTypeParserRecord(t *testing.T) {
	seed := int64(tpEnvInt("VERIF_SEED", 1))
	only := tpEnvInt("VERIF_ONLY", -1)
	depth := tpEnvInt("VERIF_SYSDEPTH", 4)
	nrand := tpEnvInt("VERIF_SCENARIOS", 60)
	nfill := tpEnvInt("VERIF_FILL", 2)
	r := &tpRec{}
	n := 0
	stats := map[string]int{}
	emit := func(prefix string) {
		if only < 0 || only == n {
			r.flush(t, fmt.Sprintf("%s-%06d", prefix, n))
		} else {
			r.lines = nil
		}
		n++
	}
	// (a) every history of `depth` calls over {register id 0..2, unmarshal id 0..3, unmarshal empty}
	const nops = 8
	total := 1
	for i := 0; i < depth; i++ {
		total *= nops
	}
	for h := 0; h < total; h++ {
		r.reset()
		x := h
		for i := 0; i < depth; i++ {
			op := x % nops
			x /= nops
			switch {
			case op < 3:
				stats[r.register(op)]++
			case op < 7:
				r.use(op-3, i%3)
			default:
				r.use(-1, 0)
			}
		}
		emit("sys")
	}
	// (b) seeded histories over a random universe of ids
	rng := rand.New(rand.NewSource(seed*31337 + 5))
	for s := 0; s < nrand; s++ {
		r.reset()
		u := 2 + rng.Intn(12)
		base := rng.Intn(256 - u)
		for i := 0; i < 40; i++ {
			id := base + rng.Intn(u)
			if rng.Intn(2) == 0 {
				stats[r.register(id)]++
			} else if rng.Intn(8) == 0 {
				r.use(-1, 0)
			} else {
				r.use(id, rng.Intn(5))
			}
		}
		emit("rnd")
	}
	// (c) fill all 256 ids in a seeded order (with duplicates on the way), then keep registering and looking up
	for s := 0; s < nfill; s++ {
		r.reset()
		perm := rng.Perm(256)
		for i, id := range perm {
			stats[r.register(id)]++
			if i%16 == 3 {
				stats[r.register(perm[rng.Intn(i+1)])]++
			}
			if i%32 == 5 {
				r.use(perm[rng.Intn(256)], 2)
			}
		}
		for i := 0; i < 12; i++ {
			stats[r.register(rng.Intn(256))]++
			r.use(rng.Intn(256), 1)
		}
		emit("fill")
	}
	stats["scenarios"] = n
	b, _ := json.Marshal(stats)
	if err := os.WriteFile(filepath.Join(os.Getenv("VERIF_OUT"), "tp_stats.json"), b, 0o644); err != nil {
		t.Fatal(err)
	}
}
