//go:build verif

// Driver for C28 (see /verif/DESIGN.md): records rows of the real address text codec as ndjson for
// spec/RulesAddress_Trace.tla.
//
//	kind "parse":  for every row of the decision table of spec/RulesAddress.tla (prefix x hex validity x decoded
//	               length x checksum x case) K seeded strings are built with the real checksum function
//	               (hashing.Checksum) and given to StringToAddress and Address.UnmarshalText
//	kind "parse-x": strings that carry checksum / hash material of a full-length address in the wrong place
//	               (address ++ hash suffix of any length but 4, checksum in front / in the middle / reversed / doubled,
//	               ...) or are the canonical text of an address with one hex digit removed / added at the front, the
//	               back or in the middle (addresses with and without a leading 0 nibble); their features are lexed
//	               from the string itself
//	kind "format": seeded addresses are formatted (String, MarshalText); the text is lexed into the same features
//	               and parsed back
//
// The driver only builds / lexes strings and copies results; the verdict on each row is the specification's.
package codec_test

import (
	"bufio"
	"bytes"
	"encoding/hex"
	"encoding/json"
	"math/rand"
	"os"
	"path/filepath"
	"strconv"
	"strings"
	"testing"

	"github.com/ava-labs/avalanchego/utils/hashing"

	"github.com/ava-labs/hypersdk/codec"
)

const verifChecksumLen = 4

type addrRow struct {
	Ev    string `json:"ev"`
	Kind  string `json:"kind"`
	Pfx   string `json:"pfx"`
	Hex   string `json:"hex"`
	Total int    `json:"total"`
	Sum   string `json:"sum"`
	Case  string `json:"case"`
	Acc   int    `json:"acc"`
	Acc2  int    `json:"acc2"`
	Same  int    `json:"same"`
	Pay   int    `json:"pay"`
	Mt    int    `json:"mt"`
	S     string `json:"s"`
}

func b2i(b bool) int {
	if b {
		return 1
	}
	return 0
}

func isHexLetter(c byte) bool { return (c >= 'a' && c <= 'f') || (c >= 'A' && c <= 'F') }

func countLetters(s string) int {
	n := 0
	for i := 0; i < len(s); i++ {
		if isHexLetter(s[i]) {
			n++
		}
	}
	return n
}

// lexCase classifies the hex letters of s (digits only counts as lower).
func lexCase(s string) string {
	lo, up := 0, 0
	for i := 0; i < len(s); i++ {
		switch {
		case s[i] >= 'a' && s[i] <= 'f':
			lo++
		case s[i] >= 'A' && s[i] <= 'F':
			up++
		}
	}
	switch {
	case up == 0:
		return "lower"
	case lo == 0:
		return "upper"
	default:
		return "mixed"
	}
}

// parse runs both entry points on s and compares the result with the intended payload.
func (r *addrRow) parse(s string, payload []byte) {
	a, err := codec.StringToAddress(s)
	var a2 codec.Address
	err2 := a2.UnmarshalText([]byte(s))
	r.Acc, r.Acc2 = b2i(err == nil), b2i(err2 == nil)
	r.Same = b2i(err == nil && err2 == nil && len(payload) == codec.AddressLen && bytes.Equal(a[:], payload) && a == a2)
	r.S = s
}

func TestVerifAddressRecord(t *testing.T) {
	seed, _ := strconv.ParseInt(os.Getenv("VERIF_SEED"), 10, 64)
	k, _ := strconv.Atoi(os.Getenv("VERIF_K"))
	nFmt, _ := strconv.Atoi(os.Getenv("VERIF_FORMAT"))
	only := -1
	if v, err := strconv.Atoi(os.Getenv("VERIF_ONLY")); err == nil {
		only = v
	}
	var totals []int
	for _, f := range strings.Split(os.Getenv("VERIF_TOTALS"), ",") {
		v, err := strconv.Atoi(f)
		if err != nil {
			t.Fatalf("VERIF_TOTALS: %v", err)
		}
		totals = append(totals, v)
	}
	rng := rand.New(rand.NewSource(seed))
	f, err := os.Create(filepath.Join(os.Getenv("VERIF_OUT"), "rows_address.ndjson"))
	if err != nil {
		t.Fatal(err)
	}
	defer f.Close()
	w := bufio.NewWriter(f)
	defer w.Flush()
	w.WriteString("{\"ev\":\"reset\"}\n")
	n := 0
	emit := func(r *addrRow) {
		n++
		if only >= 0 && n != only {
			return
		}
		r.Ev = "row"
		b, _ := json.Marshal(r)
		w.Write(b)
		w.WriteByte('\n')
	}

	nonHex := []byte("gGzZ-_:. qQ")
	var skipped []string
	for _, pfx := range []string{"0x", "none"} {
		for _, hx := range []string{"valid", "odd", "nonhex"} {
			for _, total := range totals {
				for _, sum := range []string{"right", "wrong"} {
					if sum == "right" && total < verifChecksumLen {
						continue
					}
					for _, cs := range []string{"lower", "upper", "mixed"} {
						if total == 0 && cs != "lower" {
							continue
						}
						for i := 0; i < k; i++ {
							// bytes: payload ++ checksum (right) or payload ++ damaged checksum (wrong)
							var raw, payload []byte
							var digits string
							for try := 0; ; try++ {
								raw = make([]byte, total)
								rng.Read(raw)
								if total >= verifChecksumLen {
									payload = raw[:total-verifChecksumLen]
									copy(raw[total-verifChecksumLen:], hashing.Checksum(payload, verifChecksumLen))
									if sum == "wrong" {
										raw[total-verifChecksumLen+rng.Intn(verifChecksumLen)] ^= byte(1 << rng.Intn(8))
									}
								}
								digits = hex.EncodeToString(raw)
								need := map[string]int{"lower": 0, "upper": 1, "mixed": 2}[cs]
								if countLetters(digits) >= need {
									break
								}
								if try > 1000 {
									// e.g. 4 bytes with a right checksum are always 7852b855 (checksum of the empty
									// payload): one letter, no mixed-case spelling exists
									digits = ""
									break
								}
							}
							if digits == "" && total > 0 {
								skipped = append(skipped, pfx+"/"+hx+"/"+strconv.Itoa(total)+"/"+sum+"/"+cs)
								break
							}
							switch cs {
							case "upper":
								digits = strings.ToUpper(digits)
							case "mixed":
								bs := []byte(digits)
								letter := 0
								for j := range bs {
									if isHexLetter(bs[j]) {
										// first letter upper, second stays lower, the rest random
										if letter == 0 || (letter >= 2 && rng.Intn(2) == 0) {
											bs[j] &^= 0x20
										}
										letter++
									}
								}
								digits = string(bs)
							}
							if lexCase(digits) != cs {
								t.Fatalf("built %q for case %s", digits, cs)
							}
							switch hx {
							case "odd":
								d := string("0123456789abcdef"[rng.Intn(16)])
								switch which := rng.Intn(4); {
								case len(digits) > 0 && which == 0:
									digits = digits[:len(digits)-1]
								case len(digits) > 0 && which == 1:
									digits = digits[1:]
								case which == 2:
									digits = d + digits
								default:
									digits += d
								}
							case "nonhex":
								c := nonHex[rng.Intn(len(nonHex))]
								if len(digits) == 0 {
									digits = string([]byte{c, c})
								} else {
									bs := []byte(digits)
									bs[rng.Intn(len(bs))] = c
									digits = string(bs)
								}
							}
							s := digits
							if pfx == "0x" {
								s = "0x" + digits
							}
							r := &addrRow{Kind: "parse", Pfx: pfx, Hex: hx, Total: total, Sum: sum, Case: cs}
							r.parse(s, payload)
							emit(r)
						}
					}
				}
			}
		}
	}

	// "checksum material in the wrong place": strings whose LAST 4 bytes are not the checksum of the bytes before
	// them although checksum / hash material of a full-length address occurs elsewhere in the string.  The features
	// logged are the ones the string really has (lexed: decoded length, whether the last four bytes are the checksum of
	// everything before them), so the specification's verdict applies unchanged: all of them must be rejected, except
	// the occasional row whose lexed checksum is right by chance (features say so).
	nX, _ := strconv.Atoi(os.Getenv("VERIF_MISPLACED"))
	lexAndParse := func(family string, raw []byte, payload []byte, pfx string, upper bool) {
		digits := hex.EncodeToString(raw)
		if upper {
			digits = strings.ToUpper(digits)
		}
		r := &addrRow{Kind: "parse-x", Pfx: pfx, Hex: "valid", Total: len(raw), Sum: "wrong", Case: lexCase(digits)}
		if len(raw) >= verifChecksumLen {
			body, tail := raw[:len(raw)-verifChecksumLen], raw[len(raw)-verifChecksumLen:]
			if bytes.Equal(tail, hashing.Checksum(body, verifChecksumLen)) {
				r.Sum = "right"
				payload = body
			}
		}
		s := digits
		if pfx == "0x" {
			s = "0x" + digits
		}
		r.parse(s, payload)
		r.S = family + ":" + s
		emit(r)
	}
	cat := func(parts ...[]byte) []byte {
		var out []byte
		for _, p := range parts {
			out = append(out, p...)
		}
		return out
	}
	for i := 0; i < nX; i++ {
		var a codec.Address
		switch i {
		case 0: // zero address
		case 1:
			for j := range a {
				a[j] = 0xff
			}
		default:
			rng.Read(a[:])
		}
		addr := a[:]
		hash := hashing.ComputeHash256(addr)
		sum := hashing.Checksum(addr, verifChecksumLen)
		pfx := []string{"0x", "none"}[rng.Intn(2)]
		upper := rng.Intn(4) == 0
		// address ++ suffix of its hash, every length 0..32 except the real checksum length
		for l := 0; l <= len(hash); l++ {
			if l != verifChecksumLen {
				lexAndParse("addr+hash-suffix", cat(addr, hash[len(hash)-l:]), addr, pfx, upper)
			}
		}
		// address ++ prefix of its hash, address ++ a slice from the middle of the hash
		for _, l := range []int{1, 4, 8, 32} {
			lexAndParse("addr+hash-prefix", cat(addr, hash[:l]), addr, pfx, upper)
		}
		lexAndParse("addr+hash-middle", cat(addr, hash[10:14]), addr, pfx, upper)
		rev := []byte{sum[3], sum[2], sum[1], sum[0]}
		extra := make([]byte, 1+rng.Intn(6))
		rng.Read(extra)
		k := 1 + rng.Intn(codec.AddressLen-1)
		lexAndParse("addr+reversed-checksum", cat(addr, rev), addr, pfx, upper)
		lexAndParse("addr+checksum+extra", cat(addr, sum, extra), addr, pfx, upper)
		lexAndParse("addr+checksum+checksum", cat(addr, sum, sum), addr, pfx, upper)
		lexAndParse("addr+extra+checksum", cat(addr, extra, sum), addr, pfx, upper)
		lexAndParse("checksum+addr", cat(sum, addr), addr, pfx, upper)
		lexAndParse("extra+addr+checksum", cat(extra, addr, sum), addr, pfx, upper)
		lexAndParse("addr-split-around-checksum", cat(addr[:k], sum, addr[k:]), addr, pfx, upper)
		lexAndParse("addr+checksum-of-prefix", cat(addr, hashing.Checksum(addr[:k], verifChecksumLen)), addr, pfx, upper)
		lexAndParse("addr+checksum-of-addr+checksum", cat(addr, hashing.Checksum(cat(addr, sum), verifChecksumLen)), addr, pfx, upper)
		lexAndParse("prefix-of-addr+checksum-of-addr", cat(addr[:k], sum), addr, pfx, upper)
		lexAndParse("addr+zero-checksum", cat(addr, []byte{0, 0, 0, 0}), addr, pfx, upper)
		// the well-formed encoding itself, through the same builder (must be accepted when 0x + lower case)
		lexAndParse("addr+checksum", cat(addr, sum), addr, pfx, upper)
	}

	// "one digit off": the canonical text of an address with one hex digit removed (first / last / middle) or added
	// (front / back), for addresses whose first nibble is 0 (typeID 0x00-0x0f: dropping the leading 0 is what
	// minimal-width hex printers do) and for others.  Features are lexed from the digits: an odd number of digits is
	// hex "odd"; two edits give an even count, i.e. a wrong length.  All must be rejected.
	editDigits := func(family string, digits string, addr []byte, pfx string, upper bool) {
		if upper {
			digits = strings.ToUpper(digits)
		}
		r := &addrRow{Kind: "parse-x", Pfx: pfx, Hex: "valid", Total: len(digits) / 2, Sum: "wrong", Case: lexCase(digits)}
		payload := addr
		if len(digits)%2 == 1 {
			r.Hex = "odd"
		} else if raw, err := hex.DecodeString(digits); err != nil {
			r.Hex = "nonhex"
		} else if len(raw) >= verifChecksumLen {
			body, tail := raw[:len(raw)-verifChecksumLen], raw[len(raw)-verifChecksumLen:]
			if bytes.Equal(tail, hashing.Checksum(body, verifChecksumLen)) {
				r.Sum, payload = "right", body
			}
		}
		s := digits
		if pfx == "0x" {
			s = "0x" + digits
		}
		r.parse(s, payload)
		r.S = family + ":" + s
		emit(r)
	}
	for i := 0; i < nX; i++ {
		var a codec.Address
		rng.Read(a[:])
		switch i % 4 {
		case 0:
			a[0] = 0 // typeID 0: first two digits are 00
		case 1:
			a[0] = byte(rng.Intn(16)) // first nibble 0
		case 2:
			a[0] = byte(16 + rng.Intn(240)) // first nibble not 0
		}
		canon := hex.EncodeToString(append(append([]byte{}, a[:]...), hashing.Checksum(a[:], verifChecksumLen)...))
		pfx := []string{"0x", "none"}[rng.Intn(2)]
		upper := rng.Intn(4) == 0
		mid := 1 + rng.Intn(len(canon)-2)
		d := string("0123456789abcdef"[rng.Intn(16)])
		editDigits("drop-first-digit", canon[1:], a[:], pfx, upper)
		editDigits("drop-last-digit", canon[:len(canon)-1], a[:], pfx, upper)
		editDigits("drop-middle-digit", canon[:mid]+canon[mid+1:], a[:], pfx, upper)
		editDigits("prepend-zero-digit", "0"+canon, a[:], pfx, upper)
		editDigits("prepend-digit", d+canon, a[:], pfx, upper)
		editDigits("append-digit", canon+d, a[:], pfx, upper)
		editDigits("insert-middle-digit", canon[:mid]+d+canon[mid:], a[:], pfx, upper)
		editDigits("drop-first-two-digits", canon[2:], a[:], pfx, upper)
		editDigits("drop-first-and-last-digit", canon[1:len(canon)-1], a[:], pfx, upper)
		editDigits("prepend-two-zero-digits", "00"+canon, a[:], pfx, upper)
		editDigits("unchanged", canon, a[:], pfx, upper)
	}

	// format -> lex -> parse
	for i := 0; i < nFmt; i++ {
		var a codec.Address
		switch {
		case i == 0: // zero address
		case i == 1:
			for j := range a {
				a[j] = 0xff
			}
		default:
			rng.Read(a[:])
		}
		s := a.String()
		mt, err := a.MarshalText()
		r := &addrRow{Kind: "format", Pfx: "none", Hex: "valid", Sum: "wrong", Mt: b2i(err == nil && string(mt) == s)}
		digits := s
		if strings.HasPrefix(s, "0x") {
			r.Pfx, digits = "0x", s[2:]
		}
		r.Case = lexCase(digits)
		dec, err := hex.DecodeString(digits)
		switch {
		case err == nil:
			r.Total = len(dec)
			if len(dec) >= verifChecksumLen {
				p, c := dec[:len(dec)-verifChecksumLen], dec[len(dec)-verifChecksumLen:]
				if bytes.Equal(c, hashing.Checksum(p, verifChecksumLen)) {
					r.Sum = "right"
				}
				r.Pay = b2i(bytes.Equal(p, a[:]))
			}
		case len(digits)%2 == 1:
			r.Hex, r.Total = "odd", len(digits)/2
		default:
			r.Hex, r.Total = "nonhex", len(digits)/2
		}
		r.parse(s, a[:])
		emit(r)
	}
	w.Flush()
	if err := os.WriteFile(filepath.Join(os.Getenv("VERIF_OUT"), "address_summary.json"),
		[]byte(`{"rows":`+strconv.Itoa(n)+`,"uninstantiable":["`+strings.Join(skipped, `","`)+`"]}`), 0o644); err != nil {
		t.Fatal(err)
	}
}
