//go:build verif

// Driver for C39 (see /verif/DESIGN.md): records rows of the real metadata.HasConflictingPrefixes for
// spec/RulesPrefix_Trace.tla.  The complete domain of spec/RulesPrefix_MC.tla that the API can express (lists of
// 3..MaxN byte strings over {0,1} of length <= MaxLen; the first three become the MetadataManager's prefixes) is
// enumerated, followed by seeded random lists with longer strings, a larger alphabet and more entries.
package metadata_test

import (
	"bufio"
	"encoding/json"
	"math/rand"
	"os"
	"path/filepath"
	"strconv"
	"testing"

	"github.com/ava-labs/hypersdk/state/metadata"
)

type prefixRow struct {
	Ev   string  `json:"ev"`
	Kind string  `json:"kind"`
	P    [][]int `json:"p"`
	Res  int     `json:"res"`
}

func verifEnvInt(name string, def int) int {
	if v, err := strconv.Atoi(os.Getenv(name)); err == nil {
		return v
	}
	return def
}

func TestVerifPrefixRecord(t *testing.T) {
	seed := int64(verifEnvInt("VERIF_SEED", 1))
	maxN, maxLen := verifEnvInt("VERIF_MAXN", 4), verifEnvInt("VERIF_MAXLEN", 2)
	nRandom := verifEnvInt("VERIF_RANDOM", 2000)
	only := verifEnvInt("VERIF_ONLY", -1)
	rng := rand.New(rand.NewSource(seed))
	f, err := os.Create(filepath.Join(os.Getenv("VERIF_OUT"), "rows_prefix.ndjson"))
	if err != nil {
		t.Fatal(err)
	}
	defer f.Close()
	w := bufio.NewWriterSize(f, 1<<20)
	w.WriteString("{\"ev\":\"reset\"}\n")
	n := 0
	counts := map[string]int{}
	call := func(kind string, ps [][]byte) {
		n++
		if only >= 0 && n != only {
			return
		}
		// an empty prefix is passed as nil or as an empty slice, both must behave the same
		arg := make([][]byte, len(ps))
		for i, p := range ps {
			if len(p) == 0 && rng.Intn(2) == 0 {
				arg[i] = nil
			} else {
				arg[i] = append([]byte{}, p...)
			}
		}
		var vm [][]byte
		if len(arg) > 3 || rng.Intn(2) == 0 {
			vm = arg[3:]
		}
		res := metadata.HasConflictingPrefixes(metadata.NewManager(arg[0], arg[1], arg[2]), vm)
		r := prefixRow{Ev: "row", Kind: kind, P: make([][]int, len(ps))}
		for i, p := range ps {
			r.P[i] = make([]int, len(p))
			for j, b := range p {
				r.P[i][j] = int(b)
			}
		}
		if res {
			r.Res = 1
		}
		b, _ := json.Marshal(r)
		w.Write(b)
		w.WriteByte('\n')
		counts[kind]++
	}

	// all strings over {0,1} of length <= maxLen
	strs := [][]byte{{}}
	for start, l := 0, 1; l <= maxLen; l++ {
		end := len(strs)
		for _, s := range strs[start:end] {
			for _, c := range []byte{0, 1} {
				strs = append(strs, append(append([]byte{}, s...), c))
			}
		}
		start = end
	}
	var rec func(cur [][]byte)
	rec = func(cur [][]byte) {
		if len(cur) >= 3 {
			call("domain", cur)
		}
		if len(cur) == maxN {
			return
		}
		for _, s := range strs {
			rec(append(cur[:len(cur):len(cur)], s))
		}
	}
	rec(nil)

	for i := 0; i < nRandom; i++ {
		cnt := 3 + rng.Intn(8)
		alpha := []int{2, 3, 256}[rng.Intn(3)]
		ml := 1 + rng.Intn(6)
		noEmpty, derive := rng.Intn(3) > 0, rng.Intn(2) == 0
		ps := make([][]byte, cnt)
		for j := range ps {
			switch {
			case derive && j > 0 && rng.Intn(6) == 0: // extend or truncate an earlier entry
				src := ps[rng.Intn(j)]
				if len(src) > 0 && rng.Intn(2) == 0 {
					ps[j] = append([]byte{}, src[:rng.Intn(len(src))+1]...)
				} else {
					ps[j] = append(append([]byte{}, src...), byte(rng.Intn(alpha)))
				}
			default:
				if noEmpty {
					ps[j] = make([]byte, 1+rng.Intn(ml))
				} else {
					ps[j] = make([]byte, rng.Intn(ml+1))
				}
				for k := range ps[j] {
					ps[j][k] = byte(rng.Intn(alpha))
				}
			}
		}
		call("random", ps)
	}
	w.Flush()
	b, _ := json.Marshal(map[string]any{"rows": n, "counts": counts, "strings": len(strs)})
	if err := os.WriteFile(filepath.Join(os.Getenv("VERIF_OUT"), "prefix_summary.json"), b, 0o644); err != nil {
		t.Fatal(err)
	}
}
