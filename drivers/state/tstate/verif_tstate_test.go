//go:build verif

// Driver for C04/C05 (see /verif/DESIGN.md): records every public call on a real TStateView as ndjson
// (trace validation against spec/KV.tla) and replays TLC-generated behaviours of the KV machine (mbt).
package tstate_test

import (
	"context"
	"encoding/json"
	"errors"
	"fmt"
	"math/rand"
	"os"
	"path/filepath"
	"strconv"
	"testing"

	"github.com/ava-labs/avalanchego/database"
	"github.com/ava-labs/avalanchego/utils/maybe"

	"github.com/ava-labs/hypersdk/keys"
	"github.com/ava-labs/hypersdk/state"
	"github.com/ava-labs/hypersdk/state/tstate"
)

type mapStore map[string][]byte

func (m mapStore) GetValue(_ context.Context, k []byte) ([]byte, error) {
	if v, ok := m[string(k)]; ok {
		return v, nil
	}
	return nil, database.ErrNotFound
}

var verifKeyNames = []string{"k1", "k2", "k3", "k4"}

func realKey(name string) []byte { return keys.EncodeChunks([]byte(name), 1) }

var permBits = map[string]state.Permissions{"r": 1, "a": 2, "w": 4}

func scopeFrom(m map[string][]string) (state.Keys, map[string][]string) {
	ks := state.Keys{}
	for name, bits := range m {
		var p state.Permissions
		for _, b := range bits {
			p |= permBits[b]
		}
		ks[string(realKey(name))] = p
	}
	return ks, m
}

type harness struct {
	names   []string
	store   mapStore
	ts      *tstate.TState
	view    *tstate.TStateView
	scope   map[string][]string
	cps     []int
	lines   []map[string]any
	mutated bool
}

func newHarness(names []string, base, blk map[string]string, scope map[string][]string) *harness {
	h := &harness{names: names, store: mapStore{}, ts: tstate.New(4)}
	for k, v := range base {
		if v != "none" {
			h.store[string(realKey(k))] = []byte(v)
		}
	}
	ck := h.ts.ChangedKeys()
	for k, v := range blk {
		switch v {
		case "unset":
		case "none":
			ck[string(realKey(k))] = maybe.Nothing[[]byte]()
		default:
			ck[string(realKey(k))] = maybe.Some([]byte(v))
		}
	}
	h.open(scope)
	h.lines = append(h.lines, map[string]any{"ev": "reset", "base": full(names, base, "none"), "blk": full(names, blk, "unset"), "scope": fullScope(names, scope)})
	return h
}

func full(names []string, m map[string]string, def string) map[string]string {
	out := map[string]string{}
	for _, n := range verifKeyNames {
		out[n] = def
	}
	for k, v := range m {
		out[k] = v
	}
	return out
}

func fullScope(names []string, m map[string][]string) map[string][]string {
	out := map[string][]string{}
	for _, n := range verifKeyNames {
		out[n] = []string{}
	}
	for k, v := range m {
		out[k] = v
	}
	return out
}

func (h *harness) open(scope map[string][]string) {
	ks, _ := scopeFrom(scope)
	h.scope = scope
	h.view = h.ts.NewView(ks, h.store, 4)
	h.cps = nil
}

func has(bits []string, b string) bool {
	for _, x := range bits {
		if x == b {
			return true
		}
	}
	return false
}

// vis reads every key the scope lets us read, through the public GetValue only.
func (h *harness) vis() map[string]string {
	out := map[string]string{}
	for _, n := range h.names {
		if !has(h.scope[n], "r") {
			continue
		}
		v, err := h.view.GetValue(context.Background(), realKey(n))
		switch {
		case err == nil:
			out[n] = string(v)
		case errors.Is(err, database.ErrNotFound):
			out[n] = "none"
		default:
			out[n] = "error:" + err.Error()
		}
	}
	return out
}

func resOf(err error) string {
	switch {
	case err == nil:
		return "ok"
	case errors.Is(err, tstate.ErrInvalidKeyOrPermission):
		return "denied"
	default:
		return "error:" + err.Error()
	}
}

func (h *harness) changed() map[string]string {
	out := map[string]string{}
	ck := h.ts.ChangedKeys()
	for _, n := range verifKeyNames {
		v, ok := ck[string(realKey(n))]
		switch {
		case !ok:
			out[n] = "unset"
		case v.IsNothing():
			out[n] = "none"
		default:
			out[n] = string(v.Value())
		}
	}
	return out
}

func (h *harness) get(k string) string {
	v, err := h.view.GetValue(context.Background(), realKey(k))
	r := ""
	switch {
	case err == nil:
		r = string(v)
	case errors.Is(err, database.ErrNotFound):
		r = "none"
	default:
		r = resOf(err)
	}
	h.lines = append(h.lines, map[string]any{"ev": "get", "k": k, "res": r, "vis": h.vis()})
	return r
}

func (h *harness) insert(k, v string) string {
	r := resOf(h.view.Insert(context.Background(), realKey(k), []byte(v)))
	h.lines = append(h.lines, map[string]any{"ev": "insert", "k": k, "v": v, "res": r, "vis": h.vis()})
	return r
}

func (h *harness) remove(k string) string {
	r := resOf(h.view.Remove(context.Background(), realKey(k)))
	h.lines = append(h.lines, map[string]any{"ev": "remove", "k": k, "res": r, "vis": h.vis()})
	return r
}

func (h *harness) checkpoint() {
	h.cps = append(h.cps, h.view.OpIndex())
	h.lines = append(h.lines, map[string]any{"ev": "checkpoint", "vis": h.vis()})
}

func (h *harness) rollback(i int) { // 1-based checkpoint index
	h.view.Rollback(context.Background(), h.cps[i-1])
	h.cps = h.cps[:i]
	h.lines = append(h.lines, map[string]any{"ev": "rollback", "i": i, "vis": h.vis()})
}

func (h *harness) commit(next map[string][]string) {
	h.view.Commit()
	h.open(next)
	h.lines = append(h.lines, map[string]any{"ev": "commit", "scope": fullScope(h.names, next), "changed": h.changed(), "vis": h.vis()})
}

func (h *harness) discard(next map[string][]string) {
	h.open(next)
	h.lines = append(h.lines, map[string]any{"ev": "discard", "scope": fullScope(h.names, next), "changed": h.changed(), "vis": h.vis()})
}

func (h *harness) dump(t *testing.T, name string) {
	dir := os.Getenv("VERIF_OUT")
	f, err := os.Create(filepath.Join(dir, name+".ndjson"))
	if err != nil {
		t.Fatal(err)
	}
	defer f.Close()
	enc := json.NewEncoder(f)
	for _, l := range h.lines {
		if err := enc.Encode(l); err != nil {
			t.Fatal(err)
		}
	}
}

func envInt(name string, def int) int {
	if v, err := strconv.Atoi(os.Getenv(name)); err == nil {
		return v
	}
	return def
}

var allPerm = []string{"r", "a", "w"}

func randScope(r *rand.Rand, names []string, restricted bool) map[string][]string {
	out := map[string][]string{}
	for _, n := range names {
		if !restricted || r.Intn(3) == 0 {
			out[n] = allPerm
			continue
		}
		bits := []string{}
		for _, b := range allPerm {
			if r.Intn(3) != 0 {
				bits = append(bits, b)
			}
		}
		out[n] = bits
	}
	return out
}

// TestVerifTStateRecord records seeded random scenarios.  VERIF_SCOPES=1 draws restricted scopes (C05).
func TestVerifTStateRecord(t *testing.T) {
	if os.Getenv("VERIF_OUT") == "" {
		t.Skip("VERIF_OUT not set")
	}
	seed := int64(envInt("VERIF_SEED", 1))
	n := envInt("VERIF_SCENARIOS", 200)
	depth := envInt("VERIF_DEPTH", 40)
	restricted := os.Getenv("VERIF_SCOPES") == "1"
	vals := []string{"v1", "v2", "v3"}
	for s := 0; s < n; s++ {
		if only := os.Getenv("VERIF_ONLY"); only != "" && only != strconv.Itoa(s) {
			continue
		}
		r := rand.New(rand.NewSource(seed*1_000_003 + int64(s)))
		nk := 1 + r.Intn(len(verifKeyNames))
		if s%3 == 0 {
			nk = 1 + r.Intn(2) // small universes hit re-create / re-delete patterns densely
		}
		names := verifKeyNames[:nk]
		base, blk := map[string]string{}, map[string]string{}
		for _, k := range names {
			switch r.Intn(3) {
			case 0:
				base[k] = "none"
			default:
				base[k] = vals[r.Intn(len(vals))]
			}
			switch r.Intn(4) {
			case 0:
				blk[k] = "none"
			case 1:
				blk[k] = vals[r.Intn(len(vals))]
			default:
				blk[k] = "unset"
			}
		}
		h := newHarness(names, base, blk, randScope(r, names, restricted))
		for i := 0; i < depth; i++ {
			k := names[r.Intn(len(names))]
			switch x := r.Intn(20); {
			case x < 3:
				h.get(k)
			case x < 9:
				h.insert(k, vals[r.Intn(len(vals))])
			case x < 14:
				h.remove(k)
			case x < 16:
				if len(h.cps) < 4 {
					h.checkpoint()
				}
			case x < 18:
				if len(h.cps) > 0 {
					h.rollback(1 + r.Intn(len(h.cps)))
				}
			case x < 19:
				h.commit(randScope(r, names, restricted))
			default:
				h.discard(randScope(r, names, restricted))
			}
		}
		h.commit(randScope(r, names, false))
		h.dump(t, fmt.Sprintf("sc%05d", s))
	}
}

// ---- mbt: replay behaviours generated by TLC from spec/TStateView_Gen
type genStep struct {
	Op      string              `json:"op"`
	K       string              `json:"k"`
	V       string              `json:"v"`
	I       int                 `json:"i"`
	Scope   map[string][]string `json:"scope"`
	Res     string              `json:"res"`
	Cur     map[string]string   `json:"cur"`
	Blk     map[string]string   `json:"blk"`
	Base    map[string]string   `json:"base"`
	NextScp map[string][]string `json:"nscope"`
}

type mismatch struct {
	Behaviour int               `json:"behaviour"`
	Step      int               `json:"step"`
	Op        genStep           `json:"op"`
	What      string            `json:"what"`
	Got       map[string]string `json:"got"`
	GotRes    string            `json:"got_res"`
}

func TestVerifTStateReplay(t *testing.T) {
	dir := os.Getenv("VERIF_OUT")
	if dir == "" {
		t.Skip("VERIF_OUT not set")
	}
	raw, err := os.ReadFile(os.Getenv("VERIF_BEHAVIOURS"))
	if err != nil {
		t.Fatal(err)
	}
	var behs [][]genStep
	if err := json.Unmarshal(raw, &behs); err != nil {
		t.Fatal(err)
	}
	var bad []mismatch
	steps := 0
	for bi, b := range behs {
		var h *harness
		for si, st := range b {
			steps++
			gotRes := "ok"
			switch st.Op {
			case "init":
				names := []string{}
				for _, n := range verifKeyNames {
					if _, ok := st.Base[n]; ok {
						names = append(names, n)
					}
				}
				h = newHarness(names, st.Base, st.Blk, st.Scope)
				gotRes = "init"
			case "get":
				gotRes = h.get(st.K)
			case "insert":
				gotRes = h.insert(st.K, st.V)
			case "remove":
				gotRes = h.remove(st.K)
			case "checkpoint":
				h.checkpoint()
			case "rollback":
				h.rollback(st.I)
			case "commit":
				h.commit(st.Scope)
			case "discard":
				h.discard(st.Scope)
			default:
				t.Fatalf("unknown op %q", st.Op)
			}
			what := ""
			got := h.vis()
			if gotRes != st.Res {
				what = "result"
			}
			for k, v := range got {
				if st.Cur[k] != v {
					what += " visible(" + k + ")"
				}
			}
			if st.Op == "commit" || st.Op == "discard" || st.Op == "init" {
				ch := h.changed()
				for k, v := range st.Blk {
					if ch[k] != v {
						what += " changed(" + k + ")"
					}
				}
			}
			if what != "" {
				bad = append(bad, mismatch{bi, si, st, what, got, gotRes})
				break
			}
		}
	}
	out, _ := json.Marshal(map[string]any{"behaviours": len(behs), "steps": steps, "mismatches": bad})
	if err := os.WriteFile(filepath.Join(dir, "replay_result.json"), out, 0o644); err != nil {
		t.Fatal(err)
	}
}
