//go:build verif

// Driver for C40 (see /verif/DESIGN.md): records what the real TStateView.Insert does with size-suffixed keys, as
// ndjson rows for spec/Keys_Trace.tla (kind "insert").  Every row uses a fresh view whose scope grants every
// permission on the key (state.CompletePermissions, or a state.Keys map holding exactly that key), with the key
// absent from or present in the parent storage; the value is a slice of one 4 MiB+ buffer.  Logged: the key's
// length and last two bytes, the value length, what keys.NumChunks reports for it, Insert's result and whether
// GetValue returns the value afterwards.
package tstate_test

import (
	"bufio"
	"bytes"
	"context"
	"encoding/json"
	"errors"
	"math/rand"
	"os"
	"path/filepath"
	"strconv"
	"testing"

	"github.com/ava-labs/avalanchego/database"

	"github.com/ava-labs/hypersdk/keys"
	"github.com/ava-labs/hypersdk/state"
	"github.com/ava-labs/hypersdk/state/tstate"
)

type c40Store map[string][]byte

func (m c40Store) GetValue(_ context.Context, k []byte) ([]byte, error) {
	if v, ok := m[string(k)]; ok {
		return v, nil
	}
	return nil, database.ErrNotFound
}

func c40EnvInt(name string, def int) int {
	if v, err := strconv.Atoi(os.Getenv(name)); err == nil {
		return v
	}
	return def
}

func TestVerifC40InsertRecord(t *testing.T) {
	seed := int64(c40EnvInt("VERIF_SEED", 1))
	nRandom := c40EnvInt("VERIF_RANDOM", 1000)
	only := c40EnvInt("VERIF_ONLY", -1)
	rng := rand.New(rand.NewSource(seed))
	f, err := os.Create(filepath.Join(os.Getenv("VERIF_OUT"), "rows_insert.ndjson"))
	if err != nil {
		t.Fatal(err)
	}
	defer f.Close()
	w := bufio.NewWriterSize(f, 1<<20)
	w.WriteString("{\"ev\":\"reset\"}\n")
	const limit = 64 * 65535
	buf := make([]byte, limit+4096)
	rng.Read(buf[:1<<16])
	ctx := context.Background()
	n := 0
	counts := map[string]int{}

	insert := func(k []byte, size int, scopeKind string, exists bool) {
		n++
		if only >= 0 && n != only {
			return
		}
		store := c40Store{}
		if exists {
			store[string(k)] = []byte{^buf[0]} // differs from every candidate value
		}
		var scope state.Scope = state.CompletePermissions
		if scopeKind == "keys" {
			scope = state.Keys{string(k): state.All} // written directly: Keys.Add would refuse a short key
		}
		view := tstate.New(1).NewView(scope, store, 1)
		value := buf[:size]
		err := view.Insert(ctx, k, value)
		res := "ok"
		switch {
		case err == nil:
		case errors.Is(err, tstate.ErrInvalidKeyValue):
			res = "invalid-key-value"
		case errors.Is(err, tstate.ErrInvalidKeyOrPermission):
			res = "invalid-key-or-permission"
		default:
			res = "other-error"
		}
		got, gerr := view.GetValue(ctx, k)
		stored := 0
		if gerr == nil && bytes.Equal(got, value) {
			stored = 1
		}
		c, ok := keys.NumChunks(value)
		hi, lo := -1, -1
		if len(k) >= 1 {
			lo = int(k[len(k)-1])
		}
		if len(k) >= 2 {
			hi = int(k[len(k)-2])
		}
		nok := 0
		if ok {
			nok = 1
		}
		ex := 0
		if exists {
			ex = 1
		}
		b, _ := json.Marshal(map[string]any{"ev": "row", "kind": "insert", "klen": len(k), "hi": hi, "lo": lo, "n": size,
			"nok": nok, "nc": int(c), "ires": res, "stored": stored, "scope": scopeKind, "exists": ex})
		w.Write(b)
		w.WriteByte('\n')
		counts[res]++
	}
	mkKey := func(kl, s int) []byte {
		k := make([]byte, kl)
		rng.Read(k)
		if kl >= 2 {
			k[kl-2], k[kl-1] = byte(s>>8), byte(s)
		}
		return k
	}
	suffixes := []int{0, 1, 2, 255, 256, 65534, 65535}
	lens := []int{0, 1, 63, 64, 65, 127, 128, 64*65534 - 1, 64 * 65534, 64*65534 + 1, limit - 1, limit, limit + 1}
	for _, kl := range []int{0, 1, 2, 3, 4} {
		for _, s := range suffixes {
			if kl < 2 && s != suffixes[0] {
				continue
			}
			for _, size := range lens {
				for _, sc := range []string{"complete", "keys"} {
					for _, ex := range []bool{false, true} {
						insert(mkKey(kl, s), size, sc, ex)
					}
				}
			}
		}
	}
	for i := 0; i < nRandom; i++ {
		kl := rng.Intn(36)
		s := []int{rng.Intn(65536), rng.Intn(300), 65535 - rng.Intn(3)}[rng.Intn(3)]
		var size int
		switch rng.Intn(4) {
		case 0:
			size = rng.Intn(len(buf) + 1)
		case 1:
			size = rng.Intn(20000)
		default:
			size = 64*s - 2 + rng.Intn(4)
		}
		if size < 0 {
			size = 0
		}
		if size > len(buf) {
			size = len(buf)
		}
		insert(mkKey(kl, s), size, []string{"complete", "keys"}[rng.Intn(2)], rng.Intn(2) == 0)
	}
	w.Flush()
	b, _ := json.Marshal(map[string]any{"rows": n, "counts": counts})
	if err := os.WriteFile(filepath.Join(os.Getenv("VERIF_OUT"), "insert_summary.json"), b, 0o644); err != nil {
		t.Fatal(err)
	}
}
