//go:build verif

// Driver for C19 (see /verif/DESIGN.md, /verif/spec/ChainIndex.tla): runs histories of accepts (consecutive and
// after height gaps), historical saves and restarts (same or different window) on a real chainindex.ChainIndex
// over memdb and records, after every call, what the public getters report for every height in play.
package chainindex_test

import (
	"context"
	"encoding/binary"
	"encoding/json"
	"errors"
	"fmt"
	"math/rand"
	"os"
	"path/filepath"
	"strconv"
	"testing"

	"github.com/ava-labs/avalanchego/database"
	"github.com/ava-labs/avalanchego/database/memdb"
	"github.com/ava-labs/avalanchego/ids"
	"github.com/ava-labs/avalanchego/utils/hashing"
	"github.com/ava-labs/avalanchego/utils/logging"
	"github.com/prometheus/client_golang/prometheus"

	"github.com/ava-labs/hypersdk/chainindex"
)

type ciBlock struct{ height uint64 }

func (b *ciBlock) GetBytes() []byte  { return binary.BigEndian.AppendUint64([]byte("verif-block-"), b.height) }
func (b *ciBlock) GetID() ids.ID     { return hashing.ComputeHash256Array(b.GetBytes()) }
func (b *ciBlock) GetHeight() uint64 { return b.height }

type ciParser struct{}

func (ciParser) ParseBlock(_ context.Context, raw []byte) (*ciBlock, error) {
	p := len("verif-block-")
	if len(raw) != p+8 || string(raw[:p]) != "verif-block-" {
		return nil, fmt.Errorf("unexpected block bytes %x", raw)
	}
	return &ciBlock{binary.BigEndian.Uint64(raw[p:])}, nil
}

var errCiInjectedCrash = errors.New("verif: injected crash")

// ciCrashDB wraps the database handed to the index. While armed it lets `budget` more durable writes (Put, Delete,
// batch Write) through and fails every later one, as if the process had died at that point; reads always work.
type ciCrashDB struct {
	database.Database
	armed  bool
	budget int
	writes int // durable writes seen while armed (attempted)
}

func (c *ciCrashDB) allow() bool {
	if !c.armed {
		return true
	}
	c.writes++
	if c.budget == 0 {
		return false
	}
	c.budget--
	return true
}

func (c *ciCrashDB) Put(k, v []byte) error {
	if !c.allow() {
		return errCiInjectedCrash
	}
	return c.Database.Put(k, v)
}

func (c *ciCrashDB) Delete(k []byte) error {
	if !c.allow() {
		return errCiInjectedCrash
	}
	return c.Database.Delete(k)
}

func (c *ciCrashDB) NewBatch() database.Batch {
	return &ciCrashBatch{Batch: c.Database.NewBatch(), db: c}
}

type ciCrashBatch struct {
	database.Batch
	db *ciCrashDB
}

func (b *ciCrashBatch) Write() error {
	if !b.db.allow() {
		return errCiInjectedCrash
	}
	return b.Batch.Write()
}

func ciEnvInt(name string, def int) int {
	if v, err := strconv.Atoi(os.Getenv(name)); err == nil {
		return v
	}
	return def
}

type ciRec struct {
	t     *testing.T
	ctx   context.Context
	db    *ciCrashDB
	ci    *chainindex.ChainIndex[*ciBlock]
	freq  uint64
	maxH  uint64
	lines []map[string]any
}

func (r *ciRec) open(w uint64) error {
	ci, err := chainindex.New[*ciBlock](r.ctx, logging.NoLog{}, prometheus.NewRegistry(),
		chainindex.Config{AcceptedBlockWindow: w, BlockCompactionFrequency: r.freq}, ciParser{}, r.db)
	if err != nil {
		return err
	}
	r.ci = ci
	return nil
}

func ciRes(err error) string {
	if err == nil {
		return "ok"
	}
	return "err"
}

// observe queries every getter for every height in 0..maxH+1.
func (r *ciRec) observe(m map[string]any, err error) {
	byh, h2id, id2h, byid, bad := []int{}, []int{}, []int{}, []int{}, []string{}
	for h := uint64(0); h <= r.maxH+1; h++ {
		want := &ciBlock{h}
		if b, e := r.ci.GetBlockByHeight(r.ctx, h); e == nil {
			if b.GetHeight() == h && b.GetID() == want.GetID() {
				byh = append(byh, int(h))
			} else {
				bad = append(bad, fmt.Sprintf("GetBlockByHeight(%d)=block %d", h, b.GetHeight()))
			}
		} else if !errors.Is(e, database.ErrNotFound) {
			bad = append(bad, fmt.Sprintf("GetBlockByHeight(%d): %v", h, e))
		}
		if id, e := r.ci.GetBlockIDAtHeight(r.ctx, h); e == nil {
			if id == want.GetID() {
				h2id = append(h2id, int(h))
			} else {
				bad = append(bad, fmt.Sprintf("GetBlockIDAtHeight(%d)=other id", h))
			}
		} else if !errors.Is(e, database.ErrNotFound) {
			bad = append(bad, fmt.Sprintf("GetBlockIDAtHeight(%d): %v", h, e))
		}
		if hh, e := r.ci.GetBlockIDHeight(r.ctx, want.GetID()); e == nil {
			if hh == h {
				id2h = append(id2h, int(h))
			} else {
				bad = append(bad, fmt.Sprintf("GetBlockIDHeight(id %d)=%d", h, hh))
			}
		} else if !errors.Is(e, database.ErrNotFound) {
			bad = append(bad, fmt.Sprintf("GetBlockIDHeight(id %d): %v", h, e))
		}
		if b, e := r.ci.GetBlock(r.ctx, want.GetID()); e == nil {
			if b.GetHeight() == h && b.GetID() == want.GetID() {
				byid = append(byid, int(h))
			} else {
				bad = append(bad, fmt.Sprintf("GetBlock(id %d)=block %d", h, b.GetHeight()))
			}
		} else if !errors.Is(e, database.ErrNotFound) {
			bad = append(bad, fmt.Sprintf("GetBlock(id %d): %v", h, e))
		}
	}
	last := -1
	if la, e := r.ci.GetLastAcceptedHeight(r.ctx); e == nil {
		last = int(la)
	} else if !errors.Is(e, database.ErrNotFound) {
		bad = append(bad, "GetLastAcceptedHeight: "+e.Error())
	}
	m["res"] = ciRes(err)
	if err != nil {
		m["errtext"] = err.Error()
	}
	m["byh"], m["h2id"], m["id2h"], m["byid"], m["bad"], m["last"] = byh, h2id, id2h, byid, bad, last
	r.lines = append(r.lines, m)
}

func (r *ciRec) accept(h uint64) error {
	if h > r.maxH {
		r.maxH = h
	}
	err := r.ci.UpdateLastAccepted(r.ctx, &ciBlock{h})
	r.observe(map[string]any{"ev": "accept", "h": h}, err)
	return err
}

func (r *ciRec) save(h uint64) {
	err := r.ci.SaveHistorical(&ciBlock{h})
	r.observe(map[string]any{"ev": "save", "h": h}, err)
}

func (r *ciRec) restart(w uint64) {
	err := r.open(w)
	if err != nil {
		r.t.Fatalf("restart failed: %v", err) // a failing New on a healthy memdb is a harness problem for this driver
	}
	r.observe(map[string]any{"ev": "restart", "w": w}, nil)
}

// crash performs accept(h) / save(h) with every durable write after the k-th failing, then reopens the index (same
// window) on what reached the underlying memdb and observes it. Returns whether an injected failure was hit.
func (r *ciRec) crash(op string, h, k, w uint64) bool {
	if op == "accept" && h > r.maxH {
		r.maxH = h
	}
	r.db.armed, r.db.budget, r.db.writes = true, int(k), 0
	var err error
	if op == "accept" {
		err = r.ci.UpdateLastAccepted(r.ctx, &ciBlock{h})
	} else {
		err = r.ci.SaveHistorical(&ciBlock{h})
	}
	hit := r.db.writes > int(k) // a durable write of this call was refused
	r.db.armed = false
	if e := r.open(w); e != nil {
		r.t.Fatalf("reopen after crash failed: %v", e)
	}
	m := map[string]any{"ev": "crash", "op": op, "h": h, "k": k, "w": w, "injected": hit, "writes": r.db.writes}
	r.observe(m, nil)
	if err != nil {
		m["errtext"] = err.Error()
		if !errors.Is(err, errCiInjectedCrash) {
			m["res"] = "err" // an error that is not the injected one, on a healthy database
		}
	}
	return hit
}

func newCiRec(t *testing.T, w, freq uint64) *ciRec {
	r := &ciRec{t: t, ctx: context.Background(), db: &ciCrashDB{Database: memdb.New()}, freq: freq}
	if err := r.open(w); err != nil {
		t.Fatal(err)
	}
	r.lines = append(r.lines, map[string]any{"ev": "reset", "w": w})
	return r
}

func (r *ciRec) dump(name string) {
	f, err := os.Create(filepath.Join(os.Getenv("VERIF_OUT"), name+".ndjson"))
	if err != nil {
		r.t.Fatal(err)
	}
	defer f.Close()
	enc := json.NewEncoder(f)
	for _, l := range r.lines {
		if err := enc.Encode(l); err != nil {
			r.t.Fatal(err)
		}
	}
}

func (r *ciRec) stored(h uint64) bool {
	_, err := r.ci.GetBlockIDAtHeight(r.ctx, h)
	return err == nil
}

// TestVerifChainIndexRecord writes (c) the crash family (see below), (a) every history of VERIF_SYSDEPTH steps over a small op alphabet for windows
// 0..3 (systematic part) and (b) VERIF_SCENARIOS seeded random long histories.
func TestVerifChainIndexRecord(t *testing.T) {
	if os.Getenv("VERIF_OUT") == "" {
		t.Skip("VERIF_OUT not set")
	}
	seed := int64(ciEnvInt("VERIF_SEED", 1))
	scen := ciEnvInt("VERIF_SCENARIOS", 200)
	depth := ciEnvInt("VERIF_DEPTH", 40)
	sysDepth := ciEnvInt("VERIF_SYSDEPTH", 3)
	only := os.Getenv("VERIF_ONLY")
	stats := map[string]int{}

	// an accepted tip stays the last accepted height even when the call fails
	step := func(r *ciRec, w *uint64, tip *uint64, op int) {
		switch op {
		case 0, 1: // accept at tip+1 / after a gap at tip+3
			h := *tip + 1 + uint64(op)*2
			if *w > 0 && h > *w && !r.stored(h-*w) {
				stats["accept_with_prune_target_missing"]++
			}
			if r.accept(h) == nil {
				*tip = h
			} else {
				stats["accept_errors"]++
			}
		case 2, 3: // historical save at tip-1 / tip-3 (below the tip; may be below the window)
			d := uint64(1 + (op-2)*2)
			if *tip > d {
				if *w > 0 && *tip-d+*w <= *tip {
					stats["save_below_window"]++
				}
				r.save(*tip - d)
			}
		default: // restart with the same window, window 1, window 3
			nw := []uint64{*w, 1, 3}[op-4]
			if nw != *w {
				stats["restart_with_other_window"]++
			}
			*w = nw
			r.restart(nw)
		}
	}

	// (a) systematic
	n := 0
	for w0 := uint64(0); w0 <= 3; w0++ {
		total := 1
		for i := 0; i < sysDepth; i++ {
			total *= 7
		}
		for code := 0; code < total; code++ {
			name := fmt.Sprintf("sys-%05d", n)
			n++
			if only != "" && only != name {
				continue
			}
			r := newCiRec(t, w0, 1+uint64(code%5))
			w, tip := w0, uint64(0)
			r.accept(0)
			c := code
			for i := 0; i < sysDepth; i++ {
				step(r, &w, &tip, c%7)
				c /= 7
			}
			r.dump(name)
		}
	}

	// (c) crash family: windows 0..3; a prefix of consecutive accepts (optionally one historical save or a gap);
	// then an accept / gap accept / historical save cut short after k = 0..3 durable writes and a reopen; then two
	// more accepts and a clean restart.
	n = 0
	for w0 := uint64(0); w0 <= 3; w0++ {
		for pre := uint64(1); pre <= w0+3; pre++ {
			for variant := 0; variant < 3; variant++ { // plain / with a save below the tip / prefix ends with a gap
				for opi, op := range []string{"accept", "accept-gap", "save"} {
					for k := uint64(0); k <= 3; k++ {
						name := fmt.Sprintf("crs-%05d", n)
						n++
						if only != "" && only != name {
							continue
						}
						r := newCiRec(t, w0, 1+uint64((n+opi)%5))
						tip := uint64(0)
						r.accept(0)
						for h := uint64(1); h <= pre; h++ {
							r.accept(h)
							tip = h
						}
						if variant == 1 && tip > 1 {
							r.save(tip - 1)
						}
						if variant == 2 {
							r.accept(tip + 3)
							tip += 3
						}
						var hit bool
						switch op {
						case "accept":
							hit = r.crash("accept", tip+1, k, w0)
						case "accept-gap":
							hit = r.crash("accept", tip+4, k, w0)
						default:
							if tip < 2 {
								continue
							}
							hit = r.crash("save", tip-1, k, w0)
						}
						stats["crash_events"]++
						if hit {
							stats["crash_injected_failure_hit"]++
						}
						if la, e := r.ci.GetLastAcceptedHeight(r.ctx); e == nil && la > tip {
							tip = la
							if hit {
								stats["crash_hit_but_call_took_effect"]++
							}
						} else if hit && op != "save" {
							stats["crash_hit_and_call_lost"]++
						}
						r.accept(tip + 1)
						r.accept(tip + 2)
						r.restart(w0)
						r.dump(name)
					}
				}
			}
		}
	}

	// (b) seeded random long histories
	for s := 0; s < scen; s++ {
		name := fmt.Sprintf("rnd-%05d", s)
		if only != "" && only != name {
			continue
		}
		rg := rand.New(rand.NewSource(seed*1_000_003 + int64(s)))
		w := uint64(rg.Intn(6))
		r := newCiRec(t, w, 1+uint64(rg.Intn(8)))
		tip := uint64(0)
		r.accept(0)
		for k := 0; k < depth && tip < 80; k++ {
			switch c := rg.Intn(100); {
			case c < 55:
				if r.accept(tip+1) == nil {
					tip++
				} else {
					stats["accept_errors"]++
				}
			case c < 65:
				h := tip + 2 + uint64(rg.Intn(6))
				if w > 0 && h > w && !r.stored(h-w) {
					stats["accept_with_prune_target_missing"]++
				}
				if r.accept(h) == nil {
					tip = h
				} else {
					stats["accept_errors"]++
				}
			case c < 85:
				if tip > 1 {
					h := 1 + uint64(rg.Intn(int(tip-1)))
					if rg.Intn(2) == 0 && tip > 8 { // bias towards the neighbourhood of the window edge
						h = tip - 1 - uint64(rg.Intn(8))
					}
					if w > 0 && h+w <= tip {
						stats["save_below_window"]++
					}
					r.save(h)
				}
			case c < 93:
				nw := w
				if rg.Intn(2) == 0 {
					nw = uint64(rg.Intn(6))
					stats["restart_with_other_window"]++
				}
				w = nw
				r.restart(nw)
			default: // a call cut short after k durable writes, then reopen
				k := uint64(rg.Intn(3))
				stats["crash_events"]++
				if rg.Intn(4) == 0 && tip > 2 {
					if r.crash("save", 1+uint64(rg.Intn(int(tip-1))), k, w) {
						stats["crash_injected_failure_hit"]++
					}
				} else {
					h := tip + 1 + uint64(rg.Intn(2))*uint64(1+rg.Intn(4))
					if r.crash("accept", h, k, w) {
						stats["crash_injected_failure_hit"]++
					}
					if la, e := r.ci.GetLastAcceptedHeight(r.ctx); e == nil && la > tip {
						tip = la
					}
				}
			}
		}
		r.dump(name)
	}
	out, _ := json.Marshal(stats)
	if err := os.WriteFile(filepath.Join(os.Getenv("VERIF_OUT"), "record_stats.json"), out, 0o644); err != nil {
		t.Fatal(err)
	}
}
