//go:build verif

// X09 driver (see /verif/spec/DsmrHandlers.tla): the three p2p handlers of a DSMR node - the real GetChunkHandler, the
// real acp118 handler over ChunkSignatureRequestVerifier and the real ChunkCertificateGossipHandler - on one real
// ChunkStorage (memdb), driven with real wire messages.  Uses the validator set / chunk / certificate helpers of
// verif_node_common_test.go (read-only).  After every call: which of the scenario's chunks the node holds
// (GetChunkBytes), the pending weight per producer and the chunks with a stored certificate.
package dsmr

import (
	"context"
	"fmt"
	"math/rand"
	"runtime/debug"
	"strings"
	"testing"
	"time"

	"github.com/ava-labs/avalanchego/database/memdb"
	"github.com/ava-labs/avalanchego/ids"
	"github.com/ava-labs/avalanchego/network/p2p/acp118"
	"github.com/ava-labs/avalanchego/proto/pb/sdk"
	"github.com/ava-labs/avalanchego/snow/engine/common"
	"github.com/ava-labs/avalanchego/utils/crypto/bls"
	"github.com/ava-labs/avalanchego/utils/wrappers"
	"github.com/ava-labs/avalanchego/vms/platformvm/warp"
	"google.golang.org/protobuf/proto"

	"github.com/ava-labs/hypersdk/codec"
	"github.com/ava-labs/hypersdk/proto/pb/dsmr"
	"github.com/ava-labs/hypersdk/x/dsmr/dsmrtest"
)

type x09Chunk struct {
	n     int
	c     Chunk[dsmrtest.Tx]
	prod  string
	ok    bool
	class string
}

type x09World struct {
	t        *testing.T
	net      *vnNet
	storage  *ChunkStorage[dsmrtest.Tx]
	get      *GetChunkHandler[dsmrtest.Tx]
	sig      *acp118.Handler
	gossip   ChunkCertificateGossipHandler[dsmrtest.Tx]
	chunks   []*x09Chunk
	log      *vnLog
	stats    map[string]int
	unitSize int
}

func (w *x09World) refMessage(c Chunk[dsmrtest.Tx]) []byte {
	ref := ChunkReference{ChunkID: c.id, Producer: c.Producer, Expiry: c.Expiry}
	packer := wrappers.Packer{MaxSize: MaxMessageSize}
	if err := codec.LinearCodec.MarshalInto(ref, &packer); err != nil {
		w.t.Fatal(err)
	}
	msg, err := warp.NewUnsignedMessage(vnNetworkID, vnChainID, packer.Bytes)
	if err != nil {
		w.t.Fatal(err)
	}
	return msg.Bytes()
}

func (w *x09World) observe(line map[string]any) {
	held, certs := []int{}, []int{}
	for _, x := range w.chunks {
		if b, err := w.storage.GetChunkBytes(x.c.Expiry, x.c.id); err == nil && string(b) == string(x.c.bytes) {
			held = append(held, x.n)
		}
		if s, ok := w.storage.pendingChunkMap[x.c.id]; ok && s.Cert != nil {
			certs = append(certs, x.n)
		}
	}
	weights := map[string]int{}
	for i, v := range w.net.vals {
		weights[vnName("p", i)] = int(w.storage.pendingChunksSizes[v.id]) / w.unitSize
		if int(w.storage.pendingChunksSizes[v.id])%w.unitSize != 0 {
			weights[vnName("p", i)] = -1
		}
	}
	line["held"], line["certs"], line["weights"] = held, certs, weights
	w.log.add(line)
}

// call runs f and turns a panic of the code under test into a result
func x09Call(f func()) (panicked string) {
	defer func() {
		if r := recover(); r != nil {
			st := string(debug.Stack())
			where := "driver"
			for _, ln := range strings.Split(st, "\n") {
				if strings.Contains(ln, "/x/dsmr/") && !strings.Contains(ln, "verif_") {
					where = strings.TrimSpace(ln)
					break
				}
			}
			panicked = fmt.Sprintf("%v at %s", r, where)
		}
	}()
	f()
	return ""
}

func (w *x09World) sigRequest(m, j *x09Chunk, garbage bool) {
	req := &sdk.SignatureRequest{Message: w.refMessage(m.c)}
	jn := 0
	if garbage {
		req.Justification = []byte{0xde, 0xad, 0xbe, 0xef}
	} else {
		req.Justification = j.c.bytes
		jn = j.n
	}
	reqBytes, err := proto.Marshal(req)
	if err != nil {
		w.t.Fatal(err)
	}
	var resp []byte
	var appErr *common.AppError
	p := x09Call(func() {
		resp, appErr = w.sig.AppRequest(context.Background(), w.net.vals[1].id, time.Now(), reqBytes)
	})
	res, sigValid := "refused", false
	switch {
	case p != "":
		res = "panic"
	case appErr == nil:
		res = "signed"
		out := &sdk.SignatureResponse{}
		if err := proto.Unmarshal(resp, out); err == nil {
			if s, err := bls.SignatureFromBytes(out.Signature); err == nil {
				sigValid = bls.Verify(w.net.vals[0].pk, s, req.Message)
			}
		}
	}
	w.stats["sig_"+res]++
	if res == "signed" && m != j {
		w.stats["signed_unrelated_message"]++
	}
	w.observe(map[string]any{"ev": "sig", "m": m.n, "j": jn, "res": res, "sigvalid": sigValid, "panic": p})
}

func (w *x09World) getChunk(x *x09Chunk, garbage bool) {
	req := &dsmr.GetChunkRequest{ChunkId: x.c.id[:], Expiry: x.c.Expiry}
	reqBytes, _ := proto.Marshal(req)
	if garbage {
		reqBytes = []byte{0xff, 0xff, 0xff}
	}
	var resp []byte
	var appErr *common.AppError
	p := x09Call(func() {
		resp, appErr = w.get.AppRequest(context.Background(), w.net.vals[1].id, time.Now(), reqBytes)
	})
	res := "error"
	switch {
	case p != "":
		res = "panic"
	case appErr == nil:
		out := &dsmr.GetChunkResponse{}
		if err := proto.Unmarshal(resp, out); err == nil && string(out.Chunk) == string(x.c.bytes) {
			res = "served"
		} else {
			res = "wrong-bytes"
		}
	case appErr.Code == ErrChunkNotAvailable.Code:
		res = "not-available"
	}
	w.stats["get_"+res]++
	w.observe(map[string]any{"ev": "get", "c": x.n, "garbage": garbage, "res": res, "panic": p})
}

func (w *x09World) gossipCert(x *x09Chunk, good bool) {
	cert := w.net.makeCert(x.c)
	if !good {
		cert.Signature.Signature[5] ^= 0x55
	}
	packer := wrappers.Packer{MaxSize: MaxMessageSize}
	if err := codec.LinearCodec.MarshalInto(cert, &packer); err != nil {
		w.t.Fatal(err)
	}
	b, _ := proto.Marshal(&dsmr.ChunkCertificateGossip{ChunkCertificate: packer.Bytes})
	p := x09Call(func() { w.gossip.AppGossip(context.Background(), w.net.vals[1].id, b) })
	w.stats["gossip"]++
	w.observe(map[string]any{"ev": "gossip", "c": x.n, "good": good, "panic": p})
}

func (w *x09World) expire(t int64) {
	err := w.storage.SetMin(t, nil)
	w.stats["expire"]++
	w.observe(map[string]any{"ev": "expire", "t": int(t), "err": vnErrString(err), "panic": ""})
}

func TestVerifDsmrHandlers(t *testing.T) {
	seed := int64(vnEnvInt("VERIF_SEED", 1))
	only := vnEnvInt("VERIF_ONLY", -1)
	n := vnEnvInt("VERIF_SCENARIOS", 60)
	depth := vnEnvInt("VERIF_DEPTH", 18)
	stats := map[string]int{}
	for i := 0; i < n; i++ {
		if only >= 0 && only != i {
			continue
		}
		rng := rand.New(rand.NewSource(seed*1_000_003 + int64(i)))
		net := newVnNet(t, 2, 100)
		// other keys: validator 2 of this set has a node id that is not in net's validator set; validator 0 has the
		// node id of net's validator 0 but another BLS key
		stranger := newVnNet(t, 3, 100)
		w := &x09World{t: t, net: net, log: &vnLog{}, stats: stats}
		// chunks: 3-4 valid ones per validator with expiries 10..40, one of a non-validator, one already expired
		mk := func(c Chunk[dsmrtest.Tx], prod string, ok bool, class string) {
			w.chunks = append(w.chunks, &x09Chunk{n: len(w.chunks) + 1, c: c, prod: prod, ok: ok, class: class})
		}
		for k := 0; k < 3+rng.Intn(2); k++ {
			for v := 0; v < 2; v++ {
				mk(net.makeChunk(v, int64(10+10*rng.Intn(4)), ids.GenerateTestID()), vnName("p", v), true, "ok")
			}
		}
		mk(stranger.makeChunk(2, 20, ids.GenerateTestID()), "stranger", false, "non-validator")
		mk(stranger.makeChunk(0, 30, ids.GenerateTestID()), "p0", false, "forged")
		mk(net.makeChunk(0, 500, ids.GenerateTestID()), "p0", false, "too-far-ahead") // expiry > min + window
		w.unitSize = len(w.chunks[0].c.bytes)
		for _, x := range w.chunks {
			if x.ok && len(x.c.bytes) != w.unitSize {
				t.Fatalf("verif harness: chunks of different sizes (%d, %d)", len(x.c.bytes), w.unitSize)
			}
		}
		limit := 1 + rng.Intn(3)
		rules := vnRules{window: net.window, limit: uint64(limit*w.unitSize + w.unitSize/2)}
		verifier := NewChunkVerifier[dsmrtest.Tx](net.cs, rules)
		storage, err := NewChunkStorage[dsmrtest.Tx](verifier, memdb.New(), rules)
		if err != nil {
			t.Fatal(err)
		}
		w.storage = storage
		w.get = &GetChunkHandler[dsmrtest.Tx]{storage: storage}
		w.sig = acp118.NewHandler(ChunkSignatureRequestVerifier[dsmrtest.Tx]{verifier: verifier, storage: storage},
			warp.NewSigner(net.vals[0].sk, vnNetworkID, vnChainID))
		w.gossip = ChunkCertificateGossipHandler[dsmrtest.Tx]{storage: storage}
		desc := []map[string]any{}
		for _, x := range w.chunks {
			desc = append(desc, map[string]any{"n": x.n, "prod": x.prod, "ok": x.ok, "class": x.class, "expiry": int(x.c.Expiry)})
		}
		w.log.add(map[string]any{"ev": "reset", "limit": limit, "chunks": desc})
		min := int64(0)
		for s := 0; s < depth; s++ {
			x := w.chunks[rng.Intn(len(w.chunks))]
			switch r := rng.Intn(20); {
			case r < 8:
				w.sigRequest(x, x, false)
			case r < 10:
				w.sigRequest(x, w.chunks[rng.Intn(len(w.chunks))], false) // message and justification unrelated (mostly)
			case r == 10:
				w.sigRequest(x, x, true)
			case r < 15:
				w.getChunk(x, rng.Intn(10) == 0)
			case r < 18:
				w.gossipCert(x, rng.Intn(4) != 0)
			default:
				if min < 40 {
					min += 10
					verifier.SetMin(min)
					w.expire(min)
				}
			}
		}
		w.log.dump(t, fmt.Sprintf("p2p-%05d", i))
		stats["scenarios"]++
	}
	l := &vnLog{}
	line := map[string]any{"ev": "stats"}
	for k, v := range stats {
		line[k] = v
	}
	l.add(line)
	l.dump(t, "stats-p2p")
}
