//go:build verif

// Driver for C37 (see /verif/DESIGN.md, spec/DSMRNodeChain*.tla): seeded chains on a real dsmr.Node with the
// real TimeValidityWindow.  Blocks are built by Node.BuildBlock or assembled by hand (re-using certificates of
// ancestors, expired certificates, duplicates), every Verify / BuildBlock / Accept result is logged.
package dsmr

import (
	"context"
	"errors"
	"math/rand"
	"os"
	"strconv"
	"testing"
	"time"

	"github.com/ava-labs/avalanchego/ids"

	"github.com/ava-labs/hypersdk/x/dsmr/dsmrtest"
)

var vchCertNames = []string{"x1", "x2", "x3", "x4", "x5"}

type vchCert struct {
	name  string
	chunk Chunk[dsmrtest.Tx]
	cert  *ChunkCertificate
}

type vchBlock struct {
	name   string
	parent string
	blk    Block
	certs  []string
}

type vchScenario struct {
	t       *testing.T
	net     *vnNet
	n       *vnNode
	certs   map[string]*vchCert
	byID    map[ids.ID]string
	blocks  map[string]*vchBlock
	byBlkID map[ids.ID]string
	lastAcc string
	nblocks int
	log     vnLog
}

func newVchScenario(t *testing.T, net *vnNet, r *rand.Rand, maxE int64) *vchScenario {
	s := &vchScenario{t: t, net: net, n: net.newNode(0, nil, nil), certs: map[string]*vchCert{}, byID: map[ids.ID]string{},
		blocks: map[string]*vchBlock{"g": {name: "g", parent: "none", blk: Block{}}}, byBlkID: map[ids.ID]string{ids.Empty: "g"}, lastAcc: "g"}
	exp := map[string]int64{}
	for _, name := range vchCertNames {
		var txID ids.ID
		r.Read(txID[:])
		e := 1 + r.Int63n(maxE)
		ch := net.makeChunk(0, e, txID)
		s.certs[name] = &vchCert{name: name, chunk: ch, cert: net.makeCert(ch)}
		s.byID[ch.id] = name
		exp[name] = e
	}
	s.log.add(map[string]any{"ev": "reset", "exp": exp, "win": net.window})
	return s
}

func (s *vchScenario) onAcceptedBranch(name string) bool { // lastAcc is name or an ancestor of name
	for cur := name; ; cur = s.blocks[cur].parent {
		if cur == s.lastAcc {
			return true
		}
		if cur == "g" || cur == "none" {
			return false
		}
	}
}

func (s *vchScenario) tips() []string {
	out := []string{}
	for i := 0; i <= s.nblocks; i++ {
		name := "g"
		if i > 0 {
			name = vnName("b", i)
		}
		if b, ok := s.blocks[name]; ok && b != nil && s.onAcceptedBranch(name) {
			out = append(out, name)
		}
	}
	return out
}

func (s *vchScenario) chainCerts(name string) []string {
	out := []string{}
	for cur := name; cur != "g"; cur = s.blocks[cur].parent {
		out = append(out, s.blocks[cur].certs...)
	}
	return out
}

// addCert offers the chunk and then its certificate to the node's storage the way peers do (signature request, then
// certificate gossip): the real ChunkVerifier decides whether the chunk is admitted (expiry within the validity window
// of the storage minimum).
func (s *vchScenario) addCert(name string) bool {
	c := s.certs[name]
	res := "ok"
	if _, err := s.n.storage.VerifyRemoteChunk(c.chunk); err != nil {
		res = "rejected"
	} else if err := s.n.storage.SetChunkCert(context.Background(), c.chunk.id, c.cert); err != nil {
		s.t.Fatalf("verif harness: SetChunkCert: %v", err)
	}
	s.log.add(map[string]any{"ev": "addcert", "c": name, "res": res})
	return res == "ok"
}

func (s *vchScenario) certNames(cs []*ChunkCertificate) []string {
	out := make([]string, len(cs))
	for i, c := range cs {
		if n, ok := s.byID[c.ChunkID]; ok {
			out[i] = n
		} else {
			out[i] = "unknown"
		}
	}
	return out
}

// verify logs Node.Verify(parent, blk) and registers the block when it verified
func (s *vchScenario) verify(parent string, blk Block, how string) string {
	if _, dup := s.byBlkID[blk.GetID()]; dup {
		return ""
	}
	p := s.blocks[parent]
	err := s.n.node.Verify(context.Background(), p.blk, blk)
	name := vnName("b", s.nblocks+1)
	certs := s.certNames(blk.ChunkCerts)
	res := "ok"
	if err != nil {
		res = "err"
	}
	s.log.add(map[string]any{"ev": "verify", "b": name, "parent": parent, "h": int(blk.Height), "ts": blk.Timestamp,
		"certs": certs, "res": res, "err": vnErrString(err), "how": how})
	if err != nil {
		return ""
	}
	s.nblocks++
	s.blocks[name] = &vchBlock{name: name, parent: parent, blk: blk, certs: certs}
	s.byBlkID[blk.GetID()] = name
	s.n.index.add(blk)
	return name
}

func (s *vchScenario) build(parent string, ts int64) string {
	p := s.blocks[parent]
	blk, err := s.n.node.BuildBlock(context.Background(), p.blk, ts)
	res := "ok"
	certs := []string{}
	switch {
	case errors.Is(err, ErrNoAvailableChunkCerts):
		res = "nocerts"
	case err != nil:
		res = "err"
	default:
		certs = s.certNames(blk.ChunkCerts)
	}
	s.log.add(map[string]any{"ev": "build", "parent": parent, "h": int(p.blk.Height) + 1, "ts": ts, "certs": certs, "res": res,
		"err": vnErrString(err)})
	if err != nil {
		return ""
	}
	return s.verify(parent, blk, "built")
}

// accept a verified child of the last accepted block; false = scenario must stop
func (s *vchScenario) accept(name string) bool {
	b := s.blocks[name]
	for _, cn := range b.certs {
		c := s.certs[cn]
		if _, err := s.n.storage.GetChunkBytes(c.chunk.Expiry, c.chunk.id); err != nil {
			// Accept would ask peers for the chunk forever: make it available first (as the producer's node would have it)
			if !s.addCert(cn) {
				return true // not admissible now, the block stays processing
			}
		}
	}
	eb, err, returned := vnAccept(s.n.node, b.blk, 60*time.Second)
	if !returned {
		s.t.Fatalf("verif harness: Accept of %s did not return within 60s", name)
	}
	chunks := []string{}
	for _, c := range eb.Chunks {
		if n, ok := s.byID[c.id]; ok {
			chunks = append(chunks, n)
		} else {
			chunks = append(chunks, "unknown")
		}
	}
	res := "ok"
	if err != nil {
		res = "err"
	}
	s.log.add(map[string]any{"ev": "accept", "b": name, "res": res, "err": vnErrString(err), "chunks": chunks})
	if err != nil {
		return false
	}
	s.lastAcc = name
	drop := []string{}
	for n := range s.blocks {
		if n != "g" && !s.onAcceptedBranch(n) && !s.isAncestorOf(n, name) {
			drop = append(drop, n)
		}
	}
	for _, n := range drop {
		delete(s.blocks, n)
	}
	return true
}

func (s *vchScenario) isAncestorOf(a, b string) bool {
	for cur := b; cur != "none"; cur = s.blocks[cur].parent {
		if cur == a {
			return true
		}
		if cur == "g" {
			break
		}
	}
	return false
}

func (s *vchScenario) children(of string) []string {
	out := []string{}
	for i := 1; i <= s.nblocks; i++ {
		if b, ok := s.blocks[vnName("b", i)]; ok && b.parent == of {
			out = append(out, b.name)
		}
	}
	return out
}

// TestVerifChainRecord records seeded scenarios (tv).
func TestVerifChainRecord(t *testing.T) {
	if os.Getenv("VERIF_OUT") == "" {
		t.Skip("VERIF_OUT not set")
	}
	seed := int64(vnEnvInt("VERIF_SEED", 1))
	n := vnEnvInt("VERIF_SCENARIOS", 60)
	depth := vnEnvInt("VERIF_DEPTH", 14)
	nets := map[int64]*vnNet{}
	for sc := 0; sc < n; sc++ {
		if only := os.Getenv("VERIF_ONLY"); only != "" && only != strconv.Itoa(sc) {
			continue
		}
		r := rand.New(rand.NewSource(seed*1_000_003 + int64(sc)))
		win := int64(2 + r.Intn(3))
		if nets[win] == nil {
			nets[win] = newVnNet(t, 1, win)
		}
		s := newVchScenario(t, nets[win], r, win+int64(1+r.Intn(6)))
		for _, i := range r.Perm(len(vchCertNames)) {
			s.addCert(vchCertNames[i])
		}
		for step := 0; step < depth; step++ {
			tips := s.tips()
			tip := tips[r.Intn(len(tips))]
			if r.Intn(3) == 0 {
				tip = tips[len(tips)-1]
			}
			ts := s.blocks[tip].blk.Timestamp + 1 + int64(r.Intn(3))
			switch k := r.Intn(100); {
			case k < 16:
				s.addCert(vchCertNames[r.Intn(len(vchCertNames))])
			case k < 32:
				s.build(tip, ts)
			case k < 72:
				// adversarial proposer: 1..3 certificates, biased towards certificates already on this chain
				used := s.chainCerts(tip)
				var names []string
				for i, m := 0, 1+r.Intn(3); i < m; i++ {
					switch {
					case len(used) > 0 && r.Intn(2) == 0:
						names = append(names, used[r.Intn(len(used))])
					case len(names) > 0 && r.Intn(8) == 0:
						names = append(names, names[r.Intn(len(names))])
					default:
						names = append(names, vchCertNames[r.Intn(len(vchCertNames))])
					}
				}
				certs := make([]*ChunkCertificate, len(names))
				for i, nm := range names {
					certs[i] = s.certs[nm].cert
				}
				s.verify(tip, vnMakeBlock(t, s.blocks[tip].blk, s.blocks[tip].blk.Height+1, ts, certs), "hand")
			default:
				kids := s.children(s.lastAcc)
				if len(kids) == 0 {
					if b := s.build(s.lastAcc, s.blocks[s.lastAcc].blk.Timestamp+1+int64(r.Intn(3))); b != "" {
						kids = []string{b}
					}
				}
				if len(kids) > 0 {
					if !s.accept(kids[r.Intn(len(kids))]) {
						step = depth
					}
				}
			}
		}
		s.log.dump(t, "ch"+vnName("", 100000+sc)[1:])
	}
}
