//go:build verif

// Driver for C36 (see /verif/DESIGN.md, spec/DSMRStorage*.tla): records seeded random histories of the
// real ChunkStorage (adds, certificate updates, minimum advances that save / expire chunks, and
// NewChunkStorage on the same database) as ndjson for trace validation, and replays TLC-generated
// behaviours of the DSMRStorage model on the real storage.
// In-package because minimumExpiry and the pending map have no exported reader.
package dsmr

import (
	"bytes"
	"context"
	"encoding/json"
	"errors"
	"fmt"
	"math/rand"
	"os"
	"path/filepath"
	"sort"
	"strconv"
	"testing"

	"github.com/ava-labs/avalanchego/database"
	"github.com/ava-labs/avalanchego/database/memdb"
	"github.com/ava-labs/avalanchego/ids"
	"github.com/ava-labs/avalanchego/vms/platformvm/warp"
	"github.com/prometheus/client_golang/prometheus"

	"github.com/ava-labs/hypersdk/codec"
	"github.com/ava-labs/hypersdk/internal/pebble"
	"github.com/ava-labs/hypersdk/x/dsmr/dsmrtest"
)

var (
	vstChunkNames    = []string{"c1", "c2", "c3", "c4", "c5"}
	vstProducerNames = []string{"p1", "p2", "p3"}
)

// scripted verifier: the driver decides the verdicts, the storage only consults it
type vstVerifier struct {
	rejectChunk bool
	rejectCert  bool
}

func (v *vstVerifier) Verify(Chunk[dsmrtest.Tx]) error {
	if v.rejectChunk {
		return errors.New("verif: scripted chunk rejection")
	}
	return nil
}
func (*vstVerifier) SetMin(int64) {}
func (v *vstVerifier) VerifyCertificate(context.Context, *ChunkCertificate) error {
	if v.rejectCert {
		return errors.New("verif: scripted certificate rejection")
	}
	return nil
}

// rule factory with a limit the driver can move (used to read the per-producer weight through CheckRateLimit)
type vstRules struct{ limit *uint64 }

func (r vstRules) GetRules(int64) Rules                          { return r }
func (vstRules) GetValidityWindow() int64                        { return 1 << 40 }
func (r vstRules) GetMaxAccumulatedProducerChunkWeight() uint64 { return *r.limit }

// vstCrashDB counts the individual durable writes of the storage (Put, Delete, Batch.Write).  Once armed it lets
// `budget` more writes through and refuses every later one, as if the process had died at that point.
type vstCrashDB struct {
	database.Database
	armed   bool
	budget  int
	tripped bool
	writes  int
}

var errVstCrash = errors.New("verif: injected crash")

func (c *vstCrashDB) allow() bool {
	if !c.armed {
		return true
	}
	if c.tripped || c.budget == 0 {
		c.tripped = true
		return false
	}
	c.budget--
	c.writes++
	return true
}

func (c *vstCrashDB) Put(k, v []byte) error {
	if !c.allow() {
		return errVstCrash
	}
	return c.Database.Put(k, v)
}

func (c *vstCrashDB) Delete(k []byte) error {
	if !c.allow() {
		return errVstCrash
	}
	return c.Database.Delete(k)
}

func (c *vstCrashDB) NewBatch() database.Batch {
	return &vstCrashBatch{Batch: c.Database.NewBatch(), db: c}
}

type vstCrashBatch struct {
	database.Batch
	db *vstCrashDB
}

func (b *vstCrashBatch) Write() error {
	if !b.db.allow() {
		return errVstCrash
	}
	return b.Batch.Write()
}

type vstChunk struct {
	name  string
	prod  string
	chunk Chunk[dsmrtest.Tx]
	cert  *ChunkCertificate
}

type vstHarness struct {
	t        *testing.T
	chunks   map[string]*vstChunk
	probes   map[string]Chunk[dsmrtest.Tx] // one chunk per producer used to probe the weight
	total    uint64
	limit    uint64
	verifier *vstVerifier
	db       database.Database
	cdb      *vstCrashDB
	dir      string // pebble directory ("" = memdb)
	st       *ChunkStorage[dsmrtest.Tx]
	lines    []map[string]any
}

func vstNodeID(i int) ids.NodeID { return ids.NodeID{0xAA, byte(i + 1)} }

func vstMakeChunk(r *rand.Rand, prod int, expiry int64, ntx int) (Chunk[dsmrtest.Tx], error) {
	txs := make([]dsmrtest.Tx, ntx)
	for i := range txs {
		var id ids.ID
		r.Read(id[:])
		txs[i] = dsmrtest.Tx{ID: id, Expiry: 1_000_000}
	}
	return newChunk(UnsignedChunk[dsmrtest.Tx]{Producer: vstNodeID(prod), Beneficiary: codec.Address{}, Expiry: expiry, Txs: txs},
		[48]byte{}, [96]byte{})
}

// cfg: per chunk name -> (producer index, expiry, number of txs)
type vstCfg struct {
	Prod int   `json:"p"`
	Exp  int64 `json:"e"`
	NTx  int   `json:"n"`
}

func newVstHarness(t *testing.T, r *rand.Rand, cfg map[string]vstCfg, usePebble bool) *vstHarness {
	h := &vstHarness{t: t, chunks: map[string]*vstChunk{}, probes: map[string]Chunk[dsmrtest.Tx]{}, verifier: &vstVerifier{}}
	attr := map[string]any{}
	for _, name := range vstChunkNames {
		c := cfg[name]
		ch, err := vstMakeChunk(r, c.Prod, c.Exp, c.NTx)
		if err != nil {
			t.Fatalf("verif harness: chunk: %v", err)
		}
		cert := &ChunkCertificate{ChunkReference: ChunkReference{ChunkID: ch.id, Producer: ch.Producer, Expiry: ch.Expiry},
			Signature: &warp.BitSetSignature{}}
		h.chunks[name] = &vstChunk{name: name, prod: vstProducerNames[c.Prod], chunk: ch, cert: cert}
		h.total += uint64(len(ch.bytes))
		attr[name] = map[string]any{"p": vstProducerNames[c.Prod], "e": c.Exp, "sz": len(ch.bytes)}
	}
	for i, p := range vstProducerNames {
		pc, err := vstMakeChunk(r, i, 1, 1)
		if err != nil {
			t.Fatalf("verif harness: probe: %v", err)
		}
		h.probes[p] = pc
	}
	h.limit = 1 << 40
	if usePebble {
		h.dir = t.TempDir()
	}
	h.openDB()
	h.open()
	h.lines = append(h.lines, h.obs(map[string]any{"ev": "reset", "chunks": attr, "db": map[bool]string{true: "pebble", false: "memdb"}[usePebble]}))
	return h
}

func (h *vstHarness) openDB() {
	if h.dir == "" {
		if h.db == nil {
			h.db = memdb.New()
		}
		return
	}
	if h.db != nil {
		if err := h.db.Close(); err != nil {
			h.t.Fatalf("verif harness: close: %v", err)
		}
	}
	db, err := pebble.New(h.dir, pebble.NewDefaultConfig(), prometheus.NewRegistry())
	if err != nil {
		h.t.Fatalf("verif harness: pebble: %v", err)
	}
	h.db = db
}

func (h *vstHarness) open() {
	h.cdb = &vstCrashDB{Database: h.db}
	st, err := NewChunkStorage[dsmrtest.Tx](h.verifier, h.cdb, vstRules{limit: &h.limit})
	if err != nil {
		h.t.Fatalf("verif harness: NewChunkStorage: %v", err)
	}
	h.st = st
}

// the only two unexported reads of the driver
func (h *vstHarness) pendingIDs() map[ids.ID]bool {
	h.st.lock.RLock()
	defer h.st.lock.RUnlock()
	out := map[ids.ID]bool{}
	for id := range h.st.pendingChunkMap {
		out[id] = true
	}
	return out
}

func (h *vstHarness) minimum() int64 {
	h.st.lock.RLock()
	defer h.st.lock.RUnlock()
	return h.st.minimumExpiry
}

// weight of a producer, read through the exported CheckRateLimit: the probe passes iff len(probe)+w <= limit
func (h *vstHarness) weight(p string) int {
	probe := h.probes[p]
	l := uint64(len(probe.bytes))
	lo, hi := uint64(0), h.total+1 // w in [lo, hi]
	for lo < hi {
		mid := (lo + hi) / 2
		h.limit = l + mid
		if h.st.CheckRateLimit(probe) == nil { // w <= mid
			hi = mid
		} else {
			lo = mid + 1
		}
	}
	h.limit = 1 << 40
	return int(lo)
}

func (h *vstHarness) obs(line map[string]any) map[string]any {
	pend := []string{}
	get := []string{}
	certs := []string{}
	pids := h.pendingIDs()
	certIDs := map[ids.ID]bool{}
	for _, c := range h.st.GatherChunkCerts() {
		certIDs[c.ChunkID] = true
	}
	known := 0
	for _, name := range vstChunkNames {
		c := h.chunks[name]
		if pids[c.chunk.id] {
			pend = append(pend, name)
			known++
		}
		if b, err := h.st.GetChunkBytes(c.chunk.Expiry, c.chunk.id); err == nil && bytes.Equal(b, c.chunk.bytes) {
			get = append(get, name)
		} else if err == nil {
			get = append(get, name+"!corrupt")
		}
		if certIDs[c.chunk.id] {
			certs = append(certs, name)
		}
	}
	if known != len(pids) {
		pend = append(pend, "unknown-chunk")
	}
	w := map[string]int{}
	for _, p := range vstProducerNames {
		w[p] = h.weight(p)
	}
	line["pend"], line["get"], line["certs"], line["w"], line["min"] = pend, get, certs, w, h.minimum()
	return line
}

func vstRes(err error) string {
	if err == nil {
		return "ok"
	}
	return "err"
}

func (h *vstHarness) log(line map[string]any) { h.lines = append(h.lines, h.obs(line)) }

// crashed reports whether the armed crash point was reached during the call that just returned.  If so the process
// is considered dead: the storage is opened again on what reached the disk and a crash line (call, arguments, number
// of writes that got through, observables after the reopen) replaces the call's own line.
func (h *vstHarness) crashed(line map[string]any) bool {
	tripped, writes := h.cdb.tripped, h.cdb.writes
	h.cdb.armed = false
	if !tripped {
		return false
	}
	h.openDB()
	h.open()
	line["op"], line["ev"], line["writes"] = line["ev"], "crash", writes
	h.log(line)
	return true
}

func (h *vstHarness) arm(budget int) {
	if budget >= 0 {
		*h.cdb = vstCrashDB{Database: h.cdb.Database, armed: true, budget: budget}
	}
}

// the call functions take a crash budget: -1 = no crash point, k = the process dies at the (k+1)-th durable write
func (h *vstHarness) addLocal(name string, budget int) {
	c := h.chunks[name]
	h.arm(budget)
	err := h.st.AddLocalChunkWithCert(c.chunk, c.cert)
	line := map[string]any{"ev": "addlocal", "c": name, "t": 0, "save": []string{}, "ok": true, "res": vstRes(err)}
	if !h.crashed(line) {
		h.log(line)
	}
}

func (h *vstHarness) remote(name string, ok bool, budget int) {
	c := h.chunks[name]
	h.verifier.rejectChunk = !ok
	h.arm(budget)
	_, err := h.st.VerifyRemoteChunk(c.chunk)
	h.verifier.rejectChunk = false
	res := "ok"
	if err != nil {
		res = "rejected"
	}
	line := map[string]any{"ev": "remote", "c": name, "t": 0, "save": []string{}, "ok": ok, "res": res}
	if !h.crashed(line) {
		h.log(line)
	}
}

func (h *vstHarness) setCert(name string, valid bool) {
	c := h.chunks[name]
	h.verifier.rejectCert = !valid
	err := h.st.SetChunkCert(context.Background(), c.chunk.id, c.cert)
	h.verifier.rejectCert = false
	h.log(map[string]any{"ev": "setcert", "c": name, "valid": valid, "res": vstRes(err)})
}

func (h *vstHarness) setMin(t int64, save []string, budget int) {
	idsToSave := make([]ids.ID, len(save))
	for i, n := range save {
		idsToSave[i] = h.chunks[n].chunk.id
	}
	h.arm(budget)
	err := h.st.SetMin(t, idsToSave)
	if save == nil {
		save = []string{}
	}
	line := map[string]any{"ev": "setmin", "c": "", "t": t, "save": save, "ok": true, "res": vstRes(err)}
	if !h.crashed(line) {
		h.log(line)
	}
}

func (h *vstHarness) reopen() {
	h.openDB()
	h.open()
	h.log(map[string]any{"ev": "reopen"})
}

func (h *vstHarness) pendingNames() []string {
	pids := h.pendingIDs()
	out := []string{}
	for _, n := range vstChunkNames {
		if pids[h.chunks[n].chunk.id] {
			out = append(out, n)
		}
	}
	return out
}

func (h *vstHarness) hasCert(name string) bool {
	for _, c := range h.st.GatherChunkCerts() {
		if c.ChunkID == h.chunks[name].chunk.id {
			return true
		}
	}
	return false
}

func (h *vstHarness) dump(name string) {
	dir := os.Getenv("VERIF_OUT")
	f, err := os.Create(filepath.Join(dir, name+".ndjson"))
	if err != nil {
		h.t.Fatalf("verif harness: %v", err)
	}
	defer f.Close()
	enc := json.NewEncoder(f)
	for _, l := range h.lines {
		if err := enc.Encode(l); err != nil {
			h.t.Fatalf("verif harness: %v", err)
		}
	}
	if h.dir != "" && h.db != nil {
		_ = h.db.Close()
	}
}

func vstEnvInt(name string, def int) int {
	if v := os.Getenv(name); v != "" {
		if n, err := strconv.Atoi(v); err == nil {
			return n
		}
	}
	return def
}

func vstContains(l []string, s string) bool {
	for _, x := range l {
		if x == s {
			return true
		}
	}
	return false
}

// TestVerifStorageRecord records seeded random histories (tv).
func TestVerifStorageRecord(t *testing.T) {
	if os.Getenv("VERIF_OUT") == "" {
		t.Skip("VERIF_OUT not set")
	}
	seed := int64(vstEnvInt("VERIF_SEED", 1))
	n := vstEnvInt("VERIF_SCENARIOS", 200)
	depth := vstEnvInt("VERIF_DEPTH", 30)
	pebbleEvery := vstEnvInt("VERIF_PEBBLE_EVERY", 16)
	crashEvery := vstEnvInt("VERIF_CRASH_EVERY", 5)
	for s := 0; s < n; s++ {
		if only := os.Getenv("VERIF_ONLY"); only != "" && only != strconv.Itoa(s) {
			continue
		}
		r := rand.New(rand.NewSource(seed*1_000_003 + int64(s)))
		maxE := int64(2 + r.Intn(6))
		cfg := map[string]vstCfg{}
		for i, name := range vstChunkNames {
			// distinct tx counts -> distinct sizes, so the weight of a producer identifies its pending subset
			cfg[name] = vstCfg{Prod: r.Intn(len(vstProducerNames)), Exp: 1 + r.Int63n(maxE), NTx: 1 << i}
		}
		h := newVstHarness(t, r, cfg, pebbleEvery > 0 && s%pebbleEvery == pebbleEvery-1)
		cur := int64(0)
		for i := 0; i < depth; i++ {
			name := vstChunkNames[r.Intn(len(vstChunkNames))]
			pend := h.pendingNames()
			// crash family: one call in five runs with a crash point after 0, 1 or 2 durable writes; a call that needs
			// fewer writes completes and is logged as an ordinary call
			budget := -1
			if crashEvery > 0 && r.Intn(crashEvery) == 0 {
				budget = r.Intn(3)
			}
			switch k := r.Intn(100); {
			case k < 22:
				h.addLocal(name, budget)
			case k < 40:
				if vstContains(pend, name) && !h.hasCert(name) {
					// precondition of VerifyRemoteChunk ("caller has verified this does not add a duplicate"):
					// a pending chunk without certificate would be dereferenced
					h.setCert(name, r.Intn(4) != 0)
				} else {
					h.remote(name, r.Intn(5) != 0, budget)
				}
			case k < 52:
				h.setCert(name, r.Intn(4) != 0)
			case k < 80:
				if r.Intn(3) != 0 {
					cur += r.Int63n(3)
				}
				var save []string
				for _, p := range pend {
					if r.Intn(3) == 0 {
						save = append(save, p)
					}
				}
				h.setMin(cur, save, budget)
			default:
				h.reopen()
			}
		}
		h.reopen()
		h.dump(fmt.Sprintf("st%05d", s))
	}
}

// ---- mbt: replay behaviours generated by TLC from spec/DSMRStorage_Gen.tla

type vstStep struct {
	Op    string         `json:"op"`
	C     string         `json:"c"`
	Flag  bool           `json:"flag"`
	T     int64          `json:"t"`
	Save  []string       `json:"save"`
	Res   string         `json:"res"`
	Pend  []string       `json:"pend"`
	Get   []string       `json:"get"`
	Min   int64          `json:"min"`
	W     map[string]int `json:"w"` // in model units (number of txs of the chunk's configuration)
	Attr  map[string]struct {
		P  string `json:"p"`
		E  int64  `json:"e"`
		Sz int    `json:"sz"`
	} `json:"attr"`
}

type vstMismatch struct {
	Behaviour int            `json:"behaviour"`
	Step      int            `json:"step"`
	What      string         `json:"what"`
	Got       map[string]any `json:"got"`
	Op        vstStep        `json:"op"`
}

func vstSorted(l []string) []string {
	o := append([]string{}, l...)
	sort.Strings(o)
	return o
}

func vstEq(a, b []string) bool {
	a, b = vstSorted(a), vstSorted(b)
	if len(a) != len(b) {
		return false
	}
	for i := range a {
		if a[i] != b[i] {
			return false
		}
	}
	return true
}

// TestVerifStorageReplay replays TLC behaviours: each behaviour is a list of steps, the first one (op "init")
// carries the chunk configuration; sizes are in model units (1 unit = one transaction of the chunk).
func TestVerifStorageReplay(t *testing.T) {
	path := os.Getenv("VERIF_BEHAVIOURS")
	if path == "" || os.Getenv("VERIF_OUT") == "" {
		t.Skip("VERIF_BEHAVIOURS not set")
	}
	raw, err := os.ReadFile(path)
	if err != nil {
		t.Fatalf("verif harness: %v", err)
	}
	var behs [][]vstStep
	if err := json.Unmarshal(raw, &behs); err != nil {
		t.Fatalf("verif harness: %v", err)
	}
	r := rand.New(rand.NewSource(int64(vstEnvInt("VERIF_SEED", 1))))
	prodIdx := map[string]int{"p1": 0, "p2": 1, "p3": 2}
	mismatches := []vstMismatch{}
	steps := 0
	for bi, b := range behs {
		if len(b) == 0 || b[0].Op != "init" {
			t.Fatalf("verif harness: behaviour %d does not start with init", bi)
		}
		cfg := map[string]vstCfg{}
		for _, name := range vstChunkNames {
			if a, ok := b[0].Attr[name]; ok {
				cfg[name] = vstCfg{Prod: prodIdx[a.P], Exp: a.E, NTx: a.Sz}
			} else {
				cfg[name] = vstCfg{Prod: 2, Exp: 1, NTx: 1} // outside the model's universe, never touched
			}
		}
		h := newVstHarness(t, r, cfg, false)
		// model unit -> bytes: size(c) = base(c) + per-tx * ntx, recover exact byte weights per step instead
		size := map[string]int{}
		for name, c := range h.chunks {
			size[name] = len(c.chunk.bytes)
		}
		for si, st := range b[1:] {
			steps++
			switch st.Op {
			case "addlocal":
				h.addLocal(st.C, -1)
			case "remote":
				if vstContains(h.pendingNames(), st.C) && !h.hasCert(st.C) {
					t.Fatalf("verif harness: behaviour %d step %d violates the precondition of VerifyRemoteChunk", bi, si)
				}
				h.remote(st.C, st.Flag, -1)
			case "setcert":
				h.setCert(st.C, st.Flag)
			case "setmin":
				h.setMin(st.T, st.Save, -1)
			case "reopen":
				h.reopen()
			default:
				t.Fatalf("verif harness: unknown op %q", st.Op)
			}
			got := h.lines[len(h.lines)-1]
			what := ""
			wantW := map[string]int{"p1": 0, "p2": 0, "p3": 0}
			for _, name := range st.Pend {
				wantW[h.chunks[name].prod] += size[name]
			}
			switch {
			case st.Op != "reopen" && got["res"] != st.Res:
				what = "result"
			case !vstEq(got["pend"].([]string), st.Pend):
				what = "pending chunks"
			case !vstEq(got["get"].([]string), st.Get):
				what = "retrievable chunks"
			case got["min"].(int64) != st.Min:
				what = "minimum expiry"
			default:
				for p, v := range got["w"].(map[string]int) {
					if wantW[p] != v {
						what = "producer weight"
					}
				}
			}
			if what != "" {
				mismatches = append(mismatches, vstMismatch{Behaviour: bi, Step: si + 1, What: what, Got: got, Op: st})
				break
			}
		}
	}
	out, _ := json.Marshal(map[string]any{"behaviours": len(behs), "steps": steps, "mismatches": mismatches})
	if err := os.WriteFile(filepath.Join(os.Getenv("VERIF_OUT"), "storage_replay_result.json"), out, 0o644); err != nil {
		t.Fatalf("verif harness: %v", err)
	}
}
