//go:build verif

// Shared wiring for the C35 / C37 drivers: a real dsmr.Node over a real ChunkStorage (memdb), the real
// ChunkVerifier and the real TimeValidityWindow, with a driver-owned chain state, chain index and p2p
// handlers.  Self-contained on purpose (does not use the helpers of node_test.go).
package dsmr

import (
	"context"
	"encoding/json"
	"fmt"
	"os"
	"path/filepath"
	"strconv"
	"sync"
	"testing"
	"time"

	"github.com/ava-labs/avalanchego/database"
	"github.com/ava-labs/avalanchego/database/memdb"
	"github.com/ava-labs/avalanchego/ids"
	"github.com/ava-labs/avalanchego/network/p2p"
	"github.com/ava-labs/avalanchego/network/p2p/acp118"
	"github.com/ava-labs/avalanchego/network/p2p/p2ptest"
	"github.com/ava-labs/avalanchego/snow/validators"
	"github.com/ava-labs/avalanchego/snow/validators/validatorstest"
	"github.com/ava-labs/avalanchego/trace"
	"github.com/ava-labs/avalanchego/utils/crypto/bls"
	"github.com/ava-labs/avalanchego/utils/crypto/bls/signer/localsigner"
	"github.com/ava-labs/avalanchego/utils/logging"
	"github.com/ava-labs/avalanchego/utils/set"
	"github.com/ava-labs/avalanchego/utils/wrappers"
	"github.com/ava-labs/avalanchego/vms/platformvm/warp"

	"github.com/ava-labs/hypersdk/codec"
	"github.com/ava-labs/hypersdk/consts"
	"github.com/ava-labs/hypersdk/internal/validitywindow"
	"github.com/ava-labs/hypersdk/utils"
	"github.com/ava-labs/hypersdk/x/dsmr/dsmrtest"
)

const vnNetworkID = uint32(123)

var vnChainID = ids.Empty

// ---- chain state with a fixed validator set
type vnChainState struct {
	validatorstest.State
	vals []Validator
}

func newVnChainState(vals []Validator) *vnChainState {
	cs := &vnChainState{vals: vals}
	cs.GetSubnetIDF = func(context.Context, ids.ID) (ids.ID, error) { return ids.Empty, nil }
	cs.GetValidatorSetF = func(context.Context, uint64, ids.ID) (map[ids.NodeID]*validators.GetValidatorOutput, error) {
		out := map[ids.NodeID]*validators.GetValidatorOutput{}
		for _, v := range cs.vals {
			out[v.NodeID] = &validators.GetValidatorOutput{NodeID: v.NodeID, PublicKey: v.PublicKey, Weight: v.Weight}
		}
		return out, nil
	}
	return cs
}

func (*vnChainState) GetNetworkID() uint32 { return vnNetworkID }
func (*vnChainState) GetSubnetID() ids.ID  { return ids.Empty }
func (*vnChainState) GetChainID() ids.ID   { return vnChainID }
func (*vnChainState) GetQuorumNum() uint64 { return 1 }
func (*vnChainState) GetQuorumDen() uint64 { return 1 }
func (c *vnChainState) GetCanonicalValidatorSet(ctx context.Context) (warp.CanonicalValidatorSet, error) {
	return warp.GetCanonicalValidatorSetFromSubnetID(ctx, c, 0, ids.Empty)
}

func (c *vnChainState) IsNodeValidator(_ context.Context, nodeID ids.NodeID, _ uint64) (bool, error) {
	for _, v := range c.vals {
		if v.NodeID == nodeID {
			return true, nil
		}
	}
	return false, nil
}

// ---- rules
type vnRules struct {
	window int64
	limit  uint64 // per-producer pending weight limit in bytes (0 = practically unlimited)
}

func (r vnRules) GetRules(int64) Rules     { return r }
func (r vnRules) GetValidityWindow() int64 { return r.window }
func (r vnRules) GetMaxAccumulatedProducerChunkWeight() uint64 {
	if r.limit == 0 {
		return 1 << 40
	}
	return r.limit
}

// ---- chain index of the validity window: the blocks the driver has verified
type vnIndex struct {
	mu     sync.Mutex
	blocks map[ids.ID]Block
}

func (i *vnIndex) GetExecutionBlock(_ context.Context, id ids.ID) (validitywindow.ExecutionBlock[*emapChunkCertificate], error) {
	i.mu.Lock()
	defer i.mu.Unlock()
	b, ok := i.blocks[id]
	if !ok {
		return nil, database.ErrNotFound
	}
	return NewValidityWindowBlock(b), nil
}

func (i *vnIndex) add(b Block) {
	i.mu.Lock()
	defer i.mu.Unlock()
	i.blocks[b.GetID()] = b
}

// ---- validators and nodes
type vnValidator struct {
	id ids.NodeID
	sk *localsigner.LocalSigner
	pk *bls.PublicKey
}

type vnNet struct {
	t      *testing.T
	vals   []vnValidator
	cs     *vnChainState
	window int64
	limit  uint64 // rule limit given to the nodes created next (0 = unlimited)
	dbWrap func(database.Database) database.Database // optional wrapper around the chunk database of the nodes created next
}

func newVnNet(t *testing.T, n int, window int64) *vnNet {
	net := &vnNet{t: t, window: window}
	vs := make([]Validator, n)
	for i := 0; i < n; i++ {
		sk, err := localsigner.New()
		if err != nil {
			t.Fatalf("verif harness: signer: %v", err)
		}
		v := vnValidator{id: ids.NodeID{0xB0, byte(i + 1)}, sk: sk, pk: sk.PublicKey()}
		net.vals = append(net.vals, v)
		vs[i] = Validator{NodeID: v.id, Weight: 1, PublicKey: v.pk}
	}
	net.cs = newVnChainState(vs)
	return net
}

type vnNode struct {
	node    *Node[dsmrtest.Tx]
	storage *ChunkStorage[dsmrtest.Tx]
	index   *vnIndex
}

// newNode builds validator i's node.  getChunkPeers (optional) are the handlers its Accept talks to when a
// chunk is missing; selfGetChunk (optional) replaces the handler registered under its own node id on that client.
func (net *vnNet) newNode(i int, getChunkPeers map[ids.NodeID]p2p.Handler, selfGetChunk p2p.Handler) *vnNode {
	t := net.t
	v := net.vals[i]
	rules := vnRules{window: net.window, limit: net.limit}
	signer := warp.NewSigner(v.sk, vnNetworkID, vnChainID)
	verifier := NewChunkVerifier[dsmrtest.Tx](net.cs, rules)
	var db database.Database = memdb.New()
	if net.dbWrap != nil {
		db = net.dbWrap(db)
	}
	storage, err := NewChunkStorage[dsmrtest.Tx](verifier, db, rules)
	if err != nil {
		t.Fatalf("verif harness: storage: %v", err)
	}
	getChunk := &GetChunkHandler[dsmrtest.Tx]{storage: storage}
	sigHandler := acp118.NewHandler(ChunkSignatureRequestVerifier[dsmrtest.Tx]{verifier: verifier, storage: storage}, signer)
	gossip := ChunkCertificateGossipHandler[dsmrtest.Tx]{storage: storage}
	index := &vnIndex{blocks: map[ids.ID]Block{ids.Empty: {}}}
	window := net.window
	tvw, err := validitywindow.NewTimeValidityWindow[*emapChunkCertificate](context.Background(), logging.NoLog{}, trace.Noop, index,
		NewValidityWindowBlock(Block{}), func(int64) int64 { return window })
	if err != nil {
		t.Fatalf("verif harness: validity window: %v", err)
	}
	if getChunkPeers == nil {
		getChunkPeers = map[ids.NodeID]p2p.Handler{}
	}
	var self p2p.Handler = getChunk
	if selfGetChunk != nil {
		self = selfGetChunk
	}
	ctx := context.Background()
	node, err := New[dsmrtest.Tx](logging.NoLog{}, v.id, net.cs, v.pk, signer, storage, getChunk, sigHandler, gossip,
		p2ptest.NewClientWithPeers(t, ctx, v.id, self, getChunkPeers),
		p2ptest.NewClientWithPeers(t, ctx, v.id, sigHandler, map[ids.NodeID]p2p.Handler{}),
		p2ptest.NewClientWithPeers(t, ctx, v.id, gossip, map[ids.NodeID]p2p.Handler{}),
		Block{}, tvw, rules)
	if err != nil {
		t.Fatalf("verif harness: node: %v", err)
	}
	return &vnNode{node: node, storage: storage, index: index}
}

// chunk signed by validator i
func (net *vnNet) makeChunk(i int, expiry int64, txID ids.ID) Chunk[dsmrtest.Tx] {
	v := net.vals[i]
	c, err := signChunk[dsmrtest.Tx](UnsignedChunk[dsmrtest.Tx]{Producer: v.id, Beneficiary: codec.Address{}, Expiry: expiry,
		Txs: []dsmrtest.Tx{{ID: txID, Expiry: 1_000_000}}}, vnNetworkID, vnChainID, v.pk, warp.NewSigner(v.sk, vnNetworkID, vnChainID))
	if err != nil {
		net.t.Fatalf("verif harness: signChunk: %v", err)
	}
	return c
}

// certificate for the chunk signed by every validator (quorum 1/1)
func (net *vnNet) makeCert(c Chunk[dsmrtest.Tx]) *ChunkCertificate {
	t := net.t
	ref := ChunkReference{ChunkID: c.id, Producer: c.Producer, Expiry: c.Expiry}
	packer := wrappers.Packer{MaxSize: MaxMessageSize}
	if err := codec.LinearCodec.MarshalInto(ref, &packer); err != nil {
		t.Fatalf("verif harness: marshal reference: %v", err)
	}
	msg, err := warp.NewUnsignedMessage(vnNetworkID, vnChainID, packer.Bytes)
	if err != nil {
		t.Fatalf("verif harness: warp message: %v", err)
	}
	canonical, err := net.cs.GetCanonicalValidatorSet(context.Background())
	if err != nil {
		t.Fatalf("verif harness: validator set: %v", err)
	}
	sigs := make([]*bls.Signature, 0, len(net.vals))
	bits := set.NewBits()
	for idx, cv := range canonical.Validators {
		for _, v := range net.vals {
			if cv.NodeIDs[0] != v.id {
				continue
			}
			raw, err := warp.NewSigner(v.sk, vnNetworkID, vnChainID).Sign(msg)
			if err != nil {
				t.Fatalf("verif harness: sign: %v", err)
			}
			s, err := bls.SignatureFromBytes(raw)
			if err != nil {
				t.Fatalf("verif harness: signature: %v", err)
			}
			sigs = append(sigs, s)
			bits.Add(idx)
		}
	}
	agg, err := bls.AggregateSignatures(sigs)
	if err != nil {
		t.Fatalf("verif harness: aggregate: %v", err)
	}
	out := &warp.BitSetSignature{Signers: bits.Bytes()}
	copy(out.Signature[:], bls.SignatureToBytes(agg))
	return &ChunkCertificate{ChunkReference: ref, Signature: out}
}

// block assembled by hand exactly as BuildBlock assembles it
func vnMakeBlock(t *testing.T, parent Block, height uint64, ts int64, certs []*ChunkCertificate) Block {
	blk := Block{BlockHeader: BlockHeader{ParentID: parent.GetID(), Height: height, Timestamp: ts}, ChunkCerts: certs}
	packer := wrappers.Packer{Bytes: make([]byte, 0, 1024), MaxSize: consts.NetworkSizeLimit}
	if err := codec.LinearCodec.MarshalInto(blk, &packer); err != nil {
		t.Fatalf("verif harness: marshal block: %v", err)
	}
	blk.blkBytes = packer.Bytes
	blk.blkID = utils.ToID(blk.blkBytes)
	return blk
}

// Accept under a watchdog: the real Accept retries missing chunks forever by design
func vnAccept(n *Node[dsmrtest.Tx], blk Block, limit time.Duration) (ExecutedBlock[dsmrtest.Tx], error, bool) {
	return vnAcceptAbort(n, blk, limit, nil)
}

// abort (optional) ends the wait early, e.g. when the scripted peers see the call spinning
func vnAcceptAbort(n *Node[dsmrtest.Tx], blk Block, limit time.Duration, abort <-chan struct{}) (ExecutedBlock[dsmrtest.Tx], error, bool) {
	type out struct {
		eb  ExecutedBlock[dsmrtest.Tx]
		err error
	}
	ch := make(chan out, 1)
	go func() {
		eb, err := n.Accept(context.Background(), blk)
		ch <- out{eb, err}
	}()
	select {
	case o := <-ch:
		return o.eb, o.err, true
	case <-time.After(limit):
		return ExecutedBlock[dsmrtest.Tx]{}, nil, false
	case <-abort:
		return ExecutedBlock[dsmrtest.Tx]{}, nil, false
	}
}

type vnLog struct {
	mu    sync.Mutex
	lines []map[string]any
}

func (l *vnLog) add(line map[string]any) {
	l.mu.Lock()
	defer l.mu.Unlock()
	l.lines = append(l.lines, line)
}

func (l *vnLog) dump(t *testing.T, name string) {
	l.mu.Lock()
	defer l.mu.Unlock()
	f, err := os.Create(filepath.Join(os.Getenv("VERIF_OUT"), name+".ndjson"))
	if err != nil {
		t.Fatalf("verif harness: %v", err)
	}
	defer f.Close()
	enc := json.NewEncoder(f)
	for _, line := range l.lines {
		if err := enc.Encode(line); err != nil {
			t.Fatalf("verif harness: %v", err)
		}
	}
}

func vnEnvInt(name string, def int) int {
	if v := os.Getenv(name); v != "" {
		if n, err := strconv.Atoi(v); err == nil {
			return n
		}
	}
	return def
}

func vnErrString(err error) string {
	if err == nil {
		return ""
	}
	s := err.Error()
	if len(s) > 160 {
		s = s[:160]
	}
	return s
}

func vnName(prefix string, i int) string { return fmt.Sprintf("%s%d", prefix, i) }
