//go:build verif

// Driver for C35 (see /verif/DESIGN.md, spec/DSMRNodeAccept*.tla): a real dsmr.Node accepts blocks whose chunks are
// partly in its storage and partly held only by peers.  The peers are one scripted get-chunk handler registered under
// every validator's node id (the code picks the peer with rand.Intn, so the script is indexed by request count): it
// fails, returns undecodable / invalid / wrong chunks, or serves the requested chunk.  Every request and the result of
// Accept (chunk ids in order, error) are logged.
package dsmr

import (
	"context"
	"errors"
	"math/rand"
	"os"
	"strconv"
	"sync"
	"testing"
	"time"

	"github.com/ava-labs/avalanchego/database"
	"github.com/ava-labs/avalanchego/ids"
	"github.com/ava-labs/avalanchego/network/p2p"
	"github.com/ava-labs/avalanchego/snow/engine/common"
	"github.com/ava-labs/avalanchego/utils/crypto/bls/signer/localsigner"
	"github.com/ava-labs/avalanchego/vms/platformvm/warp"
	"google.golang.org/protobuf/proto"

	"github.com/ava-labs/hypersdk/proto/pb/dsmr"
	"github.com/ava-labs/hypersdk/x/dsmr/dsmrtest"
)

var vacKinds = []string{"error", "garbage", "junkchunk", "badsig", "nonvalidator", "future", "wrong", "valid"}

// vacFaultDB is the acceptor's chunk database with a transient fault: once armed, its failAt-th Put (the pending
// record of a fetched chunk is the only Put of Accept) fails once; every other write goes through.
type vacFaultDB struct {
	database.Database
	mu     sync.Mutex
	armed  bool
	failAt int
	puts   int
	failed int
}

var errVacFault = errors.New("verif: injected transient write failure")

func (d *vacFaultDB) Put(k, v []byte) error {
	d.mu.Lock()
	fail := false
	if d.armed {
		d.puts++
		if d.puts == d.failAt {
			fail = true
			d.failed++
		}
	}
	d.mu.Unlock()
	if fail {
		return errVacFault
	}
	return d.Database.Put(k, v)
}

func (d *vacFaultDB) arm(failAt int) {
	d.mu.Lock()
	defer d.mu.Unlock()
	d.armed, d.failAt, d.puts, d.failed = failAt > 0, failAt, 0, 0
}

func (d *vacFaultDB) disarm() int {
	d.mu.Lock()
	defer d.mu.Unlock()
	d.armed = false
	return d.failed
}

type vacPeers struct {
	mu     sync.Mutex
	t      *testing.T
	net    *vnNet
	log    *vnLog
	byID   map[ids.ID]string
	chunks map[string]Chunk[dsmrtest.Tx]
	script []string
	n      int
	r      *rand.Rand
	min    int64 // storage minimum of the acceptor (for out-of-window chunks)
	spin   chan struct{} // closed when the current Accept has sent more requests than any healthy Accept can
}

func (*vacPeers) AppGossip(context.Context, ids.NodeID, []byte) {}

func (p *vacPeers) respond(chunkBytes []byte) ([]byte, *common.AppError) {
	b, err := proto.Marshal(&dsmr.GetChunkResponse{Chunk: chunkBytes})
	if err != nil {
		return nil, &common.AppError{Code: common.ErrUndefined.Code, Message: err.Error()}
	}
	return b, nil
}

func (p *vacPeers) AppRequest(_ context.Context, _ ids.NodeID, _ time.Time, requestBytes []byte) ([]byte, *common.AppError) {
	p.mu.Lock()
	defer p.mu.Unlock()
	req := dsmr.GetChunkRequest{}
	want := "undecodable"
	if err := proto.Unmarshal(requestBytes, &req); err == nil {
		if id, err := ids.ToID(req.ChunkId); err == nil {
			if n, ok := p.byID[id]; ok {
				want = n
			} else {
				want = "unknown"
			}
		}
	}
	kind := "valid"
	if len(p.script) > 0 {
		kind, p.script = p.script[0], p.script[1:]
	}
	p.n++
	if p.n <= 60 { // a spinning Accept would log for ever; a healthy one sends at most script+certs (<= 7) requests
		p.log.add(map[string]any{"ev": "req", "n": p.n, "want": want, "kind": kind})
	} else if p.n == 61 && p.spin != nil {
		close(p.spin)
	}
	orig, ok := p.chunks[want]
	if !ok {
		return nil, ErrChunkNotAvailable
	}
	switch kind {
	case "error":
		return nil, ErrChunkNotAvailable
	case "garbage":
		return []byte{0xff, 0xff, 0x01}, nil
	case "junkchunk":
		junk := make([]byte, 40)
		p.r.Read(junk)
		return p.respond(junk)
	case "badsig":
		sig := orig.Signature
		sig[5] ^= 0x40
		c, err := newChunk(orig.UnsignedChunk, orig.Signer, sig)
		if err != nil {
			p.t.Errorf("verif harness: %v", err)
		}
		return p.respond(c.bytes)
	case "nonvalidator":
		sk, err := localsigner.New()
		if err != nil {
			p.t.Errorf("verif harness: %v", err)
		}
		u := orig.UnsignedChunk
		u.Producer = ids.NodeID{0xEE, 0x01}
		c, err := signChunk[dsmrtest.Tx](u, vnNetworkID, vnChainID, sk.PublicKey(), warp.NewSigner(sk, vnNetworkID, vnChainID))
		if err != nil {
			p.t.Errorf("verif harness: %v", err)
		}
		return p.respond(c.bytes)
	case "future":
		var txID ids.ID
		p.r.Read(txID[:])
		return p.respond(p.net.makeChunk(p.r.Intn(len(p.net.vals)), p.min+p.net.window+3, txID).bytes)
	case "wrong":
		// a chunk that is valid on its own (validator-signed, same expiry) but is not the referenced one
		var txID ids.ID
		p.r.Read(txID[:])
		return p.respond(p.net.makeChunk(p.r.Intn(len(p.net.vals)), orig.Expiry, txID).bytes)
	default:
		return p.respond(orig.bytes)
	}
}

// TestVerifAcceptRecord records seeded scenarios (tv).  Half of the scenarios run under a small producer rate limit
// (GetMaxAccumulatedProducerChunkWeight = 1..3 chunks) with most chunks made by one producer and up to two further
// pending chunks of it on the acceptor that no block references, so that chunks have to be fetched while their
// producer's pending weight on the acceptor is at the limit.
func TestVerifAcceptRecord(t *testing.T) {
	if os.Getenv("VERIF_OUT") == "" {
		t.Skip("VERIF_OUT not set")
	}
	seed := int64(vnEnvInt("VERIF_SEED", 1))
	n := vnEnvInt("VERIF_SCENARIOS", 60)
	watchdog := time.Duration(vnEnvInt("VERIF_WATCHDOG_S", 30)) * time.Second
	const window = int64(10)
	net := newVnNet(t, 3, window)
	unit := len(net.makeChunk(0, 1, ids.ID{1}).bytes) // every chunk of the driver has one transaction and this size
	prodNames := []string{"v1", "v2", "v3"}
	hung := false
	for sc := 0; sc < n && !hung; sc++ {
		if only := os.Getenv("VERIF_ONLY"); only != "" && only != strconv.Itoa(sc) {
			continue
		}
		r := rand.New(rand.NewSource(seed*1_000_003 + int64(sc)))
		log := &vnLog{}
		peers := &vacPeers{t: t, net: net, log: log, byID: map[ids.ID]string{}, chunks: map[string]Chunk[dsmrtest.Tx]{}, r: r}
		peerMap := map[ids.NodeID]p2p.Handler{}
		for _, v := range net.vals[1:] {
			peerMap[v.id] = peers
		}
		tight := r.Intn(2) == 0
		limitUnits := 1_000_000
		net.limit = 0
		if tight {
			limitUnits = 1 + r.Intn(3)
			net.limit = uint64(limitUnits*unit + unit/2)
		}
		var fdb *vacFaultDB
		net.dbWrap = func(db database.Database) database.Database {
			fdb = &vacFaultDB{Database: db}
			return fdb
		}
		a := net.newNode(0, peerMap, peers)
		net.dbWrap = nil
		log.add(map[string]any{"ev": "reset", "validators": len(net.vals), "win": window, "limit": limitUnits})
		pickProducer := func() int {
			if tight && r.Intn(10) < 7 {
				return 1
			}
			return r.Intn(len(net.vals))
		}
		newChunk := func(prod int, expiry int64) Chunk[dsmrtest.Tx] {
			var txID ids.ID
			r.Read(txID[:])
			ch := net.makeChunk(prod, expiry, txID)
			if len(ch.bytes) != unit {
				t.Fatalf("verif harness: chunk size %d != %d", len(ch.bytes), unit)
			}
			return ch
		}
		// what a node does when a producer asks it to sign a chunk: rate limit first, then store
		signFor := func(name string, prod int, ch Chunk[dsmrtest.Tx]) bool {
			if a.storage.CheckRateLimit(ch) != nil {
				return false
			}
			if _, err := a.storage.VerifyRemoteChunk(ch); err != nil {
				t.Fatalf("verif harness: VerifyRemoteChunk: %v", err)
			}
			log.add(map[string]any{"ev": "store", "c": name, "p": prodNames[prod]})
			return true
		}
		if tight {
			for i, m := 0, r.Intn(3); i < m; i++ { // pending chunks that no block of the scenario references
				prod := pickProducer()
				signFor(vnName("o", i+1), prod, newChunk(prod, window))
			}
		}
		parent := Block{}
		nchunk := 0
		nblocks := 1 + r.Intn(2)
		for b := 1; b <= nblocks; b++ {
			ts := parent.Timestamp + 1 + int64(r.Intn(3))
			k := 1 + r.Intn(3)
			names := []string{}
			prods := []string{}
			certs := []*ChunkCertificate{}
			for i := 0; i < k; i++ {
				nchunk++
				name := vnName("k", nchunk)
				prod := pickProducer()
				// admissible for a node whose last accepted block is the parent: expiry in [ts, parent.ts + window]
				ch := newChunk(prod, ts+r.Int63n(parent.Timestamp+window-ts+1))
				peers.chunks[name] = ch
				peers.byID[ch.id] = name
				names = append(names, name)
				prods = append(prods, prodNames[prod])
				certs = append(certs, net.makeCert(ch))
				if r.Intn(2) == 0 && signFor(name, prod, ch) && r.Intn(2) == 0 {
					if err := a.storage.SetChunkCert(context.Background(), ch.id, certs[i]); err != nil {
						t.Fatalf("verif harness: SetChunkCert: %v", err)
					}
				}
			}
			script := []string{}
			for i, m := 0, r.Intn(5); i < m; i++ {
				script = append(script, vacKinds[r.Intn(len(vacKinds))])
			}
			peers.mu.Lock()
			peers.script = append([]string{}, script...)
			peers.n = 0
			peers.min = parent.Timestamp
			peers.spin = make(chan struct{})
			spin := peers.spin
			peers.mu.Unlock()
			blk := vnMakeBlock(t, parent, parent.Height+1, ts, certs)
			// fault sequence: the failput-th store of a fetched chunk on the acceptor fails once (0 = no fault)
			failput := 0
			if r.Intn(5) < 2 {
				failput = 1 + r.Intn(2)
			}
			log.add(map[string]any{"ev": "accept_call", "b": vnName("b", b), "ts": ts, "certs": names, "prods": prods, "script": script,
				"failput": failput})
			fdb.arm(failput)
			eb, err, returned := vnAcceptAbort(a.node, blk, watchdog, spin)
			fdb.disarm()
			if !returned {
				// "no hang" is not decided by the clock alone: recorded; the check replays this scenario alone before it
				// reports.  The abandoned Accept keeps spinning, so no further scenario is recorded in this process.
				peers.mu.Lock()
				served := peers.n
				peers.mu.Unlock()
				log.add(map[string]any{"ev": "accept_ret", "b": vnName("b", b), "res": "hang",
					"err": "no return (watchdog, or more than 60 requests) although the valid chunk was served", "chunks": []string{}, "requests": served})
				hung = true
				break
			}
			chunks := []string{}
			for _, c := range eb.Chunks {
				if nm, ok := peers.byID[c.id]; ok {
					chunks = append(chunks, nm)
				} else {
					chunks = append(chunks, "unknown")
				}
			}
			res := "ok"
			if err != nil {
				res = "err"
			}
			log.add(map[string]any{"ev": "accept_ret", "b": vnName("b", b), "res": res, "err": vnErrString(err), "chunks": chunks, "requests": 0})
			if err != nil {
				break
			}
			parent = blk
		}
		if hung {
			// the spinning Accept keeps logging requests: freeze the log at the hang line
			log.mu.Lock()
			for i, l := range log.lines {
				if l["ev"] == "accept_ret" && l["res"] == "hang" {
					log.lines = log.lines[:i+1]
					break
				}
			}
			log.mu.Unlock()
		}
		log.dump(t, "ac"+vnName("", 100000+sc)[1:])
	}
}
