//go:build verif

// Driver for C33 (see /verif/DESIGN.md): records (input, output) rows of the real fees.LargestSet as ndjson.
//   rows_small.ndjson  values < 2^31: validated line by line by TLC against spec/RulesLargestSetPost.tla (Post)
//                      1. the complete boundary domain of spec/RulesLargestSet_MC.tla (<= MaxN vectors, two active
//                         dimensions 0..MaxV, limits 0..MaxL), 2. hand-written leads, 3. seeded random rows
//   rows_big.ndjson    values around 2^63 / 2^64: checked against the same Post by Apalache (unbounded integers)
// The driver does no arithmetic on the results; it only copies inputs and outputs into the log.
package fees_test

import (
	"bufio"
	"encoding/json"
	"math"
	"math/rand"
	"os"
	"path/filepath"
	"strconv"
	"testing"

	"github.com/ava-labs/hypersdk/fees"
)

type lsRow struct {
	Ev   string     `json:"ev"`
	Kind string     `json:"kind"`
	Cmp  int        `json:"cmp"`
	Dims [][]uint64 `json:"dims"`
	Lim  []uint64   `json:"lim"`
	Idx  []uint64   `json:"idx"`
	Tot  []uint64   `json:"tot"`
}

type lsWriter struct {
	t     *testing.T
	f     *os.File
	w     *bufio.Writer
	n     int
	only  int
	count map[string]int
}

func newLsWriter(t *testing.T, name string, only int) *lsWriter {
	f, err := os.Create(filepath.Join(os.Getenv("VERIF_OUT"), name))
	if err != nil {
		t.Fatal(err)
	}
	w := &lsWriter{t: t, f: f, w: bufio.NewWriterSize(f, 1<<20), only: only, count: map[string]int{}}
	w.w.WriteString("{\"ev\":\"reset\"}\n")
	return w
}

// call runs the real function on a private copy of the input and logs the row.
func (w *lsWriter) call(kind string, cmp int, dims []fees.Dimensions, lim fees.Dimensions) {
	w.n++
	if w.only >= 0 && w.n != w.only {
		return
	}
	in := make([]fees.Dimensions, len(dims))
	copy(in, dims)
	idx, tot := fees.LargestSet(in, lim)
	r := lsRow{Ev: "row", Kind: kind, Cmp: cmp, Dims: make([][]uint64, len(dims)), Lim: lim[:], Idx: idx, Tot: tot[:]}
	for i := range dims {
		d := dims[i]
		r.Dims[i] = d[:]
	}
	if r.Idx == nil {
		r.Idx = []uint64{}
	}
	b, err := json.Marshal(r)
	if err != nil {
		w.t.Fatal(err)
	}
	w.w.Write(b)
	w.w.WriteByte('\n')
	w.count[kind]++
}

func (w *lsWriter) close() {
	w.w.Flush()
	w.f.Close()
}

func envInt(name string, def int) int {
	if v, err := strconv.Atoi(os.Getenv(name)); err == nil {
		return v
	}
	return def
}

func TestVerifLargestSetRecord(t *testing.T) {
	seed := int64(envInt("VERIF_SEED", 1))
	maxN, maxV, maxL := envInt("VERIF_MAXN", 3), envInt("VERIF_MAXV", 3), envInt("VERIF_MAXL", 3)
	nRandom, nBig := envInt("VERIF_RANDOM", 2000), envInt("VERIF_BIG", 100)
	only := envInt("VERIF_ONLY", -1)
	rng := rand.New(rand.NewSource(seed))

	small := newLsWriter(t, "rows_small.ndjson", only)
	// 1. complete domain, same shape as RulesLargestSet_MC: vectors <<a,b,0,0,0>>
	var vecs []fees.Dimensions
	for a := 0; a <= maxV; a++ {
		for b := 0; b <= maxV; b++ {
			vecs = append(vecs, fees.Dimensions{uint64(a), uint64(b)})
		}
	}
	var rec func(cur []fees.Dimensions, lim fees.Dimensions)
	rec = func(cur []fees.Dimensions, lim fees.Dimensions) {
		small.call("domain", 1, cur, lim)
		if len(cur) == maxN {
			return
		}
		for _, v := range vecs {
			rec(append(cur[:len(cur):len(cur)], v), lim)
		}
	}
	for a := 0; a <= maxL; a++ {
		for b := 0; b <= maxL; b++ {
			rec(nil, fees.Dimensions{uint64(a), uint64(b)})
		}
	}
	// 2. leads from reading the code
	small.call("lead", 1, []fees.Dimensions{{6}, {5}, {0, 7}}, fees.Dimensions{10, 10})
	small.call("lead", 1, []fees.Dimensions{{0, 1}, {1, 0}}, fees.Dimensions{0, 2})
	small.call("lead", 1, []fees.Dimensions{{9, 9, 9, 9, 9}, {1, 1, 1, 1, 1}, {9, 9, 9, 9, 9}, {1, 1, 1, 1, 1}}, fees.Dimensions{3, 3, 3, 3, 3})
	// 3. seeded random rows over all five dimensions, values small enough for TLC's 32-bit weights
	for i := 0; i < nRandom; i++ {
		n := rng.Intn(9)
		hiV := []int{3, 8, 40}[rng.Intn(3)]
		var lim fees.Dimensions
		for k := range lim {
			switch rng.Intn(5) {
			case 0:
				lim[k] = 0
			case 1:
				lim[k] = uint64(1 + rng.Intn(hiV))
			default:
				lim[k] = uint64(1 + rng.Intn(3*hiV))
			}
		}
		dims := make([]fees.Dimensions, n)
		for j := range dims {
			for k := 0; k < fees.FeeDimensions; k++ {
				if rng.Intn(3) > 0 {
					dims[j][k] = uint64(rng.Intn(hiV + 1))
				}
			}
		}
		small.call("random", 1, dims, lim)
	}
	small.close()

	// rows with values near the uint64 / int64 boundaries (weight computation casts to int64, sums may overflow)
	big := newLsWriter(t, "rows_big.ndjson", -1)
	if only >= 0 {
		big.only = only - small.n // row numbers continue after the small rows
		if big.only <= 0 {
			big.only = 1 << 30 // the replayed row is a small one: emit no big row
		}
	}
	edge := []uint64{0, 1, 2, math.MaxUint32, 1 << 32, math.MaxInt64 - 1, math.MaxInt64, 1 << 63, (1 << 63) + 1,
		math.MaxUint64 - 2, math.MaxUint64 - 1, math.MaxUint64, math.MaxUint64 / 2, math.MaxUint64/3 + 1}
	for i := 0; i < nBig; i++ {
		n := 1 + rng.Intn(4)
		var lim fees.Dimensions
		for k := range lim {
			lim[k] = edge[rng.Intn(len(edge))]
			if rng.Intn(4) == 0 && lim[k] >= 3 {
				lim[k] -= uint64(rng.Intn(3))
			}
		}
		dims := make([]fees.Dimensions, n)
		for j := range dims {
			for k := 0; k < fees.FeeDimensions; k++ {
				switch rng.Intn(4) {
				case 0:
					dims[j][k] = edge[rng.Intn(len(edge))]
				case 1:
					dims[j][k] = lim[k] / uint64(1+rng.Intn(3))
				case 2:
					dims[j][k] = uint64(rng.Intn(3))
				}
			}
		}
		big.call("big", 0, dims, lim)
	}
	big.close()

	sum := map[string]any{"small_rows": small.n, "big_rows": big.n, "small": small.count, "big": big.count}
	b, _ := json.Marshal(sum)
	if err := os.WriteFile(filepath.Join(os.Getenv("VERIF_OUT"), "largestset_summary.json"), b, 0o644); err != nil {
		t.Fatal(err)
	}
}
