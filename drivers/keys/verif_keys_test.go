//go:build verif

// Driver for C40 (see /verif/DESIGN.md): records rows of the real keys package and of state.Keys.Add as ndjson for
// spec/Keys_Trace.tla.  Domain: key lengths 0..4 x boundary suffixes x value lengths at chunk boundaries up to and
// beyond the 16-bit chunk limit (the domain of spec/Keys_MC.tla), then seeded random keys / sizes.  Values are
// slices of one 4 MiB+ buffer.  The driver copies arguments and results; it computes nothing about chunks.
package keys_test

import (
	"bufio"
	"bytes"
	"encoding/json"
	"math/rand"
	"os"
	"path/filepath"
	"strconv"
	"testing"

	"github.com/ava-labs/hypersdk/keys"
	"github.com/ava-labs/hypersdk/state"
)

type c40Row map[string]any

func c40Env(name string, def int) int {
	if v, err := strconv.Atoi(os.Getenv(name)); err == nil {
		return v
	}
	return def
}

func c40b(b bool) int {
	if b {
		return 1
	}
	return 0
}

// c40Key builds a key of klen bytes whose last two bytes encode suffix (when klen >= 2).
func c40Key(rng *rand.Rand, klen int, suffix int) []byte {
	k := make([]byte, klen)
	rng.Read(k)
	if klen >= 2 {
		k[klen-2], k[klen-1] = byte(suffix>>8), byte(suffix)
	}
	return k
}

func c40Tail(k []byte) (int, int) {
	switch len(k) {
	case 0:
		return -1, -1
	case 1:
		return -1, int(k[0])
	default:
		return int(k[len(k)-2]), int(k[len(k)-1])
	}
}

func TestVerifKeysRecord(t *testing.T) {
	seed := int64(c40Env("VERIF_SEED", 1))
	nRandom := c40Env("VERIF_RANDOM", 2000)
	only := c40Env("VERIF_ONLY", -1)
	rng := rand.New(rand.NewSource(seed))
	f, err := os.Create(filepath.Join(os.Getenv("VERIF_OUT"), "rows_keys.ndjson"))
	if err != nil {
		t.Fatal(err)
	}
	defer f.Close()
	w := bufio.NewWriterSize(f, 1<<20)
	w.WriteString("{\"ev\":\"reset\"}\n")
	n := 0
	counts := map[string]int{}
	emit := func(kind string, r c40Row) {
		n++
		if only >= 0 && n != only {
			return
		}
		r["ev"], r["kind"] = "row", kind
		b, _ := json.Marshal(r)
		w.Write(b)
		w.WriteByte('\n')
		counts[kind]++
	}
	const limit = 64 * 65535
	buf := make([]byte, limit+4096)
	rng.Read(buf[:1<<16])
	keyLens := []int{0, 1, 2, 3, 4}
	suffixes := []int{0, 1, 2, 255, 256, 65534, 65535}
	lens := []int{0, 1, 63, 64, 65, 127, 128, 64*65534 - 1, 64 * 65534, 64*65534 + 1, limit - 1, limit, limit + 1}

	numChunks := func(r c40Row, size int) {
		c, ok := keys.NumChunks(buf[:size])
		r["n"], r["nok"], r["nc"] = size, c40b(ok), int(c)
	}
	perKey := func(k []byte, full bool) {
		hi, lo := c40Tail(k)
		c, ok := keys.MaxChunks(k)
		emit("maxchunks", c40Row{"klen": len(k), "hi": hi, "lo": lo, "ok": c40b(ok), "c": int(c)})
		c, ok = keys.DecodeChunks(k)
		emit("decodechunks", c40Row{"klen": len(k), "hi": hi, "lo": lo, "ok": c40b(ok), "c": int(c)})
		emit("valid", c40Row{"klen": len(k), "res": c40b(keys.Valid(string(k)))})
		sk := state.Keys{}
		added := sk.Add(string(k), state.All)
		_, present := sk[string(k)]
		emit("add", c40Row{"klen": len(k), "hi": hi, "lo": lo, "res": c40b(added), "present": c40b(present)})
		for _, lim := range [][2]int{{len(k), 65535}, {len(k) - 1, 65535}, {1000, 0}, {1000, 255}, {1000, 256}, {1000, 65534}} {
			if lim[0] < 0 || (!full && rng.Intn(4) > 0) {
				continue
			}
			emit("verifykey", c40Row{"klen": len(k), "hi": hi, "lo": lo, "mks": lim[0], "mvc": lim[1],
				"res": c40b(keys.Verify(uint32(lim[0]), uint16(lim[1]), k))})
		}
	}
	verify := func(k []byte, size int) {
		hi, lo := c40Tail(k)
		r := c40Row{"klen": len(k), "hi": hi, "lo": lo, "res": c40b(keys.VerifyValue(k, buf[:size]))}
		numChunks(r, size)
		emit("verify", r)
	}
	encode := func(k []byte, max int, sizes []int) {
		r := c40Row{"klen": len(k)}
		numChunks(r, max)
		enc, ok := keys.Encode(append([]byte{}, k...), max)
		r["ok"] = c40b(ok)
		ohi, olo := c40Tail(enc)
		r["olen"], r["ohi"], r["olo"], r["keep"] = len(enc), ohi, olo, c40b(ok && bytes.HasPrefix(enc, k))
		emit("encode", r)
		if !ok {
			return
		}
		for _, size := range sizes {
			if size >= 0 && size <= max {
				emit("admit", c40Row{"klen": len(k), "max": max, "n": size, "res": c40b(keys.VerifyValue(enc, buf[:size]))})
			}
		}
	}

	// 1. the domain of Keys_MC
	for _, size := range lens {
		r := c40Row{}
		numChunks(r, size)
		emit("numchunks", r)
	}
	for _, kl := range keyLens {
		for _, s := range suffixes {
			k := c40Key(rng, kl, s)
			perKey(k, true)
			for _, size := range lens {
				verify(k, size)
			}
			if kl < 2 && s != suffixes[0] {
				continue // without room for a suffix all suffix choices are the same key shape
			}
		}
		for _, max := range lens {
			encode(c40Key(rng, kl, 0), max, lens)
		}
		for _, c := range suffixes {
			k := c40Key(rng, kl, 0)
			enc := keys.EncodeChunks(append([]byte{}, k...), uint16(c))
			ohi, olo := c40Tail(enc)
			emit("encodechunks", c40Row{"klen": kl, "c": c, "olen": len(enc), "ohi": ohi, "olo": olo, "keep": c40b(bytes.HasPrefix(enc, k))})
		}
	}
	// 2. seeded random keys and sizes, biased to the boundary of the key's own suffix
	for i := 0; i < nRandom; i++ {
		kl := rng.Intn(40)
		s := []int{rng.Intn(65536), rng.Intn(300), 65535 - rng.Intn(3)}[rng.Intn(3)]
		k := c40Key(rng, kl, s)
		perKey(k, false)
		var size int
		switch rng.Intn(4) {
		case 0:
			size = rng.Intn(len(buf) + 1)
		case 1:
			size = rng.Intn(20000)
		default: // around the largest size the suffix admits
			size = 64*s - 2 + rng.Intn(4)
		}
		if size < 0 {
			size = 0
		}
		if size > len(buf) {
			size = len(buf)
		}
		verify(k, size)
		r := c40Row{}
		numChunks(r, size)
		emit("numchunks", r)
		if i%4 == 0 {
			encode(k, size, []int{0, size / 2, size - 64, size - 1, size})
		}
	}
	w.Flush()
	b, _ := json.Marshal(map[string]any{"rows": n, "counts": counts})
	if err := os.WriteFile(filepath.Join(os.Getenv("VERIF_OUT"), "keys_summary.json"), b, 0o644); err != nil {
		t.Fatal(err)
	}
}
