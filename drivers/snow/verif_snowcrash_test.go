//go:build verif

// Snow-level crash family of C18 (see /verif/notes/C18.md).  The durable storage of the node is supplied by the
// driver: the chain index (a real chainindex.ChainIndex over a memdb), the committed chain state (the height the
// Chain committed in AcceptBlock) and an external subscriber's log.  Every durable write of StatefulBlock.Accept /
// processAccept (index write, state commit, notification) is a gate: the engine goroutine and the asynchronous
// accepter park there, a seeded scheduler releases them one at a time, and "crash" = the durable image is
// snapshotted (under the disk lock) at a scheduler-chosen point between two durable writes.  A new VM is then
// initialised from the snapshot, exactly as the Chain of hypersdk's vm package does it: it comes back with the
// block of its committed state and lets package snow re-process the indexed blocks above it.
// Events are logged at their linearisation point (while the disk lock is held), so the recorded order of durable
// writes is the real one whatever the goroutine scheduling was.
// Reuses the block types of verif_snowvm_test.go.
package snow_test

import (
	"context"
	"encoding/json"
	"fmt"
	"math/rand"
	"os"
	"path/filepath"
	"sync"
	"sync/atomic"
	"testing"
	"time"

	"github.com/ava-labs/avalanchego/database"
	"github.com/ava-labs/avalanchego/database/memdb"
	"github.com/ava-labs/avalanchego/ids"
	"github.com/ava-labs/avalanchego/snow/engine/common"
	"github.com/ava-labs/avalanchego/snow/engine/enginetest"
	"github.com/ava-labs/avalanchego/snow/engine/snowman/block"
	"github.com/ava-labs/avalanchego/snow/snowtest"
	"github.com/ava-labs/avalanchego/utils/logging"
	"github.com/prometheus/client_golang/prometheus"

	"github.com/ava-labs/hypersdk/chainindex"
	"github.com/ava-labs/hypersdk/event"
	"github.com/ava-labs/hypersdk/snow"
)

// cdisk is everything that survives a crash.
type cdisk struct {
	mu     sync.Mutex
	idx    *memdb.Database
	idxH   int // height of the last index write, -1 on a blank disk
	stateH int // height whose state the chain has committed
	subLog []int
}

// snapshot copies the durable image; atCrash runs while the disk is still locked (every event is logged with the
// disk lock held, so the events seen by atCrash are exactly the durable writes contained in the image).
func (d *cdisk) snapshot(t *testing.T, atCrash func()) *cdisk {
	d.mu.Lock()
	defer d.mu.Unlock()
	return d.snapshotLocked(t, atCrash)
}

func (d *cdisk) snapshotLocked(t *testing.T, atCrash func()) *cdisk {
	defer atCrash()
	cp := &cdisk{idx: memdb.New(), idxH: d.idxH, stateH: d.stateH, subLog: append([]int(nil), d.subLog...)}
	it := d.idx.NewIterator()
	defer it.Release()
	for it.Next() {
		if err := cp.idx.Put(append([]byte(nil), it.Key()...), append([]byte(nil), it.Value()...)); err != nil {
			t.Fatal(err)
		}
	}
	if err := it.Error(); err != nil {
		t.Fatal(err)
	}
	return cp
}

type carrival struct {
	kind    string // idx | commit | notify
	h       int
	release chan struct{}
}

type csched struct {
	gating atomic.Bool
	arrive chan carrival

	// write-granular crash: the durable image is captured right after the crashAt-th individual database write
	// (Put / Delete / batch Write) of the chain index, i.e. possibly in the middle of one UpdateLastAccepted
	armed      atomic.Bool
	writes     int
	crashAt    int
	writeCrash func() // runs with the disk lock held (every index write happens under it)
}

// countDB is the database handed to chainindex.New: it counts the individual durable writes.
type countDB struct {
	database.Database
	s *csched
}

func (d *countDB) wrote() {
	if !d.s.armed.Load() {
		return
	}
	d.s.writes++
	if d.s.writes == d.s.crashAt && d.s.writeCrash != nil {
		d.s.writeCrash()
	}
}

func (d *countDB) Put(k, v []byte) error {
	err := d.Database.Put(k, v)
	d.wrote()
	return err
}

func (d *countDB) Delete(k []byte) error {
	err := d.Database.Delete(k)
	d.wrote()
	return err
}

func (d *countDB) NewBatch() database.Batch { return &countBatch{Batch: d.Database.NewBatch(), d: d} }

type countBatch struct {
	database.Batch
	d *countDB
}

func (b *countBatch) Write() error {
	err := b.Batch.Write()
	b.d.wrote()
	return err
}

func (s *csched) reach(kind string, h int) {
	if !s.gating.Load() {
		return
	}
	a := carrival{kind: kind, h: h, release: make(chan struct{})}
	s.arrive <- a
	<-a.release
}

// cchain: a Chain that, like vm.VM, commits its state inside AcceptBlock and restarts from its committed state.
type cchain struct {
	t       *testing.T
	disk    *cdisk
	sched   *csched
	blocks  []*inBlk // blocks[h]
	live    atomic.Bool
	booting atomic.Bool
	evMu    sync.Mutex
	events  *[]map[string]any
	bootNN  []int
}

func (c *cchain) ev(name string, h int) {
	if !c.live.Load() {
		return
	}
	c.evMu.Lock()
	*c.events = append(*c.events, map[string]any{"ev": name, "h": h})
	c.evMu.Unlock()
}

type gatedIndex struct {
	*chainindex.ChainIndex[*inBlk]
	c *cchain
}

func (g *gatedIndex) UpdateLastAccepted(ctx context.Context, blk *inBlk) error {
	h := int(blk.GetHeight())
	g.c.sched.reach("idx", h)
	g.c.disk.mu.Lock()
	defer g.c.disk.mu.Unlock()
	if err := g.ChainIndex.UpdateLastAccepted(ctx, blk); err != nil {
		return err
	}
	g.c.disk.idxH = h
	g.c.ev("accept", h) // the index write of h is durable
	return nil
}

func (c *cchain) ParseBlock(_ context.Context, bs []byte) (*inBlk, error) {
	b := &inBlk{}
	if err := json.Unmarshal(bs, b); err != nil {
		return nil, err
	}
	return b.init(), nil
}

func (c *cchain) out(h int) *outBlk { return &outBlk{inBlk: c.blocks[h], state: []string{fmt.Sprint(h)}} }

func (c *cchain) Initialize(ctx context.Context, in snow.ChainInput, vm *snow.VM[*inBlk, *outBlk, *accBlk]) (snow.ChainIndex[*inBlk], *outBlk, *accBlk, bool, error) {
	idx, err := chainindex.New[*inBlk](ctx, in.SnowCtx.Log, prometheus.NewRegistry(), chainindex.NewDefaultConfig(), c, &countDB{Database: c.disk.idx, s: c.sched})
	if err != nil {
		return nil, nil, nil, false, err
	}
	if c.disk.idxH < 0 {
		if err := idx.UpdateLastAccepted(ctx, c.blocks[0]); err != nil {
			return nil, nil, nil, false, err
		}
		c.disk.idxH, c.disk.stateH = 0, 0
	}
	vm.AddAcceptedSub(event.SubscriptionFunc[*accBlk]{NotifyF: func(_ context.Context, b *accBlk) error {
		h := int(b.GetHeight())
		if c.booting.Load() {
			c.disk.mu.Lock()
			c.disk.subLog = append(c.disk.subLog, h)
			c.bootNN = append(c.bootNN, h)
			c.disk.mu.Unlock()
			return nil
		}
		c.sched.reach("notify", h)
		c.disk.mu.Lock()
		c.disk.subLog = append(c.disk.subLog, h)
		c.ev("notify", h)
		c.disk.mu.Unlock()
		return nil
	}})
	o := c.out(c.disk.stateH)
	return &gatedIndex{ChainIndex: idx, c: c}, o, &accBlk{o}, true, nil
}

func (*cchain) SetConsensusIndex(*snow.ConsensusIndex[*inBlk, *outBlk, *accBlk]) {}

func (*cchain) BuildBlock(context.Context, *block.Context, *outBlk) (*inBlk, *outBlk, error) {
	return nil, nil, fmt.Errorf("driver: not a builder")
}

func (c *cchain) VerifyBlock(_ context.Context, parent *outBlk, blk *inBlk) (*outBlk, error) {
	if parent == nil || parent.inBlk == nil || parent.GetID() != blk.GetParent() {
		return nil, fmt.Errorf("driver: VerifyBlock of %d on the wrong parent", blk.GetHeight())
	}
	return &outBlk{inBlk: blk, state: []string{fmt.Sprint(blk.GetHeight())}}, nil
}

// AcceptBlock commits the state of the block.
func (c *cchain) AcceptBlock(_ context.Context, _ *accBlk, blk *outBlk) (*accBlk, error) {
	h := int(blk.GetHeight())
	if !c.booting.Load() {
		c.sched.reach("commit", h)
	}
	c.disk.mu.Lock()
	c.disk.stateH = h
	if !c.booting.Load() {
		c.ev("commit", h)
	}
	c.disk.mu.Unlock()
	return &accBlk{blk}, nil
}

type cnode struct {
	vm    *snow.VM[*inBlk, *outBlk, *accBlk]
	chain *cchain
}

// startNode initialises a VM on the disk and returns the "start" line.
func startNode(t *testing.T, ctx context.Context, disk *cdisk, sched *csched, blocks []*inBlk, events *[]map[string]any) (*cnode, map[string]any) {
	c := &cchain{t: t, disk: disk, sched: sched, blocks: blocks, events: events}
	c.booting.Store(true)
	vm := snow.NewVM[*inBlk, *outBlk, *accBlk]("v0.0.1", c)
	snowCtx := snowtest.Context(t, ids.GenerateTestID())
	snowCtx.ChainDataDir = t.TempDir()
	res, msg := "ok", ""
	func() {
		defer func() {
			if p := recover(); p != nil {
				res, msg = "panic", fmt.Sprint(p)
			}
		}()
		if err := vm.Initialize(ctx, snowCtx, nil, nil, nil, nil, make(chan common.Message, 1), nil, &enginetest.Sender{T: t}); err != nil {
			res, msg = "err", err.Error()
		}
	}()
	c.booting.Store(false)
	if len(msg) > 200 {
		msg = msg[:200]
	}
	line := map[string]any{"ev": "start", "fam": "snow", "res": res, "msg": msg, "la": -1, "lp": -1, "root": -1, "results": -1, "nn": []int{}}
	if res != "ok" {
		return nil, line
	}
	n := &cnode{vm: vm, chain: c}
	n.observe(ctx, line)
	line["nn"] = append([]int{}, c.bootNN...)
	c.live.Store(true)
	return n, line
}

func (n *cnode) observe(ctx context.Context, line map[string]any) {
	line["la"] = int(n.vm.LastAcceptedBlock(ctx).Height())
	if lp, err := n.vm.GetConsensusIndex().GetLastAccepted(ctx); err == nil && lp != nil && lp.outBlk != nil {
		line["lp"] = int(lp.GetHeight())
		line["results"] = int(lp.GetHeight())
		if len(lp.state) != 1 || lp.state[0] != fmt.Sprint(lp.GetHeight()) {
			line["results"] = -1
		}
	}
	n.chain.disk.mu.Lock()
	line["root"] = n.chain.disk.stateH // the state the chain has committed
	n.chain.disk.mu.Unlock()
}

func (n *cnode) acceptNext(ctx context.Context, blocks []*inBlk, h int, sync bool) error {
	blk, err := n.vm.ParseBlock(ctx, blocks[h].GetBytes())
	if err != nil {
		return err
	}
	if err := blk.Verify(ctx); err != nil {
		return err
	}
	if err := n.vm.SetPreference(ctx, blk.ID()); err != nil {
		return err
	}
	if sync {
		return blk.SyncAccept(ctx)
	}
	return blk.Accept(ctx)
}

func runCrashScenario(t *testing.T, no int, seed int64, nBlocks int) []map[string]any {
	ctx := context.Background()
	rng := rand.New(rand.NewSource(seed))
	blocks := make([]*inBlk, nBlocks+1)
	blocks[0] = (&inBlk{Name: "g", Hght: 0, Salt: seed}).init()
	for h := 1; h <= nBlocks; h++ {
		blocks[h] = (&inBlk{Name: fmt.Sprintf("c%d", h), PrntID: blocks[h-1].GetID(), Hght: uint64(h), Tmstmp: int64(h), Salt: seed}).init()
	}
	var events []map[string]any
	sched := &csched{arrive: make(chan carrival, 8)}
	disk := &cdisk{idx: memdb.New(), idxH: -1}
	node, start := startNode(t, ctx, disk, sched, blocks, &events)
	if node == nil {
		t.Fatalf("driver: fresh node did not start: %v", start["msg"])
	}
	// two kinds of crash point: between two durable writes of Accept / processAccept chosen by the scheduler ("step"),
	// or right after the k-th individual database write of the chain index ("write")
	crashStep, crashWrite := rng.Intn(3*nBlocks+2), 0
	if no%2 == 1 {
		crashStep, crashWrite = 1<<30, 1+rng.Intn(2*nBlocks)
	}
	lines := []map[string]any{{"ev": "reset", "n": nBlocks, "no": no,
		"phases": []map[string]any{{"family": "snow", "crash_after_writes": crashStep, "crash_after_db_write": crashWrite}}}, start}
	var snap *cdisk
	atCrash := func() {
		node.chain.evMu.Lock()
		lines = append(lines, events...)
		events = nil
		node.chain.live.Store(false)
		node.chain.evMu.Unlock()
	}
	fired := make(chan struct{})
	sched.crashAt = crashWrite
	sched.writeCrash = func() {
		snap = disk.snapshotLocked(t, atCrash)
		close(fired)
	}
	sched.armed.Store(true)

	sched.gating.Store(true)
	engDone := make(chan error, 1)
	go func() {
		for h := 1; h <= nBlocks; h++ {
			if err := node.acceptNext(ctx, blocks, h, false); err != nil {
				engDone <- fmt.Errorf("accept %d: %w", h, err)
				return
			}
		}
		engDone <- nil
	}()
	var parked []carrival
	engRunning := true
	var engErr error
	// collect: wait until the parties that can move have parked at their next durable write
	collect := func() {
		quiet := 3 * time.Millisecond
		limit := time.After(watchdog)
		for {
			select {
			case a := <-sched.arrive:
				parked = append(parked, a)
			case err := <-engDone:
				engRunning, engErr = false, err
			case <-fired:
				fired = nil
				return
			case <-time.After(quiet):
				if len(parked) > 0 || !engRunning {
					return
				}
			case <-limit:
				t.Fatalf("driver: nothing reached a durable write within %s", watchdog)
			}
		}
	}
	for step := 0; ; step++ {
		collect()
		if fired == nil || step == crashStep || len(parked) == 0 {
			break
		}
		i := rng.Intn(len(parked))
		a := parked[i]
		parked = append(parked[:i], parked[i+1:]...)
		close(a.release)
	}
	// crash: the durable image as it is now (unless a write-granular crash already captured it)
	sched.armed.Store(false)
	if fired != nil {
		snap = disk.snapshot(t, atCrash)
	}
	// the index update is one atomic step of the specification: it has happened iff the image's last-accepted
	// pointer names the block
	if probe, err := chainindex.New[*inBlk](ctx, logging.NoLog{}, prometheus.NewRegistry(), chainindex.NewDefaultConfig(), node.chain, snap.idx); err == nil {
		if p, err := probe.GetLastAcceptedHeight(ctx); err == nil && int(p) > snap.idxH {
			lines = append(lines, map[string]any{"ev": "accept", "h": int(p)})
			snap.idxH = int(p)
		}
	}
	lines = append(lines, map[string]any{"ev": "crash", "idx": snap.idxH, "state": snap.stateH})
	// the old process is gone: let it run out, nothing it does reaches the snapshot
	sched.gating.Store(false)
	for _, a := range parked {
		close(a.release)
	}
	for engRunning {
		select {
		case a := <-sched.arrive:
			close(a.release)
		case err := <-engDone:
			engRunning, engErr = false, err
		case <-time.After(watchdog):
			t.Fatalf("driver: old node did not run out")
		}
	}
	_ = engErr
	done := make(chan struct{})
	go func() { _ = node.vm.Shutdown(ctx); close(done) }()
	for stopped := false; !stopped; {
		select {
		case a := <-sched.arrive:
			close(a.release)
		case <-done:
			stopped = true
		case <-time.After(watchdog):
			t.Fatalf("driver: old node did not shut down")
		}
	}

	// restart from the image
	var events2 []map[string]any
	node2, start2 := startNode(t, ctx, snap, sched, blocks, &events2)
	lines = append(lines, start2)
	if node2 == nil {
		return lines
	}
	for h := start2["la"].(int) + 1; h <= nBlocks; h++ {
		if err := node2.acceptNext(ctx, blocks, h, true); err != nil {
			t.Fatalf("driver: restarted node cannot accept block %d: %v", h, err)
		}
	}
	node2.chain.evMu.Lock()
	lines = append(lines, events2...)
	node2.chain.evMu.Unlock()
	final := map[string]any{"ev": "final", "fam": "snow", "res": "ok", "msg": "", "la": -1, "lp": -1, "root": -1, "results": -1, "nn": []int{}}
	node2.observe(ctx, final)
	lines = append(lines, final)
	node2.chain.live.Store(false)
	if err := node2.vm.Shutdown(ctx); err != nil {
		t.Fatalf("driver: shutdown: %v", err)
	}
	lines = append(lines, map[string]any{"ev": "stop", "idx": -1, "state": -1})
	return lines
}

// TestVerifSnowCrashRecord records VERIF_SCENARIOS snow-level crash scenarios (files sn*.ndjson).
func TestVerifSnowCrashRecord(t *testing.T) {
	out := os.Getenv("VERIF_OUT")
	if out == "" {
		t.Skip("VERIF_OUT not set")
	}
	seed := int64(envInt("VERIF_SEED", 1))
	n := envInt("VERIF_SCENARIOS", 40)
	nBlocks := envInt("VERIF_BLOCKS", 4)
	only := envInt("VERIF_ONLY", -1)
	stats := map[string]int{}
	for i := 0; i < n; i++ {
		if only >= 0 && 1000+i != only {
			continue
		}
		lines := runCrashScenario(t, 1000+i, seed*7919+int64(i), nBlocks)
		f, err := os.Create(filepath.Join(out, fmt.Sprintf("sn%05d.ndjson", i)))
		if err != nil {
			t.Fatal(err)
		}
		enc := json.NewEncoder(f)
		for _, l := range lines {
			if err := enc.Encode(l); err != nil {
				t.Fatal(err)
			}
			stats["ev_"+l["ev"].(string)]++
			if l["ev"] == "crash" && l["idx"].(int) > l["state"].(int) {
				stats["crash_with_uncommitted_blocks"]++
			}
		}
		f.Close()
	}
	bs, _ := json.Marshal(stats)
	if err := os.WriteFile(filepath.Join(out, "stats_snow.json"), bs, 0o644); err != nil {
		t.Fatal(err)
	}
}
