//go:build verif

// X11 driver (see /verif/spec/VMLifecycle.tla): lifecycle hooks of a real, initialised snow.VM (built with builder F's
// harness from verif_snowvm_test.go, read-only): state starters + SetState, closers + Shutdown (twice), health checkers
// + HealthCheck.  Every hook records its id when it runs; failing hooks return a sentinel error found with errors.Is.
package snow_test

import (
	"context"
	"encoding/json"
	"errors"
	"fmt"
	"math/rand"
	"os"
	"path/filepath"
	"sort"
	"testing"

	avasnow "github.com/ava-labs/avalanchego/snow"
)

type lcWorld struct {
	ran  []int
	errs map[int]error
	next int
}

func (w *lcWorld) hook(fails bool) (int, func(context.Context) error) {
	w.next++
	id := w.next
	w.errs[id] = fmt.Errorf("hook %d failed", id)
	return id, func(context.Context) error {
		w.ran = append(w.ran, id)
		if fails {
			return w.errs[id]
		}
		return nil
	}
}

type lcChecker struct{ f func(context.Context) error }

func (c lcChecker) HealthCheck(ctx context.Context) (any, error) { return "detail", c.f(ctx) }

func (w *lcWorld) outcome(err error) ([]int, []int) {
	ids := []int{}
	for id, e := range w.errs {
		if err != nil && errors.Is(err, e) {
			ids = append(ids, id)
		}
	}
	sort.Ints(ids)
	ran := append([]int{}, w.ran...)
	w.ran = nil
	return ran, ids
}

func TestVerifLifecycle(t *testing.T) {
	seed := int64(envInt("VERIF_SEED", 1))
	only := envInt("VERIF_ONLY", -1)
	n := envInt("VERIF_SCENARIOS", 40)
	states := map[string]avasnow.State{"sync": avasnow.StateSyncing, "boot": avasnow.Bootstrapping, "normal": avasnow.NormalOp}
	names := []string{"sync", "boot", "normal"}
	stats := map[string]int{}
	for i := 0; i < n; i++ {
		if only >= 0 && only != i {
			continue
		}
		rng := rand.New(rand.NewSource(seed*1_000_003 + int64(i)))
		h := newHarness(t, seed*7919+int64(i), 4, 4, true)
		h.boot()
		vm := h.vm
		w := &lcWorld{errs: map[int]error{}}
		lines := []map[string]any{{"ev": "reset"}}
		for s := 0; s < 14; s++ {
			fails := rng.Intn(3) == 0
			switch r := rng.Intn(12); {
			case r < 3:
				st := names[rng.Intn(3)]
				id, f := w.hook(fails)
				switch st {
				case "sync":
					vm.AddStateSyncStarter(f)
				case "boot":
					vm.AddBootstrapStarter(f)
				default:
					vm.AddNormalOpStarter(f)
				}
				lines = append(lines, map[string]any{"ev": "addstarter", "state": st, "id": id, "fails": fails})
			case r < 5:
				id, f := w.hook(fails)
				vm.AddCloser(fmt.Sprintf("closer-%d", id), func() error { return f(context.Background()) })
				lines = append(lines, map[string]any{"ev": "addcloser", "id": id, "fails": fails})
			case r < 7:
				name := []string{"a", "b", "c"}[rng.Intn(3)]
				id, f := w.hook(fails)
				err := vm.RegisterHealthChecker(name, lcChecker{f})
				lines = append(lines, map[string]any{"ev": "register", "name": name, "id": id, "fails": fails, "refused": err != nil})
				if err != nil {
					stats["duplicate_checker_refused"]++
				}
			case r < 10:
				st := names[rng.Intn(3)]
				err := vm.SetState(context.Background(), states[st])
				ran, ids := w.outcome(err)
				lines = append(lines, map[string]any{"ev": "setstate", "state": st, "ran": ran, "errs": ids, "nilerr": err == nil})
				stats["setstate"]++
				if err != nil {
					stats["setstate_failed"]++
				}
			case r == 10:
				err := vm.SetState(context.Background(), avasnow.State(99))
				ran, _ := w.outcome(err)
				lines = append(lines, map[string]any{"ev": "badstate", "ran": ran, "unknown": errors.Is(err, avasnow.ErrUnknownState)})
			default:
				details, err := vm.HealthCheck(context.Background())
				ran, ids := w.outcome(err)
				sort.Ints(ran)
				keys := []string{}
				if m, ok := details.(map[string]any); ok {
					for k := range m {
						keys = append(keys, k)
					}
				}
				sort.Strings(keys)
				lines = append(lines, map[string]any{"ev": "health", "ran": ran, "errs": ids, "nilerr": err == nil, "names": keys})
				stats["health"]++
			}
		}
		for k := 0; k < 2; k++ {
			err := vm.Shutdown(context.Background())
			ran, ids := w.outcome(err)
			lines = append(lines, map[string]any{"ev": "shutdown", "ran": ran, "errs": ids, "nilerr": err == nil})
			if err != nil {
				stats["shutdown_failed"]++
			}
		}
		f, err := os.Create(filepath.Join(os.Getenv("VERIF_OUT"), fmt.Sprintf("lc-%05d.ndjson", i)))
		if err != nil {
			t.Fatal(err)
		}
		enc := json.NewEncoder(f)
		for _, l := range lines {
			if err := enc.Encode(l); err != nil {
				t.Fatal(err)
			}
		}
		f.Close()
		stats["scenarios"]++
	}
	b, _ := json.Marshal(stats)
	if err := os.WriteFile(filepath.Join(os.Getenv("VERIF_OUT"), "lc_stats.json"), b, 0o644); err != nil {
		t.Fatal(err)
	}
}
