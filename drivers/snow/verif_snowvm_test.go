//go:build verif

// Driver for C20 / C21 (see /verif/DESIGN.md, /verif/notes/C20.md): a seeded, snowman-consistent test
// consensus engine modelled on snow/vm_test.go's TestConsensusEngine that drives a real snow.VM through
// the exported API only and records every engine call, its argument and result, every Chain callback and
// subscriber notification it caused, and a projection of the VM after the call (LastAccepted, GetBlock of
// every known block, GetBlockIDAtHeight / GetBlockByHeight of every height, HealthCheck,
// ConsensusIndex.GetLastAccepted / GetPreferredBlock) as one ndjson line.  spec/SnowVM_Trace.tla replays
// the lines through the actions of spec/SnowVM.tla.
//
// The asynchronous accepter is made deterministic without a hook: the driver's Chain.AcceptBlock parks on a
// gate, so "the accepter took block b" (dequeue) and "block b was processed" (process) are explicit,
// driver-ordered events between engine calls.
package snow_test

import (
	"context"
	"encoding/json"
	"errors"
	"fmt"
	"math/rand"
	"os"
	"path/filepath"
	"sort"
	"strconv"
	"strings"
	"sync"
	"testing"
	"time"

	"github.com/ava-labs/avalanchego/database/memdb"
	"github.com/ava-labs/avalanchego/ids"
	"github.com/ava-labs/avalanchego/snow/engine/common"
	"github.com/ava-labs/avalanchego/snow/engine/enginetest"
	"github.com/ava-labs/avalanchego/snow/engine/snowman/block"
	"github.com/ava-labs/avalanchego/snow/snowtest"
	"github.com/ava-labs/avalanchego/utils/hashing"
	"github.com/prometheus/client_golang/prometheus"

	"github.com/ava-labs/hypersdk/chainindex"
	"github.com/ava-labs/hypersdk/event"
	"github.com/ava-labs/hypersdk/snow"
)

// ---------------------------------------------------------------- blocks (three distinct Go types)

type inBlk struct {
	Name    string `json:"name"`
	PrntID  ids.ID `json:"parent"`
	Hght    uint64 `json:"height"`
	Tmstmp  int64  `json:"timestamp"`
	Invalid bool   `json:"invalid"`
	Salt    int64  `json:"salt"`

	bytes []byte
	id    ids.ID
}

func (b *inBlk) init() *inBlk {
	bs, err := json.Marshal(b)
	if err != nil {
		panic(err)
	}
	b.bytes = bs
	b.id = hashing.ComputeHash256Array(bs)
	return b
}
func (b *inBlk) GetID() ids.ID              { return b.id }
func (b *inBlk) GetParent() ids.ID          { return b.PrntID }
func (b *inBlk) GetTimestamp() int64        { return b.Tmstmp }
func (b *inBlk) GetBytes() []byte           { return b.bytes }
func (b *inBlk) GetHeight() uint64          { return b.Hght }
func (*inBlk) GetContext() *block.Context   { return nil }
func (b *inBlk) String() string             { return b.Name }

// outBlk is an executed block: state is the fold of the chain from genesis to this block.
type outBlk struct {
	*inBlk
	state []string
}

// accBlk is an accepted (committed) block.
type accBlk struct {
	*outBlk
}

type vmT = snow.VM[*inBlk, *outBlk, *accBlk]
type sbT = snow.StatefulBlock[*inBlk, *outBlk, *accBlk]

type cbRec struct {
	K string `json:"k"`
	B string `json:"b"`
	P string `json:"p"`
}

// ---------------------------------------------------------------- harness

type node struct {
	name    string
	parent  string
	height  uint64
	invalid bool
	blk     *inBlk
}

type harness struct {
	t    *testing.T
	rng  *rand.Rand
	ctx  context.Context
	vm   *vmT
	db   *memdb.Database
	pcap int
	acap int

	nodes  map[string]*node
	order  []string // creation order
	byID   map[ids.ID]string
	nextNo int

	// engine view
	status  map[string]string // new | held | proc | acc | rej
	held    map[string]*sbT
	lastAcc string
	pref    string
	pendRej []string
	ready   bool
	phase   string // normal | syncing | done | failed
	syncBase string
	preAccepted int
	inflight string
	queued   []string
	maxBacklog int

	// initial last accepted
	root      string
	rootReady bool

	mu        sync.Mutex
	syncCbs   []cbRec // callbacks raised on the driver's goroutine
	asyncCbs  []cbRec // callbacks raised by the async accepter
	inSync    bool    // Initialize / FinishStateSync running: AcceptBlock is called synchronously
	gate      chan struct{}
	arrived   chan string
	processed chan string
	buildNext *node // block Chain.BuildBlock will return

	lines []map[string]any
	stats map[string]int

	// probes from a second goroutine while a call is in progress, and injected index faults
	probeIdx  bool       // look the chain up while Accept is inside the chain index write
	failIdx   bool       // the chain index refuses the next write once
	faults    int
	midFound  [][]string // GetBlock results seen during the index write
	midLa     []string   // LastAccepted seen during the index write
	finishing bool       // FinishStateSync in progress
	midH      []string   // HealthCheck seen at each Chain callback inside FinishStateSync
}

// faultIndex is the chain index handed to the VM: the driver can look at the VM from a second goroutine while
// Accept is inside UpdateLastAccepted (Accept holds chainLock there; the lookups do not take it) and can make the
// write fail once.
type faultIndex struct {
	*chainindex.ChainIndex[*inBlk]
	h *harness
}

func (f *faultIndex) UpdateLastAccepted(ctx context.Context, blk *inBlk) error {
	h := f.h
	if h.probeIdx {
		h.probeIdx = false
		done := make(chan struct{})
		go func() {
			defer close(done)
			found := []string{}
			for _, name := range h.order {
				n := h.nodes[name]
				if b, err := h.vm.GetBlock(ctx, n.blk.id); err == nil && b.ID() == n.blk.id {
					found = append(found, name)
				}
			}
			h.midFound = append(h.midFound, found)
			la := "err"
			if id, err := h.vm.LastAccepted(ctx); err == nil {
				la = h.nameOf(id)
			}
			h.midLa = append(h.midLa, la)
		}()
		<-done
	}
	if h.failIdx {
		h.failIdx = false
		return errors.New("driver: injected chain index write failure")
	}
	return f.ChainIndex.UpdateLastAccepted(ctx, blk)
}

// probeHealth: HealthCheck from a second goroutine while FinishStateSync is inside a Chain callback.
func (h *harness) probeHealth() {
	if !h.finishing {
		return
	}
	done := make(chan string)
	go func() { done <- h.health() }()
	h.midH = append(h.midH, <-done)
}

func (h *harness) nameOf(id ids.ID) string {
	if n, ok := h.byID[id]; ok {
		return n
	}
	return "unknown"
}

func (h *harness) addNode(parent string, height uint64, invalid bool, parentID ids.ID) *node {
	name := "b" + strconv.Itoa(h.nextNo)
	h.nextNo++
	b := (&inBlk{Name: name, PrntID: parentID, Hght: height, Tmstmp: int64(height), Invalid: invalid, Salt: h.rng.Int63()}).init()
	n := &node{name: name, parent: parent, height: height, invalid: invalid, blk: b}
	h.nodes[name] = n
	h.order = append(h.order, name)
	h.byID[b.id] = name
	h.status[name] = "new"
	return n
}

func (h *harness) child(parent string, invalid bool) *node {
	p := h.nodes[parent]
	return h.addNode(parent, p.height+1, invalid, p.blk.id)
}

func (h *harness) path(name string) []string {
	var rev []string
	for n := name; ; {
		nd, ok := h.nodes[n]
		if !ok {
			break
		}
		rev = append(rev, n)
		n = nd.parent
	}
	out := make([]string, len(rev))
	for i := range rev {
		out[i] = rev[len(rev)-1-i]
	}
	return out
}

func (h *harness) desc(anc, x string) bool {
	for n := x; ; {
		if n == anc {
			return true
		}
		nd, ok := h.nodes[n]
		if !ok {
			return false
		}
		n = nd.parent
	}
}

func (h *harness) cb(k, b, p string, async bool) {
	h.mu.Lock()
	defer h.mu.Unlock()
	if async {
		h.asyncCbs = append(h.asyncCbs, cbRec{k, b, p})
	} else {
		h.syncCbs = append(h.syncCbs, cbRec{k, b, p})
	}
}

// drain takes the recorded callbacks: those of the driver goroutine (which = "sync"), the Chain.AcceptBlock
// entry of the async accepter ("dequeue") or its accepted notification ("process").
func (h *harness) drain(which string) (cc, nn []cbRec) {
	h.mu.Lock()
	defer h.mu.Unlock()
	cc, nn = []cbRec{}, []cbRec{}
	if which == "sync" {
		for _, r := range h.syncCbs {
			switch {
			case r.K == "cparse":
			case strings.HasPrefix(r.K, "c"):
				cc = append(cc, r)
			default:
				nn = append(nn, r)
			}
		}
		h.syncCbs = nil
		return cc, nn
	}
	var rest []cbRec
	for _, r := range h.asyncCbs {
		isCall := strings.HasPrefix(r.K, "c")
		switch {
		case which == "dequeue" && isCall:
			cc = append(cc, r)
		case which == "process" && !isCall:
			nn = append(nn, r)
		default:
			rest = append(rest, r)
		}
	}
	h.asyncCbs = rest
	return cc, nn
}

// ---------------------------------------------------------------- the Chain under the VM

type vchain struct{ h *harness }

func (c *vchain) ParseBlock(_ context.Context, bs []byte) (*inBlk, error) {
	b := &inBlk{}
	if err := json.Unmarshal(bs, b); err != nil {
		return nil, err
	}
	b.init()
	c.h.cb("cparse", c.h.nameOf(b.id), "none", false)
	return b, nil
}

func (c *vchain) Initialize(ctx context.Context, in snow.ChainInput, vm *vmT) (snow.ChainIndex[*inBlk], *outBlk, *accBlk, bool, error) {
	h := c.h
	idx, err := chainindex.New[*inBlk](ctx, in.SnowCtx.Log, prometheus.NewRegistry(), chainindex.NewDefaultConfig(), c, h.db)
	if err != nil {
		return nil, nil, nil, false, err
	}
	root := h.nodes[h.root]
	if err := idx.UpdateLastAccepted(ctx, root.blk); err != nil {
		return nil, nil, nil, false, err
	}
	vm.AddVerifiedSub(event.SubscriptionFunc[*outBlk]{NotifyF: func(_ context.Context, b *outBlk) error {
		h.cb("nverified", h.nameOf(b.GetID()), "none", false)
		return nil
	}})
	vm.AddRejectedSub(event.SubscriptionFunc[*outBlk]{NotifyF: func(_ context.Context, b *outBlk) error {
		h.cb("nrejected", h.nameOf(b.GetID()), "none", false)
		return nil
	}})
	vm.AddAcceptedSub(event.SubscriptionFunc[*accBlk]{NotifyF: func(_ context.Context, b *accBlk) error {
		name := h.nameOf(b.GetID())
		if h.inSync {
			h.cb("naccepted", name, "none", false)
			return nil
		}
		h.cb("naccepted", name, "none", true)
		h.processed <- name
		return nil
	}})
	vm.AddPreReadyAcceptedSub(event.SubscriptionFunc[*inBlk]{NotifyF: func(_ context.Context, b *inBlk) error {
		h.cb("npreacc", h.nameOf(b.GetID()), "none", false)
		return nil
	}})
	vm.AddPreRejectedSub(event.SubscriptionFunc[*inBlk]{NotifyF: func(_ context.Context, b *inBlk) error {
		h.cb("nprerej", h.nameOf(b.GetID()), "none", false)
		return nil
	}})
	out := &outBlk{inBlk: root.blk}
	if h.rootReady {
		out.state = h.path(h.root)
	}
	return &faultIndex{ChainIndex: idx, h: h}, out, &accBlk{out}, h.rootReady, nil
}

func (*vchain) SetConsensusIndex(*snow.ConsensusIndex[*inBlk, *outBlk, *accBlk]) {}

func outName(h *harness, o *outBlk) string {
	if o == nil || o.inBlk == nil || len(o.state) == 0 {
		return "none"
	}
	return h.nameOf(o.GetID())
}

func (c *vchain) BuildBlock(_ context.Context, _ *block.Context, parent *outBlk) (*inBlk, *outBlk, error) {
	h := c.h
	pn := outName(h, parent)
	n := h.buildNext
	h.buildNext = nil
	if n == nil || pn == "none" {
		h.cb("cbuild", "none", pn, false)
		return nil, nil, errors.New("driver: nothing to build")
	}
	h.cb("cbuild", n.name, pn, false)
	st := append(append([]string{}, parent.state...), n.name)
	// the built input block is a distinct object from the one the driver keeps
	in := &inBlk{}
	if err := json.Unmarshal(n.blk.bytes, in); err != nil {
		return nil, nil, err
	}
	in.init()
	return in, &outBlk{inBlk: in, state: st}, nil
}

func (c *vchain) VerifyBlock(_ context.Context, parent *outBlk, blk *inBlk) (*outBlk, error) {
	h := c.h
	pn := outName(h, parent)
	h.cb("cverify", h.nameOf(blk.GetID()), pn, false)
	h.probeHealth()
	if pn == "none" {
		return nil, errors.New("driver: VerifyBlock on a parent without output")
	}
	if blk.Invalid {
		return nil, fmt.Errorf("driver: invalid block %s", blk.Name)
	}
	st := append(append([]string{}, parent.state...), h.nameOf(blk.GetID()))
	return &outBlk{inBlk: blk, state: st}, nil
}

func (c *vchain) AcceptBlock(_ context.Context, parent *accBlk, blk *outBlk) (*accBlk, error) {
	h := c.h
	pn := "none"
	if parent != nil {
		pn = outName(h, parent.outBlk)
	}
	name := outName(h, blk)
	if h.inSync {
		h.cb("caccept", name, pn, false)
		h.probeHealth()
		return &accBlk{blk}, nil
	}
	h.cb("caccept", name, pn, true)
	h.arrived <- name
	<-h.gate
	return &accBlk{blk}, nil
}

// ---------------------------------------------------------------- observation

const watchdog = 60 * time.Second

func (h *harness) health() string {
	_, err := h.vm.HealthCheck(h.ctx)
	switch {
	case err == nil:
		return "ok"
	case strings.Contains(err.Error(), "vm not ready"):
		return "notready"
	case strings.Contains(err.Error(), "unresolved"):
		return "unresolved"
	default:
		return "other:" + err.Error()
	}
}

func (h *harness) maxHeight() uint64 {
	var m uint64
	for _, n := range h.nodes {
		if n.height > m && n.height < 900 {
			m = n.height
		}
	}
	return m
}

func (h *harness) project(line map[string]any) {
	ctx := h.ctx
	la, err := h.vm.LastAccepted(ctx)
	if err != nil {
		line["la"] = "err"
	} else {
		line["la"] = h.nameOf(la)
	}
	found := []string{}
	for _, name := range h.order {
		n := h.nodes[name]
		blk, err := h.vm.GetBlock(ctx, n.blk.id)
		if err != nil {
			continue
		}
		if blk.ID() != n.blk.id || blk.Height() != n.height || blk.Parent() != n.blk.PrntID {
			found = append(found, "wrong:"+name)
			continue
		}
		found = append(found, name)
	}
	line["found"] = found
	byh := []string{}
	for ht := uint64(0); ht <= h.maxHeight()+1; ht++ {
		id, err := h.vm.GetBlockIDAtHeight(ctx, ht)
		r := "none"
		if err == nil {
			r = h.nameOf(id)
		}
		blk, err2 := h.vm.GetBlockByHeight(ctx, ht)
		r2 := "none"
		if err2 == nil {
			r2 = h.nameOf(blk.ID())
			if blk.Height() != ht {
				r2 = "wrongheight:" + r2
			}
		}
		if r != r2 {
			r = "idAtHeight=" + r + "/byHeight=" + r2
		}
		byh = append(byh, r)
	}
	line["byh"] = byh
	line["health"] = h.health()
	ci := h.vm.GetConsensusIndex()
	lp, err := ci.GetLastAccepted(ctx)
	if err != nil || lp == nil || lp.outBlk == nil {
		line["lp"] = "none"
		line["lps"] = []string{}
	} else {
		line["lp"] = h.nameOf(lp.GetID())
		line["lps"] = append([]string{}, lp.state...)
	}
	pb, err := ci.GetPreferredBlock(ctx)
	if err != nil || pb == nil {
		line["pref"] = "err"
	} else {
		line["pref"] = h.nameOf(pb.GetID())
	}
}

func (h *harness) emit(ev, b, res string, async bool) map[string]any {
	which := "sync"
	if async {
		which = ev
	}
	cc, nn := h.drain(which)
	line := map[string]any{"ev": ev, "b": b, "res": res, "cc": cc, "nn": nn, "msg": lastMsg}
	lastMsg = ""
	h.project(line)
	h.lines = append(h.lines, line)
	h.stats["ev_"+ev]++
	return line
}

// lastMsg: error text of the last failed call (informational, not bound by the trace spec)
var lastMsg string

func resOf(err error) string {
	if err == nil {
		return "ok"
	}
	lastMsg = err.Error()
	if len(lastMsg) > 160 {
		lastMsg = lastMsg[:160]
	}
	return "err"
}

// waitArrived: the async accepter entered Chain.AcceptBlock for the next queued block.
func (h *harness) waitArrived() {
	if h.inflight != "" || len(h.queued) == 0 {
		return
	}
	select {
	case name := <-h.arrived:
		if name != h.queued[0] {
			h.t.Fatalf("driver: accepter took %s, expected %s", name, h.queued[0])
		}
		h.inflight = name
		h.queued = h.queued[1:]
		h.emit("dequeue", name, "ok", true)
	case <-time.After(watchdog):
		h.t.Fatalf("driver: async accepter did not pick up %s within %s", h.queued[0], watchdog)
	}
}

// ---------------------------------------------------------------- engine calls

func (h *harness) parse(name string) {
	n := h.nodes[name]
	blk, err := h.vm.ParseBlock(h.ctx, n.blk.bytes)
	res := resOf(err)
	if err == nil {
		if blk.ID() != n.blk.id || blk.Height() != n.height || blk.Parent() != n.blk.PrntID {
			res = "wrongblock"
		}
		switch h.status[name] {
		case "new":
			h.status[name] = "held"
			h.held[name] = blk
		case "held", "proc":
			h.held[name] = blk
		}
	}
	h.emit("parse", name, res, false)
}

func (h *harness) build() {
	n := h.child(h.pref, false)
	h.buildNext = n
	blk, err := h.vm.BuildBlock(h.ctx)
	res := resOf(err)
	if err == nil {
		if blk.ID() != n.blk.id {
			res = "wrongblock"
		}
		h.status[n.name] = "held"
		h.held[n.name] = blk
	}
	line := h.emit("build", n.name, res, false)
	line["p"] = h.pref
}

func (h *harness) verify(name string) {
	err := h.held[name].Verify(h.ctx)
	if err == nil {
		h.status[name] = "proc"
	}
	h.emit("verify", name, resOf(err), false)
}

func (h *harness) accept(name string) {
	h.probeIdx = h.rng.Intn(100) < 60
	h.failIdx = h.faults < 2 && h.rng.Intn(100) < 8
	failing := h.failIdx
	h.midFound, h.midLa = [][]string{}, []string{}
	err := h.held[name].Accept(h.ctx)
	h.probeIdx, h.failIdx = false, false
	if failing {
		// the index write was refused: Accept must fail and leave the block processing; it is retried later
		h.faults++
		line := h.emit("acceptfail", name, resOf(err), false)
		line["midfound"], line["midla"] = h.midFound, h.midLa
		return
	}
	if err == nil {
		h.status[name] = "acc"
		h.lastAcc = name
		if h.ready {
			h.queued = append(h.queued, name)
		} else {
			h.preAccepted++
		}
		h.pendRej = nil
		for _, x := range h.order {
			if h.status[x] == "proc" && !h.desc(name, x) {
				h.pendRej = append(h.pendRej, x)
			}
		}
	}
	line := h.emit("accept", name, resOf(err), false)
	line["midfound"], line["midla"] = h.midFound, h.midLa
	if err == nil && h.ready {
		h.waitArrived()
	}
}

func (h *harness) process() {
	name := h.inflight
	h.gate <- struct{}{}
	// processAccept: Chain.AcceptBlock returns, accepted subscribers are notified, then setLastProcessed.
	// lastProcessed == name therefore means the step is complete, whether or not a notification was sent.
	deadline := time.Now().Add(watchdog)
	for {
		lp, err := h.vm.GetConsensusIndex().GetLastAccepted(h.ctx)
		if err == nil && lp != nil && h.nameOf(lp.GetID()) == name {
			break
		}
		if time.Now().After(deadline) {
			h.t.Fatalf("driver: block %s was not processed within %s", name, watchdog)
		}
		time.Sleep(20 * time.Microsecond)
	}
	for drained := false; !drained; {
		select {
		case <-h.processed:
		default:
			drained = true
		}
	}
	h.inflight = ""
	h.emit("process", name, "ok", true)
	h.waitArrived()
}

func (h *harness) reject(name string) {
	err := h.held[name].Reject(h.ctx)
	if err == nil {
		h.status[name] = "rej"
		out := h.pendRej[:0]
		for _, x := range h.pendRej {
			if x != name {
				out = append(out, x)
			}
		}
		h.pendRej = out
	}
	h.emit("reject", name, resOf(err), false)
}

func (h *harness) setPref(name string) {
	err := h.vm.SetPreference(h.ctx, h.nodes[name].blk.id)
	if err == nil {
		h.pref = name
	}
	h.emit("setpref", name, resOf(err), false)
}

func (h *harness) startSync(name string) {
	n := h.nodes[name]
	in := &inBlk{}
	_ = json.Unmarshal(n.blk.bytes, in)
	in.init()
	err := h.vm.StartStateSync(h.ctx, in)
	if err == nil {
		for x := name; x != h.lastAcc; x = h.nodes[x].parent {
			h.status[x] = "acc"
		}
		h.lastAcc = name
		h.ready = false
		h.phase = "syncing"
		h.syncBase = name
	}
	h.emit("startsync", name, resOf(err), false)
}

func (h *harness) finishSync(name string) {
	n := h.nodes[name]
	in := &inBlk{}
	_ = json.Unmarshal(n.blk.bytes, in)
	in.init()
	out := &outBlk{inBlk: in, state: h.path(name)} // the executed state of the target as the network has it
	h.inSync, h.finishing, h.midH = true, true, []string{}
	err := h.vm.FinishStateSync(h.ctx, in, out, &accBlk{out})
	h.inSync, h.finishing = false, false
	if err == nil {
		h.ready = true
		h.phase = "done"
	} else {
		h.phase = "failed"
	}
	line := h.emit("finishsync", name, resOf(err), false)
	line["midh"] = h.midH
}

// ---------------------------------------------------------------- schedules

func (h *harness) pick(xs []string) string { return xs[h.rng.Intn(len(xs))] }

func (h *harness) withStatus(st ...string) []string {
	var out []string
	for _, x := range h.order {
		for _, s := range st {
			if h.status[x] == s {
				out = append(out, x)
			}
		}
	}
	return out
}

func (h *harness) verifiable() []string {
	var out []string
	for _, x := range h.withStatus("held") {
		p := h.nodes[x].parent
		if p == h.lastAcc || h.status[p] == "proc" {
			out = append(out, x)
		}
	}
	return out
}

func (h *harness) acceptable() []string {
	var out []string
	for _, x := range h.withStatus("proc") {
		if h.nodes[x].parent == h.lastAcc && !h.nodes[x].invalid {
			out = append(out, x)
		}
	}
	return out
}

func (h *harness) rejectable() []string {
	var out []string
	for _, x := range h.pendRej {
		parentPending := false
		for _, y := range h.pendRej {
			if y == h.nodes[x].parent {
				parentPending = true
			}
		}
		if !parentPending {
			out = append(out, x)
		}
	}
	return out
}

// pendingParents: rejectable blocks that have a child which is also awaiting rejection.
func (h *harness) pendingParents() []string {
	var out []string
	for _, x := range h.rejectable() {
		for _, y := range h.pendRej {
			if h.nodes[y].parent == x {
				out = append(out, x)
				break
			}
		}
	}
	return out
}

// orphanPending: some block awaiting rejection has an already rejected parent.
func (h *harness) orphanPending() bool {
	for _, y := range h.pendRej {
		if h.status[h.nodes[y].parent] == "rej" {
			return true
		}
	}
	return false
}

func (h *harness) backlog() int {
	n := len(h.queued)
	if h.inflight != "" {
		n++
	}
	return n
}

// finishTargets: accepted blocks from the sync base to the tip (every block in between is indexed because
// it was accepted one by one while syncing).
func (h *harness) finishTargets() []string {
	var out []string
	for x := h.lastAcc; ; x = h.nodes[x].parent {
		out = append(out, x)
		if x == h.syncBase {
			break
		}
	}
	return out
}

func (h *harness) prefOK() bool {
	_, err := h.vm.GetConsensusIndex().GetPreferredBlock(h.ctx)
	return err == nil
}

func (h *harness) newParent() string {
	cands := append(h.withStatus("proc"), h.lastAcc)
	r := h.rng.Intn(100)
	switch {
	case r < 80:
		return h.pick(cands)
	case r < 90:
		if old := h.withStatus("rej", "acc", "held"); len(old) > 0 {
			return h.pick(old)
		}
	}
	return "orphan"
}

// step performs one engine-visible step.
func (h *harness) step() {
	if len(h.pendRej) > 0 {
		// snowman rejects the conflicting blocks right after the accept, parents first; only parsing, the
		// async accepter and the sync client can interleave
		r := h.rng.Intn(100)
		switch {
		case r < 10 && len(h.order) > 0:
			h.parse(h.pick(h.order))
		case r < 20 && h.inflight != "":
			h.process()
		default:
			h.reject(h.pick(h.rejectable()))
		}
		if len(h.pendRej) == 0 {
			// the engine re-publishes its preference after every decision
			h.setPref(h.pick(append(h.withStatus("proc"), h.lastAcc)))
		}
		return
	}
	for tries := 0; tries < 50; tries++ {
		r := h.rng.Intn(100)
		switch {
		case r < 22: // parse a new block
			p := h.newParent()
			var n *node
			if p == "orphan" {
				n = h.addNode("orphan", 1000, false, ids.GenerateTestID())
			} else {
				n = h.child(p, h.rng.Intn(100) < 20)
			}
			h.parse(n.name)
			if v := h.verifiable(); h.rng.Intn(100) < 70 && len(v) > 0 && v[len(v)-1] == n.name {
				h.verify(n.name)
			}
			return
		case r < 30: // parse a known block again
			h.parse(h.pick(h.order))
			return
		case r < 42:
			if h.ready && (h.pref == h.lastAcc || h.status[h.pref] == "proc") && h.prefOK() {
				h.build()
				if h.rng.Intn(100) < 80 {
					h.verify(h.order[len(h.order)-1])
				}
				return
			}
		case r < 58:
			if v := h.verifiable(); len(v) > 0 {
				h.verify(h.pick(v))
				return
			}
		case r < 76:
			if a := h.acceptable(); len(a) > 0 && h.backlog() < h.maxBacklog {
				h.accept(h.pick(a))
				if len(h.pendRej) == 0 {
					h.setPref(h.pick(append(h.withStatus("proc"), h.lastAcc)))
				}
				return
			}
		case r < 90:
			if h.inflight != "" {
				h.process()
				return
			}
		default:
			h.setPref(h.pick(append(h.withStatus("proc"), h.lastAcc)))
			return
		}
	}
}

// ---------------------------------------------------------------- scenario

type scenarioCfg struct {
	kind  string // ready | sync0 | syncahead | race
	steps int
}

func newHarness(t *testing.T, seed int64, pcap, acap int, rootReady bool) *harness {
	h := &harness{
		t: t, rng: rand.New(rand.NewSource(seed)), ctx: context.Background(), db: memdb.New(), pcap: pcap, acap: acap,
		nodes: map[string]*node{}, byID: map[ids.ID]string{}, status: map[string]string{}, held: map[string]*sbT{},
		rootReady: rootReady, ready: rootReady, gate: make(chan struct{}), arrived: make(chan string, 64),
		processed: make(chan string, 64), stats: map[string]int{},
	}
	root := h.addNode("none", 0, false, ids.Empty)
	h.root = root.name
	h.status[root.name] = "acc"
	h.lastAcc, h.pref, h.syncBase = root.name, root.name, root.name
	h.phase = "normal"
	if !rootReady {
		h.phase = "syncing"
	}
	h.maxBacklog = acap - 1
	if h.maxBacklog > 3 {
		h.maxBacklog = 3
	}
	if v := envInt("VERIF_MAXBACKLOG", 0); v > 0 {
		h.maxBacklog = v // probe only: a backlog larger than the accepted window (notes/C20.md, observation)
	}
	return h
}

func (h *harness) boot() {
	t := h.t
	h.vm = snow.NewVM[*inBlk, *outBlk, *accBlk]("v0.0.1", &vchain{h})
	snowCtx := snowtest.Context(t, ids.GenerateTestID())
	snowCtx.ChainDataDir = t.TempDir()
	cfg, _ := json.Marshal(map[string]any{snow.SnowVMConfigKey: snow.VMConfig{ParsedBlockCacheSize: h.pcap, AcceptedBlockWindowCache: h.acap}})
	h.inSync = true
	err := h.vm.Initialize(h.ctx, snowCtx, nil, nil, nil, cfg, make(chan common.Message, 1), nil, &enginetest.Sender{T: t})
	h.inSync = false
	if err != nil {
		t.Fatalf("driver: Initialize: %v", err)
	}
	h.emit("init", h.root, "ok", false)
}

func (h *harness) shutdown() {
	close(h.gate) // let every parked accept through
	done := make(chan error, 1)
	go func() { done <- h.vm.Shutdown(h.ctx) }()
	for {
		select {
		case <-done:
			return
		case <-h.processed:
		case <-h.arrived:
		case <-time.After(watchdog):
			h.t.Fatalf("driver: Shutdown did not return within %s", watchdog)
		}
	}
}

func (h *harness) write(path string, meta map[string]any) {
	tree := map[string]any{}
	for name, n := range h.nodes {
		tree[name] = map[string]any{"p": n.parent, "h": n.height, "inv": n.invalid}
	}
	reset := map[string]any{"ev": "reset", "tree": tree, "root": h.root, "ready": h.rootReady, "pcap": h.pcap, "acap": h.acap}
	for k, v := range meta {
		reset[k] = v
	}
	f, err := os.Create(path)
	if err != nil {
		h.t.Fatal(err)
	}
	defer f.Close()
	enc := json.NewEncoder(f)
	if err := enc.Encode(reset); err != nil {
		h.t.Fatal(err)
	}
	for _, l := range h.lines {
		if err := enc.Encode(l); err != nil {
			h.t.Fatal(err)
		}
	}
}

func runScenario(t *testing.T, no int, seed int64, kind string, steps int) *harness {
	rng := rand.New(rand.NewSource(seed))
	pcap := 1 + rng.Intn(3)
	acap := 2 + rng.Intn(3)
	rootReady := kind == "ready" || kind == "syncahead"
	h := newHarness(t, seed+7, pcap, acap, rootReady)
	h.boot()
	switch kind {
	case "ready":
		for i := 0; i < steps; i++ {
			h.step()
		}
	case "sync0", "race":
		// mid-sync start (as the repository's own state sync tests): not ready, optionally StartStateSync on the
		// current last accepted block
		if rng.Intn(2) == 0 {
			h.startSync(h.root)
		}
		finishAt := 3 + rng.Intn(steps*2/3)
		for i := 0; i < steps; i++ {
			if h.phase == "syncing" && i >= finishAt {
				if kind == "race" {
					if ps := h.pendingParents(); len(ps) > 0 {
						// reject one parent, then let the sync client finish before its children are rejected
						h.reject(h.pick(ps))
						h.finishSync(h.pick(h.finishTargets()))
						continue
					}
				} else if (len(h.pendRej) == 0 || rng.Intn(4) == 0) && !h.orphanPending() {
					// (never between a rejected parent and its still-processing child: that is the race kind)
					h.finishSync(h.pick(h.finishTargets()))
					continue
				}
			}
			if h.phase == "failed" {
				break
			}
			h.step()
		}
		for h.phase == "syncing" && len(h.pendRej) > 0 {
			h.reject(h.pick(h.rejectable()))
		}
		if h.phase == "syncing" {
			h.finishSync(h.pick(h.finishTargets()))
		}
	case "syncahead":
		// normal operation, quiesce, then the sync client jumps ahead of the last accepted block
		pre := rng.Intn(steps / 3)
		for i := 0; i < pre; i++ {
			h.step()
		}
		for guard := 0; guard < 200 && (len(h.pendRej) > 0 || h.backlog() > 0 || len(h.withStatus("proc")) > 0); guard++ {
			switch {
			case len(h.pendRej) > 0:
				h.reject(h.pick(h.rejectable()))
			case h.inflight != "":
				h.process()
			case len(h.acceptable()) > 0:
				h.accept(h.pick(h.acceptable()))
			default:
				// processing blocks that can never be accepted (none in ready mode): give up on the jump
				guard = 1000
			}
		}
		if len(h.pendRej) == 0 && h.backlog() == 0 && len(h.withStatus("proc")) == 0 {
			target := h.lastAcc
			for k := rng.Intn(4); k > 0; k-- {
				target = h.child(target, false).name
			}
			h.startSync(target)
			finishAt := rng.Intn(steps / 2)
			for i := 0; i < steps; i++ {
				if h.phase == "syncing" && i >= finishAt && len(h.pendRej) == 0 {
					h.finishSync(h.pick(h.finishTargets()))
					continue
				}
				h.step()
			}
			if h.phase == "syncing" && len(h.pendRej) == 0 {
				h.finishSync(h.pick(h.finishTargets()))
			}
		}
	}
	// drain: every queued accept is processed before the run ends
	for h.phase != "failed" && h.inflight != "" {
		h.process()
	}
	h.shutdown()
	return h
}

func envInt(name string, def int) int {
	if v, err := strconv.Atoi(os.Getenv(name)); err == nil {
		return v
	}
	return def
}

// TestVerifSnowVMRecord records VERIF_SCENARIOS scenarios of the kinds listed in VERIF_KINDS.
func TestVerifSnowVMRecord(t *testing.T) {
	out := os.Getenv("VERIF_OUT")
	if out == "" {
		t.Skip("VERIF_OUT not set")
	}
	seed := int64(envInt("VERIF_SEED", 1))
	n := envInt("VERIF_SCENARIOS", 20)
	steps := envInt("VERIF_STEPS", 60)
	only := envInt("VERIF_ONLY", -1)
	kinds := strings.Split(os.Getenv("VERIF_KINDS"), ",")
	if len(kinds) == 0 || kinds[0] == "" {
		kinds = []string{"ready"}
	}
	total := map[string]int{}
	for i := 0; i < n; i++ {
		if only >= 0 && i != only {
			continue
		}
		kind := kinds[i%len(kinds)]
		if tk := os.Getenv("VERIF_TAIL_KIND"); tk != "" && i >= n-envInt("VERIF_TAIL", 0) {
			kind = tk // the last VERIF_TAIL scenarios are of this kind
		}
		h := runScenario(t, i, seed*1000003+int64(i), kind, steps)
		h.write(filepath.Join(out, fmt.Sprintf("sc%05d.ndjson", i)), map[string]any{"kind": kind, "no": i})
		for k, v := range h.stats {
			total[k] += v
		}
		total["blocks"] += len(h.nodes)
		total["rejected_blocks"] += len(h.withStatus("rej"))
		total["accepted_blocks"] += len(h.withStatus("acc")) - 1
		if h.phase == "failed" {
			total["finish_failed"]++
		}
	}
	keys := make([]string, 0, len(total))
	for k := range total {
		keys = append(keys, k)
	}
	sort.Strings(keys)
	bs, _ := json.Marshal(total)
	if err := os.WriteFile(filepath.Join(out, "stats.json"), bs, 0o644); err != nil {
		t.Fatal(err)
	}
}
