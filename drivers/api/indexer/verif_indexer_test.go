//go:build verif

// Driver for C31 (see /verif/DESIGN.md, /verif/spec/IndexerWindow.tla): feeds the real Indexer (pebble on disk,
// under VERIF_OUT) seeded histories of accepted-block notifications - consecutive, with height gaps, the latest
// block again - restarts (Close + NewIndexer on the same directory) and crashes (an indexer opened on a copy of the
// live directory taken without Close), and after every call asks every query
// over the whole universe of heights / block ids / transaction ids.  One ndjson line per call;
// spec/Indexer_Trace.tla decides.
package indexer_test

import (
	"bytes"
	"context"
	"encoding/json"
	"fmt"
	"io"
	"io/fs"
	"math/rand"
	"os"
	"path/filepath"
	"strconv"
	"testing"

	"github.com/ava-labs/avalanchego/ids"
	"github.com/stretchr/testify/require"

	"github.com/ava-labs/hypersdk/api/indexer"
	"github.com/ava-labs/hypersdk/chain"
	"github.com/ava-labs/hypersdk/chain/chaintest"
)

type idxHarness struct {
	t      *testing.T
	dir    string
	w      int
	idx    *indexer.Indexer
	blocks []*chain.ExecutedBlock // blocks[i] has height i+1
	bytes  [][]byte
	lines  []map[string]any
}

func (h *idxHarness) open() {
	idx, err := indexer.NewIndexer(h.dir, chaintest.NewTestParser(), uint64(h.w))
	if err != nil {
		h.t.Fatalf("VERIF_INFRA NewIndexer: %v", err)
	}
	h.idx = idx
}

// which of our blocks is this? its height if it is byte-identical to the block delivered for that height, else -2
func (h *idxHarness) identify(blk *chain.ExecutedBlock) int {
	if blk == nil || blk.Block == nil {
		return -2
	}
	ht := int(blk.Block.Hght)
	if ht < 1 || ht > len(h.blocks) {
		return -2
	}
	b, err := blk.Marshal()
	if err != nil || !bytes.Equal(b, h.bytes[ht-1]) || blk.Block.GetID() != h.blocks[ht-1].Block.GetID() {
		return -2
	}
	return ht
}

func (h *idxHarness) answers(line map[string]any) {
	n := len(h.blocks)
	byh, byid, txs := make([]int, n), make([]int, n), make([][]int, n)
	for i, want := range h.blocks {
		if blk, err := h.idx.GetBlockByHeight(uint64(i + 1)); err != nil {
			byh[i] = -1
		} else {
			byh[i] = h.identify(blk)
		}
		if blk, err := h.idx.GetBlock(want.Block.GetID()); err != nil {
			byid[i] = -1
		} else {
			byid[i] = h.identify(blk)
		}
		txs[i] = []int{}
		for j, tx := range want.Block.Txs {
			found, got, ts, res, err := h.idx.GetTransaction(tx.GetID())
			switch {
			case err != nil:
				txs[i] = append(txs[i], -2)
			case !found:
				txs[i] = append(txs[i], -1)
			case got == nil || res == nil || got.GetID() != tx.GetID() || ts != want.Block.Tmstmp ||
				!bytes.Equal(res.Marshal(), want.ExecutionResults.Results[j].Marshal()):
				txs[i] = append(txs[i], -2)
			default:
				txs[i] = append(txs[i], i+1)
			}
		}
	}
	latest := -1
	if blk, err := h.idx.GetLatestBlock(); err == nil {
		latest = h.identify(blk)
	}
	unknown := -1
	if _, err := h.idx.GetBlockByHeight(uint64(n + 7)); err == nil {
		unknown = -2
	}
	if _, err := h.idx.GetBlock(ids.GenerateTestID()); err == nil {
		unknown = -2
	}
	if found, _, _, _, err := h.idx.GetTransaction(ids.GenerateTestID()); found || err != nil {
		unknown = -2
	}
	line["byh"], line["byid"], line["tx"], line["latest"], line["unknown"] = byh, byid, txs, latest, unknown
	h.lines = append(h.lines, line)
}

func (h *idxHarness) notify(height int) {
	if err := h.idx.Notify(context.Background(), h.blocks[height-1]); err != nil {
		h.t.Fatalf("VERIF_INFRA Notify: %v", err)
	}
	h.answers(map[string]any{"ev": "notify", "h": height})
}

func (h *idxHarness) restart() {
	if err := h.idx.Close(); err != nil {
		h.t.Fatalf("VERIF_INFRA Close: %v", err)
	}
	h.open()
	h.answers(map[string]any{"ev": "restart"})
}

// copyDir copies the live pebble directory file by file (the indexer stays open: this is what a kill leaves behind;
// every commit of the indexer's database is synchronous, and no call is in flight while we copy).
func copyDir(src, dst string) error {
	return filepath.WalkDir(src, func(path string, d fs.DirEntry, err error) error {
		if err != nil {
			return err
		}
		rel, err := filepath.Rel(src, path)
		if err != nil {
			return err
		}
		target := filepath.Join(dst, rel)
		if d.IsDir() {
			return os.MkdirAll(target, 0o755)
		}
		in, err := os.Open(path)
		if err != nil {
			return err
		}
		defer in.Close()
		out, err := os.Create(target)
		if err != nil {
			return err
		}
		defer out.Close()
		_, err = io.Copy(out, in)
		return err
	})
}

// crash: the process dies without Close after the last acknowledged call.  An indexer opened on a copy of the live
// directory plays the restarted process; its answers are logged, the live indexer carries on untouched.
// pebble's background work (flush after a WAL replay, obsolete file deletion) can race with the copy; a copy that
// cannot be taken or opened is retried and finally given up as a harness problem, never reported as a verdict.
func (h *idxHarness) crash() {
	var lastErr error
	for attempt := 0; attempt < 4; attempt++ {
		dst := fmt.Sprintf("%s-crash%d", h.dir, attempt)
		_ = os.RemoveAll(dst)
		if err := copyDir(h.dir, dst); err != nil {
			lastErr = err
			_ = os.RemoveAll(dst)
			continue
		}
		re, err := indexer.NewIndexer(dst, chaintest.NewTestParser(), uint64(h.w))
		if err != nil {
			lastErr = err
			_ = os.RemoveAll(dst)
			continue
		}
		live := h.idx
		h.idx = re
		h.answers(map[string]any{"ev": "crash"})
		h.idx = live
		_ = re.Close()
		_ = os.RemoveAll(dst)
		return
	}
	h.t.Fatalf("VERIF_INFRA cannot take / open a copy of the live directory: %v", lastErr)
}

func idxEnvInt(name string, def int) int {
	if v, err := strconv.Atoi(os.Getenv(name)); err == nil {
		return v
	}
	return def
}

// TestVerifIndexerRecord records seeded random histories.
func TestVerifIndexerRecord(t *testing.T) {
	out := os.Getenv("VERIF_OUT")
	if out == "" {
		t.Skip("VERIF_OUT not set")
	}
	seed := int64(idxEnvInt("VERIF_SEED", 1))
	n := idxEnvInt("VERIF_SCENARIOS", 100)
	depth := idxEnvInt("VERIF_DEPTH", 30)
	for s := 0; s < n; s++ {
		if only := os.Getenv("VERIF_ONLY"); only != "" && only != strconv.Itoa(s) {
			continue
		}
		r := rand.New(rand.NewSource(seed*1_000_003 + int64(s)))
		w := 1 + r.Intn(4)
		if r.Intn(5) == 0 {
			w = 5 + r.Intn(4)
		}
		ntx := r.Intn(3)
		nBlocks := depth
		h := &idxHarness{t: t, dir: filepath.Join(out, fmt.Sprintf("idxdb-%d-%05d", seed, s)), w: w}
		if err := os.MkdirAll(h.dir, 0o755); err != nil {
			t.Fatalf("VERIF_INFRA %v", err)
		}
		h.blocks = chaintest.GenerateEmptyExecutedBlocks(require.New(t), ids.GenerateTestID(), ids.GenerateTestID(), 0, 0, 1, nBlocks, ntx)
		for _, b := range h.blocks {
			bb, err := b.Marshal()
			if err != nil {
				t.Fatalf("VERIF_INFRA %v", err)
			}
			h.bytes = append(h.bytes, bb)
		}
		h.open()
		h.lines = append(h.lines, map[string]any{"ev": "reset", "w": w, "H": nBlocks, "ntx": ntx})
		gapRate := []int{0, 2, 4}[s%3] // a third of the histories has no gaps at all
		cur := 0
		crashes := 0
		for i := 0; i < depth; i++ {
			// crash point right after an acknowledged Notify (a handful per history: pebble opens dominate the cost)
			if n := len(h.lines); crashes < 3 && h.lines[n-1]["ev"] == "notify" && r.Intn(5) == 0 {
				crashes++
				h.crash()
			}
			x := r.Intn(20)
			switch {
			case x < 2:
				h.restart()
			case x < 6 && cur > 0:
				h.notify(cur) // the latest block is delivered again
			case x < 6+gapRate && cur > 0 && cur+2 <= nBlocks:
				g := 2 + r.Intn(w+2) // skips 1 .. w+2 heights
				if cur+g > nBlocks {
					g = nBlocks - cur
				}
				cur += g
				h.notify(cur)
			case cur < nBlocks:
				cur++
				h.notify(cur)
			default:
				h.restart()
			}
		}
		if cur < nBlocks { // every history ends with a kill right after a Notify, then two clean restarts of the live one
			cur++
			h.notify(cur)
			h.crash()
		}
		h.restart()
		h.restart()
		_ = h.idx.Close()
		_ = os.RemoveAll(h.dir)
		f, err := os.Create(filepath.Join(out, fmt.Sprintf("idx%05d.ndjson", s)))
		if err != nil {
			t.Fatal(err)
		}
		enc := json.NewEncoder(f)
		for _, l := range h.lines {
			if err := enc.Encode(l); err != nil {
				t.Fatal(err)
			}
		}
		f.Close()
	}
}
