//go:build verif

// Driver for C34 (see /verif/DESIGN.md): records rows of the real utils.FormatBalance / utils.ParseBalance as ndjson.
//   kind "format": bal (uint64), s = FormatBalance(bal), and ok/out = ParseBalance(s)
//   kind "parse":  s = a decimal string "<digits>[.<0-9 digits>]" assembled from digit strings (never from an
//                  amount), ok/out = ParseBalance(s)
// The driver performs no arithmetic on amounts.  checks/C34.py lexes the strings into integer part / fraction
// digits / digit count and Apalache evaluates every row against spec/RulesBalance.tla.
package utils_test

import (
	"bufio"
	"encoding/json"
	"math"
	"math/rand"
	"os"
	"path/filepath"
	"strconv"
	"strings"
	"testing"

	"github.com/ava-labs/hypersdk/utils"
)

func TestVerifBalanceRecord(t *testing.T) {
	seed, _ := strconv.ParseInt(os.Getenv("VERIF_SEED"), 10, 64)
	nFmt, _ := strconv.Atoi(os.Getenv("VERIF_FORMAT"))
	nParse, _ := strconv.Atoi(os.Getenv("VERIF_PARSE"))
	only := -1
	if v, err := strconv.Atoi(os.Getenv("VERIF_ONLY")); err == nil {
		only = v
	}
	rng := rand.New(rand.NewSource(seed))
	f, err := os.Create(filepath.Join(os.Getenv("VERIF_OUT"), "rows_balance.ndjson"))
	if err != nil {
		t.Fatal(err)
	}
	defer f.Close()
	w := bufio.NewWriter(f)
	w.WriteString("{\"ev\":\"reset\"}\n")
	n := 0
	emit := func(r map[string]any) {
		n++
		if only >= 0 && n != only {
			return
		}
		r["ev"] = "row"
		b, _ := json.Marshal(r)
		w.Write(b)
		w.WriteByte('\n')
	}
	parse := func(r map[string]any, s string) {
		out, err := utils.ParseBalance(s)
		r["ok"], r["out"] = 0, uint64(0)
		if err == nil {
			r["ok"], r["out"] = 1, out
		}
	}
	format := func(bal uint64) {
		s := utils.FormatBalance(bal)
		r := map[string]any{"kind": "format", "bal": bal, "s": s}
		parse(r, s)
		emit(r)
	}
	parseStr := func(s string) {
		r := map[string]any{"kind": "parse", "s": s}
		parse(r, s)
		emit(r)
	}

	// boundary balances: powers of ten and two, the float64 integer limit 2^53, the uint64 limit
	bounds := []uint64{0, 1, 9, 10, 999_999_999, 1_000_000_000, 1_000_000_001, 123_456_789, 1_234_567_890, 9_876_543_210,
		1 << 52, 1<<53 - 1, 1 << 53, 1<<53 + 1, 1<<53 + 2, 1<<53 + 3, 9_007_199_254_740_993, 1<<54 + 1, 1<<62 + 1, 1<<63 - 1, 1 << 63, 1<<63 + 1,
		math.MaxUint64 - 1, math.MaxUint64, 18_446_744_073_000_000_000, 18_446_744_072_999_999_999, 4_999_999_999_999_999_999,
		10_000_000_000_000_000_000, 9_999_999_999_999_999_999, 1_000_000_000_000_000_001}
	for _, b := range bounds {
		format(b)
	}
	for i := 0; i < nFmt; i++ {
		var b uint64
		switch rng.Intn(5) {
		case 0:
			b = rng.Uint64()
		case 1:
			b = rng.Uint64() >> uint(rng.Intn(64))
		case 2:
			b = uint64(rng.Intn(2_000_000_000))
		case 3:
			b = (1 << 53) + uint64(rng.Intn(1<<20))
		default:
			b = math.MaxUint64 - uint64(rng.Intn(1<<30))
		}
		format(b)
	}
	// decimal strings: integer part below 18446744072 (any fraction stays in range) plus hand-written boundaries
	for _, s := range []string{"0", "1", "0.1", "0.000000001", "0.000000009", "0.5", "1.000000000", "0.123456789", "1.23456789",
		"9007199.254740993", "9007199254.740993", "18446744073.709551615", "18446744073.7", "18446744073.70955161",
		"18446744073", "18446744072.999999999", "4.35", "0.29", "1.15", "1000000.000000001", "123456789.987654321", "10", "100.01"} {
		parseStr(s)
	}
	digits := func(n int) string {
		var sb strings.Builder
		for i := 0; i < n; i++ {
			sb.WriteByte(byte('0' + rng.Intn(10)))
		}
		return sb.String()
	}
	for i := 0; i < nParse; i++ {
		var ip string
		switch rng.Intn(4) {
		case 0:
			ip = strconv.Itoa(rng.Intn(10))
		case 1:
			ip = strconv.Itoa(rng.Intn(1_000_000))
		case 2:
			ip = strconv.FormatUint(uint64(rng.Int63n(18_446_744_072)), 10)
		default:
			ip = strconv.FormatUint(9_007_199+uint64(rng.Int63n(18_000_000_000)), 10) // beyond 2^53 base units
		}
		s := ip
		if nd := rng.Intn(10); nd > 0 {
			s += "." + digits(nd)
		}
		parseStr(s)
	}
	w.Flush()
	if err := os.WriteFile(filepath.Join(os.Getenv("VERIF_OUT"), "balance_summary.json"), []byte(`{"rows":`+strconv.Itoa(n)+`}`), 0o644); err != nil {
		t.Fatal(err)
	}
}
