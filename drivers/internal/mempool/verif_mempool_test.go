//go:build verif

// Driver for C23 (see /verif/DESIGN.md, /verif/spec/Mempool.tla): records every public call on a real
// mempool.Mempool as ndjson (arguments, result, and a projection read back through Has/Len/Size/PeekNext)
// for trace validation against the TLA+ specification.  Includes Mempool.Top with a scripted visitor, also with a
// call from another goroutine started inside a visit (it must linearize entirely before or after the whole Top).
package mempool_test

import (
	"context"
	"encoding/json"
	"fmt"
	"math/rand"
	"os"
	"path/filepath"
	"strconv"
	"sync"
	"sync/atomic"
	"testing"
	"time"

	"github.com/ava-labs/avalanchego/ids"
	"github.com/ava-labs/avalanchego/trace"

	"github.com/ava-labs/hypersdk/codec"
	"github.com/ava-labs/hypersdk/internal/mempool"
)

type mpItem struct {
	name    string
	sponsor string
	size    int
	expiry  int64
}

func mpID(name string) ids.ID {
	var id ids.ID
	copy(id[:], "verif-"+name)
	return id
}

func mpAddr(s string) codec.Address {
	var a codec.Address
	copy(a[:], "sp-"+s)
	return a
}

func (i *mpItem) GetID() ids.ID             { return mpID(i.name) }
func (i *mpItem) GetExpiry() int64          { return i.expiry }
func (i *mpItem) GetSponsor() codec.Address { return mpAddr(i.sponsor) }
func (i *mpItem) Size() int                 { return i.size }

func mpEnvInt(name string, def int) int {
	if v, err := strconv.Atoi(os.Getenv(name)); err == nil {
		return v
	}
	return def
}

var mpNames = []string{"t0", "t1", "t2", "t3", "t4", "t5", "t6", "t7"}

type mpRec struct {
	ctx   context.Context
	m     *mempool.Mempool[*mpItem]
	items map[string]*mpItem
	lines []map[string]any
}

func (r *mpRec) mem() []string {
	out := []string{}
	for _, n := range mpNames {
		if r.m.Has(r.ctx, mpID(n)) {
			out = append(out, n)
		}
	}
	return out
}

func (r *mpRec) log(m map[string]any) {
	m["mem"] = r.mem()
	m["len"] = r.m.Len(r.ctx)
	m["size"] = r.m.Size(r.ctx)
	m["peek"] = "none"
	if it, ok := r.m.PeekNext(r.ctx); ok {
		m["peek"] = it.name
	}
	r.lines = append(r.lines, m)
}

func (r *mpRec) dump(name string) error {
	f, err := os.Create(filepath.Join(os.Getenv("VERIF_OUT"), name+".ndjson"))
	if err != nil {
		return err
	}
	defer f.Close()
	enc := json.NewEncoder(f)
	for _, l := range r.lines {
		if err := enc.Encode(l); err != nil {
			return err
		}
	}
	return nil
}

// top runs Mempool.Top with a scripted visitor: visit k answers restore[k]; the visit number stopAt (1-based, 0 = never)
// answers "stop". When conc != nil it is started on another goroutine from inside visit number concAt (0-based); the
// visitor waits a bounded time for it (with a correct mempool the call blocks until Top returns), carries on, and the
// goroutine is joined after Top returned. Start/end of both calls are stamped with one atomic sequence counter.
func (r *mpRec) top(rg *rand.Rand, stopAt int, concAt int, conc func()) (visits []map[string]any, stopped bool, seq map[string]any, err error) {
	var ctr atomic.Int64
	restore := make([]bool, 16)
	for i := range restore {
		restore[i] = rg.Intn(2) == 0
	}
	visits = []map[string]any{}
	var done chan struct{}
	var concCall, concRet atomic.Int64
	topCall := ctr.Add(1)
	terr := r.m.Top(r.ctx, time.Hour, func(_ context.Context, it *mpItem) (bool, bool, error) {
		k := len(visits)
		if k >= len(restore) {
			return false, false, fmt.Errorf("visitor called %d times", k+1)
		}
		visits = append(visits, map[string]any{"i": it.name, "restore": restore[k]})
		if conc != nil && k == concAt && done == nil {
			done = make(chan struct{})
			started := make(chan struct{})
			go func() {
				concCall.Store(ctr.Add(1))
				close(started)
				conc()
				concRet.Store(ctr.Add(1))
				close(done)
			}()
			<-started // the call is stamped and about to be issued; give it a bounded time to get through
			select {
			case <-done:
			case <-time.After(30 * time.Millisecond):
			}
		}
		stopped = k+1 == stopAt
		return !stopped, restore[k], nil
	})
	topRet := ctr.Add(1)
	if terr != nil {
		return visits, stopped, nil, terr
	}
	if done != nil {
		select {
		case <-done:
		case <-time.After(30 * time.Second):
			return visits, stopped, nil, fmt.Errorf("concurrent call did not return within 30s after Top returned")
		}
	}
	seq = map[string]any{"topCall": topCall, "topRet": topRet, "concCall": concCall.Load(), "concRet": concRet.Load()}
	return visits, stopped, seq, nil
}

func mpNamesOf(its []*mpItem) []string {
	out := []string{}
	for _, it := range its {
		out = append(out, it.name)
	}
	return out
}

// TestVerifMempoolRecord records seeded random single-threaded scenarios.
func TestVerifMempoolRecord(t *testing.T) {
	if os.Getenv("VERIF_OUT") == "" {
		t.Skip("VERIF_OUT not set")
	}
	seed := int64(mpEnvInt("VERIF_SEED", 1))
	scen := mpEnvInt("VERIF_SCENARIOS", 100)
	depth := mpEnvInt("VERIF_DEPTH", 60)
	total := map[string]int{}
	ctx := context.Background()
	var mu sync.Mutex
	var firstErr error
	var wg sync.WaitGroup
	jobs := make(chan int)
	runScenario := func(s int) error {
		stats := map[string]int{}
		defer func() {
			mu.Lock()
			for k, v := range stats {
				total[k] += v
			}
			mu.Unlock()
		}()
		r := rand.New(rand.NewSource(seed*1_000_003 + int64(s)))
		nItems := 3 + r.Intn(6) // 3..8 items in play
		nSp := 1 + r.Intn(3)
		maxSize := 1 + r.Intn(6)
		maxSp := 1 + r.Intn(maxSize) // 1..maxSize: includes sponsor limit = total limit
		if r.Intn(5) == 0 {
			maxSp = maxSize
		}
		rec := &mpRec{ctx: ctx, items: map[string]*mpItem{}}
		attrs := map[string]any{}
		for _, n := range mpNames {
			it := &mpItem{name: n, sponsor: string(rune('A' + r.Intn(nSp))), size: 1 + r.Intn(3), expiry: int64(1 + r.Intn(5))}
			rec.items[n] = it
			attrs[n] = map[string]any{"sp": it.sponsor, "sz": it.size, "ex": it.expiry}
		}
		rec.m = mempool.New[*mpItem](trace.Noop, maxSize, maxSp)
		rec.lines = append(rec.lines, map[string]any{"ev": "reset", "max": maxSize, "maxsp": maxSp, "items": attrs})
		pick := func(k int) []*mpItem {
			out := []*mpItem{}
			for j := 0; j < k; j++ {
				out = append(out, rec.items[mpNames[r.Intn(nItems)]])
			}
			return out
		}
		streaming, fetched := false, false
		handed := []*mpItem{} // items returned by Stream in the current stream
		for k := 0; k < depth; k++ {
			c := r.Intn(100)
			switch {
			case c < 30:
				its := pick(1 + r.Intn(3))
				if streaming && len(handed) > 0 && r.Intn(2) == 0 {
					its = append(its, handed[r.Intn(len(handed))]) // try to re-add a streamed item
				}
				before := rec.m.Len(ctx)
				for _, it := range its {
					if streaming {
						for _, h := range handed {
							if h == it {
								stats["add_of_streamed_item"]++
							}
						}
					}
				}
				rec.m.Add(ctx, its)
				if rec.m.Len(ctx) < before+len(its) && rec.m.Len(ctx) == maxSize {
					stats["add_at_item_limit"]++
				}
				rec.log(map[string]any{"ev": "add", "ids": mpNamesOf(its)})
			case c < 38:
				its := pick(1 + r.Intn(2))
				rec.m.Remove(ctx, its)
				rec.log(map[string]any{"ev": "remove", "ids": mpNamesOf(its)})
			case c < 46:
				tmin := int64(r.Intn(7))
				out := rec.m.SetMinTimestamp(ctx, tmin)
				if len(out) > 0 {
					stats["expiry_evicts"]++
				}
				rec.log(map[string]any{"ev": "setmin", "t": tmin, "out": mpNamesOf(out)})
			case c < 54:
				it, ok := rec.m.PopNext(ctx)
				n := "none"
				if ok {
					n = it.name
				}
				rec.log(map[string]any{"ev": "pop", "ok": ok, "i": n})
			case c < 58:
				n := mpNames[r.Intn(nItems)]
				rec.log(map[string]any{"ev": "has", "i": n, "ok": rec.m.Has(ctx, mpID(n))})
			case c < 62: // Top with a scripted visitor
				visits, stopped, _, err := rec.top(r, r.Intn(4), 0, nil)
				if err != nil {
					return err
				}
				if len(visits) > 0 {
					stats["top_with_visits"]++
				}
				for _, v := range visits {
					if v["restore"].(bool) {
						stats["top_give_backs"]++
					}
				}
				rec.log(map[string]any{"ev": "top", "visits": visits, "stopped": stopped})
			case c < 65: // Top while another goroutine calls Add / Remove / SetMinTimestamp from inside a visit
				first, ok := rec.m.PeekNext(ctx)
				if !ok {
					break
				}
				conc := map[string]any{"op": "add", "ids": []string{}, "t": 0, "out": []string{}}
				var call func()
				switch cc := r.Intn(10); {
				case cc < 6:
					its := pick(r.Intn(3))
					if r.Intn(2) == 0 {
						its = append(its, first) // re-add of the item that is being visited (with the unchanged code: first)
					}
					conc["ids"] = mpNamesOf(its)
					call = func() { rec.m.Add(ctx, its) }
				case cc < 8:
					its := pick(1 + r.Intn(2))
					conc["op"], conc["ids"] = "remove", mpNamesOf(its)
					call = func() { rec.m.Remove(ctx, its) }
				default:
					tmin := int64(r.Intn(7))
					conc["op"], conc["t"] = "setmin", tmin
					call = func() { conc["out"] = mpNamesOf(rec.m.SetMinTimestamp(ctx, tmin)) }
				}
				visits, stopped, seq, err := rec.top(r, r.Intn(4), 0, call)
				if err != nil {
					return err
				}
				stats["top_with_concurrent_call"]++
				if seq["concRet"].(int64) > seq["topRet"].(int64) {
					stats["concurrent_call_returned_after_top"]++
				}
				rec.log(map[string]any{"ev": "topc", "visits": visits, "stopped": stopped, "conc": conc, "seq": seq})
			case !streaming:
				rec.m.StartStreaming(ctx)
				streaming, fetched, handed = true, false, handed[:0]
				stats["streams"]++
				rec.log(map[string]any{"ev": "start"})
			case c < 75 && !fetched:
				cnt := 1 + r.Intn(3)
				rec.m.PrepareStream(ctx, cnt)
				fetched = true
				stats["prepares"]++
				rec.log(map[string]any{"ev": "prepare", "k": cnt})
			case c < 91:
				cnt := 1 + r.Intn(3)
				out := rec.m.Stream(ctx, cnt)
				fetched = false
				handed = append(handed, out...)
				if len(out) > 0 {
					stats["stream_handouts"]++
				}
				rec.log(map[string]any{"ev": "stream", "k": cnt, "out": mpNamesOf(out)})
			default:
				restore := []*mpItem{}
				for _, j := range r.Perm(len(handed)) {
					if r.Intn(2) == 0 && len(restore) < 4 {
						restore = append(restore, handed[j])
					}
				}
				before := rec.m.Len(ctx)
				n := rec.m.FinishStreaming(ctx, restore)
				if len(restore) > 0 {
					stats["finish_with_restorable"]++
				}
				if fetched {
					stats["finish_with_prepared_batch"]++
				}
				if rec.m.Len(ctx) < before+n {
					stats["restore_dropped_by_limit"]++
				}
				streaming, fetched, handed = false, false, handed[:0]
				rec.log(map[string]any{"ev": "finish", "restore": mpNamesOf(restore), "n": n})
			}
		}
		return rec.dump(fmt.Sprintf("sc-%05d", s))
	}
	// scenarios are independent; run them on a few goroutines (the concurrent-Top scenarios wait 30 ms each)
	for wk := 0; wk < 8; wk++ {
		wg.Add(1)
		go func() {
			defer wg.Done()
			for s := range jobs {
				if err := runScenario(s); err != nil {
					mu.Lock()
					if firstErr == nil {
						firstErr = fmt.Errorf("scenario %d: %w", s, err)
					}
					mu.Unlock()
				}
			}
		}()
	}
	for s := 0; s < scen; s++ {
		if only := os.Getenv("VERIF_ONLY"); only != "" && only != strconv.Itoa(s) {
			continue
		}
		jobs <- s
	}
	close(jobs)
	wg.Wait()
	if firstErr != nil {
		t.Fatal(firstErr)
	}
	out, _ := json.Marshal(total)
	if err := os.WriteFile(filepath.Join(os.Getenv("VERIF_OUT"), "record_stats.json"), out, 0o644); err != nil {
		t.Fatal(err)
	}
}
