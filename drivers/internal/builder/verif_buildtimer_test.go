//go:build verif

// Driver for X02 (see /verif/spec/BuildTimer.tla, BuildTimer_Trace.tla): drives a real builder.Time with a scripted
// chain lookup (preferred timestamp = the clock value handed to the lookup + dp, block gap, optional failure), an
// engine inbox of capacity 1 or 2 owned by the driver and a counting mempool.  The code reads the wall clock and uses a
// real timer, so every line carries the driver's own clock reads before / after the call (ms since the scenario
// started); the specification only uses them as sound brackets (a notification observed at t1 cannot have been sent
// after t1).  Calls made while a notification is pending are only kept if they finished >= 100 ms before the earliest
// instant the timer may fire; otherwise the scenario is cut before that line.
package builder_test

import (
	"context"
	"encoding/json"
	"errors"
	"fmt"
	"math/rand"
	"os"
	"path/filepath"
	"strconv"
	"sync"
	"sync/atomic"
	"testing"
	"time"

	"github.com/ava-labs/avalanchego/snow/engine/common"
	"github.com/ava-labs/avalanchego/utils/logging"

	"github.com/ava-labs/hypersdk/internal/builder"
)

func btEnvInt(name string, def int) int {
	if v, err := strconv.Atoi(os.Getenv(name)); err == nil {
		return v
	}
	return def
}

type btMempool struct {
	calls  atomic.Int64
	inLen  func()
	inLenM sync.Mutex
}

func (m *btMempool) Len(context.Context) int {
	m.calls.Add(1)
	m.inLenM.Lock()
	f := m.inLen
	m.inLen = nil
	m.inLenM.Unlock()
	if f != nil {
		f()
	}
	return 1
}

const (
	btMargin   = 100  // ms kept between a call made while a notification is pending and the earliest firing instant
	btSettle   = 200  // ms slept after a notification was observed before the next scripted call
	btWatchdog = 30000 // ms after which an owed notification is declared missing
)

type btScn struct {
	t      *testing.T
	b      *builder.Time
	ch     chan common.Message
	mp     *btMempool
	base   int64
	lines  []map[string]any
	cut    bool
	dp     int64
	gap    int64
	fail   bool
	cb     int
	cbNow  int64
	owed   bool  // driver's own bookkeeping, used only to choose time-outs and to apply the margin rule
	target int64 // earliest instant (rel.) at which the pending notification may fire
	stats  map[string]int
}

func (s *btScn) now() int64 { return time.Now().UnixMilli() - s.base }

func (s *btScn) lookup(_ context.Context, now int64) (int64, int64, error) {
	s.cb++
	s.cbNow = now - s.base
	if s.fail {
		return 0, 0, errors.New("no preferred block")
	}
	return now + s.dp, s.gap, nil
}

func newBtScn(t *testing.T, capacity int) *btScn {
	s := &btScn{t: t, ch: make(chan common.Message, capacity), mp: &btMempool{}, stats: map[string]int{}}
	s.base = time.Now().UnixMilli()
	s.b = builder.NewTime(s.ch, logging.NoLog{}, s.mp, s.lookup)
	s.lines = append(s.lines, map[string]any{"ev": "reset", "cap": capacity})
	return s
}

// keep appends the line unless the margin rule says the observation may race with the timer.
func (s *btScn) keep(line map[string]any, pendingBefore bool, t1 int64) bool {
	if s.cut {
		return false
	}
	if pendingBefore && t1 > s.target-btMargin {
		s.cut = true
		s.stats["cut"]++
		return false
	}
	s.lines = append(s.lines, line)
	return true
}

// call runs f and reports whether it returned within the watchdog (nobody reads the inbox meanwhile)
func (s *btScn) call(f func()) bool {
	done := make(chan struct{})
	go func() { f(); close(done) }()
	select {
	case <-done:
		return true
	case <-time.After(btWatchdog * time.Millisecond):
		return false
	}
}

func (s *btScn) queue(dp, gap int64, fail, start bool) {
	if s.cut {
		return
	}
	s.dp, s.gap, s.fail, s.cb = dp, gap, fail, 0
	pending := s.owed
	len0, t0 := len(s.ch), s.now()
	ret := s.call(func() {
		if start {
			s.b.Start()
		} else {
			s.b.Queue(context.Background())
		}
	})
	t1, len1 := s.now(), len(s.ch)
	if !ret {
		s.lines = append(s.lines, map[string]any{"ev": "blocked", "call": "queue", "len0": len0, "len1": len1})
		s.cut = true
		return
	}
	line := map[string]any{"ev": "queue", "dp": dp, "gap": gap, "err": fail, "t0": t0, "t1": t1, "cb": s.cb,
		"cbnow": s.cbNow, "len0": len0, "len1": len1, "start": start}
	if s.cb == 0 {
		line["cbnow"] = t0
	}
	if !s.keep(line, pending, t1) {
		return
	}
	if pending {
		s.stats["coalesced"]++
		return
	}
	if s.cb == 1 && !fail && len1 == len0 && len0 < cap(s.ch) {
		s.owed, s.target = true, s.cbNow+dp+gap
		s.stats["armed"]++
	} else if len1 > len0 {
		s.stats["immediate"]++
	}
	if fail {
		s.stats["lookup_failed"]++
	}
	if len0 == cap(s.ch) {
		s.stats["full_inbox"]++
	}
}

func (s *btScn) force() {
	if s.cut {
		return
	}
	len0, t0 := len(s.ch), s.now()
	ret := s.call(func() { _ = s.b.Force(context.Background()) })
	t1, len1 := s.now(), len(s.ch)
	if !ret {
		s.lines = append(s.lines, map[string]any{"ev": "blocked", "call": "force", "len0": len0, "len1": len1})
		s.cut = true
		return
	}
	s.keep(map[string]any{"ev": "force", "t0": t0, "t1": t1, "len0": len0, "len1": len1}, s.owed, t1)
	s.stats["force"]++
}

func (s *btScn) recv() {
	if s.cut {
		return
	}
	len0 := len(s.ch)
	got := false
	select {
	case <-s.ch:
		got = true
	default:
	}
	t1, len1 := s.now(), len(s.ch)
	s.keep(map[string]any{"ev": "recv", "got": got, "len0": len0, "len1": len1}, s.owed, t1)
}

// await blocks until the engine inbox yields a message (and consumes it) or the time-out passes.
func (s *btScn) await() {
	if s.cut {
		return
	}
	for len(s.ch) > 0 && !s.cut {
		s.recv() // messages put there by Force; subject to the margin rule while a notification is pending
	}
	if s.cut {
		return
	}
	timeout := int64(400)
	if s.owed {
		timeout = btWatchdog
		if s.target-s.now() > 0 {
			timeout += s.target - s.now()
		}
	}
	len0, t0 := len(s.ch), s.now()
	got := false
	select {
	case <-s.ch:
		got = true
	case <-time.After(time.Duration(timeout) * time.Millisecond):
	}
	t1, len1 := s.now(), len(s.ch)
	s.lines = append(s.lines, map[string]any{"ev": "await", "got": got, "t0": t0, "t1": t1, "len0": len0, "len1": len1})
	if s.owed && got {
		s.stats["timer_delivered"]++
	}
	s.owed = false
	if got {
		time.Sleep(btSettle * time.Millisecond)
	}
}

func (s *btScn) sleep(ms int64) {
	if s.cut || s.owed {
		return
	}
	len0 := len(s.ch)
	time.Sleep(time.Duration(ms) * time.Millisecond)
	s.lines = append(s.lines, map[string]any{"ev": "sleep", "ms": ms, "len0": len0, "len1": len(s.ch)})
}

func (s *btScn) done() {
	if s.cut {
		return
	}
	pending := s.owed
	len0, t0 := len(s.ch), s.now()
	s.b.Done()
	t1 := s.now()
	if pending && t1 > s.target-btMargin {
		s.cut = true
		s.stats["cut"]++
		return
	}
	wait := int64(150)
	if pending {
		wait = s.target - s.now() + 250
	}
	time.Sleep(time.Duration(wait) * time.Millisecond)
	s.lines = append(s.lines, map[string]any{"ev": "done", "t0": t0, "t1": t1, "len0": len0, "len1": len(s.ch), "pending": pending})
	s.owed = false
	s.stats["done"]++
	if pending {
		s.stats["done_while_pending"]++
	}
}

func (s *btScn) drain() {
	for !s.cut && !s.owed && len(s.ch) > 0 {
		s.recv()
	}
}

// one scenario = Start, then 3..5 phases, then Done
func btRun(t *testing.T, rng *rand.Rand, reentrant bool) *btScn {
	s := newBtScn(t, 1+rng.Intn(2))
	far := func() int64 { return int64(300 + 50*rng.Intn(5)) }
	past := func() int64 { return -int64(200 + 100*rng.Intn(3)) }
	gap := func() int64 { return int64(100 * rng.Intn(3)) }
	// Start = first Queue + timer dispatch
	switch rng.Intn(3) {
	case 0:
		s.queue(far(), gap(), false, true)
	case 1:
		s.queue(past()-200, gap(), false, true)
	default:
		s.queue(0, 0, true, true)
	}
	if reentrant {
		// a Queue call issued from inside Mempool.Len, i.e. between the handler's send and its release of the flag
		s.drain()
		if s.owed {
			s.await()
		}
		s.sleep(150)
		inner := make(chan map[string]any, 1)
		s.mp.inLenM.Lock()
		s.mp.inLen = func() {
			cb0 := s.cb
			s.b.Queue(context.Background())
			inner <- map[string]any{"cb": s.cb - cb0}
		}
		s.mp.inLenM.Unlock()
		s.queue(far(), 0, false, false)
		s.await()
		select {
		case r := <-inner:
			s.lines = append(s.lines, map[string]any{"ev": "inner", "cb": r["cb"], "len1": len(s.ch)})
			// is anything delivered for the swallowed call?
			s.owed = false
			s.await()
		default:
		}
		s.done()
		return s
	}
	phases := 3 + rng.Intn(3)
	for p := 0; p < phases && !s.cut; p++ {
		if s.owed {
			// calls made while the notification is pending
			for k := rng.Intn(4); k > 0 && !s.cut; k-- {
				switch rng.Intn(5) {
				case 0:
					s.force()
				case 1:
					s.recv()
				case 2:
					s.queue(past(), 0, false, false)
				case 3:
					s.queue(0, 0, true, false)
				default:
					s.queue(far(), gap(), false, false)
				}
			}
			if rng.Intn(6) == 0 {
				break // Done while pending
			}
			s.await()
			continue
		}
		s.drain()
		switch rng.Intn(6) {
		case 0, 1: // arm far in the future
			s.sleep(150)
			s.queue(far(), gap(), false, false)
		case 2: // due already: notify without waiting
			s.sleep(150)
			s.queue(past(), gap(), false, false)
		case 3: // lookup failure, then a working call
			s.queue(far(), 0, true, false)
			s.sleep(150)
			if rng.Intn(2) == 0 {
				s.queue(past(), 0, false, false)
			} else {
				s.queue(far(), 0, false, false)
			}
		case 4: // minimum gap after a forced notification
			s.force()
			s.drain()
			s.queue(past(), 0, false, false)
			s.await()
		default: // full inbox: the due notification is dropped, the call returns, the next one works
			for len(s.ch) < cap(s.ch) {
				s.force()
			}
			s.sleep(150)
			s.queue(past(), 0, false, false)
			s.drain()
			s.sleep(150)
			s.queue(past(), 0, false, false)
		}
	}
	if !s.cut && s.owed && rng.Intn(2) == 0 {
		s.await()
	}
	s.done()
	return s
}

func TestVerifBuildTimerRecord(t *testing.T) {
	seed := int64(btEnvInt("VERIF_SEED", 1))
	only := btEnvInt("VERIF_ONLY", -1)
	n := btEnvInt("VERIF_SCENARIOS", 48)
	par := btEnvInt("VERIF_PARALLEL", 12)
	reent := btEnvInt("VERIF_REENTRANT", 0) == 1
	out := os.Getenv("VERIF_OUT")
	var mu sync.Mutex
	total := map[string]int{}
	sem := make(chan struct{}, par)
	var wg sync.WaitGroup
	for i := 0; i < n; i++ {
		if only >= 0 && only != i {
			continue
		}
		wg.Add(1)
		sem <- struct{}{}
		go func(i int) {
			defer wg.Done()
			defer func() { <-sem }()
			rng := rand.New(rand.NewSource(seed*1_000_003 + int64(i)))
			s := btRun(t, rng, reent)
			f, err := os.Create(filepath.Join(out, fmt.Sprintf("bt-%05d.ndjson", i)))
			if err != nil {
				t.Error(err)
				return
			}
			enc := json.NewEncoder(f)
			for _, l := range s.lines {
				_ = enc.Encode(l)
			}
			f.Close()
			mu.Lock()
			for k, v := range s.stats {
				total[k] += v
			}
			total["scenarios"]++
			mu.Unlock()
		}(i)
	}
	wg.Wait()
	b, _ := json.Marshal(total)
	if err := os.WriteFile(filepath.Join(out, "bt_stats.json"), b, 0o644); err != nil {
		t.Fatal(err)
	}
}
