//go:build verif

// Driver for C38 (see /verif/DESIGN.md, /verif/spec/BondLedger.tla): drives the real Bonder
// (internal/chain/bond.go) through a real fdsmr.Node whose inner DSMR is a stub, on seeded histories of
// chunk builds (with duplicate submissions within and across chunks), block accepts and expiries, and
// records one ndjson line per public call together with every sponsor's pending balance read from the
// bonder's database.  spec/Bond_Trace.tla decides.
package chain_test

import (
	"context"
	"encoding/binary"
	"encoding/json"
	"errors"
	"fmt"
	"math"
	"math/rand"
	"os"
	"path/filepath"
	"strconv"
	"testing"

	"github.com/ava-labs/avalanchego/database"
	"github.com/ava-labs/avalanchego/database/memdb"

	"github.com/ava-labs/hypersdk/chain"
	"github.com/ava-labs/hypersdk/codec"
	ichain "github.com/ava-labs/hypersdk/internal/chain"
	"github.com/ava-labs/hypersdk/state"
	"github.com/ava-labs/hypersdk/x/dsmr"
	"github.com/ava-labs/hypersdk/x/fdsmr"
)

// ---- auth with a chosen sponsor and a padding that varies the transaction size
type verifAuth struct {
	addr codec.Address
	pad  int
}

func (verifAuth) GetTypeID() uint8                        { return 0 }
func (verifAuth) ValidRange(chain.Rules) (int64, int64)   { return 0, math.MaxInt64 }
func (a verifAuth) Bytes() []byte                         { return append(append([]byte{}, a.addr[:]...), make([]byte, a.pad)...) }
func (verifAuth) ComputeUnits(chain.Rules) uint64         { return 0 }
func (verifAuth) Verify(context.Context, []byte) error    { return nil }
func (a verifAuth) Actor() codec.Address                  { return a.addr }
func (a verifAuth) Sponsor() codec.Address                { return a.addr }

// ---- chain state holding the maximum balances (only what Bonder needs: GetValue/Insert/Remove)
type verifMutable map[string][]byte

func (m verifMutable) GetValue(_ context.Context, k []byte) ([]byte, error) {
	if v, ok := m[string(k)]; ok {
		return v, nil
	}
	return nil, database.ErrNotFound
}

func (m verifMutable) Insert(_ context.Context, k []byte, v []byte) error {
	m[string(k)] = append([]byte{}, v...)
	return nil
}

func (m verifMutable) Remove(_ context.Context, k []byte) error {
	delete(m, string(k))
	return nil
}

var _ state.Mutable = verifMutable{}

// ---- inner DSMR stub: remembers what it was asked to build, returns the executed block the driver scripted
type stubDSMR struct {
	built    [][]*chain.Transaction
	next     dsmr.ExecutedBlock[*chain.Transaction]
	failNext bool // the next BuildChunk fails (duplicate chunk, rate limit, gossip error, ...)
}

var errVerifInnerBuild = errors.New("verif: inner chunk build failed")

func (s *stubDSMR) BuildChunk(_ context.Context, txs []*chain.Transaction, _ int64, _ codec.Address) error {
	s.built = append(s.built, append([]*chain.Transaction{}, txs...))
	if s.failNext {
		s.failNext = false
		return errVerifInnerBuild
	}
	return nil
}

func (s *stubDSMR) Accept(_ context.Context, _ dsmr.Block) (dsmr.ExecutedBlock[*chain.Transaction], error) {
	return s.next, nil
}

// ---- crash points: a database that lets `budget` durable writes through (a Put, a Delete or the Write of a batch
// each count as one atomic durable write) and then loses every later write with an error, as if the process had died
// right before it.  budget < 0: no crash armed.
type crashDB struct {
	database.Database
	budget  int
	crashed bool
}

var errVerifCrash = errors.New("verif: process crashed")

func (c *crashDB) spend() error {
	if c.crashed {
		return errVerifCrash
	}
	if c.budget < 0 {
		return nil
	}
	if c.budget == 0 {
		c.crashed = true
		return errVerifCrash
	}
	c.budget--
	return nil
}

func (c *crashDB) Put(k, v []byte) error {
	if err := c.spend(); err != nil {
		return err
	}
	return c.Database.Put(k, v)
}

func (c *crashDB) Delete(k []byte) error {
	if err := c.spend(); err != nil {
		return err
	}
	return c.Database.Delete(k)
}

func (c *crashDB) NewBatch() database.Batch { return &crashBatch{Batch: c.Database.NewBatch(), db: c} }

type crashBatch struct {
	database.Batch
	db *crashDB
}

func (b *crashBatch) Write() error {
	if err := b.db.spend(); err != nil {
		return err
	}
	return b.Batch.Write()
}

// ---- recording decorator around the real Bonder: remembers the answers of Bond, injects Bond errors, and plays the
// crash family: when the armed call dies on the crashDB, the process "restarts" (a new Bonder on the same underlying
// database, nothing armed) and the interrupted call is retried once, as a node replaying the unfinished work would.
// The Node above keeps its in-memory heap, so exactly one thing is under test: every Bond / Unbond is one atomic
// durable step, and a retried call takes / releases the fee at most once.
type recBonder struct {
	inner  ichain.Bonder
	cdb    *crashDB
	oks    []bool
	failAt int // >= 0: the Bond call with this index (within one BuildChunk) fails like a database read error

	calls       int // Bond / Unbond calls since the driver armed the crash
	crashAt     int // >= 0: the call with this index runs with crashBudget durable writes left
	crashBudget int
	crashBond   int // crashes that hit Bond / Unbond during the current Node call
	crashUnbond int
}

var errVerifBond = errors.New("verif: bonder database failed")

func (r *recBonder) arm() {
	if r.crashAt >= 0 && r.calls == r.crashAt {
		r.cdb.budget = r.crashBudget
	}
	r.calls++
}

// disarm + restart if the call died
func (r *recBonder) crashed(err error) bool {
	r.cdb.budget = -1
	if !errors.Is(err, errVerifCrash) {
		return false
	}
	r.cdb.crashed = false
	r.inner = ichain.NewBonder(r.cdb) // restart on the same database
	return true
}

func (r *recBonder) Bond(ctx context.Context, mutable state.Mutable, tx *chain.Transaction, fee uint64) (bool, error) {
	if r.failAt >= 0 && len(r.oks) == r.failAt {
		// the real Bonder fails before it writes anything when its first database read fails: nothing changes
		r.failAt = -1
		return false, errVerifBond
	}
	r.arm()
	ok, err := r.inner.Bond(ctx, mutable, tx, fee)
	if r.crashed(err) {
		r.crashBond++
		ok, err = r.inner.Bond(ctx, mutable, tx, fee)
	}
	r.oks = append(r.oks, ok)
	return ok, err
}

func (r *recBonder) Unbond(tx *chain.Transaction) error {
	r.arm()
	err := r.inner.Unbond(tx)
	if r.crashed(err) {
		r.crashUnbond++
		err = r.inner.Unbond(tx)
	}
	return err
}

// armCrash: the crashAt-th Bond / Unbond call of the next Node call runs with `budget` durable writes left
func (r *recBonder) armCrash(crashAt, budget int) {
	r.calls, r.crashAt, r.crashBudget, r.crashBond, r.crashUnbond = 0, crashAt, budget, 0, 0
}

var (
	bondSponsors = []string{"s1", "s2", "s3"}
	bondTxNames  = []string{"t1", "t2", "t3", "t4", "t5", "t6"}
)

func sponsorAddr(i int) codec.Address {
	var a codec.Address
	a[0] = 7
	a[1] = byte(i + 1)
	a[codec.AddressLen-1] = byte(0xA0 + i)
	return a
}

type bondHarness struct {
	t       *testing.T
	db      database.Database
	bonder  *recBonder
	stub    *stubDSMR
	node    *fdsmr.Node[*stubDSMR, *chain.Transaction]
	mutable verifMutable
	txs     map[string]*chain.Transaction
	names   map[string]string // tx id -> name
	lines   []map[string]any
}

// pending balance of every sponsor, read straight from the bonder's database (observation point of C38)
func readPending(t *testing.T, db database.Database, a codec.Address) int {
	v, err := db.Get(a[:])
	if errors.Is(err, database.ErrNotFound) || (err == nil && len(v) == 0) {
		return 0
	}
	if err != nil || len(v) != 8 {
		t.Fatalf("VERIF_INFRA cannot read the pending balance: %v len=%d", err, len(v))
	}
	u := binary.BigEndian.Uint64(v)
	if u > 1<<30 {
		return 1 << 30 // keeps TLC's 32 bit integers safe; any such value is wrong anyway (all fees are small)
	}
	return int(u)
}

func (h *bondHarness) pend() map[string]int {
	out := map[string]int{}
	for i, s := range bondSponsors {
		out[s] = readPending(h.t, h.db, sponsorAddr(i))
	}
	return out
}

func newBondHarness(t *testing.T, r *rand.Rand, nSponsors int) *bondHarness {
	h := &bondHarness{t: t, db: memdb.New(), stub: &stubDSMR{}, mutable: verifMutable{}, txs: map[string]*chain.Transaction{}, names: map[string]string{}}
	cdb := &crashDB{Database: h.db, budget: -1}
	h.bonder = &recBonder{inner: ichain.NewBonder(cdb), cdb: cdb, failAt: -1, crashAt: -1}
	h.node = fdsmr.New[*stubDSMR, *chain.Transaction](h.stub, h.bonder)
	info := map[string]any{}
	for i, n := range bondTxNames {
		sp := r.Intn(nSponsors)
		exp := int64(1 + 2*r.Intn(6)) // odd; block timestamps are even, so "expired" never depends on < versus <=
		tx, err := chain.NewTransaction(chain.Base{Timestamp: exp, MaxFee: uint64(100 + i)}, nil, verifAuth{addr: sponsorAddr(sp), pad: r.Intn(4) * r.Intn(8)})
		if err != nil {
			t.Fatalf("VERIF_INFRA %v", err)
		}
		h.txs[n] = tx
		h.names[tx.GetID().String()] = n
		info[n] = map[string]any{"sp": bondSponsors[sp], "size": tx.Size(), "exp": int(exp)}
	}
	if len(h.names) != len(bondTxNames) {
		t.Fatalf("VERIF_INFRA transaction ids collide")
	}
	maxes := map[string]int{}
	for i, s := range bondSponsors {
		m := 0
		if i < nSponsors {
			m = h.randMax(r)
			if err := h.bonder.inner.SetMaxBalance(context.Background(), h.mutable, sponsorAddr(i), uint64(m)); err != nil {
				t.Fatalf("VERIF_INFRA %v", err)
			}
		}
		maxes[s] = m
	}
	h.lines = append(h.lines, map[string]any{"ev": "reset", "txs": info, "max": maxes})
	return h
}

// maxima around multiples of a typical fee so that "just fits" / "just does not fit" both happen
func (h *bondHarness) randMax(r *rand.Rand) int {
	sz := h.txs[bondTxNames[r.Intn(len(bondTxNames))]].Size()
	switch r.Intn(8) {
	case 0:
		return 0
	case 1:
		return sz - 1
	case 2:
		return sz
	case 3:
		return 2*sz + r.Intn(3) - 1
	case 4:
		return 3*sz + r.Intn(40)
	case 5:
		return 6 * sz
	default:
		return 1_000_000
	}
}

func (h *bondHarness) setMax(s int, m int) {
	if err := h.bonder.inner.SetMaxBalance(context.Background(), h.mutable, sponsorAddr(s), uint64(m)); err != nil {
		h.t.Fatalf("VERIF_INFRA %v", err)
	}
	h.lines = append(h.lines, map[string]any{"ev": "setmax", "s": bondSponsors[s], "m": m, "pend": h.pend()})
}

// fail: "none", "inner" (the inner DSMR.BuildChunk returns an error) or "bond" (Bond errors for txs[bondFailAt])
func (h *bondHarness) build(names []string, rate int, fail string, bondFailAt int) {
	txs := make([]*chain.Transaction, len(names))
	for i, n := range names {
		txs[i] = h.txs[n]
	}
	feeRate := uint64(math.MaxUint64)
	if rate >= 0 {
		feeRate = uint64(rate)
	}
	h.bonder.oks = nil
	h.bonder.failAt = -1
	h.stub.failNext = fail == "inner"
	if fail == "bond" {
		h.bonder.failAt = bondFailAt
	}
	nb := len(h.stub.built)
	err := h.node.BuildChunk(context.Background(), h.mutable, txs, 1_000, codec.EmptyAddress, feeRate)
	wantOks, wantBuilt := len(names), nb+1
	switch fail {
	case "none":
		if err != nil {
			h.t.Fatalf("VERIF_INFRA BuildChunk: %v", err)
		}
	case "inner":
		if !errors.Is(err, errVerifInnerBuild) {
			h.t.Fatalf("VERIF_INFRA BuildChunk did not report the inner failure: %v", err)
		}
	case "bond":
		if !errors.Is(err, errVerifBond) {
			h.t.Fatalf("VERIF_INFRA BuildChunk did not report the bond error: %v", err)
		}
		wantOks, wantBuilt = bondFailAt, nb
	}
	if len(h.bonder.oks) != wantOks || len(h.stub.built) != wantBuilt {
		h.t.Fatalf("VERIF_INFRA node asked the bonder %d times (want %d) for %d txs, inner builds %d (want %d)", len(h.bonder.oks), wantOks, len(names), len(h.stub.built), wantBuilt)
	}
	built := []string{}
	if len(h.stub.built) > nb {
		for _, tx := range h.stub.built[nb] {
			built = append(built, h.names[tx.GetID().String()])
		}
	}
	h.lines = append(h.lines, map[string]any{"ev": "build", "txs": names, "rate": rate, "oks": append([]bool{}, h.bonder.oks...), "built": built, "err": fail, "crashb": h.bonder.crashBond, "crashu": h.bonder.crashUnbond, "pend": h.pend()})
}

func (h *bondHarness) accept(ts int, incl []string) {
	var chunks []dsmr.Chunk[*chain.Transaction]
	// spread the included txs over one or two chunks
	cut := len(incl) / 2
	for _, part := range [][]string{incl[:cut], incl[cut:]} {
		if len(part) == 0 {
			continue
		}
		c := dsmr.Chunk[*chain.Transaction]{}
		for _, n := range part {
			c.Txs = append(c.Txs, h.txs[n])
		}
		chunks = append(chunks, c)
	}
	h.stub.next = dsmr.ExecutedBlock[*chain.Transaction]{BlockHeader: dsmr.BlockHeader{Timestamp: int64(ts)}, Chunks: chunks}
	if _, err := h.node.Accept(context.Background(), dsmr.Block{BlockHeader: dsmr.BlockHeader{Timestamp: int64(ts)}}); err != nil {
		h.t.Fatalf("VERIF_INFRA Accept: %v", err)
	}
	if incl == nil {
		incl = []string{}
	}
	h.lines = append(h.lines, map[string]any{"ev": "accept", "ts": ts, "incl": incl, "crashb": h.bonder.crashBond, "crashu": h.bonder.crashUnbond, "pend": h.pend()})
}

func (h *bondHarness) dump(name string) {
	f, err := os.Create(filepath.Join(os.Getenv("VERIF_OUT"), name+".ndjson"))
	if err != nil {
		h.t.Fatal(err)
	}
	defer f.Close()
	enc := json.NewEncoder(f)
	for _, l := range h.lines {
		if err := enc.Encode(l); err != nil {
			h.t.Fatal(err)
		}
	}
}

func bondEnvInt(name string, def int) int {
	if v, err := strconv.Atoi(os.Getenv(name)); err == nil {
		return v
	}
	return def
}

// calibrate makes sure the pending balance is observable where the driver reads it; if the storage layout of the
// bonder changes, the run ends as an infrastructure problem instead of a bogus verdict.
func calibrateBond(t *testing.T) {
	db := memdb.New()
	b := ichain.NewBonder(db)
	m := verifMutable{}
	a := sponsorAddr(0)
	tx, err := chain.NewTransaction(chain.Base{Timestamp: 5}, nil, verifAuth{addr: a})
	if err != nil {
		t.Fatalf("VERIF_INFRA %v", err)
	}
	if err := b.SetMaxBalance(context.Background(), m, a, 1_000_000); err != nil {
		t.Fatalf("VERIF_INFRA %v", err)
	}
	ok, err := b.Bond(context.Background(), m, tx, 2)
	if err != nil || !ok || readPending(t, db, a) != 2*tx.Size() {
		t.Fatalf("VERIF_INFRA calibration: bond ok=%v err=%v pending read=%d want %d (storage layout of the bonder changed?)", ok, err, readPending(t, db, a), 2*tx.Size())
	}
	if err := b.Unbond(tx); err != nil || readPending(t, db, a) != 0 {
		t.Fatalf("VERIF_INFRA calibration: unbond err=%v pending read=%d want 0", err, readPending(t, db, a))
	}
}

// TestVerifBondRecord records seeded random histories.
func TestVerifBondRecord(t *testing.T) {
	if os.Getenv("VERIF_OUT") == "" {
		t.Skip("VERIF_OUT not set")
	}
	calibrateBond(t)
	seed := int64(bondEnvInt("VERIF_SEED", 1))
	n := bondEnvInt("VERIF_SCENARIOS", 200)
	depth := bondEnvInt("VERIF_DEPTH", 30)
	for s := 0; s < n; s++ {
		if only := os.Getenv("VERIF_ONLY"); only != "" && only != strconv.Itoa(s) {
			continue
		}
		r := rand.New(rand.NewSource(seed*1_000_003 + int64(s)))
		nSp := 1 + r.Intn(len(bondSponsors))
		if s%3 == 0 {
			nSp = 1 // one sponsor: every tx competes for the same maximum
		}
		h := newBondHarness(t, r, nSp)
		pool := bondTxNames[:2+r.Intn(len(bondTxNames)-1)] // small pools make re-submission frequent
		ts := 0
		var recent []string
		for i := 0; i < depth; i++ {
			// crash family: in a quarter of the Node calls one of the first Bond / Unbond calls dies after 0, 1 or 2
			// durable writes (one write is all a correct Bond / Unbond makes), restarts and is retried
			h.bonder.armCrash(-1, -1)
			if r.Intn(4) == 0 {
				h.bonder.armCrash(r.Intn(3), []int{0, 1, 1, 1, 2}[r.Intn(5)])
			}
			switch x := r.Intn(20); {
			case x < 11: // build
				k := 1 + r.Intn(4)
				names := make([]string, k)
				for j := range names {
					switch {
					case j > 0 && r.Intn(4) == 0:
						names[j] = names[r.Intn(j)] // duplicate inside the chunk
					case len(recent) > 0 && r.Intn(3) == 0:
						names[j] = recent[r.Intn(len(recent))] // re-submission across chunks
					default:
						names[j] = pool[r.Intn(len(pool))]
					}
				}
				rate := []int{0, 1, 1, 1, 2, 2, 3, 5, -1}[r.Intn(9)]
				fail, at := "none", 0
				switch r.Intn(12) {
				case 0, 1:
					fail = "inner"
				case 2:
					fail, at = "bond", r.Intn(k)
				}
				h.build(names, rate, fail, at)
				recent = append(recent, names...)
				if len(recent) > 6 {
					recent = recent[len(recent)-6:]
				}
			case x < 18: // accept
				switch r.Intn(6) {
				case 0, 1:
					ts += 2
				case 2:
					ts += 4
				case 3:
					if ts >= 2 && r.Intn(3) == 0 {
						ts -= 2 // the node does not require monotone timestamps
					}
				}
				var incl []string
				for k := r.Intn(4); k > 0; k-- {
					if len(recent) > 0 && r.Intn(4) != 0 {
						incl = append(incl, recent[r.Intn(len(recent))])
					} else {
						incl = append(incl, bondTxNames[r.Intn(len(bondTxNames))])
					}
				}
				h.accept(ts, incl)
			default:
				h.setMax(r.Intn(nSp), h.randMax(r))
			}
		}
		// settle everything: every expiry is below 100
		h.bonder.armCrash(r.Intn(2), 1)
		h.accept(100, nil)
		h.dump(fmt.Sprintf("bond%05d", s))
	}
}
