//go:build verif

// Driver for C26 (see /verif/DESIGN.md): runs the real worker pools with closures that log start/end and
// block on gates; a seeded controller (or a script taken from a TLC behaviour of spec/WorkersContract.tla)
// decides which client call is made / which gate is opened next.  Every observed event is appended to one
// totally ordered log (the slice index is the atomic sequence number) and written as ndjson for trace
// validation against WorkersContract.
package workers_test

import (
	"encoding/json"
	"errors"
	"fmt"
	"math/rand"
	"os"
	"path/filepath"
	"strconv"
	"sync"
	"testing"
	"time"

	"github.com/ava-labs/hypersdk/internal/workers"
)

type wTaskErr struct{ j, t int }

func (e *wTaskErr) Error() string { return fmt.Sprintf("task %d.%d failed", e.j, e.t) }

type wLog struct {
	mu    sync.Mutex
	lines []map[string]any
}

func (l *wLog) add(m map[string]any) {
	l.mu.Lock()
	l.lines = append(l.lines, m)
	l.mu.Unlock()
}

func (l *wLog) n() int {
	l.mu.Lock()
	defer l.mu.Unlock()
	return len(l.lines)
}

type wJobDef struct {
	Fails    []bool `json:"fails"`
	Callback bool   `json:"callback"`
}

type wStep struct {
	Op string `json:"op"` // newjob go done wait gate stop
	J  int    `json:"j"`
	T  int    `json:"t"`
}

type wScenario struct {
	Kind    string    `json:"kind"`
	Workers int       `json:"workers"`
	MaxJobs int       `json:"maxjobs"`
	Jobs    []wJobDef `json:"jobs"`
	Script  []wStep   `json:"script"` // nil: seeded dynamic controller
	Label   string    `json:"label"`
}

type wJobState struct {
	h         workers.Job
	phase     string // none submitting open closed rejected panicked
	nextGo    int    // next task index (1-based) to hand to Go
	waiting   bool
	gateOpen  []bool
	gates     []chan struct{}
	waitedRet bool
}

type wRun struct {
	sc     wScenario
	log    *wLog
	pool   workers.Workers
	mu     sync.Mutex // protects jobs[*].h/phase/waitedRet, stop flags, pending
	jobs   []*wJobState
	stopSt string // idle called returned
	async  sync.WaitGroup
	pend   map[string]bool
}

func (r *wRun) settle() {
	// wait until the event log has been quiet for a moment: only shapes the schedule, never an oracle
	last, quiet := r.log.n(), 0
	for i := 0; i < 200 && quiet < 4; i++ {
		time.Sleep(60 * time.Microsecond)
		if n := r.log.n(); n == last {
			quiet++
		} else {
			last, quiet = n, 0
		}
	}
}

func (r *wRun) spawn(name string, f func()) {
	r.mu.Lock()
	r.pend[name] = true
	r.mu.Unlock()
	r.async.Add(1)
	go func() {
		defer r.async.Done()
		f()
		r.mu.Lock()
		delete(r.pend, name)
		r.mu.Unlock()
	}()
}

func (r *wRun) newJob(j int) {
	js := r.jobs[j-1]
	r.mu.Lock()
	if js.phase != "none" {
		r.mu.Unlock()
		return
	}
	js.phase = "submitting"
	r.mu.Unlock()
	backlog := 9
	r.spawn(fmt.Sprintf("newjob:%d", j), func() {
		r.log.add(map[string]any{"ev": "newjob_call", "j": j})
		var (
			h   workers.Job
			err error
			res = "ok"
		)
		func() {
			defer func() {
				if p := recover(); p != nil {
					res = "panic"
				}
			}()
			h, err = r.pool.NewJob(backlog)
		}()
		if res != "panic" && err != nil {
			if errors.Is(err, workers.ErrShutdown) {
				res = "shutdown"
			} else {
				res = "other"
			}
		}
		// log the return first: the controller acts on the job only after it sees the new phase
		r.log.add(map[string]any{"ev": "newjob_ret", "j": j, "res": res})
		r.mu.Lock()
		switch res {
		case "ok":
			js.h, js.phase = h, "open"
		case "panic":
			js.phase = "panicked"
		default:
			js.phase = "rejected"
		}
		r.mu.Unlock()
	})
}

func (r *wRun) phase(j int) string {
	r.mu.Lock()
	defer r.mu.Unlock()
	return r.jobs[j-1].phase
}

func (r *wRun) goTask(j int) {
	js := r.jobs[j-1]
	if r.phase(j) != "open" || js.nextGo > len(js.gates) {
		return
	}
	t := js.nextGo
	js.nextGo++
	fail := r.sc.Jobs[j-1].Fails[t-1]
	gate := js.gates[t-1]
	r.log.add(map[string]any{"ev": "go", "j": j, "t": t})
	js.h.Go(func() error {
		r.log.add(map[string]any{"ev": "start", "j": j, "t": t})
		<-gate
		if fail {
			r.log.add(map[string]any{"ev": "end", "j": j, "t": t, "res": "fail"})
			return &wTaskErr{j, t}
		}
		r.log.add(map[string]any{"ev": "end", "j": j, "t": t, "res": "ok"})
		return nil
	})
}

func (r *wRun) done(j int) {
	js := r.jobs[j-1]
	if r.phase(j) != "open" {
		return
	}
	r.mu.Lock()
	js.phase = "closed"
	r.mu.Unlock()
	r.log.add(map[string]any{"ev": "done", "j": j})
	if r.sc.Jobs[j-1].Callback {
		js.h.Done(func() { r.log.add(map[string]any{"ev": "callback", "j": j}) })
	} else {
		js.h.Done(nil)
	}
}

func (r *wRun) wait(j int) {
	js := r.jobs[j-1]
	if r.phase(j) != "closed" || js.waiting {
		return
	}
	js.waiting = true
	r.spawn(fmt.Sprintf("wait:%d", j), func() {
		err := js.h.Wait()
		m := map[string]any{"ev": "wait_ret", "j": j, "res": "nil", "ej": 0, "et": 0}
		var te *wTaskErr
		switch {
		case err == nil:
		case errors.Is(err, workers.ErrShutdown):
			m["res"] = "shutdown"
		case errors.As(err, &te):
			m["res"], m["ej"], m["et"] = "err", te.j, te.t
		default:
			m["res"] = "other"
		}
		r.mu.Lock()
		js.waitedRet = true
		r.mu.Unlock()
		r.log.add(m)
	})
}

func (r *wRun) gate(j, t int) {
	js := r.jobs[j-1]
	if t < 1 || t > len(js.gates) || js.gateOpen[t-1] {
		return
	}
	js.gateOpen[t-1] = true
	close(js.gates[t-1])
}

func (r *wRun) stop() {
	r.mu.Lock()
	if r.stopSt != "idle" {
		r.mu.Unlock()
		return
	}
	r.stopSt = "called"
	r.mu.Unlock()
	r.spawn("stop", func() {
		r.log.add(map[string]any{"ev": "stop_call"})
		r.pool.Stop()
		r.log.add(map[string]any{"ev": "stop_ret"})
		r.mu.Lock()
		r.stopSt = "returned"
		r.mu.Unlock()
	})
}

func (r *wRun) apply(s wStep) {
	if s.J < 1 || s.J > len(r.jobs) {
		if s.Op == "stop" {
			r.stop()
			r.settle()
		}
		return
	}
	switch s.Op {
	case "newjob":
		r.newJob(s.J)
	case "go":
		r.goTask(s.J)
	case "done":
		r.done(s.J)
	case "wait":
		r.wait(s.J)
	case "gate":
		r.gate(s.J, s.T)
	case "stop":
		r.stop()
	}
	r.settle()
}

// enabled client operations / gates in the state the controller can observe
func (r *wRun) enabled(rng *rand.Rand) []wStep {
	var ops []wStep
	add := func(w int, s wStep) {
		for i := 0; i < w; i++ {
			ops = append(ops, s)
		}
	}
	started := map[[2]int]bool{}
	r.log.mu.Lock()
	for _, l := range r.log.lines {
		if l["ev"] == "start" {
			started[[2]int{l["j"].(int), l["t"].(int)}] = true
		}
	}
	r.log.mu.Unlock()
	submitted := 0
	for j := range r.jobs {
		js := r.jobs[j]
		ph := r.phase(j + 1)
		if ph != "none" {
			submitted++
		}
		switch ph {
		case "open":
			if js.nextGo <= len(js.gates) {
				add(4, wStep{"go", j + 1, 0})
				add(1, wStep{"done", j + 1, 0})
			} else {
				add(4, wStep{"done", j + 1, 0})
			}
		case "closed":
			if !js.waiting {
				add(2, wStep{"wait", j + 1, 0})
			}
		}
		for t := range js.gates {
			if js.gateOpen[t] {
				continue
			}
			if started[[2]int{j + 1, t + 1}] {
				add(4, wStep{"gate", j + 1, t + 1})
			} else if t+1 < js.nextGo {
				add(1, wStep{"gate", j + 1, t + 1}) // open before the task starts
			}
		}
	}
	if submitted < len(r.jobs) {
		add(3, wStep{"newjob", submitted + 1, 0})
	}
	r.mu.Lock()
	st := r.stopSt
	r.mu.Unlock()
	if st == "idle" && r.sc.Kind == "parallel" && len(ops) > 0 {
		add(1, wStep{"stop", 0, 0})
	}
	return ops
}

func runWorkersScenario(sc wScenario, idx int, rng *rand.Rand, watchdog time.Duration) (lines []map[string]any, hung bool) {
	r := &wRun{sc: sc, log: &wLog{}, stopSt: "idle", pend: map[string]bool{}}
	r.log.add(map[string]any{"ev": "reset", "kind": sc.Kind, "workers": sc.Workers, "maxjobs": sc.MaxJobs, "sc": idx,
		"label": sc.Label})
	if sc.Kind == "serial" {
		r.pool = workers.NewSerial()
	} else {
		r.pool = workers.NewParallel(sc.Workers, sc.MaxJobs)
	}
	for _, jd := range sc.Jobs {
		js := &wJobState{phase: "none", nextGo: 1}
		for range jd.Fails {
			g := make(chan struct{})
			if sc.Kind == "serial" {
				close(g) // Go runs the closure on the caller's goroutine
			}
			js.gates = append(js.gates, g)
			js.gateOpen = append(js.gateOpen, sc.Kind == "serial")
		}
		r.jobs = append(r.jobs, js)
	}
	if sc.Script != nil {
		for _, s := range sc.Script {
			r.apply(s)
		}
	} else {
		stopAllowed := rng.Intn(100) < 35
		for step := 0; step < 60; step++ {
			ops := r.enabled(rng)
			if !stopAllowed {
				k := ops[:0:0]
				for _, o := range ops {
					if o.Op != "stop" {
						k = append(k, o)
					}
				}
				ops = k
			}
			if len(ops) == 0 {
				break
			}
			r.apply(ops[rng.Intn(len(ops))])
		}
	}
	// final phase: let everything finish, then Stop, then a late NewJob
	fin := make(chan struct{})
	go func() {
		defer close(fin)
		for j := range r.jobs {
			for t := range r.jobs[j].gates {
				r.gate(j+1, t+1)
			}
		}
		r.settle()
		for j := range r.jobs {
			r.done(j + 1)
		}
		for j := range r.jobs {
			r.wait(j + 1)
		}
		r.async.Wait() // every NewJob / Wait / Stop issued so far has returned
		// jobs whose NewJob was blocked until now
		for round := 0; round < 2; round++ {
			for j := range r.jobs {
				r.done(j + 1)
				r.wait(j + 1)
			}
			r.async.Wait()
		}
		r.stop()
		r.async.Wait()
		// a job submitted after Stop returned
		late := &wJobState{phase: "none", nextGo: 1}
		r.jobs = append(r.jobs, late)
		r.sc.Jobs = append(r.sc.Jobs, wJobDef{})
		r.newJob(len(r.jobs))
		r.async.Wait()
		if r.phase(len(r.jobs)) == "open" { // serial pool
			r.done(len(r.jobs))
			r.wait(len(r.jobs))
			r.async.Wait()
		}
	}()
	select {
	case <-fin:
		r.log.add(map[string]any{"ev": "fin"})
	case <-time.After(watchdog):
		r.mu.Lock()
		what := ""
		for k := range r.pend {
			if what == "" || k < what {
				what = k
			}
		}
		all := []string{}
		for k := range r.pend {
			all = append(all, k)
		}
		r.mu.Unlock()
		r.log.add(map[string]any{"ev": "hang", "what": what, "pending": fmt.Sprint(len(all))})
		hung = true
	}
	r.log.mu.Lock()
	lines = append(lines, r.log.lines...)
	r.log.mu.Unlock()
	return lines, hung
}

func genWorkersScenario(rng *rand.Rand) wScenario {
	sc := wScenario{Kind: "parallel"}
	if rng.Intn(10) == 0 {
		sc.Kind = "serial"
	}
	sc.Workers = []int{1, 1, 2, 2, 3, 4, 16}[rng.Intn(7)]
	sc.MaxJobs = []int{1, 2, 5}[rng.Intn(3)]
	nj := 1 + rng.Intn(4)
	for j := 0; j < nj; j++ {
		jd := wJobDef{Callback: rng.Intn(2) == 0}
		nt := rng.Intn(6)
		failing := rng.Intn(100) < 45
		for t := 0; t < nt; t++ {
			jd.Fails = append(jd.Fails, failing && rng.Intn(100) < 35)
		}
		sc.Jobs = append(sc.Jobs, jd)
	}
	return sc
}

func directedWorkersScenarios() []wScenario {
	ok, fail := false, true
	return []wScenario{
		{Kind: "parallel", Workers: 1, MaxJobs: 2, Label: "lead-1worker-failed-job-then-next-job",
			Jobs: []wJobDef{{Fails: []bool{fail, ok}}, {Fails: []bool{ok}}},
			Script: []wStep{{"newjob", 1, 0}, {"go", 1, 0}, {"go", 1, 0}, {"done", 1, 0}, {"gate", 1, 1}, {"gate", 1, 2},
				{"wait", 1, 0}, {"newjob", 2, 0}, {"go", 2, 0}, {"done", 2, 0}, {"gate", 2, 1}, {"wait", 2, 0}}},
		{Kind: "parallel", Workers: 2, MaxJobs: 1, Label: "many-tasks-after-failure",
			Jobs: []wJobDef{{Fails: []bool{fail, ok, ok, ok, ok}, Callback: true}},
			Script: []wStep{{"newjob", 1, 0}, {"go", 1, 0}, {"gate", 1, 1}, {"go", 1, 0}, {"go", 1, 0}, {"go", 1, 0},
				{"go", 1, 0}, {"done", 1, 0}, {"wait", 1, 0}}},
		{Kind: "parallel", Workers: 1, MaxJobs: 1, Label: "submit-blocked-on-full-queue-at-stop",
			Jobs: []wJobDef{{Fails: []bool{ok}}, {Fails: []bool{ok}}, {Fails: []bool{ok}}},
			Script: []wStep{{"newjob", 1, 0}, {"go", 1, 0}, {"newjob", 2, 0}, {"newjob", 3, 0}, {"stop", 0, 0},
				{"gate", 1, 1}, {"done", 1, 0}, {"wait", 1, 0}}},
		{Kind: "parallel", Workers: 2, MaxJobs: 3, Label: "stop-with-queued-jobs",
			Jobs: []wJobDef{{Fails: []bool{ok, ok}}, {Fails: []bool{ok}, Callback: true}, {Fails: []bool{fail}}},
			Script: []wStep{{"newjob", 1, 0}, {"go", 1, 0}, {"go", 1, 0}, {"newjob", 2, 0}, {"go", 2, 0}, {"done", 2, 0},
				{"newjob", 3, 0}, {"stop", 0, 0}, {"gate", 1, 2}, {"gate", 1, 1}, {"done", 1, 0}}},
	}
}

func TestVerifWorkersRecord(t *testing.T) {
	out := os.Getenv("VERIF_OUT")
	if out == "" {
		t.Skip("VERIF_OUT not set")
	}
	seed, _ := strconv.ParseInt(os.Getenv("VERIF_SEED"), 10, 64)
	n, _ := strconv.Atoi(os.Getenv("VERIF_SCENARIOS"))
	if n == 0 {
		n = 50
	}
	wd, _ := strconv.Atoi(os.Getenv("VERIF_WATCHDOG_S"))
	if wd == 0 {
		wd = 30
	}
	maxHangs, _ := strconv.Atoi(os.Getenv("VERIF_MAX_HANGS"))
	if maxHangs == 0 {
		maxHangs = 1
	}
	only := -1
	if s := os.Getenv("VERIF_ONLY"); s != "" {
		only, _ = strconv.Atoi(s)
	}
	var scripted []wScenario
	if p := os.Getenv("VERIF_SCRIPTS"); p != "" {
		b, err := os.ReadFile(p)
		if err != nil {
			t.Fatal(err)
		}
		if err := json.Unmarshal(b, &scripted); err != nil {
			t.Fatal(err)
		}
	}
	directed := append(directedWorkersScenarios(), scripted...)
	summary := map[string]any{"scenarios": 0, "hangs": []int{}}
	hangs := []int{}
	written := 0
	for i := 0; i < n; i++ {
		rng := rand.New(rand.NewSource(seed*1_000_003 + int64(i)))
		var sc wScenario
		if i < len(directed) {
			sc = directed[i]
		} else {
			sc = genWorkersScenario(rng)
		}
		if only >= 0 && i != only {
			continue
		}
		lines, hung := runWorkersScenario(sc, i, rng, time.Duration(wd)*time.Second)
		f, err := os.Create(filepath.Join(out, fmt.Sprintf("wk%05d.ndjson", i)))
		if err != nil {
			t.Fatal(err)
		}
		enc := json.NewEncoder(f)
		for _, l := range lines {
			if err := enc.Encode(l); err != nil {
				t.Fatal(err)
			}
		}
		f.Close()
		written++
		if hung {
			hangs = append(hangs, i)
			if len(hangs) >= maxHangs {
				break // every further hang costs a full watchdog period
			}
		}
	}
	summary["scenarios"], summary["hangs"] = written, hangs
	b, _ := json.Marshal(summary)
	if err := os.WriteFile(filepath.Join(out, "wk_summary.json"), b, 0o644); err != nil {
		t.Fatal(err)
	}
}
