//go:build verif

// Driver for C13 (see /verif/DESIGN.md, engine `num`): calls the real fees.Manager.ComputeNext (and through it
// window.Roll/Update/Sum) on seeded and boundary 64-bit inputs and records one row per (call, dimension):
// the inputs as decoded by the Manager's accessors, the rule parameters, the stored second / block time, and
// the next price, window, consumption and timestamp read back from a Manager rebuilt from a copy of Bytes().
// Nothing is asserted here: spec/FeeMarket.tla (evaluated by Apalache and, for small rows, TLC) decides.
package fees_test

import (
	"encoding/binary"
	"encoding/json"
	"fmt"
	"math"
	"math/rand"
	"os"
	"path/filepath"
	"strconv"
	"testing"

	"github.com/ava-labs/hypersdk/fees"
	ifees "github.com/ava-labs/hypersdk/internal/fees"
	"github.com/ava-labs/hypersdk/internal/window"
)

func envInt(name string, def int) int {
	if v, err := strconv.Atoi(os.Getenv(name)); err == nil {
		return v
	}
	return def
}

type rules struct {
	min, denom, target fees.Dimensions
}

func (r *rules) GetMinUnitPrice() fees.Dimensions               { return r.min }
func (r *rules) GetUnitPriceChangeDenominator() fees.Dimensions { return r.denom }
func (r *rules) GetWindowTargetUnits() fees.Dimensions          { return r.target }
func (r *rules) GetMaxBlockUnits() fees.Dimensions {
	return fees.Dimensions{math.MaxUint64, math.MaxUint64, math.MaxUint64, math.MaxUint64, math.MaxUint64}
}

const (
	dimLen   = 8 + window.WindowSliceSize + 8
	stateLen = 8 + fees.FeeDimensions*dimLen
)

// encode the documented layout: [timestamp(s)][price][window][lastConsumed]...
func encodeState(sec uint64, price [fees.FeeDimensions]uint64, win [fees.FeeDimensions][window.WindowSize]uint64, last [fees.FeeDimensions]uint64) []byte {
	b := make([]byte, stateLen)
	binary.BigEndian.PutUint64(b, sec)
	for d := 0; d < fees.FeeDimensions; d++ {
		o := 8 + d*dimLen
		binary.BigEndian.PutUint64(b[o:], price[d])
		for i := 0; i < window.WindowSize; i++ {
			binary.BigEndian.PutUint64(b[o+8+8*i:], win[d][i])
		}
		binary.BigEndian.PutUint64(b[o+8+window.WindowSliceSize:], last[d])
	}
	return b
}

func winOf(m *ifees.Manager, d int) []uint64 {
	w := m.Window(fees.Dimension(d))
	out := make([]uint64, window.WindowSize)
	for i := range out {
		out[i] = binary.BigEndian.Uint64(w[8*i:])
	}
	return out
}

func us(v uint64) string { return strconv.FormatUint(v, 10) }
func uss(v []uint64) []string {
	o := make([]string, len(v))
	for i := range v {
		o[i] = us(v[i])
	}
	return o
}

var boundary = []uint64{0, 1, 2, 3, 9, 10, 11, 1000, 1 << 31, 1<<32 - 1, 1 << 32, 1<<32 + 1, 1 << 40, 1 << 62, 1<<63 - 1, 1 << 63, 1<<63 + 1,
	math.MaxUint64 - 2, math.MaxUint64 - 1, math.MaxUint64}

// wide: a value with a random bit length (so that products straddle 2^64) or a boundary value
func wide(rng *rand.Rand) uint64 {
	switch rng.Intn(6) {
	case 0:
		return boundary[rng.Intn(len(boundary))]
	default:
		bits := rng.Intn(65)
		if bits == 0 {
			return 0
		}
		v := rng.Uint64()
		if bits < 64 {
			v &= (1 << bits) - 1
			v |= 1 << (bits - 1)
		}
		return v
	}
}

func nonzero(v uint64) uint64 {
	if v == 0 {
		return 1
	}
	return v
}

func sinceChoice(rng *rand.Rand, small bool) uint64 {
	switch r := rng.Intn(100); {
	case r < 55:
		return uint64(rng.Intn(10)) // inside the window
	case r < 85 || small:
		c := []uint64{10, 10, 11, 12, 19, 20, 21, 25, 30, 39}
		return c[rng.Intn(len(c))]
	default:
		big := []uint64{100, 1000, 1 << 20, 10 << 32, 10<<32 + 5, 1 << 40, 1 << 50, 1<<62 + 7}
		return big[rng.Intn(len(big))]
	}
}

type rowWriter struct {
	enc  *json.Encoder
	rows int
}

// one call of ComputeNext on `m` (whose state the driver encoded as enc*), one row per dimension
func (w *rowWriter) call(cls string, id int, m *ifees.Manager, encPrice, encLast [fees.FeeDimensions]uint64,
	encWin [fees.FeeDimensions][window.WindowSize]uint64, lastSec uint64, nowMs int64, r *rules,
) (*ifees.Manager, error) {
	next := m.ComputeNext(nowMs, r)
	// decode through a fresh copy of the encoded bytes
	rt := ifees.NewManager(append([]byte{}, next.Bytes()...))
	for d := 0; d < fees.FeeDimensions; d++ {
		row := map[string]any{
			"ev": "row", "cls": cls, "call": id, "d": d,
			"enc_prev": us(encPrice[d]), "enc_w": uss(encWin[d][:]), "enc_last": us(encLast[d]),
			"prev": us(m.UnitPrice(fees.Dimension(d))), "w": uss(winOf(m, d)), "last": us(m.LastConsumed(fees.Dimension(d))),
			"target": us(r.target[d]), "denom": us(r.denom[d]), "min": us(r.min[d]),
			"lastSec": us(lastSec), "nowMs": us(uint64(nowMs)),
			"next": us(next.UnitPrice(fees.Dimension(d))), "nw": uss(winOf(next, d)), "nlast": us(next.LastConsumed(fees.Dimension(d))),
			"rt_next": us(rt.UnitPrice(fees.Dimension(d))), "rt_w": uss(winOf(rt, d)), "rt_last": us(rt.LastConsumed(fees.Dimension(d))),
			"rt_sec":   us(binary.BigEndian.Uint64(rt.Bytes()[0:8])),
			"prices_d": us(rt.UnitPrices()[d]), "consumed_d": us(rt.UnitsConsumed()[d]),
		}
		if err := w.enc.Encode(row); err != nil {
			return nil, err
		}
		w.rows++
	}
	return rt, nil
}

func decodeAll(m *ifees.Manager) (p, l [fees.FeeDimensions]uint64, w [fees.FeeDimensions][window.WindowSize]uint64) {
	for d := 0; d < fees.FeeDimensions; d++ {
		p[d] = m.UnitPrice(fees.Dimension(d))
		l[d] = m.LastConsumed(fees.Dimension(d))
		copy(w[d][:], winOf(m, d))
	}
	return
}

func TestVerifFeeMarketRows(t *testing.T) {
	dir := os.Getenv("VERIF_OUT")
	if dir == "" {
		t.Skip("VERIF_OUT not set")
	}
	seed := int64(envInt("VERIF_SEED", 1))
	calls := envInt("VERIF_CALLS", 160)
	only := envInt("VERIF_ONLY", -1)
	f, err := os.Create(filepath.Join(dir, "rows.ndjson"))
	if err != nil {
		t.Fatal(err)
	}
	defer f.Close()
	w := &rowWriter{enc: json.NewEncoder(f)}
	rng := rand.New(rand.NewSource(seed))

	id := 0
	emit := func(cls string, m *ifees.Manager, p, l [fees.FeeDimensions]uint64, win [fees.FeeDimensions][window.WindowSize]uint64,
		lastSec uint64, nowMs int64, r *rules,
	) *ifees.Manager {
		id++
		if only >= 0 && id != only {
			// keep the random stream identical: still run the call, just do not log it
			return ifees.NewManager(append([]byte{}, m.ComputeNext(nowMs, r).Bytes()...))
		}
		n, err := w.call(cls, id, m, p, l, win, lastSec, nowMs, r)
		if err != nil {
			t.Fatal(err)
		}
		return n
	}

	// (0) the recorded lead and its neighbours: price 2^40, usage 2^40 / 2000, target 1000, denominator 2
	{
		var p, l [fees.FeeDimensions]uint64
		var win [fees.FeeDimensions][window.WindowSize]uint64
		r := &rules{}
		usage := []uint64{1 << 40, 2000, 1<<40 + 1, 1 << 41, 1001}
		for d := 0; d < fees.FeeDimensions; d++ {
			p[d] = 1 << 40
			l[d] = usage[d]
			r.target[d], r.denom[d], r.min[d] = 1000, 2, 1
		}
		emit("lead", ifees.NewManager(encodeState(100, p, win, l)), p, l, win, 100, 101_000, r)
	}

	// (1) hand-picked boundary calls: saturated window / consumption, elapsed = window-1, window, window+1, 2*window,
	// enormous elapsed times (factor beyond 64 bits), time going backwards, minimum above the price, huge targets
	{
		M := uint64(math.MaxUint64)
		type bc struct {
			lastSec uint64
			nowMs   int64
		}
		times := []bc{{1000, 1000_999}, {1000, 1009_000}, {1000, 1010_000}, {1000, 1011_500}, {1000, 1020_000}, {1000, 1025_000},
			{1000, (1000 + 10<<32) * 1000}, {1000, (1000 + 1<<50) * 1000}, {1000, 990_000}, {1 << 62, 5_000}, {M, 0}, {M - 5, 7_000}}
		for k, tm := range times {
			if os.Getenv("VERIF_TIER") == "quick" && k%3 != 0 {
				continue // quick tier: every third boundary time
			}
			var p, l [fees.FeeDimensions]uint64
			var win [fees.FeeDimensions][window.WindowSize]uint64
			r := &rules{}
			// dim 0: everything saturated; dim 1: one saturated slot rolls out; dim 2: big price, low usage (decrease);
			// dim 3: minimum above the price; dim 4: target at the word limit
			p = [fees.FeeDimensions]uint64{M, 1 << 33, 1 << 45, 5, 1 << 63}
			l = [fees.FeeDimensions]uint64{M, 1 << 63, 3, 0, M - 1}
			for i := 0; i < window.WindowSize; i++ {
				win[0][i] = M
				win[2][i] = uint64(i)
				win[4][i] = 1 << 60
			}
			win[1][k%window.WindowSize] = M
			win[1][9] = 1 << 63
			r.target = fees.Dimensions{1 << 20, M - 1, 1 << 30, 1000, M}
			r.denom = fees.Dimensions{48, 1, 2, 48, 3}
			r.min = fees.Dimensions{100, 1, 1, 1 << 40, 0}
			emit("boundary", ifees.NewManager(encodeState(tm.lastSec, p, win, l)), p, l, win, tm.lastSec, tm.nowMs, r)
		}
	}

	// (2) intermediate quotient beyond 64 bits while the result still fits: price*(usage-target)/target in
	// [2^64, 2^64*denominator); usage enters as the parent's consumption (empty window, 1 s elapsed)
	{
		type q struct{ price, target, ratio, denom uint64 } // usage = target*(ratio+1)
		fam := [][fees.FeeDimensions]q{
			{{1 << 62, 1000, 16, 48}, {1 << 60, 1 << 20, 100, 48}, {1 << 62, 7, 8, 3}, {1 << 50, 10, 1 << 15, 1000}, {1 << 61, 3, 9, 2}},
			// exactly 2^64; just below 2^64*denom; exactly 2^64*denom (saturates legitimately); 5*2^64 / 7; 2^64+ / huge denominator
			{{1 << 62, 1000, 4, 2}, {1 << 40, 10, 47 << 24, 48}, {1 << 40, 10, 48 << 24, 48}, {1 << 32, 3, 5 << 32, 7}, {1 << 63, 1 << 10, 3, 1 << 40}},
			{{1<<62 + 12345, 999, 17, 5}, {1<<58 + 1, 12, 77, 11}, {1 << 33, 1, 1 << 33, 1 << 20}, {1<<64 - 1, 1 << 30, 2, 3}, {1 << 44, 1 << 44, 1 << 21, 1 << 10}},
		}
		for _, dims := range fam {
			var p, l [fees.FeeDimensions]uint64
			var win [fees.FeeDimensions][window.WindowSize]uint64
			r := &rules{}
			for d, x := range dims {
				p[d], l[d] = x.price, x.target*(x.ratio+1)
				r.target[d], r.denom[d], r.min[d] = x.target, x.denom, 1
			}
			emit("quotient", ifees.NewManager(encodeState(500, p, win, l)), p, l, win, 500, 501_250, r)
		}
		// decrease side with targets at the top of the word (the quotient never exceeds the price there)
		{
			var p, l [fees.FeeDimensions]uint64
			var win [fees.FeeDimensions][window.WindowSize]uint64
			r := &rules{}
			M := uint64(math.MaxUint64)
			p = [fees.FeeDimensions]uint64{1 << 63, M, 1<<63 - 1, 1 << 62, M - 1}
			l = [fees.FeeDimensions]uint64{5, 1, 1 << 62, 0, 1 << 63}
			r.target = fees.Dimensions{1 << 63, M, M - 1, M, 1<<63 + 1}
			r.denom = fees.Dimensions{2, 48, 3, 1 << 40, 7}
			r.min = fees.Dimensions{1, 1, 1, 1, 1}
			emit("quotient", ifees.NewManager(encodeState(500, p, win, l)), p, l, win, 500, 503_000, r)
		}
	}

	// (2b) previous price below the minimum price (fresh all-zero state, or rules that raised the minimum) in all three
	// branches: usage above / equal to / below the target, inside the window, at its edge and beyond it
	{
		M := uint64(math.MaxUint64)
		type b struct{ price, min, target, usage, denom uint64 }
		fam := []struct {
			nowMs int64
			dims  [fees.FeeDimensions]b
		}{
			{901_000, [fees.FeeDimensions]b{{0, 100, 1000, 5000, 48}, {1, 100, 1000, 1000, 48}, {99, 100, 1000, 1001, 48}, {99, 100, 1000, 1000, 2}, {50, 100, 1000, 10, 48}}},
			{900_400, [fees.FeeDimensions]b{{0, 100, 7, 7, 3}, {5, 1 << 40, 1000, 2000, 48}, {1<<62 - 1, 1 << 62, 10, 1 << 40, 5}, {1, M, 3, 9, 1}, {6, 100, 1 << 30, 1 << 30, 48}}},
			{909_000, [fees.FeeDimensions]b{{0, 1, 1, 2, 1}, {0, 1, 1, 1, 1}, {99, 100, M - 1, M, 48}, {99, 100, M, M, 48}, {M - 1, M, 1000, 5000, 2}}},
			{910_000, [fees.FeeDimensions]b{{0, 100, 1000, 5000, 48}, {1, 100, 1000, 1000, 48}, {99, 100, 1, 0, 48}, {5, 6, 1000, 999, 2}, {0, 1 << 63, 1 << 20, 0, 3}}},
			{915_000, [fees.FeeDimensions]b{{0, 100, 1000, 5000, 48}, {1, 100, 1000, 1000, 48}, {99, 100, 1000, 2000, 48}, {5, 6, 1000, 999, 2}, {0, M, 1, 1, 1}}},
		}
		for _, f := range fam {
			var p, l [fees.FeeDimensions]uint64
			var win [fees.FeeDimensions][window.WindowSize]uint64
			r := &rules{}
			for d, x := range f.dims {
				p[d], l[d] = x.price, x.usage
				r.target[d], r.denom[d], r.min[d] = x.target, x.denom, x.min
			}
			emit("belowmin", ifees.NewManager(encodeState(900, p, win, l)), p, l, win, 900, f.nowMs, r)
		}
		// a fresh all-zero state (NewManager(nil)) whose first block met the target exactly / exceeded it
		{
			m := ifees.NewManager(nil)
			r := &rules{}
			for d := 0; d < fees.FeeDimensions; d++ {
				r.target[d], r.denom[d], r.min[d] = 1000, 48, 100
				m.SetLastConsumed(fees.Dimension(d), []uint64{1000, 1001, 0, 5000, 999}[d])
			}
			m = ifees.NewManager(append([]byte{}, m.Bytes()...))
			p, l, win := decodeAll(m)
			emit("belowmin", m, p, l, win, 0, 3_000, r)
		}
	}

	// (3) window sum overflowing at every slot position (same second, so the slots keep their place): slot j holds
	// nearly the whole word, the next slot tips the running sum over, the remaining slots are small
	{
		M := uint64(math.MaxUint64)
		for c2 := 0; c2 < 2; c2++ {
			var p, l [fees.FeeDimensions]uint64
			var win [fees.FeeDimensions][window.WindowSize]uint64
			r := &rules{}
			for d := 0; d < fees.FeeDimensions; d++ {
				j := c2*fees.FeeDimensions + d
				for i := j + 1; i < window.WindowSize; i++ {
					win[d][i] = uint64(7 + i)
				}
				win[d][j] = M - 5 - uint64(j)
				if j%2 == 1 {
					win[d][j] = 1<<63 + uint64(j)
					if j+1 < window.WindowSize {
						win[d][j+1] = 1 << 63
					}
				}
				p[d], l[d] = 1000+uint64(j), 100
				r.target[d], r.denom[d], r.min[d] = 1_000_000, 48, 1
			}
			emit("sumoverflow", ifees.NewManager(encodeState(700, p, win, l)), p, l, win, 700, 700_500, r)
		}
	}
	// (4) a multi-block history through the real API: one block consumes nearly the whole word, later blocks (1-3 s
	// apart, inside the window) consume a little, so the huge slot wanders through every position of the window
	{
		M := uint64(math.MaxUint64)
		cons := []uint64{M - 10, 500, 1 << 63, 1<<63 + 5, 3, M, 1, 1 << 62, 9, 1 << 63, 77, 2}
		dts := []int64{1, 2, 1, 1, 3, 1, 2, 1, 1, 1, 2, 1}
		steps := len(cons)
		if os.Getenv("VERIF_TIER") == "quick" {
			steps = 7
		}
		var p, l [fees.FeeDimensions]uint64
		var win [fees.FeeDimensions][window.WindowSize]uint64
		r := &rules{}
		for d := 0; d < fees.FeeDimensions; d++ {
			p[d] = 1_000_000 + uint64(d)
			r.target[d], r.denom[d], r.min[d] = 1_000_000, uint64(2+d*11), 1
		}
		sec := uint64(2000)
		m := ifees.NewManager(encodeState(sec, p, win, l))
		for k := 0; k < steps; k++ {
			for d := 0; d < fees.FeeDimensions; d++ {
				m.SetLastConsumed(fees.Dimension(d), cons[(k+d)%len(cons)])
			}
			m = ifees.NewManager(append([]byte{}, m.Bytes()...))
			p, l, win = decodeAll(m)
			now := int64(sec+uint64(dts[(k)%len(dts)]))*1000 + 10
			m = emit("history", m, p, l, win, sec, now, r)
			sec = uint64(now / 1000)
		}
	}
	// (5) direct rows of the window package: Roll / Sum / Update with near-max slots at every position
	{
		M := uint64(math.MaxUint64)
		rolls := []uint64{0, 1, 3, 9, 10, 11, 1 << 40, 2, 5, 7}
		units := []uint64{M, 1 << 63, 1, 0, M - 1, 100, 1<<63 + 1, 5, M, 1 << 62}
		nwin := window.WindowSize
		if os.Getenv("VERIF_TIER") != "quick" {
			nwin += 100
		}
		for j := 0; j < nwin; j++ {
			var ws [window.WindowSize]uint64
			var roll, unit uint64
			slot := (j * 3) % window.WindowSize
			if j < window.WindowSize {
				for i := range ws {
					ws[i] = uint64(i + 1)
				}
				ws[j] = M - uint64(j) - 1
				if j+1 < window.WindowSize {
					ws[j+1] = 1 << 63
				}
				roll, unit = rolls[j], units[j]
			} else {
				for i := range ws {
					if rng.Intn(3) > 0 {
						ws[i] = wide(rng)
					}
				}
				roll, unit = sinceChoice(rng, false), wide(rng)
			}
			id++
			if only >= 0 && id != only {
				continue
			}
			var w0 window.Window
			for i, v := range ws {
				binary.BigEndian.PutUint64(w0[8*i:], v)
			}
			dec := func(w window.Window) []uint64 {
				o := make([]uint64, window.WindowSize)
				for i := range o {
					o[i] = binary.BigEndian.Uint64(w[8*i:])
				}
				return o
			}
			rolled := window.Roll(w0, roll)
			upd := w0
			window.Update(&upd, slot*8, unit)
			row := map[string]any{"ev": "win", "cls": "window", "call": id, "d": 0, "w": uss(ws[:]), "roll": us(roll),
				"rolled": uss(dec(rolled)), "sum_w": us(window.Sum(w0)), "sum_rolled": us(window.Sum(rolled)),
				"slot": slot + 1, "units": us(unit), "updated": uss(dec(upd)), "sum_updated": us(window.Sum(upd)),
				"last_slot": us(window.Last(&w0))}
			if err := w.enc.Encode(row); err != nil {
				t.Fatal(err)
			}
			w.rows++
		}
	}

	for c := 0; c < calls; {
		small := rng.Intn(4) == 0 || c == 0 // the first seeded chain is always small-valued (TLC half of the binding)
		cls := "wide"
		if small {
			cls = "small"
		}
		var p, l [fees.FeeDimensions]uint64
		var win [fees.FeeDimensions][window.WindowSize]uint64
		r := &rules{}
		for d := 0; d < fees.FeeDimensions; d++ {
			if small {
				p[d] = uint64(rng.Intn(1001))
				l[d] = uint64(rng.Intn(201))
				for i := range win[d] {
					if rng.Intn(3) > 0 {
						win[d][i] = uint64(rng.Intn(101))
					}
				}
				r.target[d] = uint64(1 + rng.Intn(1500))
				r.denom[d] = uint64(1 + rng.Intn(50))
				r.min[d] = uint64(rng.Intn(101))
			} else {
				p[d] = wide(rng)
				l[d] = wide(rng)
				for i := range win[d] {
					switch rng.Intn(4) {
					case 0:
					case 1:
						win[d][i] = wide(rng)
					default:
						win[d][i] = uint64(rng.Intn(1 << 20))
					}
				}
				r.target[d] = nonzero(wide(rng))
				if rng.Intn(2) == 0 { // a target below typical window totals, so that prices also rise
					r.target[d] = nonzero(uint64(rng.Intn(1 << 22)))
				}
				r.denom[d] = nonzero(uint64(rng.Intn(64)))
				if rng.Intn(5) == 0 {
					r.denom[d] = nonzero(wide(rng))
				}
				r.min[d] = uint64(rng.Intn(200))
				if rng.Intn(6) == 0 {
					r.min[d] = wide(rng)
				}
			}
		}
		lastSec := uint64(1_700_000_000 + rng.Intn(1000))
		if small {
			lastSec = uint64(rng.Intn(1000))
		}
		m := ifees.NewManager(encodeState(lastSec, p, win, l))
		// a chain of blocks: elapsed time, ComputeNext, consumption of the new block, ...
		steps := 1 + rng.Intn(4)
		for s := 0; s < steps && c < calls; s++ {
			since := sinceChoice(rng, small)
			var nowMs int64
			if !small && rng.Intn(12) == 0 && lastSec > 50 {
				// time going backwards: the elapsed seconds wrap to an enormous unsigned number
				nowMs = int64(lastSec-uint64(1+rng.Intn(40)))*1000 + int64(rng.Intn(1000))
			} else {
				ns := lastSec + since
				if ns > math.MaxInt64/1000 {
					ns = lastSec
				}
				nowMs = int64(ns)*1000 + int64(rng.Intn(1000))
			}
			n := emit(cls, m, p, l, win, lastSec, nowMs, r)
			c++
			// the new block consumes units (through the real API), then becomes the parent
			for d := 0; d < fees.FeeDimensions; d++ {
				var u uint64
				if small {
					u = uint64(rng.Intn(301))
				} else if rng.Intn(3) == 0 {
					u = wide(rng)
				} else {
					u = uint64(rng.Intn(1 << 22))
				}
				n.SetLastConsumed(fees.Dimension(d), u)
			}
			m = ifees.NewManager(append([]byte{}, n.Bytes()...))
			p, l, win = decodeAll(m)
			lastSec = uint64(nowMs / 1000)
		}
	}
	fmt.Printf("VERIF rows=%d calls=%d\n", w.rows, id)
}
