//go:build verif

// Driver for C12 (consumption): seeded Consume sequences on a real fees.Manager, one ndjson line per call.
package fees_test

import (
	"encoding/json"
	"fmt"
	"math/rand"
	"os"
	"path/filepath"
	"strconv"
	"testing"

	"github.com/ava-labs/hypersdk/fees"

	internalfees "github.com/ava-labs/hypersdk/internal/fees"
)

func TestVerifConsume(t *testing.T) {
	dir := os.Getenv("VERIF_OUT")
	if dir == "" {
		t.Skip("VERIF_OUT not set")
	}
	seed, _ := strconv.Atoi(os.Getenv("VERIF_SEED"))
	n, _ := strconv.Atoi(os.Getenv("VERIF_SCENARIOS"))
	if n == 0 {
		n = 200
	}
	for s := 0; s < n; s++ {
		r := rand.New(rand.NewSource(int64(seed)*1_000_033 + int64(s)))
		// every third scenario works in units of 2^60 (logged scaled): limits may be MaxUint64 (= 15 scaled units for
		// exact multiples) and the running sum may overflow uint64
		scale := uint64(1)
		if s%3 == 0 {
			scale = 1 << 60
		}
		var max fees.Dimensions
		logMax := make([]int64, len(max))
		for d := range max {
			v := uint64(r.Intn(12))
			max[d], logMax[d] = v*scale, int64(v)
			if scale > 1 && r.Intn(2) == 0 {
				max[d], logMax[d] = ^uint64(0), 15
			}
		}
		m := internalfees.NewManager(nil)
		lines := []any{map[string]any{"ev": "reset", "max": logMax}}
		for i := 0; i < 12; i++ {
			var u fees.Dimensions
			for d := range u {
				u[d] = uint64(r.Intn(6)) * scale
				if scale > 1 {
					u[d] = uint64(r.Intn(10)) * scale
				} else if r.Intn(25) == 0 {
					u[d] = ^uint64(0) - uint64(r.Intn(3)) // overflowing the running sum must be refused as well
				}
			}
			ok, dim := m.Consume(u, max)
			c := m.UnitsConsumed()
			lu := make([]int64, len(u))
			for d := range u {
				lu[d] = int64(u[d] / scale)
				if scale == 1 && u[d] > 1<<30 {
					lu[d] = 1 << 30
				}
			}
			lc := make([]int64, len(c))
			for d := range c {
				lc[d] = int64(c[d] / scale)
			}
			lines = append(lines, map[string]any{"ev": "consume", "units": lu, "ok": ok, "dim": int(dim), "consumed": lc})
		}
		f, err := os.Create(filepath.Join(dir, fmt.Sprintf("cs%05d.ndjson", s)))
		if err != nil {
			t.Fatal(err)
		}
		enc := json.NewEncoder(f)
		for _, l := range lines {
			if err := enc.Encode(l); err != nil {
				t.Fatal(err)
			}
		}
		f.Close()
	}
}
