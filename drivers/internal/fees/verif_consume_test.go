//go:build verif

// Driver for C12 (consumption): seeded Consume sequences on a real fees.Manager, one ndjson line per call.
package fees_test

import (
	"encoding/json"
	"fmt"
	"math/rand"
	"os"
	"path/filepath"
	"strconv"
	"testing"

	"github.com/ava-labs/hypersdk/fees"

	internalfees "github.com/ava-labs/hypersdk/internal/fees"
)

func TestVerifConsume(t *testing.T) {
	dir := os.Getenv("VERIF_OUT")
	if dir == "" {
		t.Skip("VERIF_OUT not set")
	}
	seed, _ := strconv.Atoi(os.Getenv("VERIF_SEED"))
	n, _ := strconv.Atoi(os.Getenv("VERIF_SCENARIOS"))
	if n == 0 {
		n = 200
	}
	for s := 0; s < n; s++ {
		r := rand.New(rand.NewSource(int64(seed)*1_000_033 + int64(s)))
		var max fees.Dimensions
		for d := range max {
			max[d] = uint64(r.Intn(12))
		}
		m := internalfees.NewManager(nil)
		lines := []any{map[string]any{"ev": "reset", "max": max[:]}}
		for i := 0; i < 12; i++ {
			var u fees.Dimensions
			for d := range u {
				u[d] = uint64(r.Intn(6))
				if r.Intn(25) == 0 {
					u[d] = ^uint64(0) - uint64(r.Intn(3)) // overflowing the running sum must be refused as well
				}
			}
			ok, dim := m.Consume(u, max)
			c := m.UnitsConsumed()
			lu := make([]int64, len(u))
			for d := range u {
				lu[d] = int64(u[d])
				if u[d] > 1<<30 {
					lu[d] = 1 << 30
				}
			}
			lc := make([]int64, len(c))
			for d := range c {
				lc[d] = int64(c[d])
			}
			lines = append(lines, map[string]any{"ev": "consume", "units": lu, "ok": ok, "dim": int(dim), "consumed": lc})
		}
		f, err := os.Create(filepath.Join(dir, fmt.Sprintf("cs%05d.ndjson", s)))
		if err != nil {
			t.Fatal(err)
		}
		enc := json.NewEncoder(f)
		for _, l := range lines {
			if err := enc.Encode(l); err != nil {
				t.Fatal(err)
			}
		}
		f.Close()
	}
}
