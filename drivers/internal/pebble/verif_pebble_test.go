//go:build verif

// X12 driver (see /verif/spec/OrderedKV.tla): seeded histories on a real pebble.Database (the avalanchego
// database.Database wrapper) in a directory under VERIF_OUT: Put / Delete / DeleteRange / Get / Has, batches (Put, Delete,
// Write, Reset, Replay, reuse), the four iterator constructors (optionally with a write between creation and iteration),
// Compact with arbitrary bounds, reopen of the directory, and a few calls after Close.  Keys are byte strings over
// {0x00, 0x61, 0xff} of length 1..3, logged as arrays of numbers.
package pebble_test

import (
	"encoding/json"
	"errors"
	"fmt"
	"math/rand"
	"os"
	"path/filepath"
	"strconv"
	"testing"

	"github.com/ava-labs/avalanchego/database"
	"github.com/prometheus/client_golang/prometheus"

	"github.com/ava-labs/hypersdk/internal/pebble"
)

func pbEnvInt(name string, def int) int {
	if v, err := strconv.Atoi(os.Getenv(name)); err == nil {
		return v
	}
	return def
}

var pbAlphabet = []byte{0x00, 0x61, 0xff}

func pbKey(rng *rand.Rand) []byte {
	n := 1 + rng.Intn(3)
	k := make([]byte, n)
	for i := range k {
		k[i] = pbAlphabet[rng.Intn(3)]
	}
	return k
}

func pbInts(b []byte) []int {
	out := make([]int, len(b))
	for i, c := range b {
		out[i] = int(c)
	}
	return out
}

func pbErr(err error) string {
	switch {
	case err == nil:
		return "ok"
	case errors.Is(err, database.ErrNotFound):
		return "notfound"
	case errors.Is(err, database.ErrClosed):
		return "closed"
	}
	return "err:" + err.Error()
}

type pbWriter struct{ ops []map[string]any }

func (w *pbWriter) Put(k, v []byte) error {
	w.ops = append(w.ops, map[string]any{"kind": "put", "k": pbInts(k), "v": int(v[0])})
	return nil
}
func (w *pbWriter) Delete(k []byte) error {
	w.ops = append(w.ops, map[string]any{"kind": "del", "k": pbInts(k), "v": 0})
	return nil
}

func pbGuard(f func() string) (res string) {
	defer func() {
		if r := recover(); r != nil {
			res = fmt.Sprintf("panic:%v", r)
		}
	}()
	return f()
}

func TestVerifPebble(t *testing.T) {
	seed := int64(pbEnvInt("VERIF_SEED", 1))
	only := pbEnvInt("VERIF_ONLY", -1)
	n := pbEnvInt("VERIF_SCENARIOS", 30)
	depth := pbEnvInt("VERIF_DEPTH", 60)
	out := os.Getenv("VERIF_OUT")
	stats := map[string]int{}
	cfg := pebble.NewDefaultConfig()
	cfg.CacheSize = 1 << 20
	cfg.MemTableSize = 1 << 20
	for i := 0; i < n; i++ {
		if only >= 0 && only != i {
			continue
		}
		rng := rand.New(rand.NewSource(seed*1_000_003 + int64(i)))
		dir := filepath.Join(out, fmt.Sprintf("pebble-%05d", i))
		db, err := pebble.New(dir, cfg, prometheus.NewRegistry())
		if err != nil {
			t.Fatal(err)
		}
		lines := []map[string]any{{"ev": "reset"}}
		add := func(l map[string]any) { lines = append(lines, l) }
		b := db.NewBatch()
		val := 0
		nextVal := func() []byte { val = val%250 + 1; return []byte{byte(val)} }
		for s := 0; s < depth; s++ {
			k := pbKey(rng)
			switch r := rng.Intn(24); {
			case r < 4:
				v := nextVal()
				add(map[string]any{"ev": "put", "k": pbInts(k), "v": int(v[0]), "res": pbErr(db.Put(k, v))})
			case r < 6:
				add(map[string]any{"ev": "del", "k": pbInts(k), "res": pbErr(db.Delete(k))})
			case r == 6:
				e := pbKey(rng)
				add(map[string]any{"ev": "delrange", "s": pbInts(k), "e": pbInts(e), "res": pbErr(db.DeleteRange(k, e))})
				stats["delrange"]++
			case r < 10:
				v, err := db.Get(k)
				has, herr := db.Has(k)
				got := -1
				if err == nil && len(v) == 1 {
					got = int(v[0])
				}
				add(map[string]any{"ev": "get", "k": pbInts(k), "res": pbErr(err), "v": got, "has": has, "hasres": pbErr(herr)})
			case r < 13:
				v := nextVal()
				add(map[string]any{"ev": "bput", "k": pbInts(k), "v": int(v[0]), "res": pbErr(b.Put(k, v)), "size": b.Size()})
			case r == 13:
				add(map[string]any{"ev": "bdel", "k": pbInts(k), "res": pbErr(b.Delete(k)), "size": b.Size()})
			case r == 14:
				res := pbGuard(func() string { return pbErr(b.Write()) })
				add(map[string]any{"ev": "bwrite", "res": res, "reused": false})
				stats["bwrite"]++
				if rng.Intn(2) == 0 {
					// the avalanchego idiom: Write, Reset, reuse, Write - done back to back, because the wrapper has
					// closed the pebble batch and anything else done in between is affected too (notes/X12.md); what the
					// database holds afterwards is read back (resync) and a fresh batch is taken
					res := pbGuard(func() string { b.Reset(); return "ok" })
					add(map[string]any{"ev": "breset", "res": res, "size": b.Size(), "fresh": false})
					for j := 1 + rng.Intn(2); j > 0; j-- {
						k2, v2 := pbKey(rng), nextVal()
						r2 := pbGuard(func() string { return pbErr(b.Put(k2, v2)) })
						add(map[string]any{"ev": "bput", "k": pbInts(k2), "v": int(v2[0]), "res": r2, "size": b.Size()})
					}
					res = pbGuard(func() string { return pbErr(b.Write()) })
					add(map[string]any{"ev": "bwrite", "res": res, "reused": true})
					items := [][]any{}
					it := db.NewIterator()
					for it.Next() {
						items = append(items, []any{pbInts(it.Key()), int(it.Value()[0])})
					}
					it.Release()
					add(map[string]any{"ev": "resync", "items": items})
					stats["batch_reused_after_write"]++
					// leave the released pebble batch empty: it sits in pebble's pool and would otherwise hand its stale
					// operations to whoever gets it next (see notes/X12.md)
					_ = pbGuard(func() string { b.Reset(); return "ok" })
				}
				b = db.NewBatch()
				add(map[string]any{"ev": "breset", "res": "ok", "size": b.Size(), "fresh": true})
			case r == 15:
				res := pbGuard(func() string { b.Reset(); return "ok" })
				add(map[string]any{"ev": "breset", "res": res, "size": b.Size(), "fresh": false})
			case r == 16:
				w := &pbWriter{ops: []map[string]any{}}
				res := pbGuard(func() string { return pbErr(b.Replay(w)) })
				add(map[string]any{"ev": "breplay", "res": res, "ops": w.ops})
				stats["breplay"]++
			case r < 21:
				kind := []string{"all", "start", "prefix", "startprefix"}[rng.Intn(4)]
				start, prefix := pbKey(rng), pbKey(rng)
				if rng.Intn(3) == 0 {
					prefix = prefix[:1]
				}
				if rng.Intn(6) == 0 {
					prefix = []byte{}
				}
				var it database.Iterator
				switch kind {
				case "all":
					it = db.NewIterator()
				case "start":
					it = db.NewIteratorWithStart(start)
				case "prefix":
					it = db.NewIteratorWithPrefix(prefix)
				default:
					it = db.NewIteratorWithStartAndPrefix(start, prefix)
				}
				line := map[string]any{"ev": "iter", "kind": kind, "start": pbInts(start), "prefix": pbInts(prefix), "mid": false}
				if rng.Intn(3) == 0 { // a write between creation and iteration must not be seen
					mk, mv := pbKey(rng), nextVal()
					line["mid"], line["mk"], line["mv"] = true, pbInts(mk), int(mv[0])
					line["midres"] = pbErr(db.Put(mk, mv))
					stats["iter_with_write_in_between"]++
				}
				items := [][]any{}
				for it.Next() {
					items = append(items, []any{pbInts(it.Key()), int(it.Value()[0])})
				}
				line["items"], line["res"] = items, pbErr(it.Error())
				line["afterkey"] = it.Key() == nil && it.Value() == nil
				it.Release()
				add(line)
				stats["iter_"+kind]++
			case r < 23:
				e := pbKey(rng)
				line := map[string]any{"ev": "compact", "s": pbInts(k), "e": pbInts(e), "nil": false}
				var err error
				if rng.Intn(3) == 0 {
					line["nil"] = true
					err = db.Compact(k, nil)
				} else {
					err = db.Compact(k, e)
				}
				line["res"] = pbErr(err)
				add(line)
				stats["compact"]++
			default:
				res := pbErr(db.Close())
				db, err = pebble.New(dir, cfg, prometheus.NewRegistry())
				if err != nil {
					t.Fatal(err)
				}
				b = db.NewBatch()
				add(map[string]any{"ev": "reopen", "res": res})
				stats["reopen"]++
			}
		}
		// full contents, then Close and a few calls on the closed database
		items := [][]any{}
		it := db.NewIterator()
		for it.Next() {
			items = append(items, []any{pbInts(it.Key()), int(it.Value()[0])})
		}
		it.Release()
		add(map[string]any{"ev": "iter", "kind": "all", "start": []int{}, "prefix": []int{}, "mid": false, "items": items, "res": "ok", "afterkey": true})
		pre := db.NewIterator()
		cres := pbErr(db.Close())
		k := pbKey(rng)
		after := map[string]any{"ev": "closed", "res": cres}
		after["get"] = pbGuard(func() string { _, err := db.Get(k); return pbErr(err) })
		after["has"] = pbGuard(func() string { _, err := db.Has(k); return pbErr(err) })
		after["put"] = pbGuard(func() string { return pbErr(db.Put(k, []byte{1})) })
		after["del"] = pbGuard(func() string { return pbErr(db.Delete(k)) })
		after["iter"] = pbGuard(func() string { it := db.NewIterator(); it.Next(); err := it.Error(); it.Release(); return pbErr(err) })
		after["olditer"] = pbGuard(func() string { pre.Next(); err := pre.Error(); return pbErr(err) })
		after["health"] = pbGuard(func() string { _, err := db.HealthCheck(nil); return pbErr(err) })
		add(after)
		f, err := os.Create(filepath.Join(out, fmt.Sprintf("pb-%05d.ndjson", i)))
		if err != nil {
			t.Fatal(err)
		}
		enc := json.NewEncoder(f)
		for _, l := range lines {
			if err := enc.Encode(l); err != nil {
				t.Fatal(err)
			}
		}
		f.Close()
		_ = os.RemoveAll(dir)
		stats["scenarios"]++
	}
	bts, _ := json.Marshal(stats)
	if err := os.WriteFile(filepath.Join(out, "pb_stats.json"), bts, 0o644); err != nil {
		t.Fatal(err)
	}
}
