//go:build verif

// X10 driver (see /verif/spec/SyncRequests.tla): real SyncTypedClient over a driver-implemented P2PClient that keeps the
// registered callbacks.  K calls are started concurrently (each in its own goroutine); once the network stub has seen
// the requests that were to be sent, a scripted sequence of events - deliver the response of request r (ok / peer error
// / bytes that do not unmarshal), deliver it again, cancel r's context - is applied one at a time, waiting (30 s
// watchdog) for the call it makes return, so every recorded outcome is deterministic.
package typedclient_test

import (
	"context"
	"encoding/json"
	"errors"
	"fmt"
	"math/rand"
	"os"
	"path/filepath"
	"strconv"
	"sync"
	"testing"
	"time"

	"github.com/ava-labs/avalanchego/ids"
	"github.com/ava-labs/avalanchego/network/p2p"
	"github.com/ava-labs/avalanchego/snow/engine/common"
	"github.com/ava-labs/avalanchego/utils/set"

	"github.com/ava-labs/hypersdk/internal/typedclient"
)

func tcEnvInt(name string, def int) int {
	if v, err := strconv.Atoi(os.Getenv(name)); err == nil {
		return v
	}
	return def
}

var (
	errTcMarshal = errors.New("cannot marshal request")
	errTcSend    = errors.New("network refused the request")
	errTcPeer    = errors.New("peer error")
	errTcGarbage = errors.New("cannot unmarshal response")
)

type tcReq struct {
	n    int
	send string
}

type tcMarshaler struct{}

func (tcMarshaler) MarshalRequest(r *tcReq) ([]byte, error) {
	if r.send == "marshal" {
		return nil, errTcMarshal
	}
	return []byte(fmt.Sprintf("req:%d:%s", r.n, r.send)), nil
}

func (tcMarshaler) UnmarshalResponse(b []byte) (int, error) {
	var n int
	if _, err := fmt.Sscanf(string(b), "resp:%d", &n); err != nil {
		return 0, errTcGarbage
	}
	return n, nil
}
func (tcMarshaler) MarshalGossip(b []byte) ([]byte, error) { return b, nil }

type tcNet struct {
	mu  sync.Mutex
	cbs map[int]p2p.AppResponseCallback
	to  map[int]ids.NodeID
}

func (*tcNet) AppRequestAny(context.Context, []byte, p2p.AppResponseCallback) error { return nil }
func (n *tcNet) AppRequest(_ context.Context, nodes set.Set[ids.NodeID], b []byte, cb p2p.AppResponseCallback) error {
	var id int
	var send string
	if _, err := fmt.Sscanf(string(b), "req:%d:%s", &id, &send); err != nil {
		return err
	}
	if send == "send" {
		return errTcSend
	}
	n.mu.Lock()
	n.cbs[id] = cb
	for node := range nodes {
		n.to[id] = node
	}
	n.mu.Unlock()
	return nil
}
func (*tcNet) AppGossip(context.Context, common.SendConfig, []byte) error { return nil }

type tcOut struct {
	kind string
	val  int
}

func tcClassify(v int, err error) tcOut {
	switch {
	case err == nil:
		return tcOut{"resp", v}
	case errors.Is(err, errTcMarshal):
		return tcOut{"marshal", 0}
	case errors.Is(err, errTcSend):
		return tcOut{"send", 0}
	case errors.Is(err, errTcPeer):
		return tcOut{"peer", 0}
	case errors.Is(err, errTcGarbage):
		return tcOut{"garbage", 0}
	case errors.Is(err, context.Canceled):
		return tcOut{"ctx", 0}
	}
	return tcOut{"other:" + err.Error(), 0}
}

func TestVerifSyncClient(t *testing.T) {
	seed := int64(tcEnvInt("VERIF_SEED", 1))
	only := tcEnvInt("VERIF_ONLY", -1)
	n := tcEnvInt("VERIF_SCENARIOS", 200)
	stats := map[string]int{}
	hung := false // a call did not return within the watchdog: the scenario is cut after that line and no further one is run
	for i := 0; i < n && !hung; i++ {
		if only >= 0 && only != i {
			continue
		}
		rng := rand.New(rand.NewSource(seed*1_000_003 + int64(i)))
		k := 2 + rng.Intn(4)
		net := &tcNet{cbs: map[int]p2p.AppResponseCallback{}, to: map[int]ids.NodeID{}}
		cli := typedclient.NewSyncTypedClient[*tcReq, int, []byte](net, tcMarshaler{})
		reqs := make([]*tcReq, k)
		sends := make([]string, k)
		results := make([]chan tcOut, k)
		cancels := make([]context.CancelFunc, k)
		nsent := 0
		for r := 0; r < k; r++ {
			send := "ok"
			switch rng.Intn(8) {
			case 0:
				send = "marshal"
			case 1:
				send = "send"
			}
			if send == "ok" {
				nsent++
			}
			reqs[r], sends[r] = &tcReq{n: r + 1, send: send}, send
			results[r] = make(chan tcOut, 1)
			ctx, cancel := context.WithCancel(context.Background())
			cancels[r] = cancel
			go func(r int) {
				var node ids.NodeID
				node[0] = byte(r + 1)
				v, err := cli.SyncAppRequest(ctx, node, reqs[r])
				results[r] <- tcClassify(v, err)
			}(r)
		}
		lines := []map[string]any{{"ev": "reset", "send": sends}}
		returned := map[int]bool{}
		collect := func(wait time.Duration) [][]any {
			out := [][]any{}
			deadline := time.After(wait)
			for r := 0; r < k; r++ {
				if returned[r] {
					continue
				}
				select {
				case o := <-results[r]:
					returned[r] = true
					out = append(out, []any{r + 1, o.kind, o.val})
				default:
				}
			}
			_ = deadline
			return out
		}
		// the calls that fail before the network return at once; the others must have reached the network
		ok := false
		for deadline := time.Now().Add(30 * time.Second); time.Now().Before(deadline); time.Sleep(time.Millisecond) {
			net.mu.Lock()
			got := len(net.cbs)
			net.mu.Unlock()
			if got == nsent {
				ok = true
				break
			}
		}
		early := [][]any{}
		for deadline := time.Now().Add(30 * time.Second); time.Now().Before(deadline) && len(early) < k-nsent; time.Sleep(time.Millisecond) {
			early = append(early, collect(0)...)
		}
		time.Sleep(5 * time.Millisecond)
		early = append(early, collect(0)...)
		if len(early) < k-nsent {
			hung = true
		}
		lines = append(lines, map[string]any{"ev": "started", "reached": ok, "returned": early})
		// scripted events
		for e := 0; e < 2*k+2 && !hung; e++ {
			r := rng.Intn(k)
			line := map[string]any{"r": r + 1}
			net.mu.Lock()
			cb, sent := net.cbs[r+1], net.to[r+1]
			net.mu.Unlock()
			switch c := rng.Intn(10); {
			case c < 3:
				line["ev"], line["kind"] = "cancel", "ctx"
				cancels[r]()
				stats["cancel"]++
			default:
				kind := []string{"ok", "ok", "ok", "peer", "garbage"}[rng.Intn(5)]
				line["ev"], line["kind"] = "deliver", kind
				if cb == nil {
					line["ev"] = "deliver-unsent"
					break
				}
				switch kind {
				case "ok":
					cb(context.Background(), sent, []byte(fmt.Sprintf("resp:%d", r+1)), nil)
				case "peer":
					cb(context.Background(), sent, nil, errTcPeer)
				default:
					cb(context.Background(), sent, []byte("zzz"), nil)
				}
				stats["deliver_"+kind]++
			}
			// the call this event completes (if any) returns; nothing else does
			got := [][]any{}
			expectReturn := !returned[r] && (line["ev"] == "cancel" || line["ev"] == "deliver") && (line["ev"] == "cancel" && sends[r] == "ok" || cb != nil)
			if expectReturn {
				for deadline := time.Now().Add(30 * time.Second); time.Now().Before(deadline) && len(got) == 0; time.Sleep(200 * time.Microsecond) {
					got = append(got, collect(0)...)
				}
			}
			time.Sleep(2 * time.Millisecond)
			got = append(got, collect(0)...)
			if expectReturn && len(got) == 0 {
				hung = true
			}
			if returned[r] && len(got) == 0 {
				stats["event_on_returned_call"]++
			}
			line["returned"] = got
			lines = append(lines, line)
		}
		for r := 0; r < k; r++ {
			cancels[r]()
		}
		f, err := os.Create(filepath.Join(os.Getenv("VERIF_OUT"), fmt.Sprintf("tc-%05d.ndjson", i)))
		if err != nil {
			t.Fatal(err)
		}
		enc := json.NewEncoder(f)
		for _, l := range lines {
			if err := enc.Encode(l); err != nil {
				t.Fatal(err)
			}
		}
		f.Close()
		stats["scenarios"]++
	}
	if hung {
		stats["hung"] = 1
	}
	b, _ := json.Marshal(stats)
	if err := os.WriteFile(filepath.Join(os.Getenv("VERIF_OUT"), "tc_stats.json"), b, 0o644); err != nil {
		t.Fatal(err)
	}
}
