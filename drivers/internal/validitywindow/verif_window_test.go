//go:build verif

// Driver for C09 (window level): seeded block trees over a real TimeValidityWindow; every
// VerifyExpiryReplayProtection / Accept / IsRepeat / restart is logged for spec/ValidityWindow_Trace.tla.
package validitywindow_test

import (
	"context"
	"encoding/json"
	"errors"
	"fmt"
	"math/rand"
	"os"
	"path/filepath"
	"strconv"
	"testing"
	"time"

	"github.com/ava-labs/avalanchego/database"
	"github.com/ava-labs/avalanchego/ids"
	"github.com/ava-labs/avalanchego/trace"
	"github.com/ava-labs/avalanchego/utils/logging"

	"github.com/ava-labs/hypersdk/internal/validitywindow"
)

type vwTx struct {
	name   string
	id     ids.ID
	expiry int64
}

func (t *vwTx) GetID() ids.ID    { return t.id }
func (t *vwTx) GetExpiry() int64 { return t.expiry }

type vwBlock struct {
	// gate, when non-nil, makes the next GetContainers call announce itself on entered and wait for release: Accept
	// reads the containers while it updates the window, so this parks Accept in the middle of its update
	entered chan struct{}
	release chan struct{}

	name   string
	id     ids.ID
	parent ids.ID
	pname  string
	height uint64
	ts     int64
	txs    []*vwTx
}

func (b *vwBlock) GetID() ids.ID           { return b.id }
func (b *vwBlock) GetParent() ids.ID       { return b.parent }
func (b *vwBlock) GetTimestamp() int64     { return b.ts }
func (b *vwBlock) GetHeight() uint64       { return b.height }
func (b *vwBlock) GetBytes() []byte        { return []byte(b.name) }
func (b *vwBlock) GetContainers() []*vwTx {
	if e, r := b.entered, b.release; e != nil {
		b.entered, b.release = nil, nil
		close(e)
		<-r
	}
	return b.txs
}
func (b *vwBlock) Contains(id ids.ID) bool {
	for _, t := range b.txs {
		if t.id == id {
			return true
		}
	}
	return false
}

type vwIndex struct{ m map[ids.ID]*vwBlock }

func (i *vwIndex) GetExecutionBlock(_ context.Context, id ids.ID) (validitywindow.ExecutionBlock[*vwTx], error) {
	if b, ok := i.m[id]; ok {
		return b, nil
	}
	return nil, database.ErrNotFound
}

func mkID(s string) ids.ID {
	var id ids.ID
	copy(id[:], s)
	return id
}

type txRecW struct {
	ID     string `json:"id"`
	Expiry int64  `json:"expiry"`
}

func txRecs(txs []*vwTx) []txRecW {
	out := []txRecW{}
	for _, t := range txs {
		out = append(out, txRecW{t.name, t.expiry})
	}
	return out
}

func envIntW(name string, def int) int {
	if v, err := strconv.Atoi(os.Getenv(name)); err == nil {
		return v
	}
	return def
}

func TestVerifWindow(t *testing.T) {
	dir := os.Getenv("VERIF_OUT")
	if dir == "" {
		t.Skip("VERIF_OUT not set")
	}
	seed := int64(envIntW("VERIF_SEED", 1))
	n := envIntW("VERIF_SCENARIOS", 100)
	steps := envIntW("VERIF_DEPTH", 40)
	ctx := context.Background()
	for s := 0; s < n; s++ {
		if o := os.Getenv("VERIF_ONLY"); o != "" && o != strconv.Itoa(s) {
			continue
		}
		r := rand.New(rand.NewSource(seed*5_000_011 + int64(s)))
		W := int64([]int{0, 2, 3, 5}[r.Intn(4)])
		lines := []any{map[string]any{"ev": "reset", "w": W}}
		idx := &vwIndex{m: map[ids.ID]*vwBlock{}}
		gen := &vwBlock{name: "g", id: mkID("g"), height: 0, ts: 0, txs: []*vwTx{}}
		idx.m[gen.id] = gen
		newWindow := func(head *vwBlock) *validitywindow.TimeValidityWindow[*vwTx] {
			w, err := validitywindow.NewTimeValidityWindow[*vwTx](ctx, &logging.NoLog{}, trace.Noop, idx, head, func(int64) int64 { return W })
			if err != nil {
				t.Fatal(err)
			}
			return w
		}
		win := newWindow(gen)
		lastAcc := gen
		verified := []*vwBlock{gen} // blocks in the index
		// live: the last accepted block and its verified descendants (consensus never extends a rejected fork)
		live := func(b *vwBlock) bool {
			for x := b; x != nil; x = idx.m[x.parent] {
				if x == lastAcc {
					return true
				}
				if x.height == 0 {
					break
				}
			}
			return false
		}
		pool := []*vwTx{}           // every transaction ever created
		nb, nt := 0, 0
		for i := 0; i < steps; i++ {
			switch x := r.Intn(20); {
			case x < 11: // propose and verify a child of a verified block at or above the accepted tip
				var cands []*vwBlock
				for _, b := range verified {
					if live(b) {
						cands = append(cands, b)
					}
				}
				p := cands[r.Intn(len(cands))]
				nb++
				b := &vwBlock{name: fmt.Sprintf("b%d", nb), parent: p.id, pname: p.name, height: p.height + 1, ts: p.ts + int64(r.Intn(3))}
				if b.ts == 0 {
					b.ts = 1 // expiry 0 is reserved for genesis entries, which the replay tracker deliberately does not track
				}
				b.id = mkID(b.name)
				k := r.Intn(4)
				for j := 0; j < k; j++ {
					// re-use an admissible earlier transaction (possible replay) or create a fresh one
					var reuse []*vwTx
					for _, tx := range pool {
						if tx.expiry >= b.ts && tx.expiry <= b.ts+W {
							reuse = append(reuse, tx)
						}
					}
					if len(reuse) > 0 && r.Intn(2) == 0 {
						b.txs = append(b.txs, reuse[r.Intn(len(reuse))])
					} else {
						nt++
						tx := &vwTx{name: fmt.Sprintf("t%d", nt), expiry: b.ts + int64(r.Intn(int(W)+1))}
						tx.id = mkID(tx.name)
						pool = append(pool, tx)
						b.txs = append(b.txs, tx)
					}
				}
				if b.txs == nil {
					b.txs = []*vwTx{}
				}
				err := win.VerifyExpiryReplayProtection(ctx, b)
				res := "ok"
				switch {
				case err == nil:
					idx.m[b.id] = b
					verified = append(verified, b)
				case errors.Is(err, validitywindow.ErrDuplicateContainer):
					res = "duplicate"
				default:
					res = "error:" + err.Error()
				}
				lines = append(lines, map[string]any{"ev": "verify", "id": b.name, "parent": b.pname, "h": b.height, "ts": b.ts, "txs": txRecs(b.txs), "res": res})
			case x < 16: // accept a verified child of the last accepted block
				var kids []*vwBlock
				for _, b := range verified {
					if b.parent == lastAcc.id && b != gen {
						kids = append(kids, b)
					}
				}
				if len(kids) == 0 {
					continue
				}
				b := kids[r.Intn(len(kids))]
				if len(b.txs) > 0 && r.Intn(3) == 0 {
					// a child repeating a transaction of b is verified WHILE b is being accepted (Accept parked inside its
					// update): whatever the interleaving, the repeat must be refused
					nb++
					c := &vwBlock{name: fmt.Sprintf("b%d", nb), parent: b.id, pname: b.name, height: b.height + 1, ts: b.ts + int64(r.Intn(2))}
					c.id = mkID(c.name)
					rep := b.txs[r.Intn(len(b.txs))]
					if rep.expiry >= c.ts && rep.expiry <= c.ts+W {
						c.txs = []*vwTx{rep}
						b.entered, b.release = make(chan struct{}), make(chan struct{})
						entered, release := b.entered, b.release
						accDone := make(chan struct{})
						go func() { win.Accept(b); close(accDone) }()
						<-entered
						type vr struct{ err error }
						vch := make(chan vr, 1)
						go func() { vch <- vr{win.VerifyExpiryReplayProtection(ctx, c)} }()
						var verr error
						select {
						case x := <-vch: // the verification did not wait for the accept
							verr = x.err
							close(release)
						case <-time.After(40 * time.Millisecond): // it is waiting for the accept: let the accept finish
							close(release)
							verr = (<-vch).err
						}
						<-accDone
						lastAcc = b
						lines = append(lines, map[string]any{"ev": "accept", "id": b.name})
						res := "ok"
						switch {
						case verr == nil:
							idx.m[c.id] = c
							verified = append(verified, c)
						case errors.Is(verr, validitywindow.ErrDuplicateContainer):
							res = "duplicate"
						default:
							res = "error:" + verr.Error()
						}
						lines = append(lines, map[string]any{"ev": "verify", "id": c.name, "parent": c.pname, "h": c.height, "ts": c.ts, "txs": txRecs(c.txs), "res": res, "during_accept": true})
						continue
					}
				}
				win.Accept(b)
				lastAcc = b
				lines = append(lines, map[string]any{"ev": "accept", "id": b.name})
			case x < 19: // builder-side filter on top of some verified block at or above the tip
				var cands []*vwBlock
				for _, b := range verified {
					if live(b) {
						cands = append(cands, b)
					}
				}
				p := cands[r.Intn(len(cands))]
				ts := p.ts + int64(r.Intn(3))
				if ts == 0 {
					ts = 1
				}
				var txs []*vwTx
				for _, tx := range pool {
					if tx.expiry >= ts && tx.expiry <= ts+W && r.Intn(2) == 0 {
						txs = append(txs, tx)
					}
				}
				if len(txs) == 0 {
					continue
				}
				bits, err := win.IsRepeat(ctx, p, ts, txs)
				marked := []string{}
				if err == nil {
					for j, tx := range txs {
						if bits.Contains(j) {
							marked = append(marked, tx.name)
						}
					}
				}
				res := "ok"
				if err != nil {
					res = "error:" + err.Error()
				}
				lines = append(lines, map[string]any{"ev": "isrepeat", "parent": p.name, "ts": ts, "txs": txRecs(txs), "marked": marked, "res": res})
			default: // restart: a fresh window populated from the index
				win = newWindow(lastAcc)
				lines = append(lines, map[string]any{"ev": "restart", "head": lastAcc.name})
			}
		}
		f, err := os.Create(filepath.Join(dir, fmt.Sprintf("sc%05d.ndjson", s)))
		if err != nil {
			t.Fatal(err)
		}
		enc := json.NewEncoder(f)
		for _, l := range lines {
			if err := enc.Encode(l); err != nil {
				t.Fatal(err)
			}
		}
		f.Close()
	}
}
