//go:build verif

// Driver for C22 (see /verif/DESIGN.md): the real Syncer + BlockFetcherClient + TimeValidityWindow against a
// scripted network. Honest answers are produced by the real BlockFetcherHandler over the true chain; the script
// mutates them (partial, truncated bytes, forged block, reordered, swapped, other height, fork, empty, error,
// no peer, slow). Every FetchBlocksFromPeer call, every SaveHistorical call and the final state (done or watchdog,
// IsRepeat answers for every known transaction) are recorded as ndjson and validated against
// spec/Backfill_Trace.tla. Nothing is asserted here: the specification decides.
package validitywindow_test

import (
	"context"
	"encoding/json"
	"errors"
	"fmt"
	"math/rand"
	"os"
	"path/filepath"
	"strconv"
	"sync"
	"testing"
	"time"

	"github.com/ava-labs/avalanchego/ids"
	"github.com/ava-labs/avalanchego/trace"
	"github.com/ava-labs/avalanchego/utils/hashing"
	"github.com/ava-labs/avalanchego/utils/logging"

	"github.com/ava-labs/hypersdk/internal/validitywindow"
)

const bfWatchdog = 30 * time.Second // backfill normally needs a few 500 ms rounds

func bfEnvInt(name string, def int) int {
	if v, err := strconv.Atoi(os.Getenv(name)); err == nil {
		return v
	}
	return def
}

type bfTx struct {
	N      int   `json:"n"`
	Expiry int64 `json:"e"`
}

func (t bfTx) GetID() ids.ID    { return hashing.ComputeHash256Array([]byte("tx-" + strconv.Itoa(t.N))) }
func (t bfTx) GetExpiry() int64 { return t.Expiry }

type bfWire struct {
	Parent string `json:"p"`
	Height uint64 `json:"h"`
	Ts     int64  `json:"t"`
	Txs    []bfTx `json:"x"`
	Salt   int    `json:"s"`
}

type bfBlock struct {
	id, parent ids.ID
	wire       bfWire
	bytes      []byte
}

func (b *bfBlock) GetID() ids.ID         { return b.id }
func (b *bfBlock) GetParent() ids.ID     { return b.parent }
func (b *bfBlock) GetTimestamp() int64   { return b.wire.Ts }
func (b *bfBlock) GetHeight() uint64     { return b.wire.Height }
func (b *bfBlock) GetBytes() []byte      { return b.bytes }
func (b *bfBlock) GetContainers() []bfTx { return b.wire.Txs }
func (b *bfBlock) Contains(id ids.ID) bool {
	for _, t := range b.wire.Txs {
		if t.GetID() == id {
			return true
		}
	}
	return false
}

func bfMake(parent ids.ID, h uint64, ts int64, txs []bfTx, salt int) *bfBlock {
	w := bfWire{Parent: parent.String(), Height: h, Ts: ts, Txs: txs, Salt: salt}
	raw, _ := json.Marshal(w)
	return &bfBlock{id: hashing.ComputeHash256Array(raw), parent: parent, wire: w, bytes: raw}
}

// the id of a block is the hash of its bytes: nothing a peer sends can claim somebody else's id
func bfParse(raw []byte) (*bfBlock, error) {
	var w bfWire
	if err := json.Unmarshal(raw, &w); err != nil {
		return nil, err
	}
	p, err := ids.FromString(w.Parent)
	if err != nil {
		return nil, err
	}
	return &bfBlock{id: hashing.ComputeHash256Array(raw), parent: p, wire: w, bytes: raw}, nil
}

type bfParser struct{}

func (bfParser) ParseBlock(_ context.Context, raw []byte) (validitywindow.ExecutionBlock[bfTx], error) {
	return bfParse(raw)
}

type bfChainIndex struct {
	mu sync.Mutex
	m  map[ids.ID]*bfBlock
}

func (c *bfChainIndex) GetExecutionBlock(_ context.Context, id ids.ID) (validitywindow.ExecutionBlock[bfTx], error) {
	c.mu.Lock()
	defer c.mu.Unlock()
	if b, ok := c.m[id]; ok {
		return b, nil
	}
	return nil, errors.New("block not found")
}

// what honest peers serve from: the true chain by height
type bfRetriever struct{ chain []*bfBlock }

func (r bfRetriever) GetBlockByHeight(_ context.Context, h uint64) (validitywindow.ExecutionBlock[bfTx], error) {
	if h >= uint64(len(r.chain)) {
		return nil, errors.New("no such height")
	}
	return r.chain[h], nil
}

type bfScenario struct {
	mu      sync.Mutex
	lines   []map[string]any
	chain   []*bfBlock
	bid     map[ids.ID]int // small ids for the log: true block = its height, anything else 100, 101, ...
	nextBid int
	script  []string
	handler *validitywindow.BlockFetcherHandler[validitywindow.ExecutionBlock[bfTx]]
	fork    []*bfBlock
	rng     *rand.Rand
	// forward syncing: blocks above the initial target are handed to UpdateSyncTarget by "update" script entries,
	// executed while the client goroutine waits inside FetchBlocksFromPeer (so they never race with its block loop)
	update  func(h int) error
	tgt     int
	tailPos int
}

func (s *bfScenario) log(m map[string]any) {
	s.mu.Lock()
	s.lines = append(s.lines, m)
	s.mu.Unlock()
}

func (s *bfScenario) bidOf(id ids.ID) int {
	if id == ids.Empty {
		return -1
	}
	if v, ok := s.bid[id]; ok {
		return v
	}
	s.nextBid++
	s.bid[id] = s.nextBid
	return s.nextBid
}

func (s *bfScenario) describe(raws [][]byte) []map[string]any {
	out := make([]map[string]any, 0, len(raws))
	for _, raw := range raws {
		b, err := bfParse(raw)
		if err != nil {
			out = append(out, map[string]any{"id": 99, "parent": 99, "h": 0, "ts": 0, "ok": false})
			continue
		}
		out = append(out, map[string]any{"id": s.bidOf(b.id), "parent": s.bidOf(b.parent), "h": int(b.wire.Height), "ts": b.wire.Ts, "ok": true})
	}
	return out
}

func (s *bfScenario) nextBehaviour() string {
	s.mu.Lock()
	defer s.mu.Unlock()
	if len(s.script) == 0 {
		return "honest"
	}
	b := s.script[0]
	s.script = s.script[1:]
	return b
}

func (s *bfScenario) peekBehaviour() string {
	s.mu.Lock()
	defer s.mu.Unlock()
	if len(s.script) == 0 {
		return "honest"
	}
	return s.script[0]
}

// p2p.NodeSampler
func (s *bfScenario) Sample(_ context.Context, _ int) []ids.NodeID {
	s.runUpdates()
	if s.peekBehaviour() == "nopeer" {
		s.nextBehaviour()
		s.log(map[string]any{"ev": "nopeer"})
		return nil
	}
	return []ids.NodeID{ids.GenerateTestNodeID()}
}

func (s *bfScenario) honest(ctx context.Context, nodeID ids.NodeID, req *validitywindow.BlockFetchRequest) ([][]byte, error) {
	raw, appErr := s.handler.AppRequest(ctx, nodeID, time.Time{}, req.MarshalCanoto())
	if appErr != nil {
		return nil, appErr
	}
	resp := new(validitywindow.BlockFetchResponse)
	if err := resp.UnmarshalCanoto(raw); err != nil {
		return nil, err
	}
	return resp.Blocks, nil
}

// validitywindow.NetworkBlockFetcher
func (s *bfScenario) runUpdates() {
	for s.peekBehaviour() == "update" {
		s.nextBehaviour()
		s.mu.Lock()
		if s.tgt+1 >= len(s.chain) {
			s.mu.Unlock()
			continue
		}
		s.tgt++
		h := s.tgt
		s.mu.Unlock()
		err := s.update(h)
		l := map[string]any{"ev": "update", "h": h, "err": "none"}
		if err != nil {
			l["err"] = err.Error()
		}
		s.log(l)
	}
}

func (s *bfScenario) FetchBlocksFromPeer(ctx context.Context, nodeID ids.NodeID, req *validitywindow.BlockFetchRequest) (*validitywindow.BlockFetchResponse, error) {
	s.runUpdates()
	beh := s.nextBehaviour()
	h := -1
	if req.BlockHeight < 1<<20 {
		h = int(req.BlockHeight)
	}
	blocks, err := s.honest(ctx, nodeID, req)
	switch beh {
	case "honest":
	case "error":
		blocks, err = nil, errors.New("peer error")
	case "empty":
		blocks, err = [][]byte{}, nil
	case "slow":
		<-ctx.Done() // the client's per-request timeout (1 s)
		blocks, err = nil, ctx.Err()
	case "otherheight":
		r2 := &validitywindow.BlockFetchRequest{BlockHeight: req.BlockHeight + 1, MinTimestamp: req.MinTimestamp}
		if s.rng.Intn(2) == 0 && req.BlockHeight > 0 {
			r2.BlockHeight = req.BlockHeight - 1
		}
		blocks, err = s.honest(ctx, nodeID, r2)
	case "fork":
		blocks, err = nil, nil
		for i := len(s.fork) - 1; i >= 0; i-- {
			if s.fork[i].wire.Height <= req.BlockHeight {
				blocks = append(blocks, s.fork[i].bytes)
			}
		}
	default:
		if err == nil && len(blocks) > 0 {
			j := s.rng.Intn(len(blocks))
			switch beh {
			case "partial":
				blocks = blocks[:1+s.rng.Intn(len(blocks))]
			case "truncated":
				blocks[j] = blocks[j][:len(blocks[j])/2]
			case "forged":
				if b, perr := bfParse(blocks[j]); perr == nil {
					f := bfMake(b.parent, b.wire.Height, b.wire.Ts, []bfTx{{N: 900 + int(b.wire.Height), Expiry: 1 << 40}}, 1)
					blocks[j] = f.bytes
				}
			case "reordered":
				for a, b := 0, len(blocks)-1; a < b; a, b = a+1, b-1 {
					blocks[a], blocks[b] = blocks[b], blocks[a]
				}
			case "swapped":
				if len(blocks) >= 2 {
					blocks[0], blocks[1] = blocks[1], blocks[0]
				}
			case "tail-garbage", "tail-forged", "tail-otherheight":
				// a correctly linked prefix followed by a bad block at position s.tailPos (1-based, >= 2 when possible)
				k := s.tailPos
				if k >= len(blocks) {
					k = len(blocks) - 1
				}
				if k < 0 {
					k = 0
				}
				switch beh {
				case "tail-garbage":
					blocks[k] = []byte("{not a block")
				case "tail-forged":
					if b, perr := bfParse(blocks[k]); perr == nil {
						blocks[k] = bfMake(b.parent, b.wire.Height, b.wire.Ts, []bfTx{{N: 900 + int(b.wire.Height), Expiry: 1 << 40}}, 3).bytes
					}
				case "tail-otherheight":
					blocks = append(blocks[:k], blocks[k+1:]...) // the block at this position is missing: the next one does not link
				}
			case "dup":
				blocks = append([][]byte{blocks[0]}, blocks...)
			}
		}
	}
	if err != nil {
		s.log(map[string]any{"ev": "resp", "beh": beh, "h": h, "blocks": []map[string]any{}, "err": err.Error()})
		return nil, err
	}
	s.log(map[string]any{"ev": "resp", "beh": beh, "h": h, "blocks": s.describe(blocks)})
	return &validitywindow.BlockFetchResponse{Blocks: blocks}, nil
}

// validitywindow.BlockStore
func (s *bfScenario) SaveHistorical(blk validitywindow.ExecutionBlock[bfTx]) error {
	s.log(map[string]any{"ev": "save", "id": s.bidOf(blk.GetID()), "parent": s.bidOf(blk.GetParent()), "h": int(blk.GetHeight()),
		"ts": blk.GetTimestamp(), "ok": true})
	return nil
}

var bfBehaviours = []string{"partial", "truncated", "forged", "tail-garbage", "tail-forged", "tail-otherheight", "reordered", "swapped", "dup", "otherheight", "fork", "empty", "error", "nopeer"}

func bfRunScenario(seed int64, idx int, tier string, dir string) error {
	rng := rand.New(rand.NewSource(seed*7_000_003 + int64(idx)))
	s := &bfScenario{bid: map[ids.ID]int{}, nextBid: 99, rng: rng}
	n0 := 2 + rng.Intn(6) // height of the initial sync target
	nf := rng.Intn(3)     // blocks consensus delivers while the backfill runs
	have := rng.Intn(3)   // ancestors of the target the node already has
	tailScenario := idx%4 == 1
	if tailScenario { // long answers: 7-8 blocks to fetch
		n0, nf, have = 7+rng.Intn(2), 0, 0
	}
	n := n0 + nf
	if have > n0-1 {
		have = n0 - 1
	}
	win := int64([]int{1, 2, 3, 5, 8, 1000}[rng.Intn(6)]) // 1000: the chain is younger than the window
	if tailScenario {
		win = 1000
	}
	// timestamps: non-decreasing, blocks may share a timestamp; often the oldest block the node has shares its
	// timestamp with its parent (and grand-parent)
	tss := make([]int64, n+1)
	tss[0] = int64(rng.Intn(3))
	eq := rng.Intn(3) == 0
	for h := 1; h <= n0; h++ {
		tss[h] = tss[h-1] + int64([]int{0, 1, 1, 2, 3, 5}[rng.Intn(6)])
		if eq && (h == n0-have || h == n0-have-1) {
			tss[h] = tss[h-1]
		}
	}
	// what populate will make the oldest linked block: walk down from the target through the held blocks
	minTS0 := tss[n0] - win
	o := n0 - have
	for h := n0; h >= n0-have; h-- {
		if tss[h] < minTS0 {
			o = h
			break
		}
	}
	// forward blocks: exactly one window after the oldest held block, one tick more, one tick less, or close by
	for h := n0 + 1; h <= n; h++ {
		var t int64
		switch rng.Intn(5) {
		case 0, 1:
			t = tss[o] + win
		case 2:
			t = tss[o] + win + 1
		case 3:
			t = tss[o] + win - 1
		default:
			t = tss[h-1] + int64(rng.Intn(3))
		}
		if t < tss[h-1] {
			t = tss[h-1]
		}
		tss[h] = t
	}
	txn := 0
	txsLog := make([][]int, n+1)
	parent := ids.Empty
	for h := 0; h <= n; h++ {
		var txs []bfTx
		txsLog[h] = []int{}
		for k := rng.Intn(3); k > 0 && h > 0; k-- {
			txn++
			txs = append(txs, bfTx{N: txn, Expiry: 1 << 40})
			txsLog[h] = append(txsLog[h], txn)
		}
		b := bfMake(parent, uint64(h), tss[h], txs, 0)
		s.chain = append(s.chain, b)
		s.bid[b.id] = h
		parent = b.id
	}
	// a fork that shares genesis and has the same heights and timestamps but other transactions
	fp := s.chain[0].id
	for h := 1; h <= n; h++ {
		b := bfMake(fp, uint64(h), tss[h], []bfTx{{N: 800 + h, Expiry: 1 << 40}}, 2)
		s.fork = append(s.fork, b)
		fp = b.id
	}
	target := s.chain[n0]
	s.tgt = n0
	ci := &bfChainIndex{m: map[ids.ID]*bfBlock{}}
	for h := n0 - have; h <= n0; h++ {
		ci.m[s.chain[h].id] = s.chain[h]
	}
	for k := rng.Intn(5); k > 0; k-- {
		s.script = append(s.script, bfBehaviours[rng.Intn(len(bfBehaviours))])
	}
	if tier == "thorough" && rng.Intn(10) == 0 {
		s.script = append(s.script, "slow")
	}
	for k := 0; k < nf; k++ { // the forward blocks arrive at random points of the script (mostly early)
		at := 0
		if len(s.script) > 0 && rng.Intn(3) == 0 {
			at = rng.Intn(len(s.script) + 1)
		}
		s.script = append(s.script[:at], append([]string{"update"}, s.script[at:]...)...)
	}
	if idx%4 == 1 {
		// dedicated: good linked prefix + bad tail at a chosen position, then honest (partial) answers
		kinds := []string{"tail-garbage", "tail-forged", "tail-otherheight"}
		s.tailPos = 1 + (idx/4)%5
		s.script = []string{kinds[(idx/12)%3]}
		if (idx/4)%2 == 0 {
			s.script = append(s.script, "partial", "partial")
		}
	}
	s.handler = validitywindow.NewBlockFetcherHandler[validitywindow.ExecutionBlock[bfTx]](bfRetriever{chain: s.chain})
	s.log(map[string]any{"ev": "reset", "sc": idx, "n": n, "n0": n0, "win": win, "ts": tss, "have": have, "txs": txsLog, "script": append([]string{"-"}, s.script...)})

	ctx, cancel := context.WithCancel(context.Background())
	defer cancel()
	winF := func(int64) int64 { return win }
	tvw, err := validitywindow.NewTimeValidityWindow[bfTx](ctx, &logging.NoLog{}, trace.Noop, ci, target, winF)
	if err != nil {
		return err
	}
	client := validitywindow.NewBlockFetcherClient[validitywindow.ExecutionBlock[bfTx]](s, bfParser{}, s)
	syncer := validitywindow.NewSyncer[bfTx, validitywindow.ExecutionBlock[bfTx]](s, tvw, client, winF)
	s.update = func(h int) error { return syncer.UpdateSyncTarget(ctx, s.chain[h]) }
	if err := syncer.Start(ctx, target); err != nil {
		return err
	}
	wctx, wcancel := context.WithTimeout(ctx, bfWatchdog)
	werr := syncer.Wait(wctx)
	wcancel()
	done := werr == nil
	cancel() // stops a client that is still polling
	time.Sleep(20 * time.Millisecond)

	// what the validity window now treats as seen: every transaction of the true chain, of the fork, of forged
	// blocks, and one that was never in any block
	universe := []int{}
	var items []bfTx
	for i := 1; i <= txn; i++ {
		universe = append(universe, i)
	}
	for h := 1; h <= n; h++ {
		universe = append(universe, 800+h, 900+h)
	}
	universe = append(universe, 900, 999)
	for _, u := range universe {
		items = append(items, bfTx{N: u, Expiry: 1 << 40})
	}
	s.mu.Lock()
	cur := s.chain[s.tgt]
	s.mu.Unlock()
	bits, rerr := tvw.IsRepeat(context.Background(), cur, cur.GetTimestamp(), items)
	tracked := []int{}
	if rerr == nil {
		for i, u := range universe {
			if bits.Contains(i) {
				tracked = append(tracked, u)
			}
		}
	}
	e := map[string]any{"ev": "end", "done": done, "tracked": tracked, "universe": universe, "err": "none"}
	if rerr != nil {
		e["err"] = rerr.Error()
		e["tracked"] = []int{-1}
	}
	if werr != nil && !errors.Is(werr, context.DeadlineExceeded) {
		e["err"] = werr.Error()
	}
	s.log(e)

	f, err := os.Create(filepath.Join(dir, fmt.Sprintf("sc%05d.ndjson", idx)))
	if err != nil {
		return err
	}
	defer f.Close()
	enc := json.NewEncoder(f)
	s.mu.Lock()
	defer s.mu.Unlock()
	for _, l := range s.lines {
		if err := enc.Encode(l); err != nil {
			return err
		}
	}
	return nil
}

func TestVerifBackfillRecord(t *testing.T) {
	dir := os.Getenv("VERIF_OUT")
	if dir == "" {
		t.Skip("VERIF_OUT not set")
	}
	seed := int64(bfEnvInt("VERIF_SEED", 1))
	n := bfEnvInt("VERIF_SCENARIOS", 32)
	only := bfEnvInt("VERIF_ONLY", -1)
	tier := os.Getenv("VERIF_TIER")
	// every retry round of the client sleeps 500 ms: run the scenarios side by side
	var wg sync.WaitGroup
	sem := make(chan struct{}, 64)
	errs := make(chan error, n)
	for i := 0; i < n; i++ {
		if only >= 0 && i != only {
			continue
		}
		wg.Add(1)
		sem <- struct{}{}
		go func(i int) {
			defer wg.Done()
			defer func() { <-sem }()
			if err := bfRunScenario(seed, i, tier, dir); err != nil {
				errs <- fmt.Errorf("scenario %d: %w", i, err)
			}
		}(i)
	}
	wg.Wait()
	close(errs)
	for err := range errs {
		t.Fatal(err)
	}
}
