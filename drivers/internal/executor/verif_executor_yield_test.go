//go:build verif

// Fine-grained schedule exploration for C08 (needs hooks/executor-yield.patch): executor.VerifYield parks every
// goroutine of the executor (the caller inside Run, the workers inside runTask, the closures) at its yield points; a
// seeded cooperative scheduler resumes one parked goroutine at a time (uniformly, or starving one kind of yield point
// so that the goroutines parked there are overtaken by everybody else).  Many schedules are run per task list.  The
// recorded run/start/end/Stop/Wait events are validated by TLC against ConflictOrder exactly like the gate-level runs.
package executor_test

import (
	"encoding/json"
	"errors"
	"fmt"
	"math/rand"
	"os"
	"path/filepath"
	"strconv"
	"sync"
	"sync/atomic"
	"testing"
	"time"

	"github.com/ava-labs/hypersdk/internal/executor"
	"github.com/ava-labs/hypersdk/state"
)

type yG struct {
	point  string
	task   int
	resume chan struct{}
}

type ySched struct {
	mu      sync.Mutex
	parked  []*yG
	arrive  chan struct{}
	off     atomic.Bool
	rng     *rand.Rand
	starve  string // yield point whose goroutines are resumed only when nobody else can move
	steps   int
	overtak int // resumptions that overtook a starved goroutine
	// recording order of failures: only one goroutine at a time is let through "task.fail" (the point just before the
	// error is recorded); rec_begin is logged before it is resumed, rec_end when it reached its next yield point
	casTask int // executor task id inside that window, -1 if none
	log     func(map[string]any)
}

func (s *ySched) hook(point string, task int) {
	if s.off.Load() {
		return
	}
	g := &yG{point, task, make(chan struct{})}
	s.mu.Lock()
	if s.casTask == task && point != "task.fail" && point != "f.mid" {
		s.log(map[string]any{"ev": "rec_end", "i": task + 1}) // the error of this task has been recorded by now
		s.casTask = -1
	}
	s.parked = append(s.parked, g)
	s.mu.Unlock()
	select {
	case s.arrive <- struct{}{}:
	default:
	}
	<-g.resume
}

// pick removes and returns one parked goroutine; lastResort allows a starved one
func (s *ySched) pick(lastResort bool) *yG {
	s.mu.Lock()
	defer s.mu.Unlock()
	var cand []int
	starved := 0
	for i, g := range s.parked {
		if g.point == "task.fail" && s.casTask >= 0 {
			continue // another failure is being recorded
		}
		if g.point == s.starve {
			starved++
			continue
		}
		cand = append(cand, i)
	}
	if len(cand) == 0 {
		if !lastResort || len(s.parked) == 0 {
			return nil
		}
		for i, g := range s.parked {
			if g.point == "task.fail" && s.casTask >= 0 {
				continue
			}
			cand = append(cand, i)
		}
		if len(cand) == 0 {
			return nil
		}
	} else if starved > 0 {
		s.overtak++
	}
	i := cand[s.rng.Intn(len(cand))]
	g := s.parked[i]
	s.parked = append(s.parked[:i], s.parked[i+1:]...)
	s.steps++
	if g.point == "task.fail" {
		s.casTask = g.task
		s.log(map[string]any{"ev": "rec_begin", "i": g.task + 1})
	}
	return g
}

func (s *ySched) releaseAll() {
	s.off.Store(true)
	s.mu.Lock()
	for _, g := range s.parked {
		close(g.resume)
	}
	s.parked = nil
	s.mu.Unlock()
}

// run resumes parked goroutines one at a time until done is closed
func (s *ySched) run(done <-chan struct{}) {
	quiet := 0
	for {
		select {
		case <-done:
			return
		case <-s.arrive:
			// let goroutines woken by the same step reach their yield points too
			time.Sleep(20 * time.Microsecond)
			quiet = 0
		case <-time.After(300 * time.Microsecond):
			quiet++
		}
		if g := s.pick(quiet >= 2); g != nil {
			close(g.resume)
		}
	}
}

type yScenario struct {
	xScenario
	MaxDeps int    `json:"maxdeps"`
	StopAt  int    `json:"stopat"` // Stop is called before Run of this task (0: never)
	Starve  string `json:"starve"`
}

type yFileLog struct {
	mu sync.Mutex
	f  *os.File
	n  int
}

func (l *yFileLog) add(m map[string]any) {
	b, _ := json.Marshal(m)
	l.mu.Lock()
	l.f.Write(append(b, '\n')) // unbuffered: the trace survives a crash of the test binary
	l.n++
	l.mu.Unlock()
}

func runYieldScenario(sc yScenario, idx int, seed int64, out string, watchdog time.Duration) (hung bool, steps, overtaken int) {
	f, err := os.Create(filepath.Join(out, fmt.Sprintf("ey%05d.ndjson", idx)))
	if err != nil {
		panic(err)
	}
	defer f.Close()
	log := &yFileLog{f: f}
	n := len(sc.Keys)
	keys := make([]any, 0, n)
	for _, m := range sc.Keys {
		o := map[string]any{}
		for k, p := range m {
			if p == "r" {
				o[k] = "r"
			} else {
				o[k] = "w"
			}
		}
		keys = append(keys, o)
	}
	log.add(map[string]any{"ev": "reset", "n": n, "workers": sc.Workers, "keys": keys, "sc": idx, "label": sc.Label,
		"maxdeps": sc.MaxDeps, "starve": sc.Starve})
	s := &ySched{arrive: make(chan struct{}, 1), rng: rand.New(rand.NewSource(seed)), starve: sc.Starve, casTask: -1,
		log: log.add}
	executor.VerifYield = s.hook
	e := executor.New(n, sc.Workers, int64(sc.MaxDeps), nil)
	done := make(chan struct{})
	go s.run(done)
	fin := make(chan struct{})
	go func() {
		defer close(fin)
		for i := 1; i <= n; i++ {
			if sc.StopAt == i {
				log.add(map[string]any{"ev": "stop_call"})
				e.Stop()
				log.add(map[string]any{"ev": "stop_ret"})
			}
			ks := state.Keys{}
			for k, p := range sc.Keys[i-1] {
				ks[k] = xPerms[p]
			}
			ti, fail := i, sc.Fails[i-1]
			log.add(map[string]any{"ev": "run", "i": ti})
			e.Run(ks, func() error {
				log.add(map[string]any{"ev": "start", "i": ti})
				s.hook("f.mid", ti)
				if fail {
					log.add(map[string]any{"ev": "end", "i": ti, "res": "fail"})
					return &xTaskErr{ti}
				}
				log.add(map[string]any{"ev": "end", "i": ti, "res": "ok"})
				return nil
			})
		}
		log.add(map[string]any{"ev": "wait_call"})
		err := e.Wait()
		m := map[string]any{"ev": "wait_ret", "res": "nil", "ei": 0}
		var te *xTaskErr
		switch {
		case err == nil:
		case errors.Is(err, executor.ErrStopped):
			m["res"] = "stopped"
		case errors.As(err, &te):
			m["res"], m["ei"] = "err", te.i
		default:
			m["res"] = "other"
		}
		log.add(m)
	}()
	select {
	case <-fin:
		log.add(map[string]any{"ev": "fin"})
	case <-time.After(watchdog):
		log.add(map[string]any{"ev": "hang", "what": "wait"})
		hung = true
	}
	close(done)
	s.releaseAll()
	executor.VerifYield = nil
	return hung, s.steps, s.overtak
}

var yPoints = []string{"", "", "task.done", "task.done", "task.done", "task.fail", "task.fail", "f.mid", "run.finish", "run.finish", "task.notify", "task.release", "task.fail",
	"task.check", "task.exec", "run.lock", "f.mid"}

func genYieldList(rng *rand.Rand) yScenario {
	sc := yScenario{}
	sc.Workers = 1 + rng.Intn(4)
	n := 2 + rng.Intn(5)
	nkeys := 1 + rng.Intn(3)
	failing := rng.Intn(100) < 50
	sameOwner := nkeys >= 2 && rng.Intn(3) == 0
	for i := 0; i < n; i++ {
		m := map[string]string{}
		if sameOwner && i == 0 {
			for k := 1; k <= nkeys; k++ {
				m[strconv.Itoa(k)] = "w"
			}
		} else {
			cnt := 1 + rng.Intn(nkeys)
			for len(m) < cnt {
				m[strconv.Itoa(1+rng.Intn(nkeys))] = []string{"r", "r", "w", "a", "all"}[rng.Intn(5)]
			}
		}
		sc.Keys = append(sc.Keys, m)
		sc.Fails = append(sc.Fails, failing && rng.Intn(100) < 30)
	}
	sc.MaxDeps = n + 1
	if rng.Intn(100) < 20 {
		sc.StopAt = 1 + rng.Intn(n)
	}
	return sc
}

// task lists in which every task has at most (and some exactly) MaxDeps dependencies: New's documented assumption
// "no single task has more than maxDependencies" holds with equality
func boundaryYieldLists() []yScenario {
	w := func(ks ...string) map[string]string {
		m := map[string]string{}
		for _, k := range ks {
			m[k] = "w"
		}
		return m
	}
	mk := func(label string, workers, maxDeps int, keys ...map[string]string) yScenario {
		sc := yScenario{MaxDeps: maxDeps}
		sc.Workers, sc.Label, sc.Keys = workers, label, keys
		sc.Fails = make([]bool, len(keys))
		return sc
	}
	return []yScenario{
		mk("boundary-writer-chain-maxdeps-1", 2, 1, w("1"), w("1"), w("1"), w("1")),
		mk("boundary-two-owners-maxdeps-2", 3, 2, w("1"), w("2"), w("1", "2"), w("1"), w("2")),
		mk("boundary-writer-chain-1-worker", 1, 1, w("1"), w("1"), w("1")),
	}
}

// task lists with a failing task followed by conflicting successors (and an independent task): the successors must
// be skipped whatever the interleaving of the failing task's clean-up with the workers that pick them up
func failureYieldLists() []yScenario {
	mk := func(label string, workers int, fails []bool, keys ...map[string]string) yScenario {
		sc := yScenario{MaxDeps: len(keys) + 1}
		sc.Workers, sc.Label, sc.Keys, sc.Fails = workers, label, keys, fails
		return sc
	}
	k := func(kv ...string) map[string]string {
		m := map[string]string{}
		for i := 0; i+1 < len(kv); i += 2 {
			m[kv[i]] = kv[i+1]
		}
		return m
	}
	stopAt := func(sc yScenario, at int) yScenario {
		sc.StopAt = at
		return sc
	}
	return []yScenario{
		mk("failure-writer-chain", 2, []bool{true, false, false}, k("1", "w"), k("1", "w"), k("1", "w")),
		mk("failure-then-readers", 3, []bool{true, false, false, false}, k("1", "w"), k("1", "r"), k("1", "r"), k("2", "w")),
		mk("failure-of-reader-then-writer", 3, []bool{false, true, false, false}, k("1", "w", "2", "w"), k("1", "r"), k("1", "w"),
			k("2", "r")),
		mk("failure-two-independent", 3, []bool{true, true, false}, k("1", "w"), k("2", "w"), k("3", "w")),
		mk("failure-three-independent-readers", 4, []bool{true, true, true, false}, k("1", "r"), k("1", "r"), k("2", "w"), k("3", "w")),
		stopAt(mk("failure-after-stop", 2, []bool{true, false, false}, k("1", "w"), k("2", "w"), k("1", "w")), 2),
		stopAt(mk("failure-after-stop-2", 3, []bool{false, true, true}, k("1", "w"), k("2", "w"), k("3", "w")), 3),
		mk("failure-two-keys", 4, []bool{true, false, false, false}, k("1", "w", "2", "w"), k("1", "r", "2", "w"), k("1", "w"),
			k("2", "w")),
	}
}

func TestVerifExecutorYield(t *testing.T) {
	out := os.Getenv("VERIF_OUT")
	if out == "" {
		t.Skip("VERIF_OUT not set")
	}
	seed, _ := strconv.ParseInt(os.Getenv("VERIF_SEED"), 10, 64)
	lists, _ := strconv.Atoi(os.Getenv("VERIF_LISTS"))
	if lists == 0 {
		lists = 20
	}
	per, _ := strconv.Atoi(os.Getenv("VERIF_SCHEDULES"))
	if per == 0 {
		per = 10
	}
	boundary := os.Getenv("VERIF_BOUNDARY") != "0"
	wd, _ := strconv.Atoi(os.Getenv("VERIF_WATCHDOG_S"))
	if wd == 0 {
		wd = 30
	}
	only := -1
	if s := os.Getenv("VERIF_ONLY"); s != "" {
		only, _ = strconv.Atoi(s)
	}
	var all []yScenario
	if boundary {
		all = append(all, boundaryYieldLists()...)
	}
	all = append(all, failureYieldLists()...)
	nb := len(all)
	lrng := rand.New(rand.NewSource(seed*7_000_003 + 11))
	for i := 0; i < lists; i++ {
		all = append(all, genYieldList(lrng))
	}
	hangs := []int{}
	written, steps, overtaken := 0, 0, 0
	idx := 0
loop:
	for li, base := range all {
		reps := per
		if li < nb {
			reps = per * 3
		}
		for r := 0; r < reps; r++ {
			i := idx
			idx++
			if only >= 0 && i != only {
				continue
			}
			sc := base
			sseed := seed*1_000_003 + int64(i)
			srng := rand.New(rand.NewSource(sseed))
			sc.Starve = yPoints[srng.Intn(len(yPoints))]
			hung, st, ov := runYieldScenario(sc, i, sseed, out, time.Duration(wd)*time.Second)
			written++
			steps += st
			overtaken += ov
			if hung {
				hangs = append(hangs, i)
				break loop
			}
		}
	}
	b, _ := json.Marshal(map[string]any{"scenarios": written, "hangs": hangs, "steps": steps, "overtaken": overtaken})
	if err := os.WriteFile(filepath.Join(out, "ey_summary.json"), b, 0o644); err != nil {
		t.Fatal(err)
	}
}
