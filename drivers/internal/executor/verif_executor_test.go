//go:build verif

// Driver for C08 (see /verif/DESIGN.md): runs the real executor with closures that log start/end and block on
// gates; a seeded controller (or a script taken from a TLC behaviour of spec/ConflictOrder.tla) decides when the
// next task is handed to Run, which gate is opened next, when Stop and Wait are called.  The totally ordered
// event log is written as ndjson and validated by TLC against ConflictOrder.
package executor_test

import (
	"encoding/json"
	"errors"
	"fmt"
	"math/rand"
	"os"
	"path/filepath"
	"strconv"
	"sync"
	"testing"
	"time"

	"github.com/ava-labs/hypersdk/internal/executor"
	"github.com/ava-labs/hypersdk/state"
)

type xTaskErr struct{ i int }

func (e *xTaskErr) Error() string { return fmt.Sprintf("task %d failed", e.i) }

type xLog struct {
	mu    sync.Mutex
	lines []map[string]any
}

func (l *xLog) add(m map[string]any) {
	l.mu.Lock()
	l.lines = append(l.lines, m)
	l.mu.Unlock()
}

func (l *xLog) n() int {
	l.mu.Lock()
	defer l.mu.Unlock()
	return len(l.lines)
}

type xStep struct {
	Op string `json:"op"` // run gate stop wait
	I  int    `json:"i"`
}

type xScenario struct {
	Workers int                 `json:"workers"`
	Keys    []map[string]string `json:"keys"` // per task: key id -> "r" | "a" | "w" | "rw" ...
	Fails   []bool              `json:"fails"`
	Script  []xStep             `json:"script"`
	Label   string              `json:"label"`
}

var xPerms = map[string]state.Permissions{
	"r": state.Read, "a": state.Allocate, "w": state.Write, "aw": state.Allocate | state.Write, "all": state.All,
}

type xRun struct {
	sc       xScenario
	log      *xLog
	e        *executor.Executor
	gates    []chan struct{}
	gateOpen []bool
	nextRun  int
	stopSt   string
	waitSt   string
	mu       sync.Mutex
	pend     map[string]bool
	async    sync.WaitGroup
}

func (r *xRun) settle() {
	last, quiet := r.log.n(), 0
	for i := 0; i < 200 && quiet < 4; i++ {
		time.Sleep(60 * time.Microsecond)
		if n := r.log.n(); n == last {
			quiet++
		} else {
			last, quiet = n, 0
		}
	}
}

func (r *xRun) spawn(name string, f func()) {
	r.mu.Lock()
	r.pend[name] = true
	r.mu.Unlock()
	r.async.Add(1)
	go func() {
		defer r.async.Done()
		f()
		r.mu.Lock()
		delete(r.pend, name)
		r.mu.Unlock()
	}()
}

func (r *xRun) run() {
	if r.nextRun > len(r.sc.Keys) || r.waitSt != "no" {
		return
	}
	i := r.nextRun
	r.nextRun++
	keys := state.Keys{}
	for k, p := range r.sc.Keys[i-1] {
		keys[k] = xPerms[p]
	}
	gate, fail := r.gates[i-1], r.sc.Fails[i-1]
	r.log.add(map[string]any{"ev": "run", "i": i})
	r.e.Run(keys, func() error {
		r.log.add(map[string]any{"ev": "start", "i": i})
		<-gate
		if fail {
			r.log.add(map[string]any{"ev": "end", "i": i, "res": "fail"})
			return &xTaskErr{i}
		}
		r.log.add(map[string]any{"ev": "end", "i": i, "res": "ok"})
		return nil
	})
}

func (r *xRun) gate(i int) {
	if i < 1 || i > len(r.gates) || r.gateOpen[i-1] {
		return
	}
	r.gateOpen[i-1] = true
	close(r.gates[i-1])
}

func (r *xRun) stop() {
	if r.stopSt != "idle" {
		return
	}
	r.stopSt = "called"
	r.spawn("stop", func() {
		r.log.add(map[string]any{"ev": "stop_call"})
		r.e.Stop()
		r.log.add(map[string]any{"ev": "stop_ret"})
	})
}

func (r *xRun) wait() {
	if r.waitSt != "no" {
		return
	}
	r.waitSt = "called"
	r.spawn("wait", func() {
		r.log.add(map[string]any{"ev": "wait_call"})
		err := r.e.Wait()
		m := map[string]any{"ev": "wait_ret", "res": "nil", "ei": 0}
		var te *xTaskErr
		switch {
		case err == nil:
		case errors.Is(err, executor.ErrStopped):
			m["res"] = "stopped"
		case errors.As(err, &te):
			m["res"], m["ei"] = "err", te.i
		default:
			m["res"] = "other"
		}
		r.log.add(m)
	})
}

func (r *xRun) apply(s xStep) {
	switch s.Op {
	case "run":
		r.run()
	case "gate":
		r.gate(s.I)
	case "stop":
		r.stop()
	case "wait":
		r.wait()
	}
	r.settle()
}

func (r *xRun) enabled() []xStep {
	var ops []xStep
	add := func(w int, s xStep) {
		for i := 0; i < w; i++ {
			ops = append(ops, s)
		}
	}
	started := map[int]bool{}
	r.log.mu.Lock()
	for _, l := range r.log.lines {
		if l["ev"] == "start" {
			started[l["i"].(int)] = true
		}
	}
	r.log.mu.Unlock()
	if r.nextRun <= len(r.sc.Keys) && r.waitSt == "no" {
		add(5, xStep{"run", 0})
	}
	for i := range r.gates {
		if r.gateOpen[i] {
			continue
		}
		if started[i+1] {
			add(3, xStep{"gate", i + 1})
		} else if i+1 < r.nextRun {
			add(1, xStep{"gate", i + 1}) // opened before the task starts: it will run through
		}
	}
	if r.waitSt == "no" && r.nextRun > len(r.sc.Keys) {
		add(2, xStep{"wait", 0})
	}
	if r.stopSt == "idle" && len(ops) > 0 {
		add(1, xStep{"stop", 0})
	}
	return ops
}

func runExecutorScenario(sc xScenario, idx int, rng *rand.Rand, watchdog time.Duration) ([]map[string]any, bool) {
	n := len(sc.Keys)
	r := &xRun{sc: sc, log: &xLog{}, nextRun: 1, stopSt: "idle", waitSt: "no", pend: map[string]bool{}}
	keys := make([]any, 0, n)
	for _, m := range sc.Keys {
		o := map[string]any{}
		for k, p := range m {
			if p == "r" {
				o[k] = "r"
			} else {
				o[k] = "w" // anything more than read access
			}
		}
		keys = append(keys, o)
	}
	r.log.add(map[string]any{"ev": "reset", "n": n, "workers": sc.Workers, "keys": keys, "sc": idx, "label": sc.Label})
	r.e = executor.New(n, sc.Workers, int64(n+1), nil)
	for i := 0; i < n; i++ {
		r.gates = append(r.gates, make(chan struct{}))
		r.gateOpen = append(r.gateOpen, false)
	}
	if sc.Script != nil {
		for _, s := range sc.Script {
			r.apply(s)
		}
	} else {
		stopAllowed := rng.Intn(100) < 30
		for step := 0; step < 80; step++ {
			ops := r.enabled()
			if !stopAllowed {
				k := ops[:0:0]
				for _, o := range ops {
					if o.Op != "stop" {
						k = append(k, o)
					}
				}
				ops = k
			}
			if len(ops) == 0 {
				break
			}
			r.apply(ops[rng.Intn(len(ops))])
		}
	}
	fin := make(chan struct{})
	go func() {
		defer close(fin)
		for r.nextRun <= n && r.waitSt == "no" {
			r.run()
		}
		r.wait()
		r.settle()
		order := rng.Perm(n)
		for _, i := range order {
			r.gate(i + 1)
			if rng.Intn(2) == 0 {
				r.settle()
			}
		}
		r.async.Wait()
	}()
	hung := false
	select {
	case <-fin:
		r.log.add(map[string]any{"ev": "fin"})
	case <-time.After(watchdog):
		r.mu.Lock()
		what := ""
		for k := range r.pend {
			if what == "" || k < what {
				what = k
			}
		}
		r.mu.Unlock()
		r.log.add(map[string]any{"ev": "hang", "what": what})
		hung = true
	}
	r.log.mu.Lock()
	lines := append([]map[string]any{}, r.log.lines...)
	r.log.mu.Unlock()
	return lines, hung
}

func genExecutorScenario(rng *rand.Rand) xScenario {
	sc := xScenario{Workers: []int{1, 2, 2, 3, 4, 8}[rng.Intn(6)]}
	n := 2 + rng.Intn(11)
	nkeys := 1 + rng.Intn(4)
	readHeavy := rng.Intn(3) == 0
	failing := rng.Intn(100) < 35
	sameOwner := nkeys >= 2 && rng.Intn(3) == 0 // first task owns every key: later tasks mix reads and writes of one owner
	for i := 0; i < n; i++ {
		m := map[string]string{}
		if sameOwner && i == 0 {
			for k := 1; k <= nkeys; k++ {
				m[strconv.Itoa(k)] = "w"
			}
			sc.Keys = append(sc.Keys, m)
			sc.Fails = append(sc.Fails, false)
			continue
		}
		cnt := 1 + rng.Intn(minInt(3, nkeys))
		for len(m) < cnt {
			k := strconv.Itoa(1 + rng.Intn(nkeys))
			p := []string{"r", "r", "w", "a", "aw", "all"}[rng.Intn(6)]
			if readHeavy && rng.Intn(3) != 0 {
				p = "r"
			}
			m[k] = p
		}
		sc.Keys = append(sc.Keys, m)
		sc.Fails = append(sc.Fails, failing && rng.Intn(100) < 20)
	}
	return sc
}

func minInt(a, b int) int {
	if a < b {
		return a
	}
	return b
}

func directedExecutorScenarios() []xScenario {
	return []xScenario{
		{Workers: 2, Label: "read-and-write-keys-owned-by-same-earlier-task",
			Keys:  []map[string]string{{"1": "w", "2": "w"}, {"1": "r", "2": "w"}, {"1": "w"}, {"2": "r"}},
			Fails: []bool{false, false, false, false},
			Script: []xStep{{"run", 0}, {"run", 0}, {"run", 0}, {"run", 0}, {"gate", 1}, {"gate", 2}, {"gate", 3},
				{"gate", 4}}},
		{Workers: 3, Label: "reader-finishes-while-writer-enqueues",
			Keys:  []map[string]string{{"1": "w"}, {"1": "r"}, {"1": "r"}, {"1": "w"}, {"1": "r"}},
			Fails: []bool{false, false, false, false, false},
			Script: []xStep{{"run", 0}, {"gate", 1}, {"run", 0}, {"run", 0}, {"gate", 2}, {"run", 0}, {"gate", 3},
				{"run", 0}, {"gate", 4}, {"gate", 5}}},
		{Workers: 2, Label: "failure-skips-conflicting-successors",
			Keys:  []map[string]string{{"1": "w"}, {"1": "w"}, {"2": "w"}, {"1": "r", "2": "r"}},
			Fails: []bool{true, false, false, false},
			Script: []xStep{{"run", 0}, {"run", 0}, {"run", 0}, {"run", 0}, {"gate", 3}, {"gate", 1}, {"gate", 2},
				{"gate", 4}}},
		{Workers: 2, Label: "stop-then-run",
			Keys:  []map[string]string{{"1": "w"}, {"2": "w"}, {"3": "w"}},
			Fails: []bool{false, false, false},
			Script: []xStep{{"run", 0}, {"stop", 0}, {"run", 0}, {"run", 0}, {"gate", 1}}},
	}
}

// Same-owner family: one task owns (writes) a pair of keys A and B; k pure readers of one of them are queued and held
// on their gates; then a task T that reads one key of the pair and writes the other is queued and released.  T may run
// only after all the readers of the key it writes finished.  Whether T meets its own reader entry before or after the
// other readers while it registers depends on Go's map iteration order, so the shape is repeated for several pairs
// per scenario and in several scenarios.
func sameOwnerScenarios() []xScenario {
	var out []xScenario
	for v := 0; v < 10; v++ {
		k := []int{2, 4, 6}[v%3] // readers per pair (one map bucket holds 8 entries: k readers + the task itself)
		pairs := 16 / (k + 2)
		if pairs > 4 {
			pairs = 4
		}
		sc := xScenario{Workers: 16, Label: fmt.Sprintf("same-owner-readers-then-read-write-task-%d", v)}
		var owners, readers, ts []int
		add := func(m map[string]string) int {
			sc.Keys = append(sc.Keys, m)
			sc.Fails = append(sc.Fails, false)
			return len(sc.Keys)
		}
		for p := 0; p < pairs; p++ {
			a, b := strconv.Itoa(2*p+1), strconv.Itoa(2*p+2)
			if v%2 == 1 {
				a, b = b, a
			}
			o := add(map[string]string{a: "w", b: []string{"w", "a", "all"}[v%3]})
			owners = append(owners, o)
			sc.Script = append(sc.Script, xStep{"run", 0})
			if v >= 5 { // the owner has finished before its readers are queued
				sc.Script = append(sc.Script, xStep{"gate", o})
			}
			for r := 0; r < k; r++ {
				readers = append(readers, add(map[string]string{b: "r"}))
				sc.Script = append(sc.Script, xStep{"run", 0})
			}
			ts = append(ts, add(map[string]string{a: "r", b: []string{"w", "aw", "a"}[(v/2)%3]}))
			sc.Script = append(sc.Script, xStep{"run", 0})
		}
		for _, o := range owners {
			sc.Script = append(sc.Script, xStep{"gate", o})
		}
		for _, t := range ts { // release the read+write tasks while the readers are still held
			sc.Script = append(sc.Script, xStep{"gate", t})
		}
		// readers finish latest-queued first: the read+write task may have registered on the later ones only
		for i := len(readers) - 1; i >= 0; i-- {
			sc.Script = append(sc.Script, xStep{"gate", readers[i]})
		}
		out = append(out, sc)
	}
	return out
}

func TestVerifExecutorRecord(t *testing.T) {
	out := os.Getenv("VERIF_OUT")
	if out == "" {
		t.Skip("VERIF_OUT not set")
	}
	seed, _ := strconv.ParseInt(os.Getenv("VERIF_SEED"), 10, 64)
	n, _ := strconv.Atoi(os.Getenv("VERIF_SCENARIOS"))
	if n == 0 {
		n = 50
	}
	wd, _ := strconv.Atoi(os.Getenv("VERIF_WATCHDOG_S"))
	if wd == 0 {
		wd = 30
	}
	only := -1
	if s := os.Getenv("VERIF_ONLY"); s != "" {
		only, _ = strconv.Atoi(s)
	}
	var scripted []xScenario
	if p := os.Getenv("VERIF_SCRIPTS"); p != "" {
		b, err := os.ReadFile(p)
		if err != nil {
			t.Fatal(err)
		}
		if err := json.Unmarshal(b, &scripted); err != nil {
			t.Fatal(err)
		}
	}
	directed := append(append(directedExecutorScenarios(), sameOwnerScenarios()...), scripted...)
	hangs := []int{}
	written := 0
	for i := 0; i < n; i++ {
		rng := rand.New(rand.NewSource(seed*1_000_003 + int64(i)))
		var sc xScenario
		if i < len(directed) {
			sc = directed[i]
		} else {
			sc = genExecutorScenario(rng)
		}
		if only >= 0 && i != only {
			continue
		}
		lines, hung := runExecutorScenario(sc, i, rng, time.Duration(wd)*time.Second)
		f, err := os.Create(filepath.Join(out, fmt.Sprintf("ex%05d.ndjson", i)))
		if err != nil {
			t.Fatal(err)
		}
		enc := json.NewEncoder(f)
		for _, l := range lines {
			if err := enc.Encode(l); err != nil {
				t.Fatal(err)
			}
		}
		f.Close()
		written++
		if hung {
			hangs = append(hangs, i)
			break // every further hang costs a full watchdog period
		}
	}
	b, _ := json.Marshal(map[string]any{"scenarios": written, "hangs": hangs})
	if err := os.WriteFile(filepath.Join(out, "ex_summary.json"), b, 0o644); err != nil {
		t.Fatal(err)
	}
}
