//go:build verif

// Driver for C25 (see /verif/DESIGN.md, /verif/spec/ExpirySet.tla): records every public call on a real
// eheap.ExpiryHeap and a real emap.EMap as ndjson (trace validation against the abstract ExpirySet) and
// replays the transition cover of the abstract state graph computed from TLC's output (mbt).
package eheap_test

import (
	"encoding/json"
	"fmt"
	"math/rand"
	"os"
	"path/filepath"
	"sort"
	"strconv"
	"strings"
	"testing"

	"github.com/ava-labs/avalanchego/ids"
	"github.com/ava-labs/avalanchego/utils/set"

	"github.com/ava-labs/hypersdk/internal/eheap"
	"github.com/ava-labs/hypersdk/internal/emap"
)

type esItem struct {
	name string
	exp  int64
}

func esID(name string) ids.ID {
	var id ids.ID
	copy(id[:], "verif-"+name)
	return id
}

func (i *esItem) GetID() ids.ID    { return esID(i.name) }
func (i *esItem) GetExpiry() int64 { return i.exp }

func esEnvInt(name string, def int) int {
	if v, err := strconv.Atoi(os.Getenv(name)); err == nil {
		return v
	}
	return def
}

// ---- the two objects behind one small interface (public API only)

type esObj interface {
	kind() string
	add(name string, e int64)
	has(name string) bool
	proj(names []string) (mem []string, min int, n int)
}

type heapObj struct {
	h *eheap.ExpiryHeap[*esItem]
}

func (o *heapObj) kind() string             { return "eheap" }
func (o *heapObj) add(name string, e int64) { o.h.Add(&esItem{name, e}) }
func (o *heapObj) has(name string) bool     { return o.h.Has(esID(name)) }
func (o *heapObj) proj(names []string) ([]string, int, int) {
	mem := []string{}
	for _, n := range names {
		if o.h.Has(esID(n)) {
			mem = append(mem, n)
		}
	}
	min := -1
	if it, ok := o.h.PeekMin(); ok {
		min = int(it.GetExpiry())
	}
	return mem, min, o.h.Len()
}

type emapObj struct {
	m *emap.EMap[*esItem]
}

func (o *emapObj) kind() string             { return "emap" }
func (o *emapObj) add(name string, e int64) { o.m.Add([]*esItem{{name, e}}) }
func (o *emapObj) has(name string) bool {
	// the expiry passed to a query is irrelevant to membership; use a value no add ever used
	return o.m.Contains([]*esItem{{name, 99}}, set.NewBits(), false).Contains(0)
}

func (o *emapObj) proj(names []string) ([]string, int, int) {
	mem := []string{}
	for _, n := range names {
		if o.has(n) {
			mem = append(mem, n)
		}
	}
	return mem, -2, -2
}

func nameOf(id ids.ID, names []string) string {
	for _, n := range names {
		if esID(n) == id {
			return n
		}
	}
	return "unknown:" + id.String()
}

type esRec struct {
	names []string
	obj   esObj
	lines []map[string]any
}

func (r *esRec) log(m map[string]any) {
	mem, min, n := r.obj.proj(r.names)
	m["mem"], m["min"], m["n"] = mem, min, n
	r.lines = append(r.lines, m)
}

func (r *esRec) dump(t *testing.T, name string) {
	f, err := os.Create(filepath.Join(os.Getenv("VERIF_OUT"), name+".ndjson"))
	if err != nil {
		t.Fatal(err)
	}
	defer f.Close()
	enc := json.NewEncoder(f)
	for _, l := range r.lines {
		if err := enc.Encode(l); err != nil {
			t.Fatal(err)
		}
	}
}

// TestVerifExpirySetRecord records seeded random scenarios on both structures.
func TestVerifExpirySetRecord(t *testing.T) {
	if os.Getenv("VERIF_OUT") == "" {
		t.Skip("VERIF_OUT not set")
	}
	seed := int64(esEnvInt("VERIF_SEED", 1))
	scen := esEnvInt("VERIF_SCENARIOS", 100)
	depth := esEnvInt("VERIF_DEPTH", 200)
	stats := map[string]int{}
	for s := 0; s < scen; s++ {
		if only := os.Getenv("VERIF_ONLY"); only != "" && only != strconv.Itoa(s) {
			continue
		}
		r := rand.New(rand.NewSource(seed*1_000_003 + int64(s)))
		nIDs := 2 + r.Intn(11)  // 2..12 ids
		maxExp := 1 + r.Intn(6) // expiries 0..maxExp (<= 6): many ids share an expiry
		names := make([]string, nIDs)
		for i := range names {
			names[i] = "i" + strconv.Itoa(i)
		}
		rname := func() string { return names[r.Intn(nIDs)] }
		rexp := func() int64 { return int64(r.Intn(maxExp + 1)) }

		// ---- ExpiryHeap
		h := &heapObj{eheap.New[*esItem](4)}
		rec := &esRec{names: names, obj: h}
		rec.lines = append(rec.lines, map[string]any{"ev": "reset", "kind": "eheap"})
		for k := 0; k < depth; k++ {
			switch c := r.Intn(100); {
			case c < 40:
				n, e := rname(), rexp()
				if h.h.Has(esID(n)) {
					stats["dup_add"]++
				}
				h.add(n, e)
				rec.log(map[string]any{"ev": "add", "i": n, "e": e})
			case c < 58:
				n := rname()
				it, ok := h.h.Remove(esID(n))
				e := -1
				if ok {
					e = int(it.GetExpiry())
					if it.name != n {
						e = -3
					}
					stats["remove_hit"]++
				}
				rec.log(map[string]any{"ev": "remove", "i": n, "ok": ok, "e": e})
			case c < 70:
				tmin := int64(r.Intn(maxExp + 2))
				out := h.h.SetMin(tmin)
				idl, exl := []string{}, []int{}
				for _, it := range out {
					idl = append(idl, it.name)
					exl = append(exl, int(it.GetExpiry()))
				}
				if len(out) > 0 {
					stats["setmin_evicts"]++
				}
				rec.log(map[string]any{"ev": "setmine", "t": tmin, "ids": idl, "exps": exl})
			case c < 80:
				n := rname()
				rec.log(map[string]any{"ev": "has", "i": n, "ok": h.has(n)})
			case c < 88:
				it, ok := h.h.PeekMin()
				n, e := "none", -1
				if ok {
					n, e = it.name, int(it.GetExpiry())
				}
				rec.log(map[string]any{"ev": "peekmin", "ok": ok, "i": n, "e": e})
			case c < 95:
				it, ok := h.h.PopMin()
				n, e := "none", -1
				if ok {
					n, e = it.name, int(it.GetExpiry())
					stats["popmin_hit"]++
				}
				rec.log(map[string]any{"ev": "popmin", "ok": ok, "i": n, "e": e})
			default:
				rec.log(map[string]any{"ev": "len", "n": h.h.Len()})
			}
		}
		rec.dump(t, fmt.Sprintf("sc-eheap-%05d", s))

		// ---- EMap
		m := &emapObj{emap.NewEMap[*esItem]()}
		rec = &esRec{names: names, obj: m}
		rec.lines = append(rec.lines, map[string]any{"ev": "reset", "kind": "emap"})
		// The statement covers EMap entries with non-zero expiry only: expiry-0 adds use the dedicated ids z0/z1,
		// which are never queried and are masked in returned lists by the trace spec (their treatment is unspecified).
		batch := func(max int, zeros bool) ([]*esItem, []map[string]any, []string) {
			k := r.Intn(max + 1)
			its, js, nm := []*esItem{}, []map[string]any{}, []string{}
			for j := 0; j < k; j++ {
				n, e := rname(), 1+int64(r.Intn(maxExp))
				if zeros && r.Intn(6) == 0 {
					n, e = "z"+strconv.Itoa(r.Intn(2)), 0
				}
				its = append(its, &esItem{n, e})
				js = append(js, map[string]any{"i": n, "e": e})
				nm = append(nm, n)
			}
			return its, js, nm
		}
		for k := 0; k < depth; k++ {
			switch c := r.Intn(100); {
			case c < 45:
				its, js, _ := batch(4, true)
				for _, it := range its {
					if it.exp == 0 {
						stats["emap_zero_expiry_add"]++
					} else if m.has(it.name) {
						stats["dup_add"]++
					}
				}
				m.m.Add(its)
				rec.log(map[string]any{"ev": "addm", "items": js})
			case c < 65:
				tmin := int64(r.Intn(maxExp + 2))
				out := m.m.SetMin(tmin)
				idl := []string{}
				for _, id := range out {
					idl = append(idl, nameOf(id, append([]string{"z0", "z1"}, names...)))
				}
				if len(out) > 0 {
					stats["setmin_evicts"]++
				}
				rec.log(map[string]any{"ev": "setmin", "t": tmin, "ids": idl})
			case c < 80:
				its, _, nm := batch(4, false)
				rec.log(map[string]any{"ev": "any", "ids": nm, "ok": m.m.Any(its)})
			default:
				its, _, nm := batch(5, false)
				marker := set.NewBits()
				mk := []int{}
				for j := range its {
					if r.Intn(4) == 0 {
						marker.Add(j)
						mk = append(mk, j)
					}
				}
				stop := r.Intn(2) == 0
				res := m.m.Contains(its, marker, stop)
				out := []int{}
				for j := 0; j < len(its)+2; j++ {
					if res.Contains(j) {
						out = append(out, j)
					}
				}
				rec.log(map[string]any{"ev": "contains", "ids": nm, "marker": mk, "stop": stop, "out": out})
			}
		}
		rec.dump(t, fmt.Sprintf("sc-emap-%05d", s))
	}
	out, _ := json.Marshal(stats)
	if err := os.WriteFile(filepath.Join(os.Getenv("VERIF_OUT"), "record_stats.json"), out, 0o644); err != nil {
		t.Fatal(err)
	}
}

// ---- mbt: replay of the transition cover

type esStep struct {
	Op struct {
		Op string `json:"op"`
		I  string `json:"i"`
		E  int64  `json:"e"`
		T  int64  `json:"t"`
	} `json:"op"`
	To  map[string]int `json:"to"`
	Res struct {
		Ok  bool     `json:"ok"`
		E   int      `json:"e"`
		IDs []string `json:"ids"`
	} `json:"res"`
}

type esPaths struct {
	Kind  string     `json:"kind"`
	Names []string   `json:"names"`
	Paths [][]esStep `json:"paths"`
}

type esMismatch struct {
	Path int    `json:"path"`
	Step int    `json:"step"`
	Op   string `json:"op"`
	What string `json:"what"`
	Got  string `json:"got"`
	Want string `json:"want"`
}

func sameSet(a, b []string) bool {
	a, b = append([]string{}, a...), append([]string{}, b...)
	sort.Strings(a)
	sort.Strings(b)
	if len(a) != len(b) {
		return false
	}
	for i := range a {
		if a[i] != b[i] {
			return false
		}
	}
	return true
}

func TestVerifExpirySetReplay(t *testing.T) {
	dir := os.Getenv("VERIF_OUT")
	if dir == "" {
		t.Skip("VERIF_OUT not set")
	}
	for _, f := range strings.Split(os.Getenv("VERIF_PATHS"), ",") {
		esReplayFile(t, dir, f)
	}
}

func esReplayFile(t *testing.T, dir, file string) {
	raw, err := os.ReadFile(file)
	if err != nil {
		t.Fatal(err)
	}
	var in esPaths
	if err := json.Unmarshal(raw, &in); err != nil {
		t.Fatal(err)
	}
	bad := []esMismatch{}
	steps := 0
	for pi, path := range in.Paths {
		var obj esObj
		var h *eheap.ExpiryHeap[*esItem]
		var m *emap.EMap[*esItem]
		if in.Kind == "eheap" {
			h = eheap.New[*esItem](2)
			obj = &heapObj{h}
		} else {
			m = emap.NewEMap[*esItem]()
			obj = &emapObj{m}
		}
		for si, st := range path {
			steps++
			mis := func(what, got, want string) {
				bad = append(bad, esMismatch{pi, si, st.Op.Op, what, got, want})
			}
			nbad := len(bad)
			switch st.Op.Op {
			case "add":
				obj.add(st.Op.I, st.Op.E)
			case "has":
				if got := obj.has(st.Op.I); got != st.Res.Ok {
					mis("has", fmt.Sprint(got), fmt.Sprint(st.Res.Ok))
				}
			case "setmin":
				got := []string{}
				if h != nil {
					for _, it := range h.SetMin(st.Op.T) {
						got = append(got, it.name)
					}
				} else {
					for _, id := range m.SetMin(st.Op.T) {
						got = append(got, nameOf(id, in.Names))
					}
				}
				if !sameSet(got, st.Res.IDs) {
					mis("setmin returned", fmt.Sprint(got), fmt.Sprint(st.Res.IDs))
				}
			case "remove":
				it, ok := h.Remove(esID(st.Op.I))
				e := -1
				if ok {
					e = int(it.GetExpiry())
				}
				if ok != st.Res.Ok || e != st.Res.E || (ok && it.name != st.Op.I) {
					mis("remove", fmt.Sprint(ok, e), fmt.Sprint(st.Res.Ok, st.Res.E))
				}
			case "peekmin", "popmin":
				var it *esItem
				var ok bool
				if st.Op.Op == "peekmin" {
					it, ok = h.PeekMin()
				} else {
					it, ok = h.PopMin()
				}
				e, n := -1, ""
				if ok {
					e, n = int(it.GetExpiry()), it.name
				}
				okID := !ok
				for _, x := range st.Res.IDs {
					okID = okID || x == n
				}
				if ok != st.Res.Ok || e != st.Res.E || !okID {
					mis(st.Op.Op, fmt.Sprint(ok, e, n), fmt.Sprint(st.Res.Ok, st.Res.E, st.Res.IDs))
				}
			case "len":
				if got := h.Len(); got != st.Res.E {
					mis("len", fmt.Sprint(got), fmt.Sprint(st.Res.E))
				}
			default:
				t.Fatalf("unknown op %q", st.Op.Op)
			}
			// projection after the step
			mem, min, n := obj.proj(in.Names)
			want := []string{}
			wmin := -1
			for k, e := range st.To {
				if e >= 0 {
					want = append(want, k)
					if wmin < 0 || e < wmin {
						wmin = e
					}
				}
			}
			if !sameSet(mem, want) {
				mis("membership after step", fmt.Sprint(mem), fmt.Sprint(want))
			}
			if in.Kind == "eheap" && (min != wmin || n != len(want)) {
				mis("min/len after step", fmt.Sprint(min, n), fmt.Sprint(wmin, len(want)))
			}
			if len(bad) > nbad {
				break // the path is off the specification from here on
			}
		}
	}
	out, _ := json.Marshal(map[string]any{"paths": len(in.Paths), "steps": steps, "mismatches": bad})
	if err := os.WriteFile(filepath.Join(dir, "replay_result_"+in.Kind+".json"), out, 0o644); err != nil {
		t.Fatal(err)
	}
}
