//go:build verif

// Driver for X01 (see /verif/spec/DList.tla): runs every short history and seeded long histories of PushFront /
// PushBack / Remove on two real list.List values sharing a pool of elements (so that removed elements and elements
// of the other list are handed to Remove) and records, after every call, what First/Next, Last/Prev and Size report.
package list_test

import (
	"encoding/binary"
	"encoding/json"
	"fmt"
	"math/rand"
	"os"
	"path/filepath"
	"strconv"
	"testing"

	"github.com/ava-labs/avalanchego/ids"

	"github.com/ava-labs/hypersdk/internal/list"
)

type lItem struct{ n int }

func (i *lItem) GetID() ids.ID {
	var id ids.ID
	binary.BigEndian.PutUint64(id[:], uint64(i.n))
	return id
}
func (i *lItem) GetExpiry() int64 { return int64(i.n) }

func listEnvInt(name string, def int) int {
	if v, err := strconv.Atoi(os.Getenv(name)); err == nil {
		return v
	}
	return def
}

const listWalkCap = 200

// num is the element's number; -1 when a walk reaches something that is not an element (the sentinel)
func num(e *list.Element[*lItem]) int {
	if e.Value() == nil {
		return -1
	}
	return e.Value().n
}

type listRec struct {
	ls      [2]*list.List[*lItem]
	elems   []*list.Element[*lItem]
	lines   []map[string]any
	foreign int
	stale   int
	removed int
}

func (r *listRec) reset() {
	r.ls = [2]*list.List[*lItem]{{}, {}}
	r.elems = nil
	r.lines = append(r.lines, map[string]any{"ev": "reset"})
}

func (r *listRec) observe(line map[string]any) {
	fwd, bwd, size := [][]int{}, [][]int{}, []int{}
	in := map[int]bool{}
	for _, l := range r.ls {
		f, b := []int{}, []int{}
		for e := l.First(); e != nil && len(f) < listWalkCap; e = e.Next() {
			f = append(f, num(e))
			in[num(e)] = true
		}
		for e := l.Last(); e != nil && len(b) < listWalkCap; e = e.Prev() {
			b = append(b, num(e))
		}
		fwd, bwd, size = append(fwd, f), append(bwd, b), append(size, l.Size())
	}
	loose := []int{}
	for i, e := range r.elems {
		if !in[i+1] && (e.Next() != nil || e.Prev() != nil) {
			loose = append(loose, i+1)
		}
	}
	line["fwd"], line["bwd"], line["size"], line["loose"] = fwd, bwd, size, loose
	r.lines = append(r.lines, line)
}

func (r *listRec) push(L int, front bool) {
	it := &lItem{n: len(r.elems) + 1}
	var e *list.Element[*lItem]
	if front {
		e = r.ls[L-1].PushFront(it)
	} else {
		e = r.ls[L-1].PushBack(it)
	}
	r.elems = append(r.elems, e)
	r.observe(map[string]any{"ev": "push", "L": L, "front": front, "e": e.Value().n})
}

func (r *listRec) holder(e int) int {
	for i, l := range r.ls {
		n := 0
		for x := l.First(); x != nil && n < listWalkCap; x = x.Next() {
			if num(x) == e {
				return i + 1
			}
			n++
		}
	}
	return 0
}

func (r *listRec) remove(L, e int) {
	switch h := r.holder(e); {
	case h == 0:
		r.stale++
	case h != L:
		r.foreign++
	default:
		r.removed++
	}
	ret := r.ls[L-1].Remove(r.elems[e-1])
	r.observe(map[string]any{"ev": "remove", "L": L, "e": e, "ret": func() int {
		if ret == nil {
			return -1
		}
		return ret.n
	}()})
}

func (r *listRec) flush(t *testing.T, name string) {
	f, err := os.Create(filepath.Join(os.Getenv("VERIF_OUT"), name+".ndjson"))
	if err != nil {
		t.Fatal(err)
	}
	enc := json.NewEncoder(f)
	for _, l := range r.lines {
		if err := enc.Encode(l); err != nil {
			t.Fatal(err)
		}
	}
	f.Close()
	r.lines = nil
}

func TestVerifListRecord(t *testing.T) {
	seed := int64(listEnvInt("VERIF_SEED", 1))
	only := listEnvInt("VERIF_ONLY", -1)
	depth := listEnvInt("VERIF_SYSDEPTH", 4)
	nrand := listEnvInt("VERIF_SCENARIOS", 150)
	rlen := listEnvInt("VERIF_DEPTH", 50)
	r := &listRec{}
	n := 0
	emit := func(prefix string) {
		if only < 0 || only == n {
			r.flush(t, fmt.Sprintf("%s-%06d", prefix, n))
		} else {
			r.lines = nil
		}
		n++
	}
	// (a) every history of `depth` calls over {PushFront L, PushBack L, Remove(L, e) for e in 1..3} on two lists;
	// histories that name an element not yet created are skipped
	const alpha = 10
	total := 1
	for i := 0; i < depth; i++ {
		total *= alpha
	}
	for code := 0; code < total; code++ {
		c, created, valid := code, 0, true
		for i := 0; i < depth && valid; i++ {
			op := c % alpha
			c /= alpha
			if op < 4 {
				created++
			} else if (op-4)%3+1 > created {
				valid = false
			}
		}
		if !valid {
			continue
		}
		if only >= 0 && only != n {
			n++
			continue
		}
		r.reset()
		c = code
		for i := 0; i < depth; i++ {
			op := c % alpha
			c /= alpha
			if op < 4 {
				r.push(op/2+1, op%2 == 0)
			} else {
				r.remove((op-4)/3+1, (op-4)%3+1)
			}
		}
		emit("sys")
	}
	// (b) seeded long histories
	for i := 0; i < nrand; i++ {
		rng := rand.New(rand.NewSource(seed*1_000_003 + int64(i)))
		prem := 20 + rng.Intn(50)
		if only >= 0 && only != n {
			n++
			continue
		}
		r.reset()
		for j := 0; j < rlen; j++ {
			if len(r.elems) == 0 || (rng.Intn(100) >= prem && len(r.elems) < 60) {
				r.push(1+rng.Intn(2), rng.Intn(2) == 0)
			} else {
				r.remove(1+rng.Intn(2), 1+rng.Intn(len(r.elems)))
			}
		}
		emit("rnd")
	}
	b, _ := json.Marshal(map[string]int{"scenarios": n, "removed": r.removed, "foreign": r.foreign, "stale": r.stale})
	if err := os.WriteFile(filepath.Join(os.Getenv("VERIF_OUT"), "list_stats.json"), b, 0o644); err != nil {
		t.Fatal(err)
	}
}
