//go:build verif

// Driver for the fetcher-level part of C24 (see /verif/DESIGN.md): the real fetcher.Fetcher runs over a parent
// state.Immutable that records every requested key, blocks each read on a gate and returns the scripted value /
// absence / error.  Declared key sets are state.Keys flattened by the real Keys.WithoutPermissions.  A seeded
// controller (or a script taken from a TLC behaviour of spec/FetcherContract.tla) issues Fetch / Get / Stop / Wait
// and opens gates; the totally ordered event log is validated by TLC against FetcherContract.
package fetcher_test

import (
	"context"
	"encoding/json"
	"errors"
	"fmt"
	"math/rand"
	"os"
	"path/filepath"
	"sort"
	"strconv"
	"sync"
	"testing"
	"time"

	"github.com/ava-labs/avalanchego/database"
	"github.com/ava-labs/avalanchego/ids"

	"github.com/ava-labs/hypersdk/internal/fetcher"
	"github.com/ava-labs/hypersdk/state"
)

var errFInjected = errors.New("injected read error")

type fLog struct {
	mu    sync.Mutex
	lines []map[string]any
}

func (l *fLog) add(m map[string]any) {
	l.mu.Lock()
	l.lines = append(l.lines, m)
	l.mu.Unlock()
}

func (l *fLog) n() int {
	l.mu.Lock()
	defer l.mu.Unlock()
	return len(l.lines)
}

type fCall struct {
	Tx   int      `json:"tx"`
	Keys []string `json:"keys"`
}

type fStep struct {
	Op string `json:"op"` // fetch get gate stop wait
	C  int    `json:"c"`  // call index (1-based) for fetch/get
	K  string `json:"k"`  // key for gate
}

type fScenario struct {
	Workers int               `json:"workers"`
	TxCap   int               `json:"txcap"`  // the txs argument of fetcher.New (capacity of the task channel)
	Calls   []fCall           `json:"calls"`  // Fetch calls in issue order; equal Tx = duplicate transaction id
	Parent  map[string]string `json:"parent"` // key -> value | "absent" | "err"
	Script  []fStep           `json:"script"`
	Label   string            `json:"label"`
}

// gated, recording, faulting parent state
type fParent struct {
	r *fRun
}

func (p *fParent) GetValue(_ context.Context, key []byte) ([]byte, error) {
	r := p.r
	k := string(key)
	name := k
	if k == "" {
		name = "EMPTY"
	}
	r.log.add(map[string]any{"ev": "read", "k": name})
	r.mu.Lock()
	g, ok := r.gates[name]
	if !ok {
		g = make(chan struct{})
		close(g) // a key nobody declared: nothing to wait for
		r.gates[name] = g
		r.gateOpen[name] = true
	}
	r.mu.Unlock()
	<-g
	v, ok := r.sc.Parent[k]
	switch {
	case !ok || v == "absent":
		r.log.add(map[string]any{"ev": "read_ret", "k": name, "res": "absent"})
		return nil, database.ErrNotFound
	case v == "err":
		r.log.add(map[string]any{"ev": "read_ret", "k": name, "res": "err"})
		return nil, errFInjected
	default:
		r.log.add(map[string]any{"ev": "read_ret", "k": name, "res": v})
		return []byte(v), nil
	}
}

type fRun struct {
	sc       fScenario
	log      *fLog
	f        *fetcher.Fetcher
	mu       sync.Mutex
	gates    map[string]chan struct{}
	gateOpen map[string]bool
	fetchSt  []string // none calling ok err
	getSt    []string // none calling done
	nextF    int
	stopSt   string
	waitSt   string
	pend     map[string]bool
	async    sync.WaitGroup
	txIDs    map[int]ids.ID
}

func (r *fRun) settle() {
	last, quiet := r.log.n(), 0
	for i := 0; i < 200 && quiet < 4; i++ {
		time.Sleep(60 * time.Microsecond)
		if n := r.log.n(); n == last {
			quiet++
		} else {
			last, quiet = n, 0
		}
	}
}

func (r *fRun) spawn(name string, f func()) {
	r.mu.Lock()
	r.pend[name] = true
	r.mu.Unlock()
	r.async.Add(1)
	go func() {
		defer r.async.Done()
		f()
		r.mu.Lock()
		delete(r.pend, name)
		r.mu.Unlock()
	}()
}

func errName(err error) string {
	switch {
	case err == nil:
		return "ok"
	case errors.Is(err, fetcher.ErrStopped):
		return "stopped"
	case errors.Is(err, errFInjected):
		return "err"
	case errors.Is(err, fetcher.ErrMissingTx):
		return "missing"
	default:
		return "other"
	}
}

func (r *fRun) st(a []string, i int) string {
	r.mu.Lock()
	defer r.mu.Unlock()
	return a[i]
}

func (r *fRun) set(a []string, i int, v string) {
	r.mu.Lock()
	a[i] = v
	r.mu.Unlock()
}

// Fetch call c (calls are issued in order, one at a time, like Processor.executeTxs does)
func (r *fRun) fetch() {
	if r.nextF > len(r.sc.Calls) || r.waitSt != "no" || r.stopSt != "idle" {
		return
	}
	if r.nextF > 1 && r.st(r.fetchSt, r.nextF-2) == "calling" {
		return // the previous Fetch is still blocked on a full task channel
	}
	c := r.nextF
	r.nextF++
	call := r.sc.Calls[c-1]
	declared := state.Keys{}
	for i, k := range call.Keys {
		declared[k] = []state.Permissions{state.Read, state.Write, state.Allocate | state.Write}[i%3]
	}
	flat := declared.WithoutPermissions() // the real flattening used by the processor
	r.set(r.fetchSt, c-1, "calling")
	r.spawn(fmt.Sprintf("fetch:%d", c), func() {
		r.log.add(map[string]any{"ev": "fetch_call", "c": c})
		err := r.f.Fetch(context.Background(), r.txIDs[call.Tx], flat)
		res := errName(err)
		r.log.add(map[string]any{"ev": "fetch_ret", "c": c, "res": res})
		if res == "ok" {
			r.set(r.fetchSt, c-1, "ok")
		} else {
			r.set(r.fetchSt, c-1, "err")
		}
	})
}

func (r *fRun) get(c int) {
	if c < 1 || c > len(r.sc.Calls) || r.st(r.fetchSt, c-1) != "ok" || r.st(r.getSt, c-1) != "none" {
		return
	}
	r.set(r.getSt, c-1, "calling")
	call := r.sc.Calls[c-1]
	r.spawn(fmt.Sprintf("get:%d", c), func() {
		r.log.add(map[string]any{"ev": "get_call", "c": c})
		storage, err := r.f.Get(r.txIDs[call.Tx])
		got := map[string]any{"_": "_"}
		for k, v := range storage {
			if k == "" {
				k = "EMPTY"
			}
			got[k] = string(v)
		}
		r.log.add(map[string]any{"ev": "get_ret", "c": c, "res": errName(err), "got": got})
		r.set(r.getSt, c-1, "done")
	})
}

func (r *fRun) gate(k string) {
	r.mu.Lock()
	defer r.mu.Unlock()
	if r.gateOpen[k] {
		return
	}
	r.gateOpen[k] = true
	if g, ok := r.gates[k]; ok {
		close(g)
	} else {
		g := make(chan struct{})
		close(g)
		r.gates[k] = g
	}
}

func (r *fRun) stop() {
	if r.stopSt != "idle" {
		return
	}
	r.stopSt = "called"
	r.spawn("stop", func() {
		r.log.add(map[string]any{"ev": "stop_call"})
		r.f.Stop()
		r.log.add(map[string]any{"ev": "stop_ret"})
	})
}

func (r *fRun) fetching() bool {
	for i := range r.fetchSt {
		if r.st(r.fetchSt, i) == "calling" {
			return true
		}
	}
	return false
}

func (r *fRun) wait() {
	if r.waitSt != "no" || r.fetching() {
		return // never Wait while a Fetch is in flight (API contract)
	}
	r.waitSt = "called"
	r.spawn("wait", func() {
		r.log.add(map[string]any{"ev": "wait_call"})
		err := r.f.Wait()
		r.log.add(map[string]any{"ev": "wait_ret", "res": errName(err)})
	})
}

func (r *fRun) apply(s fStep) {
	switch s.Op {
	case "fetch":
		r.fetch()
	case "get":
		r.get(s.C)
	case "gate":
		r.gate(s.K)
	case "stop":
		r.stop()
	case "wait":
		r.wait()
	}
	r.settle()
}

func (r *fRun) enabled() []fStep {
	var ops []fStep
	add := func(w int, s fStep) {
		for i := 0; i < w; i++ {
			ops = append(ops, s)
		}
	}
	reading := map[string]bool{}
	r.log.mu.Lock()
	for _, l := range r.log.lines {
		if l["ev"] == "read" {
			reading[l["k"].(string)] = true
		}
	}
	r.log.mu.Unlock()
	if r.nextF <= len(r.sc.Calls) && r.waitSt == "no" && r.stopSt == "idle" && !r.fetching() {
		add(4, fStep{Op: "fetch"})
	}
	for c := range r.sc.Calls {
		if r.st(r.fetchSt, c) == "ok" && r.st(r.getSt, c) == "none" {
			add(2, fStep{Op: "get", C: c + 1})
		}
	}
	keys := make([]string, 0, len(r.sc.Parent))
	r.mu.Lock()
	for k := range r.gates {
		keys = append(keys, k)
	}
	sort.Strings(keys)
	for _, k := range keys {
		if r.gateOpen[k] {
			continue
		}
		if reading[k] {
			add(3, fStep{Op: "gate", K: k})
		} else {
			add(1, fStep{Op: "gate", K: k})
		}
	}
	r.mu.Unlock()
	if r.waitSt == "no" && r.nextF > len(r.sc.Calls) && !r.fetching() {
		add(2, fStep{Op: "wait"})
	}
	if r.stopSt == "idle" && len(ops) > 0 {
		add(1, fStep{Op: "stop"})
	}
	return ops
}

func runFetcherScenario(sc fScenario, idx int, rng *rand.Rand, watchdog time.Duration) ([]map[string]any, bool) {
	r := &fRun{sc: sc, log: &fLog{}, gates: map[string]chan struct{}{}, gateOpen: map[string]bool{}, nextF: 1,
		stopSt: "idle", waitSt: "no", pend: map[string]bool{}, txIDs: map[int]ids.ID{}}
	calls := make([]any, 0, len(sc.Calls))
	for _, c := range sc.Calls {
		calls = append(calls, map[string]any{"tx": c.Tx, "keys": c.Keys})
		if _, ok := r.txIDs[c.Tx]; !ok {
			r.txIDs[c.Tx] = ids.GenerateTestID()
		}
		for _, k := range c.Keys {
			if _, ok := r.gates[k]; !ok {
				r.gates[k] = make(chan struct{})
			}
		}
		r.fetchSt = append(r.fetchSt, "none")
		r.getSt = append(r.getSt, "none")
	}
	parent := map[string]any{"_": "_"}
	for k, v := range sc.Parent {
		parent[k] = v
	}
	r.log.add(map[string]any{"ev": "reset", "workers": sc.Workers, "txcap": sc.TxCap, "calls": calls, "parent": parent,
		"sc": idx, "label": sc.Label})
	r.f = fetcher.New(&fParent{r}, sc.TxCap, sc.Workers)
	if sc.Script != nil {
		for _, s := range sc.Script {
			r.apply(s)
		}
	} else {
		stopAllowed := rng.Intn(100) < 25
		for step := 0; step < 80; step++ {
			ops := r.enabled()
			if !stopAllowed {
				k := ops[:0:0]
				for _, o := range ops {
					if o.Op != "stop" {
						k = append(k, o)
					}
				}
				ops = k
			}
			if len(ops) == 0 {
				break
			}
			r.apply(ops[rng.Intn(len(ops))])
		}
	}
	fin := make(chan struct{})
	go func() {
		defer close(fin)
		// issue the remaining Fetch calls one at a time, opening gates when a Fetch blocks on the full task channel
		keys := make([]string, 0, len(r.gates))
		r.mu.Lock()
		for k := range r.gates {
			keys = append(keys, k)
		}
		r.mu.Unlock()
		sort.Strings(keys)
		rng.Shuffle(len(keys), func(i, j int) { keys[i], keys[j] = keys[j], keys[i] })
		for guard := 0; guard < 4*len(r.sc.Calls)+8; guard++ {
			if r.nextF > len(r.sc.Calls) && !r.fetching() {
				break
			}
			r.fetch()
			r.settle()
			if r.fetching() {
				for _, k := range keys {
					r.gate(k)
				}
				r.settle()
			}
			if r.stopSt != "idle" || r.waitSt != "no" {
				break
			}
		}
		for c := range r.sc.Calls {
			r.get(c + 1)
		}
		r.settle()
		for _, k := range keys {
			r.gate(k)
			if rng.Intn(2) == 0 {
				r.settle()
			}
		}
		for i := 0; i < 50 && r.fetching(); i++ {
			r.settle()
		}
		r.wait()
		r.async.Wait()
		for c := range r.sc.Calls { // Gets of calls whose Fetch returned late
			r.get(c + 1)
		}
		r.async.Wait()
	}()
	hung := false
	select {
	case <-fin:
		r.log.add(map[string]any{"ev": "fin"})
	case <-time.After(watchdog):
		r.mu.Lock()
		what := ""
		for k := range r.pend {
			if what == "" || k < what {
				what = k
			}
		}
		r.mu.Unlock()
		r.log.add(map[string]any{"ev": "hang", "what": what})
		hung = true
	}
	r.log.mu.Lock()
	lines := append([]map[string]any{}, r.log.lines...)
	r.log.mu.Unlock()
	return lines, hung
}

func genFetcherScenario(rng *rand.Rand) fScenario {
	sc := fScenario{Workers: []int{1, 2, 3, 4, 8, 16}[rng.Intn(6)], Parent: map[string]string{}}
	nkeys := 1 + rng.Intn(5)
	all := []string{"ka", "kb", "kc", "kd", "ke"}[:nkeys]
	faulty := rng.Intn(100) < 35
	for _, k := range all {
		switch x := rng.Intn(10); {
		case x < 5:
			sc.Parent[k] = "v" + k[1:] + strconv.Itoa(rng.Intn(2))
		case x < 8 || !faulty:
			sc.Parent[k] = "absent"
		default:
			sc.Parent[k] = "err"
		}
	}
	ncalls := 1 + rng.Intn(6)
	dup := rng.Intn(100) < 25
	for c := 0; c < ncalls; c++ {
		call := fCall{Tx: c + 1}
		if dup && c > 0 && rng.Intn(3) == 0 {
			prev := sc.Calls[rng.Intn(c)]
			call = fCall{Tx: prev.Tx, Keys: append([]string{}, prev.Keys...)} // the same transaction again
		} else {
			cnt := 1 + rng.Intn(nkeys)
			perm := rng.Perm(nkeys)
			for _, i := range perm[:cnt] {
				call.Keys = append(call.Keys, all[i])
			}
		}
		sc.Calls = append(sc.Calls, call)
	}
	sc.TxCap = ncalls
	if rng.Intn(4) == 0 {
		sc.TxCap = 1 + rng.Intn(ncalls) // smaller task channel: Fetch can block
	}
	return sc
}

func directedFetcherScenarios() []fScenario {
	return []fScenario{
		{Workers: 2, TxCap: 2, Label: "overlapping-keys",
			Calls:  []fCall{{1, []string{"ka", "kb"}}, {2, []string{"kb", "kc"}}},
			Parent: map[string]string{"ka": "va", "kb": "absent", "kc": "vc"},
			Script: []fStep{{Op: "fetch"}, {Op: "fetch"}, {Op: "get", C: 1}, {Op: "get", C: 2}, {Op: "gate", K: "kb"},
				{Op: "gate", K: "kc"}, {Op: "gate", K: "ka"}, {Op: "wait"}}},
		{Workers: 2, TxCap: 2, Label: "duplicate-transaction-id",
			Calls:  []fCall{{1, []string{"ka", "kb"}}, {1, []string{"ka", "kb"}}},
			Parent: map[string]string{"ka": "va", "kb": "vb"},
			Script: []fStep{{Op: "fetch"}, {Op: "fetch"}, {Op: "get", C: 2}, {Op: "gate", K: "ka"}, {Op: "gate", K: "kb"},
				{Op: "wait"}}},
		{Workers: 1, TxCap: 2, Label: "read-error-while-get-waits",
			Calls:  []fCall{{1, []string{"ka"}}, {2, []string{"kb"}}},
			Parent: map[string]string{"ka": "err", "kb": "vb"},
			Script: []fStep{{Op: "fetch"}, {Op: "fetch"}, {Op: "get", C: 1}, {Op: "get", C: 2}, {Op: "gate", K: "ka"},
				{Op: "gate", K: "kb"}, {Op: "wait"}}},
		{Workers: 1, TxCap: 1, Label: "fetch-blocked-on-full-task-channel-then-error",
			Calls:  []fCall{{1, []string{"ka", "kb", "kc"}}, {2, []string{"kd"}}},
			Parent: map[string]string{"ka": "err", "kb": "vb", "kc": "vc", "kd": "vd"},
			Script: []fStep{{Op: "fetch"}, {Op: "gate", K: "ka"}}},
	}
}

func TestVerifFetcherRecord(t *testing.T) {
	out := os.Getenv("VERIF_OUT")
	if out == "" {
		t.Skip("VERIF_OUT not set")
	}
	seed, _ := strconv.ParseInt(os.Getenv("VERIF_SEED"), 10, 64)
	n, _ := strconv.Atoi(os.Getenv("VERIF_SCENARIOS"))
	if n == 0 {
		n = 50
	}
	wd, _ := strconv.Atoi(os.Getenv("VERIF_WATCHDOG_S"))
	if wd == 0 {
		wd = 30
	}
	only := -1
	if s := os.Getenv("VERIF_ONLY"); s != "" {
		only, _ = strconv.Atoi(s)
	}
	var scripted []fScenario
	if p := os.Getenv("VERIF_SCRIPTS"); p != "" {
		b, err := os.ReadFile(p)
		if err != nil {
			t.Fatal(err)
		}
		if err := json.Unmarshal(b, &scripted); err != nil {
			t.Fatal(err)
		}
	}
	directed := append(directedFetcherScenarios(), scripted...)
	hangs := []int{}
	written := 0
	for i := 0; i < n; i++ {
		rng := rand.New(rand.NewSource(seed*1_000_003 + int64(i)))
		var sc fScenario
		if i < len(directed) {
			sc = directed[i]
		} else {
			sc = genFetcherScenario(rng)
		}
		if only >= 0 && i != only {
			continue
		}
		lines, hung := runFetcherScenario(sc, i, rng, time.Duration(wd)*time.Second)
		f, err := os.Create(filepath.Join(out, fmt.Sprintf("fe%05d.ndjson", i)))
		if err != nil {
			t.Fatal(err)
		}
		enc := json.NewEncoder(f)
		for _, l := range lines {
			if err := enc.Encode(l); err != nil {
				t.Fatal(err)
			}
		}
		f.Close()
		written++
		if hung {
			hangs = append(hangs, i)
			break
		}
	}
	b, _ := json.Marshal(map[string]any{"scenarios": written, "hangs": hangs})
	if err := os.WriteFile(filepath.Join(out, "fe_summary.json"), b, 0o644); err != nil {
		t.Fatal(err)
	}
}
