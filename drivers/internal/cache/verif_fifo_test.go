//go:build verif

// Driver for X01 (see /verif/spec/FifoCache.tla): runs every short history and seeded long histories of Put / Get on
// a real cache.FIFO[int,int] and records each call with its result and, after every call, the cache's contents as
// reported by Get for every key of the scenario's universe.
package cache_test

import (
	"encoding/json"
	"fmt"
	"math/rand"
	"os"
	"path/filepath"
	"strconv"
	"testing"

	"github.com/ava-labs/hypersdk/internal/cache"
)

func fifoEnvInt(name string, def int) int {
	if v, err := strconv.Atoi(os.Getenv(name)); err == nil {
		return v
	}
	return def
}

type fifoRec struct {
	c     *cache.FIFO[int, int]
	nkeys int
	lines []map[string]any
	evict int
	over  int
}

func (r *fifoRec) observe(line map[string]any) {
	keys, vals := []int{}, []int{}
	for k := 1; k <= r.nkeys; k++ {
		if v, ok := r.c.Get(k); ok {
			keys = append(keys, k)
			vals = append(vals, v)
		}
	}
	line["keys"], line["vals"] = keys, vals
	r.lines = append(r.lines, line)
}

func (r *fifoRec) reset(limit, nkeys int) bool {
	c, err := cache.NewFIFO[int, int](limit)
	r.c, r.nkeys = c, nkeys
	r.lines = append(r.lines, map[string]any{"ev": "reset", "limit": limit, "ok": err == nil, "nkeys": nkeys})
	return err == nil
}

func (r *fifoRec) put(k, v int) {
	before := 0
	for j := 1; j <= r.nkeys; j++ {
		if _, ok := r.c.Get(j); ok {
			before++
		}
	}
	existed := r.c.Put(k, v)
	if existed {
		r.over++
	}
	line := map[string]any{"ev": "put", "k": k, "v": v, "ok": existed}
	r.observe(line)
	if !existed && len(line["keys"].([]int)) == before {
		r.evict++
	}
}

func (r *fifoRec) get(k int) {
	v, ok := r.c.Get(k)
	if !ok {
		v = -1
	}
	r.observe(map[string]any{"ev": "get", "k": k, "ok": ok, "val": v})
}

func (r *fifoRec) flush(t *testing.T, name string) {
	f, err := os.Create(filepath.Join(os.Getenv("VERIF_OUT"), name+".ndjson"))
	if err != nil {
		t.Fatal(err)
	}
	enc := json.NewEncoder(f)
	for _, l := range r.lines {
		if err := enc.Encode(l); err != nil {
			t.Fatal(err)
		}
	}
	f.Close()
	r.lines = nil
}

func TestVerifFIFORecord(t *testing.T) {
	seed := int64(fifoEnvInt("VERIF_SEED", 1))
	only := fifoEnvInt("VERIF_ONLY", -1)
	depth := fifoEnvInt("VERIF_SYSDEPTH", 4)
	nrand := fifoEnvInt("VERIF_SCENARIOS", 200)
	rlen := fifoEnvInt("VERIF_DEPTH", 60)
	r := &fifoRec{}
	n := 0
	stats := map[string]int{}
	emit := func(prefix string) {
		if only < 0 || only == n {
			r.flush(t, fmt.Sprintf("%s-%06d", prefix, n))
		} else {
			r.lines = nil
		}
		n++
	}
	// refused sizes
	for _, lim := range []int{0, -1} {
		if r.reset(lim, 1) {
			t.Logf("NewFIFO(%d) succeeded", lim)
		}
		emit("sys")
		stats["refused"]++
	}
	// (a) every history of `depth` calls over {put k (fresh value), get k}, k in 1..limit+1, limits 1..3
	for lim := 1; lim <= 3; lim++ {
		nk := lim + 1
		alpha := 2 * nk
		total := 1
		for i := 0; i < depth; i++ {
			total *= alpha
		}
		for code := 0; code < total; code++ {
			if only >= 0 && only != n {
				n++
				continue
			}
			r.reset(lim, nk)
			c := code
			for i := 0; i < depth; i++ {
				op := c % alpha
				c /= alpha
				if op < nk {
					r.put(op+1, i+1)
				} else {
					r.get(op - nk + 1)
				}
			}
			emit("sys")
		}
	}
	// (b) seeded long histories, limits 1..6, universe limit+1..limit+4 (at most 10 keys)
	for i := 0; i < nrand; i++ {
		rng := rand.New(rand.NewSource(seed*1_000_003 + int64(i)))
		lim := 1 + rng.Intn(6)
		nk := lim + 1 + rng.Intn(4)
		pget := rng.Intn(60)
		if only >= 0 && only != n {
			n++
			continue
		}
		r.reset(lim, nk)
		for j := 0; j < rlen; j++ {
			k := 1 + rng.Intn(nk)
			if rng.Intn(100) < pget {
				r.get(k)
			} else {
				r.put(k, j+1)
			}
		}
		emit("rnd")
	}
	stats["scenarios"] = n
	stats["evictions"] = r.evict
	stats["overwrites"] = r.over
	b, _ := json.Marshal(stats)
	if err := os.WriteFile(filepath.Join(os.Getenv("VERIF_OUT"), "fifo_stats.json"), b, 0o644); err != nil {
		t.Fatal(err)
	}
}
