//go:build verif

// Driver for X03 (see /verif/spec/Gossip.tla, Gossip_Trace.tla): a real gossiper.Target over a real mempool (wrapped
// to record the order in which Top hands transactions to the gossiper), with a recording network sender behind a real
// p2p.Client, a JSON serializer over transaction numbers, a submitter that adds to the mempool and a scripted
// validator set / transaction assigner.  Expiries are base-60s ("expired"), base+2.5s ("short", below GossipMinLife =
// 5s) and base+1h ("long"); a scenario runs for milliseconds, so the classes cannot change under it.
package gossiper_test

import (
	"context"
	"encoding/binary"
	"encoding/json"
	"errors"
	"fmt"
	"math/rand"
	"os"
	"path/filepath"
	"sort"
	"strconv"
	"testing"
	"time"

	"github.com/ava-labs/avalanchego/ids"
	"github.com/ava-labs/avalanchego/network/p2p"
	"github.com/ava-labs/avalanchego/snow/engine/common"
	"github.com/ava-labs/avalanchego/trace"
	"github.com/ava-labs/avalanchego/utils/logging"
	"github.com/ava-labs/avalanchego/utils/set"
	"github.com/prometheus/client_golang/prometheus"

	"github.com/ava-labs/hypersdk/codec"
	"github.com/ava-labs/hypersdk/internal/gossiper"
	"github.com/ava-labs/hypersdk/internal/mempool"
)

func gsEnvInt(name string, def int) int {
	if v, err := strconv.Atoi(os.Getenv(name)); err == nil {
		return v
	}
	return def
}

type gTx struct {
	n      int
	size   int
	expiry int64
}

func (t *gTx) GetID() ids.ID {
	var id ids.ID
	binary.BigEndian.PutUint64(id[:], uint64(t.n))
	return id
}
func (t *gTx) GetExpiry() int64 { return t.expiry }
func (t *gTx) Size() int        { return t.size }
func (t *gTx) GetSponsor() codec.Address {
	var a codec.Address
	a[1] = byte(t.n)
	return a
}

// recording wrapper around the real mempool
type gPool struct {
	m       *mempool.Mempool[*gTx]
	visited []int
}

func (p *gPool) Top(ctx context.Context, d time.Duration, f func(context.Context, *gTx) (bool, bool, error)) error {
	return p.m.Top(ctx, d, func(ctx context.Context, tx *gTx) (bool, bool, error) {
		p.visited = append(p.visited, tx.n)
		return f(ctx, tx)
	})
}

type gSerializer struct{ txs []*gTx }

func (*gSerializer) Marshal(txs []*gTx) []byte {
	ns := make([]int, len(txs))
	for i, t := range txs {
		ns[i] = t.n
	}
	b, _ := json.Marshal(ns)
	return b
}

func (s *gSerializer) Unmarshal(b []byte) ([]*gTx, error) {
	var ns []int
	if err := json.Unmarshal(b, &ns); err != nil {
		return nil, err
	}
	out := make([]*gTx, len(ns))
	for i, n := range ns {
		if n < 1 || n > len(s.txs) {
			return nil, errors.New("unknown tx")
		}
		out[i] = s.txs[n-1]
	}
	return out, nil
}

type gSubmitter struct {
	m         *mempool.Mempool[*gTx]
	submitted []int
}

func (s *gSubmitter) Submit(ctx context.Context, txs []*gTx) []error {
	for _, t := range txs {
		s.submitted = append(s.submitted, t.n)
	}
	s.m.Add(ctx, txs)
	return make([]error, len(txs))
}

type gValidators struct {
	self  ids.NodeID
	props set.Set[ids.NodeID]
	err   error
}

func (v *gValidators) NodeID() ids.NodeID { return v.self }
func (v *gValidators) Proposers(context.Context, int, int) (set.Set[ids.NodeID], error) {
	return v.props, v.err
}
func (*gValidators) IsValidator(context.Context, ids.NodeID) (bool, error) { return true, nil }

type gAssigner struct {
	assign map[int]ids.NodeID
}

func (a *gAssigner) AssignTx(_ context.Context, tx *gTx) (ids.NodeID, bool) {
	n, ok := a.assign[tx.n]
	return n, ok
}

type gMsg struct {
	to  []string
	txs []int
}

type gSender struct {
	prefix int
	names  map[ids.NodeID]string
	msgs   []gMsg
	bad    int
}

func (*gSender) SendAppRequest(context.Context, set.Set[ids.NodeID], uint32, []byte) error { return nil }
func (*gSender) SendAppResponse(context.Context, ids.NodeID, uint32, []byte) error          { return nil }
func (*gSender) SendAppError(context.Context, ids.NodeID, uint32, int32, string) error      { return nil }
func (s *gSender) SendAppGossip(_ context.Context, cfg common.SendConfig, b []byte) error {
	var ns []int
	if len(b) < s.prefix || json.Unmarshal(b[s.prefix:], &ns) != nil || cfg.Validators != 0 || cfg.NonValidators != 0 || cfg.Peers != 0 {
		s.bad++
		return nil
	}
	to := []string{}
	for n := range cfg.NodeIDs {
		to = append(to, s.names[n])
	}
	sort.Strings(to)
	s.msgs = append(s.msgs, gMsg{to: to, txs: ns})
	return nil
}

var gNames = []string{"me", "n1", "n2", "n3"}

func gNode(i int) ids.NodeID {
	var n ids.NodeID
	n[0] = byte(i + 1)
	return n
}

type gGroup struct {
	name      string
	strategy  string
	maxSize   int
	cacheSize int
}

var gGroups = []gGroup{
	{"g0", "proposers", 3, 64},
	{"g1", "proposers", 5, 2},
	{"g2", "assigner", 4, 64},
	{"g3", "assigner", 3, 1},
}

type gScn struct {
	t     *testing.T
	grp   gGroup
	txs   []*gTx
	pool  *gPool
	sub   *gSubmitter
	vals  *gValidators
	snd   *gSender
	g     *gossiper.Target[*gTx]
	stop  chan struct{}
	lines []map[string]any
	stats map[string]int
}

func (s *gScn) poolSet() []int {
	out := []int{}
	for _, t := range s.txs {
		if s.pool.m.Has(context.Background(), t.GetID()) {
			out = append(out, t.n)
		}
	}
	return out
}

func newGScn(t *testing.T, grp gGroup, rng *rand.Rand, stats map[string]int) *gScn {
	s := &gScn{t: t, grp: grp, stop: make(chan struct{}), stats: stats}
	base := time.Now().UnixMilli()
	n := 3 + rng.Intn(3)
	sizes, lifes, assign := []int{}, []string{}, []string{}
	asg := &gAssigner{assign: map[int]ids.NodeID{}}
	for i := 1; i <= n; i++ {
		tx := &gTx{n: i, size: 1 + rng.Intn(grp.maxSize)}
		if rng.Intn(12) == 0 {
			tx.size = grp.maxSize + 1 // can never be gossiped
		}
		switch r := rng.Intn(10); {
		case r == 0:
			tx.expiry, lifes = base-60_000, append(lifes, "expired")
		case r == 1:
			tx.expiry, lifes = base+2_500, append(lifes, "short")
		default:
			tx.expiry, lifes = base+3_600_000, append(lifes, "long")
		}
		a := rng.Intn(5) // 0..3 node index, 4 = unassigned
		if a < 4 {
			asg.assign[i] = gNode(a)
			assign = append(assign, gNames[a])
		} else {
			assign = append(assign, "none")
		}
		sizes = append(sizes, tx.size)
		s.txs = append(s.txs, tx)
	}
	mp := mempool.New[*gTx](trace.Noop, 1000, 1000)
	s.pool = &gPool{m: mp}
	s.sub = &gSubmitter{m: mp}
	s.vals = &gValidators{self: gNode(0), props: set.NewSet[ids.NodeID](4)}
	s.snd = &gSender{prefix: len(p2p.ProtocolPrefix(0)), names: map[ids.NodeID]string{}}
	for i, nm := range gNames {
		s.snd.names[gNode(i)] = nm
	}
	var strat gossiper.TargetStrategy[*gTx]
	if grp.strategy == "proposers" {
		strat = &gossiper.TargetProposers[*gTx]{Validators: s.vals, Config: gossiper.DefaultTargetProposerConfig()}
	} else {
		strat = &gossiper.TargetAssigner[*gTx]{NodeID: gNode(0), Assigner: asg}
	}
	cfg := &gossiper.TargetConfig{GossipMinLife: 5000, GossipMaxSize: grp.maxSize, GossipMinDelay: 50, NoGossipBuilderDiff: 1,
		VerifyTimeout: 1000, SeenCacheSize: grp.cacheSize}
	g, err := gossiper.NewTarget[*gTx](trace.Noop, logging.NoLog{}, prometheus.NewRegistry(), s.pool, &gSerializer{txs: s.txs},
		s.sub, s.vals, time.Hour, strat, cfg, s.stop)
	if err != nil {
		t.Fatal(err)
	}
	nw, err := p2p.NewNetwork(logging.NoLog{}, s.snd, prometheus.NewRegistry(), "p2p")
	if err != nil {
		t.Fatal(err)
	}
	g.Start(nw.NewClient(0))
	s.g = g
	s.lines = append(s.lines, map[string]any{"ev": "reset", "sizes": sizes, "lifes": lifes, "assign": assign,
		"strategy": grp.strategy, "maxsize": grp.maxSize, "cachesize": grp.cacheSize})
	return s
}

func (s *gScn) add(n int) {
	s.pool.m.Add(context.Background(), []*gTx{s.txs[n-1]})
	s.lines = append(s.lines, map[string]any{"ev": "add", "t": n, "pool": s.poolSet()})
}

func (s *gScn) receive(from int, ns []int, garbage bool) {
	b, _ := json.Marshal(ns)
	if garbage {
		b = []byte("{not a batch")
	}
	s.sub.submitted = nil
	sent := len(s.snd.msgs)
	err := s.g.HandleAppGossip(context.Background(), gNode(from), b)
	sub := append([]int{}, s.sub.submitted...)
	s.lines = append(s.lines, map[string]any{"ev": "receive", "txs": ns, "garbage": garbage, "err": err != nil,
		"submitted": sub, "pool": s.poolSet(), "sentmsgs": len(s.snd.msgs) - sent})
	s.stats["receive"]++
	if garbage {
		s.stats["garbage"]++
	}
}

func (s *gScn) force(props []int, perr bool) {
	s.vals.props = set.NewSet[ids.NodeID](4)
	pn := []string{}
	for _, p := range props {
		s.vals.props.Add(gNode(p))
		pn = append(pn, gNames[p])
	}
	sort.Strings(pn)
	s.vals.err = nil
	if perr {
		s.vals.err = errors.New("no validator set")
	}
	s.pool.visited, s.snd.msgs = nil, nil
	err := s.g.Force(context.Background())
	msgs := []map[string]any{}
	ntx := 0
	for _, m := range s.snd.msgs {
		msgs = append(msgs, map[string]any{"to": m.to, "txs": m.txs})
		ntx += len(m.txs)
	}
	vis := append([]int{}, s.pool.visited...)
	s.lines = append(s.lines, map[string]any{"ev": "force", "props": pn, "perr": perr, "err": err != nil, "visited": vis,
		"msgs": msgs, "pool": s.poolSet(), "badsends": s.snd.bad})
	s.stats["force"]++
	if ntx > 0 {
		s.stats["force_sent"]++
	}
	if err != nil {
		s.stats["force_err"]++
	}
	if len(vis) > 0 && len(vis) < len(s.poolSet()) {
		s.stats["force_stopped_by_size"]++
	}
}

func (s *gScn) finish(t *testing.T, name string) {
	close(s.stop)
	s.g.Done()
	f, err := os.Create(filepath.Join(os.Getenv("VERIF_OUT"), name+".ndjson"))
	if err != nil {
		t.Fatal(err)
	}
	enc := json.NewEncoder(f)
	for _, l := range s.lines {
		if err := enc.Encode(l); err != nil {
			t.Fatal(err)
		}
	}
	f.Close()
}

func TestVerifGossipRecord(t *testing.T) {
	seed := int64(gsEnvInt("VERIF_SEED", 1))
	only := gsEnvInt("VERIF_ONLY", -1)
	per := gsEnvInt("VERIF_SCENARIOS", 150)
	depth := gsEnvInt("VERIF_DEPTH", 12)
	stats := map[string]int{}
	n := 0
	for gi, grp := range gGroups {
		for i := 0; i < per; i++ {
			if only >= 0 && only != n {
				n++
				continue
			}
			rng := rand.New(rand.NewSource(seed*1_000_003 + int64(gi)*100_000 + int64(i)))
			s := newGScn(t, grp, rng, stats)
			nt := len(s.txs)
			for j := 0; j < depth; j++ {
				switch r := rng.Intn(10); {
				case r < 4:
					s.add(1 + rng.Intn(nt))
				case r < 6:
					k := 1 + rng.Intn(2)
					ns := []int{}
					for len(ns) < k {
						ns = append(ns, 1+rng.Intn(nt))
					}
					s.receive(1+rng.Intn(3), ns, rng.Intn(8) == 0)
				default:
					props := []int{}
					for p := 0; p < 4; p++ {
						if rng.Intn(2) == 0 {
							props = append(props, p)
						}
					}
					s.force(props, rng.Intn(10) == 0)
				}
			}
			s.finish(t, fmt.Sprintf("%s-%05d", grp.name, n))
			n++
		}
	}
	stats["scenarios"] = n
	b, _ := json.Marshal(stats)
	if err := os.WriteFile(filepath.Join(os.Getenv("VERIF_OUT"), "gossip_stats.json"), b, 0o644); err != nil {
		t.Fatal(err)
	}
}
