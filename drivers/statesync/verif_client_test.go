//go:build verif

// X08 driver (see /verif/spec/SyncClient.tla): a real statesync.Client over memdb with scripted syncers, onStart /
// onFinish callbacks and chain client.  Every scenario: optionally pre-set the on-disk marker, create the client, call
// Accept(target), let the syncers' Wait calls complete in a scripted order (some failing), then record what the client
// called (in order), what Wait() reports, the marker on disk and whether a fatal error was logged.  The client logs
// Fatal and then panics on purpose; the driver's logger parks the goroutine inside Fatal instead, so the process lives.
package statesync_test

import (
	"context"
	"encoding/json"
	"errors"
	"fmt"
	"math/rand"
	"os"
	"path/filepath"
	"strconv"
	"sync"
	"testing"
	"time"

	"github.com/ava-labs/avalanchego/database"
	"github.com/ava-labs/avalanchego/database/memdb"
	"github.com/ava-labs/avalanchego/ids"
	"github.com/ava-labs/avalanchego/snow/engine/snowman/block"
	"github.com/ava-labs/avalanchego/utils/logging"
	"go.uber.org/zap"

	"github.com/ava-labs/hypersdk/statesync"
)

func scEnvInt(name string, def int) int {
	if v, err := strconv.Atoi(os.Getenv(name)); err == nil {
		return v
	}
	return def
}

type scBlock struct{ h uint64 }

func (b *scBlock) String() string       { return fmt.Sprintf("blk%d", b.h) }
func (b *scBlock) GetID() ids.ID        { return ids.ID{byte(b.h)} }
func (b *scBlock) GetHeight() uint64    { return b.h }
func (b *scBlock) GetBytes() []byte     { return []byte{byte(b.h)} }
func (b *scBlock) GetStateRoot() ids.ID { return ids.ID{0xff, byte(b.h)} }

type scChain struct{ last uint64 }

func (c *scChain) LastAcceptedBlock(context.Context) *scBlock { return &scBlock{c.last} }
func (*scChain) ParseBlock(_ context.Context, b []byte) (*scBlock, error) {
	if len(b) != 1 {
		return nil, errors.New("bad block")
	}
	return &scBlock{uint64(b[0])}, nil
}

type scLogger struct {
	logging.NoLog
	fatal chan struct{}
}

func (l *scLogger) Fatal(string, ...zap.Field) {
	select {
	case l.fatal <- struct{}{}:
	default:
	}
	select {} // the code panics right after logging Fatal; park instead
}

type scWorld struct {
	mu      sync.Mutex
	calls   [][]any
	fail    map[string]bool
	release []chan error
}

func (w *scWorld) record(name string, i int) {
	w.mu.Lock()
	w.calls = append(w.calls, []any{name, i})
	w.mu.Unlock()
}

type scSyncer struct {
	w *scWorld
	i int
}

func (s *scSyncer) Start(_ context.Context, t *scBlock) error {
	s.w.record("start", s.i)
	if s.w.fail[fmt.Sprintf("start:%d", s.i)] {
		return errors.New("start failed")
	}
	return nil
}

func (s *scSyncer) Wait(context.Context) error {
	err := <-s.w.release[s.i-1]
	s.w.record("waited", s.i)
	return err
}
func (*scSyncer) Close() error { return nil }
func (s *scSyncer) UpdateSyncTarget(_ context.Context, t *scBlock) error {
	s.w.record("update", s.i)
	if s.w.fail[fmt.Sprintf("update:%d", s.i)] {
		return errors.New("update failed")
	}
	return nil
}

// a database whose write of the cleared marker can be made to fail
type scDB struct {
	database.Database
	failClear bool
}

func (d *scDB) Put(k, v []byte) error {
	if d.failClear && string(k) == "is_syncing" && len(v) == 1 && v[0] == 0 {
		return errors.New("disk full")
	}
	return d.Database.Put(k, v)
}

func TestVerifSyncClient(t *testing.T) {
	seed := int64(scEnvInt("VERIF_SEED", 1))
	only := scEnvInt("VERIF_ONLY", -1)
	n := scEnvInt("VERIF_SCENARIOS", 300)
	stats := map[string]int{}
	var lines []map[string]any
	ctx := context.Background()
	for i := 0; i < n; i++ {
		if only >= 0 && only != i {
			continue
		}
		rng := rand.New(rand.NewSource(seed*1_000_003 + int64(i)))
		nsync := 1 + rng.Intn(3)
		flag0 := rng.Intn(4) == 0
		minBlocks := uint64(rng.Intn(4))
		last, target := uint64(rng.Intn(6)), uint64(rng.Intn(8))
		w := &scWorld{fail: map[string]bool{}}
		failList := [][]any{}
		addFail := func(name string, k int) {
			key := name
			if k > 0 {
				key = fmt.Sprintf("%s:%d", name, k)
			}
			if !w.fail[key] {
				w.fail[key] = true
				failList = append(failList, []any{name, k})
			}
		}
		if rng.Intn(3) == 0 { // one or two failing points
			for k := 1 + rng.Intn(2); k > 0; k-- {
				switch rng.Intn(6) {
				case 0:
					addFail("onStart", 0)
				case 1:
					addFail("start", 1+rng.Intn(nsync))
				case 2:
					addFail("wait", 1+rng.Intn(nsync))
				case 3, 4:
					addFail("onFinish", 0)
				default:
					addFail("clearFlag", 0)
				}
			}
		}
		db := &scDB{Database: memdb.New(), failClear: w.fail["clearFlag"]}
		if flag0 {
			_ = db.Database.Put([]byte("is_syncing"), []byte{1})
		}
		lg := &scLogger{fatal: make(chan struct{}, 4)}
		syncers := []statesync.Syncer[*scBlock]{}
		for k := 1; k <= nsync; k++ {
			syncers = append(syncers, &scSyncer{w: w, i: k})
			w.release = append(w.release, make(chan error, 1))
		}
		client, err := statesync.NewAggregateClient[*scBlock](lg, &scChain{last: last}, db, syncers,
			func(context.Context, *scBlock) error {
				w.record("onStart", 0)
				if w.fail["onStart"] {
					return errors.New("onStart failed")
				}
				return nil
			},
			func(context.Context) error {
				w.record("onFinish", 0)
				if w.fail["onFinish"] {
					return errors.New("onFinish failed")
				}
				return nil
			}, minBlocks)
		if err != nil {
			t.Fatal(err)
		}
		must := client.MustStateSync()
		// Accept (through the state summary, as the engine does); it parks inside Fatal when a start step fails
		type accRes struct {
			mode block.StateSyncMode
			err  error
		}
		accCh := make(chan accRes, 1)
		go func() {
			m, err := statesync.NewSyncableBlock[*scBlock](&scBlock{target}, client).Accept(ctx)
			accCh <- accRes{m, err}
		}()
		mode, fatal := "parked", 0
		select {
		case r := <-accCh:
			switch {
			case r.err != nil:
				mode = "error"
			case r.mode == block.StateSyncSkipped:
				mode = "skipped"
			case r.mode == block.StateSyncDynamic:
				mode = "dynamic"
			default:
				mode = "other"
			}
		case <-lg.fatal:
			fatal++
		case <-time.After(30 * time.Second):
			mode = "hung"
		}
		// the syncers complete in a scripted order
		order := rng.Perm(nsync)
		ord := []int{}
		if mode == "dynamic" {
			for _, k := range order {
				ord = append(ord, k+1)
				var e error
				if w.fail[fmt.Sprintf("wait:%d", k+1)] {
					e = errors.New("syncer failed")
				}
				w.release[k] <- e
				// wait until the client has seen it
				deadline := time.Now().Add(30 * time.Second)
				for time.Now().Before(deadline) {
					w.mu.Lock()
					seen := false
					for _, c := range w.calls {
						if c[0] == "waited" && c[1] == k+1 {
							seen = true
						}
					}
					w.mu.Unlock()
					if seen {
						break
					}
					time.Sleep(time.Millisecond)
				}
			}
		}
		// outcome: a fatal error parks the finishing goroutine, otherwise Wait() returns
		waitres := "pending"
		wctx, cancel := context.WithTimeout(ctx, 30*time.Second)
		done := make(chan error, 1)
		go func() { done <- client.Wait(wctx) }()
		select {
		case err := <-done:
			if err == nil {
				waitres = "nil"
			} else if !errors.Is(err, context.DeadlineExceeded) {
				waitres = "err"
			}
		case <-lg.fatal:
			fatal++
			select {
			case err := <-done:
				if err == nil {
					waitres = "nil"
				} else {
					waitres = "err"
				}
			case <-time.After(300 * time.Millisecond):
			}
		}
		cancel()
		select {
		case <-lg.fatal:
			fatal++
		case <-time.After(20 * time.Millisecond):
		}
		flag, _ := client.GetDiskIsSyncing()
		// a restart on the same disk
		c2, err := statesync.NewAggregateClient[*scBlock](lg, &scChain{last: last}, db, nil, nil, nil, minBlocks)
		if err != nil {
			t.Fatal(err)
		}
		w.mu.Lock()
		calls := append([][]any{}, w.calls...)
		w.mu.Unlock()
		if calls == nil {
			calls = [][]any{}
		}
		lines = append(lines, map[string]any{"ev": "run", "n": nsync, "flag0": flag0, "must": must, "last": int(last), "target": int(target),
			"min": int(minBlocks), "fail": failList, "order": ord, "mode": mode, "calls": calls, "waitres": waitres, "flag": flag,
			"fatal": fatal, "started": client.Started(), "must2": c2.MustStateSync()})
		stats["mode_"+mode]++
		stats["waitres_"+waitres]++
		if fatal > 0 {
			stats["fatal"]++
		}
		if flag0 {
			stats["marker_preset"]++
		}
		stats["scenarios"]++
	}
	f, err := os.Create(filepath.Join(os.Getenv("VERIF_OUT"), "sc-00000.ndjson"))
	if err != nil {
		t.Fatal(err)
	}
	enc := json.NewEncoder(f)
	_ = enc.Encode(map[string]any{"ev": "reset"})
	for _, l := range lines {
		if err := enc.Encode(l); err != nil {
			t.Fatal(err)
		}
	}
	f.Close()
	b, _ := json.Marshal(stats)
	if err := os.WriteFile(filepath.Join(os.Getenv("VERIF_OUT"), "sc_stats.json"), b, 0o644); err != nil {
		t.Fatal(err)
	}
}
