SPECIFICATION Spec
CONSTANTS
  MaxNodes = 4
  Variant = "code"
INVARIANTS TypeOK IsSequence Exclusive Detached
PROPERTIES StepOK
CHECK_DEADLOCK FALSE
