--------------------------- MODULE DSMRStorage_MC ---------------------------
(* design step for C36: every history of adds / cert sets / min advances / reopens over 3 chunks of     *)
(* 2 producers, every expiry assignment in 1..MaxE, min up to MaxT.  Sizes 1,2,4 make the per-producer  *)
(* weight identify the pending subset.                                                                   *)
EXTENDS DSMRStorage
CONSTANTS MaxT, MaxE, Original

Attrs == { [c \in Chunks |-> [p |-> IF c = "c3" THEN "p2" ELSE "p1",
                               e |-> ex[c],
                               sz |-> CASE c = "c1" -> 1 [] c = "c2" -> 2 [] OTHER -> 4]]
           : ex \in [Chunks -> 1..MaxE] }

MCInit == \E a \in Attrs : StorageInit(a)

MCNext ==
  \/ \E c \in Chunks : AddLocal(c)
  \/ \E c \in Chunks, ok \in BOOLEAN : VerifyRemote(c, ok)
  \/ \E c \in Chunks, v \in BOOLEAN : SetCert(c, v)
  \/ \E t \in 0..MaxT, save \in SUBSET pend :
        IF Original THEN SetMinAsOriginallyCoded(t, save) ELSE SetMin(t, save)
  \/ Reopen({})

MCSpec == MCInit /\ [][MCNext]_svars
=============================================================================
