--------------------------- MODULE DSMRStorage_MC ---------------------------
(* design step for C36: every history of adds / cert sets / min advances / reopens over 3 chunks of     *)
(* 2 producers, every expiry assignment in 1..MaxE, min up to MaxT.  Sizes 1,2,4 make the per-producer  *)
(* weight identify the pending subset.                                                                   *)
(* Crash points: the process may die inside any AddLocal / VerifyRemote / SetMin (CrashDuring).  TwoWrites *)
(* = TRUE is the sensitivity variant in which SetMin persists the min slot in a separate write before its   *)
(* batch: a crash may then expose the new minimum with the old tables and CrashAtomic must fail.             *)
EXTENDS DSMRStorage
CONSTANTS MaxT, MaxE, Original, TwoWrites
VARIABLE atom     \* the last crash exposed the image before or after the whole call
mvars == <<svars, atom>>

Attrs == { [c \in Chunks |-> [p |-> IF c = "c3" THEN "p2" ELSE "p1",
                               e |-> ex[c],
                               sz |-> CASE c = "c1" -> 1 [] c = "c2" -> 2 [] OTHER -> 4]]
           : ex \in [Chunks -> 1..MaxE] }

MCInit == atom = TRUE /\ \E a \in Attrs : StorageInit(a)

Calls ==
  \/ \E c \in Chunks : AddLocal(c)
  \/ \E c \in Chunks, ok \in BOOLEAN : VerifyRemote(c, ok)
  \/ \E c \in Chunks, v \in BOOLEAN : SetCert(c, v)
  \/ \E t \in 0..MaxT, save \in SUBSET pend :
        IF Original THEN SetMinAsOriginallyCoded(t, save) ELSE SetMin(t, save)
  \/ Reopen({})

Crashes ==
  \/ \E c \in Chunks : CrashDuring(PutImage(c), {}) /\ atom' = TRUE
  \/ \E t \in min..MaxT, save \in SUBSET pend :
        LET full == SetMinImage(t, save, ~Original) IN
        IF TwoWrites
          THEN /\ CrashDuringImages({Image, <<dPend, dAcc, t>>, full}, {})
               /\ atom' = (<<dPend', dAcc', dMin'>> \in {Image, full})
          ELSE CrashDuring(full, {}) /\ atom' = TRUE

MCNext == (Calls /\ UNCHANGED atom) \/ Crashes
MCSpec == MCInit /\ [][MCNext]_mvars
CrashAtomic == atom
=============================================================================
