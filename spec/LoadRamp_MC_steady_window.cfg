SPECIFICATION Spec
CONSTANTS
  MinTPS = 2
  MaxTPS = 4
  StepTPS = 2
  MaxAttempts = 3
  Terminate = FALSE
  NAgents = 2
  MulP = 3
  MulQ = 2
  MaxRounds = 8
  Variant = "window"
INVARIANTS TypeOK RampShape AchievedRule GiveUpRule WindowIsOnePeriod IssueRateCoversTarget
PROPERTIES StepOK
CHECK_DEADLOCK FALSE
