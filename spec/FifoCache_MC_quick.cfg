SPECIFICATION Spec
CONSTANTS
  Keys = {1, 2, 3}
  Vals = {1, 2}
  Limits = {1, 2}
  Variant = "code"
INVARIANTS TypeOK Bounded LatestValue InsertionOrder QueueMatchesMap
PROPERTIES StepOK
CHECK_DEADLOCK FALSE
