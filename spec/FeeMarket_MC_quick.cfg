SPECIFICATION AllSpec
CONSTANTS
  MAXU = 5
  W = 3
  Denoms = {1, 2, 5}
  Mins = {0, 1, 2, 3, 4, 5}
  Sinces = {0, 2, 3, 4, 5}
INVARIANTS FloorAtMin Direction Proportional Saturates MonotoneInUsage WindowInWord WindowShift TotalIsCappedSum TotalMonotone
CHECK_DEADLOCK FALSE
