SPECIFICATION AllSpec
CONSTANTS
  MAXU = 7
  W = 3
  Denoms = {1, 2, 7}
  Mins = {0, 1, 2, 3, 4, 5, 6, 7}
  Sinces = {0, 2, 3, 4, 7}
INVARIANTS FloorAtMin Direction Proportional Saturates MonotoneInUsage WindowInWord WindowShift TotalIsCappedSum TotalMonotone
CHECK_DEADLOCK FALSE
