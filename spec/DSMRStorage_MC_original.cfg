SPECIFICATION MCSpec
CONSTANTS
  Chunks = {"c1", "c2", "c3"}
  Producers = {"p1", "p2"}
  MaxT = 4
  MaxE = 3
  Original = TRUE
  TwoWrites = FALSE
INVARIANTS StorageTypeOK Durable WeightExact CertsPending NoLeak CrashAtomic
PROPERTIES ReopenInvisible
