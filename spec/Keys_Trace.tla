------------------------------ MODULE Keys_Trace ------------------------------
(* Binding step (tv) for C40.  One row per call of the real code           *)
(* (drivers/keys, drivers/state/tstate/verif_c40_test.go,                  *)
(* drivers/chain/verif_c40_test.go).  Common fields: klen/hi/lo = length   *)
(* and last two bytes of the key (-1 when absent), n = value length,       *)
(* nok/nc = what the real keys.NumChunks reported for that length.         *)
(* The property is stated with the *observed* chunk count (nok, nc), which *)
(* only has to be admissible (Keys!ChunkCountAdmissible); a row whose      *)
(* count is admissible but differs from the transcribed formula n/64+1 is  *)
(* marked ROW_NOTE (evidence), not rejected.                               *)
EXTENDS Keys, TLC, Json, IOUtils, Sequences

VARIABLE l
Trace == ndJsonDeserialize(IOEnv.TRACE)
T     == Trace[l]

K(t)   == Key(t.klen, t.hi, t.lo)
B(x)   == IF x THEN 1 ELSE 0
Adm(t) == ChunkCountAdmissible(t.n, t.nok = 1, t.nc)

Reason(t) ==
  CASE t.kind \in {"maxchunks", "decodechunks"} ->
         IF t.ok # B(t.klen >= SuffixLen) THEN "short-key-handling"
         ELSE IF t.ok = 1 /\ t.c # Suffix(K(t)) THEN "suffix-not-big-endian" ELSE "ok"
    [] t.kind = "numchunks" -> IF Adm(t) THEN "ok" ELSE "chunk-count-not-admissible"
    [] t.kind = "valid" -> IF t.res = B(t.klen >= SuffixLen) THEN "ok" ELSE "short-key-handling"
    [] t.kind = "verify" ->
         IF ~Adm(t) THEN "chunk-count-not-admissible"
         ELSE IF t.res = B(WriteAllowed(K(t), t.nok = 1, t.nc)) THEN "ok"
         ELSE IF t.klen < SuffixLen THEN "short-key-handling" ELSE "verifyvalue-differs-from-chunk-rule"
    [] t.kind = "verifykey" ->
         IF t.res = B(t.klen <= t.mks /\ t.klen >= SuffixLen /\ Suffix(K(t)) <= t.mvc) THEN "ok"
         ELSE IF t.klen < SuffixLen THEN "short-key-handling" ELSE "verifykey-differs-from-rule"
    [] t.kind = "encode" ->                       \* n = maxSize; o* = the encoded key
         IF ~Adm(t) THEN "chunk-count-not-admissible"
         ELSE IF t.ok # t.nok THEN "encode-ok-differs-from-chunk-count"
         ELSE IF t.ok = 1 /\ (t.olen # t.klen + SuffixLen \/ t.keep # 1) THEN "encode-does-not-append-two-bytes"
         ELSE IF t.ok = 1 /\ t.ohi * 256 + t.olo # t.nc THEN "encoded-suffix-not-big-endian-chunk-count"
         ELSE "ok"
    [] t.kind = "encodechunks" ->
         IF t.olen = t.klen + SuffixLen /\ t.keep = 1 /\ t.ohi * 256 + t.olo = t.c THEN "ok"
         ELSE "encoded-suffix-not-big-endian-chunk-count"
    [] t.kind = "admit" ->                        \* Encode(key, max) succeeded, value of n <= max bytes
         IF t.n <= t.max /\ t.res # 1 THEN "encoded-key-rejects-value-within-max" ELSE "ok"
    [] t.kind = "add" ->
         IF t.res = B(t.klen >= SuffixLen) /\ t.present = t.res THEN "ok" ELSE "short-key-handling"
    [] t.kind = "statekeys" ->
         IF t.err = B(t.klen < SuffixLen) THEN "ok"
         ELSE IF t.klen < SuffixLen THEN "short-key-handling" ELSE "valid-declared-key-refused"
    [] t.kind = "insert" ->                       \* the scope grants every permission on the key
         IF ~Adm(t) THEN "chunk-count-not-admissible"
         ELSE LET allowed == WriteAllowed(K(t), t.nok = 1, t.nc) IN
              IF allowed /\ t.ires # "ok" THEN "insert-refuses-fitting-value"
              ELSE IF ~allowed /\ t.ires = "ok" THEN
                     (IF t.klen < SuffixLen THEN "short-key-handling" ELSE "insert-accepts-oversized-value")
              ELSE IF t.stored # B(t.ires = "ok") THEN "insert-result-and-state-disagree"
              ELSE "ok"
    [] OTHER -> "unknown-row-kind"

(* admissible chunk count that is not the transcribed formula: evidence only *)
Drift(t) == t.kind \in {"numchunks", "verify", "encode", "insert"}
            /\ (NumChunks(t.n).ok # (t.nok = 1) \/ (t.nok = 1 /\ NumChunks(t.n).c # t.nc))

TraceInit == l = 2 /\ TLCSet(1, 1) /\ Trace[1].ev = "reset"
TRow == /\ l <= Len(Trace) /\ T.ev = "row" /\ l' = l + 1
        /\ LET c == Reason(T) IN
             IF c # "ok" THEN PrintT(<<"ROW_REJECTED", l, c>>)
             ELSE IF Drift(T) THEN PrintT(<<"ROW_NOTE", l, "chunk-formula">>) ELSE TRUE
TReset == l <= Len(Trace) /\ T.ev = "reset" /\ l' = l + 1
TraceSpec == TraceInit /\ [][TRow \/ TReset]_l

HWM      == TLCSet(1, IF TLCGet(1) > l - 1 THEN TLCGet(1) ELSE l - 1)
Accepted == PrintT(<<"TRACE_HWM", TLCGet(1)>>) /\ TLCGet(1) = Len(Trace)
=============================================================================
