SPECIFICATION MCSpec
CONSTANTS
  VB = 4
  Maxes = {7, 12}
  Caps = {1, 2}
  Sizes = {0, 1, 2, 3, 4, 5, 6, 7, 8, 9, 10, 11, 12, 13}
  MaxCalls = 4
VIEW View
INVARIANTS FIFOExactlyOnce QueueIsKept DroppedOnlyWhenFull ClosedFlushed BatchWithinMax PendingSizeExact QueueBounded
CHECK_DEADLOCK FALSE
