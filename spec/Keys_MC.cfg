SPECIFICATION Spec
CONSTANTS
  KeyLens = {0, 1, 2, 3, 4}
  Suffixes = {0, 1, 2, 255, 256, 65534, 65535}
  Lens = {0, 1, 63, 64, 65, 127, 128, 4194175, 4194176, 4194177, 4194239, 4194240, 4194241}
INVARIANT SuffixIsBigEndian
INVARIANT NumChunksAdmissible
INVARIANT NumChunksMonotone
INVARIANT WriteRule
INVARIANT EncodeAdmitsUpToMax
INVARIANT EncodeIsTight
INVARIANT EncodeFailsOnlyBeyondLimit
INVARIANT ShortKeysInvalidEverywhere
INVARIANT OversizedNeverWritable
CHECK_DEADLOCK FALSE
