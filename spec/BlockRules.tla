----------------------------- MODULE BlockRules -----------------------------
(* Design-step state machines for the rule-shaped chain properties, built on *)
(* the operators of Block.tla that the trace spec binds to the real code:    *)
(*  C11  a chain grows by children that pass HeaderVerdicts; timestamps      *)
(*       never decrease and heights increase by one (from genesis on);       *)
(*  C10  PreVerdict accepts exactly the transactions the statement admits;   *)
(*  C12  per-block consumption is all-or-nothing and never exceeds the max;  *)
(*  C07  a transaction is included only if its fee is within its maximum.    *)
(* Mode selects which machine runs (one TLC config each).                    *)
EXTENDS Block

CONSTANTS Mode,            \* "c11" | "c11-coded" | "c10" | "c12" | "c07" | "c07-coded"
          MinGap, EmptyGap, MaxTs, Window, MaxActions, GenesisHeaderTs

VARIABLES h, ts,           \* C11: accepted tip (height, header timestamp) ...
          sts,             \*      ... and the timestamp recorded in its post-state (what the code reads)
          okflag,          \* verdict bookkeeping of the last step
          consumed,        \* C12
          included         \* C07: set of [fee, maxfee] included so far
vars == <<h, ts, sts, okflag, consumed, included>>

R0 == [mingap |-> MinGap, minemptygap |-> EmptyGap, window |-> Window, maxactions |-> MaxActions,
       basecompute |-> 1, keyread |-> 1, valread |-> 1, keyalloc |-> 2, valalloc |-> 1, keywrite |-> 1, valwrite |-> 1,
       maxunits |-> <<4, 4, 4, 4, 4>>]

Init == /\ h = 0 /\ ts = GenesisHeaderTs /\ sts = 0 /\ okflag = TRUE
        /\ consumed = Zero5 /\ included = {}

(* ---- C11 ------------------------------------------------------------------------------------------- *)
Child(coded) ==
  \E nh \in {h, h + 1, h + 2}, nts \in 0..MaxTs, ntxs \in {0, 1} :
    LET st  == [height |-> h, timestamp |-> sts]
        hdr == [height |-> nh, ts |-> nts, toolate |-> FALSE, rootok |-> TRUE, pdelta |-> nts - ts]
        v   == HeaderVerdicts(st, hdr, ntxs, R0, IF coded THEN nts - sts ELSE hdr.pdelta)
    IN /\ v = {}
       /\ okflag' = (nh = h + 1 /\ nts >= ts + MinGap /\ (ntxs = 0 => nts >= ts + EmptyGap))
       /\ h' = nh /\ ts' = nts /\ sts' = nts
       /\ UNCHANGED <<consumed, included>>

(* every accepted child satisfies the statement, hence timestamps never decrease and heights step by one *)
HeaderOK == okflag
KF_C11_design == h = 1 /\ GenesisHeaderTs > 0        \* the only state the coded rule can get wrong: the genesis child

(* ---- C10 ------------------------------------------------------------------------------------------- *)
TxSpace == [expiry : {e \in -2000..(MaxTs + Window + 2000) : e % 500 = 0}, wrongcid : BOOLEAN, nact : 0..(MaxActions + 1),
            astart : {-1, 0, 1000, 2000}, aend : {-1, 0, 1000, 2000}, authfrom : {-1, 1000}, authto : {-1, 1000}]
MkTx(x) == [expiry |-> x.expiry, wrongcid |-> x.wrongcid,
            actions |-> [i \in 1..x.nact |-> [start |-> x.astart, end |-> x.aend, compute |-> 1, ops |-> <<>>]],
            authfrom |-> x.authfrom, authto |-> x.authto]
Statement(x, t) ==       \* the statement of C10, written independently of PreVerdict's cascade
  /\ ~x.wrongcid
  /\ x.expiry % 1000 = 0 /\ x.expiry >= t /\ x.expiry <= t + Window
  /\ x.nact <= MaxActions
  /\ (x.nact > 0 => (x.astart < 0 \/ t >= x.astart) /\ (x.aend < 0 \/ t <= x.aend))
  /\ (x.authfrom < 0 \/ t >= x.authfrom) /\ (x.authto < 0 \/ t <= x.authto)
PreVerdictExact == Mode = "c10" => \A x \in TxSpace, t \in {0, 1000, 1500, 2000} : (PreVerdict(MkTx(x), t, R0) = "") <=> Statement(x, t)

(* ---- C12 ------------------------------------------------------------------------------------------- *)
UnitVecs == [Dims -> 0..3]
(* fees.Manager.Consume as coded: first pass checks every dimension, second pass adds *)
Consume ==
  \E u \in UnitVecs :
    /\ IF Fits(consumed, u, R0.maxunits) THEN consumed' = Add5(consumed, u) /\ okflag' = TRUE
       ELSE consumed' = consumed /\ okflag' = FALSE
    /\ UNCHANGED <<h, ts, sts, included>>
WithinMax == \A i \in Dims : consumed[i] <= R0.maxunits[i]
FailedConsumeUnchanged == [][okflag' = FALSE => consumed' = consumed]_vars

(* ---- C07 ------------------------------------------------------------------------------------------- *)
Include(coded) ==
  \E fee \in 0..3, maxfee \in 0..3 :
    /\ (coded \/ fee <= maxfee)          \* as coded: no gate compares the fee with the signed maximum
    /\ included' = included \cup {[fee |-> fee, maxfee |-> maxfee]}
    /\ UNCHANGED <<h, ts, sts, okflag, consumed>>
ChargedWithinMax == \A t \in included : t.fee <= t.maxfee

Next == \/ Mode = "c11" /\ Child(FALSE)
        \/ Mode = "c11-coded" /\ Child(TRUE)
        \/ Mode = "c12" /\ Consume
        \/ Mode = "c07" /\ Include(FALSE)
        \/ Mode = "c07-coded" /\ Include(TRUE)
Spec == Init /\ [][Next]_vars
Bound == h <= 4
(* with the rule as coded the property holds everywhere except in the delimited known-finding region *)
HeaderOKorKF == HeaderOK \/ KF_C11_design
=============================================================================
