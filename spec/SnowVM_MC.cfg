SPECIFICATION MCSpec
CONSTANTS
  Tree <- Tree7
  Root = "b0"
  InitReady = {TRUE}
  PCaps = {1, 2}
  ACaps = {2}
  MaxBacklog = 1
  MaxFaults = 1
  MaxParses = 2
  WithSync = FALSE
  FixParentMissing = TRUE
VIEW View
CHECK_DEADLOCK FALSE
INVARIANTS
  TypeOK
  VerifyOnlyOnVerifiedOrAcceptedParent
  AcceptInHeightOrderAtMostOnce
  NeverAcceptRejected
  AcceptedNotificationsMatch
  RejectedNotificationsMatch
  VerifiedNotificationsMatch
  LookupReturnsAcceptedChain
  NoFatalAccept
  AcceptParentPopulated
  EndsAtExecutedState
