SPECIFICATION TraceSpec
CONSTRAINT HWM
INVARIANTS DiagEmpty WithinMax
POSTCONDITION Accepted
CHECK_DEADLOCK FALSE
