-------------------------- MODULE SnowVMRestart_MC --------------------------
EXTENDS SnowVMRestart
CONSTANT MaxCrashes
VARIABLE crashes
MCInit == Init /\ crashes = 0
MCNext == \/ (ConsensusAccept \/ Take \/ WriteResults \/ CommitState \/ Notify \/ Finish \/ Restart) /\ UNCHANGED crashes
          \/ crashes < MaxCrashes /\ Crash /\ crashes' = crashes + 1
MCSpec == MCInit /\ [][MCNext]_<<vars, crashes>>
=============================================================================
