SPECIFICATION GSpec
CONSTANTS
  Ids = {"a", "b", "c"}
  Exps = {0, 1, 2, 3}
  TrackZeroSet = {TRUE, FALSE}
VIEW View
ACTION_CONSTRAINT Edge
INVARIANT ESTypeOK
CHECK_DEADLOCK FALSE
