SPECIFICATION Spec
CONSTANTS
  Ids = {"a", "b", "c"}
  Exps = {0, 1, 2}
  TrackZeroSet = {FALSE}
INVARIANTS ESTypeOK Refines SameResult HeapShape
PROPERTIES AddIdempotent Shrinks
