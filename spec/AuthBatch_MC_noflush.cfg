SPECIFICATION Spec
CONSTANTS
  MaxTx = 4
  MaxCores = 2
  MinBatch = 2
  ItemCap = 2
  BlockingAdd = TRUE
  FlushRemainder = FALSE
INVARIANTS VerdictCorrect EverySigChecked NoSendAfterClose NotStuck
CHECK_DEADLOCK FALSE
