------------------------------ MODULE LoadRamp ------------------------------
(* load/gradual_orchestrator.go (extra module X13): the gradual load-test    *)
(* orchestrator.  GradualOrchestrator.run evaluates one "window" per         *)
(* SustainedTime period: it reads the tracker's confirmed counter, computes  *)
(* the TPS of the window and decides                                         *)
(*   hit  (tps >= target): target >= MaxTPS -> achieved (stop if Terminate)  *)
(*                         else target += Step, attempts := 1                *)
(*   miss               : attempts >= MaxAttempts -> give up, else attempts++ *)
(* and it stops at the top of the loop as soon as the issuers' context is    *)
(* done (parent cancelled or an issuer returned an error).                   *)
(*                                                                           *)
(* RoundFn / StopFn are pure functions on a state record so that the trace   *)
(* spec can map them over a set of possible states.  The module's own        *)
(* variables add monitors that know nothing about `attempts`:                *)
(*   consec    consecutive missed windows at the current target              *)
(*   sustained targets for which a window reached the target                 *)
(*   lastWin   number of SustainedTime periods the last evaluated window     *)
(*             covered (the statement: exactly one)                          *)
EXTENDS Integers, FiniteSets

CONSTANTS MinTPS, MaxTPS, StepTPS, MaxAttempts, Terminate,
          NAgents, MulP, MulQ,      \* number of issuers, TxRateMultiplier = MulP / MulQ
          MaxRounds,                \* model-checking bound on evaluated windows
          Variant                   \* "code" | "window" (prev always advanced) | "noreset" (attempts survive an increase)

VARIABLES st, cancelled, consec, sustained, lastWin
vars == <<st, cancelled, consec, sustained, lastWin>>

Max2(a, b) == IF a > b THEN a ELSE b
Tries == Max2(MaxAttempts, 1)      \* MaxAttempts = 0 behaves like 1 (attempts starts at 1)

(* the configuration as a record, so that the trace spec can replay scenarios with different configurations *)
Cfg == [min |-> MinTPS, max |-> MaxTPS, step |-> StepTPS, att |-> MaxAttempts, term |-> Terminate]

Init0(c) == [target |-> c.min, attempts |-> 1, achieved |-> FALSE, phase |-> "run", why |-> "",
             round |-> 0, win |-> 0]

(* the orchestrator is in its steady state: it keeps measuring but takes no more decisions *)
SteadyC(c, s) == s.achieved /\ ~c.term
Steady(s) == SteadyC(Cfg, s)

(* one evaluated window (the context was live at the top of the loop); hit = tps of window (s.win, s.round+1] >= target.
   `win` is the round whose (confirmed, time) pair is `prevConfirmed / prevTime`: the code only advances it at the
   bottom of the loop, which the two `continue` paths skip. *)
RoundFn(c, s, hit) ==
  LET r  == s.round + 1
      s1 == [s EXCEPT !.round = r]
      adv(x) == [x EXCEPT !.win = r]
      stay(x) == IF Variant = "window" THEN adv(x) ELSE x
  IN IF SteadyC(c, s) THEN stay(s1)
     ELSE IF hit
          THEN IF s.target >= c.max
               THEN IF c.term THEN [s1 EXCEPT !.achieved = TRUE, !.phase = "done", !.why = "reached"]
                    ELSE stay([s1 EXCEPT !.achieved = TRUE])
               ELSE adv([s1 EXCEPT !.target = @ + c.step, !.attempts = IF Variant = "noreset" THEN @ ELSE 1])
          ELSE IF s.attempts >= c.att
               THEN [s1 EXCEPT !.phase = "done", !.why = "gaveup"]
               ELSE adv([s1 EXCEPT !.attempts = @ + 1])

(* Case 1: the issuers' context is done when the loop comes round *)
StopFn(s) == IF s.phase = "run" THEN [s EXCEPT !.phase = "done", !.why = "stopped"] ELSE s

(* Execute's verdict: nil iff the maximum was sustained (joined with the issuers' / listeners' errors) *)
Failed(s) == ~s.achieved

(* transactions one issuer sends per one-second batch: uint64(ceil(target / n) * multiplier) *)
Batch(target, n, p, q) == ((((target + n) - 1) \div n) * p) \div q

(* ---------------- model ---------------- *)
Init == st = Init0(Cfg) /\ cancelled = FALSE /\ consec = 0 /\ sustained = {} /\ lastWin = 0

Round(hit) ==
  /\ st.phase = "run" /\ ~cancelled /\ st.round < MaxRounds
  /\ st' = RoundFn(Cfg, st, hit)
  /\ lastWin' = (st.round + 1) - st.win
  /\ consec' = IF Steady(st) THEN consec ELSE IF hit THEN 0 ELSE consec + 1
  /\ sustained' = IF hit /\ ~Steady(st) THEN sustained \cup {st.target} ELSE sustained
  /\ UNCHANGED cancelled

Cancel == ~cancelled /\ cancelled' = TRUE /\ UNCHANGED <<st, consec, sustained, lastWin>>
Notice == st.phase = "run" /\ cancelled /\ st' = StopFn(st) /\ UNCHANGED <<cancelled, consec, sustained, lastWin>>

Next == (\E h \in BOOLEAN : Round(h)) \/ Cancel \/ Notice
Spec == Init /\ [][Next]_vars

(* ---------------- properties ---------------- *)
TypeOK == /\ st.target \in Nat /\ st.attempts \in 1..(Tries + MaxRounds) /\ st.achieved \in BOOLEAN
          /\ st.phase \in {"run", "done"} /\ st.why \in {"", "reached", "gaveup", "stopped"}
          /\ st.win \in 0..st.round

(* R1  ramp rule: the target starts at MinTPS and is raised by exactly Step, only after a window sustained the
       previous target, and never beyond the first target >= MaxTPS *)
RampShape ==
  /\ st.target >= MinTPS /\ (st.target - MinTPS) % Max2(StepTPS, 1) = 0
  /\ st.target > MinTPS => /\ (st.target - StepTPS) \in sustained
                           /\ st.target - StepTPS < MaxTPS
                           /\ \A t \in sustained : t <= st.target

(* R2  success means the maximum was sustained; with Terminate the run ends exactly then *)
AchievedRule ==
  /\ st.achieved => st.target >= MaxTPS /\ st.target \in sustained
  /\ (Terminate /\ st.achieved) => (st.phase = "done" /\ st.why = "reached")
  /\ st.why = "reached" => (Terminate /\ st.achieved)
  /\ (st.phase = "run" /\ ~st.achieved) => \A t \in sustained : t < MaxTPS

(* R3  the run gives up after exactly max(MaxAttempts,1) consecutive missed windows at one target, not earlier,
       not later; a hit forgives earlier misses *)
GiveUpRule ==
  /\ st.phase = "run" => consec < Tries
  /\ st.why = "gaveup" => (consec = Tries /\ ~st.achieved)

(* R4  every evaluated window covers exactly one SustainedTime period *)
WindowIsOnePeriod == lastWin <= 1

(* R5  the issuers together send at least the target when the multiplier is >= 1 *)
IssueRateCoversTarget == MulP >= MulQ => NAgents * Batch(st.target, NAgents, MulP, MulQ) >= st.target

(* step rules: nothing after the end; the target never falls; a miss never moves the target *)
StepOK == [][ /\ st.phase = "done" => st' = st
              /\ st'.target \in {st.target, st.target + StepTPS}
              /\ st'.round \in {st.round, st.round + 1}
              /\ (st.achieved => st'.achieved) ]_vars
=============================================================================
