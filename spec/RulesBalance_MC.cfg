SPECIFICATION Spec
CONSTANTS
  Balances = {0, 1, 9, 10, 99, 100, 999999999, 1000000000, 1000000001, 1234567890, 1999999999, 2000000000, 2147483647}
  IntParts = {0, 1}
INVARIANT RoundTripHolds
INVARIANT ParseThenFormat
INVARIANT TrailingZero
INVARIANT SmallestUnit
CHECK_DEADLOCK FALSE
