-------------------------------- MODULE TxKV --------------------------------
(* Design step of C03: a transaction's actions executed op by op on the KV    *)
(* machine (the abstract meaning of a transaction view, C04/C05) with the     *)
(* checkpoint taken after the fee debit and a rollback to it on the first     *)
(* failing action - exactly the steps of chain.Transaction.Execute - yields   *)
(* the all-or-nothing fold RunActions of Block.tla that the trace spec binds  *)
(* to the real Processor: same success flag, same final values, same reads.   *)
EXTENDS KV

CONSTANTS MaxActions, MaxOps
B == INSTANCE Block

VARIABLES tx,      \* Seq(Seq(op))   the actions' scripts
          ai, oi,  \* next action / next op
          phase,   \* "start" | "run" | "failed" | "done"
          ok, outs, cur0
vars == <<kvvars, tx, ai, oi, phase, ok, outs, cur0>>

OpSet == {[op |-> "get", k |-> k, v |-> ""] : k \in Keys} \cup {[op |-> "put", k |-> k, v |-> v] : k \in Keys, v \in Vals} \cup
         {[op |-> "del", k |-> k, v |-> ""] : k \in Keys} \cup {[op |-> "fail", k |-> "", v |-> ""]}
Scripts == UNION {[1..n -> OpSet] : n \in 0..MaxOps}
TxSpace == UNION {[1..n -> Scripts] : n \in 1..MaxActions}

Init == /\ KVInit /\ tx \in TxSpace /\ ai = 1 /\ oi = 1 /\ phase = "start" /\ ok = TRUE /\ outs = <<>> /\ cur0 = cur

Start == phase = "start" /\ KVCheckpoint /\ phase' = "run" /\ UNCHANGED <<tx, ai, oi, ok, outs, cur0>>

CurOp == tx[ai][oi]
Step ==
  /\ phase = "run" /\ ai <= Len(tx)
  /\ IF oi > Len(tx[ai])
       THEN /\ ai' = ai + 1 /\ oi' = 1 /\ UNCHANGED <<kvvars, phase, ok, outs>>
       ELSE /\ \/ CurOp.op = "get" /\ KVGet(CurOp.k)
               \/ CurOp.op = "put" /\ KVInsert(CurOp.k, CurOp.v)
               \/ CurOp.op = "del" /\ KVRemove(CurOp.k)
               \/ CurOp.op = "fail" /\ res' = Denied /\ UNCHANGED <<base, blk, cur, cps, scope>>
            /\ IF res' = Denied THEN phase' = "failed" /\ UNCHANGED <<ai, oi, ok, outs>>
               ELSE /\ oi' = oi + 1 /\ UNCHANGED <<ai, phase, ok>>
                    /\ outs' = IF CurOp.op = "get" THEN Append(outs, res') ELSE outs
  /\ UNCHANGED <<tx, cur0>>

Fail   == phase = "failed" /\ KVRollback(1) /\ phase' = "done" /\ ok' = FALSE /\ UNCHANGED <<tx, ai, oi, outs, cur0>>
Finish == phase = "run" /\ ai > Len(tx) /\ phase' = "done" /\ UNCHANGED <<kvvars, tx, ai, oi, ok, outs, cur0>>

Next == Start \/ Step \/ Fail \/ Finish
Spec == Init /\ [][Next]_vars

Actions == [i \in 1..Len(tx) |-> [ops |-> tx[i]]]
Expected == B!RunActions(cur0, <<>>, scope, Actions, <<>>)
AllOrNothing ==
  phase = "done" =>
     /\ ok = Expected.ok
     /\ cur = (IF Expected.ok THEN Expected.view ELSE cur0)
     /\ (ok => \A k \in Keys : cur[k] = Expected.view[k])
     /\ (~ok => cur = cur0)
=============================================================================
