SPECIFICATION TraceSpec
CONSTANTS
  Reqs <- TReqs
  Send0 = 0
  Variant = "code"
CONSTRAINT HWM
INVARIANTS DiagEmpty OwnResponse
POSTCONDITION Accepted
CHECK_DEADLOCK FALSE
