---------------------------- MODULE SnowVMRestart ----------------------------
(* Accept pipeline of a hypersdk node with crash and restart (C18).           *)
(*                                                                            *)
(* snow/block.go Accept        : index.UpdateLastAccepted (durable), enqueue  *)
(* snow/vm.go async accepter   : processAccept -> vm.AcceptBlock              *)
(*   vm/vm.go AcceptBlock      : executionResultsDB.Put(last results, height) *)
(*   chain/accepter.go         : validityWindow.Accept (volatile), CommitToDB *)
(*   snow/block.go accept      : notify accepted subscribers, setLastProcessed*)
(* vm/vm.go extractLatestOutputBlock + snow/chain_index.go                    *)
(*   makeConsensusIndex / reprocessFromOutputToInput + Initialize's startup   *)
(*   notification              : Restart                                      *)
(*                                                                            *)
(* Blocks are heights 1..N of one chain (forks are C20's business).  Durable: *)
(* idxLast (chain index), stateH (state height key), resH (height stored with *)
(* the last execution results), subLog (an external subscriber's log).        *)
(* Everything else dies with the process.                                     *)
EXTENDS Naturals, Sequences, FiniteSets, TLC

CONSTANTS N,            \* blocks in the chain
          Mode          \* "coded": restart as implemented; "intended": restart as snow's reprocessing design intends

VARIABLES idxLast, stateH, resH, subLog,        \* durable
          queue, pc, cur, lastAcc, lastProc,    \* volatile
          up, failed, kf,                       \* process alive; restart failed (node cannot start); known findings hit
          excused                               \* heights whose lost notification is explained by a known finding

vars == <<idxLast, stateH, resH, subLog, queue, pc, cur, lastAcc, lastProc, up, failed, kf, excused>>
Range(s) == {s[i] : i \in DOMAIN s}

Init ==
  /\ idxLast = 0 /\ stateH = 0 /\ resH = 0 /\ subLog = <<0>>       \* fresh start: genesis committed and announced
  /\ queue = <<>> /\ pc = "idle" /\ cur = 0 /\ lastAcc = 0 /\ lastProc = 0
  /\ up = TRUE /\ failed = FALSE /\ kf = {} /\ excused = {}

(* StatefulBlock.Accept: the index is written (synchronously, durably) before the block is queued *)
ConsensusAccept ==
  /\ up /\ idxLast < N /\ Len(queue) < 16
  /\ idxLast' = idxLast + 1 /\ queue' = Append(queue, idxLast + 1) /\ lastAcc' = idxLast + 1
  /\ UNCHANGED <<stateH, resH, subLog, pc, cur, lastProc, up, failed, kf, excused>>

Take         == /\ up /\ pc = "idle" /\ queue # <<>>
                /\ cur' = Head(queue) /\ queue' = Tail(queue) /\ pc' = "taken"
                /\ UNCHANGED <<idxLast, stateH, resH, subLog, lastAcc, lastProc, up, failed, kf, excused>>
WriteResults == /\ up /\ pc = "taken" /\ resH' = cur /\ pc' = "results"
                /\ UNCHANGED <<idxLast, stateH, subLog, queue, cur, lastAcc, lastProc, up, failed, kf, excused>>
CommitState  == /\ up /\ pc = "results" /\ stateH' = cur /\ pc' = "committed"
                /\ UNCHANGED <<idxLast, resH, subLog, queue, cur, lastAcc, lastProc, up, failed, kf, excused>>
Notify       == /\ up /\ pc = "committed" /\ subLog' = Append(subLog, cur) /\ pc' = "notified"
                /\ UNCHANGED <<idxLast, stateH, resH, queue, cur, lastAcc, lastProc, up, failed, kf, excused>>
Finish       == /\ up /\ pc = "notified" /\ lastProc' = cur /\ pc' = "idle"
                /\ UNCHANGED <<idxLast, stateH, resH, subLog, queue, cur, lastAcc, up, failed, kf, excused>>

(* the process dies: at any point *)
Crash == /\ up /\ up' = FALSE
         /\ queue' = <<>> /\ pc' = "idle" /\ cur' = 0 /\ lastAcc' = 0 /\ lastProc' = 0
         /\ UNCHANGED <<idxLast, stateH, resH, subLog, failed, kf, excused>>

(* ---- restart as implemented ---------------------------------------------------------------------- *)
(* vm.extractLatestOutputBlock:                                                                        *)
(*   index = state     : load the block and its stored results (heights must agree)                    *)
(*   index = state + 1 : execute the block with vm.chain ... which Initialize has not created yet      *)
(*   otherwise         : "cannot extract latest output block from invalid state"                       *)
KF_C18_restart_panics_one_uncommitted_block  == ~up /\ idxLast = stateH + 1
KF_C18_restart_refused_uncommitted_blocks    == ~up /\ idxLast > stateH + 1
CodedOutcome == IF idxLast = stateH THEN (IF resH = stateH THEN "ok" ELSE "err")
                ELSE IF idxLast = stateH + 1 THEN "panic" ELSE "err"

RestartOK ==
  /\ ~up /\ ~failed /\ idxLast = stateH /\ resH = stateH
  /\ up' = TRUE /\ lastAcc' = idxLast /\ lastProc' = idxLast
  /\ subLog' = Append(subLog, idxLast)                        \* Initialize notifies the last accepted block
  /\ queue' = <<>> /\ pc' = "idle" /\ cur' = 0
  /\ UNCHANGED <<idxLast, stateH, resH, failed, kf, excused>>

RestartFails ==
  /\ ~up /\ ~failed /\ CodedOutcome # "ok"
  /\ failed' = TRUE
  /\ kf' = kf \cup (IF KF_C18_restart_panics_one_uncommitted_block THEN {"C18_restart_panics_one_uncommitted_block"} ELSE {})
              \cup (IF KF_C18_restart_refused_uncommitted_blocks THEN {"C18_restart_refused_uncommitted_blocks"} ELSE {})
  /\ UNCHANGED <<idxLast, stateH, resH, subLog, queue, pc, cur, lastAcc, lastProc, up, excused>>

(* ---- restart as the reprocessing design of snow/chain_index.go intends ---------------------------- *)
(* start from the committed state, re-announce its block (its notification may have been cut off), then *)
(* re-process every indexed block above it with results, state commit and notification                  *)
RECURSIVE Seq1(_, _)
Seq1(a, b) == IF a > b THEN <<>> ELSE <<a>> \o Seq1(a + 1, b)
RestartIntended ==
  /\ ~up /\ ~failed /\ idxLast >= stateH
  /\ up' = TRUE /\ lastAcc' = idxLast /\ lastProc' = idxLast
  /\ stateH' = idxLast /\ resH' = idxLast
  /\ subLog' = subLog \o <<stateH>> \o Seq1(stateH + 1, idxLast) \o <<idxLast>>
  /\ queue' = <<>> /\ pc' = "idle" /\ cur' = 0
  /\ UNCHANGED <<idxLast, failed, kf, excused>>

(* ---- restart of package snow alone, under a Chain that (like vm.VM) commits its state in AcceptBlock and ---- *)
(* ---- comes back with the block of its committed state: makeConsensusIndex / reprocessFromOutputToInput    ---- *)
(* re-process and announce every indexed block above the committed state, Initialize announces the last one.  *)
(* The block AT the committed state is not announced again although its notification may have been cut off.   *)
KF_C18_committed_block_not_reannounced == ~up /\ idxLast > stateH /\ stateH >= 1 /\ stateH \notin Range(subLog)
RestartSnow ==
  /\ ~up /\ ~failed
  /\ IF idxLast < stateH
     THEN failed' = TRUE /\ UNCHANGED <<idxLast, stateH, resH, subLog, queue, pc, cur, lastAcc, lastProc, up, kf, excused>>
     ELSE /\ up' = TRUE /\ lastAcc' = idxLast /\ lastProc' = idxLast
          /\ stateH' = idxLast /\ resH' = idxLast
          /\ subLog' = subLog \o Seq1(stateH + 1, idxLast) \o <<idxLast>>
          /\ queue' = <<>> /\ pc' = "idle" /\ cur' = 0
          /\ IF KF_C18_committed_block_not_reannounced
             THEN kf' = kf \cup {"C18_committed_block_not_reannounced"} /\ excused' = excused \cup {stateH}
             ELSE UNCHANGED <<kf, excused>>
          /\ UNCHANGED <<idxLast, failed>>

Restart == IF Mode = "coded" THEN RestartOK \/ RestartFails
           ELSE IF Mode = "snow" THEN RestartSnow ELSE RestartIntended

Next == ConsensusAccept \/ Take \/ WriteResults \/ CommitState \/ Notify \/ Finish \/ Crash \/ Restart
Spec == Init /\ [][Next]_vars

(* ---- properties ----------------------------------------------------------------------------------- *)
TypeOK == /\ idxLast \in 0..N /\ stateH \in 0..N /\ resH \in 0..N /\ stateH <= idxLast /\ stateH <= resH /\ resH <= stateH + 1
          /\ pc \in {"idle", "taken", "results", "committed", "notified"}

(* restarting succeeds *)
RestartSucceeds     == ~failed
RestartSucceedsOrKF == ~failed \/ kf # {}
(* ... and yields the last accepted block, state and results of a node that never crashed: after a restart the  *)
(* node reports the last indexed block as last accepted with state and results of exactly that height          *)
RecoveredEqualsNoCrash ==
  (up /\ pc = "idle" /\ queue = <<>>) => (lastAcc = idxLast /\ lastProc = idxLast /\ stateH = idxLast /\ resH = idxLast)
(* every accepted block is delivered to the subscriber at least once across restarts, in height order *)
FirstIdx(h) == CHOOSE i \in DOMAIN subLog : subLog[i] = h /\ \A j \in 1..(i - 1) : subLog[j] # h
AtLeastOnceInOrder ==
  /\ up => \A h \in 1..lastProc : h \in Range(subLog)      \* (genesis is not an accept decision)
  /\ \A a, b \in Range(subLog) : a < b => FirstIdx(a) < FirstIdx(b)
AtLeastOnceInOrderOrKF ==
  /\ up => \A h \in 1..lastProc : h \in Range(subLog) \cup excused
  /\ \A a, b \in Range(subLog) : a < b => FirstIdx(a) < FirstIdx(b)
(* the order of the durable writes of Accept / processAccept: a block is in the index before its state is committed *)
IndexAheadOfState == stateH <= idxLast
=============================================================================
