SPECIFICATION Spec
CONSTANTS
  Keys = {"a", "b"}
  NC = 2
  NW = 2
  TxCap = 2
  CallShapes <- ShapesAll
  Original = "none"
INVARIANTS TypeOK ReadsSubsetOfDeclared EachKeyReadAtMostOnce GetReturnsParentValues ErrorPropagates
PROPERTIES GetsReturn WaitReturns
CHECK_DEADLOCK TRUE
