SPECIFICATION Spec
CONSTANTS
  Items = {"t1", "t2", "t3", "t4"}
  Sponsors = {"A", "B"}
  MaxSizes = {1, 2, 3}
  MaxSponsors = {1, 2, 3}
  Attrs <- MCAttrs
  MaxVisits = 2
INVARIANTS TypeOK UniqueIDs WithinLimits SizeIsSum OwnedIsCount StreamedNotReaddable PreparedAreStreamed NotStreamingClean
PROPERTIES ExpiryProp HandOutProp
CHECK_DEADLOCK FALSE
