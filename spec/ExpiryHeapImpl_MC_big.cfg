SPECIFICATION Spec
CONSTANTS
  Ids = {"a", "b", "c", "d", "e", "f"}
  Exps = {0, 1, 2}
  TrackZeroSet = {TRUE}
INVARIANTS ESTypeOK Refines HeapShape
VIEW View
ACTION_CONSTRAINT SameResultStep
