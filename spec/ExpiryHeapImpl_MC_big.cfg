SPECIFICATION Spec
CONSTANTS
  Ids = {"a", "b", "c", "d", "e", "f"}
  Exps = {0, 1, 2}
  TrackZeroSet = {TRUE}
INVARIANTS ESTypeOK Refines SameResult HeapShape
PROPERTIES AddIdempotent Shrinks
