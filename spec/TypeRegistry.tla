---------------------------- MODULE TypeRegistry ----------------------------
(* codec/type_parser.go (extra module X14): the registry of actions / auth   *)
(* types / outputs every VM builds at start-up (codec.TypeParser), and the   *)
(* same-shaped auth.AuthProvider (private-key factories by name).            *)
(*                                                                           *)
(* Implementation layer: idx (indexToDecoder map) and types (registeredTypes *)
(* slice) as Register writes them, Unmarshal as a lookup by the first byte.  *)
(* Monitor: regs = the sequence of *accepted* registrations [id, dec]; the    *)
(* properties constrain idx / types / results by regs only.                  *)
EXTENDS Integers, Sequences, FiniteSets

CONSTANTS Ids,            \* type ids (uint8 in the code)
          Decs,           \* decoder identities (each Register call brings a fresh one in the driver)
          Capacity,       \* 256 in the code (= every id taken); 0 = unbounded (AuthProvider)
          Variant         \* "code" | "overwrite" (a duplicate replaces the decoder) | "early-full" (refuses the last slot)

VARIABLES idx, types, res, regs
vars == <<idx, types, res, regs>>

NoDec == -1
Ok(r) == r.err = ""
IdsOf(s) == {s[i].id : i \in DOMAIN s}
First(s, id) == s[CHOOSE i \in DOMAIN s : s[i].id = id /\ \A j \in DOMAIN s : s[j].id = id => i <= j]

Init == idx = <<>> /\ types = <<>> /\ regs = <<>> /\ res = [op |-> "new", id |-> -1, err |-> "", dec |-> NoDec]

Full == Capacity > 0 /\ Cardinality(DOMAIN idx) >= (IF Variant = "early-full" THEN Capacity - 1 ELSE Capacity)

(* TypeParser.Register(instance, f) *)
Register(id, d) ==
  LET err == IF Full THEN "full" ELSE IF id \in DOMAIN idx /\ Variant # "overwrite" THEN "dup" ELSE ""
  IN /\ res' = [op |-> "reg", id |-> id, err |-> err, dec |-> NoDec]
     /\ IF err = ""
        THEN /\ idx' = [x \in DOMAIN idx \cup {id} |-> IF x = id THEN d ELSE idx[x]]
             /\ types' = Append(types, [id |-> id, dec |-> d])
             /\ regs' = IF id \in IdsOf(regs) THEN regs ELSE Append(regs, [id |-> id, dec |-> d])
        ELSE UNCHANGED <<idx, types, regs>>

(* TypeParser.Unmarshal(bytes): id = -1 stands for the empty slice *)
Use(id) ==
  /\ res' = IF id \in DOMAIN idx THEN [op |-> "use", id |-> id, err |-> "", dec |-> idx[id]]
            ELSE [op |-> "use", id |-> id, err |-> "unknown", dec |-> NoDec]
  /\ UNCHANGED <<idx, types, regs>>

Next == (\E id \in Ids, d \in Decs : Register(id, d)) \/ (\E id \in Ids \cup {-1} : Use(id))
Spec == Init /\ [][Next]_vars

(* ---------------- properties ---------------- *)
(* G1  ids are unique and the registry never holds more than Capacity entries *)
Unique == /\ \A i, j \in DOMAIN types : types[i].id = types[j].id => i = j
          /\ Capacity > 0 => Len(types) <= Capacity
(* G2  lookup returns exactly what was registered: an id resolves iff a registration of it was accepted, and to the
       decoder of that (first, only) accepted registration *)
LookupExact == /\ DOMAIN idx = IdsOf(regs)
               /\ \A id \in DOMAIN idx : idx[id] = First(regs, id).dec
(* G3  the registered types are the accepted registrations in registration order (ABI generation) *)
TypesInOrder == types = regs
(* G4  per call *)
RegPost(id, d) ==
  /\ (id \in IdsOf(regs)) => res'.err \in {"dup", "full"}               \* a duplicate id is refused ...
  /\ res'.err = "dup" => id \in IdsOf(regs)                             \* ... and only a duplicate is called one
  /\ res'.err = "full" => (Capacity > 0 /\ Len(regs) >= Capacity)      \* refused as full only when full
  /\ (id \notin IdsOf(regs) /\ ~(Capacity > 0 /\ Len(regs) >= Capacity)) => res'.err = ""   \* a free id is accepted
  /\ res'.err # "" => (idx' = idx /\ types' = types)                    \* a refusal changes nothing
UsePost(id) ==
  /\ res'.err = "" <=> id \in IdsOf(regs)
  /\ res'.err = "" => res'.dec = First(regs, id).dec
  /\ res'.err # "" => res'.dec = NoDec                                  \* no decoder runs for an unknown id / empty slice
  /\ idx' = idx /\ types' = types
StepOK == [][ /\ \A id \in Ids, d \in Decs : Register(id, d) => RegPost(id, d)
              /\ \A id \in Ids \cup {-1} : Use(id) => UsePost(id) ]_vars
=============================================================================
