-------------------------- MODULE FeeConsume_Trace --------------------------
(* C12, per-block consumption: every recorded fees.Manager.Consume(units, max) call must be all-or-nothing:       *)
(* it succeeds exactly when every dimension still fits (Block.tla Fits), then adds the units to every dimension;  *)
(* otherwise it reports failure and leaves the consumption of EVERY dimension unchanged.  Consumption never       *)
(* exceeds the maximum.  Units above 2^30 are logged as 2^30 (they never fit the small maxima used).              *)
EXTENDS Block, Json, IOUtils
VARIABLES l, consumed, max, diag
tvars == <<l, consumed, max, diag>>
Trace == ndJsonDeserialize(IOEnv.TRACE)
N == Len(Trace)
T == Trace[l]
Ev(e) == l <= N /\ Trace[l].ev = e /\ l' = l + 1
TraceInit == l = 2 /\ TLCSet(1, 1) /\ Trace[1].ev = "reset" /\ max = Trace[1].max /\ consumed = Zero5 /\ diag = {}
TReset == Ev("reset") /\ max' = T.max /\ consumed' = Zero5 /\ diag' = {}
TConsume ==
  /\ Ev("consume")
  /\ LET fits == Fits(consumed, T.units, max)
         exp  == IF fits THEN Add5(consumed, T.units) ELSE consumed
     IN /\ diag' = (IF T.ok # fits THEN {"consume-verdict"} ELSE {}) \cup
                   (IF T.consumed # exp THEN (IF fits THEN {"consumed-not-sum"} ELSE {"failed-consume-changed-consumption"}) ELSE {})
        /\ consumed' = T.consumed
  /\ UNCHANGED max
TraceNext == TReset \/ TConsume
TraceSpec == TraceInit /\ [][TraceNext]_tvars
DiagEmpty == diag = {}
WithinMax == \A i \in Dims : consumed[i] <= max[i]
HWM      == TLCSet(1, IF TLCGet(1) > l - 1 THEN TLCGet(1) ELSE l - 1)
Accepted == PrintT(<<"TRACE_HWM", TLCGet(1)>>) /\ TLCGet(1) = N
=============================================================================
