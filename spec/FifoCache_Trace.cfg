SPECIFICATION TraceSpec
CONSTANTS
  Keys <- TKeys
  Vals <- TVals
  Limits <- TLimits
  Variant = "code"
CONSTRAINT HWM
INVARIANTS DiagEmpty TypeOK Bounded LatestValue InsertionOrder
POSTCONDITION Accepted
CHECK_DEADLOCK FALSE
