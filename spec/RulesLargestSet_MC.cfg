SPECIFICATION Spec
CONSTANTS
  MaxN = 4
  MaxV = 3
  MaxL = 3
INVARIANT PostHolds
INVARIANT OriginalDelimited
CHECK_DEADLOCK FALSE
