------------------------------ MODULE WireSize ------------------------------
(* C14 - size and unit accounting of a generated transaction.                *)
(* Actual: the canoto encoding of chain.SerializeTx (chain/transaction_codec *)
(* .go): every non-empty field is  wire tag (1 byte) + varint length prefix  *)
(* + payload;  Base = {Timestamp int (tag + varint, omitted when 0), ChainID *)
(* fixed 32 bytes (tag + length + 32, omitted when all zero), MaxFee fixed   *)
(* 64 (tag + 8, omitted when 0)}; one field per action (also when empty);    *)
(* one field for the auth.  Storage / compute units as Transaction.Units     *)
(* computes them (distinct declared keys + the sponsor's balance key).       *)
(* Estimate: chain.EstimateUnits (as FIXED by fixes/C14-estimate-field-      *)
(* framing.patch: every field is budgeted with its framing);                 *)
(* EstimateSizeAsOriginallyCoded is the estimate before the fix (payload     *)
(* bytes only: MaxBaseSize + 1 + sum of action lengths + auth length).       *)
(* Property (C14): Estimate >= Actual in every dimension, hence              *)
(* MaxFee = prices . Estimate >= prices . Actual.                            *)
EXTENDS Integers, Sequences, FiniteSets

VarintLen(n) == IF n < 128 THEN 1 ELSE IF n < 16384 THEN 2 ELSE IF n < 2097152 THEN 3 ELSE IF n < 268435456 THEN 4 ELSE 5
LenField(n)  == 1 + VarintLen(n) + n                 \* tag + length prefix + payload

(* the timestamp is logged as hi * 2^28 + lo (hi = -1: negative, ten bytes as a 64-bit two's complement varint) *)
TsVarintLen(hi, lo) == IF hi < 0 THEN 10 ELSE IF hi = 0 THEN VarintLen(lo) ELSE 4 + VarintLen(hi)
BaseLen(tshi, tslo, chainNZ, feeNZ) ==
  (IF tshi = 0 /\ tslo = 0 THEN 0 ELSE 1 + TsVarintLen(tshi, tslo)) + (IF chainNZ THEN 1 + 1 + 32 ELSE 0) + (IF feeNZ THEN 1 + 8 ELSE 0)

RECURSIVE SumSeq(_)
SumSeq(s) == IF s = <<>> THEN 0 ELSE Head(s) + SumSeq(Tail(s))
Map(s, Op(_)) == [i \in DOMAIN s |-> Op(s[i])]

ActualSize(baseLen, sizes, authLen) ==
  (IF baseLen = 0 THEN 0 ELSE LenField(baseLen)) + SumSeq(Map(sizes, LenField)) + (IF authLen = 0 THEN 0 ELSE LenField(authLen))

MaxBaseSize == 10 + 8 + 32 + 10 + 3 * 10             \* chain/base.go
EstimateSize(sizes, authMax) == LenField(MaxBaseSize) + 1 + SumSeq(Map(sizes, LenField)) + LenField(authMax)
EstimateSizeAsOriginallyCoded(sizes, authMax) == MaxBaseSize + 1 + SumSeq(sizes) + authMax

(* auth package: Bytes() length = MaxUnits bandwidth = 1 + public key + signature *)
AuthKinds == {"ed25519", "secp256r1", "bls"}
AuthLen(k) == CASE k = "ed25519" -> 1 + 32 + 64 [] k = "secp256r1" -> 1 + 33 + 64 [] k = "bls" -> 1 + 48 + 96

(* ---- storage and compute.  An action is [size, keys (sequence of [name, chunks, perm]), compute]; a key is identified
   by (name, chunks) - the chunk suffix is part of the key bytes - and perm is the raw state.Permissions byte it was
   declared with (read 1, allocate 2, write 4).  Transaction.Units charges EVERY declared key the key and value units
   of all three storage dimensions whatever its permission (the same rule as Block.tla's Units, which binds the units
   charged by execution), so the permission must not lower the estimate either: neither side of the model reads perm.
   The name "$sponsor-balance" stands for the sponsor's own balance key, which an action may declare as well.
   cost = <<key cost, value cost per chunk>> of one storage dimension *)
KeyCost(k, cost)      == cost[1] + k.chunks * cost[2]
RECURSIVE SumKeys(_, _)
SumKeys(ks, cost)     == IF ks = <<>> THEN 0 ELSE KeyCost(Head(ks), cost) + SumKeys(Tail(ks), cost)
RECURSIVE SumSet(_, _)
SumSet(S, cost)       == IF S = {} THEN 0 ELSE LET k == CHOOSE x \in S : TRUE IN KeyCost(k, cost) + SumSet(S \ {k}, cost)
KeySetOf(ks)          == {[name |-> ks[i].name, chunks |-> ks[i].chunks] : i \in DOMAIN ks}
AllKeys(actions)      == UNION {KeySetOf(actions[i].keys) : i \in DOMAIN actions}
SponsorKey(balChunks) == [name |-> "$sponsor-balance", chunks |-> balChunks]
(* estimate: every action's keys (duplicates across actions counted again) + the rules' sponsor key chunk list *)
EstimateStorage(actions, sponsorCh, cost) ==
  SumSeq([i \in DOMAIN actions |-> SumKeys(actions[i].keys, cost)]) + SumSeq([i \in DOMAIN sponsorCh |-> cost[1] + sponsorCh[i] * cost[2]])
ActualStorage(actions, balChunks, cost) == SumSet(AllKeys(actions) \cup {SponsorKey(balChunks)}, cost)
Compute(baseCompute, actions, authCompute) == baseCompute + SumSeq([i \in DOMAIN actions |-> actions[i].compute]) + authCompute

(* rules = <<base compute, key read, value read, key alloc, value alloc, key write, value write>> *)
EstimateUnits(actions, authMax, authMaxCompute, rules, sponsorCh) ==
  << EstimateSize([i \in DOMAIN actions |-> actions[i].size], authMax),
     Compute(rules[1], actions, authMaxCompute),
     EstimateStorage(actions, sponsorCh, <<rules[2], rules[3]>>),
     EstimateStorage(actions, sponsorCh, <<rules[4], rules[5]>>),
     EstimateStorage(actions, sponsorCh, <<rules[6], rules[7]>>) >>
ActualUnits(baseLen, actions, authLen, authCompute, rules, balChunks) ==
  << ActualSize(baseLen, [i \in DOMAIN actions |-> actions[i].size], authLen),
     Compute(rules[1], actions, authCompute),
     ActualStorage(actions, balChunks, <<rules[2], rules[3]>>),
     ActualStorage(actions, balChunks, <<rules[4], rules[5]>>),
     ActualStorage(actions, balChunks, <<rules[6], rules[7]>>) >>

Dims == 1..5
DimName(d) == CASE d = 1 -> "bandwidth" [] d = 2 -> "compute" [] d = 3 -> "read" [] d = 4 -> "allocate" [] d = 5 -> "write"
Covers(est, act) == \A d \in Dims : est[d] >= act[d]
Dot(p, u) == p[1] * u[1] + p[2] * u[2] + p[3] * u[3] + p[4] * u[4] + p[5] * u[5]
=============================================================================
