--------------------------- MODULE LoadBurst_Trace ---------------------------
(* Trace validation of the real load.BurstOrchestrator (X13).                *)
(*   reset {n, k}            n agents, TxsPerIssuer = k                      *)
(*   burst {hang, result, agents[{fail, lkind, calls, regs, inorder, done,   *)
(*          late, listens, lret}]}   what every stub saw when Execute        *)
(*          returned (lret = "run" | "nil" | "err": what Listen returned)    *)
(* The observed end state is loaded into LoadBurst's variables and judged by *)
(* the module's properties restated over the scenario's agents.              *)
EXTENDS LoadBurst, TLC, Json, IOUtils, Sequences

VARIABLES l, diag, kk
tvars == <<vars, l, diag, kk>>

Trace == ndJsonDeserialize(IOEnv.TRACE)
N     == Len(Trace)
T     == Trace[l]
Ev(e) == l <= N /\ Trace[l].ev = e /\ l' = l + 1
Name(ok, n) == IF ok THEN {} ELSE {n}
TAgents == 1..3

TraceInit == l = 1 /\ TLCSet(1, 0) /\ diag = {} /\ kk = 0
             /\ failAt = <<>> /\ lkind = <<>> /\ calls = <<>> /\ regs = <<>> /\ idone = <<>> /\ istate = <<>> /\ lstate = <<>>
             /\ phase = "issuing" /\ result = "" /\ lctx = "live"

TReset == /\ Ev("reset") /\ kk' = T.k /\ diag' = {}
          /\ failAt' = <<>> /\ lkind' = <<>> /\ calls' = <<>> /\ regs' = <<>> /\ idone' = <<>> /\ istate' = <<>> /\ lstate' = <<>>
          /\ phase' = "issuing" /\ result' = "" /\ lctx' = "live"

TBurst ==
  /\ Ev("burst") /\ UNCHANGED kk
  /\ LET A == T.agents
         D == DOMAIN A
         fails(a) == A[a].fail \in 1..kk
     IN /\ failAt' = [a \in D |-> A[a].fail] /\ lkind' = [a \in D |-> A[a].lkind]
        /\ calls' = [a \in D |-> A[a].calls] /\ regs' = [a \in D |-> A[a].regs] /\ idone' = [a \in D |-> A[a].done]
        /\ istate' = [a \in D |-> IF fails(a) THEN "err" ELSE "ok"] /\ lstate' = [a \in D |-> A[a].lret]
        /\ phase' = "done" /\ result' = T.result /\ lctx' = "cancelled"
        /\ diag' = Name(~T.hang, "execute-did-not-return") \cup
                   Name(\A a \in D : A[a].calls = (IF fails(a) THEN A[a].fail ELSE kk), "issuer-not-asked-exactly-TxsPerIssuer-times") \cup
                   Name(\A a \in D : A[a].regs = (IF fails(a) THEN A[a].fail - 1 ELSE kk) /\ A[a].inorder, "issued-transactions-not-registered-in-order") \cup
                   Name(\A a \in D : A[a].done = 1, "issuing-done-not-called-exactly-once") \cup
                   Name(\A a \in D : ~A[a].late, "issuing-done-before-the-last-registration") \cup
                   Name(\A a \in D : A[a].listens <= 1 /\ (T.result # "ierr" => A[a].listens = 1), "listener-not-started-once") \cup
                   Name((T.result = "ierr") <=> (\E a \in D : fails(a)), "verdict-issuer-error") \cup
                   Name(T.result # "ierr" => \A a \in D : A[a].lret # "run", "returned-before-the-listeners") \cup
                   Name(T.result # "ierr" => ((T.result = "lerr") <=> (\E a \in D : A[a].lret = "err")), "verdict-listener-error") \cup
                   Name(T.result \in {"nil", "ierr", "lerr"}, "verdict-unclassified")

TraceNext == TReset \/ TBurst
TraceSpec == TraceInit /\ [][TraceNext]_tvars

DiagEmpty == diag = {}
HWM      == TLCSet(1, IF TLCGet(1) > l - 1 THEN TLCGet(1) ELSE l - 1)
Accepted == PrintT(<<"TRACE_HWM", TLCGet(1)>>) /\ TLCGet(1) = N
=============================================================================
