SPECIFICATION Spec
CONSTANTS
  NW = 2
  NJ = 2
  NT = 3
  MaxJobs = 1
  Original = FALSE
  SubmitDuringStop = FALSE
INVARIANTS TypeOK AtMostOnce JobResultOK ShutdownRanNothing JobsSequential StopShutsDown NoPanic

CHECK_DEADLOCK TRUE
