SPECIFICATION Spec
CONSTANTS
  MinTPS = 1
  MaxTPS = 3
  StepTPS = 1
  MaxAttempts = 0
  Terminate = TRUE
  NAgents = 2
  MulP = 3
  MulQ = 2
  MaxRounds = 8
  Variant = "code"
INVARIANTS TypeOK RampShape AchievedRule GiveUpRule WindowIsOnePeriod IssueRateCoversTarget
PROPERTIES StepOK
CHECK_DEADLOCK FALSE
