SPECIFICATION Spec
CONSTANTS
  Items = {"t1", "t2", "t3"}
  Sponsors = {"A", "B"}
  MaxSizes = {1, 2}
  MaxSponsors = {1, 2}
  Attrs <- MCAttrs
  MaxVisits = 1
INVARIANTS TypeOK UniqueIDs WithinLimits SizeIsSum OwnedIsCount StreamedNotReaddable PreparedAreStreamed NotStreamingClean
CHECK_DEADLOCK FALSE
