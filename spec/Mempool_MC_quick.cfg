SPECIFICATION Spec
CONSTANTS
  Items = {"t1", "t2", "t3"}
  Sponsors = {"A", "B"}
  MaxSizes = {1, 2}
  MaxSponsors = {1, 2}
  Attrs <- MCAttrs
INVARIANTS TypeOK UniqueIDs WithinLimits SizeIsSum OwnedIsCount StreamedNotReaddable PreparedAreStreamed NotStreamingClean
PROPERTIES ExpiryProp HandOutProp
CHECK_DEADLOCK FALSE
