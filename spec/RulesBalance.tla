---------------------------- MODULE RulesBalance ----------------------------
(* C34 - balance formatting / parsing (utils/utils.go:FormatBalance,        *)
(* ParseBalance) as exact integer arithmetic.  A decimal token amount is    *)
(* lexed into  ip = integer part, fp = the fractional digits read as an     *)
(* integer, nd = number of fractional digits (0..Decimals).                 *)
(* The same text is evaluated by TLC (small balances, design step) and by   *)
(* Apalache (rows recorded from the real functions with 64-bit values),     *)
(* hence the type annotations.                                              *)
EXTENDS Integers

Decimals == 9
Unit     == 1000000000                 \* 10^Decimals base units per token

\* @type: (Int) => Int;
Pow10(n) == IF n = 0 THEN 1 ELSE IF n = 1 THEN 10 ELSE IF n = 2 THEN 100 ELSE IF n = 3 THEN 1000
            ELSE IF n = 4 THEN 10000 ELSE IF n = 5 THEN 100000 ELSE IF n = 6 THEN 1000000
            ELSE IF n = 7 THEN 10000000 ELSE IF n = 8 THEN 100000000 ELSE 1000000000

\* @type: (Int) => Int;
FormatInt(b)  == b \div Unit
\* @type: (Int) => Int;
FormatFrac(b) == b % Unit

\* @type: (Int, Int, Int) => Int;
ParseVal(ip, fp, nd) == ip * Unit + fp * Pow10(Decimals - nd)

(* ---- rows recorded from the real code ---- *)
(* FormatBalance(b) produced "ip.fp" with nd fractional digits *)
\* @type: (Int, Int, Int, Int) => Bool;
FormatRowOK(b, ip, fp, nd) == nd = Decimals /\ ip = FormatInt(b) /\ fp = FormatFrac(b)

(* ParseBalance("ip.fp") returned (out, ok) *)
\* @type: (Int, Int, Int, Int, Int) => Bool;
ParseRowOK(ip, fp, nd, ok, out) == nd >= 0 /\ nd <= Decimals /\ ok = 1 /\ out = ParseVal(ip, fp, nd)

(* ParseBalance(FormatBalance(b)) returned (out, ok) *)
\* @type: (Int, Int, Int) => Bool;
RoundTripRowOK(b, ok, out) == ok = 1 /\ out = b

(* ---- the algebra (checked by TLC on small values, by Apalache symbolically on 64 bits) ---- *)
\* @type: (Int) => Bool;
RoundTrip(b) == /\ FormatFrac(b) >= 0 /\ FormatFrac(b) < Unit
                /\ ParseVal(FormatInt(b), FormatFrac(b), Decimals) = b
=============================================================================
