SPECIFICATION Spec
CONSTANTS
  Keys = {1, 2, 3, 4}
  Vals = {1, 2}
  Limits = {1, 2, 3, 4}
  Variant = "code"
INVARIANTS TypeOK Bounded LatestValue InsertionOrder QueueMatchesMap
PROPERTIES StepOK
CHECK_DEADLOCK FALSE
