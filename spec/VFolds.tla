------------------------------- MODULE VFolds ------------------------------
(* Left folds over sequences and sets, TLC flavour.  Modules written with   *)
(* these two operators only (no RECURSIVE, no CHOOSE) can be evaluated by   *)
(* Apalache as well: the num engine stages a Folds.tla whose definitions    *)
(* are ApaFoldSeqLeft / ApaFoldSet (see checks/C06.py), so the very same    *)
(* operator text is used with 32-bit TLC values and with 64-bit values.     *)
EXTENDS Sequences, FiniteSets

RECURSIVE FoldSeqL(_, _, _)
FoldSeqL(Op(_, _), base, seq) ==
  IF seq = <<>> THEN base ELSE FoldSeqL(Op, Op(base, Head(seq)), Tail(seq))

RECURSIVE FoldSetL(_, _, _)
FoldSetL(Op(_, _), base, S) ==
  IF S = {} THEN base ELSE LET x == CHOOSE y \in S : TRUE IN FoldSetL(Op, Op(base, x), S \ {x})
=============================================================================
