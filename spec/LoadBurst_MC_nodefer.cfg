SPECIFICATION FairSpec
CONSTANTS
  Agents = {1, 2}
  K = 2
  Variant = "nodefer"
INVARIANTS ExactlyK DoneIsLast Verdict
PROPERTIES Returns
