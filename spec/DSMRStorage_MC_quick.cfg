SPECIFICATION MCSpec
CONSTANTS
  Chunks = {"c1", "c2", "c3"}
  Producers = {"p1", "p2"}
  MaxT = 3
  MaxE = 2
  Original = FALSE
INVARIANTS StorageTypeOK Durable WeightExact CertsPending NoLeak
PROPERTIES ReopenInvisible
