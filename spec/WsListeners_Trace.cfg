SPECIFICATION TraceSpec
CONSTANTS
  Clients <- TClients
  Txs = {}
  Expiry = 0
  MaxTime = 0
  Variant = "code"
CONSTRAINT HWM
INVARIANTS DiagEmpty NoLeak
POSTCONDITION Accepted
CHECK_DEADLOCK FALSE
