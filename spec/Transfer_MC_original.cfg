SPECIFICATION MSpecOriginal
CONSTANTS
  Keys = {a, b, c}
  Vals = {"0", "1", "2", "3"}
  MAXU = 3
  MaxTxs = 1
  MaxActs = 3
  Fees = {1}
SYMMETRY Sym
VIEW MView
INVARIANTS Conserved
CHECK_DEADLOCK FALSE
