SPECIFICATION Spec
CONSTANTS
  Accts = {a, b, c}
  MAXU = 3
  MaxActs = 2
INVARIANTS InvExec InvSim InvChain InvSufficient
SYMMETRY Sym
CHECK_DEADLOCK FALSE
