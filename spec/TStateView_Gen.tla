--------------------------- MODULE TStateView_Gen ---------------------------
(* Behaviour generator (mbt): random walks of the abstract KV machine with a  *)
(* history of [operation, arguments, expected result, expected projection];   *)
(* each walk is printed as JSON when it reaches Depth and replayed on the     *)
(* real TStateView by drivers/state/tstate.                                   *)
EXTENDS KV, TLC, Json, SequencesExt

CONSTANTS Depth, GenScopes
VARIABLE hist
gvars == <<kvvars, hist>>

ScopeJson(s) == [k \in Keys |-> SetToSeq(s[k])]
Rec(op, k, v, i) == [op |-> op, k |-> k, v |-> v, i |-> i, scope |-> ScopeJson(scope'), res |-> res',
                     cur |-> cur', blk |-> blk', base |-> base']

GenScopeSpace == IF GenScopes = 0 THEN {[k \in Keys |-> Perms]}
                 ELSE {[k \in Keys |-> IF k = "k1" THEN m ELSE Perms] : m \in SUBSET Perms}

GInit == KVInit /\ hist = <<[op |-> "init", k |-> "", v |-> "", i |-> 0, scope |-> ScopeJson(scope), res |-> res,
                            cur |-> cur, blk |-> blk, base |-> base]>>

GNext ==
  /\ Len(hist) < Depth
  /\ \/ \E k \in Keys : KVGet(k) /\ hist' = Append(hist, Rec("get", k, "", 0))
     \/ \E k \in Keys : KVRemove(k) /\ hist' = Append(hist, Rec("remove", k, "", 0))
     \/ \E k \in Keys : KVRemove(k) /\ hist' = Append(hist, Rec("remove", k, "", 0))   \* weight
     \/ \E k \in Keys, v \in Vals : KVInsert(k, v) /\ hist' = Append(hist, Rec("insert", k, v, 0))
     \/ Len(cps) < 3 /\ KVCheckpoint /\ hist' = Append(hist, Rec("checkpoint", "", "", 0))
     \/ \E i \in 1..Len(cps) : KVRollback(i) /\ hist' = Append(hist, Rec("rollback", "", "", i))
     \/ \E s \in ScopeSpace : KVCommit(s) /\ hist' = Append(hist, Rec("commit", "", "", 0))
     \/ \E s \in ScopeSpace : KVDiscard(s) /\ hist' = Append(hist, Rec("discard", "", "", 0))

GSpec == GInit /\ [][GNext]_gvars
Emit  == Len(hist) < Depth \/ PrintT("BEHAVIOUR " \o ToJson(hist))
=============================================================================
