SPECIFICATION Spec
CONSTANTS
  NW = 1
  NJ = 1
  NT = 3
  MaxJobs = 1
  Original = FALSE
  SubmitDuringStop = FALSE
INVARIANTS TypeOK AtMostOnce JobResultOK ShutdownRanNothing JobsSequential StopShutsDown NoPanic
PROPERTIES JobCompletes StopReturns
CHECK_DEADLOCK TRUE
