------------------------- MODULE PubSubServer_Trace -------------------------
(* Trace validation of the real pubsub.Server with real websocket clients    *)
(* (X06) against the monitor of PubSubServer.tla (reg, exp).  Lines:         *)
(*   connect {c, ok}                 a client dialled; ok = the server       *)
(*                                   registered a connection for it          *)
(*   publish {m, to, inactive, returned, big}  Server.Publish(m, to)         *)
(*   send    {c, msgs, cb}           client c wrote one batch; cb = the      *)
(*                                   callbacks observed ([client, message])  *)
(*   stall   {c}                     client c stops reading its socket       *)
(*   close   {c, removed, sendok}    client c closed its socket; removed =   *)
(*                                   the server dropped the connection;      *)
(*                                   sendok = Connection.Send afterwards     *)
(*   drain   {c, state, got, registered}  end of scenario: what c received   *)
(* A stalled client may be dropped by the server at any time after a flood   *)
(* (write deadline), so for stalled clients membership is not predicted.     *)
EXTENDS PubSubServer, TLC, Json, IOUtils

VARIABLES l, stalled, diag
tvars == <<vars, l, stalled, diag>>

Trace == ndJsonDeserialize(IOEnv.TRACE)
N     == Len(Trace)
T     == Trace[l]
Ev(e) == l <= N /\ Trace[l].ev = e /\ l' = l + 1
Name(ok, nm) == IF ok THEN {} ELSE {nm}
SeqSet(s) == {s[i] : i \in DOMAIN s}
TConns == 1..8

Blank == /\ reg' = {} /\ ever' = {} /\ live' = {} /\ reading' = {} /\ n' = 0 /\ ret' = {} /\ sub' = {}
         /\ q' = [c \in Conns |-> <<>>] /\ got' = [c \in Conns |-> <<>>] /\ exp' = [c \in Conns |-> <<>>]
         /\ stalled' = {}
TraceInit == /\ l = 1 /\ TLCSet(1, 0) /\ reg = {} /\ ever = {} /\ live = {} /\ reading = {} /\ n = 0 /\ ret = {} /\ sub = {}
             /\ q = [c \in Conns |-> <<>>] /\ got = [c \in Conns |-> <<>>] /\ exp = [c \in Conns |-> <<>>]
             /\ stalled = {} /\ diag = {}
TReset == Ev("reset") /\ Blank /\ diag' = {}

Same == UNCHANGED <<q, got, n, sub>>

TConnect == /\ Ev("connect") /\ ever' = ever \cup {T.c} /\ reg' = reg \cup {T.c} /\ live' = live \cup {T.c}
            /\ reading' = reading \cup {T.c} /\ UNCHANGED <<exp, ret, stalled>> /\ Same
            /\ diag' = Name(T.ok, "connection-not-registered")

TPublish ==
  /\ Ev("publish")
  /\ LET S == SeqSet(T.to)
         sure == S \ stalled
     IN /\ ret' = SeqSet(T.inactive)
        /\ exp' = [c \in Conns |-> IF c \in S \cap reg THEN Append(exp[c], T.m) ELSE exp[c]]
        /\ UNCHANGED <<reg, ever, live, reading, stalled>> /\ Same
        /\ diag' = Name(T.returned, "publish-blocked") \cup
                   Name(SeqSet(T.inactive) \subseteq S, "reported-a-non-member") \cup
                   Name(SeqSet(T.inactive) \cap sure = sure \ reg, "inactive-set") \cup
                   Name(Len(T.inactive) = Cardinality(SeqSet(T.inactive)), "inactive-reported-twice")

(* F4  every message of a client batch reaches the callback once, in order, with the sending connection *)
TSend == /\ Ev("send") /\ UNCHANGED <<reg, ever, live, reading, exp, ret, stalled>> /\ Same
         /\ diag' = Name(T.cb = [i \in DOMAIN T.msgs |-> <<T.c, T.msgs[i]>>], "callback-per-message")

TStall == /\ Ev("stall") /\ stalled' = stalled \cup {T.c} /\ reading' = reading \ {T.c}
          /\ UNCHANGED <<reg, ever, live, exp, ret>> /\ Same /\ diag' = {}

(* F5  a closed connection is dropped by the server and refuses further messages *)
TClose == /\ Ev("close") /\ reg' = reg \ {T.c} /\ live' = live \ {T.c}
          /\ UNCHANGED <<ever, reading, exp, ret, stalled>> /\ Same
          /\ diag' = Name(T.removed, "closed-connection-still-registered") \cup Name(~T.sendok, "send-to-closed-connection-succeeded")

(* F1/F3  a healthy client has received exactly what was published to it while it was registered, in order, whatever
          happened to the other connections; everybody else has received a prefix of that *)
TDrain == /\ Ev("drain") /\ UNCHANGED <<reg, ever, live, reading, exp, ret, stalled>> /\ Same
          /\ diag' = (IF T.state = "healthy"
                      THEN Name(T.got = exp[T.c], "healthy-client-lost-duplicated-or-reordered") \cup
                           Name(T.registered, "healthy-connection-dropped")
                      ELSE Name(IsPrefix(T.got, exp[T.c]), "not-a-prefix-of-what-was-published"))

TraceNext == TReset \/ TConnect \/ TPublish \/ TSend \/ TStall \/ TClose \/ TDrain
TraceSpec == TraceInit /\ [][TraceNext]_tvars

DiagEmpty == diag = {}
HWM      == TLCSet(1, IF TLCGet(1) > l - 1 THEN TLCGet(1) ELSE l - 1)
Accepted == PrintT(<<"TRACE_HWM", TLCGet(1)>>) /\ TLCGet(1) = N
=============================================================================
