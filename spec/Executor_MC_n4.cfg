SPECIFICATION Spec
CONSTANTS
  N = 4
  Keys = {k1}
  NW = 2
  MaxDeps = 4
  OriginalOffset = FALSE
  MaxFail = 1
  Shapes <- ShapesAll
INVARIANTS TypeOK NoOverlap QueueOrder AtMostOnce WaitOK


CHECK_DEADLOCK TRUE
