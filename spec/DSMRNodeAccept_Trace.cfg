SPECIFICATION TraceSpec
CONSTANTS
  Chunks = {"k1", "k2", "k3", "k4", "k5", "k6", "o1", "o2"}
  Producers = {"v1", "v2", "v3"}
  Kinds = {"valid", "wrong", "error"}
CONSTRAINT HWM
INVARIANTS AcceptTypeOK ChunksExact PrefixExact NeverFails
POSTCONDITION Accepted
CHECK_DEADLOCK FALSE
