--------------------------- MODULE DsmrHandlers_MC --------------------------
EXTENDS DsmrHandlers
MCProd == <<"p", "p", "q", "p">>
MCOk   == <<TRUE, TRUE, TRUE, FALSE>>
=============================================================================
