------------------------------- MODULE Workers -------------------------------
(* Fine-grained model of internal/workers/parallel_workers.go (C26).          *)
(*                                                                            *)
(* Goroutines: one client per job (NewJob, Go*, Done, Wait), the queue        *)
(* goroutine started by processQueue, NW workers started by startWorker, one  *)
(* stopper (Stop, called at most once, at any moment).                        *)
(* One action per channel operation / critical section:                      *)
(*   - w.queue    buffered channel (capacity MaxJobs) + closed flag            *)
(*   - j.tasks    buffered channel (capacity NT, so Go never blocks) + closed  *)
(*   - w.tasks    unbuffered: the send of the queue goroutine and the receive  *)
(*                of a worker are one rendezvous action (WRecvTask)           *)
(*   - w.stoppedWorkers unbuffered: rendezvous WSendStopped                   *)
(*   - j.result   buffered(1), written once; j.completed / w.ackShutdown /     *)
(*                w.stopWorkers are close-only channels (booleans)            *)
(*   - w.sg       wait group = counter, Wait enabled at 0                      *)
(*   - w.lock     every critical section under it contains no blocking        *)
(*                operation, so each is one atomic action                      *)
(* The worker's reaction to an already recorded error is the point of the     *)
(* C26 defect: as originally coded the worker goroutine `return`s (action     *)
(* WSkipAsOriginallyCoded); the repaired code `continue`s (WSkip).            *)
EXTENDS Naturals, Sequences, FiniteSets, TLC

CONSTANTS NW,        \* number of workers
          NJ,        \* number of jobs (one client goroutine each)
          NT,        \* max tasks per job
          MaxJobs,   \* capacity of w.queue
          Original,  \* TRUE: worker loop as originally coded (return on shared error)
          SubmitDuringStop  \* TRUE: Stop may begin while a client is inside NewJob

JobIds  == 1..NJ
Wk      == 1..NW
TaskIds == JobIds \X (1..NT)
Nil     == <<0, 0>>                      \* "no error"
Shut    == <<0, 1>>                      \* ErrShutdown

VARIABLES
  fails,      \* SUBSET TaskIds: executed closures that returned an error (chosen when the closure returns)
  cpc,        \* [JobIds -> client pc]
  sent,       \* [JobIds -> 0..NT]      tasks handed to Go so far
  jtasks,     \* [JobIds -> Seq(TaskIds)]  j.tasks buffer
  jclosed,    \* [JobIds -> BOOLEAN]    j.tasks closed (Done called)
  completed,  \* [JobIds -> BOOLEAN]    j.completed closed
  result,     \* [JobIds -> <<>> (empty) | <<e>>]   j.result buffer
  waitres,    \* [JobIds -> error value returned by Wait, Nil before]
  queue, qclosed,                        \* w.queue
  shouldShutdown, triggered, ackClosed, stopClosed,
  err,        \* w.err
  sg,         \* w.sg
  qpc, qjob, qtask,                      \* queue goroutine
  wpc, wtask,                            \* workers
  spc, scount,                           \* stopper
  runs, ended, jobOrder                  \* observation only: runs[t] = number of times closure t was called

vars == <<fails, cpc, sent, jtasks, jclosed, completed, result, waitres, queue, qclosed, shouldShutdown,
          triggered, ackClosed, stopClosed, err, sg, qpc, qjob, qtask, wpc, wtask, spc, scount,
          runs, ended, jobOrder>>

Init ==
  /\ fails = {}
  /\ cpc = [j \in JobIds |-> "idle"] /\ sent = [j \in JobIds |-> 0]
  /\ jtasks = [j \in JobIds |-> <<>>] /\ jclosed = [j \in JobIds |-> FALSE]
  /\ completed = [j \in JobIds |-> FALSE] /\ result = [j \in JobIds |-> <<>>]
  /\ waitres = [j \in JobIds |-> Nil]
  /\ queue = <<>> /\ qclosed = FALSE
  /\ shouldShutdown = FALSE /\ triggered = FALSE /\ ackClosed = FALSE /\ stopClosed = FALSE
  /\ err = Nil /\ sg = 0
  /\ qpc = "recv" /\ qjob = 0 /\ qtask = Nil
  /\ wpc = [w \in Wk |-> "sel"] /\ wtask = [w \in Wk |-> Nil]
  /\ spc = "idle" /\ scount = 0
  /\ runs = [t \in TaskIds |-> 0] /\ ended = {} /\ jobOrder = <<>>

(* ------------------------------------------------------------------ clients *)
\* NewJob, first critical section: read shouldShutdown
CNewJobCheck(j) ==
  /\ cpc[j] = "idle"
  /\ cpc' = [cpc EXCEPT ![j] = IF shouldShutdown THEN "rejected" ELSE "chk"]
  /\ UNCHANGED <<fails, sent, jtasks, jclosed, completed, result, waitres, queue, qclosed, shouldShutdown,
                 triggered, ackClosed, stopClosed, err, sg, qpc, qjob, qtask, wpc, wtask, spc, scount,
                 runs, ended, jobOrder>>
\* NewJob: w.queue <- j   (a send on a closed channel panics, also when the sender was already blocked)
CNewJobSend(j) ==
  /\ cpc[j] = "chk"
  /\ \/ /\ qclosed
        /\ cpc' = [cpc EXCEPT ![j] = "panicked"] /\ UNCHANGED <<queue, jobOrder>>
     \/ /\ ~qclosed /\ Len(queue) < MaxJobs
        /\ queue' = Append(queue, j) /\ jobOrder' = Append(jobOrder, j)
        /\ cpc' = [cpc EXCEPT ![j] = "open"]
  /\ UNCHANGED <<fails, sent, jtasks, jclosed, completed, result, waitres, qclosed, shouldShutdown,
                 triggered, ackClosed, stopClosed, err, sg, qpc, qjob, qtask, wpc, wtask, spc, scount,
                 runs, ended>>
CGo(j) ==
  /\ cpc[j] = "open" /\ sent[j] < NT
  /\ sent' = [sent EXCEPT ![j] = @ + 1]
  /\ jtasks' = [jtasks EXCEPT ![j] = Append(@, <<j, sent[j] + 1>>)]
  /\ UNCHANGED <<fails, cpc, jclosed, completed, result, waitres, queue, qclosed, shouldShutdown,
                 triggered, ackClosed, stopClosed, err, sg, qpc, qjob, qtask, wpc, wtask, spc, scount,
                 runs, ended, jobOrder>>
CDone(j) ==
  /\ cpc[j] = "open"
  /\ jclosed' = [jclosed EXCEPT ![j] = TRUE]
  /\ cpc' = [cpc EXCEPT ![j] = "closed"]
  /\ UNCHANGED <<fails, sent, jtasks, completed, result, waitres, queue, qclosed, shouldShutdown,
                 triggered, ackClosed, stopClosed, err, sg, qpc, qjob, qtask, wpc, wtask, spc, scount,
                 runs, ended, jobOrder>>
CWait(j) ==
  /\ cpc[j] = "closed" /\ result[j] # <<>>
  /\ waitres' = [waitres EXCEPT ![j] = result[j][1]]
  /\ result' = [result EXCEPT ![j] = <<>>]
  /\ cpc' = [cpc EXCEPT ![j] = "waited"]
  /\ UNCHANGED <<fails, sent, jtasks, jclosed, completed, queue, qclosed, shouldShutdown,
                 triggered, ackClosed, stopClosed, err, sg, qpc, qjob, qtask, wpc, wtask, spc, scount,
                 runs, ended, jobOrder>>

(* ---------------------------------------------------------- queue goroutine *)
QUnch == <<fails, cpc, sent, jclosed, waitres, qclosed, shouldShutdown, stopClosed, wpc, wtask, spc, scount,
           runs, ended, jobOrder>>
\* for j := range w.queue
QRecv ==
  /\ qpc = "recv"
  /\ \/ /\ queue # <<>> /\ qjob' = Head(queue) /\ queue' = Tail(queue) /\ qpc' = "chk"
     \/ /\ queue = <<>> /\ qclosed /\ qpc' = "fin" /\ UNCHANGED <<qjob, queue>>
  /\ UNCHANGED <<QUnch, jtasks, completed, result, triggered, ackClosed, err, sg, qtask>>
\* read shouldShutdown under the lock; j.result <- ErrShutdown
QCheck ==
  /\ qpc = "chk"
  /\ IF shouldShutdown
       THEN result' = [result EXCEPT ![qjob] = <<Shut>>] /\ qpc' = "recv"
       ELSE UNCHANGED result /\ qpc' = "range"
  /\ UNCHANGED <<QUnch, jtasks, completed, queue, triggered, ackClosed, err, sg, qjob, qtask>>
\* for t := range j.tasks { w.sg.Add(1); ...
QRange ==
  /\ qpc = "range"
  /\ \/ /\ jtasks[qjob] # <<>>
        /\ qtask' = Head(jtasks[qjob]) /\ jtasks' = [jtasks EXCEPT ![qjob] = Tail(@)]
        /\ sg' = sg + 1 /\ qpc' = "send"
     \/ /\ jtasks[qjob] = <<>> /\ jclosed[qjob]
        /\ qpc' = "wait" /\ UNCHANGED <<qtask, jtasks, sg>>
  /\ UNCHANGED <<QUnch, completed, result, queue, triggered, ackClosed, err, qjob>>
\* w.sg.Wait()
QWait ==
  /\ qpc = "wait" /\ sg = 0 /\ qpc' = "publish"
  /\ UNCHANGED <<QUnch, jtasks, completed, result, queue, triggered, ackClosed, err, sg, qjob, qtask>>
\* lock; close(j.completed); j.result <- w.err; w.err = nil; unlock
QPublish ==
  /\ qpc = "publish"
  /\ completed' = [completed EXCEPT ![qjob] = TRUE]
  /\ result' = [result EXCEPT ![qjob] = <<err>>]
  /\ err' = Nil /\ qpc' = "recv"
  /\ UNCHANGED <<QUnch, jtasks, queue, triggered, ackClosed, sg, qjob, qtask>>
\* after the range loop: close(w.ackShutdown) once
QFin ==
  /\ qpc = "fin"
  /\ IF shouldShutdown /\ ~triggered
       THEN triggered' = TRUE /\ ackClosed' = TRUE
       ELSE UNCHANGED <<triggered, ackClosed>>
  /\ qpc' = "exit"
  /\ UNCHANGED <<QUnch, jtasks, completed, result, queue, err, sg, qjob, qtask>>

(* ------------------------------------------------------------------ workers *)
WUnch == <<fails, cpc, sent, jtasks, jclosed, completed, result, waitres, queue, qclosed, shouldShutdown,
           triggered, ackClosed, stopClosed, qjob, jobOrder>>
\* select: case j := <-w.tasks   (rendezvous with the queue goroutine's  w.tasks <- t)
WRecvTask(w) ==
  /\ wpc[w] = "sel" /\ qpc = "send"
  /\ wtask' = [wtask EXCEPT ![w] = qtask] /\ wpc' = [wpc EXCEPT ![w] = "chk"]
  /\ qpc' = "range" /\ qtask' = Nil
  /\ UNCHANGED <<WUnch, err, sg, spc, scount, runs, ended>>
\* select: case <-w.stopWorkers
WSeeStop(w) ==
  /\ wpc[w] = "sel" /\ stopClosed
  /\ wpc' = [wpc EXCEPT ![w] = "stopped"]
  /\ UNCHANGED <<WUnch, err, sg, qpc, qtask, wtask, spc, scount, runs, ended>>
\* RLock; err := w.err; RUnlock; err == nil: call the closure (start event)
WStart(w) ==
  /\ wpc[w] = "chk" /\ err = Nil
  /\ runs' = [runs EXCEPT ![wtask[w]] = @ + 1]
  /\ wpc' = [wpc EXCEPT ![w] = "run"]
  /\ UNCHANGED <<WUnch, err, sg, qpc, qtask, wtask, spc, scount, ended>>
\* err != nil: w.sg.Done(); continue            (repaired code)
WSkip(w) ==
  /\ ~Original
  /\ wpc[w] = "chk" /\ err # Nil
  /\ sg' = sg - 1 /\ wpc' = [wpc EXCEPT ![w] = "sel"] /\ wtask' = [wtask EXCEPT ![w] = Nil]
  /\ UNCHANGED <<WUnch, err, qpc, qtask, spc, scount, runs, ended>>
\* err != nil: w.sg.Done(); return              (the worker goroutine is gone for good)
WSkipAsOriginallyCoded(w) ==
  /\ Original
  /\ wpc[w] = "chk" /\ err # Nil
  /\ sg' = sg - 1 /\ wpc' = [wpc EXCEPT ![w] = "exit"] /\ wtask' = [wtask EXCEPT ![w] = Nil]
  /\ UNCHANGED <<WUnch, err, qpc, qtask, spc, scount, runs, ended>>
\* the closure returns (end event), with or without an error
WEnd(w) ==
  /\ wpc[w] = "run"
  /\ ended' = ended \cup {wtask[w]}
  /\ \E f \in BOOLEAN :
        /\ fails' = IF f THEN fails \cup {wtask[w]} ELSE fails
        /\ wpc' = [wpc EXCEPT ![w] = IF f THEN "seterr" ELSE "sgdone"]
  /\ UNCHANGED <<cpc, sent, jtasks, jclosed, completed, result, waitres, queue, qclosed, shouldShutdown,
                 triggered, ackClosed, stopClosed, qjob, jobOrder, err, sg, qpc, qtask, wtask, spc, scount, runs>>
\* Lock; if w.err == nil { w.err = err }; Unlock
WSetErr(w) ==
  /\ wpc[w] = "seterr"
  /\ err' = IF err = Nil THEN wtask[w] ELSE err
  /\ wpc' = [wpc EXCEPT ![w] = "sgdone"]
  /\ UNCHANGED <<WUnch, sg, qpc, qtask, wtask, spc, scount, runs, ended>>
\* w.sg.Done()
WSgDone(w) ==
  /\ wpc[w] = "sgdone"
  /\ sg' = sg - 1 /\ wpc' = [wpc EXCEPT ![w] = "sel"] /\ wtask' = [wtask EXCEPT ![w] = Nil]
  /\ UNCHANGED <<WUnch, err, qpc, qtask, spc, scount, runs, ended>>
\* w.stoppedWorkers <- struct{}{}  (rendezvous with Stop's receive loop); return
WSendStopped(w) ==
  /\ wpc[w] = "stopped" /\ spc = "collect" /\ scount < NW
  /\ scount' = scount + 1 /\ wpc' = [wpc EXCEPT ![w] = "exit"]
  /\ UNCHANGED <<WUnch, err, sg, qpc, qtask, wtask, spc, runs, ended>>

(* --------------------------------------------------------------------- Stop *)
SUnch == <<fails, cpc, sent, jtasks, jclosed, completed, result, waitres, queue, triggered, ackClosed,
           err, sg, qpc, qjob, qtask, wpc, wtask, scount, runs, ended, jobOrder>>
SSetFlag ==
  /\ spc = "idle"
  /\ SubmitDuringStop \/ \A j \in JobIds : cpc[j] # "chk"
  /\ shouldShutdown' = TRUE /\ spc' = "close"
  /\ UNCHANGED <<SUnch, qclosed, stopClosed>>
SCloseQueue ==
  /\ spc = "close" /\ qclosed' = TRUE /\ spc' = "ack"
  /\ UNCHANGED <<SUnch, shouldShutdown, stopClosed>>
\* <-w.ackShutdown; close(w.stopWorkers)
SAck ==
  /\ spc = "ack" /\ ackClosed /\ stopClosed' = TRUE /\ spc' = "collect"
  /\ UNCHANGED <<SUnch, shouldShutdown, qclosed>>
SReturn ==
  /\ spc = "collect" /\ scount = NW /\ spc' = "ret"
  /\ UNCHANGED <<SUnch, shouldShutdown, qclosed, stopClosed>>

(* ------------------------------------------------------------ specification *)
ClientDone(j) == cpc[j] \in {"idle", "waited", "rejected", "panicked"}
Quiescent == (\A j \in JobIds : ClientDone(j)) /\ spc \in {"idle", "ret"}
Terminating == Quiescent /\ UNCHANGED vars

ClientStep(j) == CNewJobCheck(j) \/ CNewJobSend(j) \/ CGo(j) \/ CDone(j) \/ CWait(j)
QueueStep     == QRecv \/ QCheck \/ QRange \/ QWait \/ QPublish \/ QFin
WorkerStep(w) == WRecvTask(w) \/ WSeeStop(w) \/ WStart(w) \/ WSkip(w) \/ WSkipAsOriginallyCoded(w)
                 \/ WEnd(w) \/ WSetErr(w) \/ WSgDone(w) \/ WSendStopped(w)
StopStep      == SCloseQueue \/ SAck \/ SReturn

Next == (\E j \in JobIds : ClientStep(j)) \/ QueueStep \/ (\E w \in Wk : WorkerStep(w)) \/ SSetFlag \/ StopStep
        \/ Terminating

(* Weak fairness of every goroutine once it is running.  A client is never   *)
(* forced to submit a job or to add another task, and Stop is never forced   *)
(* to be called; everything else (including the client's Done and Wait) is.  *)
Fairness ==
  /\ \A j \in JobIds : WF_vars(CNewJobSend(j) \/ CDone(j) \/ CWait(j))
  /\ WF_vars(QueueStep)
  /\ \A w \in Wk : WF_vars(WorkerStep(w))
  /\ WF_vars(StopStep)
Spec == Init /\ [][Next]_vars /\ Fairness

(* --------------------------------------------------------------- properties *)
TypeOK ==
  /\ sg \in 0..(NJ * NT) /\ scount \in 0..NW
  /\ \A j \in JobIds : Len(result[j]) <= 1 /\ Len(jtasks[j]) <= NT
  /\ Len(queue) <= MaxJobs

TasksOf(j)  == {t \in TaskIds : t[1] = j}
GoneTo(j)   == {t \in TasksOf(j) : t[2] <= sent[j]}          \* tasks handed to Go
started     == {t \in TaskIds : runs[t] > 0}
Running     == started \ ended
Outcome(j)  == IF result[j] # <<>> THEN result[j][1] ELSE waitres[j]
HasOutcome(j) == result[j] # <<>> \/ cpc[j] = "waited"

\* "runs each of its tasks at most once"
AtMostOnce == \A t \in TaskIds : runs[t] <= 1
\* "runs all of them if none fails", "reports an error iff some executed task failed", error identity
JobResultOK ==
  \A j \in JobIds : HasOutcome(j) /\ Outcome(j) # Shut =>
     /\ (started \cap TasksOf(j)) \subseteq ended                                  \* completes
     /\ (Outcome(j) = Nil) <=> ~\E t \in started \cap TasksOf(j) : t \in fails
     /\ Outcome(j) # Nil => Outcome(j) \in started \cap TasksOf(j) /\ Outcome(j) \in fails
     /\ (Outcome(j) = Nil) => GoneTo(j) \subseteq started
\* a job that reports shutdown ran nothing
ShutdownRanNothing ==
  \A j \in JobIds : HasOutcome(j) /\ Outcome(j) = Shut => started \cap TasksOf(j) = {} /\ shouldShutdown
\* "completes before the next job starts": tasks of two jobs never run together, and a job that started
\* after another one finds it finished
JobsSequential ==
  /\ \A a, b \in Running : a[1] = b[1]
  /\ \A i, k \in DOMAIN jobOrder : i < k /\ started \cap TasksOf(jobOrder[k]) # {} =>
        HasOutcome(jobOrder[i])
\* Stop returned: all workers are gone, nothing runs, every accepted job has its outcome, new jobs are refused
StopShutsDown ==
  spc = "ret" =>
     /\ \A w \in Wk : wpc[w] = "exit"
     /\ Running = {}
     /\ \A j \in JobIds : cpc[j] \in {"open", "closed"} => HasOutcome(j)
     /\ shouldShutdown
\* a client that is inside NewJob while Stop closes the queue panics (send on closed channel)
KF_C26_submit_races_stop(j) == cpc[j] = "panicked" /\ qclosed
NoPanic == \A j \in JobIds : cpc[j] # "panicked"
PanicOnlyKnown == \A j \in JobIds : cpc[j] = "panicked" => KF_C26_submit_races_stop(j)

\* liveness: a job whose client called Done gets its result; Stop, once called, returns
JobCompletes == \A j \in JobIds : (cpc[j] = "closed") ~> (cpc[j] = "waited")
StopReturns  == (spc # "idle") ~> (spc = "ret")
=============================================================================
