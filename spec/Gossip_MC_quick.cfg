SPECIFICATION Spec
CONSTANTS
  Txs = {1, 2}
  Peers = {"n1", "n2"}
  Self = "me"
  MaxSize = 3
  CacheSize = 2
  Sizes = {1, 2}
  Strategy = "proposers"
  Variant = "code"
INVARIANTS TypeOK NoRegossip NoEcho NeverToSelf Targeting
PROPERTIES Selection KeepsLive
CHECK_DEADLOCK FALSE
