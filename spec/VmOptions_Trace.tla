--------------------------- MODULE VmOptions_Trace ---------------------------
(* Trace validation of the real vm/option.go wiring (X15).                   *)
(*   reset {kind, da, db}     a new Option made by NewOption with default    *)
(*                            {a: da, b: db} (kind = inv), or a fold / New   *)
(*                            scenario                                       *)
(*   inv  {rk, ha, a, hb, b, err, called, ga, gb, opt}  one VM runs the      *)
(*        Option's optionFunc with raw config (rk = none | obj | syntax |    *)
(*        type); called = times the option's function ran, ga / gb = the     *)
(*        config it was handed                                               *)
(*   fold {prims[{k, ids}], builder, gossiper, subs, apis}  the Opts built   *)
(*        from prims (randomly nested with NewOpt) applied to one Options    *)
(*   new  {nss, ok, kept}     vm.New with options of those namespaces        *)
EXTENDS VmOptions, TLC, Json, IOUtils

VARIABLES l, diag, def
tvars == <<vars, l, diag, def>>

Trace == ndJsonDeserialize(IOEnv.TRACE)
N     == Len(Trace)
T     == Trace[l]
Ev(e) == l <= N /\ Trace[l].ev = e /\ l' = l + 1
Name(ok, n) == IF ok THEN {} ELSE {n}

TraceInit == l = 1 /\ TLCSet(1, 0) /\ diag = {} /\ def = Default /\ Init

TReset ==
  /\ Ev("reset") /\ def' = [a |-> T.da, b |-> T.db] /\ cfgvar' = def'
  /\ acc' = Acc0 /\ hist' = <<>> /\ diag' = {}
  /\ res' = [raw |-> [kind |-> "none", ha |-> FALSE, a |-> 0, hb |-> FALSE, b |-> 0], err |-> FALSE, called |-> 1, cfg |-> def']

Raw == [kind |-> T.rk, ha |-> T.ha, a |-> T.a, hb |-> T.hb, b |-> T.b]

(* KF_X15_shared_config: the closure built by NewOption keeps decoding into the SAME variable, so a VM is handed the
   default as modified by the raw configs of the VMs initialised before it (incl. ones that failed to decode) *)
KF_X15_shared_config(got) == cfgvar # def /\ got = NextCfg(cfgvar, Raw)

TInv ==
  /\ Ev("inv") /\ UNCHANGED <<def, acc, hist>>
  /\ LET got  == [a |-> T.ga, b |-> T.gb]
         want == NextCfg(def, Raw)                       \* the statement: the default overlaid with this VM's raw config
         bad  == Undecodable(Raw)
         kf   == ~T.err /\ got # want /\ KF_X15_shared_config(got)
     IN /\ cfgvar' = NextCfg(cfgvar, Raw)
        /\ res' = [raw |-> Raw, err |-> T.err, called |-> T.called, cfg |-> IF T.err THEN NoCfg ELSE IF kf THEN want ELSE got]
        /\ diag' = Name(T.err = bad, "error-iff-raw-config-undecodable") \cup
                   Name(T.called = (IF T.err THEN 0 ELSE 1), "option-function-runs-once-iff-no-error") \cup
                   Name(T.err \/ got = want \/ kf, "handed-config-is-not-default-overlaid-with-raw") \cup
                   Name(T.err \/ T.opt, "no-opt-returned")
        /\ (kf => PrintT(<<"KF_HIT", "option-config-shared-across-vms", l>>))

TFold ==
  /\ Ev("fold") /\ UNCHANGED <<def, cfgvar, res>>
  /\ hist' = T.prims
  /\ acc' = [builder |-> T.builder, gossiper |-> T.gossiper, subs |-> T.subs, apis |-> T.apis]
  /\ diag' = Name(T.builder = (\E i \in DOMAIN T.prims : T.prims[i].k \in {"builder", "manual"}), "builder-flag") \cup
             Name(T.gossiper = (\E i \in DOMAIN T.prims : T.prims[i].k \in {"gossiper", "manual"}), "gossiper-flag") \cup
             Name(T.subs = Cat(T.prims, "subs"), "subscription-factories-not-in-application-order") \cup
             Name(T.apis = Cat(T.prims, "apis"), "api-factories-not-in-application-order")

TNew ==
  /\ Ev("new") /\ UNCHANGED <<def, vars>>
  /\ diag' = Name(T.ok = NamespacesOK(T.nss), "new-accepts-iff-namespaces-distinct") \cup
             Name(T.ok => T.kept = Len(T.nss), "options-dropped")

TraceNext == TReset \/ TInv \/ TFold \/ TNew
TraceSpec == TraceInit /\ [][TraceNext]_tvars

DiagEmpty == diag = {}
TFresh == (~res.err /\ res.called = 1) => res.cfg = (IF res.raw.kind = "obj" THEN Overlay(def, res.raw) ELSE def)
HWM      == TLCSet(1, IF TLCGet(1) > l - 1 THEN TLCGet(1) ELSE l - 1)
Accepted == PrintT(<<"TRACE_HWM", TLCGet(1)>>) /\ TLCGet(1) = N
=============================================================================
