SPECIFICATION MCSpec
CONSTANTS
  Tree <- Tree5
  Root = "b0"
  InitReady = {FALSE}
  PCaps = {2}
  ACaps = {2}
  MaxBacklog = 1
  MaxFaults = 1
  MaxParses = 0
  WithSync = TRUE
  FixParentMissing = TRUE
VIEW View
CHECK_DEADLOCK FALSE
INVARIANTS
  TypeOK
  VerifyOnlyOnVerifiedOrAcceptedParent
  AcceptInHeightOrderAtMostOnce
  NeverAcceptRejected
  AcceptedNotificationsMatch
  RejectedNotificationsMatch
  VerifiedNotificationsMatch
  LookupReturnsAcceptedChain
  NoFatalAccept
  AcceptParentPopulated
  EndsAtExecutedState
  ReverifiesAllProcessing
  UnhealthyUntilInvalidRejected
  FinishNeverFails
