----------------------------- MODULE AuthBatch -----------------------------
(* C16 - signature verification of a block: chain/processor.go                *)
(* verifySignatures / waitSignatures, chain/auth_batch.go (AuthBatch, one     *)
(* authBatchWorker goroutine per batched auth type fed through a channel),    *)
(* auth/ed25519.go ED25519Batch (fixed-size batches cut while adding, the     *)
(* remainder returned by Done) and the job of internal/workers                *)
(* (ParallelWorkers: queue goroutine hands tasks to Cores workers, a shared   *)
(* first error, a worker skips a task once an error is recorded).             *)
(*                                                                            *)
(* A block is a sequence of transactions, each with an auth kind ("b" = a     *)
(* kind that has a batch verifier, "u" = verified one by one) and a boolean   *)
(* saying whether its signature verifies.  A task is the set of transaction   *)
(* positions it verifies; running it succeeds iff it is non-empty and all of  *)
(* them are valid (an empty ed25519consensus batch verifies to false).        *)
(* Processes: main (Add loop, then the deferred Done goroutine), the batch    *)
(* worker, the pool's queue goroutine + workers.                              *)
EXTENDS AuthRules

CONSTANTS MaxTx,       \* blocks of 0..MaxTx transactions
          MaxCores,    \* 1..MaxCores workers
          MinBatch,    \* ed25519.MinBatchSize (4 in the code, scaled in the design run)
          ItemCap,     \* capacity of the batch worker's item channel (authWorkerBacklog = 16384 in the code)
          BlockingAdd, \* TRUE = as coded: AuthBatch.Add blocks on a full item channel; FALSE = sensitivity variant: a full
                       \* channel makes Add verify the signature directly on the job (select/default)
          FlushRemainder \* TRUE = as coded; FALSE = sensitivity variant: Done() drops the unfinished batch

VARIABLES kinds, valid, cores,       \* the block and the configuration (chosen in Init)
          next,                      \* main: position of the next transaction to Add (Len+1 = loop finished)
          items, itemsClosed,        \* channel to the batch worker
          cur, counter, totalCounter, \* ED25519Batch: current batch (set of positions, "nil" before the first Add)
          bwDone,                    \* batch worker returned
          donePc,                    \* deferred Done goroutine: "wait" | "flush" | "closed"
          tasks, tasksClosed,        \* the job's task channel
          holding,                   \* worker -> task it holds ({} = idle) together with a phase
          phase,                     \* worker -> "idle" | "got" | "running" | "skipped"
          err,                       \* the pool's shared error is set
          result,                    \* "none" | "ok" | "fail": what sigJob.Wait() returns
          dispatched, ran            \* history: positions ever put into a task / positions whose task was executed
vars == <<kinds, valid, cores, next, items, itemsClosed, cur, counter, totalCounter, bwDone, donePc, tasks, tasksClosed,
          holding, phase, err, result, dispatched, ran>>

N        == Len(kinds)
Pos      == 1..N
Batched  == {i \in Pos : kinds[i] = "b"}
Count    == Cardinality(Batched)
HasBW    == Count > 0                                \* authCounts only lists types that occur
BatchSize == BatchSizeOf(Count, cores, MinBatch)    \* ED25519AuthEngine.GetBatchVerifier
Workers  == 1..cores
Nil      == {-1}                                     \* b.batch == nil

Blocks == UNION {[1..n -> {"b", "u"}] : n \in 0..MaxTx}

Init ==
  /\ kinds \in Blocks
  /\ valid \in [1..Len(kinds) -> BOOLEAN]
  /\ cores \in 1..MaxCores
  /\ next = 1 /\ items = <<>> /\ itemsClosed = FALSE
  /\ cur = Nil /\ counter = 0 /\ totalCounter = 0
  /\ bwDone = ~(Cardinality({i \in 1..Len(kinds) : kinds[i] = "b"}) > 0)
  /\ donePc = "wait"
  /\ tasks = <<>> /\ tasksClosed = FALSE
  /\ holding = [w \in 1..cores |-> {}] /\ phase = [w \in 1..cores |-> "idle"]
  /\ err = FALSE /\ result = "none" /\ dispatched = {} /\ ran = {}

(* job.Go(task): sending on a closed channel would panic - see NoSendAfterClose *)
Go(t) == /\ tasks' = Append(tasks, t)
         /\ dispatched' = dispatched \cup t

(* ---- main: batchVerifier.Add for the next transaction *)
MainAdd ==
  /\ next <= N
  /\ LET full == kinds[next] = "b" /\ Len(items) >= ItemCap IN
     /\ (BlockingAdd => ~full)                                       \* bv.items <- object blocks while the channel is full
     /\ next' = next + 1
     /\ IF kinds[next] = "u" \/ full
          THEN Go({next}) /\ UNCHANGED items                       \* no batch verifier (or, variant, full channel): straight to the job
          ELSE items' = Append(items, next) /\ UNCHANGED <<tasks, dispatched>>
  /\ UNCHANGED <<kinds, valid, cores, itemsClosed, cur, counter, totalCounter, bwDone, donePc, tasksClosed, holding, phase, err,
                 result, ran>>

(* ---- batch worker: for object := range items { if j := bv.Add(..); j != nil { job.Go(j) } } *)
BWAdd ==
  /\ ~bwDone /\ items # <<>>
  /\ LET i   == Head(items)
         b   == (IF cur = Nil THEN {} ELSE cur) \cup {i}
     IN /\ items' = Tail(items)
        /\ totalCounter' = totalCounter + 1
        /\ IF counter + 1 = BatchSize
             THEN /\ counter' = 0
                  /\ cur' = IF totalCounter + 1 < Count THEN {} ELSE b   \* "don't create a new batch if we are done"
                  /\ Go(b)
             ELSE /\ counter' = counter + 1 /\ cur' = b /\ UNCHANGED <<tasks, dispatched>>
  /\ UNCHANGED <<kinds, valid, cores, next, itemsClosed, bwDone, donePc, tasksClosed, holding, phase, err, result, ran>>
BWExit ==
  /\ ~bwDone /\ items = <<>> /\ itemsClosed
  /\ bwDone' = TRUE
  /\ UNCHANGED <<kinds, valid, cores, next, items, itemsClosed, cur, counter, totalCounter, donePc, tasks, tasksClosed, holding,
                 phase, err, result, dispatched, ran>>

(* ---- deferred: go batchVerifier.Done(...) - starts when the Add loop has returned *)
DoneClose ==
  /\ next = N + 1 /\ donePc = "wait" /\ ~itemsClosed /\ HasBW
  /\ itemsClosed' = TRUE
  /\ UNCHANGED <<kinds, valid, cores, next, items, cur, counter, totalCounter, bwDone, donePc, tasks, tasksClosed, holding, phase,
                 err, result, dispatched, ran>>
DoneFlush ==                                          \* <-bw.done; for item in bv.Done() { job.Go(item) }
  /\ next = N + 1 /\ donePc = "wait" /\ bwDone /\ (HasBW => itemsClosed)
  /\ donePc' = "flush"
  /\ IF FlushRemainder /\ HasBW /\ cur # Nil THEN Go(cur) ELSE UNCHANGED <<tasks, dispatched>>
  /\ UNCHANGED <<kinds, valid, cores, next, items, itemsClosed, cur, counter, totalCounter, bwDone, tasksClosed, holding, phase,
                 err, result, ran>>
DoneJob ==                                            \* job.Done: close(j.tasks)
  /\ donePc = "flush"
  /\ donePc' = "closed" /\ tasksClosed' = TRUE
  /\ UNCHANGED <<kinds, valid, cores, next, items, itemsClosed, cur, counter, totalCounter, bwDone, tasks, holding, phase, err,
                 result, dispatched, ran>>

(* ---- pool: the queue goroutine hands the next task to a free worker (w.tasks is unbuffered) *)
Hand(w) ==
  /\ tasks # <<>> /\ phase[w] = "idle" /\ result = "none"
  /\ holding' = [holding EXCEPT ![w] = Head(tasks)] /\ phase' = [phase EXCEPT ![w] = "got"]
  /\ tasks' = Tail(tasks)
  /\ UNCHANGED <<kinds, valid, cores, next, items, itemsClosed, cur, counter, totalCounter, bwDone, donePc, tasksClosed, err,
                 result, dispatched, ran>>
Check(w) ==                                           \* read w.err under the read lock
  /\ phase[w] = "got"
  /\ phase' = [phase EXCEPT ![w] = IF err THEN "idle" ELSE "running"]
  /\ holding' = [holding EXCEPT ![w] = IF err THEN {} ELSE holding[w]]
  /\ UNCHANGED <<kinds, valid, cores, next, items, itemsClosed, cur, counter, totalCounter, bwDone, donePc, tasks, tasksClosed,
                 err, result, dispatched, ran>>
Finish(w) ==                                          \* j() returned; record the first error; sg.Done()
  /\ phase[w] = "running"
  /\ ran' = ran \cup holding[w]
  /\ err' = (err \/ holding[w] = {} \/ \E i \in holding[w] : ~valid[i])    \* an EMPTY ed25519 batch verifies to false
  /\ phase' = [phase EXCEPT ![w] = "idle"] /\ holding' = [holding EXCEPT ![w] = {}]
  /\ UNCHANGED <<kinds, valid, cores, next, items, itemsClosed, cur, counter, totalCounter, bwDone, donePc, tasks, tasksClosed,
                 result, dispatched>>
Complete ==                                           \* tasks channel closed and drained, sg.Wait() returned
  /\ result = "none" /\ tasksClosed /\ tasks = <<>> /\ \A w \in Workers : phase[w] = "idle"
  /\ result' = IF err THEN "fail" ELSE "ok"
  /\ UNCHANGED <<kinds, valid, cores, next, items, itemsClosed, cur, counter, totalCounter, bwDone, donePc, tasks, tasksClosed,
                 holding, phase, err, dispatched, ran>>

Next == MainAdd \/ BWAdd \/ BWExit \/ DoneClose \/ DoneFlush \/ DoneJob \/ Complete
        \/ \E w \in Workers : Hand(w) \/ Check(w) \/ Finish(w)
Spec == Init /\ [][Next]_vars /\ WF_vars(Next)

(* ------------------------------------------------------------------ properties *)
AllValid == AllValidOf(valid)
(* the verdict of the block's signature check *)
VerdictCorrect  == result # "none" => result = ExpectedVerdict(valid)
(* every signature belongs to a task handed to the job, and when the job reports success every task was executed *)
EverySigChecked == result # "none" => (dispatched = Pos /\ (result = "ok" => ran = Pos))
(* nothing is sent on the task channel after job.Done closed it (would panic in Go) *)
NoSendAfterClose == tasksClosed => (next = N + 1 /\ bwDone /\ donePc = "closed")
(* one-by-one reference: the same block with no batch verifier gives the same verdict - by VerdictCorrect both equal AllValid *)
Terminates == <>(result # "none")
(* every action strictly advances some counter, so the job terminates iff no state before the result is stuck *)
NotStuck == result = "none" => ENABLED Next
=============================================================================
