SPECIFICATION Spec
CONSTANTS
  MaxN = 3
  MaxLen = 2
  Alphabet = {0, 1}
INVARIANT ForwardOnlyIsExact
CHECK_DEADLOCK FALSE
