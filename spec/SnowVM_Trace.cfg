SPECIFICATION TraceSpec
CONSTANTS
  FixParentMissing = TRUE
CONSTRAINT HWM
POSTCONDITION Accepted
CHECK_DEADLOCK FALSE
INVARIANTS
  TypeOK
  VerifyOnlyOnVerifiedOrAcceptedParent
  AcceptInHeightOrderAtMostOnce
  NeverAcceptRejected
  AcceptedNotificationsMatch
  RejectedNotificationsMatch
  VerifiedNotificationsMatch
  LookupReturnsAcceptedChain
  NoFatalAccept
  AcceptParentPopulated
  EndsAtExecutedState
  ReverifiesAllProcessing
  UnhealthyUntilInvalidRejected
  FinishNeverFails
