-------------------------- MODULE DsmrHandlers_Trace ------------------------
(* Trace validation of the real DSMR p2p handlers (X09) against              *)
(* DsmrHandlers.tla.  Lines (all carry held / certs / weights after the      *)
(* call: chunks whose bytes GetChunkBytes returns, chunks with a stored      *)
(* certificate, pending weight per producer in chunk units):                 *)
(*   reset  {limit, chunks: [{n, prod, ok, class, expiry}]}                  *)
(*   sig    {m, j, res, sigvalid, panic}   acp118 request: message = the     *)
(*          reference of chunk m, justification = bytes of chunk j (0 =      *)
(*          garbage); res = "signed" | "refused" | "panic"                   *)
(*   get    {c, garbage, res}   gossip {c, good}   expire {t}                *)
(* The expected outcome is SigOutcome3(m, j, TRUE, TRUE, valid).  Outcomes   *)
(* that are only explained by one of the three recorded deviations (message  *)
(* not compared with the justification, repeated request, forged producer)   *)
(* are recognised, reported as KF_HIT and followed, so the check works       *)
(* before and after fixes/X09-… is applied.                                  *)
EXTENDS DsmrHandlers, TLC, Json, IOUtils, Sequences

VARIABLES l, expiry, forged, diag
tvars == <<vars, l, expiry, forged, diag>>

Trace == ndJsonDeserialize(IOEnv.TRACE)
N     == Len(Trace)
T     == Trace[l]
Ev(e) == l <= N /\ Trace[l].ev = e /\ l' = l + 1
Name(ok, nm) == IF ok THEN {} ELSE {nm}
SeqSet(s) == {s[i] : i \in DOMAIN s}
TChunks == 1..16
ObsHeld == SeqSet(T.held)
WeightsOK(h) == \A p \in {"p0", "p1"} : T.weights[p] = Weight(h, p)
Common(h) == Name(ObsHeld = h, "stored-set") \cup Name(WeightsOK(h), "rate-limit-accounting") \cup Name(T.panic = "" \/ T.ev = "sig", "handler-panicked")

TraceInit == /\ l = 1 /\ TLCSet(1, 0) /\ att = [prod |-> <<>>, ok |-> <<>>, limit |-> 1, min |-> 0] /\ held = {} /\ cert = {}
             /\ signed = {} /\ res = "init" /\ expiry = <<>> /\ forged = {} /\ diag = {}
TReset == /\ Ev("reset")
          /\ att' = [prod |-> [i \in DOMAIN T.chunks |-> T.chunks[i].prod], ok |-> [i \in DOMAIN T.chunks |-> T.chunks[i].ok],
                     limit |-> T.limit, min |-> 0]
          /\ expiry' = [i \in DOMAIN T.chunks |-> T.chunks[i].expiry]
          /\ forged' = {i \in DOMAIN T.chunks : T.chunks[i].class = "forged"}
          /\ held' = {} /\ cert' = {} /\ signed' = {} /\ res' = "init" /\ diag' = {}

(* Known finding KF_X09_forged: ChunkVerifier.Verify checks the chunk's signature against the signer key carried by
   the chunk itself and never binds that key to the producer's node id, so a chunk "of" validator p signed with
   somebody else's key is treated as p's (class "forged": by the statement not valid, by the code valid while it
   has not expired). *)
TSig ==
  /\ Ev("sig") /\ UNCHANGED <<att, cert, expiry, forged>>
  /\ LET okProp == IF T.j = 0 THEN FALSE ELSE att.ok[T.j]
         okCode == IF T.j = 0 THEN FALSE ELSE (att.ok[T.j] \/ (T.j \in forged /\ expiry[T.j] >= att.min))
         out(c) == SigOutcome3(T.m, T.j, c[1], c[2], IF c[3] THEN okProp ELSE okCode)
         matches == {c \in BOOLEAN \X BOOLEAN \X BOOLEAN : T.res = out(c).res /\ ObsHeld = out(c).held}
         k == IF <<TRUE, TRUE, TRUE>> \in matches THEN 1 ELSE IF matches # {} THEN 2 ELSE 0
         slug == IF \A c \in matches : ~c[3] THEN "forged-producer-chunk-accepted"
                 ELSE IF \A c \in matches : ~c[1] THEN "signed-message-unrelated-to-justification"
                 ELSE "repeated-signature-request-" \o T.res
     IN /\ held' = ObsHeld /\ res' = T.res
        /\ signed' = IF T.res = "signed" THEN signed \cup {<<T.m, k # 1 \/ T.m \in ObsHeld>>} ELSE signed
        /\ (IF k > 1 THEN PrintT(<<"KF_HIT", slug, l>>) ELSE TRUE)
        /\ diag' = Name(k > 0, "signature-request-outcome") \cup
                   Name(T.res = "signed" => T.sigvalid, "signature-does-not-verify") \cup
                   Name(WeightsOK(ObsHeld), "rate-limit-accounting")

TGet == /\ Ev("get") /\ UNCHANGED <<att, held, cert, signed, expiry, forged>> /\ res' = T.res
        /\ diag' = Common(held) \cup
                   Name(T.garbage \/ (T.res = "served" <=> T.c \in held), "served-iff-held") \cup
                   Name(T.res # "wrong-bytes", "served-other-bytes") \cup
                   Name(T.garbage => T.res = "error", "garbage-request")

TGossip == /\ Ev("gossip") /\ UNCHANGED <<att, held, signed, expiry, forged>> /\ res' = "gossip"
           /\ cert' = (IF T.c \in held /\ T.good THEN cert \cup {T.c} ELSE cert)
           /\ diag' = Common(held) \cup Name(SeqSet(T.certs) = cert', "certificate-kept-iff-held-and-valid")

TExpire == /\ Ev("expire") /\ UNCHANGED <<signed, expiry, forged>> /\ res' = "expired"
           /\ held' = {c \in held : expiry[c] >= T.t} /\ cert' = {c \in cert : expiry[c] >= T.t}
           /\ att' = [att EXCEPT !.ok = [c \in DOMAIN att.ok |-> att.ok[c] /\ expiry[c] >= T.t], !.min = T.t]
           /\ diag' = Common(held') \cup Name(T.err = "", "harness-setmin") \cup Name(SeqSet(T.certs) = cert', "certificate-of-expired-chunk")

TraceNext == TReset \/ TSig \/ TGet \/ TGossip \/ TExpire
TraceSpec == TraceInit /\ [][TraceNext]_tvars

DiagEmpty == diag = {}
HWM      == TLCSet(1, IF TLCGet(1) > l - 1 THEN TLCGet(1) ELSE l - 1)
Accepted == PrintT(<<"TRACE_HWM", TLCGet(1)>>) /\ TLCGet(1) = N
=============================================================================
