SPECIFICATION Spec
CONSTANTS
  Reqs = {1, 2, 4}
  Send0 <- MCSend
  Variant = "oldest"
INVARIANTS OwnResponse SendRule
PROPERTIES Final Returns
CHECK_DEADLOCK FALSE
