SPECIFICATION MCSpec
CONSTANTS
  N = 3
  Mode = "coded"
  MaxCrashes = 1
CHECK_DEADLOCK FALSE
INVARIANTS
  TypeOK
  RestartSucceeds
  RecoveredEqualsNoCrash
  AtLeastOnceInOrder
