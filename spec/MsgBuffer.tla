----------------------------- MODULE MsgBuffer -----------------------------
(* C32 - pubsub/message_buffer.go + pubsub/messages.go.                     *)
(* MessageBuffer collects messages in `pending`, hands them to the bounded  *)
(* channel `Queue` as one canoto BatchMessage (repeated bytes, field 1)     *)
(* when the next message would not fit, when the timer fires, or on Close.  *)
(* One action per public call / critical section (everything runs under     *)
(* m.l): Send, the timer callback, Close, and the consumer reading Queue.   *)
(*                                                                          *)
(* A message is a record [len, fp]: payload length and a fingerprint of its *)
(* content (the binding step uses uniquely tagged payloads).                *)
(*                                                                          *)
(* Wire format of a batch: for every message  tag(1 byte) ++ varint(len)    *)
(* ++ payload.  VB is the varint base (128 in the real encoding, smaller    *)
(* in the design check so that the 1->2 byte boundary is inside the scope). *)
EXTENDS Integers, Sequences

CONSTANT VB

VARIABLES conf,         \* [max |-> maximum encoded batch size, cap |-> capacity of Queue]
          pending,      \* messages waiting for the next flush          (m.pending)
          pendingSize,  \* what the buffer believes pending will encode to (m.pendingSize)
          queue,        \* batches sitting in the outgoing channel        (m.Queue)
          closed,       \* m.closed
          res,          \* result of the last call
          \* history (property bookkeeping only, never read by an action guard)
          accepted,     \* every message Send returned nil for, in call order
          out,          \* every flushed batch in order: [b, kept, qlen]
          ndrained      \* batches the consumer took from the queue

vars == <<conf, pending, pendingSize, queue, closed, res, accepted, out, ndrained>>

VarintLen(n) == IF n < VB THEN 1 ELSE IF n < VB * VB THEN 2 ELSE IF n < VB * VB * VB THEN 3 ELSE 4
Framed(m)    == 1 + VarintLen(m.len) + m.len            \* tag + length prefix + payload
Payload(m)   == m.len

RECURSIVE WireSize(_)
WireSize(b) == IF b = <<>> THEN 0 ELSE Framed(Head(b)) + WireSize(Tail(b))

RECURSIVE Flatten(_)
Flatten(bs) == IF bs = <<>> THEN <<>> ELSE Head(bs) \o Flatten(Tail(bs))

InitWith(max, cap) ==
  /\ conf = [max |-> max, cap |-> cap]
  /\ pending = <<>> /\ pendingSize = 0 /\ queue = <<>> /\ closed = FALSE /\ res = "init"
  /\ accepted = <<>> /\ out = <<>> /\ ndrained = 0

(* clearPending: build the batch, non-blocking push, drop it if the channel is full *)
DoFlush ==
  /\ out'   = Append(out, [b |-> pending, kept |-> Len(queue) < conf.cap, qlen |-> Len(queue)])
  /\ queue' = IF Len(queue) < conf.cap THEN Append(queue, pending) ELSE queue

(* Send once the message has been admitted; flushFirst says whether pending is cleared before *)
SendAccept(m, Cost(_), flushFirst) ==
  /\ ~closed
  /\ IF flushFirst
       THEN DoFlush /\ pending' = <<m>> /\ pendingSize' = Cost(m)
       ELSE UNCHANGED <<queue, out>> /\ pending' = Append(pending, m) /\ pendingSize' = pendingSize + Cost(m)
  /\ accepted' = Append(accepted, m) /\ res' = "ok"
  /\ UNCHANGED <<conf, closed, ndrained>>

SendWith(m, Cost(_)) ==
  \/ /\ closed /\ res' = "closed"
     /\ UNCHANGED <<conf, pending, pendingSize, queue, closed, accepted, out, ndrained>>
  \/ /\ ~closed /\ Cost(m) > conf.max /\ res' = "toolarge"
     /\ UNCHANGED <<conf, pending, pendingSize, queue, closed, accepted, out, ndrained>>
  \/ /\ ~closed /\ Cost(m) <= conf.max
     /\ SendAccept(m, Cost, pendingSize + Cost(m) > conf.max)

(* the repaired code: a message costs what it adds to the encoded batch *)
Send(m) == SendWith(m, Framed)
(* before the fix pendingSize counted payload bytes only *)
SendAsOriginallyCoded(m) == SendWith(m, Payload)

(* timer callback *)
TimerFlush ==
  /\ ~closed /\ pending # <<>>
  /\ DoFlush /\ pending' = <<>> /\ pendingSize' = 0 /\ res' = "timer"
  /\ UNCHANGED <<conf, closed, accepted, ndrained>>

CloseWith(flush) ==
  /\ ~closed
  /\ IF flush THEN DoFlush ELSE UNCHANGED <<queue, out>>
  /\ pending' = <<>> /\ pendingSize' = 0 /\ closed' = TRUE /\ res' = "ok"
  /\ UNCHANGED <<conf, accepted, ndrained>>

Close ==
  \/ CloseWith(TRUE)            \* the code flushes unconditionally (an empty batch if nothing is pending)
  \/ /\ closed /\ res' = "closed"
     /\ UNCHANGED <<conf, pending, pendingSize, queue, closed, accepted, out, ndrained>>

(* consumer side: <-m.Queue *)
Drain ==
  /\ queue # <<>>
  /\ queue' = Tail(queue) /\ ndrained' = ndrained + 1 /\ res' = "drained"
  /\ UNCHANGED <<conf, pending, pendingSize, closed, accepted, out>>

--------------------------------------------------------------------------
(* Properties (C32) *)
Batches     == [i \in DOMAIN out |-> out[i].b]
KeptIdx     == {i \in DOMAIN out : out[i].kept}
RECURSIVE KeptFrom(_)
KeptFrom(i) == IF i > Len(out) THEN <<>>
               ELSE IF out[i].kept THEN <<out[i].b>> \o KeptFrom(i + 1) ELSE KeptFrom(i + 1)
Kept        == KeptFrom(1)

(* every accepted message sits in exactly one place, and the places are in acceptance order *)
FIFOExactlyOnce     == Flatten(Batches) \o pending = accepted
(* what the consumer has taken plus what waits in the channel is exactly the kept batches, in order *)
QueueIsKept         == /\ ndrained + Len(queue) = Len(Kept)
                       /\ \A i \in 1..Len(queue) : queue[i] = Kept[ndrained + i]
(* a batch is lost only because the channel was full when it was flushed *)
DroppedOnlyWhenFull == \A i \in DOMAIN out : ~out[i].kept => out[i].qlen = conf.cap
(* nothing is left behind by Close *)
ClosedFlushed       == closed => pending = <<>>
(* every batch handed to the channel encodes to at most max bytes *)
BatchWithinMax      == \A i \in DOMAIN out : WireSize(out[i].b) <= conf.max
(* the buffer's own bookkeeping is the encoded size (what makes BatchWithinMax inductive) *)
PendingSizeExact    == pendingSize = WireSize(pending)
QueueBounded        == Len(queue) <= conf.cap
=============================================================================
