SPECIFICATION TraceSpec
CONSTANTS
  N = 64
  Mode = "coded"
CONSTRAINT HWM
POSTCONDITION Accepted
CHECK_DEADLOCK FALSE
INVARIANTS
  IndexAheadOfState
  RestartSucceedsOrKF
  RecoveredEqualsNoCrash
  AtLeastOnceInOrderOrKF
