SPECIFICATION MCSpec
CONSTANTS
  NC = 4
  NF = 2
  WinC = 2
  CursorFromAccepted = TRUE
  StrictForward = TRUE
  StopAtGenesis = TRUE
  MaxFaults = 2
INVARIANTS SavedAreTrueAncestorsContiguous CompleteWhenDone
PROPERTIES Completes DoneWhenNothingLeft
CHECK_DEADLOCK FALSE
