SPECIFICATION MCSpec
CONSTANTS
  NC = 5
  WinC = 2
  StopAtGenesis = TRUE
  MaxFaults = 3
INVARIANTS SavedAreTrueAncestorsContiguous CompleteWhenDone
PROPERTIES Completes DoneWhenNothingLeft
CHECK_DEADLOCK FALSE
