---------------------------- MODULE WireSize_MC ----------------------------
(* Design step of C14.  Mode "size": every multiset of action sizes over     *)
(* SizeClasses with at most MaxActions actions (the encoding overhead of an   *)
(* action depends only on its size, so the order is irrelevant), every auth   *)
(* kind, the base variants (no timestamp / typical millisecond timestamp /    *)
(* negative timestamp, chain id and max fee present or not).  Mode "keys":    *)
(* <= 3 actions with every subset of three keys each and small cost vectors.  *)
(* Original = TRUE evaluates the estimate as coded before the fix.            *)
EXTENDS WireSize, TLC
CONSTANTS MaxActions, SizeClasses, Mode, Original, MaxPerBigClass, ManyBases

VARIABLES shape, go        \* go: the invariant is evaluated on the successor state (TLC reports no state count for a violated initial state)
SC5 == <<1, 127, 128, 300, 16384>>
SC3 == <<1, 128, 16384>>
SC1 == <<1>>
SC4 == <<1, 127, 128, 16384>>
NC == Len(SizeClasses)

(* counts per size class with a bounded total; classes >= 16384 bytes are limited to MaxPerBigClass actions *)
Min(a, b) == IF a < b THEN a ELSE b
Cap(i)    == IF SizeClasses[i] >= 16384 THEN MaxPerBigClass ELSE MaxActions
RECURSIVE CountsFrom(_, _)
CountsFrom(i, rem) == IF i > NC THEN {<<>>}
                      ELSE UNION {{<<k>> \o t : t \in CountsFrom(i + 1, rem - k)} : k \in 0..Min(rem, Cap(i))}
Counts == CountsFrom(1, MaxActions)
RECURSIVE Repeat(_, _)
Repeat(x, n) == IF n = 0 THEN <<>> ELSE <<x>> \o Repeat(x, n - 1)
RECURSIVE Expand(_, _)
Expand(c, i) == IF i > NC THEN <<>> ELSE Repeat(SizeClasses[i], c[i]) \o Expand(c, i + 1)

AllBases   == {BaseLen(h, 123, cz, fz) : h \in {-1, 0, 6423}, cz \in BOOLEAN, fz \in BOOLEAN} \cup {BaseLen(0, 0, FALSE, FALSE)}
FewBases   == {BaseLen(6423, 123, TRUE, TRUE), BaseLen(-1, 0, TRUE, TRUE), BaseLen(0, 0, FALSE, FALSE)}
BaseVariants == IF ManyBases THEN AllBases ELSE FewBases

KCosts == IF ManyBases THEN {0, 1, 5} ELSE {0, 5}     \* ManyBases doubles as 'many cost vectors' in keys mode
VCosts == IF ManyBases THEN {0, 1, 3} ELSE {0, 3}
K1 == [name |-> "k1", chunks |-> 1, perm |-> 7]
K2 == [name |-> "k1", chunks |-> 2, perm |-> 5]
K3 == [name |-> "k2", chunks |-> 1, perm |-> 3]
K1r == [name |-> "k1", chunks |-> 1, perm |-> 1]      \* the same key as K1, declared read-only by another action
K0 == [name |-> "$sponsor-balance", chunks |-> 1, perm |-> 1]                              \* an action declaring the sponsor's own balance key
K4 == [name |-> "k3", chunks |-> 0, perm |-> 7]       \* chunk suffix 0: no value units, but the per-key units are still charged
K5 == [name |-> "k2", chunks |-> 65535, perm |-> 5]   \* the largest suffix
KeySeqs == {<<>>, <<K1>>, <<K2>>, <<K3>>, <<K1, K2>>, <<K1, K3>>, <<K2, K3>>, <<K1, K2, K3>>,
            <<K1r>>, <<K1r, K3>>, <<K0>>, <<K0, K1>>, <<K0, K2, K3>>, <<K4>>, <<K4, K1>>, <<K5>>}
KeyActions == [size : {1}, keys : KeySeqs, compute : {0, 2}]

Init ==
  /\ go = FALSE
  /\ IF Mode = "size"
       THEN \E c \in Counts, a \in AuthKinds, b \in BaseVariants :
              shape = [sizes |-> Expand(c, 1), auth |-> a, base |-> b]
       ELSE \E n \in 0..MaxActions : \E acts \in [1..n -> KeyActions] : \E kc \in KCosts, vc \in VCosts, bc \in 1..2 :
              shape = [actions |-> acts, cost |-> <<kc, vc>>, balChunks |-> bc]
Next == ~go /\ go' = TRUE /\ UNCHANGED shape
Spec == Init /\ [][Next]_<<shape, go>>

Est(s) == IF Original THEN EstimateSizeAsOriginallyCoded(s.sizes, AuthLen(s.auth)) ELSE EstimateSize(s.sizes, AuthLen(s.auth))

(* C14 *)
EstimateCoversSize == (go /\ Mode = "size") => Est(shape) >= ActualSize(shape.base, shape.sizes, AuthLen(shape.auth))
EstimateCoversStorage ==
  (go /\ Mode = "keys") => /\ EstimateStorage(shape.actions, <<shape.balChunks>>, shape.cost) >= ActualStorage(shape.actions, shape.balChunks, shape.cost)
                   /\ Compute(1, shape.actions, 5) >= Compute(1, shape.actions, 5)
=============================================================================
