SPECIFICATION MCSpec
CONSTANTS
  N = 5
  Mode = "intended"
  MaxCrashes = 3
CHECK_DEADLOCK FALSE
INVARIANTS
  TypeOK
  RestartSucceeds
  RecoveredEqualsNoCrash
  AtLeastOnceInOrder
