SPECIFICATION MCSpec
CONSTANTS
  N = 5
  Mode = "intended"
  MaxCrashes = 3
CHECK_DEADLOCK FALSE
INVARIANTS
  TypeOK
  IndexAheadOfState
  RestartSucceeds
  RecoveredEqualsNoCrash
  AtLeastOnceInOrder
