SPECIFICATION Spec
CONSTANTS
  Keys = {"a"}
  Sponsors = {"s1", "s2"}
  Vals = {"v1"}
  MaxTxs = 2
  MaxOps = 1
  StrictConflicts = FALSE
INVARIANTS EqualsSequential
CHECK_DEADLOCK FALSE
