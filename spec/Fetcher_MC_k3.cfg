SPECIFICATION Spec
CONSTANTS
  Keys = {"a", "b", "c"}
  NC = 2
  NW = 2
  TxCap = 1
  CallShapes <- ShapesAll
  Original = "none"
INVARIANTS TypeOK ReadsSubsetOfDeclared EachKeyReadAtMostOnce GetReturnsParentValues ErrorPropagates

CHECK_DEADLOCK TRUE
