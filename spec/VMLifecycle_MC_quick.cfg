SPECIFICATION Spec
CONSTANTS
  States = {"sync", "normal"}
  Names = {"a", "b"}
  MaxHooks = 3
  Variant = "code"
PROPERTIES SetStateOK ShutdownOK HealthOK FirstRegistrationStays
CHECK_DEADLOCK FALSE
