------------------------ MODULE RulesLargestSetPost ------------------------
(* C33 - the *property* of the largest-fitting-set selector, stated on     *)
(* (input, output) only.  This module is evaluated both by TLC (design     *)
(* step and trace validation of small rows) and by Apalache (rows with     *)
(* values near 2^63 / 2^64, unbounded integers), hence the type comments.  *)
(*                                                                          *)
(*   dims : sequence of dimension vectors (each a sequence of naturals)     *)
(*   lim  : limit vector                                                    *)
(*   idx  : returned indices (0-based, as the Go code returns them)         *)
(*   tot  : returned total vector                                           *)
(*                                                                          *)
(* "every input it skipped would not have fitted when it was considered":   *)
(* the order of consideration is not observable and the statement does not  *)
(* fix it.  The accumulator only grows, so an item that did not fit at its  *)
(* turn does not fit on top of the final sum either; conversely if every    *)
(* skipped item does not fit on top of the final sum, considering the       *)
(* selected items first is an order that explains the output.  Hence        *)
(* PostMaximal is exactly "there is an order of consideration for which     *)
(* the output is the greedy result" - no dependence on the weight order.    *)
(* "does not fit" includes uint64 overflow of the sum: lim[k] <= 2^64-1, so *)
(* sum + d > 2^64-1 implies sum + d > lim[k] over the unbounded integers.   *)
EXTENDS Integers, Sequences, SequencesExt

\* @type: (Seq(Seq(Int)), Seq(Int), Int) => Int;
SumSel(dims, idx, k) == FoldLeft(LAMBDA a, i: a + dims[i + 1][k], 0, idx)

\* @type: (Seq(Seq(Int)), Seq(Int)) => Bool;
PostRange(dims, idx) == \A i \in DOMAIN idx : idx[i] >= 0 /\ idx[i] < Len(dims)

\* @type: (Seq(Int)) => Bool;
PostDistinct(idx) == \A i \in DOMAIN idx : \A j \in DOMAIN idx : i # j => idx[i] # idx[j]

\* @type: (Seq(Seq(Int)), Seq(Int), Seq(Int)) => Bool;
PostFits(dims, lim, idx) == \A k \in DOMAIN lim : SumSel(dims, idx, k) <= lim[k]

\* @type: (Seq(Seq(Int)), Seq(Int), Seq(Int), Seq(Int)) => Bool;
PostTotal(dims, lim, idx, tot) ==
  /\ Len(tot) = Len(lim)
  /\ \A k \in DOMAIN lim : tot[k] = SumSel(dims, idx, k)

\* @type: (Seq(Seq(Int)), Seq(Int), Seq(Int)) => Bool;
PostMaximal(dims, lim, idx) ==
  \A s \in DOMAIN dims :
     (\A i \in DOMAIN idx : idx[i] # s - 1)
       => \E k \in DOMAIN lim : SumSel(dims, idx, k) + dims[s][k] > lim[k]

\* @type: (Seq(Seq(Int)), Seq(Int), Seq(Int), Seq(Int)) => Bool;
Post(dims, lim, idx, tot) ==
  /\ PostRange(dims, idx)
  /\ PostDistinct(idx)
  /\ PostFits(dims, lim, idx)
  /\ PostTotal(dims, lim, idx, tot)
  /\ PostMaximal(dims, lim, idx)
=============================================================================
