SPECIFICATION Spec
CONSTANTS
  Txs <- MCTxs
  Sponsor0 <- MCSponsor
  Defect0 <- MCDefect
  PoolMax0 = 3
  SponsorMax0 = 1
  Variant = "code"
INVARIANTS PoolExecutable NoReplay
PROPERTIES SubmitStrict BuildOK
CHECK_DEADLOCK FALSE
