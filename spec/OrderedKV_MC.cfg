SPECIFICATION Spec
CONSTANTS
  Keys <- MCKeys
  Vals = {1, 2}
  Top = 2
  MaxBatch = 2
  Variant = "code"
INVARIANTS TypeOK
PROPERTIES BatchInvisible
CHECK_DEADLOCK FALSE
