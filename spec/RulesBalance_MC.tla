-------------------------- MODULE RulesBalance_MC --------------------------
(* Design step for C34 inside TLC's 32-bit integers: balances up to 2^31-1 *)
(* (10^9 = one token fits), every digit count 0..9.                        *)
EXTENDS RulesBalance, TLC

CONSTANTS Balances, IntParts
VARIABLES b, ip, nd, fp, fresh

Fracs(n) == {0, 1, 5, Pow10(n) - 1, Pow10(n) \div 2} \cap 0..(Pow10(n) - 1)

Init == b = 0 /\ ip = 0 /\ nd = 0 /\ fp = 0 /\ fresh = TRUE
Next == /\ fresh /\ fresh' = FALSE
        /\ b' \in Balances /\ ip' \in IntParts /\ nd' \in 0..Decimals
        /\ fp' \in Fracs(nd')
Spec == Init /\ [][Next]_<<b, ip, nd, fp, fresh>>

RoundTripHolds      == RoundTrip(b)
(* parsing is exact: formatting the parsed amount gives back the same digits, zero padded *)
ParseThenFormat     == LET v == ParseVal(ip, fp, nd) IN
                         FormatInt(v) = ip /\ FormatFrac(v) = fp * Pow10(Decimals - nd)
(* trailing zeros do not change the amount *)
TrailingZero        == nd < Decimals => ParseVal(ip, fp * 10, nd + 1) = ParseVal(ip, fp, nd)
(* one base unit is the last of the nine digits *)
SmallestUnit        == ParseVal(0, 1, Decimals) = 1 /\ ParseVal(1, 0, 0) = Unit
=============================================================================
