------------------------------ MODULE Indexer ------------------------------
(* C31 - implementation-shaped model of api/indexer/indexer.go on top of   *)
(* IndexerWindow.                                                          *)
(*   cacheH   keys of blockHeightToBlock      cacheId  blocks in blockIDToHeight *)
(*   cacheTx  blocks whose txs are in txCache  disk    heights stored in pebble  *)
(*   lastH    lastHeight (-1 stands for math.MaxUint64 = nothing yet)      *)
(* Notify = insertBlockIntoCache + storeBlock; Restart = Close + NewIndexer *)
(* (initBlocks: replay every stored block through insertBlockIntoCache in  *)
(* key order, then prune the disk).                                        *)
(* FixedCode = FALSE models the code as originally written: only the one   *)
(* height h - w is evicted / deleted, and initBlocks deletes [0, last - w) *)
(* from disk only.  FixedCode = TRUE models fixes/C31-*.patch.              *)
EXTENDS IndexerWindow, Sequences, FiniteSetsExt, SequencesExt

CONSTANTS Heights, FixedCode,
          FlushEvery   \* storeBlock commits its batch once this many blocks are pending; the code: 1 (every Notify)

VARIABLES cacheH, cacheId, cacheTx, disk, buf, lastH, stable   \* buf: heights whose put/delete is not committed yet

ivars == <<cacheH, cacheId, cacheTx, disk, buf, lastH, stable>>
vars  == <<wvars, ivars>>

(* insertBlockIntoCache on st = [H, Id, Tx, last].  h - w below zero is the uint64 wrap: never a cached height.  *)
(* Fixed code: when heights were skipped (h > last + 1) every cached height <= h - w is evicted, otherwise only  *)
(* h - w can have fallen out of the window.  Original code: always only h - w.                                   *)
Evicted(st, h) ==
  IF FixedCode /\ st.last # -1 /\ h > st.last + 1
    THEN {x \in st.H : x <= h - w}
    ELSE {h - w} \cap st.H

Insert(st, h) ==
  LET ev == Evicted(st, h)
  IN [H |-> (st.H \ ev) \cup {h}, Id |-> (st.Id \ ev) \cup {h}, Tx |-> (st.Tx \ ev) \cup {h}, last |-> h]

RECURSIVE Replay(_, _)
Replay(st, hs) == IF hs = <<>> THEN st ELSE Replay(Insert(st, Head(hs)), Tail(hs))

Ascending(S) == SortSeq(SetToSeq(S), LAMBDA a, b : a < b)

(* what the implementation answers *)
IByHeight(cH, h)        == IF h \in cH THEN h ELSE -1
IById(cH, cI, h)        == IF h \in cI /\ h \in cH THEN h ELSE -1
ITx(cH, cT, h)          == IF h \in cT /\ h \in cH THEN h ELSE -1
ILatest(cH, lh)         == IF lh = -1 THEN -1 ELSE IByHeight(cH, lh)
Answers(cH, cI, cT, lh) == [h \in Heights |-> <<IByHeight(cH, h), IById(cH, cI, h), ITx(cH, cT, h)>>] @@ (-1 :> <<ILatest(cH, lh)>>)

RECURSIVE Commit(_, _)
Commit(d, hs) == IF hs = <<>> THEN d ELSE Commit((d \cup {Head(hs)}) \ {Head(hs) - w}, Tail(hs))

Init(win) ==
  /\ WInit(win)
  /\ cacheH = {} /\ cacheId = {} /\ cacheTx = {} /\ disk = {} /\ buf = <<>> /\ lastH = -1 /\ stable = TRUE

Notify(h) ==
  LET st == Insert([H |-> cacheH, Id |-> cacheId, Tx |-> cacheTx, last |-> lastH], h)
  IN /\ WNotify(h)
     /\ cacheH' = st.H /\ cacheId' = st.Id /\ cacheTx' = st.Tx /\ lastH' = st.last
     /\ LET nb == Append(buf, h)                            \* storeBlock: put h, delete h - w, in a batch
        IN IF Len(nb) >= FlushEvery THEN disk' = Commit(disk, nb) /\ buf' = <<>>
                                    ELSE disk' = disk /\ buf' = nb
     /\ stable' = TRUE

Restart ==
  LET d0 == Commit(disk, buf)                                          \* Close commits whatever is pending
      st == Replay([H |-> {}, Id |-> {}, Tx |-> {}, last |-> -1], Ascending(d0))
      pr == IF st.last = -1 THEN {}                                     \* empty store: the range delete finds nothing
            ELSE IF FixedCode
              THEN (IF st.last >= w THEN {x \in d0 : x <= st.last - w} ELSE {})
              ELSE (IF st.last > w THEN {x \in d0 : x < st.last - w} ELSE {})
  IN /\ WRestart
     /\ cacheH' = st.H /\ cacheId' = st.Id /\ cacheTx' = st.Tx /\ lastH' = st.last
     /\ disk' = d0 \ pr /\ buf' = <<>>
     /\ stable' = (Answers(st.H, st.Id, st.Tx, st.last) = Answers(cacheH, cacheId, cacheTx, lastH))

-----------------------------------------------------------------------------
TypeOK ==
  /\ cacheH \subseteq Heights /\ cacheId \subseteq Heights /\ cacheTx \subseteq Heights /\ disk \subseteq Heights
  /\ lastH \in Heights \cup {-1} /\ w \in Nat \ {0} /\ stable \in BOOLEAN

ServesExactlyWindow ==
  /\ \A h \in Heights : /\ IByHeight(cacheH, h) = Ans(h)
                        /\ IById(cacheH, cacheId, h) = Ans(h)
                        /\ ITx(cacheH, cacheTx, h) = Ans(h)
  /\ ILatest(cacheH, lastH) = Latest

RestartStable == stable

(* crash points: the process may die (no Close) between any two public calls; every Notify that returned is    *)
(* durable, i.e. an indexer opened on what is on disk right now answers exactly like the live one             *)
CrashDurable ==
  LET st == Replay([H |-> {}, Id |-> {}, Tx |-> {}, last |-> -1], Ascending(disk))
  IN Answers(st.H, st.Id, st.Tx, st.last) = Answers(cacheH, cacheId, cacheTx, lastH)

(* design-level: everything served is on disk (so a restart can serve it again); the disk may hold stale    *)
(* heights after a gap until the next restart prunes them, but never more than were ever in a window       *)
ServedIsOnDisk == {h \in Heights : Served(h)} \subseteq disk
=============================================================================
