------------------------------ MODULE BlockPar ------------------------------
(* Design step of C01: a block's transactions run as interleaved             *)
(* Start / Step / Commit steps on private views over the shared block map,   *)
(* constrained only by the executor's contract (a transaction starts once    *)
(* every earlier transaction it conflicts with has committed; two            *)
(* transactions conflict when they declare a common key and not both with    *)
(* exactly Read).  Invariant: when nothing is left to do, the merged state,  *)
(* every transaction's success flag and reads, and the block verdict equal   *)
(* the sequential fold (SeqExec), whatever the interleaving.                 *)
(* Sponsor balances are keys holding "0".."2"; the fee debit is the first    *)
(* step of a transaction and fails the block when the balance is "0".        *)
EXTENDS Block

CONSTANTS Keys,        \* ordinary keys
          Sponsors,    \* sponsor (balance) keys
          Vals,        \* values ordinary keys can take
          MaxTxs, MaxOps,
          StrictConflicts \* TRUE: the executor's contract as coded; FALSE: a weakened contract (sensitivity run)

AllKeys == Keys \cup Sponsors
Unset   == "unset"
Bal     == {"0", "1", "2"}
Dec(b)  == IF b = "2" THEN "1" ELSE "0"

OpSet == {[op |-> "get", k |-> k, v |-> ""] : k \in Keys} \cup
         {[op |-> "put", k |-> k, v |-> v] : k \in Keys, v \in Vals} \cup
         {[op |-> "del", k |-> k, v |-> ""] : k \in Keys} \cup {[op |-> "fail", k |-> "", v |-> ""]}
Scripts == UNION {[1..n -> OpSet] : n \in 0..MaxOps}
DeclOptions == {{}, {"r"}, {"r", "w"}, {"r", "a", "w"}}
TxSet == [sponsor : Sponsors, kdecl : [Keys -> DeclOptions], ops : Scripts]

(* full declaration of a transaction: its keys plus read/write on its sponsor's balance key *)
DeclOf(tx) == [k \in AllKeys |-> IF k \in Keys THEN tx.kdecl[k] ELSE IF k = tx.sponsor THEN {"r", "w"} ELSE {}]
Touches(tx, k) == DeclOf(tx)[k] # {}
Conflict(t1, t2) ==
  \E k \in AllKeys : /\ Touches(t1, k) /\ Touches(t2, k)
                     /\ IF StrictConflicts THEN ~(DeclOf(t1)[k] = {"r"} /\ DeclOf(t2)[k] = {"r"})
                        ELSE \* weakened: only writers conflict with writers
                             "w" \in DeclOf(t1)[k] /\ "w" \in DeclOf(t2)[k]

VARIABLES base,     \* [AllKeys -> value | "none"]   parent state
          blockTxs, \* Seq(TxSet)
          changed,  \* [AllKeys -> value | "none" | Unset]   block-level map (TState)
          phase,    \* [1..n -> {"queued","running","commit","done"}]
          pc,       \* [1..n -> Nat]
          pend,     \* [1..n -> [AllKeys -> value | "none" | Unset]]  private view overlay
          ok,       \* [1..n -> BOOLEAN]
          reads,    \* [1..n -> Seq(value)]
          berr      \* block failed (a transaction could not pay)
vars == <<base, blockTxs, changed, phase, pc, pend, ok, reads, berr>>

N == Len(blockTxs)
Under(k)  == IF changed[k] # Unset THEN changed[k] ELSE base[k]
Vis(i, k) == IF pend[i][k] # Unset THEN pend[i][k] ELSE Under(k)
ViewOf(i) == [k \in AllKeys |-> Vis(i, k)]

Init ==
  /\ base \in [AllKeys -> Vals \cup {None} \cup Bal]
  /\ \A k \in Keys : base[k] \in Vals \cup {None}
  /\ \A s \in Sponsors : base[s] \in Bal
  /\ \E n \in 1..MaxTxs : blockTxs \in [1..n -> TxSet]
  /\ changed = [k \in AllKeys |-> Unset]
  /\ phase = [i \in 1..N |-> "queued"] /\ pc = [i \in 1..N |-> 1]
  /\ pend = [i \in 1..N |-> [k \in AllKeys |-> Unset]]
  /\ ok = [i \in 1..N |-> TRUE] /\ reads = [i \in 1..N |-> <<"|">>]
  /\ berr = FALSE

(* executor hands the transaction to a worker; PreExecute + fee debit *)
Start(i) ==
  /\ phase[i] = "queued" /\ ~berr
  /\ \A j \in 1..(i - 1) : Conflict(blockTxs[j], blockTxs[i]) => phase[j] = "done"
  /\ LET s == blockTxs[i].sponsor IN
     IF Vis(i, s) = "0"
       THEN /\ berr' = TRUE /\ phase' = [phase EXCEPT ![i] = "done"] /\ ok' = [ok EXCEPT ![i] = FALSE]
            /\ UNCHANGED <<pend>>
       ELSE /\ pend' = [pend EXCEPT ![i][s] = Dec(Vis(i, s))]
            /\ phase' = [phase EXCEPT ![i] = "running"] /\ UNCHANGED <<berr, ok>>
  /\ UNCHANGED <<base, blockTxs, changed, pc, reads>>

(* one scripted operation of the transaction's action on its private view *)
Step(i) ==
  /\ phase[i] = "running"
  /\ LET tx == blockTxs[i] IN
     IF pc[i] > Len(tx.ops)
       THEN /\ phase' = [phase EXCEPT ![i] = "commit"] /\ UNCHANGED <<pend, ok, reads, pc>>
       ELSE LET r == ApplyOp(ViewOf(i), <<>>, DeclOf(tx), tx.ops[pc[i]]) IN
            IF r.ok
              THEN /\ pend' = [pend EXCEPT ![i] = [k \in AllKeys |-> IF r.view[k] # Vis(i, k) THEN r.view[k] ELSE pend[i][k]]]
                   /\ reads' = [reads EXCEPT ![i] = @ \o r.out]
                   /\ pc' = [pc EXCEPT ![i] = @ + 1] /\ UNCHANGED <<phase, ok>>
              ELSE \* the action failed: roll back to the checkpoint taken after the fee debit
                   /\ pend' = [pend EXCEPT ![i] = [k \in AllKeys |-> IF k = tx.sponsor THEN pend[i][k] ELSE Unset]]
                   /\ ok' = [ok EXCEPT ![i] = FALSE]
                   /\ reads' = [reads EXCEPT ![i] = <<"|">>]
                   /\ phase' = [phase EXCEPT ![i] = "commit"] /\ UNCHANGED pc
  /\ UNCHANGED <<base, blockTxs, changed, berr>>

Commit(i) ==
  /\ phase[i] = "commit"
  /\ changed' = [k \in AllKeys |-> IF pend[i][k] # Unset THEN pend[i][k] ELSE changed[k]]
  /\ phase' = [phase EXCEPT ![i] = "done"]
  /\ UNCHANGED <<base, blockTxs, pc, pend, ok, reads, berr>>

Next == \E i \in 1..N : Start(i) \/ Step(i) \/ Commit(i)
Spec == Init /\ [][Next]_vars

(* ------------------------------------------------ sequential reference *)
RECURSIVE SeqExec(_, _, _, _, _)
SeqExec(state, i, oks, rds, err) ==
  IF i > N \/ err THEN [state |-> state, oks |-> oks, rds |-> rds, err |-> err]
  ELSE LET tx == blockTxs[i]
           s  == tx.sponsor IN
       IF state[s] = "0" THEN SeqExec(state, i + 1, oks, rds, TRUE)
       ELSE LET paid == [state EXCEPT ![s] = Dec(state[s])]
                r    == RunOps(paid, <<>>, DeclOf(tx), tx.ops, <<"|">>)
            IN SeqExec(IF r.ok THEN r.view ELSE paid, i + 1, Append(oks, r.ok), Append(rds, IF r.ok THEN r.reads ELSE <<"|">>), FALSE)

Quiescent == \A i \in 1..N : phase[i] = "done" \/ (berr /\ phase[i] = "queued")
Merged    == [k \in AllKeys |-> Under(k)]

EqualsSequential ==
  Quiescent =>
    LET s == SeqExec(base, 1, <<>>, <<>>, FALSE) IN
    /\ berr = s.err
    /\ ~berr => /\ Merged = s.state
                /\ \A i \in 1..N : ok[i] = s.oks[i] /\ reads[i] = s.rds[i]

(* conflicting transactions are never in flight together *)
NoConflictingOverlap ==
  \A i, j \in 1..N : (i < j /\ phase[i] \in {"running", "commit"} /\ phase[j] \in {"running", "commit"})
                        => ~Conflict(blockTxs[i], blockTxs[j])
=============================================================================
