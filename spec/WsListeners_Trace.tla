-------------------------- MODULE WsListeners_Trace -------------------------
(* Trace validation of the real websocket API (api/ws) of a morpheusvm VM    *)
(* with real ws.WebSocketClient clients (X07) against WsListeners.tla.       *)
(*   register {c, blocks, txs, synced}  client c sent (optionally) a block   *)
(*        registration and TxMode messages for txs [{id, defect}]; synced =  *)
(*        the server has processed them (the last one reached the mempool)   *)
(*   close    {c}                       client c closed its connection       *)
(*   accept   {h, txs, ok, expired}     block h accepted; expired = ids of   *)
(*        all transactions whose expiry is below the block's timestamp       *)
(*   received {c, tx, blocks}           what c got since the last accept:    *)
(*        tx = [[id, "result" | "expired"], ...], blocks = [heights]         *)
(* lst / track / bsub / open are stepped as WsListeners.Accept does; the     *)
(* expectation of every open client is kept in want until its received line. *)
EXTENDS WsListeners, TLC, Json, IOUtils

VARIABLES l, want, diag
tvars == <<vars, l, want, diag>>

Trace == ndJsonDeserialize(IOEnv.TRACE)
N     == Len(Trace)
T     == Trace[l]
Ev(e) == l <= N /\ Trace[l].ev = e /\ l' = l + 1
Name(ok, nm) == IF ok THEN {} ELSE {nm}
SeqSet(s) == {s[i] : i \in DOMAIN s}
TClients == 1..3
NoWant == [c \in TClients |-> [tx |-> {}, blocks |-> {}]]

TraceInit == /\ l = 1 /\ TLCSet(1, 0) /\ lst = {} /\ track = {} /\ bsub = {} /\ open = TClients
             /\ out = [c \in TClients |-> <<>>] /\ height = 0 /\ now = 0 /\ accepted = {} /\ owed = {}
             /\ want = NoWant /\ diag = {}
TReset == /\ Ev("reset") /\ lst' = {} /\ track' = {} /\ bsub' = {} /\ open' = TClients
          /\ out' = [c \in TClients |-> <<>>] /\ height' = 0 /\ now' = 0 /\ accepted' = {} /\ owed' = {}
          /\ want' = NoWant /\ diag' = {}

TRegister ==
  /\ Ev("register")
  /\ LET ts == {T.txs[i].id : i \in DOMAIN T.txs} IN
     /\ lst' = lst \cup ({T.c} \X ts) /\ owed' = owed \cup ({T.c} \X ts) /\ track' = track \cup ts
     /\ bsub' = IF T.blocks THEN bsub \cup {T.c} ELSE bsub
  /\ UNCHANGED <<open, out, height, now, accepted, want>>
  /\ diag' = Name(T.synced, "registration-never-processed")

TClose == Ev("close") /\ open' = open \ {T.c} /\ UNCHANGED <<lst, track, bsub, out, height, now, accepted, owed, want>> /\ diag' = {}

TAccept ==
  /\ Ev("accept")
  /\ LET B == SeqSet(T.txs)
         expired == track \cap SeqSet(T.expired)
         lst1 == {p \in lst : p[2] \notin B}
     IN /\ want' = [c \in TClients |->
                      [tx |-> {<<t, "result">> : t \in {u \in B : <<c, u>> \in lst}} \cup
                              {<<t, "expired">> : t \in {u \in expired : <<c, u>> \in lst1}},
                       blocks |-> IF c \in bsub THEN {T.h} ELSE {}]]
        /\ lst' = {p \in lst1 : p[2] \notin expired} /\ owed' = {p \in owed : p[2] \notin B /\ p[2] \notin expired}
        /\ track' = track \ expired /\ bsub' = bsub \cap open
        /\ accepted' = accepted \cup B /\ height' = T.h
        /\ UNCHANGED <<open, out, now>>
        /\ diag' = Name(T.h = height + 1, "harness-height") \cup
                   Name(\A i \in DOMAIN T.ok : T.ok[i], "harness-transfer-failed")

TReceived ==
  /\ Ev("received") /\ UNCHANGED vars
  /\ want' = [want EXCEPT ![T.c] = [tx |-> {}, blocks |-> {}]]
  /\ LET got == {<<T.tx[i][1], T.tx[i][2]>> : i \in DOMAIN T.tx} IN
     diag' = Name(Len(T.tx) = Cardinality(got), "transaction-message-delivered-twice") \cup
             Name(want[T.c].tx \subseteq got, "listener-not-answered") \cup
             Name(got \subseteq want[T.c].tx, "message-for-a-transaction-not-listened-to") \cup
             Name(SeqSet(T.blocks) = want[T.c].blocks /\ Len(T.blocks) = Cardinality(SeqSet(T.blocks)), "block-stream")

TraceNext == TReset \/ TRegister \/ TClose \/ TAccept \/ TReceived
TraceSpec == TraceInit /\ [][TraceNext]_tvars

DiagEmpty == diag = {}
HWM      == TLCSet(1, IF TLCGet(1) > l - 1 THEN TLCGet(1) ELSE l - 1)
Accepted == PrintT(<<"TRACE_HWM", TLCGet(1)>>) /\ TLCGet(1) = N
=============================================================================
