------------------------------ MODULE Genesis ------------------------------
(* C27 - genesis state.  Model of genesis.DefaultGenesis.InitializeState     *)
(* (running supply with checked add, then balance.AddBalance: read, checked  *)
(* add, insert) and chain.NewGenesisCommit (height, timestamp, fee manager   *)
(* with the rules' minimum prices, commit, block with StateRoot = root of    *)
(* the committed view) over an abstract state                                *)
(*    st : key name -> value,   "bal:<addr>" -> Int,  "meta:height" -> Int,  *)
(*         "meta:timestamp" -> Int,  "meta:fee" -> sequence of unit prices   *)
(* and the property of the statement as predicates over (allocs, minp, out). *)
(* The word size maxu is a parameter: 7 in the exhaustive design run, the    *)
(* scale of the recorded scenario in trace validation (see Genesis_Trace).   *)
(* The merkle root is abstracted by the state itself (root(st) = st).        *)
EXTENDS Integers, Sequences, FiniteSets

BalKey(a) == "bal:" \o a
MetaKeys  == {"meta:height", "meta:timestamp", "meta:fee"}
Empty     == [x \in {} |-> 0]
Upd(f, k, v) == [x \in DOMAIN f \cup {k} |-> IF x = k THEN v ELSE f[x]]

(* avalanchego safemath.Add: -1 stands for ErrOverflow *)
CAdd(maxu, x, y) == IF x + y > maxu THEN -1 ELSE x + y

(* ------------------------------------------------------------ as coded *)
(* state/balance PrefixBalanceHandler.AddBalance *)
AddBalance(maxu, view, a, b) ==
  LET cur == IF BalKey(a) \in DOMAIN view THEN view[BalKey(a)] ELSE 0
      new == CAdd(maxu, cur, b)
  IN IF new = -1 THEN [ok |-> FALSE, view |-> view]
     ELSE [ok |-> TRUE, view |-> Upd(view, BalKey(a), new)]

(* one iteration of the loop in InitializeState; checkSupply = FALSE is the sensitivity variant without the
   running-supply check (only the per-address add is checked) *)
AllocStep(maxu, checkSupply, supply, view, al) ==
  LET s == CAdd(maxu, supply, al.b) IN
  IF checkSupply /\ s = -1 THEN [ok |-> FALSE, supply |-> supply, view |-> view]
  ELSE LET r == AddBalance(maxu, view, al.a, al.b) IN
       [ok |-> r.ok, supply |-> IF s = -1 THEN supply ELSE s, view |-> r.view]

RECURSIVE InitializeState(_, _, _, _, _, _)
InitializeState(maxu, checkSupply, allocs, i, supply, view) ==
  IF i > Len(allocs) THEN [ok |-> TRUE, view |-> view]
  ELSE LET r == AllocStep(maxu, checkSupply, supply, view, allocs[i]) IN
       IF ~r.ok THEN [ok |-> FALSE, view |-> view]
       ELSE InitializeState(maxu, checkSupply, allocs, i + 1, r.supply, r.view)

WriteHeight(view)      == Upd(view, "meta:height", 0)
WriteTimestamp(view)   == Upd(view, "meta:timestamp", 0)
WriteFee(view, minp)   == Upd(view, "meta:fee", minp)

(* chain.NewGenesisCommit as one function *)
GenesisCommit(maxu, checkSupply, allocs, minp) ==
  LET r == InitializeState(maxu, checkSupply, allocs, 1, 0, Empty) IN
  IF ~r.ok THEN [err |-> TRUE, st |-> Empty, root |-> Empty]
  ELSE LET s == WriteFee(WriteTimestamp(WriteHeight(r.view)), minp) IN [err |-> FALSE, st |-> s, root |-> s]

(* ------------------------------------------------------------ the property *)
Addrs(allocs) == {allocs[i].a : i \in DOMAIN allocs}

RECURSIVE SumFor(_, _, _)
SumFor(allocs, a, n) == IF n = 0 THEN 0 ELSE SumFor(allocs, a, n - 1) + (IF allocs[n].a = a THEN allocs[n].b ELSE 0)
RECURSIVE Total(_, _)
Total(allocs, n) == IF n = 0 THEN 0 ELSE Total(allocs, n - 1) + allocs[n].b

(* "allocations whose total would overflow" *)
Overflows(maxu, allocs) == Total(allocs, Len(allocs)) > maxu

BalOf(st, a) == IF BalKey(a) \in DOMAIN st THEN st[BalKey(a)] ELSE 0

(* every key of the state is a metadata key or the balance key of a configured address ... *)
ExactKeys(allocs, st)     == DOMAIN st \subseteq MetaKeys \cup {BalKey(a) : a \in Addrs(allocs)}
(* ... and every configured address holds the sum of its allocations (an absent key reads as balance 0) *)
ExactBalances(allocs, st) == \A a \in Addrs(allocs) : BalOf(st, a) = SumFor(allocs, a, Len(allocs))
HeightZero(st)            == "meta:height" \in DOMAIN st /\ st["meta:height"] = 0
TimestampZero(st)         == "meta:timestamp" \in DOMAIN st /\ st["meta:timestamp"] = 0
PricesAreMinimum(st, minp) == "meta:fee" \in DOMAIN st /\ st["meta:fee"] = minp

ExactlyConfigured(allocs, minp, st) ==
  ExactKeys(allocs, st) /\ ExactBalances(allocs, st) /\ HeightZero(st) /\ TimestampZero(st) /\ PricesAreMinimum(st, minp)

GenesisOK(maxu, allocs, minp, out) ==
  IF Overflows(maxu, allocs) THEN out.err
  ELSE ~out.err /\ ExactlyConfigured(allocs, minp, out.st) /\ out.root = out.st
=============================================================================
