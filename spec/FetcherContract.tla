--------------------------- MODULE FetcherContract ---------------------------
(* Abstract contract of the state prefetcher (fetcher-level part of C24)     *)
(* over observable events: Fetch/Get/Stop/Wait calls and returns, and every  *)
(* read the fetcher issues against the parent state (request and return).    *)
(* The log order is an atomic sequence number; "call" records are taken      *)
(* before the real call, "ret" records after the real return, read records   *)
(* inside the parent's GetValue.                                             *)
(*                                                                           *)
(* Clauses (from the property statement):                                    *)
(*  F1 only keys declared by the transactions are read from the parent       *)
(*  F2 a successful Get gives the transaction exactly the parent's value or  *)
(*     absence for each of its declared keys (nothing else, nothing missing),*)
(*     for any fetch concurrency, overlap of key sets, duplicate tx ids      *)
(*  F3 a failing read is never treated as absence: a Get that needs the key  *)
(*     does not succeed, and Wait reports an error                            *)
(*  F4 errors are reported only when there is a cause (a failed read / Stop) *)
(*  "instead of hanging": the driver's watchdog logs "hang", which no action *)
(*  explains.                                                                *)
EXTENDS Naturals, Sequences, FiniteSets

CONSTANTS KeyNames, MaxCalls

Calls == 1..MaxCalls

VARIABLES parent,    \* [KeyNames -> value | "absent" | "err"]     scripted parent state
          ckeys,     \* [Calls -> SUBSET KeyNames]                 declared keys of each Fetch call
          ncalls,
          declared,  \* SUBSET KeyNames: keys of the Fetch calls made so far
          rres,      \* [KeyNames -> "none" | "pending" | result]  last read result per key
          nreads,    \* [KeyNames -> Nat]
          anyFail,   \* a read returned an error
          fst, gst,  \* [Calls -> "none","calling","ok","err"], [Calls -> "none","calling","done"]
          stop, wait, stopFirst

fvars == <<parent, ckeys, ncalls, declared, rres, nreads, anyFail, fst, gst, stop, wait, stopFirst>>

FInit(p, ck, n) ==
  /\ parent = p /\ ckeys = ck /\ ncalls = n
  /\ declared = {} /\ rres = [k \in KeyNames |-> "none"] /\ nreads = [k \in KeyNames |-> 0] /\ anyFail = FALSE
  /\ fst = [c \in Calls |-> "none"] /\ gst = [c \in Calls |-> "none"]
  /\ stop = "idle" /\ wait = "no" /\ stopFirst = FALSE

FetchCall(c) ==
  /\ c \in 1..ncalls /\ fst[c] = "none" /\ wait = "no"
  /\ fst' = [fst EXCEPT ![c] = "calling"]
  /\ declared' = declared \cup ckeys[c]
  /\ UNCHANGED <<parent, ckeys, ncalls, rres, nreads, anyFail, gst, stop, wait, stopFirst>>

FetchRet(c, res) ==
  /\ fst[c] = "calling"
  /\ \/ res = "ok"
     \/ res = "err" /\ anyFail                                        \* F4
     \/ res = "stopped" /\ stop # "idle"                              \* F4
  /\ fst' = [fst EXCEPT ![c] = IF res = "ok" THEN "ok" ELSE "err"]
  /\ UNCHANGED <<parent, ckeys, ncalls, declared, rres, nreads, anyFail, gst, stop, wait, stopFirst>>

Read(k) ==
  /\ k \in declared                                                   \* F1
  /\ rres' = [rres EXCEPT ![k] = "pending"]
  /\ nreads' = [nreads EXCEPT ![k] = @ + 1]
  /\ UNCHANGED <<parent, ckeys, ncalls, declared, anyFail, fst, gst, stop, wait, stopFirst>>

ReadRet(k, res) ==
  /\ rres[k] = "pending" /\ res = parent[k]
  /\ rres' = [rres EXCEPT ![k] = res]
  /\ anyFail' = (anyFail \/ res = "err")
  /\ UNCHANGED <<parent, ckeys, ncalls, declared, nreads, fst, gst, stop, wait, stopFirst>>

GetCall(c) ==
  /\ fst[c] = "ok" /\ gst[c] = "none"
  /\ gst' = [gst EXCEPT ![c] = "calling"]
  /\ UNCHANGED <<parent, ckeys, ncalls, declared, rres, nreads, anyFail, fst, stop, wait, stopFirst>>

\* got: function from (a subset of) key names to values
GetRet(c, res, got) ==
  /\ gst[c] = "calling"
  /\ \/ /\ res = "ok"
        /\ DOMAIN got \subseteq ckeys[c]                                                   \* F2 nothing else
        /\ \A k \in ckeys[c] :
             /\ rres[k] \notin {"none", "pending", "err"}                                  \* F2 F3
             /\ IF rres[k] = "absent" THEN k \notin DOMAIN got
                                      ELSE k \in DOMAIN got /\ got[k] = rres[k]            \* F2
     \/ res = "err" /\ anyFail                                                             \* F4
     \/ res = "stopped" /\ stop # "idle"                                                   \* F4
  /\ gst' = [gst EXCEPT ![c] = "done"]
  /\ UNCHANGED <<parent, ckeys, ncalls, declared, rres, nreads, anyFail, fst, stop, wait, stopFirst>>

StopCall == stop = "idle" /\ stop' = "called"
            /\ UNCHANGED <<parent, ckeys, ncalls, declared, rres, nreads, anyFail, fst, gst, wait, stopFirst>>
StopRet  == stop = "called" /\ stop' = "returned"
            /\ UNCHANGED <<parent, ckeys, ncalls, declared, rres, nreads, anyFail, fst, gst, wait, stopFirst>>

WaitCall == /\ wait = "no" /\ \A c \in Calls : fst[c] # "calling"
            /\ wait' = "called" /\ stopFirst' = (stop = "returned")
            /\ UNCHANGED <<parent, ckeys, ncalls, declared, rres, nreads, anyFail, fst, gst, stop>>
WaitRet(res) ==
  /\ wait = "called"
  /\ \/ res = "ok" /\ ~anyFail /\ ~stopFirst                           \* F3
     \/ res = "err" /\ anyFail                                         \* F4
     \/ res = "stopped" /\ stop # "idle"                               \* F4
  /\ wait' = res
  /\ UNCHANGED <<parent, ckeys, ncalls, declared, rres, nreads, anyFail, fst, gst, stop, stopFirst>>

Fin == /\ wait \in {"ok", "err", "stopped"} /\ stop # "called"
       /\ \A c \in Calls : fst[c] # "calling" /\ gst[c] # "calling"
       /\ UNCHANGED fvars

\* every read is of a declared key
ReadsSubsetOfDeclared == \A k \in KeyNames : nreads[k] > 0 => k \in declared
=============================================================================
