SPECIFICATION Spec
CONSTANTS
  Ids = {0, 1, 2}
  Decs = {10, 11}
  Capacity = 3
  Variant = "code"
INVARIANTS Unique LookupExact TypesInOrder
PROPERTIES StepOK
CHECK_DEADLOCK FALSE
