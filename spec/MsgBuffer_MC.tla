---------------------------- MODULE MsgBuffer_MC ----------------------------
(* design step for C32: every Send/TimerFlush/Close/Drain interleaving for  *)
(* up to MaxCalls Send calls, all payload sizes in Sizes, small Max/Cap.    *)
EXTENDS MsgBuffer
CONSTANTS Maxes, Caps, Sizes, MaxCalls
VARIABLE n                       \* Send calls made so far (gives every message a unique fp)
mcvars == <<vars, n>>

MCInit == n = 0 /\ \E mx \in Maxes, cp \in Caps : InitWith(mx, cp)
MCSend     == n < MaxCalls /\ n' = n + 1 /\ \E s \in Sizes : Send([len |-> s, fp |-> n + 1])
MCSendOrig == n < MaxCalls /\ n' = n + 1 /\ \E s \in Sizes : SendAsOriginallyCoded([len |-> s, fp |-> n + 1])
MCTimer    == TimerFlush /\ UNCHANGED n
MCClose    == Close /\ UNCHANGED n
MCDrain    == Drain /\ UNCHANGED n
MCNext     == MCSend \/ MCTimer \/ MCClose \/ MCDrain
MCNextOrig == MCSendOrig \/ MCTimer \/ MCClose \/ MCDrain
MCSpec     == MCInit /\ [][MCNext]_mcvars
MCSpecOrig == MCInit /\ [][MCNextOrig]_mcvars
(* Close when closed only changes res; ignore res in the fingerprint *)
View == <<conf, pending, pendingSize, queue, closed, accepted, out, ndrained, n>>
=============================================================================
