SPECIFICATION Spec
CONSTANTS
  N = 3
  Keys = {k1, k2}
  NW = 2
  MaxDeps = 3
  OriginalOffset = FALSE
  MaxFail = 1
  Shapes <- ShapesRW
INVARIANTS TypeOK NoOverlap QueueOrder AtMostOnce WaitOK


CHECK_DEADLOCK TRUE
