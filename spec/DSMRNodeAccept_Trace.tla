------------------------ MODULE DSMRNodeAccept_Trace ------------------------
(* Trace validation of Accept calls recorded from a real dsmr.Node whose peers are scripted (C35).         *)
(* store / accept_call / req / accept_ret lines.  Every request must be for the certificate the model is   *)
(* waiting for, and the call must return exactly the referenced chunks in certificate order, without       *)
(* error, as soon as (and not before) every missing chunk was served.                                      *)
EXTENDS DSMRNodeAccept, Json, IOUtils, SequencesExt

VARIABLE l

Trace == ndJsonDeserialize(IOEnv.TRACE)
N     == Len(Trace)
tvars == <<avars, l>>
T     == Trace[l]

Ev(e) == l <= N /\ Trace[l].ev = e /\ l' = l + 1
(* every failure kind of the driver is one retry for the model *)
KindOf(k) == IF k \in {"valid", "wrong"} THEN k ELSE "error"
MapKinds(s) == [i \in DOMAIN s |-> KindOf(s[i])]

Mark(cond, tag) == IF cond THEN PrintT(<<tag, l>>) ELSE TRUE      \* evidence counters, never a verdict

TraceInit == l = 2 /\ TLCSet(1, 1) /\ Trace[1].ev = "reset" /\ AcceptInit(Trace[1].limit)

TReset ==
  /\ Ev("reset")
  /\ have' = {} /\ status' = "idle" /\ certs' = <<>> /\ idx' = 1 /\ out' = <<>> /\ script' = <<>> /\ nreq' = 0 /\ res' = "none"
  /\ prod' = [c \in Chunks |-> "none"] /\ limit' = T.limit /\ pend' = {} /\ failput' = 0 /\ nput' = 0
TStore == Ev("store") /\ Store(T.c, T.p) /\ Mark(PW(T.p) + 1 > limit, "STORE_OVER_LIMIT")
TCall  == Ev("accept_call") /\ AcceptCall(T.certs, T.prods, MapKinds(T.script), T.failput)
(* the chunk is fetched although it pushes its producer over the rate limit: must succeed all the same *)
TReq   == Ev("req") /\ Request(T.want, KindOf(T.kind)) /\ T.n = nreq'
          /\ Mark(KindOf(T.kind) = "valid" /\ OverLimit, "FETCH_OVER_LIMIT")
          /\ Mark(StoreFails, "STORE_FAIL_RETRY")     \* the acceptor's database refuses this chunk's pending record once
TRet   == Ev("accept_ret") /\ AcceptReturn /\ T.res = "ok" /\ T.chunks = out      \* C35: ChunksExact, no error

TraceNext == TReset \/ TStore \/ TCall \/ TReq \/ TRet
TraceSpec == TraceInit /\ [][TraceNext]_tvars

HWM      == TLCSet(1, IF TLCGet(1) > l - 1 THEN TLCGet(1) ELSE l - 1)
Accepted == PrintT(<<"TRACE_HWM", TLCGet(1)>>) /\ TLCGet(1) = N
=============================================================================
