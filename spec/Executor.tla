------------------------------ MODULE Executor ------------------------------
(* Fine-grained model of internal/executor/executor.go (C08).                *)
(*                                                                           *)
(* Goroutines: the enqueuer (calls Run for tasks 1..N in order, then Wait),  *)
(* NW workers (work -> runTask), a stopper (Stop, at most once, any time).   *)
(* Locks are explicit (lock[t] = holder of task t's mutex) because Run holds *)
(* lt.l while it takes rt.l of every reader (the only nested acquisition);   *)
(* a worker holds at most one mutex at a time.  One action per lock          *)
(* acquisition / critical section / channel operation / atomic:              *)
(*   RunBegin, RunKey (lt.l.Lock + reader registration), RunBlockOnReader    *)
(*   (rt.l critical section), RunKeyDone (rest of lt.l section + Unlock),    *)
(*   RunFinish (dependencies.Add(-difference), push),                        *)
(*   WTake (<-executable), WCheck (err.Load, start of f), WEndF (f returns,  *)
(*   err CAS), WRelease (rt.l section deleting the reader), WNotifyLock      *)
(*   (t.l.Lock), WNotifyOne (dependencies.Add(-1), push), WNotifyDone        *)
(*   (executed = true, Unlock, outstanding.Done), Stop, Wait*.               *)
(* The dependency counter keeps its offset as in the code (Prime).           *)
EXTENDS Integers, Sequences, FiniteSets, TLC

CONSTANTS N,         \* number of tasks handed to Run (ids 1..N = queue order)
          Keys,
          NW,        \* workers (concurrency)
          MaxDeps,   \* maxDependencies
          MaxFail,   \* at most this many closures return an error
          Shapes,    \* candidate key assignments: set of [1..N -> [Keys -> {"n","r","w"}]]
          OriginalOffset  \* TRUE: the dependency counter is primed as originally coded (see PrimeAsOriginallyCoded)

\* Value the dependency counter is primed with while Run registers the dependencies.  The repaired code uses one more
\* than maxDependencies, so a task with exactly maxDependencies dependencies that all finish during the registration
\* cannot reach zero early (and be pushed by the last notifier and again by RunFinish).
Prime                  == MaxDeps + 1
PrimeAsOriginallyCoded == MaxDeps
Offset == IF OriginalOffset THEN PrimeAsOriginallyCoded ELSE Prime

Tasks == 1..N
Wk    == 1..NW
Stopped == -1

VARIABLES keysOf,
          nodes, reading, readers, blocked, executed, deps, lock,
          rpc, nxt, rt, rtodo, rkey, rlt, rreaders, rdeps,       \* enqueuer
          execQ, closed, outstanding,
          wpc, wt, wset,                                           \* workers
          err, stopCalled, wait, waitErr,
          runs, ended, failedT, pushes                             \* observation only

vars == <<keysOf, nodes, reading, readers, blocked, executed, deps, lock, rpc, nxt, rt, rtodo, rkey, rlt, rreaders,
          rdeps, execQ, closed, outstanding, wpc, wt, wset, err, stopCalled, wait, waitErr, runs, ended, failedT,
          pushes>>

Perm(t, k) == keysOf[t][k]
Conflict(a, b) == \E k \in Keys : Perm(a, k) # "n" /\ Perm(b, k) # "n" /\ (Perm(a, k) = "w" \/ Perm(b, k) = "w")

Init ==
  /\ keysOf \in Shapes
  /\ nodes = [k \in Keys |-> 0]
  /\ reading = [t \in Tasks |-> {}] /\ readers = [t \in Tasks |-> {}] /\ blocked = [t \in Tasks |-> {}]
  /\ executed = [t \in Tasks |-> FALSE] /\ deps = [t \in Tasks |-> 0] /\ lock = [t \in Tasks |-> 0]
  /\ rpc = "idle" /\ nxt = 1 /\ rt = 0 /\ rtodo = {} /\ rkey = {} /\ rlt = 0
  /\ rreaders = {} /\ rdeps = {}
  /\ execQ = <<>> /\ closed = FALSE /\ outstanding = 0
  /\ wpc = [w \in Wk |-> "take"] /\ wt = [w \in Wk |-> 0] /\ wset = [w \in Wk |-> {}]
  /\ err = 0 /\ stopCalled = FALSE /\ wait = "no" /\ waitErr = 0
  /\ runs = [t \in Tasks |-> 0] /\ ended = {} /\ failedT = {} /\ pushes = [t \in Tasks |-> 0]

Push(t) == /\ execQ' = Append(execQ, t) /\ pushes' = [pushes EXCEPT ![t] = @ + 1]

(* ----------------------------------------------------------------- Run(t) *)
RUnch == <<keysOf, closed, outstanding, wpc, wt, wset, err, stopCalled, wait, waitErr, runs, ended, failedT>>
RunBegin ==
  /\ rpc = "idle" /\ wait = "no" /\ nxt <= N
  /\ rt' = nxt /\ rpc' = "keys"
  /\ outstanding' = outstanding + 1
  /\ deps' = [deps EXCEPT ![nxt] = Offset]
  /\ rtodo' = {k \in Keys : Perm(nxt, k) # "n"} /\ rdeps' = {}
  /\ UNCHANGED <<keysOf, nodes, reading, readers, blocked, executed, lock, nxt, rkey, rlt, rreaders, execQ, closed,
                 wpc, wt, wset, err, stopCalled, wait, waitErr, runs, ended, failedT, pushes>>
\* for k, v := range keys (map order is arbitrary)
RunKey(k) ==
  /\ rpc = "keys" /\ k \in rtodo
  /\ IF nodes[k] = 0
       THEN /\ nodes' = [nodes EXCEPT ![k] = rt] /\ rtodo' = rtodo \ {k}
            /\ UNCHANGED <<lock, reading, readers, rpc, rkey, rlt, rreaders>>
       ELSE LET lt == nodes[k] IN
            /\ lock[lt] = 0                                   \* lt.l.Lock()
            /\ lock' = [lock EXCEPT ![lt] = -1]
            /\ rkey' = {k} /\ rlt' = lt /\ rpc' = "locked"
            /\ IF Perm(rt, k) = "r"
                 THEN /\ reading' = [reading EXCEPT ![rt] = @ \cup {lt}]
                      /\ readers' = [readers EXCEPT ![lt] = @ \cup {rt}]
                      /\ rreaders' = {}
                 ELSE /\ rreaders' = readers[lt] \ {rt}
                      /\ UNCHANGED <<reading, readers>>
            /\ UNCHANGED <<nodes, rtodo>>
  /\ UNCHANGED <<RUnch, blocked, executed, deps, nxt, rt, rdeps, execQ, pushes>>
\* rt.l.Lock(); rt.blocked[id] = t; rt.l.Unlock(); dependencies.Add(rt.id)
RunBlockOnReader(x) ==
  /\ rpc = "locked" /\ x \in rreaders /\ lock[x] = 0
  /\ blocked' = [blocked EXCEPT ![x] = @ \cup {rt}]
  /\ rdeps' = rdeps \cup {x} /\ rreaders' = rreaders \ {x}
  /\ UNCHANGED <<RUnch, nodes, reading, readers, executed, deps, lock, rpc, nxt, rt, rtodo, rkey, rlt, execQ, pushes>>
\* e.nodes[k] = t (exclusive access only); if !lt.executed { lt.blocked[id] = t; ... }; lt.l.Unlock()
RunKeyDone ==
  /\ rpc = "locked" /\ rreaders = {}
  /\ nodes' = [k \in Keys |-> IF k \in rkey /\ Perm(rt, k) # "r" THEN rt ELSE nodes[k]]
  /\ IF ~executed[rlt]
       THEN blocked' = [blocked EXCEPT ![rlt] = @ \cup {rt}] /\ rdeps' = rdeps \cup {rlt}
       ELSE UNCHANGED <<blocked, rdeps>>
  /\ lock' = [lock EXCEPT ![rlt] = 0]
  /\ rtodo' = rtodo \ rkey /\ rpc' = "keys"
  /\ UNCHANGED <<RUnch, reading, readers, executed, deps, nxt, rt, rkey, rlt, rreaders, execQ, pushes>>
\* difference := maxDependencies - len(dependencies); if t.dependencies.Add(-difference) > 0 { return }; executable <- t
RunFinish ==
  /\ rpc = "keys" /\ rtodo = {}
  /\ LET d == deps[rt] - (Offset - Cardinality(rdeps)) IN
       /\ deps' = [deps EXCEPT ![rt] = d]
       /\ IF d > 0 THEN UNCHANGED <<execQ, pushes>> ELSE Push(rt)
  /\ rpc' = "idle" /\ nxt' = nxt + 1
  /\ UNCHANGED <<RUnch, nodes, reading, readers, blocked, executed, lock, rt, rtodo, rkey, rlt, rreaders, rdeps>>

(* ---------------------------------------------------------------- workers *)
WUnch == <<keysOf, nodes, rpc, nxt, rt, rtodo, rkey, rlt, rreaders, rdeps, stopCalled, wait, waitErr>>
WTake(w) ==
  /\ wpc[w] = "take"
  /\ \/ /\ execQ # <<>> /\ wt' = [wt EXCEPT ![w] = Head(execQ)] /\ execQ' = Tail(execQ)
        /\ wpc' = [wpc EXCEPT ![w] = "check"]
     \/ /\ execQ = <<>> /\ closed /\ wpc' = [wpc EXCEPT ![w] = "exit"] /\ UNCHANGED <<wt, execQ>>
  /\ UNCHANGED <<WUnch, reading, readers, blocked, executed, deps, lock, closed, outstanding, wset, err, runs, ended,
                 failedT, pushes>>
\* if e.err.Load() != nil { return }  else call t.f()
WCheck(w) ==
  /\ wpc[w] = "check"
  /\ IF err # 0
       THEN wpc' = [wpc EXCEPT ![w] = "release"] /\ wset' = [wset EXCEPT ![w] = reading[wt[w]]] /\ UNCHANGED runs
       ELSE wpc' = [wpc EXCEPT ![w] = "run"] /\ runs' = [runs EXCEPT ![wt[w]] = @ + 1] /\ UNCHANGED wset
  /\ UNCHANGED <<WUnch, reading, readers, blocked, executed, deps, lock, execQ, closed, outstanding, wt, err, ended,
                 failedT, pushes>>
\* t.f() returns; on error e.err.CompareAndSwap(nil, err)
WEndF(w) ==
  /\ wpc[w] = "run"
  /\ ended' = ended \cup {wt[w]}
  /\ \E f \in BOOLEAN :
       /\ f => Cardinality(failedT) < MaxFail
       /\ failedT' = IF f THEN failedT \cup {wt[w]} ELSE failedT
       /\ err' = IF f /\ err = 0 THEN wt[w] ELSE err
  /\ wpc' = [wpc EXCEPT ![w] = "release"] /\ wset' = [wset EXCEPT ![w] = reading[wt[w]]]
  /\ UNCHANGED <<WUnch, reading, readers, blocked, executed, deps, lock, execQ, closed, outstanding, wt, runs, pushes>>
\* defer, first loop: rt.l.Lock(); delete(rt.readers, t.id); rt.l.Unlock()
WRelease(w, x) ==
  /\ wpc[w] = "release" /\ x \in wset[w] /\ lock[x] = 0
  /\ readers' = [readers EXCEPT ![x] = @ \ {wt[w]}]
  /\ wset' = [wset EXCEPT ![w] = @ \ {x}]
  /\ UNCHANGED <<WUnch, reading, blocked, executed, deps, lock, execQ, closed, outstanding, wpc, wt, err, runs, ended,
                 failedT, pushes>>
\* t.reading = nil; t.l.Lock()
WNotifyLock(w) ==
  /\ wpc[w] = "release" /\ wset[w] = {} /\ lock[wt[w]] = 0
  /\ reading' = [reading EXCEPT ![wt[w]] = {}]
  /\ lock' = [lock EXCEPT ![wt[w]] = w]
  /\ wset' = [wset EXCEPT ![w] = blocked[wt[w]]]
  /\ wpc' = [wpc EXCEPT ![w] = "notifying"]
  /\ UNCHANGED <<WUnch, readers, blocked, executed, deps, execQ, closed, outstanding, wt, err, runs, ended, failedT,
                 pushes>>
\* for _, bt := range t.blocked { if bt.dependencies.Add(-1) > 0 { continue }; e.executable <- bt }
WNotifyOne(w, b) ==
  /\ wpc[w] = "notifying" /\ b \in wset[w]
  /\ deps' = [deps EXCEPT ![b] = @ - 1]
  /\ IF deps[b] - 1 > 0 THEN UNCHANGED <<execQ, pushes>> ELSE Push(b)
  /\ wset' = [wset EXCEPT ![w] = @ \ {b}]
  /\ UNCHANGED <<WUnch, reading, readers, blocked, executed, lock, closed, outstanding, wpc, wt, err, runs, ended,
                 failedT>>
\* t.blocked = nil; t.executed = true; t.l.Unlock(); e.outstanding.Done()
WNotifyDone(w) ==
  /\ wpc[w] = "notifying" /\ wset[w] = {}
  /\ blocked' = [blocked EXCEPT ![wt[w]] = {}]
  /\ executed' = [executed EXCEPT ![wt[w]] = TRUE]
  /\ lock' = [lock EXCEPT ![wt[w]] = 0]
  /\ outstanding' = outstanding - 1
  /\ wpc' = [wpc EXCEPT ![w] = "take"] /\ wt' = [wt EXCEPT ![w] = 0]
  /\ UNCHANGED <<WUnch, reading, readers, deps, execQ, closed, wset, err, runs, ended, failedT, pushes>>

(* ------------------------------------------------------------ Stop / Wait *)
SUnch == <<keysOf, nodes, reading, readers, blocked, executed, deps, lock, rpc, nxt, rt, rtodo, rkey, rlt, rreaders,
           rdeps, execQ, outstanding, wpc, wt, wset, runs, ended, failedT, pushes>>
Stop ==
  /\ ~stopCalled /\ wait # "ret" /\ stopCalled' = TRUE
  /\ err' = IF err = 0 THEN Stopped ELSE err
  /\ UNCHANGED <<SUnch, closed, wait, waitErr>>
\* the caller stops calling Run and calls Wait
WaitCall ==
  /\ wait = "no" /\ rpc = "idle" /\ wait' = "waiting"
  /\ UNCHANGED <<SUnch, closed, err, stopCalled, waitErr>>
\* e.outstanding.Wait(); close(e.executable)
WaitOutstanding ==
  /\ wait = "waiting" /\ outstanding = 0 /\ closed' = TRUE /\ wait' = "closed"
  /\ UNCHANGED <<SUnch, err, stopCalled, waitErr>>
\* e.workers.Wait(); return e.err.Load()
WaitReturn ==
  /\ wait = "closed" /\ \A w \in Wk : wpc[w] = "exit"
  /\ wait' = "ret" /\ waitErr' = err
  /\ UNCHANGED <<SUnch, closed, err, stopCalled>>

Terminating == wait = "ret" /\ UNCHANGED vars

RunStep       == RunBegin \/ (\E k \in Keys : RunKey(k)) \/ (\E x \in Tasks : RunBlockOnReader(x)) \/ RunKeyDone
                 \/ RunFinish
WorkerStep(w) == WTake(w) \/ WCheck(w) \/ WEndF(w) \/ (\E x \in Tasks : WRelease(w, x)) \/ WNotifyLock(w)
                 \/ (\E b \in Tasks : WNotifyOne(w, b)) \/ WNotifyDone(w)
WaitStep      == WaitOutstanding \/ WaitReturn
Next == RunStep \/ (\E w \in Wk : WorkerStep(w)) \/ Stop \/ WaitCall \/ WaitStep \/ Terminating

\* The caller eventually calls Wait (it may do so before having queued all N tasks); Stop is never forced.
Fairness == /\ WF_vars(RunStep) /\ WF_vars(WaitCall) /\ WF_vars(WaitStep)
            /\ \A w \in Wk : WF_vars(WorkerStep(w))
Spec == Init /\ [][Next]_vars /\ Fairness

(* ------------------------------------------------------------- properties *)
Queued   == {t \in Tasks : t < nxt}                 \* Run(t) has returned
Started  == {t \in Tasks : runs[t] > 0}
Running  == Started \ ended
TypeOK   == /\ outstanding \in 0..N /\ Len(execQ) <= N      \* the executable channel (capacity items) never blocks
            /\ \A t \in Tasks : lock[t] \in -1..NW
\* two running tasks never conflict
NoOverlap  == \A a, b \in Running : a # b => ~Conflict(a, b)
\* a task starts only after every earlier conflicting task ran to completion without error
\* (a skipped or failed predecessor implies the error was set before, so the successor is skipped as well)
QueueOrder ==
  \A a, b \in Tasks : a < b /\ Conflict(a, b) /\ b \in Started => a \in ended /\ a \notin failedT
\* every task is made executable at most once and runs at most once
AtMostOnce == \A t \in Tasks : pushes[t] <= 1 /\ runs[t] <= 1
\* Wait: everything queued ran exactly once unless a task failed or Stop was called; the error is the first one
WaitOK ==
  wait = "ret" =>
    /\ Running = {} /\ outstanding = 0
    /\ waitErr = 0 => Queued \subseteq Started /\ failedT = {}
    /\ failedT # {} => waitErr # 0
    /\ waitErr > 0 => waitErr \in failedT
    /\ waitErr = Stopped => stopCalled
    /\ (waitErr # 0) = (failedT # {} \/ stopCalled)
\* liveness: Wait returns
WaitReturns == <>(wait = "ret")
=============================================================================
