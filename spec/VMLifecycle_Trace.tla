-------------------------- MODULE VMLifecycle_Trace -------------------------
(* Trace validation of the lifecycle hooks of a real, initialised snow.VM    *)
(* (X11) against VMLifecycle.tla.  Lines:                                    *)
(*   addstarter {state, id, fails}   addcloser {id, fails}                   *)
(*   register {name, id, fails, refused}                                     *)
(*   setstate {state, ran, errs, nilerr}   badstate {ran, unknown}           *)
(*   health {ran (sorted), errs, nilerr, names}   shutdown {ran, errs, nilerr}*)
(* ran = ids of the driver's hooks that ran during the call, errs = ids      *)
(* whose sentinel error errors.Is finds in the result.  The module's own     *)
(* actions are taken with the logged arguments.                              *)
EXTENDS VMLifecycle, TLC, Json, IOUtils

VARIABLES l, diag
tvars == <<vars, l, diag>>

Trace == ndJsonDeserialize(IOEnv.TRACE)
N     == Len(Trace)
T     == Trace[l]
Ev(e) == l <= N /\ Trace[l].ev = e /\ l' = l + 1
Name(ok, nm) == IF ok THEN {} ELSE {nm}
SeqSet(s) == {s[i] : i \in DOMAIN s}
Seen == Name(T.ran = ran', "hooks-run-or-their-order") \cup Name(SeqSet(T.errs) = res', "errors-reported") \cup
        Name(T.nilerr = (res' = {}), "nil-iff-nothing-failed")

TraceInit == /\ l = 1 /\ TLCSet(1, 0) /\ starters = [s \in States |-> <<>>] /\ closers = <<>> /\ checkers = <<>>
             /\ shut = FALSE /\ shutRes = {} /\ ran = <<>> /\ res = {} /\ next = 1 /\ diag = {}
TReset == /\ Ev("reset") /\ starters' = [s \in States |-> <<>>] /\ closers' = <<>> /\ checkers' = <<>>
          /\ shut' = FALSE /\ shutRes' = {} /\ ran' = <<>> /\ res' = {} /\ next' = 1 /\ diag' = {}

TAddStarter == Ev("addstarter") /\ AddStarter(T.state, T.fails) /\ diag' = Name(T.id = next, "harness-hook-numbering")
TAddCloser  == Ev("addcloser") /\ AddCloser(T.fails) /\ diag' = Name(T.id = next, "harness-hook-numbering")
TRegister   == Ev("register") /\ Register(T.name, T.fails)
               /\ diag' = Name(T.id = next, "harness-hook-numbering") \cup Name(T.refused = (T.name \in DOMAIN checkers), "duplicate-name-refused-only")
TSetState   == Ev("setstate") /\ SetState(T.state) /\ diag' = Seen
TBadState   == Ev("badstate") /\ UNCHANGED vars /\ diag' = Name(T.unknown /\ T.ran = <<>>, "unknown-state")
THealth     == /\ Ev("health") /\ Health
               /\ diag' = Name(SeqSet(T.errs) = res', "errors-reported") \cup Name(T.nilerr = (res' = {}), "nil-iff-nothing-failed") \cup
                          Name(SeqSet(T.ran) = {checkers[n].id : n \in DOMAIN checkers} /\ Len(T.ran) = Cardinality(DOMAIN checkers), "every-checker-once") \cup
                          Name(SeqSet(T.names) = DOMAIN checkers \cup {"snowVMReady"}, "details-by-name")
TShutdown   == Ev("shutdown") /\ Shutdown /\ diag' = Seen

TraceNext == TReset \/ TAddStarter \/ TAddCloser \/ TRegister \/ TSetState \/ TBadState \/ THealth \/ TShutdown
TraceSpec == TraceInit /\ [][TraceNext]_tvars

DiagEmpty == diag = {}
HWM      == TLCSet(1, IF TLCGet(1) > l - 1 THEN TLCGet(1) ELSE l - 1)
Accepted == PrintT(<<"TRACE_HWM", TLCGet(1)>>) /\ TLCGet(1) = N
=============================================================================
