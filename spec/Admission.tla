----------------------------- MODULE Admission ------------------------------
(* vm.VM.Submit (extra module X05): admission of transactions into the       *)
(* mempool of a node, end to end (Submit -> chain.PreExecutor -> mempool.Add, *)
(* then build / accept of the next block).                                   *)
(* A transaction has static attributes: sp (sponsor) and defect              *)
(*   "none" | "expired" | "future" | "misaligned" | "chain-id" | "auth" |    *)
(*   "balance"                                                               *)
(* (at most one defect; what the code answers for several is not stated).    *)
(*  - implementation: Submit as coded - per transaction: already pending ->  *)
(*    "not-added"; PreExecute (repeat in the accepted window -> "duplicate", *)
(*    then the transaction's own defect); the admitted ones are handed to    *)
(*    Mempool.Add in one call, which silently skips duplicates, a sponsor    *)
(*    already holding SponsorMax items and a full mempool.  Build = the next *)
(*    block takes the whole mempool (small scenarios) and is accepted.       *)
(*  - properties: see below; KF_X05_limit delimits the one deviation.        *)
EXTENDS Integers, Sequences, FiniteSets

CONSTANTS Txs, Sponsor0, Defect0,     \* attributes of the model's transactions
          PoolMax0, SponsorMax0,      \* mempool limits of the model's node
          Variant                     \* "code" | "nohas" (no pending check) | "norepeat" (no accepted-window check)

VARIABLES sp, df, lim,                \* attributes sp[t], df[t] and limits lim.pool, lim.sponsor (never change; variables
                                      \* so that Admission_Trace can load them from a recorded scenario)
          pool, acc, errs, batch, blk

vars == <<sp, df, lim, pool, acc, errs, batch, blk>>
Sponsor    == sp
Defect     == df
PoolMax    == lim.pool
SponsorMax == lim.sponsor

SeqSet(s) == {s[i] : i \in DOMAIN s}
Owned(p, s) == Cardinality({t \in p : Sponsor[t] = s})

Init == sp = Sponsor0 /\ df = Defect0 /\ lim = [pool |-> PoolMax0, sponsor |-> SponsorMax0] /\ pool = {} /\ acc = {} /\ errs = <<>> /\ batch = <<>> /\ blk = {}

(* ---------------- implementation ---------------- *)
Verdict(t, p, a) ==
  IF Variant # "nohas" /\ t \in p THEN "not-added"
  ELSE IF Variant # "norepeat" /\ t \in a THEN "duplicate"
  ELSE IF Defect[t] # "none" THEN Defect[t]
  ELSE "nil"

RECURSIVE AddAll(_, _)
AddAll(p, s) ==          \* Mempool.add, item by item
  IF s = <<>> THEN p
  ELSE LET t == Head(s) IN
       IF t \in p \/ Owned(p, Sponsor[t]) >= SponsorMax \/ Cardinality(p) >= PoolMax THEN AddAll(p, Tail(s))
       ELSE AddAll(p \cup {t}, Tail(s))

Submit(b) ==
  LET e == [i \in DOMAIN b |-> Verdict(b[i], pool, acc)]
      valid == SelectSeq(b, LAMBDA t : Verdict(t, pool, acc) = "nil")
  IN /\ errs' = e /\ batch' = b
     /\ pool' = AddAll(pool, valid)
     /\ UNCHANGED <<acc, blk, sp, df, lim>>

Build == /\ pool # {} /\ blk' = pool /\ acc' = acc \cup pool /\ pool' = {}
         /\ errs' = <<>> /\ batch' = <<>> /\ UNCHANGED <<sp, df, lim>>

Next == Build \/ (\E t \in Txs : Submit(<<t>>)) \/ (\E t, u \in Txs : Submit(<<t, u>>))
Spec == Init /\ [][Next]_vars

(* ---------------- properties ---------------- *)
(* what the statement expects for one transaction given the node's state before the call *)
Expected(t, p, a) ==
  IF t \in p THEN "not-added" ELSE IF t \in a THEN "duplicate" ELSE IF Defect[t] # "none" THEN Defect[t] ELSE "nil"

(* the one deviation of the code as originally written: Submit answers nil, but Mempool.Add drops the transaction
   because its sponsor already holds SponsorMax pending transactions or the mempool is full.  fixes/X05-submit-
   reports-mempool-limit makes Submit answer "mempool-limit" for those; Admission_Trace accepts both answers (the
   original one is reported as a known finding) so that the check works before and after the patch is applied. *)
KF_X05_limit(t, p) == Owned(p, Sponsor[t]) >= SponsorMax \/ Cardinality(p) >= PoolMax

(* S2/S3  verdicts are per transaction: a function of the transaction and of the state before the call *)
SubmitStep(b) ==
  /\ \A i \in DOMAIN b : errs'[i] = Expected(b[i], pool, acc)
  (* S1  a transaction is pending after Submit iff it was pending before or Submit answered nil for it *)
  /\ \A i \in DOMAIN b : errs'[i] = "nil" => (b[i] \in pool' \/ KF_X05_limit(b[i], pool'))
  /\ \A i \in DOMAIN b : errs'[i] # "nil" => (b[i] \in pool' <=> b[i] \in pool)
  /\ pool \subseteq pool' /\ pool' \ pool \subseteq SeqSet(b)
SubmitStepStrict(b) == SubmitStep(b) /\ \A i \in DOMAIN b : errs'[i] = "nil" => b[i] \in pool'
SubmitStrict == [][\A t, u \in Txs : (Submit(<<t>>) => SubmitStepStrict(<<t>>)) /\ (Submit(<<t, u>>) => SubmitStepStrict(<<t, u>>))]_vars
SubmitOK == [][\A t, u \in Txs : (Submit(<<t>>) => SubmitStep(<<t>>)) /\ (Submit(<<t, u>>) => SubmitStep(<<t, u>>))]_vars

(* S4  everything pending is executable: no defective transaction is ever pending, nothing accepted is pending again,
       and the next block consists of pending transactions that were never in a block before *)
PoolExecutable == \A t \in pool : Defect[t] = "none"
NoReplay       == pool \cap acc = {}
BuildOK        == [][Build => blk' = pool /\ blk' \cap acc = {}]_vars
=============================================================================
