--------------------------- MODULE WireSize_Trace ---------------------------
(* Binding of WireSize.tla to the real chain.EstimateUnits / chain.           *)
(* GenerateTransaction / Transaction.Units (drivers/chain/verif_wiresize_     *)
(* test.go).  One "tx" line per generated transaction: the shape (action      *)
(* sizes, declared keys, compute, auth kind and lengths, base fields, rule    *)
(* costs, prices) and the real numbers (est, act, size, maxfee, fee).         *)
(* Two groups of clauses, kept apart in diag:                                 *)
(*  property  est<act:<dimension>, maxfee<fee (at the same prices) - decided  *)
(*            on the REAL numbers only;                                       *)
(*  model     model:* - the numbers WireSize.tla computes from the           *)
(*            shape equal the real ones (this is what transfers the           *)
(*            exhaustive design run to the code).                             *)
EXTENDS WireSize, TLC, Json, IOUtils

VARIABLES l, diag
tvars == <<l, diag>>

Trace == ndJsonDeserialize(IOEnv.TRACE)
N     == Len(Trace)
T     == Trace[l]
Ev(e) == l <= N /\ Trace[l].ev = e /\ l' = l + 1

TraceInit == l = 2 /\ TLCSet(1, 1) /\ Trace[1].ev = "reset" /\ diag = {}
TReset    == Ev("reset") /\ diag' = {}

TxDiag(t) ==
  LET base == BaseLen(t.tshi, t.tslo, t.chainnz, t.feenz)
      mEst == EstimateUnits(t.actions, t.authmax, t.authmaxc, t.rules, t.sponsorch)
      mAct == ActualUnits(base, t.actions, t.authlen, t.authc, t.rules, t.balchunks)
  IN \* ---- the property, on the real numbers
     {"est<act:" \o DimName(d) : d \in {d \in Dims : t.est[d] < t.act[d]}} \cup
     (IF t.maxfee >= 0 /\ t.fee >= 0 /\ t.maxfee < t.fee THEN {"maxfee<fee"} ELSE {}) \cup
     (IF t.maxfee >= 0 /\ t.maxfee # Dot(t.prices, t.est) THEN {"model:maxfee"} ELSE {}) \cup
     \* ---- the model equals the code on this shape
     (IF t.act[1] # t.size THEN {"model:size"} ELSE {}) \cup
     {"model:act-" \o DimName(d) : d \in {d \in Dims : mAct[d] # t.act[d]}} \cup
     {"model:est-" \o DimName(d) : d \in {d \in Dims : mEst[d] # t.est[d]}} \cup
     (IF Len(t.actions) > t.maxactions THEN {"harness:actions>limit"} ELSE {})

TTx == Ev("tx") /\ diag' = TxDiag(T)

TraceNext == TReset \/ TTx
TraceSpec == TraceInit /\ [][TraceNext]_tvars

DiagEmpty == diag = {}
HWM      == TLCSet(1, IF TLCGet(1) > l - 1 THEN TLCGet(1) ELSE l - 1)
Accepted == PrintT(<<"TRACE_HWM", TLCGet(1)>>) /\ TLCGet(1) = N
=============================================================================
