--------------------------- MODULE WireSize_Trace ---------------------------
(* Binding of WireSize.tla to the real chain.EstimateUnits / chain.           *)
(* GenerateTransaction / Transaction.Units (drivers/chain/verif_wiresize_     *)
(* test.go).  One "tx" line per generated transaction: the shape (action      *)
(* sizes, declared keys, compute, auth kind and lengths, base fields, rule    *)
(* costs, prices) and the real numbers (est, act, size, maxfee, fee).         *)
(* Two groups of clauses, kept apart in diag:                                 *)
(*  property  est<act:<dimension>, maxfee<fee (at the same prices) - decided  *)
(*            on the REAL numbers only;                                       *)
(*  model     model:* - the numbers WireSize.tla computes from the           *)
(*            shape equal the real ones (this is what transfers the           *)
(*            exhaustive design run to the code).                             *)
EXTENDS WireSize, TLC, Json, IOUtils

VARIABLES l, diag
tvars == <<l, diag>>

Trace == ndJsonDeserialize(IOEnv.TRACE)
N     == Len(Trace)
T     == Trace[l]
Ev(e) == l <= N /\ Trace[l].ev = e /\ l' = l + 1

TraceInit == l = 2 /\ TLCSet(1, 1) /\ Trace[1].ev = "reset" /\ diag = {}
TReset    == Ev("reset") /\ diag' = {}

Units(t) ==
  [base |-> BaseLen(t.tshi, t.tslo, t.chainnz, t.feenz),
   est  |-> EstimateUnits(t.actions, t.authmax, t.authmaxc, t.rules, t.sponsorch)]

(* ---- the property, on the real numbers: a broken clause rejects the line (DiagEmpty) *)
TxDiag(t) ==
  {"est<act:" \o DimName(d) : d \in {d \in Dims : t.est[d] < t.act[d]}} \cup
  (IF t.maxfee >= 0 /\ t.fee >= 0 /\ t.maxfee < t.fee THEN {"maxfee<fee"} ELSE {}) \cup
  (IF Len(t.actions) > t.maxactions THEN {"harness:actions>limit"} ELSE {})

(* ---- the model equals the code on this shape.  A difference does NOT reject the line (validation of the property
   goes on over every row); it is printed as a KF_HIT-style marker "model:<clause>" that checks/C14.py turns into an
   infrastructure error only when no property clause failed anywhere. *)
TxDrift(t) ==
  LET u    == Units(t)
      mAct == ActualUnits(u.base, t.actions, t.authlen, t.authc, t.rules, t.balchunks)
  IN (IF t.maxfee >= 0 /\ t.maxfee # Dot(t.prices, t.est) THEN {"model:maxfee"} ELSE {}) \cup
     (IF t.act[1] # t.size THEN {"model:size"} ELSE {}) \cup
     {"model:act-" \o DimName(d) : d \in {d \in Dims : mAct[d] # t.act[d]}} \cup
     {"model:est-" \o DimName(d) : d \in {d \in Dims : u.est[d] # t.est[d]}}

TTx == /\ Ev("tx")
       /\ diag' = TxDiag(T)
       /\ \A n \in TxDrift(T) : PrintT(<<"KF_HIT", n, l>>)

TraceNext == TReset \/ TTx
TraceSpec == TraceInit /\ [][TraceNext]_tvars

DiagEmpty == diag = {}
HWM      == TLCSet(1, IF TLCGet(1) > l - 1 THEN TLCGet(1) ELSE l - 1)
Accepted == PrintT(<<"TRACE_HWM", TLCGet(1)>>) /\ TLCGet(1) = N
=============================================================================
