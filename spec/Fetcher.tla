------------------------------- MODULE Fetcher -------------------------------
(* Fine-grained model of internal/fetcher/fetcher.go with                     *)
(* state.Keys.WithoutPermissions in front of it (fetcher-level part of C24). *)
(*                                                                            *)
(* Goroutines: the caller (Fetch calls one after the other, then Wait), NW    *)
(* workers (runWorker), one getter per Fetch call (the executor task calling  *)
(* Get), a stopper (Stop, at most once).  One action per critical section /   *)
(* channel operation:                                                         *)
(*   FetchRegister  the section under f.l in Fetch (dedupe, blockers, waiter) *)
(*   FetchSend      select { f.tasks <- t ; <-f.stop }   per task             *)
(*   WRecv          select { <-f.tasks ; <-f.stop }                           *)
(*   WRead          im.GetValue on the parent (the observable read)           *)
(*   WSet           f.set under f.l (cache, count down waiters, close)        *)
(*   WHandleErr     f.handleErr (setErr.Do: f.err, close(f.stop))             *)
(*   GetLookup      f.txs[txID] under f.l.RLock                               *)
(*   GetWake        select { <-tx.waiter ; <-f.stop } + cache collection      *)
(*   Stop, WaitClose (close(f.tasks)), WaitRet (wg.Wait, setErr.Do, f.err)    *)
(* f.tasks is a buffered channel of capacity TxCap.                           *)
(* Two defects of the code as originally written are kept as switchable       *)
(* behaviour so that the design step shows them:                              *)
(*   Original = "flatten": Keys.WithoutPermissions returned len(k) empty      *)
(*       strings ahead of the keys (FlattenAsOriginallyCoded)                 *)
(*   Original = "dupid":   set() resolved the waiters of a key through        *)
(*       f.txs[id], i.e. the latest Fetch call of that transaction id         *)
(*       (RecordOfAsOriginallyCoded)                                          *)
EXTENDS Naturals, Sequences, FiniteSets, TLC

CONSTANTS Keys,        \* declared key names
          NC,          \* number of Fetch calls
          NW, TxCap,
          CallShapes,  \* candidate call lists: set of [1..NC -> [tx : TxIds, keys : SUBSET Keys]]
          Original     \* "none" | "flatten" | "dupid"

Empty   == "EMPTY"                       \* the key ""
AllKeys == Keys \cup {Empty}
Calls   == 1..NC
Wk      == 1..NW

VARIABLES calls, parentV,
          kst, kval, kblocked,           \* f.keys: "absent" | "pending" | "cached", cached result, waiters
          blockers, hasWaiter, waiterClosed, txmap,
          ferr, errSet, stopClosed,
          tasksQ, tasksClosed,
          fpc, nxt, fsend, fres,         \* caller inside Fetch
          wpc, wkey,
          gpc, grec, gres, ggot,         \* getters
          wait, waitRes,
          reads, panicked, stopCalled

vars == <<calls, parentV, kst, kval, kblocked, blockers, hasWaiter, waiterClosed, txmap, ferr, errSet, stopClosed,
          tasksQ, tasksClosed, fpc, nxt, fsend, fres, wpc, wkey, gpc, grec, gres, ggot, wait, waitRes, reads,
          panicked, stopCalled>>

RECURSIVE SumF(_, _)
SumF(f, S) == IF S = {} THEN 0 ELSE LET x == CHOOSE y \in S : TRUE IN f[x] + SumF(f, S \ {x})
RECURSIVE AppN(_, _, _)
AppN(s, e, n) == IF n = 0 THEN s ELSE AppN(Append(s, e), e, n - 1)

\* Keys.WithoutPermissions: the key list handed to Fetch, as a bag: number of occurrences per key
Flatten(ks)                 == [k \in AllKeys |-> IF k \in ks THEN 1 ELSE 0]
FlattenAsOriginallyCoded(ks) == [k \in AllKeys |-> IF k \in ks THEN 1 ELSE IF k = Empty THEN Cardinality(ks) ELSE 0]
Flat(ks) == IF Original = "flatten" THEN FlattenAsOriginallyCoded(ks) ELSE Flatten(ks)

\* the record counted down for an entry of key.blocked
RecordOf(c)                 == c                         \* pointer to the waiting call itself
RecordOfAsOriginallyCoded(c) == txmap[calls[c].tx]        \* f.txs[id]: the latest call with that id
Rec(c) == IF Original = "dupid" THEN RecordOfAsOriginallyCoded(c) ELSE RecordOf(c)

Init ==
  /\ calls \in CallShapes
  /\ parentV \in {p \in [Keys -> {"v", "absent", "err"}] : Cardinality({k \in Keys : p[k] = "err"}) <= 1}
  /\ kst = [k \in AllKeys |-> "absent"] /\ kval = [k \in AllKeys |-> "absent"] /\ kblocked = [k \in AllKeys |-> <<>>]
  /\ blockers = [c \in Calls |-> 0] /\ hasWaiter = [c \in Calls |-> FALSE] /\ waiterClosed = [c \in Calls |-> FALSE]
  /\ txmap = [t \in 1..NC |-> 0]
  /\ ferr = "nil" /\ errSet = FALSE /\ stopClosed = FALSE
  /\ tasksQ = <<>> /\ tasksClosed = FALSE
  /\ fpc = "idle" /\ nxt = 1 /\ fsend = {} /\ fres = [c \in Calls |-> "none"]
  /\ wpc = [w \in Wk |-> "sel"] /\ wkey = [w \in Wk |-> Empty]
  /\ gpc = [c \in Calls |-> "none"] /\ grec = [c \in Calls |-> 0] /\ gres = [c \in Calls |-> "none"]
  /\ ggot = [c \in Calls |-> {}]
  /\ wait = "no" /\ waitRes = "none"
  /\ reads = [k \in AllKeys |-> 0] /\ panicked = FALSE /\ stopCalled = FALSE

ParentOf(k) == IF k \in Keys THEN parentV[k] ELSE "absent"

(* ------------------------------------------------------------------ Fetch *)
FUnch == <<calls, parentV, kval, waiterClosed, errSet, stopClosed, tasksClosed, wpc, wkey, gpc, grec, gres, ggot, wait,
           waitRes, reads, panicked, stopCalled>>
\* f.l.Lock(); if f.err != nil return; register keys, blockers, waiter; f.txs[txID] = tx; f.l.Unlock()
FetchRegister ==
  /\ fpc = "idle" /\ nxt <= NC /\ wait = "no" /\ ~stopCalled
  /\ IF ferr # "nil"
       THEN /\ fres' = [fres EXCEPT ![nxt] = ferr] /\ nxt' = nxt + 1
            /\ UNCHANGED <<kst, kblocked, blockers, hasWaiter, txmap, fpc, fsend, ferr, tasksQ>>
       ELSE LET c == nxt
                fl == Flat(calls[c].keys)
                new == {k \in AllKeys : fl[k] > 0 /\ kst[k] = "absent"}
                \* occurrences that register as waiters: every occurrence of a key that is not cached yet
                nb(k) == IF fl[k] = 0 \/ kst[k] = "cached" THEN 0 ELSE fl[k]
                total == SumF([k \in AllKeys |-> nb(k)], AllKeys)
            IN
            /\ kst' = [k \in AllKeys |-> IF k \in new THEN "pending" ELSE kst[k]]
            /\ kblocked' = [k \in AllKeys |-> AppN(kblocked[k], c, nb(k))]
            /\ blockers' = [blockers EXCEPT ![c] = total]
            /\ hasWaiter' = [hasWaiter EXCEPT ![c] = total > 0]
            /\ txmap' = [txmap EXCEPT ![calls[c].tx] = c]
            /\ fsend' = new /\ fpc' = "sending"
            /\ UNCHANGED <<fres, nxt, ferr, tasksQ>>
  /\ UNCHANGED FUnch
\* for _, t := range tasks { select { case f.tasks <- t: ; case <-f.stop: return f.err } }; return nil
FetchSend ==
  /\ fpc = "sending"
  /\ \/ /\ fsend = {}
        /\ fres' = [fres EXCEPT ![nxt] = "ok"] /\ nxt' = nxt + 1 /\ fpc' = "idle"
        /\ UNCHANGED <<tasksQ, fsend>>
     \/ /\ fsend # {} /\ Len(tasksQ) < TxCap
        /\ \E k \in fsend : tasksQ' = Append(tasksQ, k) /\ fsend' = fsend \ {k}
        /\ UNCHANGED <<fres, nxt, fpc>>
     \/ /\ fsend # {} /\ stopClosed
        /\ fres' = [fres EXCEPT ![nxt] = ferr] /\ nxt' = nxt + 1 /\ fpc' = "idle" /\ fsend' = {}
        /\ UNCHANGED tasksQ
  /\ UNCHANGED <<FUnch, kst, kblocked, blockers, hasWaiter, txmap, ferr>>

(* ---------------------------------------------------------------- workers *)
WUnch == <<calls, parentV, hasWaiter, txmap, tasksClosed, fpc, nxt, fsend, fres, gpc, grec, gres, ggot, wait, waitRes,
           stopCalled>>
WRecv(w) ==
  /\ wpc[w] = "sel"
  /\ \/ /\ tasksQ # <<>> /\ wkey' = [wkey EXCEPT ![w] = Head(tasksQ)] /\ tasksQ' = Tail(tasksQ)
        /\ wpc' = [wpc EXCEPT ![w] = "read"]
     \/ /\ tasksQ = <<>> /\ tasksClosed /\ wpc' = [wpc EXCEPT ![w] = "exit"] /\ UNCHANGED <<wkey, tasksQ>>
     \/ /\ stopClosed /\ wpc' = [wpc EXCEPT ![w] = "exit"] /\ UNCHANGED <<wkey, tasksQ>>
  /\ UNCHANGED <<WUnch, kst, kval, kblocked, blockers, waiterClosed, ferr, errSet, stopClosed, reads, panicked>>
\* v, err := f.im.GetValue(ctx, key)
WRead(w) ==
  /\ wpc[w] = "read"
  /\ reads' = [reads EXCEPT ![wkey[w]] = @ + 1]
  /\ wpc' = [wpc EXCEPT ![w] = IF ParentOf(wkey[w]) = "err" THEN "fail" ELSE "set"]
  /\ UNCHANGED <<WUnch, kst, kval, kblocked, blockers, waiterClosed, ferr, errSet, stopClosed, tasksQ, wkey, panicked>>
\* f.set(key, ...)
WSet(w) ==
  /\ wpc[w] = "set"
  /\ LET k == wkey[w]
         ents == kblocked[k]
         hits(r) == Cardinality({i \in DOMAIN ents : Rec(ents[i]) = r})
     IN
     /\ kst' = [kst EXCEPT ![k] = "cached"] /\ kval' = [kval EXCEPT ![k] = ParentOf(k)]
     /\ blockers' = [r \in Calls |-> blockers[r] - hits(r)]
     \* for each entry: tx.blockers--; if tx.blockers == 0 { close(tx.waiter) }  (the count passes zero at most once)
     /\ waiterClosed' = [r \in Calls |-> waiterClosed[r] \/ (blockers[r] >= 1 /\ blockers[r] <= hits(r))]
     /\ UNCHANGED panicked
     /\ kblocked' = [kblocked EXCEPT ![k] = <<>>]
  /\ wpc' = [wpc EXCEPT ![w] = "sel"]
  /\ UNCHANGED <<WUnch, ferr, errSet, stopClosed, tasksQ, wkey, reads>>
\* f.handleErr(err); return
WHandleErr(w) ==
  /\ wpc[w] = "fail"
  /\ IF errSet THEN UNCHANGED <<ferr, errSet, stopClosed>>
               ELSE ferr' = "err" /\ errSet' = TRUE /\ stopClosed' = TRUE
  /\ wpc' = [wpc EXCEPT ![w] = "exit"]
  /\ UNCHANGED <<WUnch, kst, kval, kblocked, blockers, waiterClosed, tasksQ, wkey, reads, panicked>>

(* -------------------------------------------------------------------- Get *)
GUnch == <<calls, parentV, kst, kval, kblocked, blockers, hasWaiter, waiterClosed, txmap, ferr, errSet, stopClosed,
           tasksQ, tasksClosed, fpc, nxt, fsend, fres, wpc, wkey, wait, waitRes, reads, panicked, stopCalled>>
GetLookup(c) ==
  /\ gpc[c] = "none" /\ fres[c] = "ok"
  /\ grec' = [grec EXCEPT ![c] = txmap[calls[c].tx]]
  /\ gpc' = [gpc EXCEPT ![c] = "waiting"]
  /\ UNCHANGED <<GUnch, gres, ggot>>
GetWake(c) ==
  /\ gpc[c] = "waiting"
  /\ LET r == grec[c] IN
     \/ /\ ~hasWaiter[r] \/ waiterClosed[r]
        /\ gres' = [gres EXCEPT ![c] = "ok"]
        /\ ggot' = [ggot EXCEPT ![c] = {<<k, kval[k]>> : k \in {x \in calls[r].keys : kst[x] = "cached" /\ kval[x] # "absent"}}]
     \/ /\ hasWaiter[r] /\ stopClosed
        /\ gres' = [gres EXCEPT ![c] = ferr] /\ UNCHANGED ggot
  /\ gpc' = [gpc EXCEPT ![c] = "done"]
  /\ UNCHANGED <<GUnch, grec>>

(* ------------------------------------------------------------ Stop / Wait *)
SUnch == <<calls, parentV, kst, kval, kblocked, blockers, hasWaiter, waiterClosed, txmap, tasksQ, fpc, nxt, fsend, fres,
           wpc, wkey, gpc, grec, gres, ggot, reads, panicked>>
Stop ==
  /\ ~stopCalled /\ wait # "ret" /\ stopCalled' = TRUE
  /\ IF errSet THEN UNCHANGED <<ferr, errSet, stopClosed>>
               ELSE ferr' = "stopped" /\ errSet' = TRUE /\ stopClosed' = TRUE
  /\ UNCHANGED <<SUnch, tasksClosed, wait, waitRes>>
WaitClose ==
  /\ wait = "no" /\ fpc = "idle" /\ tasksClosed' = TRUE /\ wait' = "waiting"
  /\ UNCHANGED <<SUnch, ferr, errSet, stopClosed, waitRes, stopCalled>>
WaitRet ==
  /\ wait = "waiting" /\ \A w \in Wk : wpc[w] = "exit"
  /\ errSet' = TRUE /\ waitRes' = ferr /\ wait' = "ret"
  /\ UNCHANGED <<SUnch, ferr, stopClosed, tasksClosed, stopCalled>>

Terminating == wait = "ret" /\ (\A c \in Calls : gpc[c] \in {"none", "done"} /\ (gpc[c] = "none" => fres[c] # "ok"))
               /\ UNCHANGED vars

CallerStep    == FetchRegister \/ FetchSend
WorkerStep(w) == WRecv(w) \/ WRead(w) \/ WSet(w) \/ WHandleErr(w)
GetStep(c)    == GetLookup(c) \/ GetWake(c)
Next == CallerStep \/ (\E w \in Wk : WorkerStep(w)) \/ (\E c \in Calls : GetStep(c)) \/ Stop \/ WaitClose \/ WaitRet
        \/ Terminating
Fairness == /\ WF_vars(CallerStep) /\ WF_vars(WaitClose) /\ WF_vars(WaitRet)
            /\ \A w \in Wk : WF_vars(WorkerStep(w))
            /\ \A c \in Calls : WF_vars(GetStep(c))
Spec == Init /\ [][Next]_vars /\ Fairness

(* ------------------------------------------------------------- properties *)
Registered == {c \in Calls : c < nxt \/ (c = nxt /\ fpc = "sending")}
Declared   == UNION {calls[c].keys : c \in Registered}
TypeOK == Len(tasksQ) <= TxCap /\ \A k \in AllKeys : reads[k] \in 0..NC
\* only declared keys are read from the parent
ReadsSubsetOfDeclared == \A k \in AllKeys : reads[k] > 0 => k \in Declared
\* every key is read at most once (deduplication; not part of the property statement)
EachKeyReadAtMostOnce == \A k \in AllKeys : reads[k] <= 1
\* a successful Get returns exactly the parent's values of the call's declared keys
GetReturnsParentValues ==
  \A c \in Calls : gres[c] = "ok" =>
     /\ \A k \in calls[c].keys : parentV[k] # "err"
     /\ ggot[c] = {<<k, parentV[k]>> : k \in {x \in calls[c].keys : parentV[x] # "absent"}}
\* errors have a cause and a failed read is reported
ErrorPropagates ==
  /\ \A c \in Calls : gres[c] = "err" => \E k \in Keys : parentV[k] = "err" /\ reads[k] > 0
  /\ \A c \in Calls : gres[c] = "stopped" => stopCalled
  /\ waitRes = "nil" => ~\E k \in Keys : parentV[k] = "err" /\ reads[k] > 0
  /\ waitRes = "stopped" => stopCalled
\* liveness: every Get returns, Wait returns ("instead of hanging")
GetsReturn  == \A c \in Calls : (gpc[c] = "waiting") ~> (gpc[c] = "done")
WaitReturns == <>(wait = "ret")
=============================================================================
