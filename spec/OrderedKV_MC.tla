----------------------------- MODULE OrderedKV_MC ---------------------------
EXTENDS OrderedKV
(* every byte string of length 1..3 over 0..Top *)
All3 == UNION {[1..n -> 0..Top] : n \in 1..3}
MCKeys == {<<0>>, <<1>>, <<1, 2>>, <<2>>}
Lemma == (res = res) => BoundsLemma(All3)      \* mentions a variable so that TLC reports it as an ordinary invariant
=============================================================================
