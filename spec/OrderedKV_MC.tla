----------------------------- MODULE OrderedKV_MC ---------------------------
EXTENDS OrderedKV
(* every byte string of length 1..3 over 0..Top *)
All3 == UNION {[1..n -> 0..Top] : n \in 1..3}
MCKeys == {<<0>>, <<1>>, <<1, 2>>, <<2>>}
Lemma == res = "checked" => BoundsLemma(All3)      \* evaluated in the second state of LemmaSpec
(* the lemma is about constants only: checked on the two-state behaviour of LemmaSpec *)
LemmaSpec == Init /\ [][res = "init" /\ res' = "checked" /\ UNCHANGED <<db, batch>>]_vars
=============================================================================
