------------------------------ MODULE Mempool ------------------------------
(* Sequential model of internal/mempool/mempool.go (property C23), one action *)
(* per public call (= one critical section under m.mu), Top included.         *)
(*                                                                            *)
(* Shaped like the code: owned[sponsor] and pendingSize are maintained        *)
(* incrementally exactly as add / popNext / Remove / SetMinTimestamp do,      *)
(* add() skips streamed and held items and refuses only at a limit,           *)
(* streamedItems / nextStream / nextStreamFetched follow StartStreaming /     *)
(* PrepareStream / Stream / FinishStreaming.  The expiry heap is represented  *)
(* by the set it denotes (C25 ties internal/eheap to that set).               *)
(*                                                                            *)
(* Two deliberate abstractions, so that the model states the *property* and   *)
(* not today's list manipulation: (1) which candidates of one add are refused *)
(* when a limit is reached is left open (see Accepts); (2) the linked list is *)
(* split into                                                                 *)
(*   rest : the SET of items given back after a build (PushFront)             *)
(*   fifo : the SEQUENCE of items in arrival order (PushBack)                 *)
(* The statement says restored items are handed out first but fixes no order  *)
(* among them; the next item handed out is any member of rest, else           *)
(* Head(fifo).  (The code hands restored items out in reverse restore order.) *)
EXTENDS Integers, Sequences, FiniteSets

CONSTANTS Items,        \* item id universe
          Sponsors,     \* sponsor universe
          MaxSizes,     \* limits explored by bounded configs
          MaxSponsors,
          Attrs         \* set of attribute assignments [Items -> [sp, sz, ex]] explored by bounded configs

VARIABLES maxSize, maxSponsor,   \* limits (fixed after init)
          attr,                  \* [Items -> [sp : Sponsors, sz : Nat, ex : Nat]] (fixed after init)
          rest, fifo,            \* the queue (see above)
          owned,                 \* [Sponsors -> Nat]     m.owned (0 = key absent)
          psize,                 \* m.pendingSize
          streaming,             \* BOOLEAN               streamLock held / streamedItems # nil
          streamed,              \* SUBSET Items          m.streamedItems
          nextR, nextF,          \* m.nextStream as (restored part, arrival-ordered part)
          fetched,               \* m.nextStreamFetched
          res                    \* result of the last call

cvars == <<maxSize, maxSponsor, attr>>
mvars == <<maxSize, maxSponsor, attr, rest, fifo, owned, psize, streaming, streamed, nextR, nextF, fetched, res>>

SeqSet(q)   == {q[k] : k \in DOMAIN q}
Held        == rest \cup SeqSet(fifo)
Count       == Cardinality(rest) + Len(fifo)
Min2(a, b)  == IF a < b THEN a ELSE b
RECURSIVE SumSz(_)
SumSz(S)    == IF S = {} THEN 0 ELSE LET x == CHOOSE y \in S : TRUE IN attr[x].sz + SumSz(S \ {x})
Without(q, S) == SelectSeq(q, LAMBDA x : x \notin S)

R(ok, set, seq) == [ok |-> ok, R |-> set, F |-> seq]
NoRes == R(TRUE, {}, <<>>)

InitWith(ms, msp, a) ==
  /\ maxSize = ms /\ maxSponsor = msp /\ attr = a
  /\ rest = {} /\ fifo = <<>> /\ owned = [s \in Sponsors |-> 0] /\ psize = 0
  /\ streaming = FALSE /\ streamed = {} /\ nextR = {} /\ nextF = <<>> /\ fetched = FALSE
  /\ res = NoRes

Init == \E ms \in MaxSizes, msp \in MaxSponsors, a \in Attrs : InitWith(ms, msp, a)

(* ---- the pool part of the state as a record, so that loops can be folded ---- *)
Pool == [rest |-> rest, fifo |-> fifo, owned |-> owned, psize |-> psize]

(* Mempool.add.  An item is a candidate unless it is blocked (in streamedItems) or already held; a candidate is   *)
(* refused only at a limit (owned[sponsor] = maxSponsorSize or queue size = maxSize).  The code walks the list in *)
(* order, so which candidates are refused when a limit is reached depends on that order; the statement does not  *)
(* say, so the model admits every outcome S in which each refused candidate is refused by a limit that is        *)
(* reached in the resulting pool (= the outcomes of all processing orders; the pool only grows during an add).   *)
SpCount(H, s) == Cardinality({i \in H : attr[i].sp = s})
Cand(items, blocked) == {i \in SeqSet(items) : i \notin blocked /\ i \notin Held}
AcceptsIn(H, C, S) ==           \* H = ids in the pool the candidates C are added to
  /\ S \subseteq C
  /\ Cardinality(H \cup S) <= maxSize
  /\ \A s \in Sponsors : SpCount(H \cup S, s) <= maxSponsor
  /\ \A d \in C \ S : Cardinality(H \cup S) = maxSize \/ SpCount(H \cup S, attr[d].sp) = maxSponsor
Accepts(C, S) == AcceptsIn(Held, C, S)

Put(p, i, front) ==      \* PushBack / PushFront + eh.Add + owned++ + pendingSize += Size
  [rest  |-> IF front THEN p.rest \cup {i} ELSE p.rest,
   fifo  |-> IF front THEN p.fifo ELSE Append(p.fifo, i),
   owned |-> [p.owned EXCEPT ![attr[i].sp] = @ + 1],
   psize |-> p.psize + attr[i].sz]

RECURSIVE PutSeq(_, _, _, _)       \* the members of S, in list order, first occurrence only
PutSeq(p, items, S, front) ==
  IF items = <<>> THEN p
  ELSE IF Head(items) \in S THEN PutSeq(Put(p, Head(items), front), Tail(items), S \ {Head(items)}, front)
  ELSE PutSeq(p, Tail(items), S, front)

RECURSIVE PutSet(_, _)
PutSet(p, S) == IF S = {} THEN p ELSE LET i == CHOOSE x \in S : TRUE IN PutSet(Put(p, i, TRUE), S \ {i})

(* removal of a set of held items: queue.Remove + removeFromOwned + pendingSize -= Size *)
RECURSIVE Drop(_, _)
Drop(p, S) ==
  IF S = {} THEN p
  ELSE LET i == CHOOSE x \in S : TRUE IN
       Drop([rest  |-> p.rest \ {i},
             fifo  |-> Without(p.fifo, {i}),
             owned |-> [p.owned EXCEPT ![attr[i].sp] = @ - 1],
             psize |-> p.psize - attr[i].sz], S \ {i})

SetPool(p) == rest' = p.rest /\ fifo' = p.fifo /\ owned' = p.owned /\ psize' = p.psize
StreamUnch == UNCHANGED <<streaming, streamed, nextR, nextF, fetched>>

(* a batch handed out by k consecutive popNext calls: restored items first (RS, any order), then a fifo prefix *)
TakeR(k)      == Min2(k, Cardinality(rest))
TakeF(k)      == Min2(k - TakeR(k), Len(fifo))
Batch(k, RS)  == RS \subseteq rest /\ Cardinality(RS) = TakeR(k)
BatchF(k)     == SubSeq(fifo, 1, TakeF(k))

(* ---- public calls ---- *)
Add(items, S) ==                     \* Mempool.Add (back); S = the items that get in
  /\ Accepts(Cand(items, IF streaming THEN streamed ELSE {}), S)
  /\ SetPool(PutSeq(Pool, items, S, FALSE))
  /\ res' = NoRes /\ StreamUnch /\ UNCHANGED cvars

Remove(items) ==                     \* Mempool.Remove: unknown ids are skipped
  /\ SetPool(Drop(Pool, SeqSet(items) \cap Held))
  /\ res' = NoRes /\ StreamUnch /\ UNCHANGED cvars

SetMin(t) ==                         \* Mempool.SetMinTimestamp
  LET gone == {i \in Held : attr[i].ex < t} IN
  /\ SetPool(Drop(Pool, gone))
  /\ res' = R(TRUE, gone, <<>>) /\ StreamUnch /\ UNCHANGED cvars

PopNext(RS) ==                       \* Mempool.PopNext; RS = the restored item chosen ({} when none is pending)
  /\ Batch(1, RS)
  /\ LET F == BatchF(1) IN
     /\ SetPool(Drop(Pool, RS \cup SeqSet(F)))
     /\ res' = R(RS \cup SeqSet(F) # {}, RS, F)
  /\ StreamUnch /\ UNCHANGED cvars

Has(i) == res' = R(i \in Held, {}, <<>>) /\ UNCHANGED <<cvars, rest, fifo, owned, psize>> /\ StreamUnch

StartStreaming ==
  /\ ~streaming                      \* a second StartStreaming would block on streamLock (no liveness in C23)
  /\ streaming' = TRUE /\ streamed' = {}
  /\ res' = NoRes /\ UNCHANGED <<cvars, rest, fifo, owned, psize, nextR, nextF, fetched>>

PrepareStream(k, RS) ==              \* nextStream = streamItems(k); nextStreamFetched = true
  /\ streaming /\ ~fetched           \* intended use: one PrepareStream per Stream (chain/builder.go)
  /\ Batch(k, RS)
  /\ LET F == BatchF(k) IN
     /\ SetPool(Drop(Pool, RS \cup SeqSet(F)))
     /\ nextR' = RS /\ nextF' = F /\ fetched' = TRUE
     /\ streamed' = streamed \cup RS \cup SeqSet(F)
  /\ res' = NoRes /\ UNCHANGED <<cvars, streaming>>

Stream(k, RS) ==                     \* Mempool.Stream
  /\ streaming
  /\ IF fetched
     THEN /\ RS = nextR
          /\ res' = R(TRUE, nextR, nextF)
          /\ nextR' = {} /\ nextF' = <<>> /\ fetched' = FALSE
          /\ UNCHANGED <<rest, fifo, owned, psize, streamed>>
     ELSE /\ Batch(k, RS)
          /\ LET F == BatchF(k) IN
             /\ SetPool(Drop(Pool, RS \cup SeqSet(F)))
             /\ streamed' = streamed \cup RS \cup SeqSet(F)
             /\ res' = R(TRUE, RS, F)
          /\ UNCHANGED <<nextR, nextF, fetched>>
  /\ UNCHANGED <<cvars, streaming>>

FinishStreaming(restorable, S) ==    \* streamedItems = nil; add(restorable, front); add(nextStream, front)
  /\ streaming
  /\ LET given == SeqSet(restorable) \cup (IF fetched THEN nextR \cup SeqSet(nextF) ELSE {})
     IN /\ Accepts(given \ Held, S)            \* nothing is blocked any more; the prepared batch goes back too
        /\ SetPool(PutSet(Pool, S))
  /\ streaming' = FALSE /\ streamed' = {} /\ nextR' = {} /\ nextF' = <<>> /\ fetched' = FALSE
  /\ res' = NoRes /\ UNCHANGED cvars

(* Mempool.Top(visitor): one critical section.  Items are popped one after the other - each the next item to   *)
(* hand out of the pool as it then is - and shown to the visitor, which answers (continue?, give back?); the     *)
(* loop ends when the visitor says stop or the pool is empty; afterwards the items to give back are re-added at  *)
(* the front (add(restorable, true): refused only at a limit, blocked while in streamedItems).                   *)
(*   visits : Seq([i : Items, restore : BOOLEAN]) in visiting order    stopped : the last visit answered "stop"  *)
(*   S      : the given-back items that get in                                                                    *)
PoolIds(p)      == p.rest \cup SeqSet(p.fifo)
NextOf(p, i)    == IF p.rest # {} THEN i \in p.rest ELSE IF p.fifo = <<>> THEN FALSE ELSE i = Head(p.fifo)
RECURSIVE HandOutOK(_, _)
HandOutOK(p, out) == IF out = <<>> THEN TRUE ELSE NextOf(p, Head(out)) /\ HandOutOK(Drop(p, {Head(out)}), Tail(out))
RECURSIVE PopAll(_, _)
PopAll(p, out)  == IF out = <<>> THEN p ELSE PopAll(Drop(p, {Head(out)}), Tail(out))

RECURSIVE VisitIds(_)
VisitIds(v) == IF v = <<>> THEN <<>> ELSE <<Head(v).i>> \o VisitIds(Tail(v))

Top(visits, stopped, S) ==
  LET out  == VisitIds(visits)
      p1   == PopAll(Pool, out)
      back == {visits[k].i : k \in {m \in DOMAIN visits : visits[m].restore}}
  IN /\ HandOutOK(Pool, out)                               \* in particular no item is visited twice in one pass
     /\ stopped => visits # <<>>
     /\ ~stopped => PoolIds(p1) = {}                       \* not stopped: ran until the pool was empty
     /\ AcceptsIn(PoolIds(p1), (back \ (IF streaming THEN streamed ELSE {})) \ PoolIds(p1), S)
     /\ SetPool(PutSet(p1, S))
     /\ res' = R(TRUE, {}, out) /\ StreamUnch /\ UNCHANGED cvars

(* ---- the statement ---- *)
TypeOK ==
  /\ rest \subseteq Items /\ fifo \in Seq(Items) /\ streamed \subseteq Items
  /\ psize \in Nat /\ owned \in [Sponsors -> Nat]
UniqueIDs    == /\ \A k, m \in DOMAIN fifo : fifo[k] = fifo[m] => k = m
                /\ rest \cap SeqSet(fifo) = {}
WithinLimits == /\ Count <= maxSize
                /\ \A s \in Sponsors : Cardinality({i \in Held : attr[i].sp = s}) <= maxSponsor
SizeIsSum    == psize = SumSz(Held)
OwnedIsCount == \A s \in Sponsors : owned[s] = Cardinality({i \in Held : attr[i].sp = s})
(* items handed out during a stream are not in the pool (cannot be re-added) until the stream finishes;   *)
(* together with hand-outs coming only from the pool this gives "no item handed out twice in one stream" *)
StreamedNotReaddable == streaming => streamed \cap Held = {}
PreparedAreStreamed  == /\ nextR \cup SeqSet(nextF) \subseteq streamed
                        /\ ~fetched => nextR = {} /\ nextF = <<>>
NotStreamingClean    == ~streaming => streamed = {} /\ ~fetched

(* expiry removes exactly the items whose expiry is below the given time (stated on SetMin's result) *)
ExpiryExact(t) == res'.R = {i \in Held : attr[i].ex < t}
                  /\ rest' \cup SeqSet(fifo') = Held \ res'.R
=============================================================================
