----------------------------- MODULE WsListeners ----------------------------
(* api/ws/server.go (extra module X07): transaction and block listeners of   *)
(* the websocket API.                                                        *)
(*  lst     txListeners: pairs <<client, tx>> waiting for an outcome         *)
(*  track   expiringTxs: transactions the expiry map still tracks            *)
(*  bsub    blockListeners;  open: clients whose connection is open          *)
(*  out[c]  messages delivered to client c so far, in order:                 *)
(*          <<"tx", t, "result">> | <<"tx", t, "expired">> | <<"block", h>>  *)
(* Monitor: owed - registrations <<c, t>> made while t was neither accepted  *)
(* nor expired and not yet answered.                                         *)
(* A transaction t expires when a block with timestamp > Expiry[t] is        *)
(* accepted (EMap.SetMin evicts expiry < timestamp).                         *)
EXTENDS Integers, Sequences, FiniteSets

CONSTANTS Clients, Txs, Expiry, MaxTime,
          Variant      \* "code" | "keep" (listeners are not deleted after the result was published)

VARIABLES lst, track, bsub, open, out, height, now, accepted, owed
vars == <<lst, track, bsub, open, out, height, now, accepted, owed>>

Init == /\ lst = {} /\ track = {} /\ bsub = {} /\ open = Clients /\ out = [c \in Clients |-> <<>>]
        /\ height = 0 /\ now = 0 /\ accepted = {} /\ owed = {}

(* TxMode message: AddTxListener (before Submit, whatever Submit answers) *)
RegisterTx(c, t) ==
  /\ c \in open
  /\ lst' = lst \cup {<<c, t>>} /\ track' = track \cup {t}
  /\ owed' = owed \cup {<<c, t>>}
  /\ UNCHANGED <<bsub, open, out, height, now, accepted>>
RegisterBlocks(c) == c \in open /\ bsub' = bsub \cup {c} /\ UNCHANGED <<lst, track, open, out, height, now, accepted, owed>>
Close(c) == c \in open /\ open' = open \ {c} /\ UNCHANGED <<lst, track, bsub, out, height, now, accepted, owed>>

(* AcceptBlock: block message to the block listeners (dead ones are dropped), results to the listeners of the
   block's transactions, then expiry notices for everything the expiry map evicts *)
Seq2(S) == CHOOSE s \in [1..Cardinality(S) -> S] : \A i, j \in DOMAIN s : i # j => s[i] # s[j]
RECURSIVE Deliver(_, _)
Deliver(o, ms) == IF ms = <<>> THEN o ELSE Deliver(Append(o, Head(ms)), Tail(ms))
Accept(B, ts) ==
  /\ ts > now /\ ts <= MaxTime /\ B \cap accepted = {} /\ \A t \in B : Expiry[t] >= ts
  /\ LET h == height + 1
         expired == {t \in track : Expiry[t] < ts}
         res(c) == {t \in B : <<c, t>> \in lst}
         lst1 == IF Variant = "keep" THEN lst ELSE {p \in lst : p[2] \notin B}
         exps(c) == {t \in expired : <<c, t>> \in lst1}
         msgs(c) == (IF c \in bsub THEN <<<<"block", h>>>> ELSE <<>>) \o
                    [i \in 1..Cardinality(res(c)) |-> <<"tx", Seq2(res(c))[i], "result">>] \o
                    [i \in 1..Cardinality(exps(c)) |-> <<"tx", Seq2(exps(c))[i], "expired">>]
     IN /\ out' = [c \in Clients |-> IF c \in open THEN Deliver(out[c], msgs(c)) ELSE out[c]]
        /\ lst' = {p \in lst1 : p[2] \notin expired}
        /\ track' = track \ expired
        /\ bsub' = bsub \cap open
        /\ owed' = {p \in owed : p[2] \notin B /\ p[2] \notin expired}
        /\ height' = h /\ now' = ts /\ accepted' = accepted \cup B
        /\ UNCHANGED open

Next == \/ \E c \in Clients, t \in Txs : RegisterTx(c, t)
        \/ \E c \in Clients : RegisterBlocks(c) \/ Close(c)
        \/ \E B \in SUBSET Txs, ts \in 1..MaxTime : Accept(B, ts)
Spec == Init /\ [][Next]_vars

(* ---------------- properties ---------------- *)
Count(o, m) == Cardinality({i \in DOMAIN o : o[i] = m})
TxMsgs(o, t) == Cardinality({i \in DOMAIN o : o[i][1] = "tx" /\ o[i][2] = t})

(* W1/W2  per accepted block: an open client gets exactly one message for every transaction it is owed an answer for
          and that the block contains (its result) or lets expire (an expiry notice), and no other transaction message *)
AcceptStep ==
  \A B \in SUBSET Txs, ts \in 1..MaxTime : Accept(B, ts) =>
    \A c \in open : \A t \in Txs :
      LET new == TxMsgs(out'[c], t) - TxMsgs(out[c], t)
          kind == IF t \in B THEN "result" ELSE "expired" IN
      IF <<c, t>> \in owed /\ (t \in B \/ (t \in track /\ Expiry[t] < ts))
      THEN new = 1 /\ Count(out'[c], <<"tx", t, kind>>) = Count(out[c], <<"tx", t, kind>>) + 1
      ELSE new = 0
AcceptOK == [][AcceptStep]_vars
(* W3  a block listener gets every accepted block once, in order *)
BlockStep ==
  \A B \in SUBSET Txs, ts \in 1..MaxTime : Accept(B, ts) =>
    \A c \in open : Count(out'[c], <<"block", height + 1>>) = (IF c \in bsub THEN 1 ELSE 0)
BlocksOK == [][BlockStep]_vars
(* nothing stays registered for an answered transaction: listeners are exactly the open obligations *)
NoLeak == lst = owed
=============================================================================
