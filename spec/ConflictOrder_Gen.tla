-------------------------- MODULE ConflictOrder_Gen --------------------------
(* Behaviour generator (mbt direction of C08): random walks of ConflictOrder *)
(* over a random key assignment.  The controllable part of a walk (order of  *)
(* Run calls, order in which closures return, Stop, Wait) is printed as a    *)
(* JSON script that the driver forces on the real executor.                  *)
EXTENDS ConflictOrder, TLC, Json, Sequences

CONSTANT Depth
VARIABLE hist
gvars == <<evars, hist>>
H(op, i, res) == hist' = Append(hist, [op |-> op, i |-> i, res |-> res])
Perms == {"n", "n", "r", "w"}

GInit == /\ \E p \in [TaskIds -> [KeyIds -> {"n", "r", "w"}]] :
              /\ \A t \in TaskIds : \E k \in KeyIds : p[t][k] # "n"
              /\ EInit(p, MaxN)
         /\ hist = <<>>
GNext ==
  /\ Len(hist) < Depth
  /\ \/ \E i \in TaskIds : RunCall(i) /\ H("run", i, "")
     \/ \E i \in TaskIds : Start(i) /\ UNCHANGED hist
     \/ \E i \in TaskIds : \E r \in {"ok", "ok", "ok", "fail"} : End(i, r) /\ H("gate", i, r)
     \/ Len(hist) >= 3 /\ StopCall /\ H("stop", 0, "")
     \/ StopRet /\ UNCHANGED hist
     \/ queued = 1..ntasks /\ WaitCall /\ H("wait", 0, "")
GSpec == GInit /\ [][GNext]_gvars
Emit  == (ENABLED GNext) \/ Len(hist) < 4
         \/ PrintT("BEHAVIOUR " \o ToJson([keys |-> perm, script |-> hist]))
=============================================================================
