-------------------------- MODULE ExpirySet_Trace --------------------------
(* Trace validation of executions recorded from the real internal/eheap      *)
(* ExpiryHeap (tz = TRUE) and internal/emap EMap (tz = FALSE) against the    *)
(* abstract ExpirySet (C25); the reset line names the instance.  One ndjson  *)
(* line per public call, logged at the call's return with its arguments, its *)
(* result and a projection read back through the public query API: "mem" =   *)
(* ids reported as members, "min" = expiry of the reported minimum, "n" =    *)
(* reported length (-2 where the structure has no such query).  Returned id  *)
(* lists are compared as sets plus a no-duplicates check (the statement      *)
(* fixes no order).                                                          *)
EXTENDS ExpirySet, TLC, Json, IOUtils, SequencesExt

VARIABLE l

Trace == ndJsonDeserialize(IOEnv.TRACE)
N     == Len(Trace)
tvars == <<esvars, l>>

SeqSet(q) == {q[k] : k \in DOMAIN q}
NoDup(q)  == Len(q) = Cardinality(SeqSet(q))
TZ(kind)  == kind = "eheap"
ZIds      == {"z0", "z1"}

Ev(e) == l <= N /\ Trace[l].ev = e /\ l' = l + 1
T     == Trace[l]

ProjOK ==
  /\ SeqSet(T.mem) = HeldIn(held') /\ NoDup(T.mem)
  /\ T.min = -2 \/ T.min = (IF HeldIn(held') = {} THEN NoExp
                            ELSE CHOOSE e \in {held'[i] : i \in HeldIn(held')} : \A j \in HeldIn(held') : e <= held'[j])
  /\ T.n = -2 \/ T.n = Cardinality(HeldIn(held'))

TraceInit ==
  /\ l = 2 /\ TLCSet(1, 1)
  /\ Trace[1].ev = "reset" /\ Trace[1].kind \in {"eheap", "emap"}
  /\ ESInit /\ tz = TZ(Trace[1].kind)

TReset   == Ev("reset") /\ T.kind \in {"eheap", "emap"} /\ tz' = TZ(T.kind) /\ held' = [i \in Ids |-> NoExp] /\ res' = R(TRUE, NoExp, {})
TAdd     == Ev("add")     /\ ESAdd(<<[i |-> T.i, e |-> T.e]>>) /\ ProjOK
TAddM    == Ev("addm")    /\ ESAdd(T.items) /\ ProjOK
TRemove  == Ev("remove")  /\ ESRemove(T.i) /\ T.ok = res'.ok /\ T.e = res'.e /\ ProjOK
(* EMap: the statement covers entries with non-zero expiry only; the driver adds expiry 0 only under the ids   *)
(* ZIds, never queries them, and their appearance in a returned list is masked here (unspecified either way). *)
TSetMin  == Ev("setmin")  /\ ESSetMin(T.t) /\ SeqSet(T.ids) \ ZIds = res'.ids /\ NoDup(T.ids) /\ ProjOK
TSetMinE == Ev("setmine") /\ ESSetMin(T.t) /\ SeqSet(T.ids) = res'.ids /\ NoDup(T.ids)      \* ExpiryHeap returns items:
            /\ \A k \in DOMAIN T.ids : T.exps[k] = held[T.ids[k]] /\ ProjOK                 \* their expiries are logged too
THas     == Ev("has")     /\ ESHas(T.i) /\ T.ok = res'.ok /\ ProjOK
TPeekMin == Ev("peekmin") /\ ESPeekMin /\ T.ok = res'.ok /\ T.e = res'.e
            /\ (res'.ok => T.i \in res'.ids) /\ ProjOK
TPopMin  == Ev("popmin")  /\ (IF T.ok THEN T.i \in Ids /\ ESPopMin(T.i) ELSE Held = {} /\ ESPopMin(CHOOSE i \in Ids : TRUE))
            /\ T.ok = res'.ok /\ T.e = res'.e /\ ProjOK
TLen     == Ev("len")     /\ ESLen /\ T.n = res'.e /\ ProjOK
(* EMap batch queries, stated over the set *)
HeldIdx(ids) == {k - 1 : k \in {m \in DOMAIN ids : ids[m] \in Held}}
TAny      == Ev("any") /\ UNCHANGED esvars /\ T.ok = (HeldIdx(T.ids) # {}) /\ ProjOK
TContains == Ev("contains") /\ UNCHANGED esvars /\ ProjOK
             /\ LET m == SeqSet(T.marker)  o == SeqSet(T.out)  h == HeldIdx(T.ids) IN
                IF T.stop THEN m \subseteq o /\ o \subseteq m \cup h /\ ((h \ m) # {} => o # m)
                ELSE o = m \cup h

TraceNext == TReset \/ TAdd \/ TAddM \/ TRemove \/ TSetMin \/ TSetMinE \/ THas \/ TPeekMin \/ TPopMin \/ TLen
             \/ TAny \/ TContains
TraceSpec == TraceInit /\ [][TraceNext]_tvars

HWM      == TLCSet(1, IF TLCGet(1) > l - 1 THEN TLCGet(1) ELSE l - 1)
Accepted == PrintT(<<"TRACE_HWM", TLCGet(1)>>) /\ TLCGet(1) = N
=============================================================================
