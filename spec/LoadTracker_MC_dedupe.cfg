SPECIFICATION Spec
CONSTANTS
  Txs = {1, 2, 3}
  MaxCalls = 6
  Variant = "dedupe"
INVARIANTS CountsCalls MetricsAgree OutstandingExact
PROPERTIES Monotone
CHECK_DEADLOCK FALSE
