SPECIFICATION TraceSpec
CONSTANTS
  Variant = "code"
CONSTRAINT HWM
INVARIANTS DiagEmpty
POSTCONDITION Accepted
CHECK_DEADLOCK FALSE
