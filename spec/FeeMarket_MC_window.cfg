SPECIFICATION WindowSpec
CONSTANTS
  MAXU = 15
  W = 3
  Denoms = {1}
  Mins = {0}
  Sinces = {0, 1, 2, 3, 4, 6, 15}
INVARIANTS WindowInWord WindowShift TotalIsCappedSum TotalMonotone
CHECK_DEADLOCK FALSE
