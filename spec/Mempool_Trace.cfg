SPECIFICATION TraceSpec
CONSTANTS
  Items = {"t0", "t1", "t2", "t3", "t4", "t5", "t6", "t7"}
  Sponsors = {"A", "B", "C"}
  MaxSizes = {0}
  MaxSponsors = {0}
  Attrs = {}
CONSTRAINT HWM
INVARIANTS TypeOK UniqueIDs WithinLimits SizeIsSum OwnedIsCount StreamedNotReaddable PreparedAreStreamed NotStreamingClean
POSTCONDITION Accepted
CHECK_DEADLOCK FALSE
