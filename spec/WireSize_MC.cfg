SPECIFICATION Spec
CONSTANTS
  MaxActions = 16
  SizeClasses <- SC5
  Mode = "size"
  Original = FALSE
  MaxPerBigClass = 16
  ManyBases = TRUE
INVARIANTS EstimateCoversSize
CHECK_DEADLOCK FALSE
