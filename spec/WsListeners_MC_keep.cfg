SPECIFICATION Spec
CONSTANTS
  Clients = {"c1", "c2"}
  Txs = {1, 2}
  Expiry <- MCExpiry
  MaxTime = 2
  Variant = "keep"
INVARIANTS NoLeak
PROPERTIES AcceptOK BlocksOK
CHECK_DEADLOCK FALSE
