---------------------------- MODULE SyncRequests ----------------------------
(* internal/typedclient (extra module X10): TypedClient.AppRequest and       *)
(* SyncTypedClient.SyncAppRequest - typed request / response over the p2p    *)
(* client, turned into a blocking call.                                      *)
(* A request r has a scripted fate: send[r] in {"ok","marshal","send"}       *)
(* (the request cannot be marshalled / the network layer refuses it).  While *)
(* it is in flight the environment may deliver its response (kind "ok",      *)
(* "peer" = the peer answered with an error, "garbage" = bytes that do not   *)
(* unmarshal), deliver it a second time, or cancel the caller's context.     *)
(*  state[r]   "new" | "waiting" | "returned"                                *)
(*  result[r]  what SyncAppRequest returned: <<"resp", r'>> (the response to *)
(*             request r'), <<"err", kind>>                                  *)
(*  sent       requests handed to the network layer                          *)
EXTENDS Integers, FiniteSets, Sequences

CONSTANTS Reqs, Send0,
          Variant      \* "code" | "oldest" (a response is handed to the oldest waiting call instead of its own)

VARIABLES sendv,     \* the scripted fates (never changes; a variable so that SyncRequests_Trace can load a scenario)
          state, result, sent, order
vars == <<sendv, state, result, sent, order>>
Send == sendv

None == <<"none", 0>>
Init == sendv = Send0 /\ state = [r \in Reqs |-> "new"] /\ result = [r \in Reqs |-> None] /\ sent = {} /\ order = <<>>

Start(r) ==
  /\ state[r] = "new" /\ UNCHANGED sendv
  /\ IF Send[r] = "marshal" THEN state' = [state EXCEPT ![r] = "returned"] /\ result' = [result EXCEPT ![r] = <<"err", "marshal">>] /\ UNCHANGED <<sent, order>>
     ELSE IF Send[r] = "send" THEN state' = [state EXCEPT ![r] = "returned"] /\ result' = [result EXCEPT ![r] = <<"err", "send">>] /\ UNCHANGED <<sent, order>>
     ELSE state' = [state EXCEPT ![r] = "waiting"] /\ sent' = sent \cup {r} /\ order' = order \o <<r>> /\ UNCHANGED result

Waiting == {r \in Reqs : state[r] = "waiting"}
Oldest  == CHOOSE r \in Waiting : \A q \in Waiting : \E i, j \in DOMAIN order : order[i] = r /\ order[j] = q /\ i <= j

(* the network layer calls the callback registered for request r *)
Deliver(r, kind) ==
  /\ r \in sent
  /\ LET to == IF Variant = "oldest" /\ Waiting # {} THEN Oldest ELSE r
         val == IF kind = "ok" THEN <<"resp", r>> ELSE <<"err", kind>>
     IN IF state[to] = "waiting"
        THEN state' = [state EXCEPT ![to] = "returned"] /\ result' = [result EXCEPT ![to] = val]
        ELSE UNCHANGED <<state, result>>                     \* late or repeated callback: ignored
  /\ UNCHANGED <<sendv, sent, order>>

Cancel(r) ==
  /\ IF state[r] = "waiting"
     THEN state' = [state EXCEPT ![r] = "returned"] /\ result' = [result EXCEPT ![r] = <<"err", "ctx">>]
     ELSE UNCHANGED <<state, result>>
  /\ UNCHANGED <<sendv, sent, order>>

Next == \E r \in Reqs : Start(r) \/ Cancel(r) \/ \E k \in {"ok", "peer", "garbage"} : Deliver(r, k)
Spec == Init /\ [][Next]_vars

(* ---------------- properties ---------------- *)
(* R1  correlation: a call only ever returns the response to its own request *)
OwnResponse == \A r \in Reqs : result[r][1] = "resp" => result[r][2] = r
(* R2  a request that cannot be marshalled or sent fails at once and is never handed to the network; the others are *)
SendRule == /\ \A r \in Reqs : Send[r] # "ok" => r \notin sent
            /\ \A r \in Reqs : (Send[r] = "ok" /\ state[r] # "new") => r \in sent
            /\ \A r \in Reqs : result[r] \in {<<"err", "marshal">>, <<"err", "send">>} => result[r][2] = Send[r]
(* R3  a returned call never changes its mind: late responses, repeated responses and cancellations are ignored *)
Final == [][\A r \in Reqs : state[r] = "returned" => (state'[r] = "returned" /\ result'[r] = result[r])]_vars
(* R4  a waiting call returns exactly at the first of: its response, its cancellation *)
Returns == [][\A r \in Reqs :
               /\ (state[r] = "waiting" /\ Cancel(r)) => result'[r] = <<"err", "ctx">>
               /\ \A k \in {"ok", "peer", "garbage"} : (state[r] = "waiting" /\ Deliver(r, k)) =>
                     result'[r] = (IF k = "ok" THEN <<"resp", r>> ELSE <<"err", k>>)
               /\ \A q \in Reqs \ {r} : (Cancel(q) \/ \E k \in {"ok", "peer", "garbage"} : Deliver(q, k)) => result'[r] = result[r]]_vars
=============================================================================
