SPECIFICATION TraceSpec
CONSTANTS
  Keys = {}
  Vals <- TVals
  Top = 255
  MaxBatch = 0
  Variant = "code"
CONSTRAINT HWM
INVARIANTS DiagEmpty
POSTCONDITION Accepted
CHECK_DEADLOCK FALSE
