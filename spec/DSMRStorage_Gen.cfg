SPECIFICATION GSpec
CONSTANTS
  Chunks = {"c1", "c2", "c3"}
  Producers = {"p1", "p2"}
  MaxT = 5
  MaxE = 4
  Original = FALSE
  TwoWrites = FALSE
  Depth = 12
INVARIANT Emit
CHECK_DEADLOCK FALSE
