---------------------------- MODULE BondLedger ----------------------------
(* C38 - abstract ledger of fee bonds (the property side).                 *)
(*                                                                         *)
(* A transaction is either bonded-and-unsettled ("open", with the fee it   *)
(* was bonded at) or not.  A build may bond transactions; an accepted      *)
(* block with timestamp ts settles every open transaction whose expiry is  *)
(* before ts and every open transaction it includes.  What a correct       *)
(* bonder must show as a sponsor's pending balance is Due(s): the sum of   *)
(* the fees of that sponsor's open transactions (set semantics - bonding   *)
(* an already open transaction again neither adds a second fee nor changes *)
(* the first one).                                                         *)
(*                                                                         *)
(* The ledger is driven by the bonder's *observed* decisions (oks): a      *)
(* refusal is always allowed (the statement promises no bond), an          *)
(* acceptance of a fresh transaction must fit under the sponsor's maximum  *)
(* (otherwise `over` is raised and WithinMax fails).                       *)
EXTENDS Integers, Sequences, FiniteSets, FiniteSetsExt

CONSTANTS Sponsors, Txs

VARIABLES
  info,   \* [Txs -> [sp : Sponsors, size : Nat, exp : Nat]]   fixed per scenario
  max,    \* [Sponsors -> Nat]   maximum bond balance kept in chain state (SetMaxBalance)
  open,   \* [Txs -> Int]        fee of the open bond of the transaction, -1 = not bonded / settled
  over    \* BOOLEAN             some accepted bond pushed the pending balance above the maximum

lvars == <<info, max, open, over>>

DueOf(o, s) == FoldSet(LAMBDA t, acc : acc + (IF info[t].sp = s /\ o[t] >= 0 THEN o[t] ELSE 0), 0, Txs)
Due(s)      == DueOf(open, s)

(* rate = -1 stands for a fee rate so large that size * rate overflows uint64 *)
Huge(t, rate) == rate < 0 /\ info[t].size > 0
FeeOf(t, rate) == IF rate < 0 THEN 0 ELSE info[t].size * rate

RECURSIVE LFold(_, _, _, _, _)
LFold(st, txs, oks, rate, i) ==
  IF i > Len(txs) THEN st
  ELSE LET t == txs[i]
           s == info[t].sp
       IN IF ~oks[i] \/ st.open[t] >= 0
            THEN LFold(st, txs, oks, rate, i + 1)            \* refused, or already bonded: nothing changes
            ELSE LET fee  == FeeOf(t, rate)
                     fits == ~Huge(t, rate) /\ DueOf(st.open, s) + fee <= max[s]
                 IN LFold([open |-> [st.open EXCEPT ![t] = fee], over |-> st.over \/ ~fits],
                          txs, oks, rate, i + 1)

LInit(i, m) ==
  /\ info = i
  /\ max = m
  /\ open = [t \in Txs |-> -1]
  /\ over = FALSE

(* a chunk build asked to bond txs (duplicates allowed) at fee rate `rate`; oks[i] is the bonder's answer for txs[i] *)
LBuild(txs, oks, rate) ==
  LET st == LFold([open |-> open, over |-> over], txs, oks, rate, 1)
  IN open' = st.open /\ over' = st.over /\ UNCHANGED <<info, max>>

(* an accepted block: everything that expired before ts and everything included is settled *)
LAccept(ts, incl) ==
  /\ open' = [t \in Txs |-> IF info[t].exp < ts \/ t \in incl THEN -1 ELSE open[t]]
  /\ UNCHANGED <<info, max, over>>

LSetMax(s, m) ==
  /\ max' = [max EXCEPT ![s] = m]
  /\ UNCHANGED <<info, open, over>>

-----------------------------------------------------------------------------
LTypeOK ==
  /\ open \in [Txs -> Int]
  /\ max \in [Sponsors -> Nat]
  /\ over \in BOOLEAN
  /\ \A t \in Txs : info[t].sp \in Sponsors /\ info[t].size \in Nat /\ info[t].exp \in Nat /\ open[t] >= -1

(* no accepted bond ever lifted a sponsor's pending balance above the maximum in force *)
WithinMax == ~over
=============================================================================
