--------------------------- MODULE Mempool_Trace ---------------------------
(* Trace validation of executions recorded from the real internal/mempool    *)
(* Mempool against Mempool.tla (C23).  One ndjson line per public call,      *)
(* logged at the call's return with its arguments, its result and a          *)
(* projection read back through the public API after the call:               *)
(*   mem  = ids for which Has reports true     len  = Len()                  *)
(*   size = Size()                             peek = PeekNext() or "none"   *)
(* The reset line carries the limits and the attributes of every item.       *)
(* Hand-out order is checked as the statement has it: restored items first   *)
(* (in any order), then arrival order.  Lists returned by expiry are         *)
(* compared as sets plus a no-duplicates check.  Top is one atomic call; a    *)
(* call overlapping it must take effect entirely before or after it (topc).  *)
EXTENDS Mempool, TLC, Json, IOUtils, SequencesExt

VARIABLES l,     \* next line of Trace to explain
          ph     \* "none", or which half of a topc line (Top overlapped by another call) has been applied: "top" / "conc"

Trace == ndJsonDeserialize(IOEnv.TRACE)
N     == Len(Trace)
tvars == <<mvars, l, ph>>

NoDup(q) == Len(q) = Cardinality(SeqSet(q))
Ev(e)    == l <= N /\ Trace[l].ev = e /\ l' = l + 1 /\ ph = "none" /\ ph' = "none"
T        == Trace[l]
AttrOf(rec) == [i \in Items |-> rec[i]]

HeldN == rest' \cup SeqSet(fifo')
ProjOK ==
  /\ SeqSet(T.mem) = HeldN /\ NoDup(T.mem)
  /\ T.len = Cardinality(rest') + Len(fifo')
  /\ T.size = psize'
  /\ IF rest' # {} THEN T.peek \in rest'
     ELSE IF fifo' # <<>> THEN T.peek = Head(fifo') ELSE T.peek = "none"

(* an observed hand-out list: its first |RS| entries are the restored part, the remainder the arrival-ordered part *)
OutOK(out) == /\ NoDup(out)
              /\ SeqSet(SubSeq(out, 1, Cardinality(res'.R))) = res'.R
              /\ SubSeq(out, Cardinality(res'.R) + 1, Len(out)) = res'.F

TraceInit ==
  /\ l = 2 /\ TLCSet(1, 1) /\ ph = "none"
  /\ Trace[1].ev = "reset"
  /\ InitWith(Trace[1].max, Trace[1].maxsp, AttrOf(Trace[1].items))

TReset   == Ev("reset")
            /\ maxSize' = T.max /\ maxSponsor' = T.maxsp /\ attr' = AttrOf(T.items)
            /\ rest' = {} /\ fifo' = <<>> /\ owned' = [s \in Sponsors |-> 0] /\ psize' = 0
            /\ streaming' = FALSE /\ streamed' = {} /\ nextR' = {} /\ nextF' = <<>> /\ fetched' = FALSE
            /\ res' = NoRes
(* which candidates got in is read off the membership projection *)
GotIn    == SeqSet(T.mem) \ Held
TAdd     == Ev("add")    /\ Add(T.ids, GotIn) /\ ProjOK
TRemove  == Ev("remove") /\ Remove(T.ids) /\ ProjOK
TSetMin  == Ev("setmin") /\ SetMin(T.t) /\ ExpiryExact(T.t) /\ SeqSet(T.out) = res'.R /\ NoDup(T.out) /\ ProjOK
TPop     == Ev("pop")    /\ (\E RS \in SUBSET ({T.i} \cap rest) : PopNext(RS))
            /\ T.ok = res'.ok /\ (T.ok => OutOK(<<T.i>>)) /\ ProjOK
THas     == Ev("has")    /\ Has(T.i) /\ T.ok = res'.ok /\ ProjOK
TStart   == Ev("start")  /\ StartStreaming /\ ProjOK
(* the prepared batch is not returned yet: its members are the items that left the pool (seen through mem) *)
TPrepare == Ev("prepare") /\ PrepareStream(T.k, (Held \ SeqSet(T.mem)) \cap rest) /\ ProjOK
TStream  == Ev("stream") /\ (\E n \in 0 .. Len(T.out) : Stream(T.k, SeqSet(SubSeq(T.out, 1, n))))
            /\ OutOK(T.out) /\ ProjOK
TFinish  == Ev("finish") /\ FinishStreaming(T.restore, GotIn) /\ ProjOK

(* ---- Top ---- *)
Back(v)  == {v[k].i : k \in {n \in DOMAIN v : v[n].restore}}
TTop     == Ev("top") /\ Top(T.visits, T.stopped, SeqSet(T.mem) \cap Back(T.visits)) /\ ProjOK

(* A topc line: while the visitor of Top was running, another goroutine called Add / Remove / SetMinTimestamp    *)
(* (T.conc).  Start and end of both calls are stamped by one atomic counter (T.seq).  The statement allows exactly *)
(* two explanations: the other call takes effect entirely after the whole Top, or - if it was issued before Top    *)
(* returned - entirely before it.                                                                                  *)
(* The line is applied in two half steps (ph); only the state after both halves is observed (ProjOK).             *)
Conc(c) == CASE c.op = "add"    -> \E S \in SUBSET SeqSet(c.ids) : Add(c.ids, S)
             [] c.op = "remove" -> Remove(c.ids)
             [] c.op = "setmin" -> SetMin(c.t) /\ ExpiryExact(c.t) /\ SeqSet(c.out) = res'.R /\ NoDup(c.out)
TopOf(x) == \E S \in SUBSET Back(x.visits) : Top(x.visits, x.stopped, S)
IsTopc   == l <= N /\ T.ev = "topc" /\ T.seq.topCall < T.seq.concCall
TTopcTop1  == IsTopc /\ ph = "none" /\ TopOf(T)  /\ ph' = "top"  /\ l' = l
TTopcConc2 == IsTopc /\ ph = "top"  /\ Conc(T.conc) /\ ProjOK /\ ph' = "none" /\ l' = l + 1
TTopcConc1 == IsTopc /\ ph = "none" /\ T.seq.concCall < T.seq.topRet /\ Conc(T.conc) /\ ph' = "conc" /\ l' = l
TTopcTop2  == IsTopc /\ ph = "conc" /\ TopOf(T)  /\ ProjOK /\ ph' = "none" /\ l' = l + 1

TraceNext == TTop \/ TTopcTop1 \/ TTopcConc2 \/ TTopcConc1 \/ TTopcTop2 \/ TReset \/ TAdd \/ TRemove \/ TSetMin \/ TPop \/ THas \/ TStart \/ TPrepare \/ TStream \/ TFinish
TraceSpec == TraceInit /\ [][TraceNext]_tvars

HWM      == TLCSet(1, IF TLCGet(1) > l - 1 THEN TLCGet(1) ELSE l - 1)
Accepted == PrintT(<<"TRACE_HWM", TLCGet(1)>>) /\ TLCGet(1) = N
=============================================================================
