SPECIFICATION TraceSpec
CONSTRAINT HWM
INVARIANT DiagEmpty NonNegative
POSTCONDITION Accepted
CHECK_DEADLOCK FALSE
