SPECIFICATION TraceSpec
CONSTANTS
  MAXU = 1073741823
  W = 10
CONSTRAINT HWM
POSTCONDITION Accepted
CHECK_DEADLOCK FALSE
