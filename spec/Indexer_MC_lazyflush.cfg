SPECIFICATION MCSpec
CONSTANTS
  Heights = {0, 1, 2, 3, 4, 5, 6}
  Windows = {1, 2, 3}
  FixedCode = TRUE
  FlushEvery = 4
INVARIANTS TypeOK ServesExactlyWindow RestartStable CrashDurable
CHECK_DEADLOCK FALSE
