SPECIFICATION Spec
CONSTANTS
  NW = 1
  NJ = 2
  NT = 1
  MaxJobs = 1
  Original = FALSE
  SubmitDuringStop = TRUE
INVARIANTS TypeOK AtMostOnce JobResultOK ShutdownRanNothing JobsSequential StopShutsDown NoPanic

CHECK_DEADLOCK TRUE
