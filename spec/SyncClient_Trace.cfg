SPECIFICATION TraceSpec
CONSTANTS
  NSyncers0 = 1
  MinBlocks0 = 0
  Heights <- THeights
  Fixed = TRUE
CONSTRAINT HWM
INVARIANTS DiagEmpty SkipRule MarkerCovers CleanFinish MustNeverSkips Order SuccessMeansComplete
POSTCONDITION Accepted
CHECK_DEADLOCK FALSE
