SPECIFICATION Spec
CONSTANTS
  Txs <- MCTxs
  Sponsor0 <- MCSponsor
  Defect0 <- MCDefect
  PoolMax0 = 3
  SponsorMax0 = 2
  Variant = "code"
INVARIANTS PoolExecutable NoReplay
PROPERTIES SubmitOK BuildOK
CHECK_DEADLOCK FALSE
