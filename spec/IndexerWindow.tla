--------------------------- MODULE IndexerWindow ---------------------------
(* C31 - what an indexer with block window w must answer (the property     *)
(* side).  Accepted blocks are notified with non-decreasing heights        *)
(* (consecutive, with gaps, or the latest one again); one block per        *)
(* height, so a block, its id and its transactions are identified by the   *)
(* height.  The most recent window is (last - w, last]: a height in it     *)
(* that was delivered is served (block by height, block by id, every       *)
(* transaction with its result and timestamp); anything older or never     *)
(* delivered is not.  A restart changes nothing.                           *)
EXTENDS Integers, FiniteSets

VARIABLES
  w,          \* block window (>= 1), fixed per scenario
  delivered,  \* set of heights notified so far
  last        \* height of the last notification, -1 before the first

wvars == <<w, delivered, last>>

WInit(win) == w = win /\ delivered = {} /\ last = -1

Served(h) == h \in delivered /\ h > last - w /\ h <= last
Latest    == last                       \* -1: nothing to report

WNotify(h) ==
  /\ h >= last
  /\ delivered' = delivered \cup {h}
  /\ last' = h
  /\ w' = w

WRestart == UNCHANGED wvars

(* answer encoding shared with the drivers: the height of the block an answer identifies, -1 for "nothing" *)
Ans(h) == IF Served(h) THEN h ELSE -1
=============================================================================
