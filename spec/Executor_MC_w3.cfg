SPECIFICATION Spec
CONSTANTS
  N = 3
  Keys = {k1}
  NW = 3
  MaxDeps = 3
  OriginalOffset = FALSE
  MaxFail = 2
  Shapes <- ShapesAll
INVARIANTS TypeOK NoOverlap QueueOrder AtMostOnce WaitOK
PROPERTIES WaitReturns

CHECK_DEADLOCK TRUE
