SPECIFICATION Spec
CONSTANTS
  Keys = {"a", "b"}
  NC = 2
  NW = 1
  TxCap = 2
  CallShapes <- ShapesAll
  Original = "dupid"
INVARIANTS TypeOK ReadsSubsetOfDeclared EachKeyReadAtMostOnce GetReturnsParentValues ErrorPropagates
PROPERTIES GetsReturn WaitReturns
CHECK_DEADLOCK TRUE
