------------------------------- MODULE Keys_MC -------------------------------
(* Design step for C40: the rules of Keys.tla over key lengths 0..4,       *)
(* boundary suffixes and value lengths at chunk boundaries up to and       *)
(* beyond the 16-bit chunk limit (64*65535 = 4194240 < 2^31).              *)
EXTENDS Keys, TLC

CONSTANTS KeyLens, Suffixes, Lens
VARIABLES k, n, m, fresh     \* key, value length, "maximum size" given to Encode; fresh: table not yet entered

Init == k = Key(0, 0, 0) /\ n = 0 /\ m = 0 /\ fresh = TRUE
Next == /\ fresh /\ fresh' = FALSE
        /\ \E len \in KeyLens, s \in Suffixes :
             k' = IF len < 2 THEN Key(len, 0, 0) ELSE Key(len, s \div 256, s % 256)
        /\ n' \in Lens /\ m' \in Lens
Spec == Init /\ [][Next]_<<k, n, m, fresh>>

SuffixIsBigEndian  == MaxChunks(k).ok => (MaxChunks(k).c \div 256 = k.hi /\ MaxChunks(k).c % 256 = k.lo)
NumChunksAdmissible == ChunkCountAdmissible(n, NumChunks(n).ok, NumChunks(n).c)
NumChunksMonotone  == n <= m => /\ (NumChunks(m).ok => NumChunks(n).ok)
                                /\ (NumChunks(m).ok => NumChunks(n).c <= NumChunks(m).c)
WriteRule          == InsertAllowed(k, n) <=> WriteAllowed(k, NumChunks(n).ok, NumChunks(n).c)
EncodeAdmitsUpToMax == LET e == Encode(k.len, m) IN
                       (e.ok /\ n <= m) => /\ VerifyValue(e.key, n)
                                           /\ e.key.len = k.len + SuffixLen
                                           /\ Suffix(e.key) = NumChunks(m).c
EncodeIsTight      == LET e == Encode(k.len, m) IN
                       (e.ok /\ NumChunks(n).ok /\ NumChunks(n).c > NumChunks(m).c) => ~VerifyValue(e.key, n)
EncodeFailsOnlyBeyondLimit == ~Encode(k.len, m).ok <=> m \div ChunkSize + 1 > MaxU16
ShortKeysInvalidEverywhere ==
  k.len < SuffixLen => /\ ~Valid(k) /\ ~MaxChunks(k).ok /\ ~VerifyValue(k, n) /\ ~VerifyKey(1000, MaxU16, k)
                       /\ ~KeysAdd(k) /\ StateKeysError(k) /\ ~InsertAllowed(k, n)
OversizedNeverWritable == ~NumChunks(n).ok => ~InsertAllowed(k, n)
=============================================================================
