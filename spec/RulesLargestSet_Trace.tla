----------------------- MODULE RulesLargestSet_Trace -----------------------
(* Binding step (tv) for C33: every ndjson line is one call of the real    *)
(* fees.LargestSet, logged as {ev:"row", dims, lim, idx, tot}.  A row the  *)
(* postcondition cannot explain is reported ("ROW_REJECTED", line, clause) *)
(* and validation continues with the next row, so one bad row does not     *)
(* hide the others.  "ROW_DRIFT" marks rows whose output satisfies the     *)
(* property but differs from the transcription (not a violation: the       *)
(* statement leaves the order free; reported as evidence only).            *)
EXTENDS RulesLargestSet, Json, IOUtils

VARIABLE l
Trace == ndJsonDeserialize(IOEnv.TRACE)
T     == Trace[l]

Clause(r) ==
  IF ~PostRange(r.dims, r.idx) THEN "index-out-of-range"
  ELSE IF ~PostDistinct(r.idx) THEN "duplicate-index"
  ELSE IF ~PostFits(r.dims, r.lim, r.idx) THEN "selection-exceeds-limit"
  ELSE IF ~PostTotal(r.dims, r.lim, r.idx, r.tot) THEN "total-differs-from-selection"
  ELSE IF ~PostMaximal(r.dims, r.lim, r.idx) THEN "skipped-item-would-fit"
  ELSE "ok"

TraceInit == l = 2 /\ TLCSet(1, 1) /\ Trace[1].ev = "reset"

TRow ==
  /\ l <= Len(Trace) /\ T.ev = "row" /\ l' = l + 1
  /\ LET c == Clause(T) IN
       IF c # "ok" THEN PrintT(<<"ROW_REJECTED", l, c>>)
       ELSE IF T.cmp = 1 /\ LargestSet(T.dims, T.lim) # [idx |-> T.idx, tot |-> T.tot]
            THEN PrintT(<<"ROW_DRIFT", l>>) ELSE TRUE
TReset == l <= Len(Trace) /\ T.ev = "reset" /\ l' = l + 1

TraceNext == TRow \/ TReset
TraceSpec == TraceInit /\ [][TraceNext]_l

HWM      == TLCSet(1, IF TLCGet(1) > l - 1 THEN TLCGet(1) ELSE l - 1)
Accepted == PrintT(<<"TRACE_HWM", TLCGet(1)>>) /\ TLCGet(1) = Len(Trace)
=============================================================================
