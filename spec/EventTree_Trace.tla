-------------------------- MODULE EventTree_Trace ---------------------------
(* Trace validation of the real event package (X04).  Lines:                 *)
(*   reset  {tree}                 the subscription tree built with          *)
(*                                 SubscriptionFunc / Aggregate / Map        *)
(*   notify {x, log, errs, nilerr, via}  root.Notify(x) (via = "notify") or, *)
(*                                 for an aggregate root, NotifyAll(x, kids) *)
(*   close  {log, errs, nilerr}    root.Close()                              *)
(* log = what the sinks recorded ([id, value], in order), errs = ids of the  *)
(* sinks whose sentinel error errors.Is-matches the returned error.          *)
EXTENDS EventTree, TLC, Json, IOUtils

VARIABLES l, tree, diag
tvars == <<l, tree, diag>>

Trace == ndJsonDeserialize(IOEnv.TRACE)
N     == Len(Trace)
T     == Trace[l]
Ev(e) == l <= N /\ Trace[l].ev = e /\ l' = l + 1
Name(ok, n) == IF ok THEN {} ELSE {n}
SeqSet(s) == {s[i] : i \in DOMAIN s}
Obs == [log |-> T.log, errs |-> SeqSet(T.errs)]

Against(exp) ==
  Name(Len(Obs.log) = Len(exp.log) /\ \A i \in DOMAIN exp.log : Obs.log[i][1] = exp.log[i][1], "sinks-reached-or-order") \cup
  Name(Len(Obs.log) # Len(exp.log) \/ \A i \in DOMAIN exp.log : Obs.log[i][2] = exp.log[i][2], "value-delivered") \cup
  Name(Obs.errs = exp.errs, "errors-joined") \cup
  Name(T.nilerr = (exp.errs = {}), "nil-iff-no-failure")

TraceInit == l = 1 /\ TLCSet(1, 0) /\ tree = [kind |-> "agg", kids |-> <<>>] /\ diag = {}
TReset  == Ev("reset") /\ tree' = T.tree /\ diag' = {}
TNotify == Ev("notify") /\ UNCHANGED tree /\ diag' = Against(NotifySpec(tree, T.x))
TClose  == Ev("close") /\ UNCHANGED tree /\ diag' = Against(CloseSpec(tree))

TraceNext == TReset \/ TNotify \/ TClose
TraceSpec == TraceInit /\ [][TraceNext]_tvars

DiagEmpty == diag = {}
HWM      == TLCSet(1, IF TLCGet(1) > l - 1 THEN TLCGet(1) ELSE l - 1)
Accepted == PrintT(<<"TRACE_HWM", TLCGet(1)>>) /\ TLCGet(1) = N
=============================================================================
