SPECIFICATION MSpec
CONSTANTS
  Keys = {a, b}
  Vals = {"0", "1", "2", "3"}
  MAXU = 3
  MaxTxs = 2
  MaxActs = 2
  Fees = {1}
SYMMETRY Sym
VIEW MView
INVARIANTS MTypeOK LedgerRefines Agree Conserved LedgerConserved NeverBroken Refines SameResult CommitExact NoRedundantPending
CHECK_DEADLOCK FALSE
