SPECIFICATION PriceSpec
CONSTANTS
  MAXU = 7
  W = 3
  Denoms = {1, 2, 3, 7}
  Sinces = {0, 2, 3, 4, 6, 7}
INVARIANTS FloorAtMin Direction Proportional Saturates MonotoneInUsage
CHECK_DEADLOCK FALSE
