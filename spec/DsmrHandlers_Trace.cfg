SPECIFICATION TraceSpec
CONSTANTS
  Chunks <- TChunks
  Prod0 = 0
  Ok0 = 0
  Producers = {"p0", "p1"}
  Limit0 = 0
  Fixed = TRUE
CONSTRAINT HWM
INVARIANTS DiagEmpty WithinLimit CertsOfHeld
POSTCONDITION Accepted
CHECK_DEADLOCK FALSE
