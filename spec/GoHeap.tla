------------------------------- MODULE GoHeap -------------------------------
(* container/heap driven through internal/heap.innerHeap, statement by       *)
(* statement.  A heap is a sequence of entries [id, val, index]; Go position *)
(* p (0-based) is a[p + 1].  innerHeap.Swap maintains the index fields,      *)
(* innerHeap.Push refuses an entry whose id is already in the lookup map.    *)
EXTENDS Integers, Sequences

HSwap(a, p, q) == [a EXCEPT ![p + 1] = [a[q + 1] EXCEPT !.index = p],
                            ![q + 1] = [a[p + 1] EXCEPT !.index = q]]
HLess(a, p, q) == a[p + 1].val < a[q + 1].val            \* min-heap
HHas(a, id)    == \E k \in DOMAIN a : a[k].id = id       \* lookup map
HGet(a, id)    == a[CHOOSE k \in DOMAIN a : a[k].id = id]

RECURSIVE HUp(_, _)
HUp(a, j) ==                                             \* heap.up
  IF j = 0 THEN a
  ELSE LET i == (j - 1) \div 2 IN
       IF ~HLess(a, j, i) THEN a ELSE HUp(HSwap(a, i, j), i)

RECURSIVE HDown(_, _, _)
HDown(a, i, n) ==                                        \* heap.down; returns <<heap, final position>>
  LET j1 == 2 * i + 1 IN
  IF j1 >= n THEN <<a, i>>
  ELSE LET j == IF j1 + 1 < n /\ HLess(a, j1 + 1, j1) THEN j1 + 1 ELSE j1 IN
       IF ~HLess(a, j, i) THEN <<a, i>> ELSE HDown(HSwap(a, i, j), j, n)

(* Heap.Push: heap.Push(ih, e) = ih.Push(e) (no-op for a known id) then up(Len-1) *)
HPush(a, ent) ==
  LET b == IF HHas(a, ent.id) THEN a ELSE Append(a, ent) IN
  IF Len(b) = 0 THEN b ELSE HUp(b, Len(b) - 1)

(* Heap.Pop: swap(0, n), down(0, n), drop the last.  Returns <<heap, popped entry>> *)
HPop(a) ==
  LET n == Len(a) - 1
      c == HDown(HSwap(a, 0, n), 0, n)[1]
  IN <<SubSeq(c, 1, n), c[n + 1]>>

(* Heap.Remove(i) for i < Len: if n # i { swap(i, n); if !down(i, n) { up(i) } }; drop the last *)
HRemove(a, i) ==
  LET n == Len(a) - 1 IN
  IF n = i THEN <<SubSeq(a, 1, n), a[n + 1]>>
  ELSE LET d == HDown(HSwap(a, i, n), i, n)
           c == IF d[2] > i THEN d[1] ELSE HUp(d[1], i)
       IN <<SubSeq(c, 1, n), c[n + 1]>>

HeapOrdered(a) == \A p \in 1 .. Len(a) - 1 : a[((p - 1) \div 2) + 1].val <= a[p + 1].val
IndexOK(a)     == \A k \in DOMAIN a : a[k].index = k - 1
DistinctIds(a) == \A k, m \in DOMAIN a : a[k].id = a[m].id => k = m
=============================================================================
