SPECIFICATION Spec
CONSTANTS
  Keys = {"k1", "k2"}
  Vals = {"v1"}
  MaxOps = 3
  MaxCps = 1
  ScopeSpace <- MCMasks
CONSTRAINT Bound
VIEW View
INVARIANTS TypeOK Refines SameResult CommitExact NoRedundantPending
PROPERTIES Confined
