------------------------------- MODULE SnowVM -------------------------------
(* The consensus wrapper of hypersdk (package snow): snow.VM + StatefulBlock  *)
(* between a snowman consensus engine and a Chain implementation.             *)
(*                                                                            *)
(* One action per engine call / critical section of snow/block.go, snow/vm.go,*)
(* snow/statesync.go (C20, C21):                                              *)
(*   Parse Build Verify Accept Reject SetPref            engine calls         *)
(*   Dequeue Process                                     async accepter       *)
(*   StartSync FinishSync                                dynamic state sync   *)
(* Lookups (GetBlock, GetBlockIDAtHeight, LastAccepted, HealthCheck,          *)
(* ConsensusIndex getters) are state functions (Found, LookupH, Health).    *)
(*                                                                            *)
(* Implementation-shaped state: parsed LRU, verifiedBlocks map, accepted FIFO *)
(* window (by id and by height share their insertion order), on-disk index,   *)
(* lastAccepted / lastProcessed / preference, the async accept queue and the  *)
(* block being processed, per-block wrapper flags (verified, accepted).       *)
(* Wrapper identity is abstracted per block id: under a snowman-consistent    *)
(* engine the newest wrapper of an id is the only one that is ever acted on   *)
(* (see notes/C20.md).                                                        *)
(*                                                                            *)
(* Ghost state: what the engine decided, what the Chain callbacks saw, what   *)
(* the subscribers were told.  The properties relate only ghost state.        *)
EXTENDS Naturals, Sequences, FiniteSets, TLC

CONSTANT FixParentMissing   \* TRUE: FinishStateSync as repaired (fixes/C21-*.patch); FALSE: as originally coded

None == "none"

VARIABLES
  tree, pcap, acap,                     \* static per run: block tree, LRU size, FIFO size
  est, eLast, pendRej, eacc, epre,      \* engine (environment)
  wv, wa,                               \* wrapper flags: verified / accepted (sets of ids)
  lru, vblocks, fifo, idx,              \* parsedBlocks, verifiedBlocks, accepted window, disk index
  lastAcc, lastProc, pref,
  queue, inflight,                      \* acceptedQueue, block inside processAccept
  cver, cstate, cacc, bad,              \* chain-level ghost
  nver, nacc, nrej, nprerej, npre,      \* notifications
  ready, phase, unresolved, hcReg, procAtFinish, syncBase, ftarget,
  res, cc, nn                           \* outputs of the last step

static == <<tree, pcap, acap>>
engine == <<est, eLast, pendRej, eacc, epre>>
wrap   == <<wv, wa>>
caches == <<lru, vblocks, fifo, idx>>
ptrs   == <<lastAcc, lastProc, pref>>
async  == <<queue, inflight>>
chainG == <<cver, cstate, cacc, bad>>
notif  == <<nver, nacc, nrej, nprerej, npre>>
sync   == <<ready, phase, unresolved, hcReg, procAtFinish, syncBase, ftarget>>
out    == <<res, cc, nn>>
vars   == <<static, engine, wrap, caches, ptrs, async, chainG, notif, sync, out>>

--------------------------------------------------------------------------------
IDs      == DOMAIN tree
Par(b)   == tree[b].p
H(b)     == tree[b].h
Inv(b)   == tree[b].inv
Heights  == {tree[b].h : b \in IDs}

InSeq(s, x)  == \E i \in DOMAIN s : s[i] = x
Without(s, x) == SelectSeq(s, LAMBDA y : y # x)
Range(s)     == {s[i] : i \in DOMAIN s}

RECURSIVE Desc(_, _)
(* c is b or a descendant of b *)
Desc(b, c) == IF c = b THEN TRUE ELSE IF c \notin IDs \/ Par(c) \notin IDs THEN FALSE ELSE Desc(b, Par(c))

RECURSIVE Path(_)
Path(b) == IF Par(b) \notin IDs THEN <<b>> ELSE Append(Path(Par(b)), b)

Cb(k, b, p) == [k |-> k, b |-> b, p |-> p]

(* ---- caches -------------------------------------------------------------- *)
Indexed(b) == b \in IDs /\ idx[H(b)] = b
Found(b)   == b \in vblocks \/ InSeq(fifo, b) \/ Indexed(b)              \* VM.GetBlock succeeds
WFlag(b)   == (b \in vblocks \/ InSeq(fifo, b)) /\ b \in wv              \* .verified of the wrapper GetBlock returns
AFlag(b)   == b \notin vblocks /\ InSeq(fifo, b) /\ b \in wa             \* .Accepted populated on that wrapper

FifoPut(f, b) == IF InSeq(f, b) THEN f
                 ELSE IF Len(f) >= acap THEN Append(Tail(f), b) ELSE Append(f, b)
LruPut(l, b)  == IF InSeq(l, b) THEN Append(Without(l, b), b)
                 ELSE IF Len(l) >= pcap THEN Append(Tail(l), b) ELSE Append(l, b)

(* GetBlockIDAtHeight / GetBlockByHeight *)
LookupH(h) == IF h = H(lastAcc) THEN lastAcc
              ELSE IF \E i \in DOMAIN fifo : H(fifo[i]) = h
                   THEN fifo[CHOOSE i \in DOMAIN fifo : H(fifo[i]) = h]
                   ELSE IF h \in Heights THEN idx[h] ELSE None

(* HealthCheck: errVMNotReady / errUnresolvedBlocks *)
Health == IF ~ready THEN "notready" ELSE IF hcReg /\ unresolved # {} THEN "unresolved" ELSE "ok"
(* ConsensusIndex.GetLastAccepted *)
LastProcessedObs == lastProc
(* ConsensusIndex.GetPreferredBlock *)
PrefObs == IF Found(pref) /\ WFlag(pref) THEN pref ELSE "err"

Proc == {b \in IDs : est[b] = "proc"}
Backlog == Len(queue) + Len(inflight)

--------------------------------------------------------------------------------
InitWith(t, root, rdy, pc, ac) ==
  /\ tree = t /\ pcap = pc /\ acap = ac
  /\ est = [b \in DOMAIN t |-> IF b = root THEN "acc" ELSE "new"]
  /\ eLast = root /\ pendRej = {} /\ eacc = <<>> /\ epre = <<>>
  /\ wv = (IF rdy THEN {root} ELSE {})
  /\ wa = (IF rdy THEN {root} ELSE {})
  /\ lru = <<>> /\ vblocks = {} /\ fifo = <<root>>
  /\ idx = [h \in {t[b].h : b \in DOMAIN t} |-> IF h = t[root].h THEN root ELSE None]
  /\ lastAcc = root /\ pref = root
  /\ lastProc = (IF rdy THEN root ELSE None)
  /\ queue = <<>> /\ inflight = <<>>
  /\ cver = (IF rdy THEN {root} ELSE {})
  /\ cstate = [b \in DOMAIN t |-> IF b = root /\ rdy THEN <<root>> ELSE <<>>]
  /\ cacc = <<>> /\ bad = {}
  /\ nver = [b \in DOMAIN t |-> 0] /\ nacc = <<>> /\ nrej = [b \in DOMAIN t |-> 0]
  /\ nprerej = [b \in DOMAIN t |-> 0] /\ npre = <<>>
  /\ ready = rdy /\ phase = (IF rdy THEN "normal" ELSE "syncing")
  /\ unresolved = {} /\ hcReg = FALSE /\ procAtFinish = {} /\ syncBase = root /\ ftarget = None
  /\ res = "init" /\ cc = <<>>
  (* Initialize notifies the last accepted block on startup *)
  /\ nn = (IF rdy THEN <<Cb("naccepted", root, None)>> ELSE <<Cb("npreacc", root, None)>>)

(* ---- engine calls -------------------------------------------------------- *)
(* VM.ParseBlock: GetBlock first, then the parsed LRU, then Chain.ParseBlock. *)
Parse(b) ==
  /\ b \in IDs
  /\ res' = "ok" /\ cc' = <<>> /\ nn' = <<>>
  /\ IF Found(b) THEN UNCHANGED <<lru, wv>>
     ELSE IF InSeq(lru, b) THEN lru' = LruPut(lru, b) /\ UNCHANGED wv
     ELSE lru' = LruPut(lru, b) /\ wv' = wv \ {b}          \* fresh unverified wrapper
  /\ est' = IF est[b] = "new" THEN [est EXCEPT ![b] = "held"] ELSE est
  /\ UNCHANGED <<static, eLast, pendRej, eacc, epre, wa, vblocks, fifo, idx, ptrs, async, chainG, notif, sync>>

(* VM.BuildBlock on the current preference; the chain returns block b (a valid child of pref). *)
Build(b) ==
  /\ ready /\ pendRej = {} /\ b \in IDs /\ est[b] = "new" /\ Par(b) = pref /\ ~Inv(b)
  /\ pref \in Proc \cup {eLast}
  /\ Found(pref) /\ WFlag(pref)                \* otherwise the chain is handed a zero parent (excluded: notes)
  /\ res' = "ok" /\ cc' = <<Cb("cbuild", b, pref)>> /\ nn' = <<>>
  /\ bad' = IF pref \in cver THEN bad ELSE bad \cup {"build-on-unverified-parent"}
  /\ cver' = cver \cup {b}
  /\ cstate' = [cstate EXCEPT ![b] = Append(cstate[pref], b)]
  /\ lru' = LruPut(lru, b) /\ wv' = wv \cup {b}
  /\ est' = [est EXCEPT ![b] = "held"]
  /\ UNCHANGED <<static, eLast, pendRej, eacc, epre, wa, vblocks, fifo, idx, ptrs, async, cacc, notif, sync>>

EngineCanVerify(b) ==
  /\ b \in IDs /\ est[b] = "held" /\ pendRej = {}
  /\ Par(b) = eLast \/ (Par(b) \in IDs /\ est[Par(b)] = "proc")

(* StatefulBlock.Verify *)
Verify(b) ==
  /\ EngineCanVerify(b)
  /\ LET p == Par(b) IN
     IF ~ready \/ b \in wv
     THEN (* vacuous during dynamic state sync / locally built block *)
          /\ res' = "ok" /\ cc' = <<>> /\ nn' = <<>>
          /\ vblocks' = vblocks \cup {b} /\ est' = [est EXCEPT ![b] = "proc"]
          /\ UNCHANGED <<wv, chainG, nver>>
     ELSE IF ~Found(p) \/ ~WFlag(p)
     THEN /\ res' = "err" /\ cc' = <<>> /\ nn' = <<>>
          /\ UNCHANGED <<vblocks, est, wv, chainG, nver>>
     ELSE /\ cc' = <<Cb("cverify", b, p)>>
          /\ bad' = IF p \in cver THEN bad ELSE bad \cup {"verify-on-unverified-parent"}
          /\ IF Inv(b)
             THEN /\ res' = "err" /\ nn' = <<>>
                  /\ UNCHANGED <<vblocks, est, wv, cver, cstate, nver>>
             ELSE /\ res' = "ok" /\ nn' = <<Cb("nverified", b, None)>>
                  /\ cver' = cver \cup {b}
                  /\ cstate' = [cstate EXCEPT ![b] = Append(cstate[p], b)]
                  /\ wv' = wv \cup {b}
                  /\ nver' = [nver EXCEPT ![b] = @ + 1]
                  /\ vblocks' = vblocks \cup {b} /\ est' = [est EXCEPT ![b] = "proc"]
          /\ UNCHANGED cacc
  /\ UNCHANGED <<static, eLast, pendRej, eacc, epre, wa, lru, fifo, idx, ptrs, async, nacc, nrej, nprerej, npre, sync>>

EngineCanAccept(b) ==
  /\ b \in IDs /\ est[b] = "proc" /\ Par(b) = eLast /\ pendRej = {}
  /\ ~Inv(b)                         \* consensus never finalises an invalid block
  /\ Backlog < 16                    \* acceptedQueueSize: a full channel blocks the engine

EvictedBy(f, b) == IF ~InSeq(f, b) /\ Len(f) >= acap THEN {Head(f)} ELSE {}

(* StatefulBlock.Accept *)
Accept(b) ==
  /\ EngineCanAccept(b)
  /\ IF ready /\ b \notin wv
     THEN (* errParentFailedVerification: fatal, must be unreachable *)
          /\ res' = "err" /\ cc' = <<>> /\ nn' = <<>>
          /\ bad' = bad \cup {"accept-of-unverified-refused"}
          /\ UNCHANGED <<engine, wrap, caches, ptrs, async, cver, cstate, cacc, notif>>
     ELSE /\ res' = "ok" /\ cc' = <<>>
          /\ idx' = [idx EXCEPT ![H(b)] = b]
          /\ IF ready
             THEN /\ queue' = Append(queue, b) /\ eacc' = Append(eacc, b) /\ nn' = <<>>
                  /\ UNCHANGED <<npre, epre>>
             ELSE /\ nn' = <<Cb("npreacc", b, None)>> /\ npre' = Append(npre, b) /\ epre' = Append(epre, b)
                  /\ UNCHANGED <<queue, eacc>>
          /\ vblocks' = vblocks \ {b}
          /\ lastAcc' = b /\ fifo' = FifoPut(fifo, b)
          /\ wv' = wv \ EvictedBy(fifo, b) /\ wa' = wa \ EvictedBy(fifo, b)
          /\ est' = [est EXCEPT ![b] = "acc"] /\ eLast' = b
          /\ pendRej' = {c \in Proc \ {b} : ~Desc(b, c)}
          /\ UNCHANGED <<lru, lastProc, pref, inflight, chainG, nver, nacc, nrej, nprerej>>
  /\ UNCHANGED <<static, sync>>

(* StatefulBlock.Accept when the chain index fails to persist the block (UpdateLastAccepted returns an error): *)
(* Accept returns the error and nothing has happened - the block is still processing, retrievable, its        *)
(* children can be verified on it and the accept can be retried.                                              *)
AcceptIndexFails(b) ==
  /\ EngineCanAccept(b) /\ ~(ready /\ b \notin wv)
  /\ res' = "err" /\ cc' = <<>> /\ nn' = <<>>
  /\ UNCHANGED <<static, engine, wrap, caches, ptrs, async, chainG, notif, sync>>

(* async accepter takes the next block: processAccept fetches the parent wrapper, then calls *)
(* Chain.AcceptBlock(parent.Accepted, b.Output)                                              *)
Dequeue ==
  /\ inflight = <<>> /\ queue # <<>>
  /\ LET b == Head(queue)
         p == Par(b)
         pok == AFlag(p)
     IN /\ inflight' = <<b>> /\ queue' = Tail(queue)
        /\ cc' = <<Cb("caccept", b, IF pok THEN p ELSE None)>> /\ nn' = <<>> /\ res' = "ok"
        /\ cacc' = Append(cacc, b)
        /\ bad' = bad \cup (IF pok THEN {} ELSE {"accept-with-zero-parent"})
                      \cup (IF b \in cver THEN {} ELSE {"chain-accept-of-unverified"})
  /\ UNCHANGED <<static, engine, wrap, caches, ptrs, cver, cstate, notif, sync>>

(* Chain.AcceptBlock returned: flags, accepted notification, lastProcessed *)
Process ==
  /\ inflight # <<>>
  /\ LET b == inflight[1] IN
     /\ wa' = wa \cup (IF InSeq(fifo, b) THEN {b} ELSE {})
     /\ nn' = <<Cb("naccepted", b, None)>> /\ nacc' = Append(nacc, b)
     /\ lastProc' = b /\ inflight' = <<>> /\ cc' = <<>> /\ res' = "ok"
  /\ UNCHANGED <<static, engine, wv, caches, lastAcc, pref, queue, chainG, nver, nrej, nprerej, npre, sync>>

(* StatefulBlock.Reject: snowman rejects every block conflicting with an accepted one, parents first *)
Reject(c) ==
  /\ c \in pendRej /\ Par(c) \notin pendRej
  /\ res' = "ok" /\ cc' = <<>>
  /\ vblocks' = vblocks \ {c}
  /\ IF c \notin wv
     THEN /\ nn' = <<Cb("nprerej", c, None)>> /\ nprerej' = [nprerej EXCEPT ![c] = @ + 1]
          /\ unresolved' = unresolved \ {c} /\ UNCHANGED nrej
     ELSE /\ nn' = <<Cb("nrejected", c, None)>> /\ nrej' = [nrej EXCEPT ![c] = @ + 1]
          /\ UNCHANGED <<nprerej, unresolved>>
  /\ est' = [est EXCEPT ![c] = "rej"] /\ pendRej' = pendRej \ {c}
  /\ UNCHANGED <<static, eLast, eacc, epre, wrap, lru, fifo, idx, ptrs, async, chainG, nver, nacc, npre,
                 ready, phase, hcReg, procAtFinish, syncBase, ftarget>>

SetPref(b) ==
  /\ pendRej = {} /\ b \in Proc \cup {eLast}
  /\ pref' = b /\ res' = "ok" /\ cc' = <<>> /\ nn' = <<>>
  /\ UNCHANGED <<static, engine, wrap, caches, lastAcc, lastProc, async, chainG, notif, sync>>

(* ---- dynamic state sync -------------------------------------------------- *)
Between(a, t) == {x \in IDs : Desc(a, x) /\ Desc(x, t) /\ x # a /\ x # t}

(* VM.StartStateSync(target): called by the sync client before consensus activity *)
StartSync(t) ==
  /\ phase # "done" /\ phase # "failed" /\ Proc = {} /\ pendRej = {} /\ Backlog = 0
  /\ epre = <<>>                                            \* at most once, before blocks are accepted in sync mode
  /\ t \in IDs /\ Desc(eLast, t) /\ ~Inv(t)
  /\ \A x \in Between(eLast, t) \cup ({t} \ {eLast}) : est[x] \in {"new", "held"} /\ ~Inv(x)
  /\ idx' = [idx EXCEPT ![H(t)] = t]
  /\ ready' = FALSE /\ phase' = "syncing" /\ syncBase' = t /\ UNCHANGED ftarget
  /\ lastAcc' = t /\ fifo' = FifoPut(fifo, t)
  /\ wv' = (wv \ {t}) \ EvictedBy(fifo, t) /\ wa' = (wa \ {t}) \ EvictedBy(fifo, t)
  /\ est' = [x \in IDs |-> IF x = t \/ x \in Between(eLast, t) THEN "acc" ELSE est[x]]
  /\ eLast' = t
  /\ res' = "ok" /\ cc' = <<>> /\ nn' = <<>>
  /\ UNCHANGED <<static, pendRej, eacc, epre, lru, vblocks, lastProc, pref, async, chainG, notif,
                 unresolved, hcReg, procAtFinish>>

(* verifyProcessingBlocks sorts the processing blocks by height; any parent-before-child order gives *)
(* the same result, so one canonical order is enough                                                 *)
RECURSIVE HeightOrder(_)
HeightOrder(S) == IF S = {} THEN <<>>
                  ELSE LET x == CHOOSE x \in S : \A y \in S : H(x) <= H(y)
                       IN <<x>> \o HeightOrder(S \ {x})

(* re-processing of the accepted chain from the sync target to the tip (reprocessFromOutputToInput) *)
RECURSIVE Reprocess(_, _, _)
Reprocess(h, top, acc) ==
  IF h > top THEN acc
  ELSE LET x == idx[h]
           p == acc.prev
       IN Reprocess(h + 1, top,
            [prev  |-> x,
             cc    |-> acc.cc \o <<Cb("cverify", x, p), Cb("caccept", x, p)>>,
             nn    |-> acc.nn \o <<Cb("nverified", x, None), Cb("naccepted", x, None)>>,
             cver  |-> acc.cver \cup {x},
             cstate|-> [acc.cstate EXCEPT ![x] = Append(acc.cstate[p], x)],
             cacc  |-> Append(acc.cacc, x),
             nacc  |-> Append(acc.nacc, x),
             nver  |-> [acc.nver EXCEPT ![x] = @ + 1],
             bad   |-> acc.bad \cup (IF Par(x) = p THEN {} ELSE {"reprocess-wrong-parent"})])

(* verifyProcessingBlocks over order o.  FixedParentMissing selects the repaired behaviour (a     *)
(* processing block whose parent can no longer be fetched is treated as unresolved) or the        *)
(* behaviour as originally coded (FinishStateSync fails).                                          *)
RECURSIVE Reverify(_, _, _, _, _)
Reverify(o, i, acc, fifoNow, fixed) ==
  IF i > Len(o) \/ acc.fail THEN acc
  ELSE LET b == o[i]
           p == Par(b)
           pfound == p \in vblocks \/ InSeq(fifoNow, p) \/ (p \in IDs /\ idx[H(p)] = p)
           pflag  == (p \in vblocks \/ InSeq(fifoNow, p)) /\ p \in acc.wv
       IN IF ~pfound
          THEN Reverify(o, i + 1, IF fixed THEN [acc EXCEPT !.unres = @ \cup {b}] ELSE [acc EXCEPT !.fail = TRUE],
                        fifoNow, fixed)
          ELSE IF ~pflag
          THEN Reverify(o, i + 1, [acc EXCEPT !.unres = @ \cup {b}], fifoNow, fixed)
          ELSE IF Inv(b)
          THEN Reverify(o, i + 1, [acc EXCEPT !.unres = @ \cup {b}, !.cc = Append(@, Cb("cverify", b, p)),
                                              !.bad = @ \cup (IF p \in acc.cver THEN {} ELSE {"verify-on-unverified-parent"})],
                        fifoNow, fixed)
          ELSE Reverify(o, i + 1,
                 [acc EXCEPT !.wv = @ \cup {b}, !.cver = @ \cup {b},
                             !.cstate = [@ EXCEPT ![b] = Append(acc.cstate[p], b)],
                             !.cc = Append(@, Cb("cverify", b, p)),
                             !.nn = Append(@, Cb("nverified", b, None)),
                             !.nver = [@ EXCEPT ![b] = @ + 1],
                             !.bad = @ \cup (IF p \in acc.cver THEN {} ELSE {"verify-on-unverified-parent"})],
                 fifoNow, fixed)

CanFinishAt(t) ==
  /\ t \in IDs /\ idx[H(t)] = t /\ H(t) <= H(lastAcc) /\ H(syncBase) <= H(t)
  /\ \A h \in Heights : (H(t) < h /\ h <= H(lastAcc)) => idx[h] # None

(* VM.FinishStateSync(target, output, accepted) with the processing blocks re-verified in order o *)
FinishSyncWith(t, o, fixed) ==
  /\ phase = "syncing" /\ ~ready /\ CanFinishAt(t) /\ Backlog = 0
  /\ LET (* the sync client supplies the executed state of the target *)
         base == [prev |-> t, cc |-> <<>>, nn |-> <<>>, cver |-> cver \cup {t},
                  cstate |-> [cstate EXCEPT ![t] = Path(t)], cacc |-> cacc, nacc |-> nacc,
                  nver |-> nver, bad |-> bad]
         rp   == IF t = lastAcc THEN base ELSE Reprocess(H(t) + 1, H(lastAcc), base)
         start == [wv |-> wv \cup {lastAcc}, unres |-> {}, fail |-> FALSE, cc |-> rp.cc, nn |-> rp.nn,
                   cver |-> rp.cver, cstate |-> rp.cstate, nver |-> rp.nver, bad |-> rp.bad]
         rv   == Reverify(o, 1, start, fifo, fixed)
     IN /\ wa' = wa \cup {lastAcc}
        /\ lastProc' = lastAcc
        /\ wv' = rv.wv /\ cver' = rv.cver /\ cstate' = rv.cstate /\ nver' = rv.nver /\ bad' = rv.bad
        /\ cacc' = rp.cacc /\ nacc' = rp.nacc
        /\ cc' = rv.cc /\ nn' = rv.nn
        /\ IF rv.fail
           THEN res' = "err" /\ phase' = "failed" /\ UNCHANGED <<ready, unresolved, hcReg, procAtFinish>>
           ELSE /\ res' = "ok" /\ phase' = "done" /\ ready' = TRUE
                /\ unresolved' = rv.unres /\ hcReg' = TRUE /\ procAtFinish' = vblocks
  /\ ftarget' = t
  /\ UNCHANGED <<syncBase, static, engine, lru, vblocks, fifo, idx, lastAcc, pref, async, nrej, nprerej, npre>>

--------------------------------------------------------------------------------
(* ---- properties ---------------------------------------------------------- *)
(* C20 *)
VerifyOnlyOnVerifiedOrAcceptedParent ==
  bad \cap {"verify-on-unverified-parent", "build-on-unverified-parent", "reprocess-wrong-parent"} = {}

AcceptInHeightOrderAtMostOnce ==
  /\ \A i \in DOMAIN cacc : i > 1 => /\ H(cacc[i]) > H(cacc[i - 1])
                                     /\ Par(cacc[i]) = cacc[i - 1] \/ Par(cacc[i]) = ftarget   \* state sync jumps
  /\ \A i, j \in DOMAIN cacc : i # j => cacc[i] # cacc[j]
  /\ "chain-accept-of-unverified" \notin bad

NeverAcceptRejected ==
  /\ \A i \in DOMAIN cacc : est[cacc[i]] # "rej"
  /\ \A b \in IDs : est[b] = "rej" => b \notin Range(queue) \cup Range(inflight)

(* every accept decision taken in ready mode is processed exactly once, in order, or still queued *)
EngineAccepted(s) == SelectSeq(s, LAMBDA x : InSeq(eacc, x))
AcceptedNotificationsMatch ==
  /\ Len(nacc) <= Len(cacc) /\ Len(cacc) - Len(nacc) = Len(inflight)
  /\ \A i \in DOMAIN nacc : nacc[i] = cacc[i]
  /\ EngineAccepted(cacc) \o queue = eacc
  /\ npre = epre
RejectedNotificationsMatch ==
  \A b \in IDs : nrej[b] + nprerej[b] = (IF est[b] = "rej" THEN 1 ELSE 0)
(* a processing block the chain verified was announced exactly once (or was built by the chain) *)
VerifiedNotificationsMatch ==
  /\ \A b \in IDs : nver[b] <= 1 + (IF InSeq(epre, b) THEN 1 ELSE 0)
  /\ \A b \in vblocks : b \in wv => b \in cver
  /\ ready => \A b \in Proc : b \in wv \/ b \in unresolved

LookupReturnsAcceptedChain ==
  /\ lastAcc = eLast
  /\ \A h \in Heights : idx[h] # None => LookupH(h) = idx[h]
  /\ \A b \in IDs : est[b] = "proc" => Found(b)
  /\ \A b \in IDs : est[b] = "rej" => ~Found(b)
  /\ \A b \in IDs : Indexed(b) => est[b] = "acc"

NoFatalAccept == "accept-of-unverified-refused" \notin bad
(* observation beyond the listed statements: Chain.AcceptBlock always receives the accepted parent *)
AcceptParentPopulated == "accept-with-zero-parent" \notin bad

(* C21 *)
(* chain-level state of a block is the fold of the chain from genesis to that block *)
EndsAtExecutedState ==
  /\ \A b \in IDs : cstate[b] # <<>> => cstate[b] = Path(b)
  /\ phase = "done" /\ Backlog = 0 => lastProc = lastAcc /\ lastAcc \in cver /\ lastAcc \in wa

(* b, processing when sync finished, is invalid or descends from an invalid block that was processing then: *)
(* it cannot pass re-verification                                                                           *)
InvalidAtFinish(b) == \E a \in procAtFinish : Desc(a, b) /\ Inv(a)

ReverifiesAllProcessing ==
  phase = "done" =>
    \A b \in vblocks \cap procAtFinish :
       /\ b \in wv \/ b \in unresolved
       /\ b \in wv => b \in cver /\ ~InvalidAtFinish(b)
       /\ (pendRej = {} /\ ~InvalidAtFinish(b)) => b \in wv

UnhealthyUntilInvalidRejected ==
  /\ ~ready => Health # "ok"
  /\ phase = "done" =>
       /\ (\E b \in procAtFinish : est[b] = "proc" /\ InvalidAtFinish(b)) => Health # "ok"
       /\ (\A b \in procAtFinish : est[b] # "proc") => Health = "ok"
FinishNeverFails == phase # "failed"

TypeOK ==
  /\ wv \subseteq IDs /\ wa \subseteq IDs /\ vblocks \subseteq IDs /\ unresolved \subseteq IDs
  /\ Len(fifo) <= acap /\ Len(lru) <= pcap /\ Len(inflight) <= 1
  /\ vblocks = Proc
=============================================================================
