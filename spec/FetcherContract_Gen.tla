------------------------- MODULE FetcherContract_Gen -------------------------
(* Behaviour generator (mbt direction of the fetcher-level part of C24):     *)
(* random walks of FetcherContract over a random parent state and random     *)
(* declared key sets.  The controllable part (order of Fetch / Get calls,    *)
(* order in which parent reads return, Stop, Wait) is printed as a script.   *)
EXTENDS FetcherContract, TLC, Json

CONSTANT Depth
VARIABLE hist
gvars == <<fvars, hist>>
H(op, c, k) == hist' = Append(hist, [op |-> op, c |-> c, k |-> k])
RealKeys == KeyNames \ {"EMPTY"}

GInit == /\ \E p \in [RealKeys -> {"v1", "v2", "absent", "absent", "err"}] :
              \E ck \in [Calls -> (SUBSET RealKeys) \ {{}}] :
                 FInit([k \in KeyNames |-> IF k \in RealKeys THEN p[k] ELSE "absent"], ck, MaxCalls)
         /\ hist = <<>>
GNext ==
  /\ Len(hist) < Depth
  /\ \/ \E c \in Calls : (\A b \in 1..(c - 1) : fst[b] \in {"ok", "err"}) /\ stop = "idle" /\ FetchCall(c)
                         /\ H("fetch", c, "")
     \/ \E c \in Calls : FetchRet(c, "ok") /\ UNCHANGED hist
     \/ \E k \in RealKeys : rres[k] = "none" /\ Read(k) /\ UNCHANGED hist
     \/ \E k \in RealKeys : ReadRet(k, parent[k]) /\ H("gate", 0, k)
     \/ \E c \in Calls : GetCall(c) /\ H("get", c, "")
     \/ \E c \in Calls : \E r \in {"ok", "err", "stopped"} :
          GetRet(c, r, [k \in {x \in ckeys[c] : rres[x] \notin {"none", "pending", "err", "absent"}} |-> rres[k]])
          /\ UNCHANGED hist
     \/ Len(hist) >= 3 /\ StopCall /\ H("stop", 0, "")
     \/ StopRet /\ UNCHANGED hist
     \/ (\A c \in Calls : fst[c] # "none") /\ WaitCall /\ H("wait", 0, "")
GSpec == GInit /\ [][GNext]_gvars
Emit  == (ENABLED GNext) \/ Len(hist) < 4
         \/ PrintT("BEHAVIOUR " \o ToJson([parent |-> parent, calls |-> ckeys, script |-> hist]))
=============================================================================
