SPECIFICATION MCSpec
CONSTANTS
  N = 4
  Mode = "coded"
  MaxCrashes = 2
CHECK_DEADLOCK FALSE
INVARIANTS
  TypeOK
  IndexAheadOfState
  RestartSucceedsOrKF
  RecoveredEqualsNoCrash
  AtLeastOnceInOrder
