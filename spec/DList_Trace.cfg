SPECIFICATION TraceSpec
CONSTANTS
  MaxNodes = 64
  Variant = "code"
CONSTRAINT HWM
INVARIANTS DiagEmpty Exclusive
POSTCONDITION Accepted
CHECK_DEADLOCK FALSE
