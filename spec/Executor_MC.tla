----------------------------- MODULE Executor_MC -----------------------------
(* Exhaustive configurations of the fine-grained executor model (C08).      *)
EXTENDS Executor
PermSpace == {"n", "r", "w"}
\* every task list in which each task declares at least one key
ShapesAll == {f \in [Tasks -> [Keys -> PermSpace]] : \A t \in Tasks : \E k \in Keys : f[t][k] # "n"}
\* only lists in which every later task conflicts with or reads next to an earlier one on the first key
ShapesOneKey == {f \in [Tasks -> [Keys -> PermSpace]] : \A t \in Tasks : \A k \in Keys : f[t][k] # "n"}
KeySym == Permutations(Keys)
\* hand-picked two-key lists (N = 3): a task reading one key and writing another key owned by the same earlier
\* task, readers between writers, a writer behind two readers, disjoint tasks
K1 == CHOOSE k \in Keys : TRUE
K2 == CHOOSE k \in Keys : k # K1
KM(a, b) == [k \in Keys |-> IF k = K1 THEN a ELSE b]
ShapesRW == { <<KM("w", "w"), KM("r", "w"), KM("w", "n")>>,
              <<KM("w", "w"), KM("w", "r"), KM("r", "w")>>,
              <<KM("r", "n"), KM("r", "n"), KM("w", "n")>>,
              <<KM("w", "n"), KM("r", "r"), KM("n", "w")>>,
              <<KM("r", "w"), KM("r", "r"), KM("w", "w")>>,
              <<KM("w", "n"), KM("n", "w"), KM("r", "r")>> }
\* N = 4: an owner of both keys, two pure readers of one key, then a task that reads one key and writes the other
ShapesSameOwner == { <<KM("w", "w"), KM("n", "r"), KM("n", "r"), KM("r", "w")>>,
                     <<KM("w", "w"), KM("r", "n"), KM("n", "r"), KM("r", "w")>>,
                     <<KM("w", "w"), KM("n", "r"), KM("r", "w"), KM("n", "r")>> }
\* every task writes every key: each task has at most one dependency (its predecessor), so MaxDeps = 1 satisfies
\* New's documented assumption with equality
ShapesWriters == {[t \in Tasks |-> [k \in Keys |-> "w"]]}
=============================================================================
