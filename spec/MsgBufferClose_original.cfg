SPECIFICATION Spec
CONSTANTS StopHoldingLock = TRUE
INVARIANT NoCloseTimerDeadlock
CHECK_DEADLOCK FALSE
