SPECIFICATION Spec
CONSTANTS StopHoldingLock = FALSE
INVARIANT NoCloseTimerDeadlock
PROPERTY CloseReturns
CHECK_DEADLOCK FALSE
