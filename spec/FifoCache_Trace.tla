-------------------------- MODULE FifoCache_Trace ---------------------------
(* Trace validation of the real internal/cache.FIFO (X01).  One ndjson line  *)
(* per call:                                                                 *)
(*   reset {limit, ok}          NewFIFO(limit); ok = no error                *)
(*   put   {k, v, ok}           Put(k, v); ok = returned "existed"           *)
(*   get   {k, ok, val}         Get(k); val = -1 when absent                 *)
(* and after every call the cache's contents as reported by Get for every    *)
(* key of the scenario's universe: keys (ascending) / vals.                  *)
(* The monitor of FifoCache.tla is stepped from the logged calls, the        *)
(* observed contents are loaded into m, and the statement's clauses are      *)
(* evaluated on the step; a failing clause is named in diag (INVARIANT       *)
(* DiagEmpty).  The queue is not observable and not constrained.             *)
EXTENDS FifoCache, TLC, Json, IOUtils

VARIABLES l, diag
tvars == <<vars, l, diag>>

Trace == ndJsonDeserialize(IOEnv.TRACE)
N     == Len(Trace)
T     == Trace[l]
Ev(e) == l <= N /\ Trace[l].ev = e /\ l' = l + 1

TKeys   == 1..12
TVals   == 0..100000
TLimits == 0..16

ObsMap == [k \in SeqSet(T.keys) |-> T.vals[CHOOSE i \in DOMAIN T.keys : T.keys[i] = k]]
Observe == m' = ObsMap /\ buf' = <<>> /\ res' = [op |-> T.ev, ok |-> T.ok, val |-> IF T.ev = "get" THEN T.val ELSE NoVal]

Name(ok, n) == IF ok THEN {} ELSE {n}

TraceInit ==
  /\ l = 1 /\ TLCSet(1, 0)
  /\ lim = 1 /\ buf = <<>> /\ m = <<>> /\ res = [op |-> "new", ok |-> TRUE, val |-> NoVal]
  /\ born = [k \in Keys |-> 0] /\ lastv = [k \in Keys |-> NoVal] /\ diag = {}

TReset ==
  /\ Ev("reset")
  /\ lim' = (IF T.limit >= 1 THEN T.limit ELSE 1)
  /\ buf' = <<>> /\ m' = <<>> /\ res' = [op |-> "new", ok |-> T.ok, val |-> NoVal]
  /\ born' = [k \in Keys |-> 0] /\ lastv' = [k \in Keys |-> NoVal]
  /\ diag' = Name(T.ok = (T.limit >= 1), "new-accepts-exactly-positive-sizes")

TPut ==
  /\ Ev("put") /\ MPut(T.k, T.v) /\ Observe /\ UNCHANGED lim
  /\ diag' = Name(PutResult(T.k), "put-reports-presence") \cup
             Name(PutStores(T.k, T.v), "put-stores-value") \cup
             Name(PutOthersKept(T.k), "put-changed-another-entry") \cup
             Name(PutOverwrite(T.k), "overwrite-evicted") \cup
             Name(PutEvictsOldest(T.k), "eviction-not-oldest-insertion")

TGet ==
  /\ Ev("get") /\ Observe /\ UNCHANGED <<mon, lim>>
  /\ diag' = Name(GetResult(T.k), "get-result") \cup Name(GetPure, "get-changed-contents")

TraceNext == TReset \/ TPut \/ TGet
TraceSpec == TraceInit /\ [][TraceNext]_tvars

DiagEmpty == diag = {}
HWM      == TLCSet(1, IF TLCGet(1) > l - 1 THEN TLCGet(1) ELSE l - 1)
Accepted == PrintT(<<"TRACE_HWM", TLCGet(1)>>) /\ TLCGet(1) = N
=============================================================================
