--------------------------- MODULE WorkersContract ---------------------------
(* Abstract contract of a verification worker pool (C26), stated over the     *)
(* events an outside observer can log: calls/returns of NewJob, Go, Done,     *)
(* Wait, Stop, the Done callback, and start/end of every task closure.        *)
(* Events are totally ordered by an atomic sequence number taken inside the   *)
(* event (a "call"/"go"/"done" record is taken before the real call, a "ret"  *)
(* record after the real return, start/end inside the closure), so the real   *)
(* order of the underlying pool operations is consistent with the log.        *)
(*                                                                            *)
(* Clauses (from the property statement):                                     *)
(*  C1 a job runs each of its tasks at most once                   (Start)    *)
(*  C2 runs all of them if none fails                              (WaitRet)  *)
(*  C3 reports an error iff some executed task failed, and the reported error *)
(*     is the error of an executed failing task of this job        (WaitRet)  *)
(*  C4 completes before the next job starts: tasks of different jobs never    *)
(*     overlap, a job never resumes after another one started, and every job  *)
(*     submitted (NewJob returned) before this job's NewJob was called has    *)
(*     finished when this job's first task starts                  (Start)    *)
(*  C5 Stop: pending jobs may report shutdown only when they ran nothing and   *)
(*     Stop had been called; jobs submitted after Stop returned report         *)
(*     shutdown; nothing runs after Stop returned, nothing is running when it  *)
(*     returns                                       (NewJobRet/Start/StopRet) *)
(*  "Completes"/"returns" (no hang) is decided by the driver's watchdog: it    *)
(*  logs a "hang" event, which no action of this contract explains.            *)
EXTENDS Naturals, FiniteSets

CONSTANTS J, T          \* job ids, task ids (per job)

VARIABLES kind,     \* "parallel" | "serial"  (the serial pool has no queue and no shutdown state: its tasks run on
                    \* the caller's goroutine inside Go, so C4 and C5 are not applied to it)
          jst,      \* [J -> "none","calling","open","closed","rejected","panicked"]
          before,   \* [J -> SUBSET J]  jobs whose NewJob had returned ok when this job's NewJob was called
          late,     \* [J -> BOOLEAN]   NewJob was called after Stop had returned
          gone,     \* [J -> SUBSET T]  tasks handed to Go
          started, ended, failed,       \* [J -> SUBSET T]
          sealed,   \* [J -> BOOLEAN]   the job may not start another task
          outcome,  \* [J -> "none","nil","shutdown","err"]
          cb,       \* [J -> Nat]       Done callbacks observed
          stop      \* "idle","called","returned"

cvars == <<kind, jst, before, late, gone, started, ended, failed, sealed, outcome, cb, stop>>

CInit(k) ==
  /\ kind = k
  /\ jst = [j \in J |-> "none"] /\ before = [j \in J |-> {}] /\ late = [j \in J |-> FALSE]
  /\ gone = [j \in J |-> {}] /\ started = [j \in J |-> {}] /\ ended = [j \in J |-> {}]
  /\ failed = [j \in J |-> {}] /\ sealed = [j \in J |-> FALSE]
  /\ outcome = [j \in J |-> "none"] /\ cb = [j \in J |-> 0] /\ stop = "idle"

Finished(i) == /\ started[i] = ended[i]
               /\ failed[i] = {} => started[i] = gone[i]

NewJobCall(j) ==
  /\ jst[j] = "none"
  /\ jst' = [jst EXCEPT ![j] = "calling"]
  /\ before' = [before EXCEPT ![j] = {i \in J : jst[i] \in {"open", "closed"}}]
  /\ late' = [late EXCEPT ![j] = (stop = "returned")]
  /\ UNCHANGED <<kind, gone, started, ended, failed, sealed, outcome, cb, stop>>

\* a NewJob that overlaps Stop panics in the code as it stands (send on closed channel): known finding,
\* accepted here and reported by the check, so that the rest of the scenario is still validated
KF_C26_submit_races_stop(j, res) == res = "panic" /\ stop # "idle" /\ ~late[j]

NewJobRet(j, res) ==
  /\ jst[j] = "calling"
  /\ \/ /\ res = "ok" /\ (kind = "parallel" => ~late[j])
        /\ jst' = [jst EXCEPT ![j] = "open"]
     \/ /\ res = "shutdown" /\ stop # "idle"
        /\ jst' = [jst EXCEPT ![j] = "rejected"]
     \/ /\ KF_C26_submit_races_stop(j, res)
        /\ jst' = [jst EXCEPT ![j] = "panicked"]
  /\ UNCHANGED <<kind, before, late, gone, started, ended, failed, sealed, outcome, cb, stop>>

Go(j, t) ==
  /\ jst[j] = "open" /\ t \notin gone[j]
  /\ gone' = [gone EXCEPT ![j] = @ \cup {t}]
  /\ UNCHANGED <<kind, jst, before, late, started, ended, failed, sealed, outcome, cb, stop>>

Done(j) ==
  /\ jst[j] = "open"
  /\ jst' = [jst EXCEPT ![j] = "closed"]
  /\ UNCHANGED <<kind, before, late, gone, started, ended, failed, sealed, outcome, cb, stop>>

Start(j, t) ==
  /\ jst[j] \in {"open", "closed"}
  /\ t \in gone[j]
  /\ t \notin started[j]                                               \* C1
  /\ outcome[j] = "none"                                               \* job already reported
  /\ kind = "parallel" =>
       /\ ~sealed[j]                                                   \* C4 a job never resumes
       /\ stop # "returned"                                            \* C5
       /\ \A i \in J \ {j} : started[i] = ended[i]                     \* C4 no overlap
       /\ \A i \in before[j] : jst[i] = "closed" /\ Finished(i)        \* C4 queue order
  /\ started' = [started EXCEPT ![j] = @ \cup {t}]
  /\ sealed' = [i \in J |-> IF i # j /\ started[i] # {} THEN TRUE ELSE sealed[i]]
  /\ UNCHANGED <<kind, jst, before, late, gone, ended, failed, outcome, cb, stop>>

End(j, t, res) ==
  /\ t \in started[j] \ ended[j]
  /\ ended' = [ended EXCEPT ![j] = @ \cup {t}]
  /\ failed' = [failed EXCEPT ![j] = IF res = "fail" THEN @ \cup {t} ELSE @]
  /\ UNCHANGED <<kind, jst, before, late, gone, started, sealed, outcome, cb, stop>>

\* Wait returned res; for res = "err" the error value identifies task <<ej, et>>
WaitRet(j, res, ej, et) ==
  /\ jst[j] = "closed" /\ outcome[j] = "none"
  /\ \/ /\ res = "shutdown"                                            \* C5
        /\ kind = "parallel" /\ stop # "idle" /\ started[j] = {}
     \/ /\ res = "nil"
        /\ started[j] = ended[j] /\ failed[j] = {} /\ started[j] = gone[j]   \* C2 C3
     \/ /\ res = "err"
        /\ started[j] = ended[j] /\ ej = j /\ et \in failed[j]               \* C3
  /\ outcome' = [outcome EXCEPT ![j] = res]
  /\ sealed' = [sealed EXCEPT ![j] = TRUE]
  /\ UNCHANGED <<kind, jst, before, late, gone, started, ended, failed, cb, stop>>

\* the function given to Done runs once, after the job's tasks completed
Callback(j) ==
  /\ jst[j] = "closed" /\ cb[j] = 0 /\ outcome[j] # "shutdown" /\ Finished(j)
  /\ cb' = [cb EXCEPT ![j] = 1]
  /\ sealed' = [sealed EXCEPT ![j] = TRUE]
  /\ UNCHANGED <<kind, jst, before, late, gone, started, ended, failed, outcome, stop>>

StopCall ==
  /\ stop = "idle" /\ stop' = "called"
  /\ UNCHANGED <<kind, jst, before, late, gone, started, ended, failed, sealed, outcome, cb>>

StopRet ==
  /\ stop = "called" /\ stop' = "returned"
  /\ kind = "parallel" => \A j \in J : started[j] = ended[j]           \* C5 all workers exited
  /\ UNCHANGED <<kind, jst, before, late, gone, started, ended, failed, sealed, outcome, cb>>

\* end of a scenario: everything the driver waited for has returned
Fin ==
  /\ \A j \in J : jst[j] = "closed" => outcome[j] # "none"
  /\ \A j \in J : jst[j] # "calling"
  /\ stop # "called"
  /\ UNCHANGED cvars

ContractTypeOK ==
  /\ \A j \in J : ended[j] \subseteq started[j] /\ started[j] \subseteq gone[j] /\ failed[j] \subseteq ended[j]
  /\ \A j \in J : cb[j] <= 1
\* the contract's own consequence: two jobs never have running tasks at the same time
NoTwoJobsRunning == kind = "parallel" => \A a, b \in J : a # b => (started[a] = ended[a] \/ started[b] = ended[b])
=============================================================================
