------------------------- MODULE DSMRNodeAccept_MC -------------------------
(* design step for C35: every block of 1..MaxCerts distinct certificates, each chunk local or remote,      *)
(* every response script of length <= MaxScript over Kinds, two blocks in a row.                            *)
EXTENDS DSMRNodeAccept
CONSTANTS MaxCerts, MaxScript, MaxBlocks, Original
VARIABLE nblk
mvars == <<avars, nblk>>

RECURSIVE SeqsUpTo(_, _)
SeqsUpTo(S, n) == IF n = 0 THEN {<<>>} ELSE LET r == SeqsUpTo(S, n - 1) IN r \cup {Append(s, x) : s \in r, x \in S}
Distinct(s) == \A i, j \in DOMAIN s : i # j => s[i] # s[j]
Blocks  == {s \in SeqsUpTo(Chunks, MaxCerts) : Len(s) >= 1 /\ Distinct(s)}
Scripts == SeqsUpTo(Kinds, MaxScript)

MCInit == AcceptInit /\ nblk = 0
MCNext ==
  \/ \E c \in Chunks : Store(c) /\ UNCHANGED nblk
  \/ /\ nblk < MaxBlocks
     /\ \E cs \in Blocks, sc \in Scripts : AcceptCall(cs, sc)
     /\ nblk' = nblk + 1
  \/ /\ \E c \in Chunks, k \in Kinds : IF Original THEN RequestAsOriginallyCoded(c, k) ELSE Request(c, k)
     /\ UNCHANGED nblk
  \/ AcceptReturn /\ UNCHANGED nblk
  \/ AcceptFail /\ UNCHANGED nblk
Progress == \/ \E c \in Chunks, k \in Kinds : IF Original THEN RequestAsOriginallyCoded(c, k) ELSE Request(c, k)
            \/ AcceptReturn \/ AcceptFail
MCSpec == MCInit /\ [][MCNext]_mvars /\ WF_mvars(Progress /\ UNCHANGED nblk)
=============================================================================
