------------------------- MODULE DSMRNodeAccept_MC -------------------------
(* design step for C35: every block of 1..MaxCerts distinct certificates, each chunk local or remote,      *)
(* every response script of length <= MaxScript over Kinds, two blocks in a row, every producer limit in    *)
(* Limits (chunks are stored ahead of the block only under the limit, as the signature-request path does).  *)
(* Variant: "fixed" (repaired code), "original" (as coded before), "ratelimited" (VerifyRemoteChunk also    *)
(* rate-limits fetched chunks; must violate Served), "appendfirst" (response appended before it is stored;  *)
(* must violate PrefixExact).  The fp-th store of a fetched chunk fails once, fp in 0..MaxFail.             *)
EXTENDS DSMRNodeAccept
CONSTANTS MaxCerts, MaxScript, MaxBlocks, Variant, Limits, MaxFail
VARIABLE nblk
mvars == <<avars, nblk>>

RECURSIVE SeqsUpTo(_, _)
SeqsUpTo(S, n) == IF n = 0 THEN {<<>>} ELSE LET r == SeqsUpTo(S, n - 1) IN r \cup {Append(s, x) : s \in r, x \in S}
Distinct(s) == \A i, j \in DOMAIN s : i # j => s[i] # s[j]
Blocks  == {s \in SeqsUpTo(Chunks, MaxCerts) : Len(s) >= 1 /\ Distinct(s)}
Scripts == SeqsUpTo(Kinds, MaxScript)

ProdOf(c) == IF c = "k3" THEN "v2" ELSE "v1"
Req(c, k) == CASE Variant = "original"    -> RequestAsOriginallyCoded(c, k)
               [] Variant = "ratelimited" -> RequestRateLimited(c, k)
               [] Variant = "appendfirst" -> RequestAppendBeforeStore(c, k)
               [] OTHER                   -> Request(c, k)

MCInit == nblk = 0 /\ \E lim \in Limits : AcceptInit(lim)
MCNext ==
  \/ \E c \in Chunks \ have : Cardinality({d \in pend : ProdOf(d) = ProdOf(c)}) + 1 <= limit /\ Store(c, ProdOf(c)) /\ UNCHANGED nblk
  \/ /\ nblk < MaxBlocks
     /\ \E cs \in Blocks, sc \in Scripts, fp \in 0..MaxFail : AcceptCall(cs, [i \in DOMAIN cs |-> ProdOf(cs[i])], sc, fp)
     /\ nblk' = nblk + 1
  \/ /\ \E c \in Chunks, k \in Kinds : Req(c, k)
     /\ UNCHANGED nblk
  \/ AcceptReturn /\ UNCHANGED nblk
  \/ AcceptFail /\ UNCHANGED nblk
Progress == \/ \E c \in Chunks, k \in Kinds : Req(c, k)
            \/ AcceptReturn \/ AcceptFail
MCSpec == MCInit /\ [][MCNext]_mvars /\ WF_mvars(Progress /\ UNCHANGED nblk)
=============================================================================
