SPECIFICATION Spec
CONSTANTS
  Txs = {"t1", "t2"}
  W = 2
  MaxTs = 3
  MaxBlocks = 4
INVARIANT NoDoubleInclusion
CHECK_DEADLOCK FALSE
