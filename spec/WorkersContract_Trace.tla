------------------------ MODULE WorkersContract_Trace ------------------------
(* Trace validation of executions recorded from the real internal/workers    *)
(* pools against WorkersContract (C26).  One ndjson line per observed event, *)
(* in the order of the driver's atomic sequence counter.                     *)
EXTENDS WorkersContract, TLC, Json, IOUtils, Sequences

VARIABLE l
Trace == ndJsonDeserialize(IOEnv.TRACE)
N     == Len(Trace)
tvars == <<cvars, l>>
Ev(e) == l <= N /\ Trace[l].ev = e /\ l' = l + 1
R     == Trace[l]

TraceInit == l = 2 /\ TLCSet(1, 1) /\ Trace[1].ev = "reset" /\ CInit(Trace[1].kind)

TReset == /\ Ev("reset")
          /\ kind' = R.kind
          /\ jst' = [j \in J |-> "none"] /\ before' = [j \in J |-> {}] /\ late' = [j \in J |-> FALSE]
          /\ gone' = [j \in J |-> {}] /\ started' = [j \in J |-> {}] /\ ended' = [j \in J |-> {}]
          /\ failed' = [j \in J |-> {}] /\ sealed' = [j \in J |-> FALSE]
          /\ outcome' = [j \in J |-> "none"] /\ cb' = [j \in J |-> 0] /\ stop' = "idle"
TNewJobCall == Ev("newjob_call") /\ NewJobCall(R.j)
TNewJobRet  == Ev("newjob_ret")  /\ NewJobRet(R.j, R.res)
TGo         == Ev("go")          /\ Go(R.j, R.t)
TDone       == Ev("done")        /\ Done(R.j)
TStart      == Ev("start")       /\ Start(R.j, R.t)
TEnd        == Ev("end")         /\ End(R.j, R.t, R.res)
TWaitRet    == Ev("wait_ret")    /\ WaitRet(R.j, R.res, R.ej, R.et)
TCallback   == Ev("callback")    /\ Callback(R.j)
TStopCall   == Ev("stop_call")   /\ StopCall
TStopRet    == Ev("stop_ret")    /\ StopRet
TFin        == Ev("fin")         /\ Fin
\* a "hang" line (watchdog) is explained by no action

TraceNext == TReset \/ TNewJobCall \/ TNewJobRet \/ TGo \/ TDone \/ TStart \/ TEnd \/ TWaitRet \/ TCallback
             \/ TStopCall \/ TStopRet \/ TFin
TraceSpec == TraceInit /\ [][TraceNext]_tvars

HWM      == TLCSet(1, IF TLCGet(1) > l - 1 THEN TLCGet(1) ELSE l - 1)
Accepted == PrintT(<<"TRACE_HWM", TLCGet(1)>>) /\ TLCGet(1) = N
=============================================================================
