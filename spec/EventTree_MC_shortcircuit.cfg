SPECIFICATION Spec
CONSTANTS
  NLeaf = 2
  Depth = 1
  Events = {0, 5}
  Variant = "shortcircuit"
INVARIANTS NotifyConforms CloseConforms
CHECK_DEADLOCK FALSE
