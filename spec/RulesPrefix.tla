----------------------------- MODULE RulesPrefix -----------------------------
(* C39 - metadata prefix conflict detection                                *)
(* (state/metadata/state_manager.go:HasConflictingPrefixes).               *)
(* A list of byte strings (sequences of naturals); the first three are the *)
(* chain metadata prefixes (height, fee, timestamp), the rest VM prefixes. *)
(* Property: a conflict is reported iff one entry is a prefix of another   *)
(* entry (equal entries and the empty string included).                    *)
EXTENDS Integers, Sequences

IsPrefix(p, q) == Len(p) <= Len(q) /\ SubSeq(q, 1, Len(p)) = p

Conflict(ps) == \E i \in DOMAIN ps : \E j \in DOMAIN ps : i # j /\ IsPrefix(ps[i], ps[j])

(* as coded: each prefix is compared, in both directions, with the ones    *)
(* verified before it; the first hit returns true                          *)
ConflictAsCoded(ps) ==
  \E i \in DOMAIN ps : \E j \in 1..(i - 1) : IsPrefix(ps[i], ps[j]) \/ IsPrefix(ps[j], ps[i])

(* a deliberately wrong variant (only "new entry is a prefix of an earlier *)
(* one"), used by the sensitivity run of the design step                   *)
ConflictForwardOnly(ps) == \E i \in DOMAIN ps : \E j \in 1..(i - 1) : IsPrefix(ps[i], ps[j])
=============================================================================
