SPECIFICATION TraceSpec
CONSTANTS
  Chunks = {"c1", "c2", "c3", "c4", "c5"}
  Producers = {"p1", "p2", "p3"}
CONSTRAINT HWM
INVARIANTS StorageTypeOK Durable WeightExact CertsPending NoLeak
PROPERTIES ReopenInvisible
POSTCONDITION Accepted
CHECK_DEADLOCK FALSE
