--------------------------- MODULE GenesisVM_Trace ---------------------------
(* C27 at the VM boundary: every initialisation of a chain from its genesis - the first one on an empty data           *)
(* directory and every later one on the same directory before any block beyond genesis was accepted - must present     *)
(* exactly the configured allocations (summed per address), height 0, a state whose root is the genesis block's state  *)
(* root, and the same genesis block.  One "vminit" line per real snow.VM.Initialize on vm.VM (drivers/vm).            *)
EXTENDS Integers, Sequences, FiniteSets, TLC, Json, IOUtils

VARIABLES l, firstBlk, diag
tvars == <<l, firstBlk, diag>>

Trace == ndJsonDeserialize(IOEnv.TRACE)
N     == Len(Trace)
T     == Trace[l]
Ev(e) == l <= N /\ Trace[l].ev = e /\ l' = l + 1

RECURSIVE SumFor(_, _, _)
SumFor(allocs, a, i) == IF i > Len(allocs) THEN 0
                        ELSE (IF allocs[i].a = a THEN allocs[i].b ELSE 0) + SumFor(allocs, a, i + 1)

TraceInit == l = 2 /\ TLCSet(1, 1) /\ Trace[1].ev = "reset" /\ firstBlk = "" /\ diag = {}
TReset    == Ev("reset") /\ firstBlk' = "" /\ diag' = {}

(* T.allocs: the configured list [a, b]; T.addrs: the addresses observed; T.bal: their balances in the VM's state *)
TVmInit ==
  /\ Ev("vminit")
  /\ diag' = (IF T.err # "" THEN {"initialisation-failed"} ELSE
               (IF T.height # 0 THEN {"height"} ELSE {}) \cup
               (IF \E i \in DOMAIN T.addrs : T.bal[i] # SumFor(T.allocs, T.addrs[i], 1) THEN {"allocations-differ"} ELSE {}) \cup
               (IF ~T.rooteq THEN {"state-root-differs-from-genesis-block"} ELSE {}) \cup
               (IF T.start > 0 /\ T.blkid # firstBlk THEN {"genesis-block-changed-on-restart"} ELSE {}))
  /\ firstBlk' = IF T.start = 0 THEN T.blkid ELSE firstBlk

TraceNext == TReset \/ TVmInit
TraceSpec == TraceInit /\ [][TraceNext]_tvars

DiagEmpty == diag = {}
HWM      == TLCSet(1, IF TLCGet(1) > l - 1 THEN TLCGet(1) ELSE l - 1)
Accepted == PrintT(<<"TRACE_HWM", TLCGet(1)>>) /\ TLCGet(1) = N
=============================================================================
