----------------------------- MODULE ChainIndex -----------------------------
(* chainindex/chain_index.go (property C19).                                 *)
(*                                                                           *)
(* Two layers in one module, stepped together:                               *)
(*  - the property monitor  (w, last, must, q): what the statement talks      *)
(*    about - the configured window, the last accepted height, the set of    *)
(*    blocks that must still be retrievable (genesis and the stored blocks   *)
(*    inside the window), and whether the index is at a point where pruning  *)
(*    has just run (after an accept or a restart);                           *)
(*  - the tables (blk, h2id, id2h): heights that have a block / a            *)
(*    height->id entry / an id->height entry, written and pruned exactly as  *)
(*    UpdateLastAccepted, SaveHistorical and cleanupOnStartup do.            *)
(* A block's id is a function of its height (one chain), so each table is a  *)
(* set of heights.  The invariants below are the statement; they constrain   *)
(* the tables by the monitor only.  ChainIndex_Trace.tla loads the tables    *)
(* observed on the real index into the same variables.                       *)
EXTENDS Integers, FiniteSets

CONSTANTS Heights,     \* 0 .. MaxH
          Windows      \* window sizes explored

VARIABLES w, last, must, q,     \* monitor (last = -1: nothing accepted yet)
          blk, h2id, id2h,      \* tables
          res                   \* result of the last call: "ok" / "err"

mon   == <<w, last, must, q>>
tabs  == <<blk, h2id, id2h>>
vars  == <<w, last, must, q, blk, h2id, id2h, res>>

(* genesis and the most recent `win` accepted heights *)
InWin(l, win) == {0} \cup {x \in Heights : x > l - win /\ x <= l}
Stored        == blk \cup h2id \cup id2h
NonGenesis    == Stored \ {0}

Init ==
  /\ w \in Windows /\ last = -1 /\ must = {} /\ q = TRUE
  /\ blk = {} /\ h2id = {} /\ id2h = {} /\ res = "ok"

(* ---------------- property monitor ---------------- *)
PAccept(h) ==          \* a block accepted at height h (heights of accepted blocks increase; the first one is genesis)
  /\ h \in Heights /\ h > last /\ (last = -1 => h = 0)
  /\ last' = h /\ must' = (must \cup {h}) \cap InWin(h, w) /\ q' = TRUE /\ w' = w

PSave(x) ==            \* a historical block below the tip (backfill)
  /\ last >= 0 /\ x \in Heights /\ 0 < x /\ x < last
  /\ must' = IF x \in InWin(last, w) THEN must \cup {x} ELSE must
  /\ q' = FALSE /\ UNCHANGED <<w, last>>

PRestart(w2) ==        \* the process restarts on the same database, possibly with another window
  /\ w2 \in Windows
  /\ w' = w2 /\ must' = must \cap InWin(last, w2) /\ q' = TRUE /\ last' = last

(* The process dies inside a call (crash point = after any number of its durable writes) and is reopened with   *)
(* the same window.  The durable step of a call is atomic: the reopened index is the image before or after the  *)
(* whole call; `took` says which (in a recorded trace it is read off the reopened index: last accepted height / *)
(* presence of the saved block).  Reopening runs the startup cleanup, so q holds.                                *)
PCrashAccept(h, took) ==
  /\ h \in Heights /\ h > last /\ (last = -1 => h = 0)
  /\ last' = IF took THEN h ELSE last
  /\ must' = IF took THEN (must \cup {h}) \cap InWin(h, w) ELSE must
  /\ q' = TRUE /\ w' = w

PCrashSave(x, took) ==
  /\ last >= 0 /\ x \in Heights /\ 0 < x /\ x < last
  /\ must' = IF took /\ x \in InWin(last, w) THEN must \cup {x} ELSE must
  /\ q' = TRUE /\ UNCHANGED <<w, last>>

(* ---------------- tables, as coded ---------------- *)
Write(h)     == blk' = blk \cup {h} /\ h2id' = h2id \cup {h} /\ id2h' = id2h \cup {h}
(* delete block, id->height (the id is read from height->id) and height->id for every height in D \subseteq h2id *)
WriteDel(h, D) == /\ blk'  = (blk  \ D) \cup {h}
                  /\ h2id' = (h2id \ D) \cup {h}
                  /\ id2h' = (id2h \ D) \cup {h}

(* UpdateLastAccepted after the fix: prune every stored height in 1..h-w (deleteBlocksBelow iterates height->id) *)
IAccept(h) ==
  /\ res' = "ok"
  /\ IF w = 0 \/ h - w <= 0 THEN Write(h)
     ELSE WriteDel(h, {x \in h2id : 0 < x /\ x <= h - w})

(* UpdateLastAccepted as originally coded: prune exactly h-w and fail when its height->id entry is missing *)
IAcceptAsOriginallyCoded(h) ==
  IF w = 0 \/ h - w <= 0 THEN res' = "ok" /\ Write(h)
  ELSE IF (h - w) \notin h2id THEN res' = "err" /\ UNCHANGED tabs          \* GetBlockIDAtHeight: not found; batch dropped
  ELSE res' = "ok" /\ WriteDel(h, {h - w})

ISave(x) == res' = "ok" /\ Write(x)

(* cleanupOnStartup: nothing when w = 0 or last <= w; else delete every stored height in 1 .. last-w-1 *)
IRestart(w2) ==
  /\ res' = "ok"
  /\ LET la == IF last < 0 THEN 0 ELSE last
         D  == IF w2 = 0 \/ la <= w2 THEN {} ELSE {x \in h2id : 0 < x /\ x < la - w2}
     IN blk' = blk \ D /\ h2id' = h2id \ D /\ id2h' = id2h \ D

(* crash inside UpdateLastAccepted / SaveHistorical followed by reopen: one batch.Write is the only durable write *)
(* of either call, so the image is the one before or after the whole call; then cleanupOnStartup runs.           *)
Tabs          == [blk |-> blk, h2id |-> h2id, id2h |-> id2h]
PruneSet(t, h)  == IF w = 0 \/ h - w <= 0 THEN {} ELSE {x \in t.h2id : 0 < x /\ x <= h - w}
AfterAccept(t, h) == LET D == PruneSet(t, h) IN
                     [blk |-> (t.blk \ D) \cup {h}, h2id |-> (t.h2id \ D) \cup {h}, id2h |-> (t.id2h \ D) \cup {h}]
AfterSave(t, x)   == [blk |-> t.blk \cup {x}, h2id |-> t.h2id \cup {x}, id2h |-> t.id2h \cup {x}]
(* the seeded two-batch variant: the pruning deletions are durable before the block and lastAccepted are *)
AfterPruneOnly(t, h) == LET D == PruneSet(t, h) IN [blk |-> t.blk \ D, h2id |-> t.h2id \ D, id2h |-> t.id2h \ D]
Cleanup(t, la)    == LET D == IF w = 0 \/ la <= w THEN {} ELSE {x \in t.h2id : 0 < x /\ x < la - w}
                     IN [blk |-> t.blk \ D, h2id |-> t.h2id \ D, id2h |-> t.id2h \ D]
SetTabs(t)        == blk' = t.blk /\ h2id' = t.h2id /\ id2h' = t.id2h

CrashAccept(h) == \E took \in BOOLEAN :
  /\ PCrashAccept(h, took)
  /\ res' = "ok"
  /\ SetTabs(Cleanup(IF took THEN AfterAccept(Tabs, h) ELSE Tabs, IF took THEN h ELSE IF last < 0 THEN 0 ELSE last))
CrashSave(x) == \E took \in BOOLEAN :
  /\ PCrashSave(x, took)
  /\ res' = "ok"
  /\ SetTabs(Cleanup(IF took THEN AfterSave(Tabs, x) ELSE Tabs, last))
(* crash between the two batch writes of the two-batch variant: pruned, but block h and lastAccepted not recorded *)
CrashAcceptTwoBatches(h) ==
  /\ PCrashAccept(h, FALSE)
  /\ res' = "ok"
  /\ SetTabs(Cleanup(AfterPruneOnly(Tabs, h), IF last < 0 THEN 0 ELSE last))

Accept(h)   == PAccept(h) /\ IAccept(h)
AcceptO(h)  == /\ h \in Heights /\ h > last /\ (last = -1 => h = 0)
               /\ IAcceptAsOriginallyCoded(h)
               /\ IF res' = "ok" THEN PAccept(h) ELSE UNCHANGED mon
Save(x)     == PSave(x) /\ ISave(x)
Restart(w2) == PRestart(w2) /\ IRestart(w2)

Next  == (\E h \in Heights : Accept(h) \/ Save(h) \/ CrashAccept(h) \/ CrashSave(h)) \/ (\E w2 \in Windows : Restart(w2))
NextT == Next \/ (\E h \in Heights : CrashAcceptTwoBatches(h))
NextO == (\E h \in Heights : AcceptO(h) \/ Save(h)) \/ (\E w2 \in Windows : Restart(w2))
Spec                 == Init /\ [][Next]_vars
SpecAsOriginallyCoded == Init /\ [][NextO]_vars
SpecTwoBatches        == Init /\ [][NextT]_vars

(* ---------------- the statement ---------------- *)
TypeOK == /\ w \in Windows /\ last \in Heights \cup {-1} /\ must \subseteq Heights
          /\ blk \subseteq Heights /\ h2id \subseteq Heights /\ id2h \subseteq Heights
(* recording an accepted block always succeeds on a healthy database *)
AcceptSucceeds   == res = "ok"
(* genesis and the most recent window of blocks stay retrievable by height and by id *)
WindowRetrievable == must \subseteq (blk \cap h2id \cap id2h)
(* ... with mutually consistent mappings: no dangling entry in any table *)
Consistent       == blk = h2id /\ h2id = id2h
(* no more than window-plus-one non-genesis blocks are retained (once pruning has run) *)
BoundedAll       == q => Cardinality(NonGenesis) <= w + 1
(* KNOWN FINDING C19 window-0-keeps-every-block: AcceptedBlockWindow = 0 disables pruning altogether       *)
(* (UpdateLastAccepted and cleanupOnStartup return early; TestChainIndex_Cleanup requires it), so the      *)
(* bound cannot hold for window 0.  Exactly that region is exempted; every other violation still fails.   *)
KF_C19_window0_keeps_every_block == w = 0
Bounded          == BoundedAll \/ KF_C19_window0_keeps_every_block
=============================================================================
