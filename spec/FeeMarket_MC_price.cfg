SPECIFICATION PriceSpec
CONSTANTS
  MAXU = 15
  W = 3
  Denoms = {1, 2, 3, 7, 15}
  Sinces = {0, 1, 2, 3, 4, 6, 7, 9, 15}
INVARIANTS FloorAtMin Direction Proportional Saturates MonotoneInUsage
CHECK_DEADLOCK FALSE
