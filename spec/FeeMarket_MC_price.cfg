SPECIFICATION PriceSpec
CONSTANTS
  MAXU = 15
  W = 3
  Denoms = {1, 2, 3, 15}
  Mins = {0, 1, 5, 14, 15}
  Sinces = {0, 2, 3, 4, 6, 7, 15}
INVARIANTS FloorAtMin Direction Proportional Saturates MonotoneInUsage
CHECK_DEADLOCK FALSE
