SPECIFICATION MSpecBlockDelete
CONSTANTS
  Keys = {a, b}
  Vals = {"0", "1", "2", "3"}
  MAXU = 3
  MaxTxs = 2
  MaxActs = 2
  Fees = {1}
SYMMETRY Sym
VIEW MView
INVARIANTS LedgerRefines CommitExact
CHECK_DEADLOCK FALSE
