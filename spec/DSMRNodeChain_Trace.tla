------------------------ MODULE DSMRNodeChain_Trace ------------------------
(* Trace validation of chains recorded from a real dsmr.Node with the real TimeValidityWindow (C37).      *)
(* verify / build / accept / addcert lines; the property of the statement is the guard of each line:      *)
(*   verify ok  => the block references no certificate twice, none of an ancestor, none that expired      *)
(*   build  ok  => the same for the block the builder produced                                            *)
(*   accept ok  => no chunk is delivered twice along the accepted chain                                   *)
(* The implementation-shaped VerifyResult of the model is compared softly (a MODEL_DISAGREES line is      *)
(* counted as evidence, it is not a verdict: the statement does not say which other blocks are rejected). *)
EXTENDS DSMRNodeChain, Json, IOUtils, SequencesExt

VARIABLE l

Trace == ndJsonDeserialize(IOEnv.TRACE)
N     == Len(Trace)
tvars == <<cvars, l>>
T     == Trace[l]

Ev(e) == l <= N /\ Trace[l].ev = e /\ l' = l + 1
BlockOf(t) == [parent |-> t.parent, h |-> t.h, ts |-> t.ts, certs |-> t.certs]
Soft(ok, tag) == IF ok THEN TRUE ELSE PrintT(<<"MODEL_DISAGREES", tag, l>>)

TraceInit ==
  /\ l = 2 /\ TLCSet(1, 1)
  /\ Trace[1].ev = "reset"
  /\ ChainInit([c \in Certs |-> Trace[1].exp[c]], Trace[1].win)

TReset ==
  /\ Ev("reset")
  /\ exp' = [c \in Certs |-> T.exp[c]] /\ win' = T.win
  /\ blocks' = [x \in {"g"} |-> Genesis] /\ lastAcc' = "g" /\ seen' = {} /\ lah' = 0
  /\ stored' = {} /\ smin' = 0 /\ delivered' = <<>> /\ built' = NoBlock /\ res' = "init"

TVerify ==
  /\ Ev("verify")
  /\ LET b == BlockOf(T) IN
     /\ b.parent \in DOMAIN blocks /\ lastAcc \in Path(b.parent)       \* harness precondition
     /\ SeqSet(b.certs) \subseteq Certs
     /\ T.res = "ok" => ~MustReject(b)                                  \* C37
     /\ Soft((T.res = "ok") = (VerifyResult(b, TRUE) = "ok"), "verify")
     /\ blocks' = IF T.res = "ok" THEN [x \in DOMAIN blocks \cup {T.b} |-> IF x = T.b THEN b ELSE blocks[x]] ELSE blocks
     /\ res' = T.res
  /\ UNCHANGED <<exp, win, lastAcc, seen, lah, stored, smin, delivered, built>>

TBuild ==
  /\ Ev("build")
  /\ T.parent \in DOMAIN blocks
  /\ IF T.res = "ok"
       THEN /\ SeqSet(T.certs) \subseteq Certs
            /\ ~MustReject(BlockOf(T))                                  \* C37, builder clause
            /\ Soft(SeqSet(T.certs) = BuildAvail(T.parent, T.ts), "build")
            /\ built' = BlockOf(T)
       ELSE /\ Soft(T.res # "nocerts" \/ BuildAvail(T.parent, T.ts) = {}, "build")
            /\ built' = NoBlock
  /\ res' = T.res
  /\ UNCHANGED <<exp, win, blocks, lastAcc, seen, lah, stored, smin, delivered>>

TAccept ==
  /\ Ev("accept") /\ T.res = "ok"
  /\ Accept(T.b, T.chunks)
  /\ ~HasDup(delivered')                                                \* C37, "delivered twice"
TAcceptErr ==                      \* the harness stops the scenario after a failed Accept
  /\ Ev("accept") /\ T.res # "ok" /\ res' = "err"
  /\ UNCHANGED <<exp, win, blocks, lastAcc, seen, lah, stored, smin, delivered, built>>

TAddCert ==
  /\ Ev("addcert")
  /\ Soft((T.res = "ok") = (exp[T.c] >= smin /\ exp[T.c] <= smin + win), "addcert")   \* admission rule of the ChunkVerifier
  /\ IF T.res = "ok" THEN AddCert(T.c)
                     ELSE res' = "rejected" /\ UNCHANGED <<exp, win, blocks, lastAcc, seen, lah, stored, smin, delivered, built>>

TraceNext == TReset \/ TVerify \/ TBuild \/ TAccept \/ TAcceptErr \/ TAddCert
TraceSpec == TraceInit /\ [][TraceNext]_tvars

HWM      == TLCSet(1, IF TLCGet(1) > l - 1 THEN TLCGet(1) ELSE l - 1)
Accepted == PrintT(<<"TRACE_HWM", TLCGet(1)>>) /\ TLCGet(1) = N
=============================================================================
