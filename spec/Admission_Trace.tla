-------------------------- MODULE Admission_Trace ---------------------------
(* Trace validation of the real vm.VM.Submit on a morpheusvm test network    *)
(* (X05) against the property level of Admission.tla.  Lines:                *)
(*   reset  {spmax, poolmax}       a fresh VM with these mempool limits      *)
(*   submit {batch, errs, pool}    VM.Submit(batch); batch[i] = {id, sp,     *)
(*                                 defect}; errs[i] = class of the i-th      *)
(*                                 verdict; pool = ids the mempool holds     *)
(*                                 after the call                            *)
(*   build  {txs, ok, fee, pool}   the next block built, verified, accepted  *)
(* The observed mempool contents are loaded into pool; the clauses of        *)
(* SubmitStep / BuildOK are evaluated on the step and named in diag.         *)
EXTENDS Admission, TLC, Json, IOUtils

VARIABLES l, diag
tvars == <<vars, l, diag>>

Trace == ndJsonDeserialize(IOEnv.TRACE)
N     == Len(Trace)
T     == Trace[l]
Ev(e) == l <= N /\ Trace[l].ev = e /\ l' = l + 1
Name(ok, n) == IF ok THEN {} ELSE {n}
Obs == SeqSet(T.pool)
Ext(f, b, field) == [t \in DOMAIN f \cup {b[i].id : i \in DOMAIN b} |->
                       IF \E i \in DOMAIN b : b[i].id = t THEN (LET i == CHOOSE i \in DOMAIN b : b[i].id = t IN
                                                                 IF field = "sp" THEN b[i].sp ELSE b[i].defect)
                       ELSE f[t]]

TraceInit == /\ l = 1 /\ TLCSet(1, 0) /\ sp = <<>> /\ df = <<>> /\ lim = [pool |-> 1, sponsor |-> 1]
             /\ pool = {} /\ acc = {} /\ errs = <<>> /\ batch = <<>> /\ blk = {} /\ diag = {}
TReset == /\ Ev("reset") /\ sp' = <<>> /\ df' = <<>> /\ lim' = [pool |-> T.poolmax, sponsor |-> T.spmax]
          /\ pool' = {} /\ acc' = {} /\ errs' = <<>> /\ batch' = <<>> /\ blk' = {} /\ diag' = {}

TSubmit ==
  /\ Ev("submit")
  /\ LET b   == [i \in DOMAIN T.batch |-> T.batch[i].id]
         sp2 == Ext(sp, T.batch, "sp")
         df2 == Ext(df, T.batch, "defect")
         exp(i) == IF b[i] \in pool THEN "not-added" ELSE IF b[i] \in acc THEN "duplicate"
                   ELSE IF df2[b[i]] # "none" THEN df2[b[i]] ELSE "nil"
         owned(s) == Cardinality({t \in Obs : sp2[t] = s})
         limit(t) == owned(sp2[t]) >= lim.sponsor \/ Cardinality(Obs) >= lim.pool
         dropped == {i \in DOMAIN b : T.errs[i] = "nil" /\ b[i] \notin Obs}
         (* the repaired Submit (fixes/X05-submit-reports-mempool-limit) answers "mempool-limit" for exactly the
            transactions the mempool refuses *)
         refused(i) == T.errs[i] = "mempool-limit" /\ exp(i) = "nil" /\ b[i] \notin Obs /\ limit(b[i])
     IN /\ sp' = sp2 /\ df' = df2 /\ UNCHANGED <<lim, acc, blk>>
        /\ batch' = b /\ errs' = T.errs /\ pool' = Obs
        /\ (IF \E i \in dropped : limit(b[i])
            THEN PrintT(<<"KF_HIT", "admitted-but-dropped-by-mempool-limit", l>>) ELSE TRUE)
        /\ diag' = Name(Len(T.errs) = Len(T.batch), "one-verdict-per-transaction") \cup
                   Name(Len(T.errs) # Len(T.batch) \/ \A i \in DOMAIN b : T.errs[i] = exp(i) \/ refused(i), "verdict-class") \cup
                   Name(\A i \in dropped : limit(b[i]), "admitted-but-not-pending") \cup
                   Name(\A i \in DOMAIN b : (i <= Len(T.errs) /\ T.errs[i] # "nil") => (b[i] \in Obs <=> b[i] \in pool), "rejected-but-membership-changed") \cup
                   Name(pool \subseteq Obs, "pending-transaction-lost") \cup
                   Name(Obs \ pool \subseteq SeqSet(b), "foreign-transaction-appeared")

TBuild ==
  /\ Ev("build")
  /\ UNCHANGED <<sp, df, lim>>
  /\ blk' = SeqSet(T.txs) /\ acc' = acc \cup SeqSet(T.txs) /\ pool' = Obs /\ errs' = <<>> /\ batch' = <<>>
  /\ diag' = Name(SeqSet(T.txs) = pool, "pending-transaction-not-in-next-block") \cup
             Name(Len(T.txs) = Cardinality(SeqSet(T.txs)) /\ SeqSet(T.txs) \cap acc = {}, "replayed-transaction") \cup
             Name(\A i \in DOMAIN T.fee : T.fee[i], "included-without-fee") \cup
             Name(\A i \in DOMAIN T.ok : T.ok[i], "admitted-transfer-failed") \cup
             Name(Obs = {}, "included-transaction-still-pending")

TraceNext == TReset \/ TSubmit \/ TBuild
TraceSpec == TraceInit /\ [][TraceNext]_tvars

DiagEmpty == diag = {}
HWM      == TLCSet(1, IF TLCGet(1) > l - 1 THEN TLCGet(1) ELSE l - 1)
Accepted == PrintT(<<"TRACE_HWM", TLCGet(1)>>) /\ TLCGet(1) = N
=============================================================================
