---- MODULE Fetcher_MC_TTrace_1790036762 ----
EXTENDS Sequences, TLCExt, Toolbox, Naturals, TLC, Fetcher_MC

_expression ==
    LET Fetcher_MC_TEExpression == INSTANCE Fetcher_MC_TEExpression
    IN Fetcher_MC_TEExpression!expression
----

_trace ==
    LET Fetcher_MC_TETrace == INSTANCE Fetcher_MC_TETrace
    IN Fetcher_MC_TETrace!trace
----

_inv ==
    ~(
        TLCGet("level") = Len(_TETrace)
        /\
        txmap = (<<2, 0>>)
        /\
        wait = ("no")
        /\
        fres = (<<"ok", "none">>)
        /\
        kst = ([a |-> "cached", b |-> "pending", EMPTY |-> "absent"])
        /\
        ferr = ("nil")
        /\
        hasWaiter = (<<TRUE, TRUE>>)
        /\
        panicked = (FALSE)
        /\
        fpc = ("sending")
        /\
        stopClosed = (FALSE)
        /\
        blockers = (<<2, 0>>)
        /\
        parentV = ([a |-> "v", b |-> "v"])
        /\
        waiterClosed = (<<FALSE, TRUE>>)
        /\
        gpc = (<<"done", "none">>)
        /\
        waitRes = ("none")
        /\
        kval = ([a |-> "v", b |-> "absent", EMPTY |-> "absent"])
        /\
        stopCalled = (FALSE)
        /\
        reads = ([a |-> 1, b |-> 0, EMPTY |-> 0])
        /\
        errSet = (FALSE)
        /\
        gres = (<<"ok", "none">>)
        /\
        nxt = (2)
        /\
        wpc = (<<"sel">>)
        /\
        tasksClosed = (FALSE)
        /\
        ggot = (<<{<<"a", "v">>}, {}>>)
        /\
        calls = (<<[tx |-> 1, keys |-> {"a", "b"}], [tx |-> 1, keys |-> {"a", "b"}]>>)
        /\
        kblocked = ([a |-> <<>>, b |-> <<1, 2>>, EMPTY |-> <<>>])
        /\
        grec = (<<2, 0>>)
        /\
        fsend = ({})
        /\
        tasksQ = (<<"b">>)
        /\
        wkey = (<<"a">>)
    )
----

_init ==
    /\ blockers = _TETrace[1].blockers
    /\ nxt = _TETrace[1].nxt
    /\ kval = _TETrace[1].kval
    /\ reads = _TETrace[1].reads
    /\ stopCalled = _TETrace[1].stopCalled
    /\ stopClosed = _TETrace[1].stopClosed
    /\ kst = _TETrace[1].kst
    /\ grec = _TETrace[1].grec
    /\ errSet = _TETrace[1].errSet
    /\ wkey = _TETrace[1].wkey
    /\ gres = _TETrace[1].gres
    /\ hasWaiter = _TETrace[1].hasWaiter
    /\ panicked = _TETrace[1].panicked
    /\ fpc = _TETrace[1].fpc
    /\ waiterClosed = _TETrace[1].waiterClosed
    /\ txmap = _TETrace[1].txmap
    /\ waitRes = _TETrace[1].waitRes
    /\ parentV = _TETrace[1].parentV
    /\ wait = _TETrace[1].wait
    /\ ggot = _TETrace[1].ggot
    /\ fres = _TETrace[1].fres
    /\ fsend = _TETrace[1].fsend
    /\ tasksClosed = _TETrace[1].tasksClosed
    /\ tasksQ = _TETrace[1].tasksQ
    /\ gpc = _TETrace[1].gpc
    /\ ferr = _TETrace[1].ferr
    /\ wpc = _TETrace[1].wpc
    /\ kblocked = _TETrace[1].kblocked
    /\ calls = _TETrace[1].calls
----

_next ==
    /\ \E i,j \in DOMAIN _TETrace:
        /\ \/ /\ j = i + 1
              /\ i = TLCGet("level")
        /\ blockers  = _TETrace[i].blockers
        /\ blockers' = _TETrace[j].blockers
        /\ nxt  = _TETrace[i].nxt
        /\ nxt' = _TETrace[j].nxt
        /\ kval  = _TETrace[i].kval
        /\ kval' = _TETrace[j].kval
        /\ reads  = _TETrace[i].reads
        /\ reads' = _TETrace[j].reads
        /\ stopCalled  = _TETrace[i].stopCalled
        /\ stopCalled' = _TETrace[j].stopCalled
        /\ stopClosed  = _TETrace[i].stopClosed
        /\ stopClosed' = _TETrace[j].stopClosed
        /\ kst  = _TETrace[i].kst
        /\ kst' = _TETrace[j].kst
        /\ grec  = _TETrace[i].grec
        /\ grec' = _TETrace[j].grec
        /\ errSet  = _TETrace[i].errSet
        /\ errSet' = _TETrace[j].errSet
        /\ wkey  = _TETrace[i].wkey
        /\ wkey' = _TETrace[j].wkey
        /\ gres  = _TETrace[i].gres
        /\ gres' = _TETrace[j].gres
        /\ hasWaiter  = _TETrace[i].hasWaiter
        /\ hasWaiter' = _TETrace[j].hasWaiter
        /\ panicked  = _TETrace[i].panicked
        /\ panicked' = _TETrace[j].panicked
        /\ fpc  = _TETrace[i].fpc
        /\ fpc' = _TETrace[j].fpc
        /\ waiterClosed  = _TETrace[i].waiterClosed
        /\ waiterClosed' = _TETrace[j].waiterClosed
        /\ txmap  = _TETrace[i].txmap
        /\ txmap' = _TETrace[j].txmap
        /\ waitRes  = _TETrace[i].waitRes
        /\ waitRes' = _TETrace[j].waitRes
        /\ parentV  = _TETrace[i].parentV
        /\ parentV' = _TETrace[j].parentV
        /\ wait  = _TETrace[i].wait
        /\ wait' = _TETrace[j].wait
        /\ ggot  = _TETrace[i].ggot
        /\ ggot' = _TETrace[j].ggot
        /\ fres  = _TETrace[i].fres
        /\ fres' = _TETrace[j].fres
        /\ fsend  = _TETrace[i].fsend
        /\ fsend' = _TETrace[j].fsend
        /\ tasksClosed  = _TETrace[i].tasksClosed
        /\ tasksClosed' = _TETrace[j].tasksClosed
        /\ tasksQ  = _TETrace[i].tasksQ
        /\ tasksQ' = _TETrace[j].tasksQ
        /\ gpc  = _TETrace[i].gpc
        /\ gpc' = _TETrace[j].gpc
        /\ ferr  = _TETrace[i].ferr
        /\ ferr' = _TETrace[j].ferr
        /\ wpc  = _TETrace[i].wpc
        /\ wpc' = _TETrace[j].wpc
        /\ kblocked  = _TETrace[i].kblocked
        /\ kblocked' = _TETrace[j].kblocked
        /\ calls  = _TETrace[i].calls
        /\ calls' = _TETrace[j].calls

\* Uncomment the ASSUME below to write the states of the error trace
\* to the given file in Json format. Note that you can pass any tuple
\* to `JsonSerialize`. For example, a sub-sequence of _TETrace.
    \* ASSUME
    \*     LET J == INSTANCE Json
    \*         IN J!JsonSerialize("Fetcher_MC_TTrace_1790036762.json", _TETrace)

=============================================================================

 Note that you can extract this module `Fetcher_MC_TEExpression`
  to a dedicated file to reuse `expression` (the module in the 
  dedicated `Fetcher_MC_TEExpression.tla` file takes precedence 
  over the module `Fetcher_MC_TEExpression` below).

---- MODULE Fetcher_MC_TEExpression ----
EXTENDS Sequences, TLCExt, Toolbox, Naturals, TLC, Fetcher_MC

expression == 
    [
        \* To hide variables of the `Fetcher_MC` spec from the error trace,
        \* remove the variables below.  The trace will be written in the order
        \* of the fields of this record.
        blockers |-> blockers
        ,nxt |-> nxt
        ,kval |-> kval
        ,reads |-> reads
        ,stopCalled |-> stopCalled
        ,stopClosed |-> stopClosed
        ,kst |-> kst
        ,grec |-> grec
        ,errSet |-> errSet
        ,wkey |-> wkey
        ,gres |-> gres
        ,hasWaiter |-> hasWaiter
        ,panicked |-> panicked
        ,fpc |-> fpc
        ,waiterClosed |-> waiterClosed
        ,txmap |-> txmap
        ,waitRes |-> waitRes
        ,parentV |-> parentV
        ,wait |-> wait
        ,ggot |-> ggot
        ,fres |-> fres
        ,fsend |-> fsend
        ,tasksClosed |-> tasksClosed
        ,tasksQ |-> tasksQ
        ,gpc |-> gpc
        ,ferr |-> ferr
        ,wpc |-> wpc
        ,kblocked |-> kblocked
        ,calls |-> calls
        
        \* Put additional constant-, state-, and action-level expressions here:
        \* ,_stateNumber |-> _TEPosition
        \* ,_blockersUnchanged |-> blockers = blockers'
        
        \* Format the `blockers` variable as Json value.
        \* ,_blockersJson |->
        \*     LET J == INSTANCE Json
        \*     IN J!ToJson(blockers)
        
        \* Lastly, you may build expressions over arbitrary sets of states by
        \* leveraging the _TETrace operator.  For example, this is how to
        \* count the number of times a spec variable changed up to the current
        \* state in the trace.
        \* ,_blockersModCount |->
        \*     LET F[s \in DOMAIN _TETrace] ==
        \*         IF s = 1 THEN 0
        \*         ELSE IF _TETrace[s].blockers # _TETrace[s-1].blockers
        \*             THEN 1 + F[s-1] ELSE F[s-1]
        \*     IN F[_TEPosition - 1]
    ]

=============================================================================



Parsing and semantic processing can take forever if the trace below is long.
 In this case, it is advised to uncomment the module below to deserialize the
 trace from a generated binary file.

\*
\*---- MODULE Fetcher_MC_TETrace ----
\*EXTENDS IOUtils, TLC, Fetcher_MC
\*
\*trace == IODeserialize("Fetcher_MC_TTrace_1790036762.bin", TRUE)
\*
\*=============================================================================
\*

---- MODULE Fetcher_MC_TETrace ----
EXTENDS TLC, Fetcher_MC

trace == 
    <<
    ([txmap |-> <<0, 0>>,wait |-> "no",fres |-> <<"none", "none">>,kst |-> [a |-> "absent", b |-> "absent", EMPTY |-> "absent"],ferr |-> "nil",hasWaiter |-> <<FALSE, FALSE>>,panicked |-> FALSE,fpc |-> "idle",stopClosed |-> FALSE,blockers |-> <<0, 0>>,parentV |-> [a |-> "v", b |-> "v"],waiterClosed |-> <<FALSE, FALSE>>,gpc |-> <<"none", "none">>,waitRes |-> "none",kval |-> [a |-> "absent", b |-> "absent", EMPTY |-> "absent"],stopCalled |-> FALSE,reads |-> [a |-> 0, b |-> 0, EMPTY |-> 0],errSet |-> FALSE,gres |-> <<"none", "none">>,nxt |-> 1,wpc |-> <<"sel">>,tasksClosed |-> FALSE,ggot |-> <<{}, {}>>,calls |-> <<[tx |-> 1, keys |-> {"a", "b"}], [tx |-> 1, keys |-> {"a", "b"}]>>,kblocked |-> [a |-> <<>>, b |-> <<>>, EMPTY |-> <<>>],grec |-> <<0, 0>>,fsend |-> {},tasksQ |-> <<>>,wkey |-> <<"EMPTY">>]),
    ([txmap |-> <<1, 0>>,wait |-> "no",fres |-> <<"none", "none">>,kst |-> [a |-> "pending", b |-> "pending", EMPTY |-> "absent"],ferr |-> "nil",hasWaiter |-> <<TRUE, FALSE>>,panicked |-> FALSE,fpc |-> "sending",stopClosed |-> FALSE,blockers |-> <<2, 0>>,parentV |-> [a |-> "v", b |-> "v"],waiterClosed |-> <<FALSE, FALSE>>,gpc |-> <<"none", "none">>,waitRes |-> "none",kval |-> [a |-> "absent", b |-> "absent", EMPTY |-> "absent"],stopCalled |-> FALSE,reads |-> [a |-> 0, b |-> 0, EMPTY |-> 0],errSet |-> FALSE,gres |-> <<"none", "none">>,nxt |-> 1,wpc |-> <<"sel">>,tasksClosed |-> FALSE,ggot |-> <<{}, {}>>,calls |-> <<[tx |-> 1, keys |-> {"a", "b"}], [tx |-> 1, keys |-> {"a", "b"}]>>,kblocked |-> [a |-> <<1>>, b |-> <<1>>, EMPTY |-> <<>>],grec |-> <<0, 0>>,fsend |-> {"a", "b"},tasksQ |-> <<>>,wkey |-> <<"EMPTY">>]),
    ([txmap |-> <<1, 0>>,wait |-> "no",fres |-> <<"none", "none">>,kst |-> [a |-> "pending", b |-> "pending", EMPTY |-> "absent"],ferr |-> "nil",hasWaiter |-> <<TRUE, FALSE>>,panicked |-> FALSE,fpc |-> "sending",stopClosed |-> FALSE,blockers |-> <<2, 0>>,parentV |-> [a |-> "v", b |-> "v"],waiterClosed |-> <<FALSE, FALSE>>,gpc |-> <<"none", "none">>,waitRes |-> "none",kval |-> [a |-> "absent", b |-> "absent", EMPTY |-> "absent"],stopCalled |-> FALSE,reads |-> [a |-> 0, b |-> 0, EMPTY |-> 0],errSet |-> FALSE,gres |-> <<"none", "none">>,nxt |-> 1,wpc |-> <<"sel">>,tasksClosed |-> FALSE,ggot |-> <<{}, {}>>,calls |-> <<[tx |-> 1, keys |-> {"a", "b"}], [tx |-> 1, keys |-> {"a", "b"}]>>,kblocked |-> [a |-> <<1>>, b |-> <<1>>, EMPTY |-> <<>>],grec |-> <<0, 0>>,fsend |-> {"b"},tasksQ |-> <<"a">>,wkey |-> <<"EMPTY">>]),
    ([txmap |-> <<1, 0>>,wait |-> "no",fres |-> <<"none", "none">>,kst |-> [a |-> "pending", b |-> "pending", EMPTY |-> "absent"],ferr |-> "nil",hasWaiter |-> <<TRUE, FALSE>>,panicked |-> FALSE,fpc |-> "sending",stopClosed |-> FALSE,blockers |-> <<2, 0>>,parentV |-> [a |-> "v", b |-> "v"],waiterClosed |-> <<FALSE, FALSE>>,gpc |-> <<"none", "none">>,waitRes |-> "none",kval |-> [a |-> "absent", b |-> "absent", EMPTY |-> "absent"],stopCalled |-> FALSE,reads |-> [a |-> 0, b |-> 0, EMPTY |-> 0],errSet |-> FALSE,gres |-> <<"none", "none">>,nxt |-> 1,wpc |-> <<"sel">>,tasksClosed |-> FALSE,ggot |-> <<{}, {}>>,calls |-> <<[tx |-> 1, keys |-> {"a", "b"}], [tx |-> 1, keys |-> {"a", "b"}]>>,kblocked |-> [a |-> <<1>>, b |-> <<1>>, EMPTY |-> <<>>],grec |-> <<0, 0>>,fsend |-> {},tasksQ |-> <<"a", "b">>,wkey |-> <<"EMPTY">>]),
    ([txmap |-> <<1, 0>>,wait |-> "no",fres |-> <<"ok", "none">>,kst |-> [a |-> "pending", b |-> "pending", EMPTY |-> "absent"],ferr |-> "nil",hasWaiter |-> <<TRUE, FALSE>>,panicked |-> FALSE,fpc |-> "idle",stopClosed |-> FALSE,blockers |-> <<2, 0>>,parentV |-> [a |-> "v", b |-> "v"],waiterClosed |-> <<FALSE, FALSE>>,gpc |-> <<"none", "none">>,waitRes |-> "none",kval |-> [a |-> "absent", b |-> "absent", EMPTY |-> "absent"],stopCalled |-> FALSE,reads |-> [a |-> 0, b |-> 0, EMPTY |-> 0],errSet |-> FALSE,gres |-> <<"none", "none">>,nxt |-> 2,wpc |-> <<"sel">>,tasksClosed |-> FALSE,ggot |-> <<{}, {}>>,calls |-> <<[tx |-> 1, keys |-> {"a", "b"}], [tx |-> 1, keys |-> {"a", "b"}]>>,kblocked |-> [a |-> <<1>>, b |-> <<1>>, EMPTY |-> <<>>],grec |-> <<0, 0>>,fsend |-> {},tasksQ |-> <<"a", "b">>,wkey |-> <<"EMPTY">>]),
    ([txmap |-> <<2, 0>>,wait |-> "no",fres |-> <<"ok", "none">>,kst |-> [a |-> "pending", b |-> "pending", EMPTY |-> "absent"],ferr |-> "nil",hasWaiter |-> <<TRUE, TRUE>>,panicked |-> FALSE,fpc |-> "sending",stopClosed |-> FALSE,blockers |-> <<2, 2>>,parentV |-> [a |-> "v", b |-> "v"],waiterClosed |-> <<FALSE, FALSE>>,gpc |-> <<"none", "none">>,waitRes |-> "none",kval |-> [a |-> "absent", b |-> "absent", EMPTY |-> "absent"],stopCalled |-> FALSE,reads |-> [a |-> 0, b |-> 0, EMPTY |-> 0],errSet |-> FALSE,gres |-> <<"none", "none">>,nxt |-> 2,wpc |-> <<"sel">>,tasksClosed |-> FALSE,ggot |-> <<{}, {}>>,calls |-> <<[tx |-> 1, keys |-> {"a", "b"}], [tx |-> 1, keys |-> {"a", "b"}]>>,kblocked |-> [a |-> <<1, 2>>, b |-> <<1, 2>>, EMPTY |-> <<>>],grec |-> <<0, 0>>,fsend |-> {},tasksQ |-> <<"a", "b">>,wkey |-> <<"EMPTY">>]),
    ([txmap |-> <<2, 0>>,wait |-> "no",fres |-> <<"ok", "none">>,kst |-> [a |-> "pending", b |-> "pending", EMPTY |-> "absent"],ferr |-> "nil",hasWaiter |-> <<TRUE, TRUE>>,panicked |-> FALSE,fpc |-> "sending",stopClosed |-> FALSE,blockers |-> <<2, 2>>,parentV |-> [a |-> "v", b |-> "v"],waiterClosed |-> <<FALSE, FALSE>>,gpc |-> <<"none", "none">>,waitRes |-> "none",kval |-> [a |-> "absent", b |-> "absent", EMPTY |-> "absent"],stopCalled |-> FALSE,reads |-> [a |-> 0, b |-> 0, EMPTY |-> 0],errSet |-> FALSE,gres |-> <<"none", "none">>,nxt |-> 2,wpc |-> <<"read">>,tasksClosed |-> FALSE,ggot |-> <<{}, {}>>,calls |-> <<[tx |-> 1, keys |-> {"a", "b"}], [tx |-> 1, keys |-> {"a", "b"}]>>,kblocked |-> [a |-> <<1, 2>>, b |-> <<1, 2>>, EMPTY |-> <<>>],grec |-> <<0, 0>>,fsend |-> {},tasksQ |-> <<"b">>,wkey |-> <<"a">>]),
    ([txmap |-> <<2, 0>>,wait |-> "no",fres |-> <<"ok", "none">>,kst |-> [a |-> "pending", b |-> "pending", EMPTY |-> "absent"],ferr |-> "nil",hasWaiter |-> <<TRUE, TRUE>>,panicked |-> FALSE,fpc |-> "sending",stopClosed |-> FALSE,blockers |-> <<2, 2>>,parentV |-> [a |-> "v", b |-> "v"],waiterClosed |-> <<FALSE, FALSE>>,gpc |-> <<"none", "none">>,waitRes |-> "none",kval |-> [a |-> "absent", b |-> "absent", EMPTY |-> "absent"],stopCalled |-> FALSE,reads |-> [a |-> 1, b |-> 0, EMPTY |-> 0],errSet |-> FALSE,gres |-> <<"none", "none">>,nxt |-> 2,wpc |-> <<"set">>,tasksClosed |-> FALSE,ggot |-> <<{}, {}>>,calls |-> <<[tx |-> 1, keys |-> {"a", "b"}], [tx |-> 1, keys |-> {"a", "b"}]>>,kblocked |-> [a |-> <<1, 2>>, b |-> <<1, 2>>, EMPTY |-> <<>>],grec |-> <<0, 0>>,fsend |-> {},tasksQ |-> <<"b">>,wkey |-> <<"a">>]),
    ([txmap |-> <<2, 0>>,wait |-> "no",fres |-> <<"ok", "none">>,kst |-> [a |-> "cached", b |-> "pending", EMPTY |-> "absent"],ferr |-> "nil",hasWaiter |-> <<TRUE, TRUE>>,panicked |-> FALSE,fpc |-> "sending",stopClosed |-> FALSE,blockers |-> <<2, 0>>,parentV |-> [a |-> "v", b |-> "v"],waiterClosed |-> <<FALSE, TRUE>>,gpc |-> <<"none", "none">>,waitRes |-> "none",kval |-> [a |-> "v", b |-> "absent", EMPTY |-> "absent"],stopCalled |-> FALSE,reads |-> [a |-> 1, b |-> 0, EMPTY |-> 0],errSet |-> FALSE,gres |-> <<"none", "none">>,nxt |-> 2,wpc |-> <<"sel">>,tasksClosed |-> FALSE,ggot |-> <<{}, {}>>,calls |-> <<[tx |-> 1, keys |-> {"a", "b"}], [tx |-> 1, keys |-> {"a", "b"}]>>,kblocked |-> [a |-> <<>>, b |-> <<1, 2>>, EMPTY |-> <<>>],grec |-> <<0, 0>>,fsend |-> {},tasksQ |-> <<"b">>,wkey |-> <<"a">>]),
    ([txmap |-> <<2, 0>>,wait |-> "no",fres |-> <<"ok", "none">>,kst |-> [a |-> "cached", b |-> "pending", EMPTY |-> "absent"],ferr |-> "nil",hasWaiter |-> <<TRUE, TRUE>>,panicked |-> FALSE,fpc |-> "sending",stopClosed |-> FALSE,blockers |-> <<2, 0>>,parentV |-> [a |-> "v", b |-> "v"],waiterClosed |-> <<FALSE, TRUE>>,gpc |-> <<"waiting", "none">>,waitRes |-> "none",kval |-> [a |-> "v", b |-> "absent", EMPTY |-> "absent"],stopCalled |-> FALSE,reads |-> [a |-> 1, b |-> 0, EMPTY |-> 0],errSet |-> FALSE,gres |-> <<"none", "none">>,nxt |-> 2,wpc |-> <<"sel">>,tasksClosed |-> FALSE,ggot |-> <<{}, {}>>,calls |-> <<[tx |-> 1, keys |-> {"a", "b"}], [tx |-> 1, keys |-> {"a", "b"}]>>,kblocked |-> [a |-> <<>>, b |-> <<1, 2>>, EMPTY |-> <<>>],grec |-> <<2, 0>>,fsend |-> {},tasksQ |-> <<"b">>,wkey |-> <<"a">>]),
    ([txmap |-> <<2, 0>>,wait |-> "no",fres |-> <<"ok", "none">>,kst |-> [a |-> "cached", b |-> "pending", EMPTY |-> "absent"],ferr |-> "nil",hasWaiter |-> <<TRUE, TRUE>>,panicked |-> FALSE,fpc |-> "sending",stopClosed |-> FALSE,blockers |-> <<2, 0>>,parentV |-> [a |-> "v", b |-> "v"],waiterClosed |-> <<FALSE, TRUE>>,gpc |-> <<"done", "none">>,waitRes |-> "none",kval |-> [a |-> "v", b |-> "absent", EMPTY |-> "absent"],stopCalled |-> FALSE,reads |-> [a |-> 1, b |-> 0, EMPTY |-> 0],errSet |-> FALSE,gres |-> <<"ok", "none">>,nxt |-> 2,wpc |-> <<"sel">>,tasksClosed |-> FALSE,ggot |-> <<{<<"a", "v">>}, {}>>,calls |-> <<[tx |-> 1, keys |-> {"a", "b"}], [tx |-> 1, keys |-> {"a", "b"}]>>,kblocked |-> [a |-> <<>>, b |-> <<1, 2>>, EMPTY |-> <<>>],grec |-> <<2, 0>>,fsend |-> {},tasksQ |-> <<"b">>,wkey |-> <<"a">>])
    >>
----


=============================================================================

---- CONFIG Fetcher_MC_TTrace_1790036762 ----
CONSTANTS
    Keys = { "a" , "b" }
    NC = 2
    NW = 1
    TxCap = 2
    CallShapes <- ShapesAll
    Original = "dupid"

INVARIANT
    _inv

CHECK_DEADLOCK
    \* CHECK_DEADLOCK off because of PROPERTY or INVARIANT above.
    FALSE

INIT
    _init

NEXT
    _next

CONSTANT
    _TETrace <- _trace

ALIAS
    _expression
=============================================================================
\* Generated on Tue Sep 22 00:26:26 UTC 2026