--------------------------- MODULE SyncClient_Trace -------------------------
(* Trace validation of the real statesync.Client (X08).  One line per        *)
(* scenario (a complete run of one client):                                  *)
(*   run {n, min, flag0, must, last, target, fail, order, mode, calls,       *)
(*        waitres, flag, fatal, started, must2}                              *)
(* flag0 = marker on disk before the client was created, must = what         *)
(* MustStateSync() answered, fail = the points scripted to fail, mode = what *)
(* Accept returned ("skipped" | "dynamic" | "error" | "parked" = it logged a *)
(* fatal error and would have panicked), calls = what the client called, in  *)
(* order, waitres = what Wait() reported, flag = marker on disk afterwards,  *)
(* fatal = fatal errors logged, must2 = MustStateSync() of a new client on   *)
(* the same disk.  The observation is loaded into the variables of           *)
(* SyncClient.tla and its invariants are evaluated on it.                    *)
EXTENDS SyncClient, TLC, Json, IOUtils

VARIABLES l, diag
tvars == <<vars, l, diag>>

Trace == ndJsonDeserialize(IOEnv.TRACE)
N     == Len(Trace)
T     == Trace[l]
Ev(e) == l <= N /\ Trace[l].ev = e /\ l' = l + 1
Name(ok, nm) == IF ok THEN {} ELSE {nm}
SeqSet(s) == {s[i] : i \in DOMAIN s}
THeights == 0..16

TraceInit == /\ l = 1 /\ TLCSet(1, 0) /\ cfg = [n |-> 1, min |-> 0] /\ flag = FALSE /\ must = FALSE /\ last = 0 /\ target = 0
             /\ fail = {} /\ phase = "idle" /\ calls = <<>> /\ pending = {} /\ waitres = "pending" /\ diag = {}
TReset == Ev("reset") /\ UNCHANGED vars /\ diag' = {}

(* the failure of onFinish / of clearing the marker is swallowed by the code as originally written: Wait() reports
   success, nothing is fatal, the marker stays set (fixes/X08-…); recognised, reported, and the run is otherwise checked *)
KF_X08_finish_error_swallowed ==
  /\ T.waitres = "nil" /\ T.mode = "dynamic" /\ T.fatal = 0
  /\ \E i \in DOMAIN T.fail : T.fail[i][1] \in {"onFinish", "clearFlag"}

TRun ==
  /\ Ev("run")
  /\ cfg' = [n |-> T.n, min |-> T.min] /\ must' = T.must /\ last' = T.last /\ target' = T.target
  /\ fail' = {<<T.fail[i][1], T.fail[i][2]>> : i \in DOMAIN T.fail}
  /\ calls' = [i \in DOMAIN T.calls |-> <<T.calls[i][1], T.calls[i][2]>>]
  /\ flag' = T.flag /\ pending' = {}
  /\ (IF KF_X08_finish_error_swallowed THEN PrintT(<<"KF_HIT", "finish-error-swallowed", l>>) ELSE TRUE)
  /\ waitres' = (IF KF_X08_finish_error_swallowed THEN "err" ELSE T.waitres)      \* judged as the failure it is
  /\ phase' = (IF T.mode = "skipped" THEN "skipped"
               ELSE IF T.fatal > 0 \/ KF_X08_finish_error_swallowed THEN "fatal"
               ELSE IF T.waitres = "nil" THEN "done" ELSE "syncing")
  /\ diag' = Name(T.must = T.flag0, "must-sync-differs-from-the-marker-on-disk") \cup
             Name(T.must2 = T.flag, "restart-does-not-see-the-marker") \cup
             Name(T.mode \in {"skipped", "dynamic", "parked"}, "accept-result") \cup
             Name(T.mode = "parked" => T.fatal > 0, "accept-hung") \cup
             Name(T.started = (T.mode # "skipped"), "started-flag") \cup
             (* a failing start step / syncer is fatal and never reports success *)
             Name((\E i \in DOMAIN T.calls : <<T.calls[i][1], T.calls[i][2]>> \in {<<"onStart", 0>>} \cup {<<"start", k>> : k \in 1..T.n}
                      /\ \E j \in DOMAIN T.fail : T.fail[j][1] = T.calls[i][1] /\ T.fail[j][2] = T.calls[i][2])
                  => (T.fatal > 0 /\ T.waitres # "nil"), "start-failure-not-fatal") \cup
             Name((\E i \in DOMAIN T.calls : T.calls[i][1] = "waited" /\ \E j \in DOMAIN T.fail : T.fail[j][1] = "wait" /\ T.fail[j][2] = T.calls[i][2])
                  => (T.fatal > 0 /\ T.waitres # "nil"), "syncer-failure-not-fatal") \cup
             (* a run with no failing point that is not skipped completes *)
             Name((T.fail = <<>> /\ T.mode = "dynamic") => (T.waitres = "nil" /\ ~T.flag /\ T.fatal = 0), "healthy-sync-did-not-complete")

TraceNext == TReset \/ TRun
TraceSpec == TraceInit /\ [][TraceNext]_tvars

DiagEmpty == diag = {}
HWM      == TLCSet(1, IF TLCGet(1) > l - 1 THEN TLCGet(1) ELSE l - 1)
Accepted == PrintT(<<"TRACE_HWM", TLCGet(1)>>) /\ TLCGet(1) = N
=============================================================================
